#!/bin/bash
# run.sh <Cxx> <quick|thorough>   |   run.sh <Cxx> --replay <file>
# Rebuilds the check binary from /repo's current working tree (build tag verif) into a
# scratch directory outside /repo and /verif, runs it, removes the scratch directory.
set -u
cd "$(dirname "$0")"
VERIF_DIR="$(pwd)"
export GOFLAGS=-mod=mod GOPROXY=off GOSUMDB=off GOTOOLCHAIN=local
export GOCACHE="${GOCACHE:-$HOME/.cache/go-build}"
ID="${1:?property id}"; shift
SCRATCH="$(mktemp -d "${TMPDIR:-/tmp}/verif-$ID-XXXXXX")"
trap 'rm -rf "$SCRATCH"' EXIT
export VERIF_SCRATCH="$SCRATCH"
case "$ID" in
  C20) exec_sh="$VERIF_DIR/mc/c20.sh" ;;
  *) exec_sh="" ;;
esac
if [ -n "$exec_sh" ] && [ -x "$exec_sh" ]; then
  "$exec_sh" "$SCRATCH" "$@"; exit $?
fi
if ! (cd "$VERIF_DIR/mc" && go build -tags verif -o "$SCRATCH/check" ./cmd/check) >"$SCRATCH/build.log" 2>&1; then
  cat "$SCRATCH/build.log"
  echo "BUILD-FAILED property=$ID (the harness could not be built against /repo's working tree)"
  exit 2
fi
"$SCRATCH/check" "$ID" "$@"
exit $?
