// Package sync is the shim that replaces "sync" in the instrumented library packages (import
// rewriting by go build -overlay). Under a controlled execution every operation is a scheduling
// point and blocking is modelled; the real primitive is still used so that a race detector sees
// genuine synchronisation. Outside a controlled execution everything passes straight through.
package sync

import (
	realsync "sync"

	"github.com/tjfoc/gmsm/zzverif/vsched"
)

type Locker = realsync.Locker
type WaitGroup = realsync.WaitGroup
type Map = realsync.Map
type Cond = realsync.Cond

func NewCond(l Locker) *Cond { return realsync.NewCond(l) }

type Mutex struct {
	real realsync.Mutex
	held bool
}

func (m *Mutex) Lock() {
	if !vsched.Active() {
		m.real.Lock()
		return
	}
	vsched.Point()
	vsched.Wait(func() bool { return !m.held })
	m.held = true
	m.real.Lock()
}

func (m *Mutex) Unlock() {
	if !vsched.Active() {
		m.real.Unlock()
		return
	}
	m.held = false
	m.real.Unlock()
	vsched.Point()
}

type RWMutex struct {
	real    realsync.RWMutex
	writer  bool
	readers int
}

func (m *RWMutex) Lock() {
	if !vsched.Active() {
		m.real.Lock()
		return
	}
	vsched.Point()
	vsched.Wait(func() bool { return !m.writer && m.readers == 0 })
	m.writer = true
	m.real.Lock()
}

func (m *RWMutex) Unlock() {
	if !vsched.Active() {
		m.real.Unlock()
		return
	}
	m.writer = false
	m.real.Unlock()
	vsched.Point()
}

func (m *RWMutex) RLock() {
	if !vsched.Active() {
		m.real.RLock()
		return
	}
	vsched.Point()
	vsched.Wait(func() bool { return !m.writer })
	m.readers++
	m.real.RLock()
}

func (m *RWMutex) RUnlock() {
	if !vsched.Active() {
		m.real.RUnlock()
		return
	}
	m.readers--
	m.real.RUnlock()
	vsched.Point()
}

func (m *RWMutex) RLocker() Locker { return (*rlocker)(m) }

type rlocker RWMutex

func (r *rlocker) Lock()   { (*RWMutex)(r).RLock() }
func (r *rlocker) Unlock() { (*RWMutex)(r).RUnlock() }

type Once struct {
	m    Mutex
	done bool
}

func (o *Once) Do(f func()) {
	if !vsched.Active() {
		o.m.Lock()
		defer o.m.Unlock()
		if !o.done {
			defer func() { o.done = true }()
			f()
		}
		return
	}
	vsched.Point()
	if o.done { // fast path, like the real Once (an atomic load)
		return
	}
	o.m.Lock()
	defer o.m.Unlock()
	if !o.done {
		defer func() { o.done = true }()
		f()
	}
}

// Pool: under a controlled execution Get and Put are scheduling points and Get always returns the
// most recently Put object - the behaviour sync.Pool permits that is hardest on a caller who keeps
// using an object after putting it back. Outside a controlled execution the real pool is used.
type Pool struct {
	New   func() interface{}
	real  realsync.Pool
	items []interface{}
}

func (p *Pool) Get() interface{} {
	if !vsched.Active() {
		if v := p.real.Get(); v != nil {
			return v
		}
		if p.New != nil {
			return p.New()
		}
		return nil
	}
	vsched.Point()
	if n := len(p.items); n > 0 {
		x := p.items[n-1]
		p.items = p.items[:n-1]
		return x
	}
	if p.New != nil {
		return p.New()
	}
	return nil
}

func (p *Pool) Put(x interface{}) {
	if !vsched.Active() {
		p.real.Put(x)
		return
	}
	p.items = append(p.items, x)
	vsched.Point()
}
