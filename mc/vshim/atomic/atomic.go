// Package atomic is the shim for "sync/atomic": every operation is a scheduling point, then the
// real operation runs.
package atomic

import (
	realatomic "sync/atomic"

	"github.com/tjfoc/gmsm/zzverif/vsched"
)

func LoadInt32(p *int32) int32             { vsched.Point(); return realatomic.LoadInt32(p) }
func LoadUint32(p *uint32) uint32          { vsched.Point(); return realatomic.LoadUint32(p) }
func StoreUint32(p *uint32, v uint32)      { vsched.Point(); realatomic.StoreUint32(p, v) }
func StoreInt32(p *int32, v int32)         { vsched.Point(); realatomic.StoreInt32(p, v) }
func AddInt32(p *int32, d int32) int32     { vsched.Point(); return realatomic.AddInt32(p, d) }
func AddUint32(p *uint32, d uint32) uint32 { vsched.Point(); return realatomic.AddUint32(p, d) }
func CompareAndSwapInt32(p *int32, o, n int32) bool {
	vsched.Point()
	return realatomic.CompareAndSwapInt32(p, o, n)
}
func CompareAndSwapUint32(p *uint32, o, n uint32) bool {
	vsched.Point()
	return realatomic.CompareAndSwapUint32(p, o, n)
}
func LoadInt64(p *int64) int64         { vsched.Point(); return realatomic.LoadInt64(p) }
func StoreInt64(p *int64, v int64)     { vsched.Point(); realatomic.StoreInt64(p, v) }
func AddInt64(p *int64, d int64) int64 { vsched.Point(); return realatomic.AddInt64(p, d) }
