package wire

// HSEditor is a Policy that lets a man in the middle edit PLAINTEXT handshake messages (those sent
// before the sender's ChangeCipherSpec). Messages are reassembled from records, handed to Edit one
// by one, and whatever Edit returns is re-framed with one message per record.
type HSEditor struct {
	// Edit receives the direction (true = sent by the client), the index of the message within that
	// direction and the full message (type, 24-bit length, body); it returns the messages to deliver
	// instead (nil = drop). A returned entry that starts with 0xFF is sent as raw record bytes
	// (without the marker) instead of being framed as a handshake message.
	Edit func(fromClient bool, index int, msg []byte) [][]byte
	// Other (optional) sees every other record (CCS, alerts, protected records).
	Other func(n *Net, r Record) [][]byte
	// Idle (optional) is OnIdle.
	Idle func(n *Net) bool

	buf  [2][]byte
	idx  [2]int
	ccs  [2]bool
	Msgs [2][][]byte // messages seen (before editing), per direction
}

func frame(vers uint16, typ byte, body []byte) []byte {
	return append([]byte{typ, byte(vers >> 8), byte(vers), byte(len(body) >> 8), byte(len(body))}, body...)
}

// Frame builds a record.
func Frame(vers uint16, typ byte, body []byte) []byte { return frame(vers, typ, body) }

func (h *HSEditor) Deliver(n *Net, r Record) [][]byte {
	d := 0
	if r.From != n.A {
		d = 1
	}
	if r.Type == 20 {
		h.ccs[d] = true
	}
	if r.Type != 22 || h.ccs[d] {
		if h.Other != nil {
			return h.Other(n, r)
		}
		return [][]byte{r.Raw}
	}
	h.buf[d] = append(h.buf[d], r.Body()...)
	var out [][]byte
	for len(h.buf[d]) >= 4 {
		l := int(h.buf[d][1])<<16 | int(h.buf[d][2])<<8 | int(h.buf[d][3])
		if len(h.buf[d]) < 4+l {
			break
		}
		msg := append([]byte{}, h.buf[d][:4+l]...)
		h.buf[d] = h.buf[d][4+l:]
		h.Msgs[d] = append(h.Msgs[d], msg)
		i := h.idx[d]
		h.idx[d]++
		res := [][]byte{msg}
		if h.Edit != nil {
			res = h.Edit(d == 0, i, msg)
		}
		for _, m := range res {
			if len(m) > 0 && m[0] == 0xFF {
				out = append(out, m[1:])
				continue
			}
			// split oversized messages over several records
			for len(m) > 16384 {
				out = append(out, frame(r.Vers, 22, m[:16384]))
				m = m[16384:]
			}
			out = append(out, frame(r.Vers, 22, m))
		}
	}
	return out
}

func (h *HSEditor) OnIdle(n *Net) bool {
	if h.Idle != nil {
		return h.Idle(n)
	}
	return false
}
