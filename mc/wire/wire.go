// Package wire is the deterministic in-memory network used by the TLS checks. Endpoints are real
// gmtls (or crypto/tls) connections running in their own goroutines over harness net.Conns; a
// controller moves whole records between them ONLY when every endpoint is quiescent (blocked in
// Read on an empty queue, or finished), so a run is a Kahn network: deterministic given the
// policy's decisions and the endpoints' deterministic Rand/Time.
package wire

import (
	"errors"
	"fmt"
	"io"
	"net"
	"runtime/debug"
	"sync"
	"time"
)

// Net is one two-party network.
type Net struct {
	mu   sync.Mutex
	cond *sync.Cond
	// Spinning: an endpoint computed for longer than computeLimit without touching the network;
	// Run then gives up and reports the horizon as hit
	Spinning bool
	active   int // endpoint goroutines that are currently runnable
	A, B     *End
	Steps    int
}

// End is one side of the network: a net.Conn plus the script that drives it.
type End struct {
	n               *Net
	Name            string
	inbox           []byte // bytes the endpoint will read
	outbox          []byte // bytes the endpoint wrote, not yet routed
	eof             bool   // no more data will arrive
	closed          bool   // the endpoint closed its side
	Done            bool
	Panic           interface{}
	Stack           string
	Err             error       // result of the script
	Result          interface{} // free for scripts
	blocked         bool
	WroteAfterClose bool
}

// New creates a network with two ends.
func New() *Net {
	n := &Net{}
	n.cond = sync.NewCond(&n.mu)
	n.A = &End{n: n, Name: "client"}
	n.B = &End{n: n, Name: "server"}
	return n
}

type addr string

func (a addr) Network() string { return "wire" }
func (a addr) String() string  { return string(a) }

// net.Conn implementation -----------------------------------------------------------------

func (e *End) Read(p []byte) (int, error) {
	n := e.n
	n.mu.Lock()
	defer n.mu.Unlock()
	if len(e.inbox) == 0 && !e.eof && !e.closed {
		// Block. Whoever makes data available (Inject/EOF/Abort) marks this end runnable again
		// BEFORE releasing the lock, so the controller can never observe a false quiescence.
		e.blocked = true
		n.active--
		n.cond.Broadcast()
		for e.blocked {
			n.cond.Wait()
		}
	}
	if len(e.inbox) > 0 {
		k := copy(p, e.inbox)
		e.inbox = e.inbox[k:]
		return k, nil
	}
	if e.closed {
		return 0, errors.New("wire: read on closed connection")
	}
	return 0, io.EOF
}

// wake marks a blocked end runnable; caller holds n.mu.
func (e *End) wake() {
	if e.blocked {
		e.blocked = false
		e.n.active++
	}
	e.n.cond.Broadcast()
}

func (e *End) Write(p []byte) (int, error) {
	n := e.n
	n.mu.Lock()
	defer n.mu.Unlock()
	if e.closed {
		e.WroteAfterClose = true
		return 0, errors.New("wire: write on closed connection")
	}
	e.outbox = append(e.outbox, p...)
	return len(p), nil
}

func (e *End) Close() error {
	n := e.n
	n.mu.Lock()
	defer n.mu.Unlock()
	e.closed = true
	e.wake()
	return nil
}
func (e *End) LocalAddr() net.Addr                { return addr(e.Name) }
func (e *End) RemoteAddr() net.Addr               { return addr("peer-of-" + e.Name) }
func (e *End) SetDeadline(t time.Time) error      { return nil }
func (e *End) SetReadDeadline(t time.Time) error  { return nil }
func (e *End) SetWriteDeadline(t time.Time) error { return nil }

// Start runs script in the endpoint's goroutine.
func (e *End) Start(script func(e *End) error) {
	n := e.n
	n.mu.Lock()
	n.active++
	n.mu.Unlock()
	go func() {
		defer func() {
			if r := recover(); r != nil {
				e.Panic = r
				e.Stack = string(debug.Stack())
			}
			n.mu.Lock()
			e.Done = true
			n.active--
			n.cond.Broadcast()
			n.mu.Unlock()
		}()
		e.Err = script(e)
	}()
}

// Record is one TLS record as seen on the wire.
type Record struct {
	From  *End
	Type  byte
	Vers  uint16
	Raw   []byte // header + body
	Index int    // index of the record in its direction
}

func (r Record) Body() []byte { return r.Raw[5:] }

// Policy decides what happens to traffic. Deliver returns the byte strings to hand to the peer
// (nil = drop; the same bytes = forward). OnIdle is called when both ends are quiescent and nothing
// is in flight: return true to keep the run going (after injecting something), false to end it.
type Policy interface {
	Deliver(n *Net, r Record) [][]byte
	OnIdle(n *Net) bool
}

// Forward is the honest network.
type Forward struct{}

func (Forward) Deliver(n *Net, r Record) [][]byte { return [][]byte{r.Raw} }
func (Forward) OnIdle(n *Net) bool                { return false }

func (n *Net) peer(e *End) *End {
	if e == n.A {
		return n.B
	}
	return n.A
}

// Inject appends raw bytes to an endpoint's inbox (used by policies).
func (n *Net) Inject(to *End, b []byte) {
	n.mu.Lock()
	to.inbox = append(to.inbox, b...)
	if len(to.inbox) > 0 {
		to.wake()
	}
	n.mu.Unlock()
}

// EOF tells an endpoint that its peer closed the stream.
func (n *Net) EOF(to *End) {
	n.mu.Lock()
	to.eof = true
	to.wake()
	n.mu.Unlock()
}

// waitQuiescent blocks until no endpoint goroutine is runnable. It returns false if the step
// budget of the run is exhausted (an endpoint that never blocks).
// computeLimit: an endpoint that keeps computing for this long between two network events is
// taken to be looping (no step of a handshake or record needs more than milliseconds; the limit is
// four orders of magnitude above that so that machine load cannot reach it).
const computeLimit = 90 * time.Second

func (n *Net) waitQuiescent() {
	n.mu.Lock()
	if n.active > 0 && !n.Spinning {
		t := time.AfterFunc(computeLimit, func() {
			n.mu.Lock()
			n.Spinning = true
			n.cond.Broadcast()
			n.mu.Unlock()
		})
		for n.active > 0 && !n.Spinning {
			n.cond.Wait()
		}
		t.Stop()
	}
	n.mu.Unlock()
}

// Run routes records until both scripts are done or the network is idle and the policy ends it.
// maxSteps bounds the number of routing rounds (a horizon, not a stop-watch).
func (n *Net) Run(p Policy, maxSteps int) (horizonHit bool) {
	idx := map[*End]int{}
	for n.Steps = 0; n.Steps < maxSteps; n.Steps++ {
		n.waitQuiescent()
		if n.spinning() {
			return true
		}
		moved := false
		for _, e := range []*End{n.A, n.B} {
			n.mu.Lock()
			out := e.outbox
			// cut complete records; partial data stays
			var recs []Record
			for len(out) >= 5 {
				l := int(out[3])<<8 | int(out[4])
				if len(out) < 5+l {
					break
				}
				recs = append(recs, Record{From: e, Type: out[0], Vers: uint16(out[1])<<8 | uint16(out[2]), Raw: append([]byte{}, out[:5+l]...), Index: idx[e]})
				idx[e]++
				out = out[5+l:]
			}
			e.outbox = out
			closedNow := e.closed
			n.mu.Unlock()
			for _, r := range recs {
				for _, b := range p.Deliver(n, r) {
					n.Inject(n.peer(e), b)
					moved = true
				}
			}
			if closedNow && !n.peer(e).eof {
				n.EOF(n.peer(e))
				moved = true
			}
		}
		if moved {
			continue
		}
		if n.A.Done && n.B.Done {
			return false
		}
		if p.OnIdle(n) {
			continue
		}
		// idle and nothing more will come: end of stream for whoever still waits
		n.mu.Lock()
		aw, bw := !n.A.Done, !n.B.Done
		n.mu.Unlock()
		if aw && !n.A.eof {
			n.EOF(n.A)
			continue
		}
		if bw && !n.B.eof {
			n.EOF(n.B)
			continue
		}
		// both have EOF and still do not finish: they are blocked forever
		n.waitQuiescent()
		if n.spinning() {
			return true
		}
		if n.A.Done && n.B.Done {
			return false
		}
		return false
	}
	return true
}

// Stuck reports endpoints that have not finished although their input ended.
func (n *Net) Stuck() []string {
	var s []string
	for _, e := range []*End{n.A, n.B} {
		if !e.Done {
			s = append(s, fmt.Sprintf("%s (eof=%v blocked=%v)", e.Name, e.eof, e.blocked))
		}
	}
	return s
}

// Abort force-closes both ends so that leaked goroutines terminate.
func (n *Net) spinning() bool {
	n.mu.Lock()
	defer n.mu.Unlock()
	return n.Spinning
}

func (n *Net) Abort() {
	n.mu.Lock()
	n.A.closed, n.B.closed = true, true
	n.A.wake()
	n.B.wake()
	n.mu.Unlock()
}

// DetRand is a deterministic byte stream (counter based) usable as Config.Rand.
type DetRand struct {
	mu   sync.Mutex
	seed byte
	ctr  uint64
}

func NewRand(seed byte) *DetRand { return &DetRand{seed: seed} }

func (d *DetRand) Read(p []byte) (int, error) {
	d.mu.Lock()
	defer d.mu.Unlock()
	for i := range p {
		d.ctr++
		x := d.ctr*0x9e3779b97f4a7c15 + uint64(d.seed)*0xbf58476d1ce4e5b9
		x ^= x >> 29
		x *= 0x94d049bb133111eb
		x ^= x >> 32
		p[i] = byte(x)
	}
	return len(p), nil
}
