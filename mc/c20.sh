#!/bin/bash
# c20.sh <scratch> <args...>: generate the overlay from /repo's current tree, build check20, run it.
set -u
SCRATCH="$1"; shift
cd "$(dirname "$0")"
export GOFLAGS=-mod=mod GOPROXY=off GOSUMDB=off GOTOOLCHAIN=local
mkdir -p "$SCRATCH/ov"
if ! go run ./cmd/instr "${VERIF_REPO_DIR:-/repo}" "$(pwd)" "$SCRATCH/ov" > "$SCRATCH/instr.log" 2>&1; then
  cat "$SCRATCH/instr.log"; echo "BUILD-FAILED property=C20 (instrumentation)"; exit 2
fi
if ! go build -overlay "$SCRATCH/ov/overlay.json" -tags verif -o "$SCRATCH/check20" ./cmd/check20 > "$SCRATCH/build.log" 2>&1; then
  cat "$SCRATCH/build.log"; echo "BUILD-FAILED property=C20"; exit 2
fi
if ! go build -race -overlay "$SCRATCH/ov/overlay.json" -tags verif -o "$SCRATCH/check20race" ./cmd/check20 > "$SCRATCH/build-race.log" 2>&1; then
  cat "$SCRATCH/build-race.log"; echo "BUILD-FAILED property=C20 (race build)"; exit 2
fi
export VERIF_RACE_BIN="$SCRATCH/check20race"
"$SCRATCH/check20" C20 "$@"
