package harness

import (
	"context"
	"fmt"
	"os"
	"os/exec"
	"strings"
	"time"
)

// Probes: a probe is a small function that a unit can run as the FIRST library activity of a brand
// new process of this binary ("check --probe <name> args..."). It closes the one piece of state an
// in-process enumeration cannot reset: package-level variables of the library (lazily built tables,
// caches of "the last key", once-guards). The parent enumerates the argument alphabet and judges
// the printed result against its reference; the child only executes.
var probes = map[string]func(args []string) string{}

func RegisterProbe(name string, f func(args []string) string) { probes[name] = f }

func probeMain(args []string) int {
	if len(args) < 1 || probes[args[0]] == nil {
		fmt.Fprintln(os.Stderr, "unknown probe")
		return 2
	}
	fmt.Print("PROBE-RESULT " + probes[args[0]](args[1:]) + "\n")
	return 0
}

// FreshProcess runs the probe in a new process and returns what it printed. A crash, a non-zero
// exit or no result within two minutes is returned as an error (the caller reports it).
func FreshProcess(name string, args ...string) (string, error) {
	self, err := os.Executable()
	if err != nil {
		return "", err
	}
	ctx, cancel := context.WithTimeout(context.Background(), 2*time.Minute)
	defer cancel()
	out, err := exec.CommandContext(ctx, self, append([]string{"--probe", name}, args...)...).CombinedOutput()
	if err != nil {
		return "", fmt.Errorf("%v: %s", err, clipS(string(out), 600))
	}
	for _, l := range strings.Split(string(out), "\n") {
		if strings.HasPrefix(l, "PROBE-RESULT ") {
			return strings.TrimPrefix(l, "PROBE-RESULT "), nil
		}
	}
	return "", fmt.Errorf("no result line: %s", clipS(string(out), 600))
}

func clipS(s string, n int) string {
	if len(s) > n {
		return s[:n] + "..."
	}
	return s
}
