// Package harness runs a property check: it splits the check into deterministic units,
// distributes them over worker processes (isolation against fatal crashes, parallelism),
// merges measured counters, classifies violations against /verif/known_findings.txt and
// writes /verif/evidence/<id>.json.
package harness

import (
	"bufio"
	"crypto/sha256"
	"encoding/hex"
	"encoding/json"
	"fmt"
	"hash/fnv"
	"os"
	"os/exec"
	"path/filepath"
	"runtime"
	"runtime/debug"
	"sort"
	"strconv"
	"strings"
	"sync"
	"time"

	"verif/mc/xp"
)

// VerifDir is where MANIFEST.json, evidence/ and known_findings.txt live.
var VerifDir = "/verif"

func init() {
	// tools/allseeds_par.sh runs several checks at once against scratch copies of the repository and
	// gives each its own output directory (with a copy of known_findings.txt)
	if d := os.Getenv("VERIF_OUT_DIR"); d != "" {
		VerifDir = d
	}
}

// Violation is one observed contradiction of the property.
type Violation struct {
	Key    string      `json:"key"`  // stable key naming the failing input / call site / history
	Desc   string      `json:"desc"` // human readable
	Unit   string      `json:"unit"`
	Vector []int       `json:"vector,omitempty"` // xp choice vector, if any
	Detail interface{} `json:"detail,omitempty"`
}

// Unit is an independently runnable, deterministic piece of a check.
type Unit struct {
	Name string
	Run  func(c *Ctx)
}

// Prop describes a property check.
type Prop struct {
	ID          string
	Level       string // exploration | fault_enumeration | model_checking
	Rule        string
	Assumptions []string
	Units       func(tier string) []Unit
	// Bounds is a free-text description of the bounds completed, per tier.
	Bounds func(tier string) string
}

// Ctx collects what one unit measured.
type Ctx struct {
	Tier       string
	Unit       string
	Counters   map[string]int64
	sets       map[string]map[uint64]struct{}
	Violations []Violation
	Samples    []interface{}
	Notes      []string
	Capped     bool
	replay     []int
	maxSamples int
	vioKeys    map[string]int
	Deadline   time.Time
}

func newCtx(tier, unit string) *Ctx {
	return &Ctx{Tier: tier, Unit: unit, Counters: map[string]int64{}, sets: map[string]map[uint64]struct{}{}, maxSamples: 2, vioKeys: map[string]int{}}
}

// Thorough reports whether the thorough tier is running.
func (c *Ctx) Thorough() bool { return c.Tier == "thorough" }

// Add increments a measured counter.
func (c *Ctx) Add(name string, n int64) { c.Counters[name] += n }

// Distinct records a member of a named set (counted distinct within the unit).
func (c *Ctx) Distinct(set string, key []byte) {
	h := fnv.New64a()
	h.Write(key)
	m := c.sets[set]
	if m == nil {
		m = map[uint64]struct{}{}
		c.sets[set] = m
	}
	m[h.Sum64()] = struct{}{}
}

// DistinctS is Distinct for strings.
func (c *Ctx) DistinctS(set, key string) { c.Distinct(set, []byte(key)) }

// Sample keeps a few explored cases verbatim for the evidence file.
func (c *Ctx) Sample(v interface{}) {
	if len(c.Samples) < c.maxSamples {
		c.Samples = append(c.Samples, v)
	}
}

// WantSample reports whether another sample would be kept (avoid formatting cost).
func (c *Ctx) WantSample() bool { return len(c.Samples) < c.maxSamples }

// Note adds a free text remark to the evidence.
func (c *Ctx) Note(format string, a ...interface{}) {
	if len(c.Notes) < 20 {
		c.Notes = append(c.Notes, fmt.Sprintf(format, a...))
	}
}

// Violate records a violation. key must be stable across runs and name the specific
// failing input/call site/history. At most 3 violations per key are kept in detail.
func (c *Ctx) Violate(key, desc string, vector []int, detail interface{}) {
	c.Counters["violations_raw"]++
	c.vioKeys[key]++
	if c.vioKeys[key] > 1 {
		return
	}
	if len(c.Violations) >= 200 {
		return
	}
	c.Violations = append(c.Violations, Violation{Key: key, Desc: desc, Unit: c.Unit, Vector: append([]int(nil), vector...), Detail: detail})
}

// Guard runs f and converts a panic into a violation with the given key.
func (c *Ctx) Guard(key, what string, vector []int, f func()) (panicked bool) {
	defer func() {
		if r := recover(); r != nil {
			panicked = true
			c.Violate(key, fmt.Sprintf("%s panicked: %v", what, r), vector, firstLines(string(debug.Stack()), 30))
		}
	}()
	f()
	return false
}

// Try runs f and returns the recovered panic value (nil if none).
func Try(f func()) (r interface{}) {
	defer func() { r = recover() }()
	f()
	return nil
}

func firstLines(s string, n int) string {
	l := strings.Split(s, "\n")
	if len(l) > n {
		l = l[:n]
	}
	return strings.Join(l, "\n")
}

// Explore runs an xp exploration inside the unit (or only the replay vector in replay mode)
// and accounts executions/choice points. after may be nil.
func (c *Ctx) Explore(maxDev int, fn func(x *xp.X), after func(x *xp.X)) xp.Stats {
	if c.replay != nil {
		x := xp.Run(c.replay, fn)
		if after != nil {
			after(x)
		}
		c.Sample(map[string]interface{}{"replayed": c.replay, "trace": x.Trace})
		c.Add("executions", 1)
		return xp.Stats{Executions: 1}
	}
	e := &xp.Explorer{MaxDev: maxDev}
	e.OnDiverge = func(prefix []int, msg string) {
		c.Note("HARNESS NON-DETERMINISM (not a violation) at prefix %v: %s", prefix, msg)
		c.Add("harness_divergences", 1)
	}
	e.Explore(fn, after)
	c.Add("executions", e.Stats.Executions)
	c.Add("choice_points", e.Stats.ChoicePoints)
	if int64(e.Stats.MaxDepth) > c.Counters["max_depth"] {
		c.Counters["max_depth"] = int64(e.Stats.MaxDepth)
	}
	if e.Stats.Capped {
		c.Capped = true
	}
	return e.Stats
}

// Replaying reports whether the unit runs in replay mode.
func (c *Ctx) Replaying() bool { return c.replay != nil }

// unitResult is what a worker reports per unit.
type unitResult struct {
	Unit       string           `json:"unit"`
	Index      int              `json:"index"`
	Counters   map[string]int64 `json:"counters"`
	Sets       map[string]int64 `json:"sets"`
	Violations []Violation      `json:"violations"`
	Samples    []interface{}    `json:"samples"`
	Notes      []string         `json:"notes"`
	Capped     bool             `json:"capped"`
	WallMs     int64            `json:"wall_ms"`
}

func runUnit(tier string, idx int, u Unit, replay []int) (res unitResult) {
	c := newCtx(tier, u.Name)
	c.replay = replay
	t0 := time.Now()
	func() {
		defer func() {
			if r := recover(); r != nil {
				c.Violate("panic-in-unit:"+u.Name, fmt.Sprintf("unit %s panicked outside a guarded call: %v", u.Name, r), nil, firstLines(string(debug.Stack()), 40))
			}
		}()
		u.Run(c)
	}()
	res = unitResult{Unit: u.Name, Index: idx, Counters: c.Counters, Sets: map[string]int64{}, Violations: c.Violations, Samples: c.Samples, Notes: c.Notes, Capped: c.Capped, WallMs: time.Since(t0).Milliseconds()}
	for k, m := range c.sets {
		res.Sets[k] = int64(len(m))
	}
	return
}

// ---------------------------------------------------------------------------------------
// worker side

func workerMain(p *Prop, tier string, shard, nshards int, skip map[int]bool, outPath, progPath string) {
	units := p.Units(tier)
	out, err := os.OpenFile(outPath, os.O_APPEND|os.O_CREATE|os.O_WRONLY, 0o644)
	if err != nil {
		fmt.Fprintln(os.Stderr, "worker:", err)
		os.Exit(3)
	}
	prog, _ := os.OpenFile(progPath, os.O_APPEND|os.O_CREATE|os.O_WRONLY, 0o644)
	// interleaved assignment; long units first is the props' business
	for i, u := range units {
		if i%nshards != shard || skip[i] {
			continue
		}
		fmt.Fprintf(prog, "B %d\n", i)
		res := runUnit(tier, i, u, nil)
		b, _ := json.Marshal(res)
		out.Write(append(b, '\n'))
		fmt.Fprintf(prog, "E %d\n", i)
	}
	out.Close()
	prog.Close()
}

// ---------------------------------------------------------------------------------------
// parent side

type evidence struct {
	PropertyID  string                 `json:"property_id"`
	Tier        string                 `json:"tier"`
	Seed        int64                  `json:"seed"`
	Level       string                 `json:"level"`
	Coverage    map[string]interface{} `json:"coverage"`
	Assumptions []string               `json:"assumptions"`
	WallS       float64                `json:"wall_s"`
	Violations  int                    `json:"violations"`
}

func loadKnown(id string) (known map[string]string) {
	known = map[string]string{}
	f, err := os.Open(filepath.Join(VerifDir, "known_findings.txt"))
	if err != nil {
		return
	}
	defer f.Close()
	sc := bufio.NewScanner(f)
	sc.Buffer(make([]byte, 1<<20), 1<<20)
	for sc.Scan() {
		line := strings.TrimSpace(sc.Text())
		if !strings.HasPrefix(line, "finding:") {
			continue // "fixed:" lines and comments suppress nothing
		}
		rest := strings.TrimSpace(strings.TrimPrefix(line, "finding:"))
		if !strings.HasPrefix(rest, "property="+id+" ") {
			continue
		}
		rest = strings.TrimPrefix(rest, "property="+id+" ")
		if !strings.HasPrefix(rest, "key=") {
			continue
		}
		rest = strings.TrimPrefix(rest, "key=")
		// key is either quoted or up to first space
		var key, text string
		if strings.HasPrefix(rest, "\"") {
			end := strings.Index(rest[1:], "\"")
			if end < 0 {
				continue
			}
			key, text = rest[1:1+end], strings.TrimSpace(rest[2+end:])
		} else {
			parts := strings.SplitN(rest, " ", 2)
			key = parts[0]
			if len(parts) > 1 {
				text = parts[1]
			}
		}
		known[key] = text
	}
	return
}

// Main is the entry point of cmd/check.
func Main(props map[string]*Prop) {
	args := os.Args[1:]
	if len(args) >= 1 && args[0] == "--probe" {
		os.Exit(probeMain(args[1:]))
	}
	if len(args) < 2 {
		fmt.Fprintln(os.Stderr, "usage: check <Cxx> <quick|thorough> | check <Cxx> --replay <file> | (internal) check <Cxx> <tier> --worker k n out prog [skip,...]")
		os.Exit(2)
	}
	id := args[0]
	p := props[id]
	if p == nil {
		fmt.Fprintln(os.Stderr, "unknown property", id)
		os.Exit(2)
	}
	if args[1] == "--replay" {
		os.Exit(replayMain(p, args[2]))
	}
	tier := args[1]
	if tier != "quick" && tier != "thorough" {
		fmt.Fprintln(os.Stderr, "tier must be quick or thorough")
		os.Exit(2)
	}
	if len(args) >= 7 && args[2] == "--worker" {
		k, _ := strconv.Atoi(args[3])
		n, _ := strconv.Atoi(args[4])
		skip := map[int]bool{}
		if len(args) >= 8 && args[7] != "" {
			for _, s := range strings.Split(args[7], ",") {
				v, err := strconv.Atoi(s)
				if err == nil {
					skip[v] = true
				}
			}
		}
		workerMain(p, tier, k, n, skip, args[5], args[6])
		return
	}
	os.Exit(parentMain(p, tier))
}

func envInt(name string, def int) int {
	if v, err := strconv.Atoi(os.Getenv(name)); err == nil {
		return v
	}
	return def
}

func parentMain(p *Prop, tier string) int {
	t0 := time.Now()
	seed := int64(envInt("VERIF_SEED", 0))
	units := p.Units(tier)
	nw := envInt("VERIF_WORKERS", runtime.NumCPU())
	if nw > len(units) {
		nw = len(units)
	}
	if nw < 1 {
		nw = 1
	}
	scratch, err := os.MkdirTemp(os.Getenv("VERIF_SCRATCH"), "vw-"+p.ID+"-")
	if err != nil {
		fmt.Fprintln(os.Stderr, err)
		return 2
	}
	defer os.RemoveAll(scratch)
	self, _ := os.Executable()
	if old, _ := filepath.Glob(filepath.Join(VerifDir, "replays", p.ID+"-*.json")); len(old) > 0 {
		for _, f := range old {
			os.Remove(f)
		}
	}

	var mu sync.Mutex
	results := map[int]unitResult{}
	var crashVio []Violation
	watchdog := 0
	var wg sync.WaitGroup
	for k := 0; k < nw; k++ {
		wg.Add(1)
		go func(k int) {
			defer wg.Done()
			skip := []string{}
			for attempt := 0; attempt < 50; attempt++ {
				outPath := filepath.Join(scratch, fmt.Sprintf("out-%d-%d.jsonl", k, attempt))
				progPath := filepath.Join(scratch, fmt.Sprintf("prog-%d-%d", k, attempt))
				cmd := exec.Command(self, p.ID, tier, "--worker", strconv.Itoa(k), strconv.Itoa(nw), outPath, progPath, strings.Join(skip, ","))
				cmd.Env = append(os.Environ(), "GOMAXPROCS=2", "GOTRACEBACK=single")
				var stderr tailBuf
				cmd.Stderr = &stderr
				cmd.Stdout = &stderr // the library prints noise to stdout; keep it away from our result channel
				err := cmd.Start()
				timedOut := false
				if err == nil {
					// watchdog: a worker that makes no progress at all is a harness fault (reported as
					// HARNESS-ERROR, never as a violation); the limit is far above any unit's run time
					waitCh := make(chan error, 1)
					go func() { waitCh <- cmd.Wait() }()
					limit := time.Duration(envInt("VERIF_WORKER_TIMEOUT_S", 4*3600)) * time.Second
					select {
					case err = <-waitCh:
					case <-time.After(limit):
						timedOut = true
						cmd.Process.Kill()
						err = <-waitCh
					}
				}
				if timedOut {
					mu.Lock()
					watchdog++
					mu.Unlock()
				}
				// collect finished units
				done := map[int]bool{}
				if f, e := os.Open(outPath); e == nil {
					sc := bufio.NewScanner(f)
					sc.Buffer(make([]byte, 1<<26), 1<<26)
					for sc.Scan() {
						var r unitResult
						if json.Unmarshal(sc.Bytes(), &r) == nil {
							mu.Lock()
							results[r.Index] = r
							mu.Unlock()
							done[r.Index] = true
						}
					}
					f.Close()
				}
				if err == nil {
					return
				}
				if timedOut {
					return // the units of this worker stay missing: HARNESS-ERROR below
				}
				// crashed: find the unit in progress
				cur := -1
				if b, e := os.ReadFile(progPath); e == nil {
					for _, l := range strings.Split(string(b), "\n") {
						var tag string
						var i int
						if n, _ := fmt.Sscanf(l, "%s %d", &tag, &i); n == 2 {
							if tag == "B" {
								cur = i
							} else if tag == "E" && cur == i {
								cur = -1
							}
						}
					}
				}
				mu.Lock()
				name := "?"
				if cur >= 0 && cur < len(units) {
					name = units[cur].Name
				}
				crashVio = append(crashVio, Violation{Key: "fatal-crash:" + name, Unit: name,
					Desc: fmt.Sprintf("worker process died (%v) while running unit %s; tail of stderr: %s", err, name, stderr.String())})
				mu.Unlock()
				for i := range done {
					skip = append(skip, strconv.Itoa(i))
				}
				if cur >= 0 {
					skip = append(skip, strconv.Itoa(cur))
				} else {
					return // cannot attribute; do not loop
				}
			}
		}(k)
	}
	wg.Wait()

	// merge
	counters := map[string]int64{}
	sets := map[string]int64{}
	var samples []interface{}
	var notes []string
	var vios []Violation
	capped := false
	missing := 0
	var perUnit []interface{}
	idxs := make([]int, 0, len(results))
	for i := range results {
		idxs = append(idxs, i)
	}
	sort.Ints(idxs)
	for _, i := range idxs {
		r := results[i]
		for k, v := range r.Counters {
			if k == "max_depth" {
				if v > counters[k] {
					counters[k] = v
				}
				continue
			}
			counters[k] += v
		}
		for k, v := range r.Sets {
			sets[k] += v
		}
		if len(samples) < 12 {
			for _, s := range r.Samples {
				if len(samples) < 12 {
					samples = append(samples, map[string]interface{}{"unit": r.Unit, "case": s})
				}
			}
		}
		for _, n := range r.Notes {
			if len(notes) < 40 {
				notes = append(notes, r.Unit+": "+n)
			}
		}
		vios = append(vios, r.Violations...)
		capped = capped || r.Capped
		if len(perUnit) < 400 {
			pu := map[string]interface{}{"unit": r.Unit, "wall_ms": r.WallMs}
			for _, k := range []string{"executions", "evaluations", "transitions"} {
				if v, ok := r.Counters[k]; ok {
					pu[k] = v
				}
			}
			for _, k := range []string{"states", "outcomes", "nontrivial"} {
				if v, ok := r.Sets[k]; ok {
					pu["distinct_"+k] = v
				}
			}
			perUnit = append(perUnit, pu)
		}
	}
	missing = len(units) - len(results)
	vios = append(vios, crashVio...)

	// classify against known findings
	known := loadKnown(p.ID)
	seenKey := map[string]bool{}
	var fresh []Violation
	nKnown := 0
	for _, v := range vios {
		if seenKey[v.Key] {
			continue
		}
		seenKey[v.Key] = true
		if text, ok := known[v.Key]; ok {
			fmt.Printf("KNOWN-FINDING: property=%s key=%q %s\n", p.ID, v.Key, text)
			nKnown++
			continue
		}
		fresh = append(fresh, v)
	}
	if os.Getenv("VERIF_KEYS_FILE") != "" {
		var sb strings.Builder
		for k := range seenKey {
			sb.WriteString(k + "\n")
		}
		os.WriteFile(os.Getenv("VERIF_KEYS_FILE"), []byte(sb.String()), 0o644)
	}
	exit := 0
	if len(fresh) > 0 {
		exit = 1
		os.MkdirAll(filepath.Join(VerifDir, "replays"), 0o755)
		for i, v := range fresh {
			if i >= 25 {
				fmt.Printf("... %d further distinct violation keys not written out\n", len(fresh)-i)
				break
			}
			b, _ := json.MarshalIndent(map[string]interface{}{"property": p.ID, "tier": tier, "violation": v}, "", " ")
			h := sha256.Sum256([]byte(v.Key))
			path := filepath.Join(VerifDir, "replays", fmt.Sprintf("%s-%s.json", p.ID, hex.EncodeToString(h[:6])))
			os.WriteFile(path, b, 0o644)
			fmt.Printf("VIOLATION property=%s replay=%s\n", p.ID, path)
			fmt.Printf("  key=%q unit=%s\n  %s\n", v.Key, v.Unit, firstLines(v.Desc, 6))
		}
	}
	if counters["harness_divergences"] > 0 || (missing > 0 && len(crashVio) == 0) || watchdog > 0 {
		fmt.Printf("HARNESS-ERROR property=%s divergences=%d missing_units=%d\n", p.ID, counters["harness_divergences"], missing)
		if exit == 0 {
			exit = 3
		}
	}

	// evidence
	cov := map[string]interface{}{}
	for k, v := range counters {
		cov[k] = v
	}
	for k, v := range sets {
		cov["distinct_"+k] = v
	}
	cov["units"] = len(units)
	cov["units_completed"] = len(results)
	cov["rule"] = p.Rule
	cov["samples"] = samples
	cov["exhaustive"] = !capped && missing == 0
	if p.Bounds != nil {
		cov["bounds_completed"] = p.Bounds(tier)
	}
	if len(notes) > 0 {
		cov["notes"] = notes
	}
	cov["known_findings_reported"] = nKnown
	cov["per_unit"] = perUnit
	cov["workers"] = nw
	switch p.Level {
	case "model_checking":
		cov["states"] = sets["states"]
		cov["transitions"] = counters["transitions"]
		cov["traces_validated_against_impl"] = counters["executions"]
		cov["distinct_outcomes"] = sets["outcomes"]
	default:
		cov["evaluations"] = counters["evaluations"]
		cov["distinct_nontrivial"] = sets["nontrivial"]
	}
	ev := evidence{PropertyID: p.ID, Tier: tier, Seed: seed, Level: p.Level, Coverage: cov, Assumptions: p.Assumptions, WallS: time.Since(t0).Seconds(), Violations: len(fresh)}
	os.MkdirAll(filepath.Join(VerifDir, "evidence"), 0o755)
	b, _ := json.MarshalIndent(ev, "", " ")
	os.WriteFile(filepath.Join(VerifDir, "evidence", p.ID+".json"), append(b, '\n'), 0o644)
	fmt.Printf("%s %s: units=%d/%d wall=%.1fs violations=%d known=%d exhaustive=%v\n", p.ID, tier, len(results), len(units), time.Since(t0).Seconds(), len(fresh), nKnown, cov["exhaustive"])
	keys := make([]string, 0, len(cov))
	for k := range cov {
		keys = append(keys, k)
	}
	sort.Strings(keys)
	for _, k := range keys {
		switch k {
		case "samples", "rule", "notes", "bounds_completed", "per_unit":
		default:
			fmt.Printf("  %s=%v", k, cov[k])
		}
	}
	fmt.Println()
	return exit
}

func replayMain(p *Prop, path string) int {
	b, err := os.ReadFile(path)
	if err != nil {
		fmt.Fprintln(os.Stderr, err)
		return 2
	}
	var rf struct {
		Tier      string    `json:"tier"`
		Violation Violation `json:"violation"`
	}
	if err := json.Unmarshal(b, &rf); err != nil {
		fmt.Fprintln(os.Stderr, err)
		return 2
	}
	units := p.Units(rf.Tier)
	for i, u := range units {
		if u.Name != rf.Violation.Unit {
			continue
		}
		var vec []int
		if len(rf.Violation.Vector) > 0 {
			vec = rf.Violation.Vector
		}
		r1 := runUnit(rf.Tier, i, u, vec)
		r2 := runUnit(rf.Tier, i, u, vec)
		k1, k2 := vioKeys(r1), vioKeys(r2)
		if k1 != k2 {
			fmt.Printf("REPLAY-NONDETERMINISTIC property=%s: run1 keys %s, run2 keys %s\n", p.ID, k1, k2)
			return 3
		}
		for _, v := range r1.Violations {
			if v.Key == rf.Violation.Key {
				fmt.Printf("VIOLATION property=%s replay=%s\n  reproduced twice: key=%q\n  %s\n", p.ID, path, v.Key, firstLines(v.Desc, 10))
				return 1
			}
		}
		fmt.Printf("replay: violation key %q not reproduced (unit %s ran twice, keys now: %s)\n", rf.Violation.Key, u.Name, k1)
		return 0
	}
	fmt.Fprintf(os.Stderr, "replay: unit %q not found in tier %s\n", rf.Violation.Unit, rf.Tier)
	return 2
}

func vioKeys(r unitResult) string {
	var k []string
	for _, v := range r.Violations {
		k = append(k, v.Key)
	}
	sort.Strings(k)
	return strings.Join(k, "|")
}

// tailBuf keeps the last 4 KiB written.
type tailBuf struct {
	mu sync.Mutex
	b  []byte
}

func (t *tailBuf) Write(p []byte) (int, error) {
	t.mu.Lock()
	defer t.mu.Unlock()
	t.b = append(t.b, p...)
	if len(t.b) > 4096 {
		t.b = t.b[len(t.b)-4096:]
	}
	return len(p), nil
}
func (t *tailBuf) String() string { t.mu.Lock(); defer t.mu.Unlock(); return string(t.b) }
