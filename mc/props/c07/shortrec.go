package c07

import (
	"fmt"

	"github.com/tjfoc/gmsm/gmtls"

	"verif/mc/harness"
	"verif/mc/tlsk"
	"verif/mc/wire"
)

// ---- records shorter than their own protection, for every cipher suite ---------------------------
//
// "Every truncation length": a protected record whose body is shorter than the MAC, the explicit IV,
// one cipher block or the AEAD tag of the negotiated suite. Stream (RC4), CBC (AES, 3DES, SM4) and AEAD
// (AES-GCM, ChaCha20-Poly1305, SM4-GCM) suites take different paths through the record layer, so the
// unit pins every suite the library implements (TLS 1.0 and 1.2 where the suite allows it, GMSSL) and,
// after the handshake, injects one record of each short length in each direction. The receiver
// returns an error and delivers nothing of it; it never panics.

type injector struct {
	toClient bool
	typ      byte
	body     []byte
	vers     uint16
	done     bool
}

func (in *injector) Deliver(n *wire.Net, r wire.Record) [][]byte {
	// after the first protected application-data record of the direction under attack, add the short one
	fromClient := r.From == n.A
	if !in.done && r.Type == 23 && fromClient != in.toClient {
		in.done = true
		rec := append([]byte{in.typ, byte(in.vers >> 8), byte(in.vers), byte(len(in.body) >> 8), byte(len(in.body))}, in.body...)
		return [][]byte{r.Raw, rec}
	}
	return [][]byte{r.Raw}
}
func (in *injector) OnIdle(n *wire.Net) bool { return false }

func ShortRecordUnit(part, parts int) harness.Unit {
	return harness.Unit{Name: fmt.Sprintf("short-records-all-suites/part%d", part), Run: func(c *harness.Ctx) {
		p := tlsk.Get()
		type su struct {
			id     uint16
			rsa    bool
			only12 bool
			gm     bool
		}
		all := []su{
			{0x0005, true, false, false}, {0x000a, true, false, false}, {0x002f, true, false, false}, {0x0035, true, false, false}, {0x003c, true, true, false}, {0x009c, true, true, false}, {0x009d, true, true, false},
			{0xc007, false, false, false}, {0xc009, false, false, false}, {0xc00a, false, false, false}, {0xc011, true, false, false}, {0xc012, true, false, false}, {0xc014, true, false, false},
			{0xc023, false, true, false}, {0xc02f, true, true, false}, {0xc02b, false, true, false}, {0xc030, true, true, false}, {0xc02c, false, true, false}, {0xcca8, true, true, false}, {0xcca9, false, true, false},
			{gmtls.GMTLS_ECC_SM4_CBC_SM3, false, false, true}, {gmtls.GMTLS_ECC_SM4_GCM_SM3, false, false, true},
		}
		lens := []int{0, 1, 2, 7, 8, 9, 12, 15, 16, 17, 19, 20, 21, 23, 24, 25, 31, 32, 33, 35, 36, 37, 47, 48, 49, 63, 64, 65}
		n := 0
		for _, s := range all {
			for _, v := range []uint16{0x0301, 0x0302, 0x0303} {
				if s.gm && v != 0x0301 {
					continue
				}
				if s.only12 && v != 0x0303 {
					continue
				}
				for _, toClient := range []bool{false, true} {
					for _, l := range lens {
						for _, typ := range []byte{23, 22, 21} {
							if typ != 23 && l%8 != 0 && l != 19 && l != 1 {
								continue
							}
							n++
							if n%parts != part {
								continue
							}
							var cc, sc *gmtls.Config
							rv := v
							if s.gm {
								sc = &gmtls.Config{GMSupport: &gmtls.GMSupport{}, Certificates: []gmtls.Certificate{p.Sign, p.Enc}, Time: tlsk.FixedTime, Rand: wire.NewRand(41), CipherSuites: []uint16{s.id}}
								cc = &gmtls.Config{GMSupport: &gmtls.GMSupport{}, RootCAs: p.Roots, ServerName: tlsk.ServerName, Time: tlsk.FixedTime, Rand: wire.NewRand(42), CipherSuites: []uint16{s.id}}
								rv = 0x0101
							} else {
								cert := p.ECDSA
								if s.rsa {
									cert = p.RSA
								}
								sc = &gmtls.Config{Certificates: []gmtls.Certificate{cert}, Time: tlsk.FixedTime, Rand: wire.NewRand(41), CipherSuites: []uint16{s.id}, MinVersion: v, MaxVersion: v}
								cc = &gmtls.Config{RootCAs: p.StdRootsG, ServerName: tlsk.ServerName, Time: tlsk.FixedTime, Rand: wire.NewRand(42), CipherSuites: []uint16{s.id}, MinVersion: v, MaxVersion: v}
							}
							body := make([]byte, l)
							for i := range body {
								body[i] = byte(0x5a + i)
							}
							pol := &injector{toClient: toClient, typ: typ, body: body, vers: rv}
							var cv, sv tlsk.View
							app := [2]tlsk.App{{Writes: [][]byte{[]byte("c->s")}, Expect: 12}, {Writes: [][]byte{[]byte("s->c")}, Expect: 12}}
							o := tlsk.Run(tlsk.GMEnd(cc, true, app[0], &cv, nil), tlsk.GMEnd(sc, false, app[1], &sv, nil), &cv, &sv, pol)
							tag := fmt.Sprintf("suite %04x version %04x: after the handshake a record of type %d with a %d-byte body is injected towards the %s", s.id, rv, typ, l, map[bool]string{true: "client", false: "server"}[toClient])
							key := fmt.Sprintf("%04x:%04x:type%d", s.id, rv, typ)
							c.Add("evaluations", 1)
							c.DistinctS("nontrivial", tag)
							if !pol.done {
								c.Violate("control-fails:short-records:"+key, fmt.Sprintf("[%s] the handshake with this suite did not reach the data phase: %s", tag, o.Describe()), nil, tag)
								continue
							}
							victim := o.S
							if toClient {
								victim = o.C
							}
							if o.C.Panic != nil || o.S.Panic != nil {
								c.Violate("panic:short-record:"+key, fmt.Sprintf("[%s] endpoint panicked: client=%v server=%v\n%s", tag, o.C.Panic, o.S.Panic, o.C.Stack+o.S.Stack), nil, tag)
								continue
							}
							if len(o.Stuck) > 0 || o.Horizon {
								c.Violate("hang:short-record:"+key, fmt.Sprintf("[%s] %s", tag, o.Describe()), nil, tag)
								continue
							}
							want := "c->s"
							if toClient {
								want = "s->c"
							}
							// TLS 1.0 CBC writers split a message into 1 + (n-1) bytes: the injected record may follow the first part
							if len(victim.Read) > len(want) || string(victim.Read) != want[:len(victim.Read)] {
								c.Violate("short-record:delivered-other-than-written:"+key, fmt.Sprintf("[%s] the receiver delivered %q, not a prefix of what the sender wrote (%q)", tag, victim.Read, want), nil, tag)
							}
							if victim.ReadErr == nil {
								c.Violate("short-record:no-error:"+key, fmt.Sprintf("[%s] the receiver reported no error for the injected record: %s", tag, o.Describe()), nil, tag)
							}
						}
					}
				}
			}
		}
		c.Sample("20 TLS suites (RC4, 3DES, AES-CBC with SHA-1/SHA-256, AES-GCM, ChaCha20) at the versions that define them and both GMSSL suites; after the handshake one record of type 23/22/21 with a body of 0..65 bytes injected in either direction")
	}}
}
