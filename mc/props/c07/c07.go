// Package c07: protected records cannot be altered, reordered, replayed or truncated undetected
// (DESIGN §3 C07). Faults are applied by a record-aware man in the middle between two real library
// endpoints; every fault is applied at every protected record of a session.
package c07

import (
	"bytes"
	"fmt"
	"io"

	"github.com/tjfoc/gmsm/gmtls"

	"verif/mc/harness"
	"verif/mc/props/pu"
	"verif/mc/ref/gmrec"
	"verif/mc/tlsk"
	"verif/mc/wire"
)

var payloadSizes = []int{1, 15, 16, 17, 100, 0}

type fault struct {
	name string
	// apply returns the byte strings delivered instead of record r; next is the following record of
	// the same direction if the fault needs it (swap). other holds material for replays.
	apply func(r []byte, m *mitm) [][]byte
}

type mitm struct {
	fromClient bool // direction under attack: records sent by the client (else by the server)
	index      int  // protected-record index in that direction (0 = Finished)
	f          fault
	seenCCS    [2]bool
	count      [2]int
	held       []byte   // record held back for a swap
	otherDir   [][]byte // protected records seen in the other direction
	foreign    [][]byte // protected records of the same direction captured from ANOTHER connection
	applied    bool
	changed    bool
	after      bool // a later record of the attacked direction reached the receiver
	thisDir    [][]byte
}

func (m *mitm) Deliver(n *wire.Net, r wire.Record) [][]byte {
	d := 0
	if r.From != n.A {
		d = 1
	}
	mine := (d == 0) == m.fromClient
	if !m.seenCCS[d] {
		if r.Type == 20 {
			m.seenCCS[d] = true
		}
		return [][]byte{r.Raw}
	}
	idx := m.count[d]
	m.count[d]++
	if !mine {
		m.otherDir = append(m.otherDir, r.Raw)
		return [][]byte{r.Raw}
	}
	m.thisDir = append(m.thisDir, r.Raw)
	if m.applied {
		m.after = true
	}
	if m.held != nil {
		out := [][]byte{r.Raw, m.held}
		m.held = nil
		return out
	}
	if idx == m.index && !m.applied {
		m.applied = true
		out := m.f.apply(r.Raw, m)
		m.changed = !(len(out) == 1 && bytes.Equal(out[0], r.Raw))
		return out
	}
	return [][]byte{r.Raw}
}

func (m *mitm) OnIdle(n *wire.Net) bool {
	if m.held != nil { // swap with a record that never came: deliver it late
		to := n.B
		if !m.fromClient {
			to = n.A
		}
		h := m.held
		m.held = nil
		m.changed = false // the next record never came: nothing was reordered
		n.Inject(to, h)
		return true
	}
	return false
}

func mod(r []byte, f func(b []byte) []byte) [][]byte { return [][]byte{f(append([]byte{}, r...))} }

func setLen(b []byte) []byte {
	l := len(b) - 5
	b[3], b[4] = byte(l>>8), byte(l)
	return b
}

func structuralFaults() []fault {
	var fs []fault
	add := func(name string, ap func(r []byte, m *mitm) [][]byte) { fs = append(fs, fault{name, ap}) }
	for k := 1; k <= 17; k++ {
		k := k
		add(fmt.Sprintf("truncate-%d-consistent-length", k), func(r []byte, m *mitm) [][]byte {
			if len(r)-5 < k {
				return [][]byte{r}
			}
			return mod(r, func(b []byte) []byte { return setLen(b[:len(b)-k]) })
		})
		add(fmt.Sprintf("extend-%d-consistent-length", k), func(r []byte, m *mitm) [][]byte {
			return mod(r, func(b []byte) []byte { return setLen(append(b, bytes.Repeat([]byte{byte(k)}, k)...)) })
		})
	}
	for _, k := range []int{1, 16} {
		k := k
		add(fmt.Sprintf("truncate-%d-stale-length", k), func(r []byte, m *mitm) [][]byte {
			if len(r)-5 < k {
				return [][]byte{r}
			}
			return mod(r, func(b []byte) []byte { return b[:len(b)-k] })
		})
		add(fmt.Sprintf("extend-%d-stale-length", k), func(r []byte, m *mitm) [][]byte {
			return mod(r, func(b []byte) []byte { return append(b, bytes.Repeat([]byte{0xEE}, k)...) })
		})
	}
	for _, t := range []byte{20, 21, 22, 23, 24, 0} {
		t := t
		add(fmt.Sprintf("type:=%d", t), func(r []byte, m *mitm) [][]byte {
			if r[0] == t {
				return [][]byte{r}
			}
			return mod(r, func(b []byte) []byte { b[0] = t; return b })
		})
	}
	for _, v := range []uint16{0x0100, 0x0102, 0x0303, 0x0301, 0x0000} {
		v := v
		add(fmt.Sprintf("version:=%04x", v), func(r []byte, m *mitm) [][]byte {
			return mod(r, func(b []byte) []byte { b[1], b[2] = byte(v>>8), byte(v); return b })
		})
	}
	add("length+1", func(r []byte, m *mitm) [][]byte { return mod(r, func(b []byte) []byte { b[4]++; return b }) })
	add("length-1", func(r []byte, m *mitm) [][]byte { return mod(r, func(b []byte) []byte { b[4]--; return b }) })
	add("drop", func(r []byte, m *mitm) [][]byte { return nil })
	add("duplicate", func(r []byte, m *mitm) [][]byte { return [][]byte{r, r} })
	add("swap-with-next", func(r []byte, m *mitm) [][]byte { m.held = r; return nil })
	add("replay-previous-record", func(r []byte, m *mitm) [][]byte {
		if len(m.thisDir) < 2 {
			return [][]byte{r}
		}
		return [][]byte{m.thisDir[len(m.thisDir)-2], r}
	})
	add("replace-by-other-direction-record", func(r []byte, m *mitm) [][]byte {
		if len(m.otherDir) == 0 {
			return [][]byte{r}
		}
		return [][]byte{m.otherDir[len(m.otherDir)-1]}
	})
	add("replace-by-same-index-of-another-connection", func(r []byte, m *mitm) [][]byte {
		if m.index >= len(m.foreign) {
			return [][]byte{r}
		}
		return [][]byte{m.foreign[m.index]}
	})
	add("inject-foreign-record-before", func(r []byte, m *mitm) [][]byte {
		if m.index >= len(m.foreign) {
			return [][]byte{r}
		}
		return [][]byte{m.foreign[m.index], r}
	})
	return fs
}

func configs(suite uint16, seed byte) (*gmtls.Config, *gmtls.Config) {
	p := tlsk.Get()
	s := &gmtls.Config{GMSupport: &gmtls.GMSupport{}, Certificates: []gmtls.Certificate{p.Sign, p.Enc}, Time: tlsk.FixedTime, Rand: wire.NewRand(seed)}
	c := &gmtls.Config{GMSupport: &gmtls.GMSupport{}, RootCAs: p.Roots, ServerName: tlsk.ServerName, Time: tlsk.FixedTime, Rand: wire.NewRand(seed + 100), CipherSuites: []uint16{suite}}
	return c, s
}

func payloads() (cl, sv [][]byte) {
	off := 0
	for _, n := range payloadSizes {
		cl = append(cl, pu.Msg(off, n))
		off += n + 3
	}
	for _, n := range payloadSizes {
		sv = append(sv, pu.Msg(off, n))
		off += n + 3
	}
	return
}

// session runs one connection under the given man in the middle.
func session(suite uint16, seed byte, pol wire.Policy) *tlsk.Outcome {
	cc, sc := configs(suite, seed)
	cl, sv := payloads()
	var cv, svw tlsk.View
	return tlsk.Run(tlsk.GMEnd(cc, true, tlsk.App{Writes: cl, Expect: len(tlsk.Cat(sv))}, &cv, nil), tlsk.GMEnd(sc, false, tlsk.App{Writes: sv}, &svw, nil), &cv, &svw, pol)
}

type recorder struct {
	seenCCS [2]bool
	prot    [2][][]byte
}

func (rc *recorder) Deliver(n *wire.Net, r wire.Record) [][]byte {
	d := 0
	if r.From != n.A {
		d = 1
	}
	if !rc.seenCCS[d] {
		if r.Type == 20 {
			rc.seenCCS[d] = true
		}
	} else {
		rc.prot[d] = append(rc.prot[d], r.Raw)
	}
	return [][]byte{r.Raw}
}
func (rc *recorder) OnIdle(n *wire.Net) bool { return false }

// layout of the honest session, obtained with the independent decoder: for each direction the
// application-plaintext length carried by every protected record.
type layoutT struct {
	typ   [2][]byte
	plain [2][]int
}

func layout(suite uint16) (*layoutT, error) {
	p := tlsk.Get()
	rc := &recorder{}
	kl := &bytes.Buffer{}
	cc, sc := configs(suite, 1)
	cc.KeyLogWriter = kl
	cl, sv := payloads()
	var cv, svw tlsk.View
	o := tlsk.Run(tlsk.GMEnd(cc, true, tlsk.App{Writes: cl, Expect: len(tlsk.Cat(sv))}, &cv, nil), tlsk.GMEnd(sc, false, tlsk.App{Writes: sv}, &svw, nil), &cv, &svw, rc)
	var recs []gmrec.Rec
	for _, r := range o.Records {
		recs = append(recs, gmrec.Rec{FromClient: r.From == o.ClientEnd, Type: r.Type, Vers: r.Vers, Body: r.Body()})
	}
	sess, err := gmrec.Decode(recs, p.EncKey.D, nil)
	if err != nil {
		return nil, err
	}
	l := &layoutT{}
	for _, ri := range sess.Protected {
		d := 0
		if !ri.FromClient {
			d = 1
		}
		l.typ[d] = append(l.typ[d], ri.Type)
		n := 0
		if ri.Type == 23 {
			n = ri.PlainLen
		}
		l.plain[d] = append(l.plain[d], n)
	}
	return l, nil
}

// judge evaluates one faulted session.
func judge(c *harness.Ctx, lay *layoutT, suite uint16, fromClient bool, idx int, fname string, o *tlsk.Outcome, changed bool, after bool) {
	c.Add("evaluations", 1)
	dirName := map[bool]string{true: "client->server", false: "server->client"}[fromClient]
	tag := fmt.Sprintf("suite=%04x %s record#%d fault=%s", suite, dirName, idx, fname)
	cl, sv := payloads()
	recv, sent := o.S, tlsk.Cat(cl)
	if !fromClient {
		recv, sent = o.C, tlsk.Cat(sv)
	}
	key := func(kind string) string { return fmt.Sprintf("%s:%04x:%s:%s", kind, suite, dirName, faultClass(fname)) }
	if o.C.Panic != nil || o.S.Panic != nil {
		c.Violate(key("panic"), fmt.Sprintf("[%s] endpoint panicked: %v %v", tag, o.C.Panic, o.S.Panic), nil, tag)
		return
	}
	if len(o.Stuck) > 0 || o.Horizon {
		c.Violate(key("hang"), fmt.Sprintf("[%s] endpoint still waiting after its input ended: %v", tag, o.Stuck), nil, tag)
		return
	}
	if !changed {
		c.Add("fault_not_applicable", 1)
		return
	}
	if !bytes.HasPrefix(sent, recv.Read) {
		c.Violate(key("delivered-not-a-prefix"), fmt.Sprintf("[%s] the receiver delivered %s which is not a prefix of what was written %s", tag, pu.Hex(recv.Read), pu.Hex(sent)), nil, tag)
		return
	}
	// bytes of the attacked record and later ones must not be delivered when the record itself was
	// modified; for duplication/replay the first copy is legitimate
	d := 0
	if !fromClient {
		d = 1
	}
	limit := 0
	for k := 0; k < idx && k < len(lay.plain[d]); k++ {
		limit += lay.plain[d][k]
	}
	if (legit(fname) || isStaleExtend(fname)) && idx < len(lay.plain[d]) {
		limit += lay.plain[d][idx] // the first copy of a duplicated/replayed record is legitimate
	}
	last := idx == len(lay.plain[d])-1
	_ = after
	if last && !fromClient {
		// the client has read everything it expects and closed before the server's close_notify
		// arrives: nothing done to that record can be observed
		c.Add("fault_not_observable", 1)
		return
	}
	if last && (legit(fname) || isStaleExtend(fname)) {
		c.Add("fault_not_observable", 1) // bytes behind the close_notify are never read
		return
	}
	// index of the last record the receiver actually consumes: the client stops after the expected
	// byte count, i.e. after the server's last data record
	lastObservable := len(lay.plain[d]) - 1
	if !fromClient {
		lastObservable--
	}
	if idx == lastObservable && !fromClient && (legit(fname) || isStaleExtend(fname)) {
		c.Add("fault_not_observable", 1) // extra bytes behind the last record the client reads
		return
	}
	noLaterRecord := idx >= lastObservable
	if len(recv.Read) > limit {
		c.Violate(key("delivered-after-affected-record"), fmt.Sprintf("[%s] %d bytes delivered, only the %d bytes before the affected record may be", tag, len(recv.Read), limit), nil, tag)
		return
	}
	failed := recv.HandshakeErr != nil || (recv.ReadErr != nil && recv.ReadErr != io.EOF)
	if !failed && (fname == "drop" || fname == "swap-with-next") && noLaterRecord {
		// nothing followed the deleted record before the stream ended: there is no record to reject;
		// the library reports the end of the transport stream as EOF (what was read is a prefix)
		c.Add("deletion_at_end_of_stream_seen_as_eof", 1)
		return
	}
	if failed && recv.ReadErr != nil && recv.ReadErr != io.EOF && (len(recv.ReadAfterErr) > 0 || recv.ReadRecovered) {
		c.Violate(key("error-not-sticky"), fmt.Sprintf("[%s] after the fatal error %v further Read calls delivered %d bytes (recovered=%v): nothing may be delivered after the affected record", tag, recv.ReadErr, len(recv.ReadAfterErr), recv.ReadRecovered), nil, tag)
		return
	}
	if !failed {
		c.Violate(key("no-fatal-error"), fmt.Sprintf("[%s] the receiver saw no error (handshake err %v, read err %v) although the protected stream was changed; delivered %d of %d bytes", tag, recv.HandshakeErr, recv.ReadErr, len(recv.Read), len(sent)), nil, tag)
	}
}

func legit(fname string) bool {
	switch fname {
	case "duplicate", "replay-previous-record", "inject-foreign-record-before":
		return true
	}
	return false
}

func isStaleExtend(f string) bool {
	return len(f) > 7 && f[:7] == "extend-" && f[len(f)-12:] == "stale-length"
}

func faultClass(f string) string {
	for _, p := range []string{"bit", "truncate", "extend", "type", "version", "length"} {
		if len(f) >= len(p) && f[:len(p)] == p {
			return p
		}
	}
	return f
}

func structUnit(suite uint16, fromClient bool) harness.Unit {
	return harness.Unit{Name: fmt.Sprintf("structural/%04x/fromClient=%v", suite, fromClient), Run: func(c *harness.Ctx) {
		// material from another connection (different randomness)
		rc := &recorder{}
		session(suite, 77, rc)
		foreign := rc.prot[0]
		if !fromClient {
			foreign = rc.prot[1]
		}
		// honest run: nothing reported, everything delivered
		base := &recorder{}
		o := session(suite, 1, base)
		cl, sv := payloads()
		if !bytes.Equal(o.S.Read, tlsk.Cat(cl)) || !bytes.Equal(o.C.Read, tlsk.Cat(sv)) || o.S.ReadErr != io.EOF {
			c.Violate("honest-session", "the unfaulted session does not deliver both streams and end cleanly: "+o.Describe(), nil, nil)
			return
		}
		nrec := len(base.prot[0])
		if !fromClient {
			nrec = len(base.prot[1])
		}
		lay, err := layout(suite)
		if err != nil {
			c.Violate("independent-decode", "the independent decoder rejects the honest session: "+err.Error(), nil, nil)
			return
		}
		for idx := 0; idx < nrec; idx++ {
			for _, f := range structuralFaults() {
				m := &mitm{fromClient: fromClient, index: idx, f: f, foreign: foreign}
				o := session(suite, 1, m)
				c.DistinctS("nontrivial", fmt.Sprintf("%04x/%v/%d/%s", suite, fromClient, idx, f.name))
				judge(c, lay, suite, fromClient, idx, f.name, o, m.applied && m.changed, m.after)
			}
		}
		c.Sample(fmt.Sprintf("suite %04x, records sent by client=%v: %d structural faults at each of %d protected records (Finished, 6 data records, close_notify)", suite, fromClient, len(structuralFaults()), nrec))
	}}
}

func bitUnit(suite uint16, fromClient bool, idx int, stride int) harness.Unit {
	return harness.Unit{Name: fmt.Sprintf("bitflips/%04x/fromClient=%v/record%d", suite, fromClient, idx), Run: func(c *harness.Ctx) {
		base := &recorder{}
		session(suite, 1, base)
		recs := base.prot[0]
		if !fromClient {
			recs = base.prot[1]
		}
		if idx >= len(recs) {
			return
		}
		lay, err := layout(suite)
		if err != nil {
			c.Violate("independent-decode", "the independent decoder rejects the honest session: "+err.Error(), nil, nil)
			return
		}
		r := recs[idx]
		nbits := len(r) * 8
		for bit := 0; bit < nbits; bit += stride {
			b := bit
			f := fault{fmt.Sprintf("bit-%d", b), func(rr []byte, m *mitm) [][]byte {
				return mod(rr, func(x []byte) []byte { x[b/8] ^= 0x80 >> uint(b%8); return x })
			}}
			m := &mitm{fromClient: fromClient, index: idx, f: f}
			o := session(suite, 1, m)
			c.DistinctS("nontrivial", fmt.Sprintf("%04x/%v/%d/bit%d", suite, fromClient, idx, b))
			judge(c, lay, suite, fromClient, idx, f.name, o, true, m.after)
		}
		c.Sample(fmt.Sprintf("suite %04x fromClient=%v record %d (%d bytes): every %d-th bit of header and body flipped", suite, fromClient, idx, len(r), stride))
	}}
}

// freshnessUnit: on honest sessions CBC explicit IVs never repeat and GCM explicit nonces count
// 0,1,2,... per direction.
func freshnessUnit() harness.Unit {
	return harness.Unit{Name: "freshness", Run: func(c *harness.Ctx) {
		for _, suite := range []uint16{gmtls.GMTLS_ECC_SM4_CBC_SM3, gmtls.GMTLS_ECC_SM4_GCM_SM3} {
			rc := &recorder{}
			session(suite, 5, rc)
			for d := 0; d < 2; d++ {
				seen := map[string]bool{}
				for i, r := range rc.prot[d] {
					c.Add("evaluations", 1)
					c.DistinctS("nontrivial", fmt.Sprintf("fresh/%04x/%d/%d", suite, d, i))
					body := r[5:]
					if suite == gmtls.GMTLS_ECC_SM4_GCM_SM3 {
						if len(body) < 8 {
							continue
						}
						want := []byte{0, 0, 0, 0, 0, 0, 0, byte(i)}
						if !bytes.Equal(body[:8], want) {
							c.Violate("gcm-nonce-sequence", fmt.Sprintf("suite %04x direction %d record %d carries explicit nonce %x, want the sequence number %x", suite, d, i, body[:8], want), nil, nil)
						}
					} else {
						if len(body) < 16 {
							continue
						}
						iv := string(body[:16])
						if seen[iv] {
							c.Violate("cbc-iv-repeats", fmt.Sprintf("suite %04x direction %d: explicit IV of record %d repeats an earlier one", suite, d, i), nil, nil)
						}
						seen[iv] = true
						if i > 0 {
							prev := rc.prot[d][i-1]
							if bytes.Equal(prev[len(prev)-16:], body[:16]) {
								c.Violate("cbc-iv-chained", fmt.Sprintf("suite %04x direction %d: explicit IV of record %d equals the last ciphertext block of the previous record", suite, d, i), nil, nil)
							}
						}
					}
				}
			}
		}
		c.Sample("explicit IVs (CBC) pairwise distinct and unchained; explicit nonces (GCM) equal 0,1,2,... on both directions of an honest session")
	}}
}

// Prop registers C07.
var Prop = &harness.Prop{
	ID:          "C07",
	Level:       "fault_enumeration",
	Rule:        "a record-aware man in the middle between two real library endpoints (GMSSL, both ECC suites) applies one fault at one protected record of a session of Finished + 6 application records (payload sizes 1,15,16,17,100,0) + close_notify per direction; catalogue: every bit of header and body of each record (quick: stride over one suite/direction, see bounds), truncation and extension by 1..17 bytes with consistent and with stale length, record type set to each other type, 5 record versions, length +-1, drop, duplicate, swap with next, replay of the previous record, a record of the other direction, the same-index record of another connection (replace and inject). Oracle: what the receiver's application read is a prefix of what was written, contains nothing from the affected record on, and the receiver's handshake/Read ends with a non-EOF error; no panic, no hang. Freshness: explicit CBC IVs pairwise distinct and unchained, explicit GCM nonces 0,1,2,... Keyed peer (gmref, an independent GM/T 0024 implementation holding the session keys, in each role and suite): after an honest handshake it sends records it protects itself - every CBC padding length 0..255 as a valid encoding (must be delivered), every byte of the padding and the length byte corrupted under a correct MAC for chosen padding lengths (thorough: all), correct protection under sequence numbers seq+1/+2/-1/+2^32, MAC computed for another content type, duplicate, reflection of the library's own record, unprotected record, header version changed after protection, truncation/extension, payloads of 0/16384/16385/18500 bytes, sender-chosen explicit IV/nonce - at stream positions 0 and 2; bad padding and bad MAC must be answered with the same fatal alert. In the receive direction gmref authenticates every record of a stream of 600+ payload sizes (0..600, powers of two +-1, 16383..16385, 20000..50000) written by the library and checks explicit IV/nonce freshness and record sizes. A case is distinct/non-trivial per (suite, direction, record, fault). Added: fresh connections writing (a, b, small) over 10 size classes with IV/nonce uniqueness under the reference; after an honest renegotiation one record protected for the wrong epoch (6 ways); each side's complete byte stream of one full and two resumed connections replayed to a fresh connection of the other side's Config (GMSSL-only, auto-switch, TLS 1.0/1.2): never completion, never data. Transport faults through a net.Conn wrapper at the library endpoint: the j-th application-data write (j = 1..12) fails after none/half/all of its bytes and the application closes - the keyed reference peer must authenticate every record incl. close_notify when all bytes went out, delivered bytes are a prefix, no nonce repeats; the k-th transport read (k = 1..60) is short and the next one times out while the application retries - the stream must continue exactly. Short protected records (types 21/22/23, bodies 0..65 bytes) on 20 TLS suites and both GMSSL suites. Config.Rand returning one byte per Read (CBC IVs distinct and consecutive IVs differing in at least 8 positions); protected warning alerts in the data phase followed by data.",
	Assumptions: []string{"sequence-number wrap (2^64 records) is unreachable and not explored", "in the man-in-the-middle units both endpoints are the library; the keyed-peer units pair the library with the independent reference implementation gmref in each role, so sender/receiver defects that cancel out between two library endpoints do not cancel there"},
	Bounds: func(tier string) string {
		if tier == "thorough" {
			return "structural catalogue at every record, both suites, both directions; every bit of every record for both suites and directions; keyed peer: every padding byte of every padding length 0..255 with masks 01 and 80 at stream positions 0 and 2, payload sizes 0..4200 and every 97th up to 16384"
		}
		return "structural catalogue at every record, both suites, both directions; every bit of the Finished record and of the 17-byte and 1-byte data records for CBC client->server and GCM server->client, every 4th bit elsewhere; keyed peer: all 256 padding lengths valid, corrupted padding bytes for lengths {0,1,2,15,16,17,31,32,255} at stream position 2, payload sizes 0..600 and boundaries"
	},
	Units: func(tier string) []harness.Unit {
		var u []harness.Unit
		suites := []uint16{gmtls.GMTLS_ECC_SM4_CBC_SM3, gmtls.GMTLS_ECC_SM4_GCM_SM3}
		for _, s := range suites {
			for _, fc := range []bool{true, false} {
				u = append(u, structUnit(s, fc))
				for idx := 0; idx < 8; idx++ {
					stride := 1
					if tier != "thorough" {
						dense := (s == suites[0] && fc) || (s == suites[1] && !fc)
						if !(dense && (idx == 0 || idx == 1 || idx == 4)) {
							stride = 4
						}
						if !dense && idx != 1 && idx != 5 {
							stride = 16
						}
					}
					u = append(u, bitUnit(s, fc, idx, stride))
				}
			}
		}
		u = append(u, freshnessUnit(), wholeReplayUnit())
		for sp := 0; sp < 8; sp++ {
			u = append(u, ShortRecordUnit(sp, 8))
		}
		u = append(u, refUnits(tier)...)
		return u
	},
}
