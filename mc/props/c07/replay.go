package c07

import (
	"fmt"

	"github.com/tjfoc/gmsm/gmtls"

	"verif/mc/harness"
	"verif/mc/tlsk"
	"verif/mc/wire"
)

// ---- a whole connection played again -----------------------------------------------------------------
//
// "Cross-connection replay" at its largest: everything one side sent on an honest connection -
// handshake and protected records - is sent again, byte for byte, to a fresh connection of the same
// peer Config. Nothing of it may be delivered: the new connection has fresh randoms on the
// receiver's side, so neither the Finished nor any record of the old connection authenticates. This
// holds for full handshakes and for resumed ones (where the receiver's random is the only fresh
// input to the key block), in every server mode.

type replayScenario struct {
	name string
	sc   func() *gmtls.Config
	cc   func() *gmtls.Config
}

func replayScenarios() []replayScenario {
	p := tlsk.Get()
	gmSuites := []uint16{gmtls.GMTLS_ECC_SM4_CBC_SM3, gmtls.GMTLS_ECC_SM4_GCM_SM3}
	var out []replayScenario
	for _, s := range gmSuites {
		suite := s
		for _, auto := range []bool{false, true} {
			auto := auto
			out = append(out, replayScenario{
				name: fmt.Sprintf("GMSSL %04x auto-switch=%v", suite, auto),
				sc: func() *gmtls.Config {
					cfg := &gmtls.Config{GMSupport: &gmtls.GMSupport{}, Certificates: []gmtls.Certificate{p.Sign, p.Enc}, Time: tlsk.FixedTime, Rand: wire.NewRand(71), CipherSuites: []uint16{suite}}
					if auto {
						cfg.GMSupport.EnableMixMode()
						cfg.GetCertificate = func(*gmtls.ClientHelloInfo) (*gmtls.Certificate, error) { return &p.Sign, nil }
						cfg.GetKECertificate = func(*gmtls.ClientHelloInfo) (*gmtls.Certificate, error) { return &p.Enc, nil }
					}
					return cfg
				},
				cc: func() *gmtls.Config {
					return &gmtls.Config{GMSupport: &gmtls.GMSupport{}, RootCAs: p.Roots, ServerName: tlsk.ServerName, Time: tlsk.FixedTime, Rand: wire.NewRand(72), CipherSuites: []uint16{suite}, ClientSessionCache: gmtls.NewLRUClientSessionCache(4)}
				},
			})
		}
	}
	for _, v := range []uint16{0x0301, 0x0303} {
		ver := v
		out = append(out, replayScenario{
			name: fmt.Sprintf("TLS %04x", ver),
			sc: func() *gmtls.Config {
				return &gmtls.Config{Certificates: []gmtls.Certificate{p.ECDSA}, Time: tlsk.FixedTime, Rand: wire.NewRand(71), MinVersion: ver, MaxVersion: ver}
			},
			cc: func() *gmtls.Config {
				return &gmtls.Config{RootCAs: p.StdRootsG, ServerName: tlsk.ServerName, Time: tlsk.FixedTime, Rand: wire.NewRand(72), MinVersion: ver, MaxVersion: ver, ClientSessionCache: gmtls.NewLRUClientSessionCache(4)}
			},
		})
	}
	return out
}

func wholeReplayUnit() harness.Unit {
	return harness.Unit{Name: "whole-connection-replay", Run: func(c *harness.Ctx) {
		secret := []byte("PAY 100 TO MALLORY")
		for _, rs := range replayScenarios() {
			sc, cc := rs.sc(), rs.cc()
			var streams [2][][]byte // per honest connection: [client->server bytes, server->client bytes]
			var resumed []bool
			for k := 0; k < 3; k++ {
				var cv, sv tlsk.View
				app := [2]tlsk.App{{Writes: [][]byte{secret}, Expect: 2}, {Writes: [][]byte{[]byte("ok")}, Expect: len(secret)}}
				o := tlsk.Run(tlsk.GMEnd(cc, true, app[0], &cv, nil), tlsk.GMEnd(sc, false, app[1], &sv, nil), &cv, &sv, nil)
				if !o.C.Complete || !o.S.Complete || string(o.S.Read) != string(secret) {
					c.Violate("control-fails:whole-connection-replay:"+rs.name, fmt.Sprintf("%s: honest connection %d fails: %s", rs.name, k, o.Describe()), nil, nil)
					break
				}
				var fromC, fromS []byte
				for _, r := range o.Records {
					if r.From == o.ClientEnd {
						fromC = append(fromC, r.Raw...)
					} else {
						fromS = append(fromS, r.Raw...)
					}
				}
				streams[0] = append(streams[0], fromC)
				streams[1] = append(streams[1], fromS)
				resumed = append(resumed, o.S.DidResume)
			}
			for k := range streams[0] {
				// (a) the client's side again, to a fresh connection of the same server Config
				var sv, rv tlsk.View
				app := tlsk.App{Writes: [][]byte{[]byte("ok")}, Expect: len(secret)}
				o := tlsk.Run(rawSender(streams[0][k], &rv), tlsk.GMEnd(sc, false, app, &sv, nil), &rv, &sv, nil)
				tag := fmt.Sprintf("%s: everything the client sent on honest connection %d (resumed=%v) is sent again to a new connection of the same server", rs.name, k, resumed[k])
				c.Add("evaluations", 1)
				c.DistinctS("nontrivial", tag)
				judgeReplay(c, tag, fmt.Sprintf("%s:client-side:resumed=%v", rs.name, resumed[k]), &o.S, o, secret)
				// (b) the server's side again, to a fresh connection of the same client Config
				capp := tlsk.App{Writes: [][]byte{secret}, Expect: 2}
				cc2 := rs.cc()                        // no cached session: a full handshake is asked for; and with the shared cache below
				cc2.Rand = wire.NewRand(byte(80 + k)) // its own randomness: a client that repeats its random AND its key exchange is replaying itself
				for _, ccfg := range []*gmtls.Config{cc2, cc} {
					var cv, rv2 tlsk.View
					o2 := tlsk.Run(tlsk.GMEnd(ccfg, true, capp, &cv, nil), rawSenderAfterFirst(streams[1][k], &rv2), &cv, &rv2, nil)
					tag2 := fmt.Sprintf("%s: everything the server sent on honest connection %d (resumed=%v) is sent again to a new connection of a client (session cache shared=%v)", rs.name, k, resumed[k], ccfg == cc)
					c.Add("evaluations", 1)
					c.DistinctS("nontrivial", tag2)
					judgeReplay(c, tag2, fmt.Sprintf("%s:server-side:resumed=%v:shared-cache=%v", rs.name, resumed[k], ccfg == cc), &o2.C, o2, []byte("ok"))
				}
			}
		}
		c.Sample("GMSSL (both suites, GMSSL-only and auto-switch servers) and TLS 1.0 / 1.2: three honest connections on one Config pair (full, resumed, resumed); each side's complete byte stream replayed to a fresh connection of the other side's Config")
	}}
}

func judgeReplay(c *harness.Ctx, tag, key string, v *tlsk.View, o *tlsk.Outcome, payload []byte) {
	if v.Panic != nil {
		c.Violate("panic:whole-connection-replay:"+key, fmt.Sprintf("[%s] %v\n%s", tag, v.Panic, v.Stack), nil, tag)
		return
	}
	if len(o.Stuck) > 0 || o.Horizon {
		c.Violate("hang:whole-connection-replay:"+key, fmt.Sprintf("[%s] %s", tag, o.Describe()), nil, tag)
		return
	}
	if v.Complete {
		c.Violate("replayed-connection-accepted:"+key, fmt.Sprintf("[%s] the endpoint reports a completed handshake with a peer that only replays: %s", tag, o.Describe()), nil, tag)
	}
	if len(v.Read) > 0 {
		c.Violate("replayed-data-delivered:"+key, fmt.Sprintf("[%s] the endpoint delivered %q", tag, v.Read), nil, tag)
	}
}

// rawSender writes the bytes and then reads until the peer is done.
func rawSender(stream []byte, v *tlsk.View) func(e *wire.End) error {
	return func(e *wire.End) error {
		defer func() { v.Done = true }()
		e.Write(stream)
		buf := make([]byte, 4096)
		for {
			if _, err := e.Read(buf); err != nil {
				return nil
			}
		}
	}
}

// rawSenderAfterFirst waits for the peer's first bytes (its ClientHello) before it starts replaying.
func rawSenderAfterFirst(stream []byte, v *tlsk.View) func(e *wire.End) error {
	return func(e *wire.End) error {
		defer func() { v.Done = true }()
		buf := make([]byte, 4096)
		if _, err := e.Read(buf); err != nil {
			return nil
		}
		e.Write(stream)
		for {
			if _, err := e.Read(buf); err != nil {
				return nil
			}
		}
	}
}
