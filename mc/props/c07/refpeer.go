package c07

import (
	"bytes"
	"fmt"
	"io"

	"github.com/tjfoc/gmsm/gmtls"

	"verif/mc/harness"
	"verif/mc/props/pu"
	"verif/mc/ref/gmref"
	"verif/mc/tlsk"
	"verif/mc/wire"
)

// Keyed peer: the reference implementation gmref completes an honest handshake with the library and
// then sends records it protects ITSELF - so it can produce what a man in the middle cannot: every
// valid padding length, a correct MAC over a wrong sequence number or type, a corrupted padding byte
// under an otherwise valid record. In the other direction it verifies every record the library sends.

type crafted struct {
	name  string
	valid bool // the record is a legitimate encoding: its payload must be delivered
	// either: the SENDER chose an unusual but self-consistent encoding (not tampering): the receiver
	// may deliver it or refuse it, but must do one of the two cleanly
	either bool
	cbc    bool // applies to the CBC suite
	gcm    bool // applies to the GCM suite
	// emit sends the crafted record(s); payload is what a valid record would deliver
	emit    func(q *gmref.Peer) error
	payload []byte
}

func sealed(typ byte, data []byte, o gmref.SealOpt) func(q *gmref.Peer) error {
	return func(q *gmref.Peer) error { return q.WriteRaw(typ, q.Seal(typ, data, o)) }
}

// Pseudo-suite codes (private to this harness) select TLS_RSA_WITH_AES_128_CBC_SHA at TLS 1.0 / 1.1;
// the real AES suite codes mean TLS 1.2.
const (
	aesCBCTLS10 = 0xf02f
	aesCBCTLS11 = 0xf12f
)

func isTLS(suite uint16) bool {
	return suite == gmref.SuiteAESCBC || suite == gmref.SuiteAESGCM || suite == aesCBCTLS10 || suite == aesCBCTLS11
}
func isCBCSuite(suite uint16) bool {
	return suite == gmref.SuiteCBC || suite == gmref.SuiteAESCBC || suite == aesCBCTLS10 || suite == aesCBCTLS11
}

// wireSuite and wireVersion translate a (pseudo-)suite into what goes on the wire.
func wireSuite(suite uint16) uint16 {
	if suite == aesCBCTLS10 || suite == aesCBCTLS11 {
		return gmref.SuiteAESCBC
	}
	return suite
}
func wireVersion(suite uint16) uint16 {
	switch {
	case suite == aesCBCTLS10:
		return 0x0301
	case suite == aesCBCTLS11:
		return 0x0302
	case isTLS(suite):
		return 0x0303
	}
	return 0x0101
}

// refIdentity is what the reference peer holds as the server of the given suite's profile.
func refIdentity(suite uint16, libIsClient bool) gmref.Identity {
	if !libIsClient {
		return gmref.Identity{}
	}
	if isTLS(suite) {
		p := tlsk.Get()
		return gmref.Identity{Certs: [][]byte{p.RSA.Certificate[0]}, RSAKey: p.RSAKey}
	}
	return tlsk.ServerIdentity()
}

func refSetup(suite uint16) func(q *gmref.Peer) {
	return func(q *gmref.Peer) {
		if isTLS(suite) {
			q.UseTLSVersion(wireVersion(suite))
		}
		q.Suites = []uint16{wireSuite(suite)}
	}
}

func libConfig(suite uint16, libIsClient bool) *gmtls.Config {
	p := tlsk.Get()
	if isTLS(suite) {
		v := wireVersion(suite)
		if libIsClient {
			return &gmtls.Config{RootCAs: p.StdRootsG, ServerName: tlsk.ServerName, Time: tlsk.FixedTime, Rand: wire.NewRand(51), CipherSuites: []uint16{wireSuite(suite)}, MinVersion: v, MaxVersion: v}
		}
		return &gmtls.Config{Certificates: []gmtls.Certificate{p.RSA}, Time: tlsk.FixedTime, Rand: wire.NewRand(52), CipherSuites: []uint16{wireSuite(suite)}, MinVersion: v, MaxVersion: v}
	}
	if libIsClient {
		return &gmtls.Config{GMSupport: &gmtls.GMSupport{}, RootCAs: p.Roots, ServerName: tlsk.ServerName, Time: tlsk.FixedTime, Rand: wire.NewRand(51), CipherSuites: []uint16{suite}}
	}
	return &gmtls.Config{GMSupport: &gmtls.GMSupport{}, Certificates: []gmtls.Certificate{p.Sign, p.Enc}, Time: tlsk.FixedTime, Rand: wire.NewRand(52), CipherSuites: []uint16{suite}}
}

const libFirst = "LIBDATA"

// runCrafted: handshake, the library writes libFirst, the peer sends `prefix` honest records, then
// the crafted record(s), then an honest record "AFTER", then waits for the library's reaction.
// halfClosed: the library endpoint has already sent its close_notify (CloseWrite) and keeps reading
// when the crafted record arrives.
var halfClosed = false

func runCrafted(suite uint16, libIsClient bool, prefix int, cr crafted) (*tlsk.RefOutcome, []byte) {
	return runCraftedHC(suite, libIsClient, prefix, cr, false)
}

func runCraftedHC(suite uint16, libIsClient bool, prefix int, cr crafted, hc bool) (*tlsk.RefOutcome, []byte) {
	var pre []byte
	data := func(q *gmref.Peer) error {
		if err := q.ReadApp(len(libFirst)); err != nil {
			return err
		}
		if hc {
			// wait for the library's close_notify so that its half-closed state is certain
			if err := q.ReadApp(0); err != gmref.ErrClosed {
				return fmt.Errorf("expected the library's close_notify, got %v", err)
			}
		}
		for i := 0; i < prefix; i++ {
			m := []byte(fmt.Sprintf("OK%d.", i))
			pre = append(pre, m...)
			if err := q.WriteRecord(gmref.RecApp, m); err != nil {
				return err
			}
		}
		if err := cr.emit(q); err != nil {
			return err
		}
		if err := q.WriteRecord(gmref.RecApp, []byte("AFTER")); err != nil {
			return err
		}
		if err := q.CloseNotify(); err != nil {
			return err
		}
		err := q.ReadApp(0)
		if err == gmref.ErrClosed || err == io.EOF || (hc && err == io.ErrUnexpectedEOF) {
			return nil
		}
		return err
	}
	o := tlsk.RunLibVsRef(libConfig(suite, libIsClient), libIsClient, tlsk.App{Writes: [][]byte{[]byte(libFirst)}, CloseWriteAfterWrites: hc}, refIdentity(suite, libIsClient), 53, refSetup(suite), &gmref.Script{Data: data}, nil)
	return o, pre
}

func craftedCatalogue(suite uint16, thorough bool) []crafted {
	isCBC := isCBCSuite(suite)
	var cs []crafted
	add := func(c crafted) {
		if (isCBC && c.cbc) || (!isCBC && c.gcm) {
			cs = append(cs, c)
		}
	}
	msg := []byte("crafted-payload")
	both := func(name string, valid bool, payload []byte, emit func(q *gmref.Peer) error) {
		add(crafted{name: name, valid: valid, cbc: true, gcm: true, emit: emit, payload: payload})
	}
	both("control: honest record", true, msg, sealed(gmref.RecApp, msg, gmref.SealOpt{}))
	both("empty application-data record", true, nil, sealed(gmref.RecApp, nil, gmref.SealOpt{}))
	// warning alerts are records like any other: one sequence number each, and the stream goes on
	both("protected warning alert no_renegotiation, then data", true, nil, sealed(gmref.RecAlert, []byte{1, 100}, gmref.SealOpt{}))
	both("protected warning alert user_canceled, then data", true, nil, sealed(gmref.RecAlert, []byte{1, 90}, gmref.SealOpt{}))
	both("two protected warning alerts, then data", true, nil, func(q *gmref.Peer) error {
		if err := q.WriteRaw(gmref.RecAlert, q.Seal(gmref.RecAlert, []byte{1, 100}, gmref.SealOpt{})); err != nil {
			return err
		}
		return q.WriteRaw(gmref.RecAlert, q.Seal(gmref.RecAlert, []byte{1, 90}, gmref.SealOpt{}))
	})
	big := pu.Msg(7, 16384)
	both("payload of 16384 bytes", true, big, sealed(gmref.RecApp, big, gmref.SealOpt{}))
	both("payload of 16385 bytes", false, nil, sealed(gmref.RecApp, pu.Msg(7, 16385), gmref.SealOpt{}))
	both("payload of 18500 bytes (ciphertext over the record limit)", false, nil, sealed(gmref.RecApp, pu.Msg(7, 18500), gmref.SealOpt{}))
	both("MAC/tag with one bit flipped", false, nil, sealed(gmref.RecApp, msg, gmref.SealOpt{FlipMAC: true}))
	for _, d := range []int64{1, 2, -1, 1 << 32, -1 << 62} {
		both(fmt.Sprintf("correctly protected under sequence number seq%+d", d), false, nil, sealed(gmref.RecApp, msg, gmref.SealOpt{SeqDelta: d}))
	}
	both("protected as handshake data but labelled application data", false, nil, sealed(gmref.RecApp, msg, gmref.SealOpt{MacType: gmref.RecHS}))
	both("protected as application data but labelled alert", false, nil, func(q *gmref.Peer) error {
		return q.WriteRaw(gmref.RecAlert, q.Seal(gmref.RecAlert, []byte{1, 0}, gmref.SealOpt{MacType: gmref.RecApp}))
	})
	both("the same protected record sent twice", false, msg, func(q *gmref.Peer) error {
		b := q.Seal(gmref.RecApp, msg, gmref.SealOpt{})
		if err := q.WriteRaw(gmref.RecApp, b); err != nil {
			return err
		}
		return q.WriteRaw(gmref.RecApp, b)
	})
	both("the library's own first record reflected back to it", false, nil, func(q *gmref.Peer) error {
		for i := len(q.RawIn) - 1; i >= 0; i-- {
			if q.RawIn[i][0] == gmref.RecApp {
				_, err := q.RW.Write(q.RawIn[i])
				return err
			}
		}
		return fmt.Errorf("no record to reflect")
	})
	both("unprotected application-data record after the keys were activated", false, nil, func(q *gmref.Peer) error { return q.WriteRaw(gmref.RecApp, msg) })
	for _, v := range []uint16{0x0100, 0x0102, 0x0301, 0x0303, 0x0101} {
		v := v
		if v == wireVersion(suite) {
			continue // the connection's own version: not a change
		}
		add(crafted{name: fmt.Sprintf("sender protects and labels the record with version %04x", v), either: true, cbc: true, gcm: true, payload: msg, emit: func(q *gmref.Peer) error {
			old := q.Vers
			q.Vers = v
			err := q.WriteRaw(gmref.RecApp, q.Seal(gmref.RecApp, msg, gmref.SealOpt{}))
			q.Vers = old
			return err
		}})
		both(fmt.Sprintf("version field of the header changed to %04x after protection", v), false, nil, func(q *gmref.Peer) error {
			b := q.Seal(gmref.RecApp, msg, gmref.SealOpt{})
			old := q.Vers
			q.Vers = v
			err := q.WriteRaw(gmref.RecApp, b)
			q.Vers = old
			return err
		})
	}
	both("last byte of the protected record missing", false, nil, func(q *gmref.Peer) error {
		b := q.Seal(gmref.RecApp, msg, gmref.SealOpt{})
		return q.WriteRaw(gmref.RecApp, b[:len(b)-1])
	})
	both("one extra byte after the protected record", false, nil, func(q *gmref.Peer) error {
		return q.WriteRaw(gmref.RecApp, append(q.Seal(gmref.RecApp, msg, gmref.SealOpt{}), 0))
	})
	// explicit IV / nonce chosen by the sender: any value is a legitimate encoding
	add(crafted{name: "all-zero explicit IV", valid: true, cbc: true, payload: msg, emit: sealed(gmref.RecApp, msg, gmref.SealOpt{IV: make([]byte, 16)})})
	add(crafted{name: "explicit nonce different from the sequence number", valid: true, gcm: true, payload: msg, emit: sealed(gmref.RecApp, msg, gmref.SealOpt{IV: []byte{9, 9, 9, 9, 9, 9, 9, 9}})})
	add(crafted{name: "last ciphertext block missing", cbc: true, emit: func(q *gmref.Peer) error {
		b := q.Seal(gmref.RecApp, msg, gmref.SealOpt{})
		return q.WriteRaw(gmref.RecApp, b[:len(b)-16])
	}})
	add(crafted{name: "one extra ciphertext block", cbc: true, emit: func(q *gmref.Peer) error {
		return q.WriteRaw(gmref.RecApp, append(q.Seal(gmref.RecApp, msg, gmref.SealOpt{}), make([]byte, 16)...))
	}})
	add(crafted{name: "record of IV only", cbc: true, emit: func(q *gmref.Peer) error { return q.WriteRaw(gmref.RecApp, make([]byte, 16)) }})
	add(crafted{name: "record of IV and one block", cbc: true, emit: func(q *gmref.Peer) error { return q.WriteRaw(gmref.RecApp, make([]byte, 32)) }})
	add(crafted{name: "record shorter than nonce and tag", gcm: true, emit: func(q *gmref.Peer) error { return q.WriteRaw(gmref.RecApp, make([]byte, 23)) }})
	add(crafted{name: "record of nonce and tag only, tag wrong", gcm: true, emit: func(q *gmref.Peer) error { return q.WriteRaw(gmref.RecApp, make([]byte, 24)) }})
	// every CBC padding length 0..255 as a valid encoding: data length L gives base padding 15-L, k extra blocks add 16k
	if isCBC {
		// corrupted padding bytes: every byte of the padding (and the length byte) of chosen paddings
		pads := []int{0, 1, 2, 15, 16, 17, 31, 32, 255}
		if thorough {
			pads = nil
			for p := 0; p <= 255; p++ {
				pads = append(pads, p)
			}
		}
		macLen := 32
		if isTLS(suite) {
			macLen = 20
		}
		for _, p := range pads {
			// data length whose minimal padding is p%16 for this suite's MAC length
			L, k := ((15-p%16-macLen)%16+16)%16, p/16
			data := pu.Msg(p, L)
			for j := 0; j <= p; j++ {
				masks := []byte{0x01}
				if j == p || j == 0 || thorough {
					masks = []byte{0x01, 0x80}
				}
				for _, m := range masks {
					add(crafted{name: fmt.Sprintf("padding length %d, padding byte %d xor %02x under a correct MAC", p, j, m), cbc: true,
						emit: sealed(gmref.RecApp, data, gmref.SealOpt{ExtraPadBlocks: k, CorruptPad: j + 1, PadMask: m})})
				}
			}
		}
		add(crafted{name: "padding of 256+ bytes requested (length byte wraps)", cbc: true, emit: func(q *gmref.Peer) error {
			// 16 extra blocks on top of base padding 15 would need a length byte of 271: emit what a
			// sender with that bug would send (length byte 15, 271 padding bytes of value 15)
			b := q.Seal(gmref.RecApp, nil, gmref.SealOpt{ExtraPadBlocks: 16})
			return q.WriteRaw(gmref.RecApp, b)
		}})
	}
	return cs
}

func judgeCrafted(c *harness.Ctx, suite uint16, libIsClient bool, prefix int, cr crafted, o *tlsk.RefOutcome, pre []byte, alerts map[string]map[byte]bool) {
	role := map[bool]string{true: "library client", false: "library server"}[libIsClient]
	tag := fmt.Sprintf("suite=%04x %s receives after %d honest records: %s", suite, role, prefix, cr.name)
	c.Add("evaluations", 1)
	c.DistinctS("nontrivial", tag)
	if c.WantSample() {
		c.Sample(tag)
	}
	key := fmt.Sprintf("%04x:%s", suite, cr.name)
	if o.Lib.Panic != nil {
		c.Violate("panic:keyed-peer:"+key, fmt.Sprintf("[%s] receiver panicked: %v\n%s", tag, o.Lib.Panic, o.Lib.Stack), nil, tag)
		return
	}
	if o.Ref.Panic != nil || !o.Lib.Complete {
		c.Note("harness: [%s] handshake with the reference peer failed or the peer panicked: %s", tag, o.Describe())
		c.Add("harness_divergences", 1)
		return
	}
	if o.LibStuck || o.Horizon {
		c.Violate("hang:keyed-peer:"+key, fmt.Sprintf("[%s] receiver still waiting: %s", tag, o.Describe()), nil, tag)
		return
	}
	got := o.Lib.Read
	if cr.either {
		full := append(append(append([]byte{}, pre...), cr.payload...), []byte("AFTER")...)
		okDelivered := bytes.Equal(got, full) && o.Lib.ReadErr == io.EOF
		okRefused := bytes.Equal(got, pre) && o.Lib.ReadErr != nil && o.Lib.ReadErr != io.EOF
		if !okDelivered && !okRefused {
			c.Violate("neither-delivered-nor-refused:"+key, fmt.Sprintf("[%s] application read %q with error %v", tag, clipB(got, 80), o.Lib.ReadErr), nil, tag)
		}
		c.DistinctS("outcomes", fmt.Sprintf("either/delivered=%v", okDelivered))
		return
	}
	if cr.valid {
		want := append(append(append([]byte{}, pre...), cr.payload...), []byte("AFTER")...)
		if !bytes.Equal(got, want) || o.Lib.ReadErr != io.EOF {
			c.Violate("valid-record-refused:"+key, fmt.Sprintf("[%s] a legitimately encoded record is not delivered: application read %d bytes (%q...), want %d; read error %v", tag, len(got), clipB(got, 40), len(want), o.Lib.ReadErr), nil, tag)
		}
		return
	}
	// invalid: exactly the honest prefix (plus, for a duplicate, the first copy) and then a non-EOF error
	want := append(append([]byte{}, pre...), cr.payload...)
	if !bytes.Equal(got, want) {
		c.Violate("delivers-after-bad-record:"+key, fmt.Sprintf("[%s] application read %q, want exactly %q (nothing from the affected record on)", tag, clipB(got, 80), clipB(want, 80)), nil, tag)
		return
	}
	if len(o.Lib.ReadAfterErr) > 0 || o.Lib.ReadRecovered {
		c.Violate("error-not-sticky:"+key, fmt.Sprintf("[%s] after the fatal error %v further Read calls delivered %q (recovered=%v)", tag, o.Lib.ReadErr, clipB(o.Lib.ReadAfterErr, 40), o.Lib.ReadRecovered), nil, tag)
		return
	}
	if o.Lib.ReadErr == nil || o.Lib.ReadErr == io.EOF {
		c.Violate("no-error-after-bad-record:"+key, fmt.Sprintf("[%s] the receiver's Read ended with %v, want a fatal error", tag, o.Lib.ReadErr), nil, tag)
		return
	}
	var desc byte = 255
	if o.Ref.Peer != nil && o.Ref.Peer.GotAlert != nil {
		desc = o.Ref.Peer.GotAlert.Desc
		if o.Ref.Peer.GotAlert.Level != 2 {
			c.Violate("alert-not-fatal:"+key, fmt.Sprintf("[%s] the receiver answered with a non-fatal alert %d", tag, desc), nil, tag)
		}
	}
	cls := "other"
	switch {
	case bytes.HasPrefix([]byte(cr.name), []byte("padding length")):
		cls = "bad-padding"
	case cr.name == "MAC/tag with one bit flipped":
		cls = "bad-mac"
	}
	if alerts[cls] == nil {
		alerts[cls] = map[byte]bool{}
	}
	alerts[cls][desc] = true
	c.DistinctS("outcomes", fmt.Sprintf("%s/alert=%d", cls, desc))
}

func clipB(b []byte, n int) []byte {
	if len(b) > n {
		return b[:n]
	}
	return b
}

func refCraftedUnit(suite uint16, libIsClient bool, part, parts int) harness.Unit {
	return harness.Unit{Name: fmt.Sprintf("keyed-peer-records/%04x/library-client=%v/part%d", suite, libIsClient, part), Run: func(c *harness.Ctx) {
		alerts := map[string]map[byte]bool{}
		for i, cr := range craftedCatalogue(suite, c.Thorough()) {
			if i%parts != part {
				continue
			}
			for _, prefix := range []int{0, 2} {
				if prefix == 0 && len(cr.name) > 14 && cr.name[:14] == "padding length" && !c.Thorough() {
					continue // corrupted paddings at one position of the stream in the quick tier
				}
				o, pre := runCrafted(suite, libIsClient, prefix, cr)
				judgeCrafted(c, suite, libIsClient, prefix, cr, o, pre, alerts)
				if prefix == 2 && !(len(cr.name) > 14 && cr.name[:14] == "padding length") {
					// the same against a receiver that has already sent its close_notify (CloseWrite)
					hcr := cr
					hcr.name = cr.name + " [receiver half-closed]"
					o, pre := runCraftedHC(suite, libIsClient, prefix, cr, true)
					judgeCrafted(c, suite, libIsClient, prefix, hcr, o, pre, map[string]map[byte]bool{})
				}
			}
		}
		// no padding oracle: a bad padding and a bad MAC must be answered identically
		if len(alerts["bad-padding"]) > 1 {
			c.Violate(fmt.Sprintf("padding-oracle:%04x", suite), fmt.Sprintf("suite %04x: corrupted paddings are answered with different alerts %v", suite, alerts["bad-padding"]), nil, nil)
		}
		for a := range alerts["bad-padding"] {
			if len(alerts["bad-mac"]) > 0 && !alerts["bad-mac"][a] {
				c.Violate(fmt.Sprintf("padding-oracle:%04x", suite), fmt.Sprintf("suite %04x: a corrupted padding is answered with alert %d, a corrupted MAC with %v", suite, a, alerts["bad-mac"]), nil, nil)
			}
		}
	}}
}

// refPaddingSweepUnit: ALL 256 CBC padding lengths as valid encodings in one stream, which must be
// delivered exactly.
func refPaddingSweepUnit(libIsClient bool) harness.Unit {
	return harness.Unit{Name: fmt.Sprintf("keyed-peer-all-padding-lengths/library-client=%v", libIsClient), Run: func(c *harness.Ctx) {
		var want []byte
		cr := crafted{name: "every padding length 0..255", valid: true, cbc: true, emit: func(q *gmref.Peer) error {
			for p := 0; p <= 255; p++ {
				L, k := 15-p%16, p/16
				data := pu.Msg(p, L)
				if L == 0 {
					data = nil
				}
				want = append(want, data...)
				if err := q.WriteRaw(gmref.RecApp, q.Seal(gmref.RecApp, data, gmref.SealOpt{ExtraPadBlocks: k})); err != nil {
					return err
				}
				c.Add("evaluations", 1)
				c.DistinctS("nontrivial", fmt.Sprintf("padlen/%v/%d", libIsClient, p))
			}
			return nil
		}}
		o, pre := runCrafted(gmref.SuiteCBC, libIsClient, 1, cr)
		cr.payload = want
		judgeCrafted(c, gmref.SuiteCBC, libIsClient, 1, cr, o, pre, map[string]map[byte]bool{})
	}}
}

// refReceiveUnit: the library writes payloads of many sizes; the reference peer authenticates every
// record with its own keys, checks sequence numbers (implicitly, through the MAC), padding, sizes
// and the freshness of every explicit IV / nonce.
// shortRand hands out ONE byte per Read: legal for an io.Reader, and what Config.Rand may be.
type shortRand struct{ inner io.Reader }

func (s shortRand) Read(p []byte) (int, error) {
	if len(p) > 1 {
		p = p[:1]
	}
	return s.inner.Read(p)
}

// refReceiveShortRandUnit: the receive-direction checks with a Config.Rand that returns one byte per
// Read; beyond "no IV twice", consecutive explicit IVs of a CBC suite must differ in at least 8 of
// their 16 positions (an IV refilled only in its first bytes keeps the rest of the previous one).
func refReceiveShortRandUnit(suite uint16, libIsClient bool) harness.Unit {
	return harness.Unit{Name: fmt.Sprintf("keyed-peer-receive-short-reading-rand/%04x/library-client=%v", suite, libIsClient), Run: func(c *harness.Ctx) {
		var writes [][]byte
		var want []byte
		for i, n := range []int{1, 100, 1000, 5000, 40000, 7, 16384, 3, 3, 3, 3, 3, 3, 3, 3} {
			w := pu.Msg(30+i, n)
			writes = append(writes, w)
			want = append(want, w...)
		}
		var peer *gmref.Peer
		data := func(q *gmref.Peer) error {
			peer = q
			err := q.ReadApp(0)
			if err == gmref.ErrClosed {
				return nil
			}
			return err
		}
		cfg := libConfig(suite, libIsClient)
		cfg.Rand = shortRand{cfg.Rand}
		o := tlsk.RunLibVsRef(cfg, libIsClient, tlsk.App{Writes: writes, Expect: -1}, refIdentity(suite, libIsClient), 59, refSetup(suite), &gmref.Script{Data: data}, nil)
		tag := fmt.Sprintf("suite=%04x library-client=%v Config.Rand returns one byte per Read", suite, libIsClient)
		c.Add("evaluations", int64(len(writes)))
		c.DistinctS("nontrivial", tag)
		if o.Lib.Panic != nil || peer == nil || !o.Lib.Complete {
			c.Violate("keyed-peer-receive:session-failed:short-reading-rand", fmt.Sprintf("[%s] %s", tag, o.Describe()), nil, tag)
			return
		}
		if o.Ref.Res.Err != nil || !bytes.Equal(peer.Received, want) {
			c.Violate(fmt.Sprintf("keyed-peer-receive:stream-differs:short-reading-rand:%04x", suite), fmt.Sprintf("[%s] reference peer: %v after %d of %d bytes", tag, o.Ref.Res.Err, len(peer.Received), len(want)), nil, tag)
			return
		}
		seen := map[string]bool{}
		for i, iv := range peer.PeerIVs {
			if seen[string(iv)] {
				c.Violate(fmt.Sprintf("keyed-peer-receive:iv-repeats:short-reading-rand:%04x", suite), fmt.Sprintf("[%s] explicit IV/nonce of protected record %d repeats an earlier one", tag, i), nil, tag)
				return
			}
			seen[string(iv)] = true
			if i > 0 && isCBCSuite(suite) && len(iv) == 16 && len(peer.PeerIVs[i-1]) == 16 {
				same := 0
				for k := range iv {
					if iv[k] == peer.PeerIVs[i-1][k] {
						same++
					}
				}
				if same > 8 {
					c.Violate(fmt.Sprintf("keyed-peer-receive:iv-mostly-stale:%04x", suite), fmt.Sprintf("[%s] the explicit IV of record %d equals the previous record's IV in %d of 16 positions (%x / %x)", tag, i, same, peer.PeerIVs[i-1], iv), nil, tag)
					return
				}
			}
		}
		c.Add("records_authenticated_by_reference", int64(len(peer.RecLens)))
	}}
}

func refReceiveUnit(suite uint16, libIsClient bool, thorough bool) harness.Unit {
	return harness.Unit{Name: fmt.Sprintf("keyed-peer-receives/%04x/library-client=%v", suite, libIsClient), Run: func(c *harness.Ctx) {
		var sizes []int
		top := 600
		if thorough {
			top = 4200
		}
		for n := 0; n <= top; n++ {
			sizes = append(sizes, n)
		}
		if !thorough {
			for n := 601; n <= 1100; n++ {
				sizes = append(sizes, n)
			}
		}
		for k := uint(11); k <= 14; k++ {
			for n := 1<<k - 40; n <= 1<<k+8; n++ {
				if n > top || !thorough {
					sizes = append(sizes, n)
				}
			}
		}
		sizes = append(sizes, 16400, 20000, 32768, 32769, 50000)
		if thorough {
			for n := 4300; n < 16384; n += 97 {
				sizes = append(sizes, n)
			}
		}
		var writes [][]byte
		var want []byte
		for i, n := range sizes {
			w := pu.Msg(i, n)
			writes = append(writes, w)
			want = append(want, w...)
		}
		var peer *gmref.Peer
		data := func(q *gmref.Peer) error {
			peer = q
			err := q.ReadApp(0)
			if err == gmref.ErrClosed {
				return nil
			}
			return err
		}
		o := tlsk.RunLibVsRef(libConfig(suite, libIsClient), libIsClient, tlsk.App{Writes: writes, Expect: -1}, refIdentity(suite, libIsClient), 54, refSetup(suite), &gmref.Script{Data: data}, nil)
		tag := fmt.Sprintf("suite=%04x library-client=%v writes %d payloads (sizes 0..%d and boundaries)", suite, libIsClient, len(sizes), top)
		c.Add("evaluations", int64(len(sizes)))
		for _, n := range sizes {
			c.DistinctS("nontrivial", fmt.Sprintf("size/%04x/%v/%d", suite, libIsClient, n))
		}
		c.Sample(tag)
		if o.Lib.Panic != nil || peer == nil || !o.Lib.Complete {
			c.Violate("keyed-peer-receive:session-failed", fmt.Sprintf("[%s] %s", tag, o.Describe()), nil, tag)
			return
		}
		if o.Ref.Res.Err != nil {
			c.Violate(fmt.Sprintf("keyed-peer-receive:record-rejected:%04x", suite), fmt.Sprintf("[%s] the reference peer could not authenticate a record the library sent (wrong MAC, padding, sequence number or framing): %v after %d bytes", tag, o.Ref.Res.Err, len(peer.Received)), nil, tag)
			return
		}
		if !bytes.Equal(peer.Received, want) {
			c.Violate(fmt.Sprintf("keyed-peer-receive:stream-differs:%04x", suite), fmt.Sprintf("[%s] the reference peer decrypted %d bytes, the library wrote %d", tag, len(peer.Received), len(want)), nil, tag)
		}
		for _, l := range peer.RecLens {
			if l > 16384 {
				c.Violate("keyed-peer-receive:oversized-record", fmt.Sprintf("[%s] a record carries %d plaintext bytes", tag, l), nil, tag)
				break
			}
		}
		seen := map[string]bool{}
		for i, iv := range peer.PeerIVs {
			if seen[string(iv)] {
				c.Violate(fmt.Sprintf("keyed-peer-receive:iv-repeats:%04x", suite), fmt.Sprintf("[%s] explicit IV/nonce of protected record %d repeats an earlier one", tag, i), nil, tag)
				break
			}
			seen[string(iv)] = true
		}
		c.Add("records_authenticated_by_reference", int64(len(peer.RecLens)))
	}}
}

// refJumpUnit: the sender's output buffer grows with the largest record written so far; a record that
// outgrows it by a wide margin takes other paths (reallocation between header and protection) than one
// that creeps past it. Fresh connections that write (a, b, c) with a below one capacity class, b in a
// higher one and c small again: every record must authenticate under the reference, the stream must
// be intact and no explicit IV / nonce may repeat.
func refJumpUnit(suite uint16, libIsClient bool) harness.Unit {
	return harness.Unit{Name: fmt.Sprintf("keyed-peer-receives-jumps/%04x/library-client=%v", suite, libIsClient), Run: func(c *harness.Ctx) {
		classes := []int{0, 1, 500, 1000, 2000, 4000, 8000, 16000, 16384, 33000}
		for i, a := range classes {
			for _, b := range classes[i+1:] {
				for _, delta := range []int{0, 24, 48} {
					seq := []int{a, b + delta, 3}
					var writes [][]byte
					var want []byte
					for k, n := range seq {
						w := pu.Msg(k+i, n)
						writes = append(writes, w)
						want = append(want, w...)
					}
					var peer *gmref.Peer
					data := func(q *gmref.Peer) error {
						peer = q
						err := q.ReadApp(0)
						if err == gmref.ErrClosed {
							return nil
						}
						return err
					}
					o := tlsk.RunLibVsRef(libConfig(suite, libIsClient), libIsClient, tlsk.App{Writes: writes, Expect: -1}, refIdentity(suite, libIsClient), 55, refSetup(suite), &gmref.Script{Data: data}, nil)
					tag := fmt.Sprintf("suite=%04x library-client=%v fresh connection writes %v", suite, libIsClient, seq)
					c.Add("evaluations", 1)
					c.DistinctS("nontrivial", tag)
					if o.Lib.Panic != nil || peer == nil || !o.Lib.Complete {
						c.Violate("keyed-peer-receive:session-failed", fmt.Sprintf("[%s] %s", tag, o.Describe()), nil, tag)
						continue
					}
					if o.Ref.Res.Err != nil {
						c.Violate(fmt.Sprintf("keyed-peer-receive:record-rejected:%04x", suite), fmt.Sprintf("[%s] the reference peer could not authenticate a record the library sent: %v after %d bytes", tag, o.Ref.Res.Err, len(peer.Received)), nil, tag)
						continue
					}
					if !bytes.Equal(peer.Received, want) {
						c.Violate(fmt.Sprintf("keyed-peer-receive:stream-differs:%04x", suite), fmt.Sprintf("[%s] the reference peer decrypted %d bytes, the library wrote %d", tag, len(peer.Received), len(want)), nil, tag)
					}
					seen := map[string]bool{}
					for k, iv := range peer.PeerIVs {
						if seen[string(iv)] {
							c.Violate(fmt.Sprintf("keyed-peer-receive:iv-repeats:%04x", suite), fmt.Sprintf("[%s] explicit IV/nonce of protected record %d repeats an earlier one", tag, k), nil, tag)
							break
						}
						seen[string(iv)] = true
					}
					c.Add("records_authenticated_by_reference", int64(len(peer.RecLens)))
				}
			}
		}
		c.Sample(fmt.Sprintf("suite=%04x library-client=%v: fresh connections writing (a, b, 3) for all a < b over 10 size classes x 3 offsets", suite, libIsClient))
	}}
}

func refUnits(tier string) []harness.Unit {
	var u []harness.Unit
	for _, s := range []uint16{gmref.SuiteCBC, gmref.SuiteGCM, gmref.SuiteAESCBC, gmref.SuiteAESGCM, aesCBCTLS10, aesCBCTLS11} {
		for _, lc := range []bool{true, false} {
			parts := 1
			if isCBCSuite(s) {
				parts = 4
				if tier == "thorough" {
					parts = 16
				}
			}
			for p := 0; p < parts; p++ {
				u = append(u, refCraftedUnit(s, lc, p, parts))
			}
			u = append(u, refReceiveUnit(s, lc, tier == "thorough"), refJumpUnit(s, lc), transportFaultUnit(s, lc), readTimeoutUnit(s, lc), refReceiveShortRandUnit(s, lc))
		}
	}
	u = append(u, refPaddingSweepUnit(true), refPaddingSweepUnit(false))
	for _, s := range []uint16{gmref.SuiteAESCBC, gmref.SuiteAESGCM, aesCBCTLS10, aesCBCTLS11} {
		u = append(u, refEpochUnit(s))
	}
	return u
}
