package c07

import (
	"fmt"
	"io"

	"github.com/tjfoc/gmsm/gmtls"

	"verif/mc/harness"
	"verif/mc/ref/gmref"
	"verif/mc/tlsk"
)

// ---- records across a key change -------------------------------------------------------------------
//
// A renegotiation replaces the keys and restarts the sequence numbers of each direction at its
// ChangeCipherSpec. What was protected for the previous epoch - or numbered as if the previous epoch
// went on - must be refused afterwards, exactly like any other record that fails authentication. The
// keyed reference server renegotiates honestly with a renegotiating library client and then emits one
// record that only differs from an honest one in the epoch its protection belongs to.

type epochCase struct {
	name  string
	valid bool
	emit  func(q *gmref.Peer, old gmref.Half, oldTotal uint64) error // oldTotal: records the previous epoch saw in this direction
}

func withHalf(q *gmref.Peer, h gmref.Half, f func() error) error {
	cur := q.Wr
	q.Wr = h
	err := f()
	q.Wr = cur
	return err
}

func epochCases() []epochCase {
	stale := func(q *gmref.Peer) error { return q.WriteRecord(gmref.RecApp, []byte("STALE")) }
	return []epochCase{
		{"control: a record under the new keys with the next sequence number", true, func(q *gmref.Peer, old gmref.Half, oldTotal uint64) error {
			return q.WriteRecord(gmref.RecApp, []byte("FRESH"))
		}},
		{"protected under the previous epoch's keys, sequence number continuing there", false, func(q *gmref.Peer, old gmref.Half, oldTotal uint64) error {
			return withHalf(q, old, func() error { return stale(q) })
		}},
		{"protected under the previous epoch's keys, sequence number 0", false, func(q *gmref.Peer, old gmref.Half, oldTotal uint64) error {
			old.Seq = 0
			return withHalf(q, old, func() error { return stale(q) })
		}},
		{"protected under the previous epoch's keys, sequence number of the new epoch", false, func(q *gmref.Peer, old gmref.Half, oldTotal uint64) error {
			old.Seq = q.Wr.Seq
			return withHalf(q, old, func() error { return stale(q) })
		}},
		{"the last record of the previous epoch again (same keys, same sequence number)", false, func(q *gmref.Peer, old gmref.Half, oldTotal uint64) error {
			old.Seq--
			return withHalf(q, old, func() error { return q.WriteRecord(gmref.RecApp, []byte("OK0.")) })
		}},
		{"new keys, sequence number continuing from the previous epoch", false, func(q *gmref.Peer, old gmref.Half, oldTotal uint64) error {
			h := q.Wr
			h.Seq += oldTotal // as if the count had not restarted at ChangeCipherSpec
			return withHalf(q, h, func() error { return stale(q) })
		}},
		{"new keys, sequence number not advanced (that of the previous record)", false, func(q *gmref.Peer, old gmref.Half, oldTotal uint64) error {
			h := q.Wr
			h.Seq--
			return withHalf(q, h, func() error { return stale(q) })
		}},
	}
}

func refEpochUnit(suite uint16) harness.Unit {
	return harness.Unit{Name: fmt.Sprintf("keyed-peer-records-across-renegotiation/%04x", suite), Run: func(c *harness.Ctx) {
		for _, ec := range epochCases() {
			ec := ec
			renegOK := false
			data := func(q *gmref.Peer) error {
				if err := q.ReadApp(len(libFirst)); err != nil {
					return err
				}
				if err := q.WriteRecord(gmref.RecApp, []byte("OK0.")); err != nil {
					return err
				}
				old := q.Wr
				var oldTotal uint64
				count := &gmref.Script{Mutate: func(fl int, items []gmref.Item) []gmref.Item {
					if fl == 3 {
						oldTotal = q.Wr.Seq + 1 // everything so far plus the ChangeCipherSpec about to go out
					}
					return items
				}}
				if res := q.RenegotiateServer(count, true); res.Err != nil || !res.Completed {
					return fmt.Errorf("renegotiation: %+v", res)
				}
				renegOK = true
				if err := q.WriteRecord(gmref.RecApp, []byte("OK1.")); err != nil {
					return err
				}
				if err := ec.emit(q, old, oldTotal); err != nil {
					return err
				}
				if err := q.WriteRecord(gmref.RecApp, []byte("AFTER")); err != nil {
					return err
				}
				if err := q.CloseNotify(); err != nil {
					return err
				}
				err := q.ReadApp(0)
				if err == gmref.ErrClosed || err == io.EOF {
					return nil
				}
				return err
			}
			cfg := libConfig(suite, true)
			cfg.Renegotiation = gmtls.RenegotiateFreelyAsClient
			o := tlsk.RunLibVsRef(cfg, true, tlsk.App{Writes: [][]byte{[]byte(libFirst)}}, refIdentity(suite, true), 53, func(q *gmref.Peer) { refSetup(suite)(q); q.EchoRenegInfo = true }, &gmref.Script{Data: data}, nil)
			tag := fmt.Sprintf("suite=%04x library client after a renegotiation receives: %s", suite, ec.name)
			key := fmt.Sprintf("%04x:%s", suite, ec.name)
			c.Add("evaluations", 1)
			c.DistinctS("nontrivial", tag)
			if o.Lib.Panic != nil {
				c.Violate("panic:keyed-peer:across-renegotiation:"+key, fmt.Sprintf("[%s] receiver panicked: %v\n%s", tag, o.Lib.Panic, o.Lib.Stack), nil, tag)
				continue
			}
			if !renegOK || o.Ref.Panic != nil {
				c.Violate("control-fails:across-renegotiation:"+key, fmt.Sprintf("[%s] the honest renegotiation before the crafted record did not complete: %s", tag, o.Describe()), nil, tag)
				continue
			}
			if o.LibStuck || o.Horizon {
				c.Violate("hang:keyed-peer:across-renegotiation:"+key, fmt.Sprintf("[%s] %s", tag, o.Describe()), nil, tag)
				continue
			}
			got := string(o.Lib.Read)
			if ec.valid {
				if got != "OK0.OK1.FRESHAFTER" || o.Lib.ReadErr != io.EOF {
					c.Violate("valid-record-refused:across-renegotiation:"+key, fmt.Sprintf("[%s] delivered %q, error %v", tag, got, o.Lib.ReadErr), nil, tag)
				}
				continue
			}
			if got != "OK0.OK1." {
				c.Violate("delivered-after-bad-record:across-renegotiation:"+key, fmt.Sprintf("[%s] the receiver delivered %q; only \"OK0.OK1.\" precedes the record of the wrong epoch", tag, got), nil, tag)
			}
			if o.Lib.ReadErr == nil || o.Lib.ReadErr == io.EOF {
				c.Violate("no-error-after-bad-record:across-renegotiation:"+key, fmt.Sprintf("[%s] Read reported %v", tag, o.Lib.ReadErr), nil, tag)
			}
			if len(o.Lib.ReadAfterErr) > 0 || o.Lib.ReadRecovered {
				c.Violate("error-not-sticky:across-renegotiation:"+key, fmt.Sprintf("[%s] later Read calls delivered %q / returned nil", tag, o.Lib.ReadAfterErr), nil, tag)
			}
		}
		c.Sample(fmt.Sprintf("suite %04x: honest renegotiation, then one record whose protection belongs to the wrong epoch (6 ways) or the right one (control)", suite))
	}}
}
