package c07

import (
	"bytes"
	"errors"
	"fmt"
	"net"

	"verif/mc/harness"
	"verif/mc/props/pu"
	"verif/mc/ref/gmref"
	"verif/mc/tlsk"
)

// ---- the transport refuses a write -----------------------------------------------------------------
//
// "The implicit sequence number advances by exactly one per record" is about records the endpoint
// PRODUCED, whether or not its transport then reported success: a write deadline can fire after the
// last byte left. faultConn sits between the library endpoint and the wire and makes the j-th
// application-data write fail after forwarding none, half or all of its bytes; the application then
// closes the connection, which sends close_notify. When all bytes went out the keyed reference peer
// must authenticate every record including the closing alert (so no sequence number was used twice
// or skipped); in every case the delivered bytes are a prefix of what was written, no explicit
// IV/nonce repeats, nothing crashes or hangs.

type faultConn struct {
	net.Conn
	at, mode int // fail the at-th application-data write; mode 0 none / 1 half / 2 all bytes forwarded
	seen     int
	fired    bool
}

var errInjected = errors.New("injected transport failure")

func (f *faultConn) Write(p []byte) (int, error) {
	if len(p) > 0 && p[0] == 23 && !f.fired {
		f.seen++
		if f.seen == f.at {
			f.fired = true
			n := []int{0, len(p) / 2, len(p)}[f.mode]
			if n > 0 {
				f.Conn.Write(p[:n])
			}
			return n, errInjected
		}
	}
	return f.Conn.Write(p)
}

func transportFaultUnit(suite uint16, libIsClient bool) harness.Unit {
	return harness.Unit{Name: fmt.Sprintf("transport-write-fault/%04x/library-client=%v", suite, libIsClient), Run: func(c *harness.Ctx) {
		sizes := []int{1, 100, 1000, 3000, 40000, 7, 16384}
		var writes [][]byte
		var want []byte
		for i, n := range sizes {
			w := pu.Msg(60+i, n)
			writes = append(writes, w)
			want = append(want, w...)
		}
		for at := 1; at <= 12; at++ {
			for mode := 0; mode < 3; mode++ {
				var peer *gmref.Peer
				data := func(q *gmref.Peer) error {
					peer = q
					err := q.ReadApp(0)
					if err == gmref.ErrClosed {
						return nil
					}
					return err
				}
				fc := &faultConn{at: at, mode: mode}
				app := tlsk.App{Writes: writes, Expect: -1, Wrap: func(nc net.Conn) net.Conn { fc.Conn = nc; return fc }}
				o := tlsk.RunLibVsRef(libConfig(suite, libIsClient), libIsClient, app, refIdentity(suite, libIsClient), 57, refSetup(suite), &gmref.Script{Data: data}, nil)
				tag := fmt.Sprintf("suite=%04x library-client=%v; application-data write %d to the transport fails after %s of its bytes went out; then Close", suite, libIsClient, at, []string{"none", "half", "all"}[mode])
				c.Add("executions", 1)
				c.Add("transitions", 1)
				c.DistinctS("states", tag)
				if o.Lib.Panic != nil || o.LibStuck || o.Horizon || peer == nil || !o.Lib.Complete {
					c.Violate(fmt.Sprintf("transport-write-fault:crash-or-hang:%04x", suite), fmt.Sprintf("[%s] %s\n%s", tag, o.Describe(), clipStr(o.Lib.Stack, 1200)), nil, tag)
					continue
				}
				c.DistinctS("outcomes", fmt.Sprintf("%v/%v/%d", fc.fired, o.Ref.Res.Err == nil, len(peer.Received)))
				if !bytes.HasPrefix(want, peer.Received) {
					c.Violate(fmt.Sprintf("transport-write-fault:stream-differs:%04x", suite), fmt.Sprintf("[%s] the reference peer decrypted %d bytes that are not a prefix of what the library wrote", tag, len(peer.Received)), nil, tag)
				}
				seen := map[string]bool{}
				for i, iv := range peer.PeerIVs {
					if seen[string(iv)] {
						c.Violate(fmt.Sprintf("transport-write-fault:iv-repeats:%04x", suite), fmt.Sprintf("[%s] explicit IV/nonce of protected record %d repeats an earlier one", tag, i), nil, tag)
						break
					}
					seen[string(iv)] = true
				}
				if (mode == 2 || !fc.fired) && o.Ref.Res.Err != nil {
					c.Violate(fmt.Sprintf("transport-write-fault:record-rejected-after-complete-write:%04x:mode%d", suite, mode), fmt.Sprintf("[%s] every byte of every record reached the peer, yet the keyed reference peer cannot authenticate one of them (a sequence number was reused or skipped): %v after %d bytes", tag, o.Ref.Res.Err, len(peer.Received)), nil, tag)
				}
				if !fc.fired && !bytes.Equal(peer.Received, want) {
					c.Violate(fmt.Sprintf("transport-write-fault:stream-short:%04x", suite), fmt.Sprintf("[%s] no fault fired but only %d of %d bytes arrived", tag, len(peer.Received), len(want)), nil, tag)
				}
			}
		}
		c.Sample("write index 1..12 x {no, half, all} bytes forwarded before the error x 7 payload sizes (one of them spanning several records)")
	}}
}

func clipStr(s string, n int) string {
	if len(s) > n {
		return s[:n]
	}
	return s
}

// ---- the transport reports a timeout while a record is being read ----------------------------------
//
// A read deadline that fires in the middle of a record is a temporary error: the application extends
// the deadline and reads again, and the stream must continue exactly where it was - no byte lost,
// repeated or delivered out of place. timeoutConn makes the k-th Read of the library endpoint return
// only a part of what is available and the next one fail with a timeout; k sweeps the whole session
// (in the handshake phase a timeout simply fails the handshake).

type timeoutErr struct{}

func (timeoutErr) Error() string   { return "injected i/o timeout" }
func (timeoutErr) Timeout() bool   { return true }
func (timeoutErr) Temporary() bool { return true }

type timeoutConn struct {
	net.Conn
	at    int
	reads int
	fired bool
}

func (t *timeoutConn) Read(p []byte) (int, error) {
	t.reads++
	if t.reads == t.at && len(p) > 1 {
		return t.Conn.Read(p[:1+len(p)/3])
	}
	if t.reads == t.at+1 {
		t.fired = true
		return 0, timeoutErr{}
	}
	return t.Conn.Read(p)
}

// ReadTimeoutUnit is shared with C06 (the stream must be delivered whole across temporary transport errors).
func ReadTimeoutUnit(suite uint16, libIsClient bool) harness.Unit {
	return readTimeoutUnit(suite, libIsClient)
}

func readTimeoutUnit(suite uint16, libIsClient bool) harness.Unit {
	return harness.Unit{Name: fmt.Sprintf("transport-read-timeout/%04x/library-client=%v", suite, libIsClient), Run: func(c *harness.Ctx) {
		sizes := []int{1, 100, 3000, 40000, 7, 16384, 5}
		var want []byte
		var payloads [][]byte
		for i, n := range sizes {
			w := pu.Msg(80+i, n)
			payloads = append(payloads, w)
			want = append(want, w...)
		}
		inData := 0
		for at := 1; at <= 60; at++ {
			data := func(q *gmref.Peer) error {
				for _, w := range payloads {
					for off := 0; off < len(w); off += 16384 {
						end := off + 16384
						if end > len(w) {
							end = len(w)
						}
						if err := q.WriteRecord(gmref.RecApp, w[off:end]); err != nil {
							return err
						}
					}
				}
				return q.CloseNotify()
			}
			tc := &timeoutConn{at: at}
			app := tlsk.App{Expect: 0, RetryTemporary: true, ReadBuf: 5000, Wrap: func(nc net.Conn) net.Conn { tc.Conn = nc; return tc }}
			o := tlsk.RunLibVsRef(libConfig(suite, libIsClient), libIsClient, app, refIdentity(suite, libIsClient), 58, refSetup(suite), &gmref.Script{Data: data}, nil)
			tag := fmt.Sprintf("suite=%04x library-client=%v; Read %d of the transport is short and Read %d times out; the application reads again", suite, libIsClient, at, at+1)
			c.Add("executions", 1)
			c.Add("transitions", 1)
			c.DistinctS("states", tag)
			if o.Lib.Panic != nil || o.LibStuck || o.Horizon {
				c.Violate(fmt.Sprintf("transport-read-timeout:crash-or-hang:%04x", suite), fmt.Sprintf("[%s] %s\n%s", tag, o.Describe(), clipStr(o.Lib.Stack, 1200)), nil, tag)
				continue
			}
			c.DistinctS("outcomes", fmt.Sprintf("%v/%v/%d/%d", o.Lib.Complete, tc.fired, len(o.Lib.Read), o.Lib.TemporaryErrs))
			if !o.Lib.Complete {
				if o.Lib.HandshakeErr == nil || len(o.Lib.Read) > 0 {
					c.Violate(fmt.Sprintf("transport-read-timeout:incomplete-without-error:%04x", suite), fmt.Sprintf("[%s] %s", tag, o.Describe()), nil, tag)
				}
				continue
			}
			if tc.fired {
				inData++
			}
			if !bytes.Equal(o.Lib.Read, want) {
				c.Violate(fmt.Sprintf("transport-read-timeout:stream-differs:%04x", suite), fmt.Sprintf("[%s] after the timeout the library delivered %d bytes (first difference at %d), the peer wrote %d; readErr=%v", tag, len(o.Lib.Read), firstDiff(o.Lib.Read, want), len(want), o.Lib.ReadErr), nil, tag)
			}
		}
		if inData == 0 {
			c.Violate("transport-read-timeout:vacuous", "no timeout landed in the data phase", nil, nil)
		}
		c.Sample(fmt.Sprintf("short read + timeout at transport Read 1..60 (%d landed in the data phase); 7 payloads in 9 records", inData))
	}}
}

func firstDiff(a, b []byte) int {
	for i := 0; i < len(a) && i < len(b); i++ {
		if a[i] != b[i] {
			return i
		}
	}
	if len(a) < len(b) {
		return len(a)
	}
	return len(b)
}
