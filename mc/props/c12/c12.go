// Package c12: SM4-GCM helpers = NIST SP 800-38D GCM over SM4 (DESIGN §3 C12).
package c12

import (
	"bytes"
	"crypto/cipher"
	"encoding/binary"
	"fmt"

	"github.com/tjfoc/gmsm/sm4"

	"verif/mc/harness"
	"verif/mc/props/pu"
	"verif/mc/ref/refsm4"
	"verif/mc/xp"
)

var keys = [][]byte{
	{0x01, 0x23, 0x45, 0x67, 0x89, 0xab, 0xcd, 0xef, 0xfe, 0xdc, 0xba, 0x98, 0x76, 0x54, 0x32, 0x10},
	make([]byte, 16),
	{0x8e, 0x11, 0x00, 0x7f, 0x80, 0xa5, 0x5a, 0xc3, 0x3c, 0x01, 0xfe, 0x10, 0xef, 0x77, 0x88, 0x42},
}

func refSeal(key, iv, p, a []byte) (c, t []byte) {
	g, err := cipher.NewGCMWithNonceSize(refsm4.Must(key), len(iv))
	if err != nil {
		panic(err)
	}
	out := g.Seal(nil, iv, p, a)
	return out[:len(p)], out[len(p):]
}

// j0 of (key, iv) derived from the reference: the tag of the empty message is E(K, J0).
func refJ0(key, iv []byte) []byte {
	_, t := refSeal(key, iv, nil, nil)
	j := make([]byte, 16)
	refsm4.Must(key).Decrypt(j, t)
	return j
}

func ivPatterns(n int) [][]byte {
	var out [][]byte
	out = append(out, make([]byte, n))                      // zero
	out = append(out, bytes.Repeat([]byte{0xff}, n))        // all ones
	out = append(out, pu.Msg(300+n, n))                     // position dependent
	for _, last := range []uint32{0xfffffffe, 0xffffffff} { // counter-looking tail
		if n >= 4 {
			b := pu.Msg(7, n)
			binary.BigEndian.PutUint32(b[n-4:], last)
			out = append(out, b)
		}
	}
	return out
}

type caseT struct {
	key, iv, p, a []byte
	tag           string
}

// gcmHeld: results of earlier GCM calls of this worker process (see pu.Held)
var gcmHeld pu.Held

func checkCase(c *harness.Ctx, cs caseT, flips bool) {
	c.Add("evaluations", 1)
	c.DistinctS("nontrivial", cs.tag)
	wantC, wantT := refSeal(cs.key, cs.iv, cs.p, cs.a)
	kc, ic, pc, ac := pu.NewCanary(cs.key, 16), pu.NewCanary(cs.iv, 16), pu.NewCanary(cs.p, 16), pu.NewCanary(cs.a, 16)
	var C, T []byte
	var err error
	if c.Guard("panic-encrypt:"+cs.tag, "Sm4GCM(encrypt)", nil, func() { C, T, err = sm4.Sm4GCM(kc.Slice(), ic.Slice(), pc.Slice(), ac.Slice(), true) }) {
		return
	}
	if err != nil {
		c.Violate("encrypt-error:"+cs.tag, fmt.Sprintf("Sm4GCM encrypt failed: %v", err), nil, nil)
		return
	}
	cls := fmt.Sprintf("iv%d:A%s:P%s", len(cs.iv), lenClass(len(cs.a)), lenClass(len(cs.p)))
	gcmHeld.Keep("ciphertext of "+cs.tag, C)
	gcmHeld.Keep("tag of "+cs.tag, T)
	if n := gcmHeld.Changed(); n != "" {
		c.Violate("earlier-result-changed", fmt.Sprintf("[%s] after this call an earlier result no longer holds what it held: %s", cs.tag, n), nil, nil)
		gcmHeld = pu.Held{}
	}
	if !bytes.Equal(C, wantC) {
		c.Violate("ciphertext:"+cls, fmt.Sprintf("[%s] ciphertext %s differs from GCM over SM4 %s", cs.tag, pu.Hex(C), pu.Hex(wantC)), nil, nil)
	}
	if !bytes.Equal(T, wantT) {
		c.Violate("tag:"+cls, fmt.Sprintf("[%s] tag %x differs from GCM over SM4 %x", cs.tag, T, wantT), nil, nil)
	}
	for name, cn := range map[string]*pu.Canary{"key": kc, "iv": ic, "plaintext": pc, "aad": ac} {
		if d := cn.Check(); d != "" {
			c.Violate(fmt.Sprintf("encrypt-writes-%s:iv%d", name, len(cs.iv)), fmt.Sprintf("[%s] Sm4GCM encrypt wrote to the caller's %s: %s", cs.tag, name, d), nil, nil)
		}
	}
	// decrypt the standard ciphertext
	cc := pu.NewCanary(wantC, 16)
	ic2 := pu.NewCanary(cs.iv, 16)
	var P, T2 []byte
	if c.Guard("panic-decrypt:"+cls, "Sm4GCM(decrypt) ["+cs.tag+"]", nil, func() { P, T2, err = sm4.Sm4GCM(cs.key, ic2.Slice(), cc.Slice(), cs.a, false) }) {
		return
	}
	gcmHeld.Keep("plaintext of "+cs.tag, P)
	if err != nil || !bytes.Equal(P, cs.p) {
		c.Violate("decrypt-plaintext:"+cls, fmt.Sprintf("[%s] decryption returned %s (err %v), want %s", cs.tag, pu.Hex(P), err, pu.Hex(cs.p)), nil, nil)
	}
	if !bytes.Equal(T2, wantT) {
		c.Violate("decrypt-tag:"+cls, fmt.Sprintf("[%s] tag recomputed at decryption %x differs from the transmitted standard tag %x", cs.tag, T2, wantT), nil, nil)
	}
	if d := cc.Check(); d != "" {
		c.Violate("decrypt-writes-ciphertext:"+cls, d, nil, nil)
	}
	if d := ic2.Check(); d != "" {
		c.Violate(fmt.Sprintf("decrypt-writes-iv:iv%d", len(cs.iv)), d, nil, nil)
	}
	if !flips {
		return
	}
	// every single-bit change of IV, A, C: the tag recomputed at decryption must differ from the transmitted one
	flip := func(what string, buf []byte, run func(mod []byte) []byte) {
		for bit := 0; bit < len(buf)*8; bit++ {
			mod := append([]byte{}, buf...)
			mod[bit/8] ^= 0x80 >> uint(bit%8)
			var t []byte
			c.Add("evaluations", 1)
			if c.Guard("panic-decrypt-flip:"+what+":"+cls, "Sm4GCM(decrypt) with a flipped "+what+" bit", nil, func() { t = run(mod) }) {
				return
			}
			if bytes.Equal(t, wantT) {
				c.Violate(fmt.Sprintf("flip-undetected:%s:%s", what, cls), fmt.Sprintf("[%s] flipping bit %d of the %s leaves the recomputed tag equal to the transmitted tag", cs.tag, bit, what), nil, nil)
				return
			}
		}
	}
	flip("iv", cs.iv, func(m []byte) []byte { _, t, _ := sm4.Sm4GCM(cs.key, m, wantC, cs.a, false); return t })
	flip("aad", cs.a, func(m []byte) []byte { _, t, _ := sm4.Sm4GCM(cs.key, cs.iv, wantC, m, false); return t })
	flip("ciphertext", wantC, func(m []byte) []byte { _, t, _ := sm4.Sm4GCM(cs.key, cs.iv, m, cs.a, false); return t })
	flip("key", cs.key, func(m []byte) []byte { _, t, _ := sm4.Sm4GCM(m, cs.iv, wantC, cs.a, false); return t })
}

func lenClass(n int) string {
	switch {
	case n == 0:
		return "0"
	case n%16 == 0:
		return "16k"
	case n < 16:
		return "<16"
	}
	return "16k+r"
}

func gridUnit(ki, alo, ahi, pmax int) harness.Unit {
	return harness.Unit{Name: fmt.Sprintf("grid12/key%d/A=%d..%d", ki, alo, ahi), Run: func(c *harness.Ctx) {
		iv := pu.Msg(50, 12)
		for la := alo; la <= ahi; la++ {
			for lp := 0; lp <= pmax; lp++ {
				cs := caseT{keys[ki], iv, pu.Msg(la+lp, lp), pu.Msg(1000+la, la), fmt.Sprintf("key%d iv12 |A|=%d |P|=%d", ki, la, lp)}
				checkCase(c, cs, false)
			}
		}
		c.Sample(fmt.Sprintf("key%d, 12-byte IV, every (|A|,|P|) in %d..%d x 0..%d", ki, alo, ahi, pmax))
	}}
}

func ivUnit(ki, lo, hi int, tier string) harness.Unit {
	return harness.Unit{Name: fmt.Sprintf("ivlen/key%d/%d..%d", ki, lo, hi), Run: func(c *harness.Ctx) {
		sizes := []int{0, 1, 15, 16, 17, 32, 33}
		if tier == "thorough" {
			sizes = []int{0, 1, 15, 16, 17, 31, 32, 33, 47, 48, 64, 80}
		}
		for n := lo; n <= hi; n++ {
			for pi, iv := range ivPatterns(n) {
				for _, la := range sizes {
					for _, lp := range sizes {
						cs := caseT{keys[ki], iv, pu.Msg(la+lp, lp), pu.Msg(1000+la, la), fmt.Sprintf("key%d iv%d/pattern%d |A|=%d |P|=%d", ki, n, pi, la, lp)}
						checkCase(c, cs, false)
					}
				}
			}
		}
		// every IV byte position holding 0xff (12-byte fast path and a 16-byte IV)
		for _, n := range []int{12, 16} {
			if n < lo || n > hi {
				continue
			}
			for pos := 0; pos < n; pos++ {
				iv := pu.Msg(9, n)
				iv[pos] = 0xff
				checkCase(c, caseT{keys[ki], iv, pu.Msg(0, 40), pu.Msg(5, 20), fmt.Sprintf("key%d iv%d with 0xff at %d |A|=20 |P|=40", ki, n, pos)}, false)
			}
		}
		c.Sample(fmt.Sprintf("key%d, IV lengths %d..%d x 5 patterns x |A|,|P| in %v", ki, lo, hi, sizes))
	}}
}

func flipUnit(ki int) harness.Unit {
	return harness.Unit{Name: fmt.Sprintf("bitflips/key%d", ki), Run: func(c *harness.Ctx) {
		for _, ivn := range []int{12, 8, 16} {
			for _, la := range []int{0, 1, 16, 21} {
				for _, lp := range []int{0, 1, 16, 32, 37} {
					cs := caseT{keys[ki], pu.Msg(60, ivn), pu.Msg(la+lp, lp), pu.Msg(1000+la, la), fmt.Sprintf("key%d iv%d |A|=%d |P|=%d +bitflips", ki, ivn, la, lp)}
					checkCase(c, cs, true)
				}
			}
		}
		c.Sample(fmt.Sprintf("key%d: every single-bit change of IV, AAD, ciphertext and key for 60 (iv,|A|,|P|) shapes", ki))
	}}
}

// subkeyUnit: the GHASH subkey H = SM4_K(0^128) and the GHASH operands are data dependent, so the
// key alphabet is extended by keys FOUND by a deterministic search (key = counter pattern) whose H
// has a 0x00 byte, a 0xff byte, a set top bit or a set low bit at each of the 16 byte positions; for
// each a small (|A|,|P|,|IV|) product and AAD/plaintext filled with 0x00 and 0xff (zero and all-one
// GHASH operands) is compared with GCM over the reference SM4.
func subkeyUnit(pos int) harness.Unit {
	return harness.Unit{Name: fmt.Sprintf("ghash-subkey-alphabet/byte%d", pos), Run: func(c *harness.Ctx) {
		want := []struct {
			name string
			ok   func(b byte) bool
		}{{"00", func(b byte) bool { return b == 0 }}, {"ff", func(b byte) bool { return b == 0xff }}, {"80", func(b byte) bool { return b == 0x80 }}, {"01", func(b byte) bool { return b == 0x01 }}}
		found := map[string][]byte{}
		zero := make([]byte, 16)
		for ctr := 0; ctr < 1<<16 && len(found) < len(want); ctr++ {
			key := pu.Msg(ctr, 16)
			key[0], key[1] = byte(ctr), byte(ctr>>8)
			h := make([]byte, 16)
			refsm4.Must(key).Encrypt(h, zero)
			for _, w := range want {
				if _, ok := found[w.name]; !ok && w.ok(h[pos]) {
					found[w.name] = key
				}
			}
		}
		for name, key := range found {
			for _, ivl := range []int{12, 16, 1} {
				for _, al := range []int{0, 1, 16, 17} {
					for _, pl := range []int{0, 1, 16, 33} {
						for _, fill := range []int{-1, 0x00, 0xff} {
							a, p := pu.Msg(al+1, al), pu.Msg(pl+2, pl)
							if fill >= 0 {
								a, p = bytes.Repeat([]byte{byte(fill)}, al), bytes.Repeat([]byte{byte(fill)}, pl)
								if al == 0 && pl == 0 {
									continue
								}
							}
							checkCase(c, caseT{key, pu.Msg(ivl+3, ivl), p, a, fmt.Sprintf("H[%d]=%s iv%d A%d P%d fill=%d", pos, name, ivl, al, pl, fill)}, false)
						}
					}
				}
			}
		}
		if len(found) < len(want) {
			c.Note("subkey search at byte %d found only %d of %d patterns", pos, len(found), len(want))
		}
	}}
}

func bigUnit() harness.Unit {
	return harness.Unit{Name: "large", Run: func(c *harness.Ctx) {
		for _, n := range []int{255, 256, 4095, 4096, 65536} {
			checkCase(c, caseT{keys[0], pu.Msg(1, 12), pu.Msg(2, n), pu.Msg(3, 17), fmt.Sprintf("key0 iv12 |A|=17 |P|=%d", n)}, false)
			checkCase(c, caseT{keys[0], pu.Msg(1, 12), pu.Msg(2, 33), pu.Msg(3, n), fmt.Sprintf("key0 iv12 |A|=%d |P|=33", n)}, false)
		}
		c.Sample("lengths 255, 256, 4095, 4096, 65536 for P and for A")
	}}
}

// carryUnit: plaintext lengths around the block counts at which a byte of the 32-bit block counter
// carries (12-byte IV: the counter of the first block is 2): 16*k + r for k around 254, 255, 256,
// 510, 511, 512 (thorough: 65534 .. 65537) and r in {0, 1, 15}; 12-byte and 8-byte IVs.
func carryUnit(thorough bool) harness.Unit {
	return harness.Unit{Name: "counter-carry", Run: func(c *harness.Ctx) {
		var ks []int
		for _, base := range []int{254, 510} {
			for k := base - 2; k <= base+4; k++ {
				ks = append(ks, k)
			}
		}
		if thorough {
			for k := 65532; k <= 65538; k++ {
				ks = append(ks, k)
			}
			for k := 766; k <= 770; k++ {
				ks = append(ks, k)
			}
		}
		for _, k := range ks {
			for _, r := range []int{0, 1, 15} {
				n := 16*k + r
				checkCase(c, caseT{keys[0], pu.Msg(1, 12), pu.Msg(2, n), pu.Msg(3, 5), fmt.Sprintf("key0 iv12 |A|=5 |P|=%d (%d blocks + %d)", n, k, r)}, false)
				if r == 1 {
					checkCase(c, caseT{keys[1], pu.Msg(7, 8), pu.Msg(2, n), nil, fmt.Sprintf("key1 iv8 |A|=0 |P|=%d (%d blocks + %d)", n, k, r)}, false)
				}
			}
		}
		c.Sample(fmt.Sprintf("|P| = 16k + r for %d block counts around the carries of the counter's low bytes, r in {0,1,15}", len(ks)))
	}}
}

// wrapUnit searches (deterministically) for IVs whose J0 counter part is within reach of wrapping
// and encrypts enough blocks to cross 2^32.
func wrapUnit(budget int, maxBlocks uint32) harness.Unit {
	return harness.Unit{Name: fmt.Sprintf("counter-wrap/search%d", budget), Run: func(c *harness.Ctx) {
		key := keys[0]
		found := 0
		for i := 0; i < budget && found < 2; i++ {
			iv := make([]byte, 8)
			binary.BigEndian.PutUint64(iv, uint64(i)*0x9e3779b97f4a7c15+1)
			j0 := refJ0(key, iv)
			ctr := binary.BigEndian.Uint32(j0[12:])
			if ^ctr < maxBlocks { // 2^32-1-ctr blocks until the wrap
				found++
				blocks := int(^ctr) + 3
				checkCase(c, caseT{key, iv, pu.Msg(0, blocks*16+5), pu.Msg(4, 3), fmt.Sprintf("key0 8-byte IV %x with J0 counter %08x, %d blocks (32-bit counter wraps)", iv, ctr, blocks)}, false)
			}
		}
		c.Note("counter-wrap IVs found: %d (search budget %d)", found, budget)
		if found == 0 {
			c.Note("no wrapping IV within budget; wrap not covered in this tier")
		}
		c.Sample(fmt.Sprintf("8-byte IVs enumerated until J0's low 32 bits are within %d of wrapping", maxBlocks))
	}}
}

// tlsUnit: the same values the TLS stack computes (standard library GCM over sm4.NewCipher).
func tlsUnit() harness.Unit {
	return harness.Unit{Name: "tls-aead-agreement", Run: func(c *harness.Ctx) {
		for ki, key := range keys {
			blk, err := sm4.NewCipher(key)
			if err != nil {
				c.Violate("newcipher", err.Error(), nil, nil)
				return
			}
			g, _ := cipher.NewGCM(blk)
			for _, lp := range []int{0, 1, 16, 17, 100, 1024} {
				iv, p, a := pu.Msg(8, 12), pu.Msg(1, lp), pu.Msg(2, 13)
				out := g.Seal(nil, iv, p, a)
				wc, wt := refSeal(key, iv, p, a)
				c.Add("evaluations", 1)
				c.DistinctS("nontrivial", fmt.Sprintf("tls/%d/%d", ki, lp))
				if !bytes.Equal(out, append(append([]byte{}, wc...), wt...)) {
					c.Violate(fmt.Sprintf("tls-aead:key%d:P=%d", ki, lp), "crypto/cipher GCM over sm4.NewCipher differs from GCM over the reference SM4", nil, nil)
				}
			}
		}
		c.Sample("cipher.NewGCM(sm4.NewCipher(k)).Seal vs GCM over refsm4")
	}}
}

// Prop registers C12.
var Prop = &harness.Prop{
	ID:          "C12",
	Level:       "exploration",
	Rule:        "full products: 3 keys x 12-byte IV x every (|A|,|P|) of the grid; 3 keys x every IV length 1..64 x 5 IV patterns (zero, 0xff.., position-dependent, tails fffffffe/ffffffff) x |A|,|P| size classes; 0xff in every IV byte position; every single-bit change of IV/AAD/ciphertext/key for 60 shapes per key; large sizes; all call histories (depth 3/4) in which the caller overwrites one key/IV/AAD buffer in place between calls; IVs found by deterministic search whose 32-bit counter wraps. Oracle: cipher.NewGCMWithNonceSize over the independent SM4 (ciphertext, tag, decryption, recomputed tag), canaries on all inputs. Distinct/non-trivial = distinct (key, IV, |A|, |P|) case labels. Fresh-process unit: every sequence of one or two seal/open calls over {zero key, example key} x {12-byte, 7-byte IV}, each in a new process. Results stay the caller's: returned ciphertexts, tags and plaintexts are compared again after later calls.",
	Assumptions: []string{"Go's crypto/cipher GCM is NIST SP 800-38D for any nonce length", "refsm4 correct (GM/T 0002 vectors)"},
	Bounds: func(tier string) string {
		if tier == "thorough" {
			return "grid 0..80 x 0..80; IV lengths 1..64 with 12 size classes; counter wrap search 2^22 IVs / 8192 blocks"
		}
		return "grid 0..40 x 0..48; IV lengths 1..64 with 7 size classes; counter wrap search 2^19 IVs / 32768 blocks"
	},
	Units: func(tier string) []harness.Unit {
		var u []harness.Unit
		amax, pmax := 40, 48
		if tier == "thorough" {
			amax, pmax = 80, 80
		}
		for k := range keys {
			for lo := 0; lo <= amax; lo += 10 {
				hi := lo + 9
				if hi > amax {
					hi = amax
				}
				u = append(u, gridUnit(k, lo, hi, pmax))
			}
			for lo := 1; lo <= 64; lo += 8 {
				u = append(u, ivUnit(k, lo, lo+7, tier))
			}
			u = append(u, flipUnit(k))
		}
		u = append(u, bigUnit(), tlsUnit(), carryUnit(tier == "thorough"), freshGCMUnit())
		for b := 0; b < 16; b++ {
			u = append(u, subkeyUnit(b))
		}
		if tier == "thorough" {
			u = append(u, reuseUnit(4))
		} else {
			u = append(u, reuseUnit(3))
		}
		if tier == "thorough" {
			u = append(u, wrapUnit(1<<22, 8192))
		} else {
			u = append(u, wrapUnit(1<<19, 32768))
		}
		return u
	},
}

// reuseUnit: call histories in which the caller keeps ONE key buffer, ONE IV buffer and ONE AAD
// buffer and overwrites them in place between calls (key rotation into a reusable buffer). Results
// must not depend on what the buffers held before.
func reuseUnit(depth int) harness.Unit {
	return harness.Unit{Name: fmt.Sprintf("buffer-reuse-histories/depth=%d", depth), Run: func(c *harness.Ctx) {
		ivLens := []int{12, 16}
		c.Explore(-1, func(x *xp.X) {
			keyBuf := make([]byte, 16)
			ivBuf := make([]byte, 16)
			aBuf := make([]byte, 20)
			var hist []string
			for step := 0; step < depth; step++ {
				ki := x.Pick(len(keys), "key")
				ivn := ivLens[x.Pick(len(ivLens), "ivlen")]
				enc := x.Pick(2, "enc/dec") == 0
				copy(keyBuf, keys[ki])
				copy(ivBuf, pu.Msg(70+ki, 16))
				copy(aBuf, pu.Msg(90+step, 20))
				iv := ivBuf[:ivn]
				p := pu.Msg(step, 21)
				wantC, wantT := refSeal(keys[ki], iv, p, aBuf)
				c.Add("evaluations", 1)
				hist = append(hist, fmt.Sprintf("key%d/iv%d/%v", ki, ivn, enc))
				var o1, o2 []byte
				if enc {
					o1, o2, _ = sm4.Sm4GCM(keyBuf, iv, p, aBuf, true)
				} else {
					o1, o2, _ = sm4.Sm4GCM(keyBuf, iv, wantC, aBuf, false)
					wantC = p
				}
				if !bytes.Equal(o1, wantC) || !bytes.Equal(o2, wantT) {
					c.Violate("buffer-reuse-history", fmt.Sprintf("after call history %v (caller reuses one key/IV/AAD buffer, overwritten in place) the result %s/%x differs from standard GCM %s/%x", hist, pu.Hex(o1), o2, pu.Hex(wantC), wantT), x.Choices, nil)
					return
				}
			}
			c.DistinctS("nontrivial", fmt.Sprint(hist))
			if c.WantSample() {
				c.Sample(fmt.Sprintf("in-place buffer reuse history %v", hist))
			}
		}, nil)
	}}
}
