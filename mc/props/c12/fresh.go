package c12

import (
	"encoding/hex"
	"fmt"
	"strings"

	"github.com/tjfoc/gmsm/sm4"

	"verif/mc/harness"
	"verif/mc/props/pu"
)

// The first GCM calls of a process (see c05/fresh.go): every sequence of one or two calls over
// {seal, open} x {zero key, example key} x {12-byte IV, 7-byte IV}, each in a new process.

func init() {
	harness.RegisterProbe("sm4-gcm", func(args []string) string {
		var out []string
		for _, a := range args {
			f := strings.Split(a, ":")
			key, _ := hex.DecodeString(f[1])
			iv, _ := hex.DecodeString(f[2])
			in, _ := hex.DecodeString(f[3])
			aad, _ := hex.DecodeString(f[4])
			if f[0] == "seal" {
				ct, tag, err := sm4.Sm4GCM(key, iv, in, aad, true)
				if err != nil {
					out = append(out, "error")
				} else {
					out = append(out, hex.EncodeToString(ct)+"/"+hex.EncodeToString(tag))
				}
				continue
			}
			pt, tag, err := sm4.Sm4GCM(key, iv, in, aad, false)
			if err != nil {
				out = append(out, "error")
			} else {
				out = append(out, hex.EncodeToString(pt)+"/"+hex.EncodeToString(tag))
			}
		}
		return strings.Join(out, ",")
	})
}

func freshGCMUnit() harness.Unit {
	return harness.Unit{Name: "fresh-process/first-gcm-calls", Run: func(c *harness.Ctx) {
		type step struct {
			seal bool
			key  []byte
			ivn  int
		}
		var steps []step
		for _, k := range [][]byte{keys[1], keys[0]} {
			for _, ivn := range []int{12, 7} {
				steps = append(steps, step{true, k, ivn}, step{false, k, ivn})
			}
		}
		for _, a := range steps {
			seqs := [][]step{{a}}
			for _, b := range steps {
				seqs = append(seqs, []step{a, b})
			}
			for _, seq := range seqs {
				var args, want, names []string
				for i, st := range seq {
					iv, pt, aad := pu.Msg(30+i, st.ivn), pu.Msg(40+i, 37), pu.Msg(50+i, 5)
					ct, tag := refSeal(st.key, iv, pt, aad)
					if st.seal {
						args = append(args, fmt.Sprintf("seal:%x:%x:%x:%x", st.key, iv, pt, aad))
						want = append(want, hex.EncodeToString(ct)+"/"+hex.EncodeToString(tag))
					} else {
						args = append(args, fmt.Sprintf("open:%x:%x:%x:%x", st.key, iv, ct, aad))
						want = append(want, hex.EncodeToString(pt)+"/"+hex.EncodeToString(tag))
					}
					names = append(names, fmt.Sprintf("%s(key %x.., %d-byte IV)", map[bool]string{true: "seal", false: "open"}[st.seal], st.key[:2], st.ivn))
				}
				tag := strings.Join(names, " then ")
				c.Add("executions", 1)
				c.Add("transitions", int64(len(seq)))
				c.DistinctS("states", tag)
				got, err := harness.FreshProcess("sm4-gcm", args...)
				if err != nil {
					c.Violate("fresh-process-crash:"+tag, fmt.Sprintf("a fresh process doing %s fails: %v", tag, err), nil, tag)
					continue
				}
				c.DistinctS("outcomes", got)
				if got != strings.Join(want, ",") {
					c.Violate("fresh-process-value:"+tag, fmt.Sprintf("as the first GCM calls of a process, %s give %s; GCM over SM4 gives %s", tag, got, strings.Join(want, ",")), nil, tag)
				}
			}
		}
		c.Sample("every sequence of one or two calls over {seal, open} x {zero key, example key} x {12-byte, 7-byte IV}, each in a new process")
	}}
}
