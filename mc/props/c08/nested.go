package c08

import (
	"fmt"

	"github.com/tjfoc/gmsm/gmtls"

	"verif/mc/harness"
	"verif/mc/tlsk"
	"verif/mc/wire"
)

// ---- an impostor's session in the middle of a genuine one, and the other way round ----------------
//
// One client Config (one root pool, one clock) is used for two connections whose records interleave:
// session A is stopped before each of its records and a complete session B runs. One of the two
// servers is genuine, the other presents certificates of an untrusted CA together with their keys.
// Whatever the order, the genuine session completes and the impostor's is refused.

type nestPolicy struct {
	at, seen int
	fired    bool
	inner    func()
}

func (p *nestPolicy) Deliver(n *wire.Net, r wire.Record) [][]byte {
	if p.seen == p.at && !p.fired {
		p.fired = true
		p.inner()
	}
	p.seen++
	return [][]byte{r.Raw}
}
func (p *nestPolicy) OnIdle(n *wire.Net) bool { return false }

func nestedImpostorUnit(suite uint16) harness.Unit {
	return harness.Unit{Name: fmt.Sprintf("nested-impostor/%04x", suite), Run: func(c *harness.Ctx) {
		p := tlsk.Get()
		for _, impostorInside := range []bool{true, false} {
			fired := 0
			for at := 0; at < 40; at++ {
				cc := baseClient(suite, 2) // ONE Config for both connections
				good := baseServer(suite, 1)
				bad := baseServer(suite, 3)
				bad.Certificates = []gmtls.Certificate{p.SignUntrusted, p.EncUntrusted}
				outer, inner := good, bad
				if !impostorInside {
					outer, inner = bad, good
				}
				var oB *tlsk.Outcome
				pol := &nestPolicy{at: at, inner: func() { oB = run(cc, inner, nil) }}
				oA := run(cc, outer, pol)
				if !pol.fired {
					break
				}
				fired++
				tag := fmt.Sprintf("suite %04x, one client Config; a session with %s runs completely before record %d of a session with %s", suite, map[bool]string{true: "an impostor", false: "the genuine server"}[impostorInside], at, map[bool]string{true: "the genuine server", false: "an impostor"}[impostorInside])
				c.Add("evaluations", 1)
				c.DistinctS("nontrivial", tag)
				if oB == nil {
					continue
				}
				if crash(c, "nested-impostor", tag, oA) || crash(c, "nested-impostor", tag, oB) {
					continue
				}
				og, ob := oA, oB
				if !impostorInside {
					og, ob = oB, oA
				}
				if ob.C.Complete || ob.C.HandshakeErr == nil || len(ob.C.Read) > 0 {
					c.Violate("nested-impostor:accepts-untrusted-server", fmt.Sprintf("[%s] the client completes with the server whose certificates do not chain to its roots: %s", tag, ob.Describe()), nil, tag)
				}
				if !og.C.Complete || !og.S.Complete {
					c.Violate("nested-impostor:genuine-server-refused", fmt.Sprintf("[%s] the genuine session fails: %s", tag, og.Describe()), nil, tag)
				}
			}
			if fired < 3 {
				c.Violate("nested-impostor:vacuous", fmt.Sprintf("only %d interruption points", fired), nil, nil)
			}
		}
		c.Sample("impostor inside a genuine session and genuine inside an impostor's, at every record of the outer session, one client Config")
	}}
}
