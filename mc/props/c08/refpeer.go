package c08

import (
	"bytes"
	"encoding/asn1"
	"fmt"
	"math/big"

	"github.com/tjfoc/gmsm/gmtls"
	"github.com/tjfoc/gmsm/sm2"
	gx509 "github.com/tjfoc/gmsm/x509"

	"verif/mc/harness"
	"verif/mc/ref/gmref"
	"verif/mc/ref/refsm2"
	"verif/mc/ref/refsm3"
	"verif/mc/tlsk"
	"verif/mc/wire"
)

// (C) keyed scripted peers: a reference implementation of GM/T 0024 (gmref) plays the attacker. It
// holds whatever keys the case gives it and always computes Finished over the transcript that
// really happened, so the only thing wrong in each case is the identity proof under test.

// replace returns a Mutate that substitutes the named item of a flight.
func replace(name string, with func(p *gmref.Peer) []byte) func(int, []gmref.Item) []gmref.Item {
	return func(flight int, items []gmref.Item) []gmref.Item {
		out := append([]gmref.Item{}, items...)
		for i := range out {
			if out[i].Name == name {
				out[i] = gmref.Item{Name: name, Rec: gmref.RecHS, Build: with}
			}
		}
		return out
	}
}

func omit(name string) func(int, []gmref.Item) []gmref.Item {
	return func(flight int, items []gmref.Item) []gmref.Item {
		var out []gmref.Item
		for _, it := range items {
			if it.Name != name {
				out = append(out, it)
			}
		}
		return out
	}
}

type refCase struct {
	name   string
	ident  func(id *gmref.Identity)             // change what the peer holds
	mutate func(int, []gmref.Item) []gmref.Item // change what it sends
	// accept: which ClientAuth policies may complete (client cases only); nil = none
	accept     map[gmtls.ClientAuthType]bool
	conformant bool // the case is a legitimate handshake: it must complete
	// malformedOnly: the message is malformed but the proof inside it is genuine; whether it must be
	// refused is C15's question (inconsistent length fields), here only crashes and hangs count
	malformedOnly bool
	// replayCV: CertificateVerify is taken verbatim from an EARLIER honest session of the genuine client
	replayCV bool
}

func ske(sig func(p *gmref.Peer) []byte) func(p *gmref.Peer) []byte {
	return func(p *gmref.Peer) []byte { return gmref.HS(gmref.HSServerKX, gmref.SKEBody(sig(p))) }
}

func serverCases() []refCase {
	pk := tlsk.Get()
	zero := make([]byte, 32)
	cs := []refCase{
		{name: "control: genuine identity", conformant: true},
		{name: "control: genuine identity, certificate chain completed with the CA certificate", conformant: true, ident: func(id *gmref.Identity) { id.Certs = append(id.Certs, pk.CA.Raw) }},
		{name: "ServerKeyExchange omitted", mutate: omit("ServerKeyExchange")},
		{name: "ServerKeyExchange omitted by a server that holds only the encryption key", ident: func(id *gmref.Identity) { id.SignKey = nil }, mutate: omit("ServerKeyExchange")},
		{name: "ServerKeyExchange signed with the encryption key", ident: func(id *gmref.Identity) { id.SignKey = id.EncKey }},
		{name: "ServerKeyExchange signed with an unrelated key", ident: func(id *gmref.Identity) { id.SignKey = pk.OtherKey.D }},
		{name: "ServerKeyExchange signed with the CA key's neighbour d=1", ident: func(id *gmref.Identity) { id.SignKey = big.NewInt(1) }},
		{name: "ServerKeyExchange signature over server_random||client_random", mutate: replace("ServerKeyExchange", ske(func(p *gmref.Peer) []byte {
			return gmref.SignSM2(p.ID.SignKey, gmref.SKEInput(p.SR, p.CR, p.ID.Certs[1]), p.Rand)
		}))},
		{name: "ServerKeyExchange signature from another session (other randoms)", mutate: replace("ServerKeyExchange", ske(func(p *gmref.Peer) []byte {
			return gmref.SignSM2(p.ID.SignKey, gmref.SKEInput(zero, zero, p.ID.Certs[1]), p.Rand)
		}))},
		{name: "ServerKeyExchange signature with only the client random replaced", mutate: replace("ServerKeyExchange", ske(func(p *gmref.Peer) []byte {
			return gmref.SignSM2(p.ID.SignKey, gmref.SKEInput(zero, p.SR, p.ID.Certs[1]), p.Rand)
		}))},
		{name: "ServerKeyExchange signature with only the server random replaced", mutate: replace("ServerKeyExchange", ske(func(p *gmref.Peer) []byte {
			return gmref.SignSM2(p.ID.SignKey, gmref.SKEInput(p.CR, zero, p.ID.Certs[1]), p.Rand)
		}))},
		{name: "ServerKeyExchange signature over the signing certificate instead of the encryption certificate", mutate: replace("ServerKeyExchange", ske(func(p *gmref.Peer) []byte {
			return gmref.SignSM2(p.ID.SignKey, gmref.SKEInput(p.CR, p.SR, p.ID.Certs[0]), p.Rand)
		}))},
		{name: "ServerKeyExchange signature over another encryption certificate", mutate: replace("ServerKeyExchange", ske(func(p *gmref.Peer) []byte {
			return gmref.SignSM2(p.ID.SignKey, gmref.SKEInput(p.CR, p.SR, pk.Enc2.Certificate[0]), p.Rand)
		}))},
		{name: "ServerKeyExchange signature over the randoms and the certificate without its length prefix", mutate: replace("ServerKeyExchange", ske(func(p *gmref.Peer) []byte {
			m := append(append(append([]byte{}, p.CR...), p.SR...), p.ID.Certs[1]...)
			return gmref.SignSM2(p.ID.SignKey, m, p.Rand)
		}))},
		{name: "ServerKeyExchange signature over the randoms only", mutate: replace("ServerKeyExchange", ske(func(p *gmref.Peer) []byte {
			return gmref.SignSM2(p.ID.SignKey, append(append([]byte{}, p.CR...), p.SR...), p.Rand)
		}))},
		{name: "ServerKeyExchange signature computed without the Z_A prefix (plain SM3 of the input)", mutate: replace("ServerKeyExchange", ske(func(p *gmref.Peer) []byte {
			e := new(big.Int).SetBytes(refsm3.SumSlice(gmref.SKEInput(p.CR, p.SR, p.ID.Certs[1])))
			for k := int64(7); ; k++ {
				if r, s, ok := refsm2.Sign(p.ID.SignKey, e, big.NewInt(k)); ok {
					der, _ := asn1.Marshal(struct{ R, S *big.Int }{r, s})
					return der
				}
			}
		}))},
		{name: "ServerKeyExchange with r = 0", mutate: replace("ServerKeyExchange", ske(func(p *gmref.Peer) []byte {
			der, _ := asn1.Marshal(struct{ R, S *big.Int }{big.NewInt(0), big.NewInt(1)})
			return der
		}))},
		{name: "ServerKeyExchange with an empty signature", mutate: replace("ServerKeyExchange", ske(func(p *gmref.Peer) []byte { return nil }))},
		{name: "ServerKeyExchange with a trailing byte after the signature (length field consistent)", malformedOnly: true, mutate: replace("ServerKeyExchange", ske(func(p *gmref.Peer) []byte {
			return append(gmref.SignSM2(p.ID.SignKey, gmref.SKEInput(p.CR, p.SR, p.ID.Certs[1]), p.Rand), 0)
		}))},
		{name: "ServerKeyExchange whose length field claims 256 bytes more than are present", malformedOnly: true, mutate: replace("ServerKeyExchange", func(p *gmref.Peer) []byte {
			b := gmref.SKEBody(gmref.SignSM2(p.ID.SignKey, gmref.SKEInput(p.CR, p.SR, p.ID.Certs[1]), p.Rand))
			b[0]++
			return gmref.HS(gmref.HSServerKX, b)
		})},
		{name: "ServerKeyExchange whose length field claims one byte less than is present", malformedOnly: true, mutate: replace("ServerKeyExchange", func(p *gmref.Peer) []byte {
			b := gmref.SKEBody(gmref.SignSM2(p.ID.SignKey, gmref.SKEInput(p.CR, p.SR, p.ID.Certs[1]), p.Rand))
			b[1]--
			return gmref.HS(gmref.HSServerKX, b)
		})},
		{name: "genuine certificates, neither private key (pre-master secret guessed)", ident: func(id *gmref.Identity) { id.SignKey, id.EncKey = pk.OtherKey.D, pk.OtherKey.D }},
		{name: "genuine certificates, signing key only (pre-master secret cannot be decrypted)", ident: func(id *gmref.Identity) { id.EncKey = pk.OtherKey.D }},
		{name: "signing certificate from an untrusted CA with its key", ident: func(id *gmref.Identity) { id.Certs[0] = pk.SignUntrusted.Certificate[0] }},
		{name: "encryption certificate from an untrusted CA with its key", ident: func(id *gmref.Identity) { id.Certs[1] = pk.EncUntrusted.Certificate[0] }},
		{name: "expired signing certificate", ident: func(id *gmref.Identity) { id.Certs[0] = pk.SignExpired.Certificate[0] }},
		{name: "signing certificate for another host name", ident: func(id *gmref.Identity) { id.Certs[0] = pk.SignWrongName.Certificate[0] }},
		{name: "encryption certificate for another host name", ident: func(id *gmref.Identity) { id.Certs[1] = pk.EncWrongName.Certificate[0] }},
		{name: "control: another certified encryption certificate and key for the same name under this signing identity", conformant: true, ident: func(id *gmref.Identity) {
			id.Certs[1], id.EncKey = pk.Enc2.Certificate[0], enc2Key()
		}},
		{name: "certificate list [signing, encryption, attacker's self-signed certificate], ServerKeyExchange signed with the attacker's key", ident: func(id *gmref.Identity) {
			id.Certs = append(id.Certs, pk.Attacker.Certificate[0])
			id.SignKey = pk.OtherKey.D
		}},
		{name: "control: certificate list [signing, encryption, attacker's self-signed certificate] with the genuine keys", conformant: true, ident: func(id *gmref.Identity) {
			id.Certs = append(id.Certs, pk.Attacker.Certificate[0])
		}},
		{name: "control: certificate list [signing, encryption, certificate of an UNTRUSTED CA] with the genuine keys", conformant: true, ident: func(id *gmref.Identity) {
			id.Certs = append(id.Certs, pk.CA2.Raw)
		}},
		{name: "certificate list [signing, encryption, certificate of an untrusted CA], ServerKeyExchange signed with an unrelated key", ident: func(id *gmref.Identity) {
			id.Certs = append(id.Certs, pk.CA2.Raw)
			id.SignKey = pk.OtherKey.D
		}},
		{name: "both certificates from an untrusted CA with their keys", ident: func(id *gmref.Identity) {
			id.Certs[0], id.Certs[1] = pk.SignUntrusted.Certificate[0], pk.EncUntrusted.Certificate[0]
		}},
		{name: "both certificates from an untrusted CA with their keys, CA certificate appended", ident: func(id *gmref.Identity) {
			id.Certs = [][]byte{pk.SignUntrusted.Certificate[0], pk.EncUntrusted.Certificate[0], pk.CA2.Raw}
		}},
		{name: "only the signing certificate", ident: func(id *gmref.Identity) { id.Certs = id.Certs[:1] }},
		{name: "the signing certificate twice", ident: func(id *gmref.Identity) { id.Certs[1] = id.Certs[0]; id.EncKey = id.SignKey }},
		{name: "encryption certificate first, signing certificate second", ident: func(id *gmref.Identity) {
			id.Certs[0], id.Certs[1] = id.Certs[1], id.Certs[0]
			id.SignKey, id.EncKey = id.EncKey, id.SignKey
		}},
	}
	return append(cs, finishedCases(false)...)
}

// finishedCases: wrong verify_data with everything else genuine.
func finishedCases(client bool) []refCase {
	fin := func(f func(p *gmref.Peer) []byte) func(int, []gmref.Item) []gmref.Item { return replace("Finished", f) }
	var cs []refCase
	for i := 0; i < 12; i++ {
		i := i
		cs = append(cs, refCase{name: fmt.Sprintf("Finished with bit 0 of byte %d flipped", i), mutate: fin(func(p *gmref.Peer) []byte {
			v := p.VerifyData(p.Client)
			v[i] ^= 1
			return gmref.HS(gmref.HSFinished, v)
		})})
	}
	cs = append(cs,
		refCase{name: "Finished with the other side's label", mutate: fin(func(p *gmref.Peer) []byte { return gmref.HS(gmref.HSFinished, p.VerifyData(!p.Client)) })},
		refCase{name: "Finished of 11 bytes", mutate: fin(func(p *gmref.Peer) []byte { return gmref.HS(gmref.HSFinished, p.VerifyData(p.Client)[:11]) })},
		refCase{name: "Finished of 13 bytes", mutate: fin(func(p *gmref.Peer) []byte { return gmref.HS(gmref.HSFinished, append(p.VerifyData(p.Client), 0)) })},
		refCase{name: "empty Finished", mutate: fin(func(p *gmref.Peer) []byte { return gmref.HS(gmref.HSFinished, nil) })},
		refCase{name: "Finished over the transcript without its last message", mutate: fin(func(p *gmref.Peer) []byte {
			full := p.Transcript
			// drop the last handshake message
			off, last := 0, 0
			for off+4 <= len(full) {
				last = off
				off += 4 + (int(full[off+1])<<16 | int(full[off+2])<<8 | int(full[off+3]))
			}
			p.Transcript = full[:last]
			v := p.VerifyData(p.Client)
			p.Transcript = full
			return gmref.HS(gmref.HSFinished, v)
		})},
		refCase{name: "Finished over an empty transcript", mutate: fin(func(p *gmref.Peer) []byte {
			full := p.Transcript
			p.Transcript = nil
			v := p.VerifyData(p.Client)
			p.Transcript = full
			return gmref.HS(gmref.HSFinished, v)
		})},
	)
	return cs
}

func cv(sig func(p *gmref.Peer) []byte) func(p *gmref.Peer) []byte {
	return func(p *gmref.Peer) []byte { return gmref.HS(gmref.HSCertVerify, gmref.SKEBody(sig(p))) }
}

func clientCases() []refCase {
	pk := tlsk.Get()
	ckx := func(f func(p *gmref.Peer, pub refsm2.Point) []byte) func(int, []gmref.Item) []gmref.Item {
		return replace("ClientKeyExchange", func(p *gmref.Peer) []byte {
			pub, _ := gmref.CertPublicKey(p.PeerCerts[1])
			return gmref.HS(gmref.HSClientKX, f(p, pub))
		})
	}
	pms := func(p *gmref.Peer, n int) []byte {
		b := make([]byte, n)
		for i := range b {
			b[i] = byte(i + 1)
		}
		if n >= 2 {
			b[0], b[1] = 1, 1
		}
		p.PMS = b
		return b
	}
	cs := []refCase{
		{name: "control: genuine client certificate and proof", conformant: true, accept: all(true)},
		{name: "CertificateVerify omitted", mutate: omit("CertificateVerify")},
		{name: "CertificateVerify by an unrelated key", ident: func(id *gmref.Identity) { id.SignKey = pk.OtherKey.D }},
		{name: "CertificateVerify by the server's signing key", ident: func(id *gmref.Identity) { id.SignKey = pk.SignKey.D }},
		{name: "CertificateVerify over the transcript without ClientKeyExchange", mutate: replace("CertificateVerify", cv(func(p *gmref.Peer) []byte {
			full := p.Transcript
			off, last := 0, 0
			for off+4 <= len(full) {
				last = off
				off += 4 + (int(full[off+1])<<16 | int(full[off+2])<<8 | int(full[off+3]))
			}
			return gmref.SignSM2(p.ID.SignKey, refsm3.SumSlice(full[:last]), p.Rand)
		}))},
		{name: "CertificateVerify from another session (hash of another transcript)", mutate: replace("CertificateVerify", cv(func(p *gmref.Peer) []byte {
			return gmref.SignSM2(p.ID.SignKey, refsm3.SumSlice([]byte("another session")), p.Rand)
		}))},
		{name: "CertificateVerify over the transcript itself instead of its hash", mutate: replace("CertificateVerify", cv(func(p *gmref.Peer) []byte {
			return gmref.SignSM2(p.ID.SignKey, p.Transcript, p.Rand)
		}))},
		{name: "CertificateVerify with a trailing byte", mutate: replace("CertificateVerify", cv(func(p *gmref.Peer) []byte {
			return append(gmref.SignSM2(p.ID.SignKey, refsm3.SumSlice(p.Transcript), p.Rand), 0)
		}))},
		{name: "CertificateVerify whose length field claims one byte less", mutate: replace("CertificateVerify", func(p *gmref.Peer) []byte {
			b := gmref.SKEBody(gmref.SignSM2(p.ID.SignKey, refsm3.SumSlice(p.Transcript), p.Rand))
			b[1]--
			return gmref.HS(gmref.HSCertVerify, b)
		})},
		{name: "CertificateVerify whose length field claims 256 bytes more", mutate: replace("CertificateVerify", func(p *gmref.Peer) []byte {
			b := gmref.SKEBody(gmref.SignSM2(p.ID.SignKey, refsm3.SumSlice(p.Transcript), p.Rand))
			b[0]++
			return gmref.HS(gmref.HSCertVerify, b)
		})},
		{name: "empty CertificateVerify signature", mutate: replace("CertificateVerify", cv(func(p *gmref.Peer) []byte { return nil }))},
		{name: "certificate list [victim's certificate, attacker's self-signed certificate], CertificateVerify by the attacker's key", ident: func(id *gmref.Identity) {
			id.Certs = append(id.Certs, pk.Attacker.Certificate[0])
			id.SignKey = pk.OtherKey.D
		}},
		{name: "certificate list [victim's encipherment-only certificate, attacker's self-signed signing certificate], CertificateVerify by the attacker's key", ident: func(id *gmref.Identity) {
			id.Certs = [][]byte{pk.ClientEnc.Certificate[0], pk.Attacker.Certificate[0]}
			id.SignKey = pk.OtherKey.D
		}},
		{name: "certificate list [victim's signing certificate, victim's encipherment-only certificate, attacker's certificate], CertificateVerify by the attacker's key", ident: func(id *gmref.Identity) {
			id.Certs = append(id.Certs, pk.ClientEnc.Certificate[0], pk.Attacker.Certificate[0])
			id.SignKey = pk.OtherKey.D
		}},
		{name: "control: certificate list [signing certificate, encipherment-only certificate] with the genuine key", conformant: true, accept: all(true), ident: func(id *gmref.Identity) {
			id.Certs = append(id.Certs, pk.ClientEnc.Certificate[0])
		}},
		{name: "certificate list [victim's certificate twice], CertificateVerify by the attacker's key", ident: func(id *gmref.Identity) {
			id.Certs = append(id.Certs, id.Certs[0])
			id.SignKey = pk.OtherKey.D
		}},
		{name: "certificate list [attacker's self-signed certificate, victim's certificate], CertificateVerify by the attacker's key", accept: verifying(false), ident: func(id *gmref.Identity) {
			id.Certs = [][]byte{pk.Attacker.Certificate[0], id.Certs[0]}
			id.SignKey = pk.OtherKey.D
		}},
		{name: "control: certificate list [victim's certificate, CA certificate] with the genuine key", conformant: true, accept: all(true), ident: func(id *gmref.Identity) {
			id.Certs = append(id.Certs, pk.CA.Raw)
		}},
		{name: "certificate from an untrusted CA with its key and a valid proof", ident: func(id *gmref.Identity) { id.Certs[0] = pk.ClientUntrusted.Certificate[0] }, accept: verifying(false)},
		{name: "expired certificate with its key and a valid proof", ident: func(id *gmref.Identity) { id.Certs[0] = pk.ClientExpired.Certificate[0] }, accept: verifying(false)},
		{name: "certificate limited to server authentication with a valid proof", ident: func(id *gmref.Identity) { id.Certs[0] = pk.ClientServerEKU.Certificate[0] }, accept: verifying(false)},
		{name: "pre-master secret of 47 bytes", mutate: ckx(func(p *gmref.Peer, pub refsm2.Point) []byte { return gmref.CKXBody(pub, pms(p, 47), p.Rand) })},
		{name: "pre-master secret of 49 bytes", mutate: ckx(func(p *gmref.Peer, pub refsm2.Point) []byte { return gmref.CKXBody(pub, pms(p, 49), p.Rand) })},
		{name: "pre-master secret of 1 byte", mutate: ckx(func(p *gmref.Peer, pub refsm2.Point) []byte { return gmref.CKXBody(pub, pms(p, 1), p.Rand) })},
		{name: "pre-master secret encrypted to the signing certificate's key", mutate: ckx(func(p *gmref.Peer, pub refsm2.Point) []byte {
			sp, _ := gmref.CertPublicKey(p.PeerCerts[0])
			return gmref.CKXBody(sp, pms(p, 48), p.Rand)
		})},
		{name: "ClientKeyExchange whose length field claims one byte less", malformedOnly: true, mutate: ckx(func(p *gmref.Peer, pub refsm2.Point) []byte {
			b := gmref.CKXBody(pub, pms(p, 48), p.Rand)
			b[1]--
			return b
		})},
		{name: "ClientKeyExchange whose length field claims 256 bytes more", malformedOnly: true, mutate: ckx(func(p *gmref.Peer, pub refsm2.Point) []byte {
			b := gmref.CKXBody(pub, pms(p, 48), p.Rand)
			b[0]++
			return b
		})},
		{name: "ClientKeyExchange with a trailing byte after the ciphertext (length consistent)", malformedOnly: true, mutate: ckx(func(p *gmref.Peer, pub refsm2.Point) []byte {
			b := append(gmref.CKXBody(pub, pms(p, 48), p.Rand), 0)
			n := len(b) - 2
			b[0], b[1] = byte(n>>8), byte(n)
			return b
		})},
		{name: "ClientKeyExchange with C3 of another message", mutate: ckx(func(p *gmref.Peer, pub refsm2.Point) []byte {
			b := gmref.CKXBody(pub, pms(p, 48), p.Rand)
			b[len(b)-48-2-10] ^= 1 // a byte inside the hash
			return b
		})},
	}
	for _, fc := range finishedCases(true) {
		cs = append(cs, fc)
	}
	return cs
}

func refServerUnit(suite uint16) harness.Unit {
	return harness.Unit{Name: fmt.Sprintf("scripted-malicious-server/%04x", suite), Run: func(c *harness.Ctx) {
		for i, rc := range serverCases() {
			id := tlsk.ServerIdentity()
			id.Certs = append([][]byte{}, id.Certs...)
			if rc.ident != nil {
				rc.ident(&id)
			}
			cc := baseClient(suite, 31)
			script := &gmref.Script{Data: tlsk.PingPong(false), Mutate: rc.mutate}
			o := tlsk.RunLibVsRef(cc, true, tlsk.LibApp(true), id, byte(40+i), func(q *gmref.Peer) { q.Suites = []uint16{suite} }, script, nil)
			judgeRefCase(c, fmt.Sprintf("suite=%04x scripted server: %s", suite, rc.name), "scripted-server:"+rc.name, o, rc.conformant, rc.malformedOnly)
		}
	}}
}

// runServerCase plays one scripted-server case against a library client with the given configuration.
func runServerCase(suite uint16, i int, rc refCase, cc *gmtls.Config) *tlsk.RefOutcome {
	id := tlsk.ServerIdentity()
	id.Certs = append([][]byte{}, id.Certs...)
	if rc.ident != nil {
		rc.ident(&id)
	}
	script := &gmref.Script{Data: tlsk.PingPong(false), Mutate: rc.mutate}
	return tlsk.RunLibVsRef(cc, true, tlsk.LibApp(true), id, byte(40+i), func(q *gmref.Peer) { q.Suites = []uint16{suite} }, script, nil)
}

func freshClient(suite uint16) *gmtls.Config {
	p := tlsk.Get()
	pool := gx509.NewCertPool()
	pool.AddCert(p.CA)
	return &gmtls.Config{GMSupport: &gmtls.GMSupport{}, RootCAs: pool, ServerName: tlsk.ServerName, Time: tlsk.FixedTime, Rand: wire.NewRand(33), CipherSuites: []uint16{suite}}
}

// refServerPairUnit: state carried from one connection to the next. For every ordered pair (A, B)
// of scripted-server cases, A then B run against ONE client Config (own root pool); B's verdict must
// be what B gets from a fresh Config: nothing a previous peer did may change whom the client trusts.
func refServerPairUnit(suite uint16, part, parts int) harness.Unit {
	return harness.Unit{Name: fmt.Sprintf("scripted-server-pairs/%04x/part%d", suite, part), Run: func(c *harness.Ctx) {
		cases := serverCases()
		alone := make([]bool, len(cases))
		for j, rc := range cases {
			alone[j] = runServerCase(suite, j, rc, freshClient(suite)).Lib.Complete
		}
		for i, a := range cases {
			if i%parts != part {
				continue
			}
			if len(a.name) > 8 && a.name[:8] == "Finished" && i%6 != 0 {
				continue // the 18 Finished variants are one class as a first connection
			}
			for j, b := range cases {
				cc := freshClient(suite)
				runServerCase(suite, i, a, cc)
				o := runServerCase(suite, j, b, cc)
				tag := fmt.Sprintf("suite=%04x one client Config, first [%s] then [%s]", suite, a.name, b.name)
				c.Add("evaluations", 1)
				c.DistinctS("nontrivial", tag)
				if c.WantSample() {
					c.Sample(tag)
				}
				if o.Lib.Panic != nil {
					c.Violate("panic:scripted-server-pair:"+site(o.Lib.Stack), fmt.Sprintf("[%s] client panicked: %v\n%s", tag, o.Lib.Panic, clip(o.Lib.Stack, 1200)), nil, tag)
					continue
				}
				if o.Lib.Complete != alone[j] {
					what := "accepts"
					if alone[j] {
						what = "refuses"
					}
					c.Violate(fmt.Sprintf("history-dependent:%s:%s:after:%s", what, b.name, a.name), fmt.Sprintf("[%s] the client %s the second peer, but with a fresh configuration the same peer gets complete=%v: %s", tag, what, alone[j], o.Describe()), nil, tag)
				}
			}
		}
	}}
}

// runClientCase plays one scripted-client case against a library server with the given configuration.
func runClientCase(suite uint16, i int, rc refCase, sc *gmtls.Config) *tlsk.RefOutcome {
	id := tlsk.ClientIdentity()
	id.Certs = append([][]byte{}, id.Certs...)
	if rc.ident != nil {
		rc.ident(&id)
	}
	script := &gmref.Script{SendClientCert: true, Data: tlsk.PingPong(true), Mutate: rc.mutate}
	return tlsk.RunLibVsRef(sc, false, tlsk.LibApp(false), id, byte(60+i), func(q *gmref.Peer) { q.Suites = []uint16{suite} }, script, nil)
}

func freshServer(suite uint16, pol gmtls.ClientAuthType) *gmtls.Config {
	p := tlsk.Get()
	pool := gx509.NewCertPool()
	pool.AddCert(p.CA)
	sc := baseServer(suite, 34)
	sc.ClientAuth, sc.ClientCAs = pol, pool
	return sc
}

// refClientPairUnit: the same for the server: every ordered pair (A, B) of scripted-client cases on
// ONE server Config (own ClientCAs pool, session tickets on); B's verdict must equal B's verdict on
// a fresh Config.
func refClientPairUnit(suite uint16, pol gmtls.ClientAuthType, part, parts int) harness.Unit {
	return harness.Unit{Name: fmt.Sprintf("scripted-client-pairs/%04x/ClientAuth=%d/part%d", suite, pol, part), Run: func(c *harness.Ctx) {
		cases := clientCases()
		alone := make([]bool, len(cases))
		for j, rc := range cases {
			alone[j] = runClientCase(suite, j, rc, freshServer(suite, pol)).Lib.Complete
		}
		for i, a := range cases {
			if i%parts != part {
				continue
			}
			if len(a.name) > 8 && a.name[:8] == "Finished" && i%6 != 0 {
				continue
			}
			for j, b := range cases {
				sc := freshServer(suite, pol)
				runClientCase(suite, i, a, sc)
				o := runClientCase(suite, j, b, sc)
				tag := fmt.Sprintf("suite=%04x ClientAuth=%d one server Config, first [%s] then [%s]", suite, pol, a.name, b.name)
				c.Add("evaluations", 1)
				c.DistinctS("nontrivial", tag)
				if c.WantSample() {
					c.Sample(tag)
				}
				if o.Lib.Panic != nil {
					c.Violate("panic:scripted-client-pair:"+site(o.Lib.Stack), fmt.Sprintf("[%s] server panicked: %v\n%s", tag, o.Lib.Panic, clip(o.Lib.Stack, 1200)), nil, tag)
					continue
				}
				if o.Lib.Complete != alone[j] {
					what := "accepts"
					if alone[j] {
						what = "refuses"
					}
					c.Violate(fmt.Sprintf("history-dependent:server-%s:%s:after:%s", what, b.name, a.name), fmt.Sprintf("[%s] the server %s the second peer, but with a fresh configuration the same peer gets complete=%v: %s", tag, what, alone[j], o.Describe()), nil, tag)
				}
			}
		}
	}}
}

func refClientUnit(suite uint16) harness.Unit {
	return harness.Unit{Name: fmt.Sprintf("scripted-malicious-client/%04x", suite), Run: func(c *harness.Ctx) {
		p := tlsk.Get()
		for i, rc := range clientCases() {
			for _, pol := range policies {
				if pol == gmtls.NoClientCert {
					continue
				}
				id := tlsk.ClientIdentity()
				id.Certs = append([][]byte{}, id.Certs...)
				if rc.ident != nil {
					rc.ident(&id)
				}
				sc := baseServer(suite, 32)
				sc.ClientAuth, sc.ClientCAs = pol, p.Roots
				script := &gmref.Script{SendClientCert: true, Data: tlsk.PingPong(true), Mutate: rc.mutate}
				o := tlsk.RunLibVsRef(sc, false, tlsk.LibApp(false), id, byte(60+i), func(q *gmref.Peer) { q.Suites = []uint16{suite} }, script, nil)
				may := (rc.accept != nil && rc.accept[pol]) || rc.malformedOnly
				judgeRefCase(c, fmt.Sprintf("suite=%04x ClientAuth=%d scripted client: %s", suite, pol, rc.name), fmt.Sprintf("scripted-client:%s:ClientAuth=%d", rc.name, pol), o, rc.conformant, may)
			}
		}
	}}
}

func judgeRefCase(c *harness.Ctx, tag, key string, o *tlsk.RefOutcome, mustComplete, mayComplete bool) {
	c.Add("evaluations", 1)
	c.DistinctS("nontrivial", tag)
	if c.WantSample() {
		c.Sample(tag)
	}
	if o.Lib.Panic != nil {
		c.Violate("panic:"+key+":"+site(o.Lib.Stack), fmt.Sprintf("[%s] endpoint panicked: %v\n%s", tag, o.Lib.Panic, clip(o.Lib.Stack, 1200)), nil, tag)
		return
	}
	if o.Ref.Panic != nil {
		c.Note("reference peer panicked in [%s]: %v", tag, o.Ref.Panic)
		c.Add("harness_divergences", 1)
		return
	}
	if o.LibStuck || o.Horizon {
		c.Violate("hang:"+key, fmt.Sprintf("[%s] endpoint still waiting after end of input: %s", tag, o.Describe()), nil, tag)
		return
	}
	switch {
	case mustComplete:
		if !o.Lib.Complete || !o.Ref.Res.Completed || string(o.Lib.Read) == "" {
			c.Violate("genuine-peer-refused:"+key, fmt.Sprintf("[%s] a genuine peer is refused: %s", tag, o.Describe()), nil, tag)
		}
	case mayComplete:
	default:
		if o.Lib.Complete || o.Lib.HandshakeErr == nil {
			c.Violate("accepts:"+key, fmt.Sprintf("[%s] the endpoint completes the handshake with a peer that did not prove the certified identity: %s", tag, o.Describe()), nil, tag)
		}
	}
}

var _ = wire.NewRand

func enc2Key() *big.Int {
	return tlsk.Get().Enc2.PrivateKey.(*sm2.PrivateKey).D
}

// ---- the standard TLS 1.2 path with the reference peer's TLS profile ---------------------------

func tlsClientCases() []refCase {
	pk := tlsk.Get()
	cvWith := func(f func(p *gmref.Peer) []byte) func(int, []gmref.Item) []gmref.Item {
		return replace("CertificateVerify", func(p *gmref.Peer) []byte { return gmref.HS(gmref.HSCertVerify, f(p)) })
	}
	sign := func(p *gmref.Peer, transcript []byte) []byte {
		save := p.Transcript
		p.Transcript = transcript
		b := p.Prof.SignCV(p)
		p.Transcript = save
		return b
	}
	cs := []refCase{
		{name: "control: genuine client certificate and proof", conformant: true, accept: all(true)},
		{name: "CertificateVerify omitted", mutate: omit("CertificateVerify")},
		{name: "CertificateVerify by the server's ECDSA key", ident: func(id *gmref.Identity) { id.TLSKey = pk.ECDSAKey }},
		{name: "CertificateVerify by an RSA key for an ECDSA certificate", ident: func(id *gmref.Identity) { id.TLSKey = pk.RSAKey }},
		{name: "CertificateVerify over the transcript without ClientKeyExchange", mutate: cvWith(func(p *gmref.Peer) []byte {
			full := p.Transcript
			off, last := 0, 0
			for off+4 <= len(full) {
				last = off
				off += 4 + (int(full[off+1])<<16 | int(full[off+2])<<8 | int(full[off+3]))
			}
			return sign(p, full[:last])
		})},
		{name: "CertificateVerify over another transcript", mutate: cvWith(func(p *gmref.Peer) []byte { return sign(p, []byte("another session")) })},
		{name: "CertificateVerify replayed from an earlier session of the genuine client (the attacker holds no key)", replayCV: true},
		{name: "CertificateVerify with the hash algorithm byte changed to SHA-1", mutate: cvWith(func(p *gmref.Peer) []byte {
			b := gmref.TLS12RSA.SignCV(p)
			b[0] = 2
			return b
		})},
		{name: "CertificateVerify with the signature algorithm byte changed to RSA", mutate: cvWith(func(p *gmref.Peer) []byte {
			b := gmref.TLS12RSA.SignCV(p)
			b[1] = 1
			return b
		})},
		{name: "CertificateVerify with a trailing byte (length field consistent)", malformedOnly: true, mutate: cvWith(func(p *gmref.Peer) []byte {
			b := append(gmref.TLS12RSA.SignCV(p), 0)
			n := len(b) - 4
			b[2], b[3] = byte(n>>8), byte(n)
			return b
		})},
		{name: "certificate from an untrusted CA with its key and a valid proof", accept: verifying(false), ident: func(id *gmref.Identity) {
			id.Certs, id.TLSKey = [][]byte{pk.StdClientUntrusted.Certificate[0]}, pk.StdClientUntrusted.PrivateKey
		}},
		{name: "certificate list [genuine certificate, untrusted certificate], CertificateVerify by the untrusted certificate's key", ident: func(id *gmref.Identity) {
			id.Certs, id.TLSKey = [][]byte{pk.StdClient.Certificate[0], pk.StdClientUntrusted.Certificate[0]}, pk.StdClientUntrusted.PrivateKey
		}},
		{name: "the server's own certificate as client certificate with a foreign key", ident: func(id *gmref.Identity) {
			id.Certs = [][]byte{pk.ECDSA.Certificate[0]}
		}},
	}
	return append(cs, finishedCases(true)...)
}

func tlsRefClientUnit(suite, ver uint16) harness.Unit {
	return harness.Unit{Name: fmt.Sprintf("tls%04x-scripted-malicious-client/%04x", ver, suite), Run: func(c *harness.Ctx) {
		p := tlsk.Get()
		for i, rc := range tlsClientCases() {
			if ver != 0x0303 && len(rc.name) > 21 && rc.name[:21] == "CertificateVerify wit" {
				continue // the algorithm bytes and this framing exist in TLS 1.2 only
			}
			for _, pol := range policies {
				if pol == gmtls.NoClientCert {
					continue
				}
				mkServer := func() *gmtls.Config {
					return &gmtls.Config{Certificates: []gmtls.Certificate{p.RSA}, Time: tlsk.FixedTime, Rand: wire.NewRand(35), CipherSuites: []uint16{suite}, MinVersion: ver, MaxVersion: ver, ClientAuth: pol, ClientCAs: p.StdRootsG}
				}
				setup := func(q *gmref.Peer) { q.UseTLSVersion(ver); q.Suites = []uint16{suite} }
				id := gmref.Identity{Certs: [][]byte{p.StdClient.Certificate[0]}, TLSKey: p.StdClient.PrivateKey}
				if rc.ident != nil {
					rc.ident(&id)
				}
				mutate := rc.mutate
				if rc.replayCV {
					// session 1: the genuine client; its CertificateVerify message is recorded
					var recorded []byte
					rec := func(fl int, items []gmref.Item) []gmref.Item {
						out := append([]gmref.Item{}, items...)
						for k := range out {
							if out[k].Name == "CertificateVerify" {
								orig := out[k]
								out[k].Build = func(q *gmref.Peer) []byte { recorded = orig.Build(q); return recorded }
							}
						}
						return out
					}
					o1 := tlsk.RunLibVsRef(mkServer(), false, tlsk.LibApp(false), id, byte(100+i), setup, &gmref.Script{SendClientCert: true, Data: tlsk.PingPong(true), Mutate: rec}, nil)
					if !o1.Lib.Complete || recorded == nil {
						c.Note("replay case: the recording session did not complete (version %04x policy %d)", ver, pol)
						c.Add("harness_divergences", 1)
						continue
					}
					// session 2: another connection (other randoms), the attacker replays the message and has no key
					id.TLSKey = nil
					mutate = replace("CertificateVerify", func(q *gmref.Peer) []byte { return recorded })
				}
				script := &gmref.Script{SendClientCert: true, Data: tlsk.PingPong(true), Mutate: mutate}
				o := tlsk.RunLibVsRef(mkServer(), false, tlsk.LibApp(false), id, byte(140+i), setup, script, nil)
				may := (rc.accept != nil && rc.accept[pol]) || rc.malformedOnly
				judgeRefCase(c, fmt.Sprintf("TLS %04x suite=%04x ClientAuth=%d scripted client: %s", ver, suite, pol, rc.name), fmt.Sprintf("tls-scripted-client:%04x:%s:ClientAuth=%d", ver, rc.name, pol), o, rc.conformant, may)
			}
		}
	}}
}

func tlsRefServerUnit(suite, ver uint16) harness.Unit {
	return harness.Unit{Name: fmt.Sprintf("tls%04x-scripted-malicious-server/%04x", ver, suite), Run: func(c *harness.Ctx) {
		p := tlsk.Get()
		cases := append([]refCase{
			{name: "control: genuine RSA identity", conformant: true},
			{name: "genuine certificate, private key of someone else (pre-master secret cannot be decrypted)", ident: func(id *gmref.Identity) { id.RSAKey = nil }},
			{name: "certificate for another key type than the key exchange (ECDSA certificate, RSA key exchange)", ident: func(id *gmref.Identity) { id.Certs = [][]byte{p.ECDSA.Certificate[0]} }},
			{name: "an SM2 certificate from the GM PKI", ident: func(id *gmref.Identity) { id.Certs = [][]byte{p.Sign.Certificate[0]} }},
			{name: "empty certificate list", ident: func(id *gmref.Identity) { id.Certs = nil }},
		}, finishedCases(false)...)
		for i, rc := range cases {
			id := gmref.Identity{Certs: [][]byte{p.RSA.Certificate[0]}, RSAKey: p.RSAKey}
			if rc.ident != nil {
				rc.ident(&id)
			}
			cc := &gmtls.Config{RootCAs: p.StdRootsG, ServerName: tlsk.ServerName, Time: tlsk.FixedTime, Rand: wire.NewRand(36), CipherSuites: []uint16{suite}, MinVersion: ver, MaxVersion: ver}
			script := &gmref.Script{Data: tlsk.PingPong(false), Mutate: rc.mutate}
			o := tlsk.RunLibVsRef(cc, true, tlsk.LibApp(true), id, byte(120+i), func(q *gmref.Peer) { q.UseTLSVersion(ver); q.Suites = []uint16{suite} }, script, nil)
			judgeRefCase(c, fmt.Sprintf("TLS %04x suite=%04x scripted server: %s", ver, suite, rc.name), fmt.Sprintf("tls-scripted-server:%04x:%s", ver, rc.name), o, rc.conformant, false)
		}
	}}
}

// tlsTicketIdentityUnit: a session ticket must never stand in for certificate verification that the
// CURRENT connection's policy demands. Connection 1 obtains a ticket legitimately; connection 2
// presents it under circumstances in which the server declines or re-checks it:
//
//	(a) the ticket was issued at another TLS version, so the server falls back to a full handshake
//	    in which the client now presents an untrusted certificate (with a valid proof);
//	(b) the ticket was issued to an untrusted certificate under a non-verifying policy and the
//	    server's policy has since become RequireAndVerifyClientCert / VerifyClientCertIfGiven.
//
// In both the verifying server must not complete.
func tlsTicketIdentityUnit() harness.Unit {
	return harness.Unit{Name: "tls-ticket-then-untrusted-identity", Run: func(c *harness.Ctx) {
		p := tlsk.Get()
		genuine := gmref.Identity{Certs: [][]byte{p.StdClient.Certificate[0]}, TLSKey: p.StdClient.PrivateKey}
		rogue := gmref.Identity{Certs: [][]byte{p.StdClientUntrusted.Certificate[0]}, TLSKey: p.StdClientUntrusted.PrivateKey}
		for _, v1 := range []uint16{0x0301, 0x0302, 0x0303} {
			for _, v2 := range []uint16{0x0301, 0x0302, 0x0303} {
				for _, pol1 := range []gmtls.ClientAuthType{gmtls.RequireAnyClientCert, gmtls.RequireAndVerifyClientCert} {
					for _, pol2 := range []gmtls.ClientAuthType{gmtls.VerifyClientCertIfGiven, gmtls.RequireAndVerifyClientCert} {
						sc := &gmtls.Config{Certificates: []gmtls.Certificate{p.RSA}, Time: tlsk.FixedTime, Rand: wire.NewRand(37), CipherSuites: []uint16{gmref.SuiteAESCBC}, MinVersion: 0x0301, MaxVersion: 0x0303, ClientAuth: pol1, ClientCAs: p.StdRootsG}
						sc.SetSessionTicketKeys([][32]byte{{3, 1, 4}})
						id1 := genuine
						if pol1 == gmtls.RequireAnyClientCert {
							id1 = rogue // accepted without verification under this policy
						}
						var first *gmref.Peer
						o1 := tlsk.RunLibVsRef(sc, false, tlsk.LibApp(false), id1, 150, func(q *gmref.Peer) {
							q.UseTLSVersion(v1)
							q.Suites = []uint16{gmref.SuiteAESCBC}
							q.OfferTicket = true
							first = q
						}, &gmref.Script{SendClientCert: true, Data: tlsk.PingPong(true)}, nil)
						if !o1.Lib.Complete || first == nil || first.NewTicket == nil {
							c.Note("ticket-issuing connection failed (v1=%04x pol1=%d): %s", v1, pol1, o1.Describe())
							c.Add("harness_divergences", 1)
							continue
						}
						ticket, master := first.NewTicket, first.Master
						sc.ClientAuth = pol2
						setup := func(q *gmref.Peer) {
							q.UseTLSVersion(v2)
							q.Suites = []uint16{gmref.SuiteAESCBC}
							q.OfferTicket = true
							q.Ticket, q.ResumeMaster, q.ResumeSuite = ticket, master, gmref.SuiteAESCBC
						}
						o := tlsk.RunLibVsRef(sc, false, tlsk.LibApp(false), rogue, 151, setup, &gmref.Script{SendClientCert: true, Data: tlsk.PingPong(true)}, nil)
						tag := fmt.Sprintf("ticket issued at TLS %04x under ClientAuth=%d to a %s certificate; next connection at TLS %04x under ClientAuth=%d presents the ticket and an untrusted certificate with a valid proof", v1, pol1, map[bool]string{true: "genuine", false: "untrusted"}[pol1 == gmtls.RequireAndVerifyClientCert], v2, pol2)
						c.Add("evaluations", 1)
						c.DistinctS("nontrivial", tag)
						if c.WantSample() {
							c.Sample(tag)
						}
						// legitimate completion: the ticket belongs to a GENUINE session and is resumed (same version)
						legit := pol1 == gmtls.RequireAndVerifyClientCert && o.Lib.DidResume && v1 == v2
						if o.Lib.Panic != nil {
							c.Violate("panic:tls-ticket-identity:"+site(o.Lib.Stack), fmt.Sprintf("[%s] %v\n%s", tag, o.Lib.Panic, clip(o.Lib.Stack, 1200)), nil, tag)
							continue
						}
						if o.Lib.Complete && !legit {
							c.Violate("accepts:tls-ticket-then-untrusted-identity", fmt.Sprintf("[%s] the verifying server completes (resumed=%v) and reports %d peer certificates: %s", tag, o.Lib.DidResume, len(o.Lib.PeerCerts), o.Describe()), nil, tag)
						}
						if o.Lib.Complete && legit && len(o.Lib.PeerCerts) > 0 && string(o.Lib.PeerCerts[0]) != string(p.StdClient.Certificate[0]) {
							c.Violate("tls-ticket-identity:resumed-with-other-identity", fmt.Sprintf("[%s] resumed session reports another peer certificate", tag), nil, tag)
						}
					}
				}
			}
		}
	}}
}

// ---- TLS 1.2 ECDHE with the reference peer --------------------------------------------------------

func ecdheServerCases(rsaCert bool) []refCase {
	pk := tlsk.Get()
	zero := make([]byte, 32)
	ske := func(f func(p *gmref.Peer) []byte) func(int, []gmref.Item) []gmref.Item {
		return replace("ServerKeyExchange", func(p *gmref.Peer) []byte { return gmref.HS(gmref.HSServerKX, f(p)) })
	}
	build := func(p *gmref.Peer, cr, sr, signedParams, sentParams []byte, hashByte byte) []byte {
		alg, sig := gmref.SignECDHE(p, cr, sr, signedParams)
		b := append(append([]byte{}, sentParams...), hashByte, alg)
		return append(b, gmref.SKEBody(sig)...)
	}
	params := func(p *gmref.Peer) []byte { p.GenerateECDH(); return gmref.ECDHEParams(p.ECDHOwn) }
	var otherKey interface{} = pk.StdClient.PrivateKey
	if rsaCert {
		otherKey = pk.ECDSAKey
	}
	cs := []refCase{
		{name: "control: genuine identity", conformant: true},
		{name: "ServerKeyExchange omitted", mutate: omit("ServerKeyExchange")},
		{name: "ServerKeyExchange signed with a key of the other type", ident: func(id *gmref.Identity) { id.TLSKey = otherKey }},
		{name: "ServerKeyExchange signature over server_random||client_random", mutate: ske(func(p *gmref.Peer) []byte { return build(p, p.SR, p.CR, params(p), params(p), 4) })},
		{name: "ServerKeyExchange signature from another session (other randoms)", mutate: ske(func(p *gmref.Peer) []byte { return build(p, zero, zero, params(p), params(p), 4) })},
		{name: "ServerKeyExchange signature over another ephemeral point than the one sent", mutate: ske(func(p *gmref.Peer) []byte {
			sent := params(p)
			other := append([]byte{}, sent...)
			other[len(other)-1] ^= 1
			return build(p, p.CR, p.SR, other, sent, 4)
		})},
		{name: "ServerKeyExchange announcing SHA-1 for a SHA-256 signature", mutate: ske(func(p *gmref.Peer) []byte { return build(p, p.CR, p.SR, params(p), params(p), 2) })},
		{name: "ServerKeyExchange with an empty signature", mutate: ske(func(p *gmref.Peer) []byte {
			return append(append(params(p), 4, 1), 0, 0)
		})},
		{name: "ServerKeyExchange without signature fields", mutate: ske(func(p *gmref.Peer) []byte { return params(p) })},
		{name: "ephemeral point not on the curve (y+1), correctly signed", malformedOnly: false, mutate: ske(func(p *gmref.Peer) []byte {
			pr := params(p)
			pr[len(pr)-1] ^= 1
			return build(p, p.CR, p.SR, pr, pr, 4)
		})},
		{name: "ephemeral point all zero coordinates, correctly signed", mutate: ske(func(p *gmref.Peer) []byte {
			pr := gmref.ECDHEParams(append([]byte{4}, make([]byte, 64)...))
			return build(p, p.CR, p.SR, pr, pr, 4)
		})},
		{name: "ephemeral point 'infinity' (one zero byte), correctly signed", mutate: ske(func(p *gmref.Peer) []byte {
			pr := gmref.ECDHEParams([]byte{0})
			return build(p, p.CR, p.SR, pr, pr, 4)
		})},
		{name: "ephemeral point in compressed form, correctly signed", mutate: ske(func(p *gmref.Peer) []byte {
			pt := params(p)[4:]
			c := append([]byte{2 + pt[64]&1}, pt[1:33]...)
			pr := gmref.ECDHEParams(c)
			return build(p, p.CR, p.SR, pr, pr, 4)
		})},
		{name: "a P-256 point announced as secp521r1, correctly signed", mutate: ske(func(p *gmref.Peer) []byte {
			pr := params(p)
			pr[2] = 25
			return build(p, p.CR, p.SR, pr, pr, 4)
		})},
		{name: "explicit-curve parameter type, correctly signed", mutate: ske(func(p *gmref.Peer) []byte {
			pr := params(p)
			pr[0] = 1
			return build(p, p.CR, p.SR, pr, pr, 4)
		})},
	}
	return append(cs, finishedCases(false)...)
}

func ecdheClientCases() []refCase {
	ckx := func(f func(p *gmref.Peer) []byte) func(int, []gmref.Item) []gmref.Item {
		return replace("ClientKeyExchange", func(p *gmref.Peer) []byte {
			honest := gmref.TLS12ECDHE.BuildCKX(p, nil) // sets the shared secret for the genuine point
			return gmref.HS(gmref.HSClientKX, f2(f(p), honest))
		})
	}
	pt := func(p *gmref.Peer) []byte { p.GenerateECDH(); return append([]byte{}, p.ECDHOwn...) }
	wrap := func(b []byte) []byte { return append([]byte{byte(len(b))}, b...) }
	cs := []refCase{
		{name: "control: genuine client key share", conformant: true, accept: all(true)},
		{name: "client point not on the curve (y+1)", mutate: ckx(func(p *gmref.Peer) []byte { b := pt(p); b[64] ^= 1; return wrap(b) })},
		{name: "client point with all-zero coordinates", mutate: ckx(func(p *gmref.Peer) []byte { return wrap(append([]byte{4}, make([]byte, 64)...)) })},
		{name: "client point 'infinity' (one zero byte)", mutate: ckx(func(p *gmref.Peer) []byte { return wrap([]byte{0}) })},
		{name: "client point in compressed form", mutate: ckx(func(p *gmref.Peer) []byte { b := pt(p); return wrap(append([]byte{2 + b[64]&1}, b[1:33]...)) })},
		{name: "client point truncated by one byte", mutate: ckx(func(p *gmref.Peer) []byte { b := pt(p); return wrap(b[:64]) })},
		{name: "client point with one extra byte", mutate: ckx(func(p *gmref.Peer) []byte { return wrap(append(pt(p), 0)) })},
		{name: "client point whose length byte claims one byte more", mutate: ckx(func(p *gmref.Peer) []byte { b := wrap(pt(p)); b[0]++; return b })},
		{name: "empty ClientKeyExchange", mutate: ckx(func(p *gmref.Peer) []byte { return []byte{} })},
		{name: "x coordinate equal to the field prime (not reduced)", mutate: ckx(func(p *gmref.Peer) []byte {
			b := pt(p)
			copy(b[1:33], []byte{0xff, 0xff, 0xff, 0xff, 0, 0, 0, 1, 0, 0, 0, 0, 0, 0, 0, 0, 0, 0, 0, 0, 0xff, 0xff, 0xff, 0xff, 0xff, 0xff, 0xff, 0xff, 0xff, 0xff, 0xff, 0xff})
			return wrap(b)
		})},
	}
	return append(cs, finishedCases(true)...)
}

// f2 returns a (the crafted body); b is evaluated only for its side effect.
func f2(a, b []byte) []byte { return a }

func ecdheUnit(suite uint16, libIsClient bool) harness.Unit {
	return harness.Unit{Name: fmt.Sprintf("tls12-ecdhe-scripted-peer/%04x/library-client=%v", suite, libIsClient), Run: func(c *harness.Ctx) {
		p := tlsk.Get()
		cert, key := p.RSA, interface{}(p.RSAKey)
		if suite == gmref.SuiteECDHEECDSAGCM {
			cert, key = p.ECDSA, interface{}(p.ECDSAKey)
		}
		setup := func(q *gmref.Peer) { q.UseECDHE(); q.Suites = []uint16{suite} }
		if libIsClient {
			for i, rc := range ecdheServerCases(suite == gmref.SuiteECDHERSAGCM) {
				id := gmref.Identity{Certs: [][]byte{cert.Certificate[0]}, TLSKey: key}
				if rc.ident != nil {
					rc.ident(&id)
				}
				cc := &gmtls.Config{RootCAs: p.StdRootsG, ServerName: tlsk.ServerName, Time: tlsk.FixedTime, Rand: wire.NewRand(38), CipherSuites: []uint16{suite}, MinVersion: 0x0303, MaxVersion: 0x0303}
				o := tlsk.RunLibVsRef(cc, true, tlsk.LibApp(true), id, byte(160+i), setup, &gmref.Script{Data: tlsk.PingPong(false), Mutate: rc.mutate}, nil)
				judgeRefCase(c, fmt.Sprintf("TLS 1.2 ECDHE suite=%04x scripted server: %s", suite, rc.name), fmt.Sprintf("ecdhe-scripted-server:%04x:%s", suite, rc.name), o, rc.conformant, false)
			}
			return
		}
		for i, rc := range ecdheClientCases() {
			sc := &gmtls.Config{Certificates: []gmtls.Certificate{cert}, Time: tlsk.FixedTime, Rand: wire.NewRand(39), CipherSuites: []uint16{suite}, MinVersion: 0x0303, MaxVersion: 0x0303}
			o := tlsk.RunLibVsRef(sc, false, tlsk.LibApp(false), gmref.Identity{}, byte(180+i), setup, &gmref.Script{Data: tlsk.PingPong(true), Mutate: rc.mutate}, nil)
			judgeRefCase(c, fmt.Sprintf("TLS 1.2 ECDHE suite=%04x scripted client: %s", suite, rc.name), fmt.Sprintf("ecdhe-scripted-client:%04x:%s", suite, rc.name), o, rc.conformant, false)
		}
	}}
}

// gmTicketIdentityUnit: the same on the GMSSL path. Connection 1 obtains a ticket; connection 2
// presents it while offering another suite than the session's (so that a full handshake follows),
// or the same suite under a policy that has become verifying, together with an untrusted client
// certificate and a valid proof of its key.
func gmTicketIdentityUnit() harness.Unit {
	return harness.Unit{Name: "gmssl-ticket-then-untrusted-identity", Run: func(c *harness.Ctx) {
		p := tlsk.Get()
		genuine := tlsk.ClientIdentity()
		rogue := gmref.Identity{Certs: [][]byte{p.ClientUntrusted.Certificate[0]}, SignKey: p.ClientKey.D}
		both := []uint16{gmtls.GMTLS_ECC_SM4_CBC_SM3, gmtls.GMTLS_ECC_SM4_GCM_SM3}
		for _, s1 := range both {
			for _, s2 := range both {
				for _, explicit := range []bool{true, false} {
					for _, pol1 := range []gmtls.ClientAuthType{gmtls.RequestClientCert, gmtls.RequireAnyClientCert, gmtls.RequireAndVerifyClientCert} {
						for _, pol2 := range []gmtls.ClientAuthType{gmtls.VerifyClientCertIfGiven, gmtls.RequireAndVerifyClientCert} {
							sc := &gmtls.Config{GMSupport: &gmtls.GMSupport{}, Certificates: []gmtls.Certificate{p.Sign, p.Enc}, Time: tlsk.FixedTime, Rand: wire.NewRand(37), ClientAuth: pol1, ClientCAs: p.Roots}
							if explicit {
								sc.CipherSuites = both
							}
							sc.SetSessionTicketKeys([][32]byte{{3, 1, 4}})
							id1 := genuine
							if pol1 != gmtls.RequireAndVerifyClientCert {
								id1 = rogue // accepted without verification under these policies
							}
							var first *gmref.Peer
							o1 := tlsk.RunLibVsRef(sc, false, tlsk.LibApp(false), id1, 152, func(q *gmref.Peer) {
								q.Suites = []uint16{s1}
								q.OfferTicket = true
								first = q
							}, &gmref.Script{SendClientCert: true, Data: tlsk.PingPong(true)}, nil)
							if !o1.Lib.Complete || first == nil {
								c.Note("ticket-issuing GMSSL connection failed (suite=%04x pol1=%d explicit=%v): %s", s1, pol1, explicit, o1.Describe())
								c.Add("harness_divergences", 1)
								continue
							}
							if first.NewTicket == nil {
								c.Add("no_ticket_issued", 1)
								continue
							}
							ticket, master := first.NewTicket, first.Master
							sc.ClientAuth = pol2
							setup := func(q *gmref.Peer) {
								q.Suites = []uint16{s2}
								q.OfferTicket = true
								q.Ticket, q.ResumeMaster, q.ResumeSuite = ticket, master, s1
							}
							o := tlsk.RunLibVsRef(sc, false, tlsk.LibApp(false), rogue, 153, setup, &gmref.Script{SendClientCert: true, Data: tlsk.PingPong(true)}, nil)
							tag := fmt.Sprintf("GMSSL ticket issued with suite %04x under ClientAuth=%d (server suites explicit=%v) to a %s certificate; next connection offers suite %04x under ClientAuth=%d with the ticket and an untrusted certificate with a valid proof", s1, pol1, explicit, map[bool]string{true: "genuine", false: "untrusted"}[pol1 == gmtls.RequireAndVerifyClientCert], s2, pol2)
							c.Add("evaluations", 1)
							c.DistinctS("nontrivial", tag)
							if c.WantSample() {
								c.Sample(tag)
							}
							legit := pol1 == gmtls.RequireAndVerifyClientCert && o.Lib.DidResume && s1 == s2
							if o.Lib.Panic != nil {
								c.Violate("panic:gmssl-ticket-identity:"+site(o.Lib.Stack), fmt.Sprintf("[%s] %v\n%s", tag, o.Lib.Panic, clip(o.Lib.Stack, 1200)), nil, tag)
								continue
							}
							if o.LibStuck || o.Horizon {
								c.Violate("hang:gmssl-ticket-identity", fmt.Sprintf("[%s] %s", tag, o.Describe()), nil, tag)
								continue
							}
							if o.Lib.Complete && !legit {
								c.Violate("accepts:gmssl-ticket-then-untrusted-identity", fmt.Sprintf("[%s] the verifying server completes (resumed=%v) and reports %d peer certificates: %s", tag, o.Lib.DidResume, len(o.Lib.PeerCerts), o.Describe()), nil, tag)
							}
							if o.Lib.Complete && legit && len(o.Lib.PeerCerts) > 0 && string(o.Lib.PeerCerts[0]) != string(p.Client.Certificate[0]) {
								c.Violate("gmssl-ticket-identity:resumed-with-other-identity", fmt.Sprintf("[%s] resumed session reports another peer certificate", tag), nil, tag)
							}
						}
					}
				}
			}
		}
	}}
}

// ticketLaunderingUnit: a ticket travels in the clear, so anybody can OFFER somebody else's ticket.
// Connection 1: the victim authenticates with its certificate and receives ticket T1. Connection 2:
// the attacker (own key material only, no certificate) offers T1 in a hello that cannot resume it
// (another suite), goes through a full handshake without client certificate and receives T2, whose
// master secret it knows. Connection 3: the attacker resumes T2. The server must never attribute the
// victim's identity to that session: a session is worth what its own full handshake proved.
func ticketLaunderingUnit() harness.Unit {
	return harness.Unit{Name: "ticket-laundering", Run: func(c *harness.Ctx) {
		p := tlsk.Get()
		type flavour struct {
			name   string
			suites [2]uint16
			tls    bool
		}
		for _, f := range []flavour{{"GMSSL", [2]uint16{gmtls.GMTLS_ECC_SM4_CBC_SM3, gmtls.GMTLS_ECC_SM4_GCM_SM3}, false}, {"TLS 1.2", [2]uint16{gmref.SuiteAESCBC, gmref.SuiteAESGCM}, true}} {
			for si := 0; si < 2; si++ {
				for _, pol := range []gmtls.ClientAuthType{gmtls.RequestClientCert, gmtls.VerifyClientCertIfGiven} {
					s1, s2 := f.suites[si], f.suites[1-si]
					var sc *gmtls.Config
					victim := tlsk.ClientIdentity()
					if f.tls {
						sc = &gmtls.Config{Certificates: []gmtls.Certificate{p.RSA}, Time: tlsk.FixedTime, Rand: wire.NewRand(41), ClientAuth: pol, ClientCAs: p.StdRootsG, MinVersion: 0x0303, MaxVersion: 0x0303, CipherSuites: f.suites[:]}
						victim = gmref.Identity{Certs: [][]byte{p.StdClient.Certificate[0]}, TLSKey: p.StdClient.PrivateKey}
					} else {
						sc = &gmtls.Config{GMSupport: &gmtls.GMSupport{}, Certificates: []gmtls.Certificate{p.Sign, p.Enc}, Time: tlsk.FixedTime, Rand: wire.NewRand(41), ClientAuth: pol, ClientCAs: p.Roots, CipherSuites: f.suites[:]}
					}
					sc.SetSessionTicketKeys([][32]byte{{2, 7, 1}})
					tag := fmt.Sprintf("%s, ClientAuth=%d: victim's session on suite %04x; the attacker offers the victim's ticket with suite %04x and no certificate, then resumes the ticket it got", f.name, pol, s1, s2)
					c.Add("evaluations", 1)
					c.DistinctS("nontrivial", tag)
					conn := func(id gmref.Identity, seed byte, suite uint16, sendCert bool, ticket, master []byte, tsuite uint16) (*tlsk.RefOutcome, *gmref.Peer) {
						var pr *gmref.Peer
						o := tlsk.RunLibVsRef(sc, false, tlsk.LibApp(false), id, seed, func(q *gmref.Peer) {
							if f.tls {
								q.UseTLS()
							}
							q.Suites = []uint16{suite}
							q.OfferTicket = true
							if ticket != nil {
								q.Ticket, q.ResumeMaster, q.ResumeSuite = ticket, master, tsuite
							}
							pr = q
						}, &gmref.Script{SendClientCert: sendCert, Data: tlsk.PingPong(true)}, nil)
						return o, pr
					}
					o1, v := conn(victim, 161, s1, true, nil, nil, 0)
					if !o1.Lib.Complete || v == nil || v.NewTicket == nil || len(o1.Lib.PeerCerts) == 0 {
						c.Note("victim's connection did not yield a ticket: %s", o1.Describe())
						c.Add("harness_divergences", 1)
						continue
					}
					// the attacker knows the ticket bytes (seen on the wire), not the master secret
					o2, a := conn(gmref.Identity{}, 162, s2, false, v.NewTicket, bytes.Repeat([]byte{0x11}, 48), s1)
					if o2.Lib.Panic != nil || o2.LibStuck {
						c.Violate("panic-or-hang:ticket-laundering", fmt.Sprintf("[%s] %s", tag, o2.Describe()), nil, tag)
						continue
					}
					if o2.Lib.Complete && len(o2.Lib.PeerCerts) > 0 {
						c.Violate("ticket-laundering:identity-without-proof", fmt.Sprintf("[%s] connection 2 (resumed=%v) reports %d peer certificates although the client sent none and does not know the victim's master secret", tag, o2.Lib.DidResume, len(o2.Lib.PeerCerts)), nil, tag)
						continue
					}
					if !o2.Lib.Complete || a == nil || a.NewTicket == nil {
						c.Add("attacker_got_no_ticket", 1)
						continue
					}
					o3, _ := conn(gmref.Identity{}, 163, s2, false, a.NewTicket, a.Master, s2)
					if o3.Lib.Panic != nil || o3.LibStuck {
						c.Violate("panic-or-hang:ticket-laundering", fmt.Sprintf("[%s] %s", tag, o3.Describe()), nil, tag)
						continue
					}
					c.DistinctS("outcomes", fmt.Sprintf("%v/%v/%d", o3.Lib.Complete, o3.Lib.DidResume, len(o3.Lib.PeerCerts)))
					if o3.Lib.Complete && len(o3.Lib.PeerCerts) > 0 {
						c.Violate("ticket-laundering:resumed-with-the-victims-identity", fmt.Sprintf("[%s] connection 3 (resumed=%v) reports %d peer certificates: the attacker's own session never proved any identity", tag, o3.Lib.DidResume, len(o3.Lib.PeerCerts)), nil, tag)
					}
				}
			}
		}
		c.Sample("GMSSL and TLS 1.2 x both suites x ClientAuth {request, verify-if-given}: victim's ticket offered by a keyless attacker in a hello that forces a full handshake, the ticket issued there resumed")
	}}
}
