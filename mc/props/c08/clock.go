package c08

import (
	"fmt"
	"time"

	"github.com/tjfoc/gmsm/gmtls"

	"verif/mc/harness"
	"verif/mc/tlsk"
	"verif/mc/wire"
)

// ---- the configured time is the only clock --------------------------------------------------------
//
// "Valid at the configured time": Config.Time, not the machine's clock, decides. One certificate of
// the peer is valid only in a window of +-30 days around the machine's clock NOW, the others for
// decades; the verifying endpoint's Config.Time is one year ahead, one year back, or now (control).
// Position of the short-lived certificate: GMSSL signing certificate, GMSSL encryption certificate,
// TLS server certificate, client certificate (GMSSL and TLS servers with RequireAndVerifyClientCert).

func configuredClockUnit() harness.Unit {
	return harness.Unit{Name: "configured-clock", Run: func(c *harness.Ctx) {
		p := tlsk.Get()
		now := time.Now()
		nb, na := now.AddDate(0, 0, -30), now.AddDate(0, 0, 30)
		long0, long1 := time.Date(2020, 1, 2, 0, 0, 0, 0, time.UTC), time.Date(2029, 12, 30, 0, 0, 0, 0, time.UTC)
		clocks := []struct {
			name  string
			t     time.Time
			valid bool
		}{{"the machine's clock", now, true}, {"one year ahead", now.AddDate(1, 0, 0), false}, {"one year back", now.AddDate(-1, 0, 0), false}}
		type kase struct {
			name   string
			client func(clock func() time.Time) *gmtls.Config
			server func(clock func() time.Time) *gmtls.Config
			// which side verifies the short-lived certificate
			verifierIsClient bool
		}
		suite := suites[0]
		gmClient := func(clock func() time.Time) *gmtls.Config {
			cc := baseClient(suite, 2)
			cc.Time = clock
			return cc
		}
		kases := []kase{
			{"GMSSL signing certificate short-lived", gmClient, func(func() time.Time) *gmtls.Config {
				sc := baseServer(suite, 1)
				sc.Certificates = []gmtls.Certificate{p.SM2LeafValid("sign", nb, na), p.SM2LeafValid("enc", long0, long1)}
				return sc
			}, true},
			{"GMSSL encryption certificate short-lived", gmClient, func(func() time.Time) *gmtls.Config {
				sc := baseServer(suite, 1)
				sc.Certificates = []gmtls.Certificate{p.SM2LeafValid("sign", long0, long1), p.SM2LeafValid("enc", nb, na)}
				return sc
			}, true},
			{"TLS 1.2 server certificate short-lived", func(clock func() time.Time) *gmtls.Config {
				return &gmtls.Config{RootCAs: p.StdRootsG, ServerName: tlsk.ServerName, Time: clock, Rand: wire.NewRand(2), MinVersion: 0x0303, MaxVersion: 0x0303}
			}, func(func() time.Time) *gmtls.Config {
				return &gmtls.Config{Certificates: []gmtls.Certificate{p.StdLeafValid(false, nb, na)}, Time: tlsk.FixedTime, Rand: wire.NewRand(1), MinVersion: 0x0303, MaxVersion: 0x0303}
			}, true},
			{"GMSSL client certificate short-lived", func(func() time.Time) *gmtls.Config {
				cc := baseClient(suite, 2)
				cc.Certificates = []gmtls.Certificate{p.SM2LeafValid("client", nb, na)}
				return cc
			}, func(clock func() time.Time) *gmtls.Config {
				sc := baseServer(suite, 1)
				sc.ClientAuth, sc.ClientCAs, sc.Time = gmtls.RequireAndVerifyClientCert, p.Roots, clock
				return sc
			}, false},
			{"TLS 1.2 client certificate short-lived", func(func() time.Time) *gmtls.Config {
				return &gmtls.Config{RootCAs: p.StdRootsG, ServerName: tlsk.ServerName, Time: tlsk.FixedTime, Rand: wire.NewRand(2), MinVersion: 0x0303, MaxVersion: 0x0303, Certificates: []gmtls.Certificate{p.StdLeafValid(true, nb, na)}}
			}, func(clock func() time.Time) *gmtls.Config {
				return &gmtls.Config{Certificates: []gmtls.Certificate{p.ECDSA}, Time: clock, Rand: wire.NewRand(1), MinVersion: 0x0303, MaxVersion: 0x0303, ClientAuth: gmtls.RequireAndVerifyClientCert, ClientCAs: p.StdRootsG}
			}, false},
		}
		for _, k := range kases {
			for _, cl := range clocks {
				cl := cl
				clock := func() time.Time { return cl.t }
				tag := fmt.Sprintf("%s (valid +-30 days around the machine's clock); the verifying side's Config.Time is %s", k.name, cl.name)
				c.Add("evaluations", 1)
				c.DistinctS("nontrivial", tag)
				o := run(k.client(clock), k.server(clock), nil)
				if crash(c, "configured-clock", tag, o) {
					continue
				}
				v := o.C
				if !k.verifierIsClient {
					v = o.S
				}
				if cl.valid {
					if !o.C.Complete || !o.S.Complete {
						c.Violate("configured-clock:valid-certificate-refused:"+k.name, fmt.Sprintf("[%s] %s", tag, o.Describe()), nil, tag)
					}
					continue
				}
				if v.Complete || v.HandshakeErr == nil {
					c.Violate("configured-clock:accepts-certificate-not-valid-at-the-configured-time:"+k.name, fmt.Sprintf("[%s] the verifying side completes: %s", tag, o.Describe()), nil, tag)
				}
			}
		}
		c.Sample("5 positions of a certificate valid only around the machine's clock x Config.Time {now, +1 year, -1 year}")
	}}
}
