package c08

import (
	"fmt"
	"io"
	"net"
	"time"

	"github.com/tjfoc/gmsm/gmtls"

	"verif/mc/harness"
	"verif/mc/tlsk"
)

// ---- Dial and Listen -----------------------------------------------------------------------------------
//
// Most applications never call Client or Server: they Dial and Listen. Dial works on a COPY of the
// caller's Config when no ServerName is given (the name is taken from the address), DialWithDialer
// adds a timeout around the handshake, the listener wraps every accepted connection. The identity
// rules must come out the same: over the loopback interface, a verifying client that dials
// 127.0.0.1 completes only with a server certified for that address, at the configured time, under the
// configured roots - and the caller's Config is left as it was.

func dialUnit() harness.Unit {
	return harness.Unit{Name: "dial-and-listen", Run: func(c *harness.Ctx) {
		p := tlsk.Get()
		type srv struct {
			name   string
			cfg    func() *gmtls.Config
			forIP  bool // certified for 127.0.0.1
			forDNS bool // certified for tlsk.ServerName
			gm     bool
		}
		servers := []srv{
			{"GMSSL pair certified for the names and 127.0.0.1", func() *gmtls.Config {
				return &gmtls.Config{GMSupport: &gmtls.GMSupport{}, Certificates: []gmtls.Certificate{p.Sign, p.Enc}, Time: tlsk.FixedTime}
			}, true, true, true},
			{"GMSSL pair certified for another name only", func() *gmtls.Config {
				return &gmtls.Config{GMSupport: &gmtls.GMSupport{}, Certificates: []gmtls.Certificate{p.SignWrongName, p.EncWrongName}, Time: tlsk.FixedTime}
			}, false, false, true},
			{"ECDSA leaf certified for the name, 127.0.0.1 and ::1", func() *gmtls.Config {
				return &gmtls.Config{Certificates: []gmtls.Certificate{p.ECDSAIP}, Time: tlsk.FixedTime}
			}, true, true, false},
			{"ECDSA leaf certified for DNS names only", func() *gmtls.Config {
				return &gmtls.Config{Certificates: []gmtls.Certificate{p.ECDSA}, Time: tlsk.FixedTime}
			}, false, true, false},
		}
		type cli struct {
			name       string
			serverName string
			clock      int // 0 inside the validity period, 1 after it
			skip       bool
			dialer     bool
		}
		clients := []cli{
			{"no ServerName (taken from the address)", "", 0, false, false},
			{"no ServerName, DialWithDialer with a timeout", "", 0, false, true},
			{"no ServerName, clock after the certificates expired", "", 1, false, false},
			{"ServerName set to the certified host name", tlsk.ServerName, 0, false, false},
			{"ServerName set, clock after the certificates expired", tlsk.ServerName, 1, false, true},
			{"ServerName set to another name", "unknown.example.test", 0, false, false},
			{"no ServerName, InsecureSkipVerify", "", 1, true, false},
		}
		for _, s := range servers {
			for _, k := range clients {
				scfg := s.cfg()
				ln, err := gmtls.Listen("tcp", "127.0.0.1:0", scfg)
				if err != nil {
					c.Note("cannot listen on the loopback interface: %v", err)
					c.Add("harness_divergences", 1)
					return
				}
				type sres struct {
					err  error
					got  string
					done bool
				}
				sch := make(chan sres, 1)
				go func() {
					conn, err := ln.Accept()
					if err != nil {
						sch <- sres{err: err}
						return
					}
					defer conn.Close()
					conn.SetDeadline(time.Now().Add(20 * time.Second))
					buf := make([]byte, 4)
					_, err = io.ReadFull(conn, buf)
					if err == nil {
						_, err = conn.Write([]byte("pong"))
					}
					sch <- sres{err: err, got: string(buf), done: true}
				}()
				ccfg := &gmtls.Config{Time: tlsk.FixedTime, ServerName: k.serverName, InsecureSkipVerify: k.skip}
				if s.gm {
					ccfg.GMSupport, ccfg.RootCAs = &gmtls.GMSupport{}, p.Roots
				} else {
					ccfg.RootCAs = p.StdRootsG
				}
				if k.clock == 1 {
					ccfg.Time = func() time.Time { return time.Date(2035, 1, 1, 0, 0, 0, 0, time.UTC) }
				}
				var conn *gmtls.Conn
				var derr error
				func() {
					defer func() {
						if r := recover(); r != nil {
							derr = fmt.Errorf("PANIC: %v", r)
						}
					}()
					if k.dialer {
						conn, derr = gmtls.DialWithDialer(&net.Dialer{Timeout: 20 * time.Second}, "tcp", ln.Addr().String(), ccfg)
					} else {
						conn, derr = gmtls.Dial("tcp", ln.Addr().String(), ccfg)
					}
				}()
				got := ""
				if derr == nil {
					conn.SetDeadline(time.Now().Add(20 * time.Second))
					conn.Write([]byte("ping"))
					buf := make([]byte, 4)
					if _, err := io.ReadFull(conn, buf); err == nil {
						got = string(buf)
					}
					conn.Close()
				}
				ln.Close()
				var sr sres
				select {
				case sr = <-sch:
				case <-time.After(30 * time.Second):
					c.Violate("dial-and-listen:server-hangs", fmt.Sprintf("server %s / client %s: the accepted connection did not finish within 30 s", s.name, k.name), nil, nil)
					continue
				}
				tag := fmt.Sprintf("server: %s; client dials 127.0.0.1 with %s", s.name, k.name)
				key := s.name + ":" + k.name
				c.Add("evaluations", 1)
				c.DistinctS("nontrivial", tag)
				if derr != nil && len(derr.Error()) > 5 && derr.Error()[:5] == "PANIC" {
					c.Violate("panic:dial-and-listen:"+key, fmt.Sprintf("[%s] %v", tag, derr), nil, tag)
					continue
				}
				covered := s.forIP
				if k.serverName != "" {
					covered = s.forDNS && k.serverName == tlsk.ServerName
				}
				want := k.skip || (covered && k.clock == 0)
				if want && (derr != nil || got != "pong" || sr.got != "ping") {
					c.Violate("dial-and-listen:admitted-peer-refused:"+key, fmt.Sprintf("[%s] Dial: %v; client read %q, server read %q (%v)", tag, derr, got, sr.got, sr.err), nil, tag)
				}
				if !want && derr == nil {
					c.Violate("client-accepts:dial-and-listen:"+key, fmt.Sprintf("[%s] Dial returned a connection although the server's certificate does not cover what the client asked for at its configured time (client read %q)", tag, got), nil, tag)
				}
				if ccfg.ServerName != k.serverName {
					c.Violate("dial-and-listen:config-modified:"+key, fmt.Sprintf("[%s] Dial changed the caller's Config.ServerName to %q", tag, ccfg.ServerName), nil, tag)
				}
			}
		}
		c.Sample("Listen / Dial / DialWithDialer over the loopback interface: 4 server identities (GMSSL and TLS, with and without an iPAddress entry) x 7 client settings (name from the address, name given, clock after expiry, InsecureSkipVerify)")
	}}
}
