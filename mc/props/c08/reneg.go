package c08

import (
	"bytes"
	"crypto"
	"crypto/rsa"
	"fmt"

	"github.com/tjfoc/gmsm/gmtls"

	"verif/mc/harness"
	"verif/mc/ref/gmref"
	"verif/mc/tlsk"
	"verif/mc/wire"
)

// ---- identity across renegotiation ---------------------------------------------------------------
//
// A client that allows renegotiation runs further handshakes on a connection whose peer it has
// already authenticated. The identity proof of such a handshake has two parts: the usual one
// (certificate chain, name, possession of the key) and the binding to the connection it happens on -
// renegotiation_info must carry the verify_data of the previous handshake in both directions
// (RFC 5746), and the certified identity must not change under the application's feet. The scripted
// server holds all keys it uses and always computes a correct Finished, so only these two things are
// wrong in the catalogue below.

type renegCase struct {
	name    string
	echo    bool // the first handshake took part in RFC 5746
	before  func(q *gmref.Peer)
	verdict string
}

func renegIdentity(suite uint16, c gmtls.Certificate) gmref.Identity {
	id := gmref.Identity{Certs: [][]byte{c.Certificate[0]}}
	if k, ok := c.PrivateKey.(*rsa.PrivateKey); ok && suite != gmref.SuiteECDHERSAGCM && suite != gmref.SuiteECDHEECDSAGCM {
		id.RSAKey = k
	} else {
		id.TLSKey = c.PrivateKey.(crypto.Signer)
	}
	return id
}

func renegCases(suite uint16) []renegCase {
	p := tlsk.Get()
	rsaKey := suite != gmref.SuiteECDHEECDSAGCM
	info := func(f func(h []byte) []byte) func(q *gmref.Peer) {
		return func(q *gmref.Peer) { q.RenegInfo = f }
	}
	ident := func(c gmtls.Certificate) func(q *gmref.Peer) {
		return func(q *gmref.Peer) { q.ID = renegIdentity(suite, c) }
	}
	flip := func(i int) func(h []byte) []byte {
		return func(h []byte) []byte {
			o := append([]byte{}, h...)
			if i < 0 {
				i += len(o)
			}
			o[i] ^= 1
			return o
		}
	}
	cs := []renegCase{
		{"control: same identity, honest renegotiation_info", true, nil, "must-complete"},
		{"control: same identity, server outside RFC 5746 in both handshakes", false, nil, "must-complete"},
		{"renegotiation_info empty (as in a first handshake)", true, info(func(h []byte) []byte { return nil }), "must-abort"},
		{"renegotiation_info with the client's verify_data only", true, info(func(h []byte) []byte { return h[:len(h)/2] }), "must-abort"},
		{"renegotiation_info with the server's verify_data only", true, info(func(h []byte) []byte { return h[len(h)/2:] }), "must-abort"},
		{"renegotiation_info with the two halves swapped", true, info(func(h []byte) []byte { return append(append([]byte{}, h[len(h)/2:]...), h[:len(h)/2]...) }), "must-abort"},
		{"renegotiation_info with its first byte changed", true, info(flip(0)), "must-abort"},
		{"renegotiation_info with the first byte of the server half changed", true, info(flip(12)), "must-abort"},
		{"renegotiation_info with its last byte changed", true, info(flip(-1)), "must-abort"},
		{"renegotiation_info one byte short", true, info(func(h []byte) []byte { return h[:len(h)-1] }), "must-abort"},
		{"renegotiation_info one byte long", true, info(func(h []byte) []byte { return append(append([]byte{}, h...), 0) }), "must-abort"},
		{"renegotiation_info all zero", true, info(func(h []byte) []byte { return make([]byte, len(h)) }), "must-abort"},
		{"renegotiation_info dropped in the renegotiation although the first handshake had it", true, func(q *gmref.Peer) { q.EchoRenegInfo = false }, "must-abort"},
		{"renegotiation_info (honest contents) appears in the renegotiation only", false, func(q *gmref.Peer) { q.EchoRenegInfo = true }, "may-complete"},
		{"another CA-issued certificate for the same name, with its key", true, ident(p.StdServerCert([]string{tlsk.ServerName, "second.example.test"}, rsaKey)), "must-abort"},
		{"another CA-issued certificate for the same name, with its key (server outside RFC 5746)", false, ident(p.StdServerCert([]string{tlsk.ServerName, "second.example.test"}, rsaKey)), "must-abort"},
		{"a self-signed certificate for the same name, with its key", true, ident(p.StdSelfSignedServerCert([]string{tlsk.ServerName}, rsaKey)), "must-abort"},
		{"a CA-issued certificate for another name, with its key", true, ident(p.StdServerCert([]string{"other.example.test"}, rsaKey)), "must-abort"},
		{"another CA-issued certificate for the same name is PRESENTED while the original key keeps being used", true, func(q *gmref.Peer) {
			q.ID.Certs = [][]byte{p.StdServerCert([]string{tlsk.ServerName, "second.example.test"}, rsaKey).Certificate[0]}
		}, "may-complete"}, // whoever completes this handshake holds the key that was certified and verified: no demand
		{"the same certificate sent twice", true, func(q *gmref.Peer) { q.ID.Certs = [][]byte{q.ID.Certs[0], q.ID.Certs[0]} }, "may-complete"},
		{"an empty certificate list", true, func(q *gmref.Peer) { q.ID.Certs = nil }, "must-abort"},
		{"the same certificate followed by the self-signed one", true, func(q *gmref.Peer) {
			q.ID.Certs = [][]byte{q.ID.Certs[0], p.StdSelfSignedServerCert([]string{tlsk.ServerName}, rsaKey).Certificate[0]}
		}, "may-complete"},
	}
	return cs
}

func renegIdentityUnit(suite, ver uint16) harness.Unit {
	return harness.Unit{Name: fmt.Sprintf("renegotiation-identity/%04x/%04x", ver, suite), Run: func(c *harness.Ctx) {
		p := tlsk.Get()
		genuine := p.RSA
		if suite == gmref.SuiteECDHEECDSAGCM {
			genuine = p.ECDSA
		}
		setup := func(q *gmref.Peer) {
			switch {
			case suite == gmref.SuiteECDHERSAGCM || suite == gmref.SuiteECDHEECDSAGCM:
				q.UseECDHE()
			default:
				q.UseTLSVersion(ver)
			}
			q.Suites = []uint16{suite}
		}
		for _, rc := range renegCases(suite) {
			for round := 0; round < 2; round++ {
				rc, round := rc, round
				pl := &tlsk.RenegPlan{Rounds: round + 1, Echo: rc.echo, Lenient: true, Before: func(r int, q *gmref.Peer) {
					if r == round && rc.before != nil {
						rc.before(q)
					}
				}}
				cc := &gmtls.Config{RootCAs: p.StdRootsG, ServerName: tlsk.ServerName, Time: tlsk.FixedTime, Rand: wire.NewRand(52), CipherSuites: []uint16{suite}, MinVersion: ver, MaxVersion: ver, Renegotiation: gmtls.RenegotiateFreelyAsClient}
				o := tlsk.RunLibVsRef(cc, true, pl.App(), renegIdentity(suite, genuine), 53, func(q *gmref.Peer) { setup(q); q.EchoRenegInfo = rc.echo }, &gmref.Script{Data: pl.Data()}, nil)
				tag := fmt.Sprintf("TLS %04x suite %04x, renegotiation %d of %d: %s", ver, suite, round+1, round+1, rc.name)
				key := fmt.Sprintf("%04x:%04x:round%d:%s", ver, suite, round, rc.name)
				c.Add("evaluations", 1)
				c.DistinctS("nontrivial", tag)
				for _, f := range tlsk.JudgeReneg(o, pl, rc.verdict, round, false, false) {
					k := "renegotiation-identity:" + f.Key + ":" + key
					if f.Key == "accepted" {
						k = "client-accepts:renegotiation:" + key
					}
					if f.Key == "panic" {
						k = "panic:renegotiation-identity:" + site(f.Msg)
					}
					c.Violate(k, fmt.Sprintf("[%s] %s | %s", tag, clip(f.Msg, 1200), o.Describe()), nil, tag)
				}
				// what the client itself sent: the previous handshake's client verify_data, nothing else
				for r := range pl.ClientInfo {
					want := append([]byte{byte(len(pl.PrevClientVerify[r]))}, pl.PrevClientVerify[r]...)
					if pl.ClientInfo[r] != nil && !bytes.Equal(pl.ClientInfo[r], want) {
						c.Violate("renegotiation-identity:client-binding:"+key, fmt.Sprintf("[%s] the ClientHello of renegotiation %d carries renegotiation_info %x, the previous handshake's client verify_data is %x", tag, r, pl.ClientInfo[r], want), nil, tag)
					}
					if pl.ClientInfo[r] == nil && len(pl.Results) > r && pl.Results[r].Completed {
						c.Violate("renegotiation-identity:client-binding-missing:"+key, fmt.Sprintf("[%s] renegotiation %d completed on a ClientHello without renegotiation_info", tag, r), nil, tag)
					}
				}
				// after a completed renegotiation the connection reports the identity it verified then
				if rc.verdict == "must-complete" && o.Lib.AfterComplete && (len(o.Lib.AfterPeerCerts) == 0 || !bytes.Equal(o.Lib.AfterPeerCerts[0], genuine.Certificate[0])) {
					c.Violate("renegotiation-identity:state:"+key, fmt.Sprintf("[%s] the connection state after the renegotiation does not carry the server's certificate", tag), nil, tag)
				}
			}
		}
		c.Sample(fmt.Sprintf("TLS %04x suite %04x: 21 renegotiation identity cases (RFC 5746 binding wrong in 11 ways, identity changed in 7) x first and second renegotiation", ver, suite))
	}}
}
