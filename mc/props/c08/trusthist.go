package c08

import (
	"fmt"
	"time"

	"github.com/tjfoc/gmsm/gmtls"
	gx509 "github.com/tjfoc/gmsm/x509"

	"verif/mc/harness"
	"verif/mc/tlsk"
	"verif/mc/wire"
)

// ---- a session cache, and the client's trust settings change -------------------------------------
//
// One client session cache; histories over {connect, the server drops its ticket key, the client's
// clock moves past the certificates' validity, the client switches to a root pool that does not
// contain the server's CA}. Whenever a FULL handshake takes place the certificates are presented
// again and must be verified against the settings in force now - whatever the cache remembers about
// an earlier session with the same certificates. Model: with unchanged trust a connection must
// complete; with changed trust it must fail unless the ticket is still valid (a resumption presents
// no certificates: not judged).

func trustHistoryUnit(flavour int, depth int) harness.Unit {
	fn := []string{"GMSSL, suites listed", "GMSSL, default suites", "TLS 1.2"}[flavour]
	return harness.Unit{Name: fmt.Sprintf("client-cache-trust-histories/%s/depth%d", fn, depth), Run: func(c *harness.Ctx) {
		p := tlsk.Get()
		late := func() time.Time { return tlsk.Now.AddDate(60, 0, 0) }
		ops := []string{"connect", "server drops its ticket key", "client clock moves 60 years ahead", "client switches to a root pool without the server's CA"}
		total := 1
		for i := 0; i < depth; i++ {
			total *= len(ops)
		}
		for code := 0; code < total; code++ {
			var sc *gmtls.Config
			var roots, other *gx509.CertPool
			switch flavour {
			case 0, 1:
				sc = &gmtls.Config{GMSupport: &gmtls.GMSupport{}, Certificates: []gmtls.Certificate{p.Sign, p.Enc}, Time: tlsk.FixedTime, Rand: wire.NewRand(91)}
				if flavour == 0 {
					sc.CipherSuites = []uint16{gmtls.GMTLS_ECC_SM4_CBC_SM3, gmtls.GMTLS_ECC_SM4_GCM_SM3}
				}
				roots, other = p.Roots, p.StdRootsG
			default:
				sc = &gmtls.Config{Certificates: []gmtls.Certificate{p.ECDSA}, Time: tlsk.FixedTime, Rand: wire.NewRand(91), MinVersion: 0x0303, MaxVersion: 0x0303}
				roots, other = p.StdRootsG, p.Roots
			}
			key := byte(1)
			sc.SetSessionTicketKeys([][32]byte{{key}})
			cache := gmtls.NewLRUClientSessionCache(2)
			clock, pool := tlsk.FixedTime, roots
			trusted, ticketValid := true, false
			hist := ""
			lastConnect := -1
			for x, i := code, 0; i < depth; i, x = i+1, x/len(ops) {
				if x%len(ops) == 0 {
					lastConnect = i
				}
			}
			if lastConnect < 0 {
				continue
			}
			c.Add("evaluations", 1)
			c.DistinctS("nontrivial", fmt.Sprintf("trust-history/%d/%d", flavour, code))
			for x, i := code, 0; i <= lastConnect; i, x = i+1, x/len(ops) {
				op := x % len(ops)
				if i > 0 {
					hist += "; "
				}
				hist += ops[op]
				switch op {
				case 1:
					key++
					sc.SetSessionTicketKeys([][32]byte{{key}})
					ticketValid = false
					continue
				case 2:
					clock, trusted = late, false
					continue
				case 3:
					pool, trusted = other, false
					continue
				}
				cc := &gmtls.Config{RootCAs: pool, ServerName: tlsk.ServerName, Time: clock, Rand: wire.NewRand(byte(100 + i)), ClientSessionCache: cache}
				if flavour < 2 {
					cc.GMSupport = &gmtls.GMSupport{}
				} else {
					cc.MinVersion, cc.MaxVersion = 0x0303, 0x0303
				}
				o := run(cc, sc, nil)
				tag := fmt.Sprintf("%s; one client session cache; history [%s]", fn, hist)
				if crashOf(c, "both", "client-cache-trust-history", tag, o) {
					break
				}
				switch {
				case trusted:
					if !o.C.Complete || !o.S.Complete {
						c.Violate("trust-history:genuine-server-refused:"+fn, fmt.Sprintf("[%s] %s", tag, o.Describe()), nil, tag)
					}
				case o.C.DidResume && ticketValid:
					c.Add("not-judged-resumption-under-changed-trust", 1)
				default:
					if o.C.Complete {
						c.Violate("trust-history:accepts-certificates-no-longer-acceptable:"+fn, fmt.Sprintf("[%s] full handshake=%v: the client completes although the presented certificates are not acceptable under its current clock / roots: %s", tag, !o.C.DidResume, o.Describe()), nil, tag)
					}
				}
				if o.C.Complete && !o.C.DidResume {
					ticketValid = true
				}
				if !o.C.Complete {
					break
				}
			}
		}
		c.Sample(fmt.Sprintf("%s: every history of %d steps over {%s, %s, %s, %s}", fn, depth, ops[0], ops[1], ops[2], ops[3]))
	}}
}
