package c08

import (
	"fmt"
	"net"
	"strings"

	"github.com/tjfoc/gmsm/gmtls"

	"verif/mc/harness"
	"verif/mc/tlsk"
	"verif/mc/wire"
)

// ---- requested name x certified names, on every protocol path ------------------------------------
//
// The identity a client demands is Config.ServerName, in whatever spelling the application uses: a
// host name, an IP literal, a bracketed literal, with a trailing dot, in upper case. What goes into
// the ClientHello's server_name extension is a normalised derivative of it (no IP literals, no
// trailing dot); the property is about the REQUESTED name. The unit enumerates requested spellings x
// server identities x protocol paths and predicts the verdict with a reference that knows nothing of
// the library's x509: IP literals match only iPAddress SANs, host names only dNSName SANs (case
// insensitive, exact: none of the certificates carries a wildcard).

type certNames struct {
	label string
	dns   []string
	ips   []string
}

// verdicts
const (
	mustAccept = iota
	mustRefuse
	either
)

func expectName(req string, cn certNames) int {
	if req == "" {
		return mustRefuse // a verifying client with nothing to verify against must not connect
	}
	h := req
	if len(h) >= 3 && h[0] == '[' && h[len(h)-1] == ']' {
		h = h[1 : len(h)-1]
	}
	if ip := net.ParseIP(h); ip != nil {
		for _, c := range cn.ips {
			if net.ParseIP(c).Equal(ip) {
				return mustAccept
			}
		}
		return mustRefuse
	}
	low := strings.ToLower(req)
	for _, d := range cn.dns {
		if strings.ToLower(d) == low {
			return mustAccept
		}
	}
	if strings.HasSuffix(low, ".") {
		for _, d := range cn.dns {
			if strings.ToLower(d) == strings.TrimRight(low, ".") {
				return either // absolute form of a certified name: implementations differ
			}
		}
	}
	return mustRefuse
}

var requestedNames = []string{
	tlsk.ServerName, tlsk.AltName, strings.ToUpper(tlsk.ServerName), tlsk.ServerName + ".",
	"other.example.test", "other.example.test.", tlsk.ServerName + ".evil", "evil." + tlsk.ServerName, "example.test", "*.example.test", "erver.example.test",
	"127.0.0.1", "[127.0.0.1]", "127.0.0.2", "[127.0.0.2]", "::1", "[::1]", "::2", "[::2]", "::ffff:127.0.0.1", "::ffff:127.0.0.2", "0.0.0.0", "fe80::1%eth0", "[fe80::1%eth0]",
	"",
}

type namePath struct {
	label  string
	client func(name string, seed byte) *gmtls.Config
	server func(id int, seed byte) (*gmtls.Config, certNames)
	ids    int
}

func namePaths() []namePath {
	p := tlsk.Get()
	var out []namePath
	for _, s := range suites {
		suite := s
		out = append(out, namePath{
			label: fmt.Sprintf("GMSSL %04x", suite),
			client: func(name string, seed byte) *gmtls.Config {
				cc := baseClient(suite, seed)
				cc.ServerName = name
				return cc
			},
			server: func(id int, seed byte) (*gmtls.Config, certNames) {
				sc := baseServer(suite, seed)
				if id == 1 {
					sc.Certificates = []gmtls.Certificate{p.SignWrongName, p.EncWrongName}
					return sc, certNames{"SM2 pair for other.example.test only", []string{"other.example.test"}, nil}
				}
				return sc, certNames{"SM2 pair for server/alt names and 127.0.0.1", []string{tlsk.ServerName, tlsk.AltName}, []string{"127.0.0.1"}}
			},
			ids: 2,
		})
	}
	for _, v := range []uint16{0x0301, 0x0302, 0x0303} {
		ver := v
		out = append(out, namePath{
			label: fmt.Sprintf("TLS %04x", ver),
			client: func(name string, seed byte) *gmtls.Config {
				return &gmtls.Config{RootCAs: p.StdRootsG, ServerName: name, Time: tlsk.FixedTime, Rand: wire.NewRand(seed), MinVersion: ver, MaxVersion: ver}
			},
			server: func(id int, seed byte) (*gmtls.Config, certNames) {
				sc := &gmtls.Config{Time: tlsk.FixedTime, Rand: wire.NewRand(seed), MinVersion: ver, MaxVersion: ver}
				switch id {
				case 0:
					sc.Certificates = []gmtls.Certificate{p.ECDSA}
					return sc, certNames{"ECDSA leaf, dNSName only", []string{tlsk.ServerName, tlsk.AltName}, nil}
				case 1:
					sc.Certificates = []gmtls.Certificate{p.RSA}
					return sc, certNames{"RSA leaf, dNSName only", []string{tlsk.ServerName, tlsk.AltName}, nil}
				}
				sc.Certificates = []gmtls.Certificate{p.ECDSAIP}
				return sc, certNames{"ECDSA leaf for the server name, 127.0.0.1 and ::1", []string{tlsk.ServerName}, []string{"127.0.0.1", "::1"}}
			},
			ids: 3,
		})
	}
	return out
}

func nameMatrixUnit() harness.Unit {
	return harness.Unit{Name: "requested-name-matrix", Run: func(c *harness.Ctx) {
		for _, np := range namePaths() {
			for id := 0; id < np.ids; id++ {
				for ni, name := range requestedNames {
					sc, cn := np.server(id, 1)
					cc := np.client(name, byte(2+ni))
					want := expectName(name, cn)
					tag := fmt.Sprintf("%s: client demands %q, server presents %s", np.label, name, cn.label)
					c.Add("evaluations", 1)
					c.DistinctS("nontrivial", tag)
					o := run(cc, sc, nil)
					if crash(c, "requested-name", tag, o) {
						continue
					}
					key := fmt.Sprintf("%s:%q:%s", np.label, name, cn.label)
					switch want {
					case mustAccept:
						if !(o.C.Complete && o.S.Complete) {
							c.Violate("client-refuses-certified-name:"+key, fmt.Sprintf("[%s] the certificate covers the requested name but the handshake failed: %s", tag, o.Describe()), nil, tag)
						}
					case mustRefuse:
						if o.C.Complete || o.C.HandshakeErr == nil {
							c.Violate("client-accepts:name-not-certified:"+key, fmt.Sprintf("[%s] the certificate does not cover the requested name and the client completed: %s", tag, o.Describe()), nil, tag)
						}
						if len(o.C.Read) > 0 {
							c.Violate("client-reads-data:name-not-certified:"+key, fmt.Sprintf("[%s] application data delivered", tag), nil, tag)
						}
					}
				}
			}
		}
		c.Sample(fmt.Sprintf("%d requested spellings (host names, case, trailing dot, IPv4/IPv6 literals, bracketed, zone, mapped, empty) x server identities (dNSName only / dNSName+iPAddress / other name) x GMSSL both suites and TLS 1.0/1.1/1.2", len(requestedNames)))
	}}
}
