package c08

import "time"

type timeT = time.Time
