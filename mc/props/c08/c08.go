// Package c08: handshakes complete only with a peer that proves the certified identity
// (DESIGN §3 C08).
package c08

import (
	"bytes"
	stdtls "crypto/tls"
	"fmt"
	"strings"
	"verif/mc/ref/gmref"

	"github.com/tjfoc/gmsm/gmtls"

	"verif/mc/harness"
	"verif/mc/tlsk"
	"verif/mc/wire"
)

var suites = []uint16{gmtls.GMTLS_ECC_SM4_CBC_SM3, gmtls.GMTLS_ECC_SM4_GCM_SM3}

func baseServer(suite uint16, seed byte) *gmtls.Config {
	p := tlsk.Get()
	return &gmtls.Config{GMSupport: &gmtls.GMSupport{}, Certificates: []gmtls.Certificate{p.Sign, p.Enc}, Time: tlsk.FixedTime, Rand: wire.NewRand(seed), CipherSuites: []uint16{suite}}
}

func baseClient(suite uint16, seed byte) *gmtls.Config {
	p := tlsk.Get()
	return &gmtls.Config{GMSupport: &gmtls.GMSupport{}, RootCAs: p.Roots, ServerName: tlsk.ServerName, Time: tlsk.FixedTime, Rand: wire.NewRand(seed), CipherSuites: []uint16{suite}}
}

var app = [2]tlsk.App{{Writes: [][]byte{[]byte("c->s")}, Expect: 4}, {Writes: [][]byte{[]byte("s->c")}, Expect: 4}}

// cloneConfigs: the library endpoints get Config.Clone() of what the unit built (what Dial,
// GetConfigForClient callbacks and credential wrappers hand to the handshake)
var cloneConfigs bool

// cloned re-runs a unit with every library Config passed through Clone().
func cloned(u harness.Unit) harness.Unit {
	return harness.Unit{Name: u.Name + "/configs-through-Clone", Run: func(c *harness.Ctx) {
		cloneConfigs = true
		defer func() { cloneConfigs = false }()
		u.Run(c)
	}}
}

func run(cc, sc *gmtls.Config, pol wire.Policy) *tlsk.Outcome {
	if cloneConfigs {
		cc, sc = cc.Clone(), sc.Clone()
	}
	var cv, sv tlsk.View
	return tlsk.Run(tlsk.GMEnd(cc, true, app[0], &cv, nil), tlsk.GMEnd(sc, false, app[1], &sv, nil), &cv, &sv, pol)
}

// crash reports a panic or hang of the endpoint(s) under test: who = "client", "server" or "both".
func crashOf(c *harness.Ctx, who, key, tag string, o *tlsk.Outcome) bool {
	cp, sp := o.C.Panic, o.S.Panic
	if who == "client" {
		sp = nil
	}
	if who == "server" {
		cp = nil
	}
	if cp == nil && sp == nil && (o.C.Panic != nil || o.S.Panic != nil) {
		return false // the malicious side crashed on its own configuration: not the endpoint under test
	}
	return crash(c, key, tag, o)
}

func crash(c *harness.Ctx, key, tag string, o *tlsk.Outcome) bool {
	if o.C.Panic != nil || o.S.Panic != nil {
		st := o.C.Stack + o.S.Stack
		c.Violate("panic:"+key+":"+site(st), fmt.Sprintf("[%s] endpoint panicked: client=%v server=%v\n%s", tag, o.C.Panic, o.S.Panic, clip(st, 1200)), nil, tag)
		return true
	}
	if len(o.Stuck) > 0 || o.Horizon {
		c.Violate("hang:"+key, fmt.Sprintf("[%s] endpoint still waiting after end of input: %v", tag, o.Stuck), nil, tag)
		return true
	}
	return false
}

func site(st string) string {
	for _, l := range strings.Split(st, "\n") {
		l = strings.TrimSpace(l)
		if strings.HasPrefix(l, "github.com/tjfoc/gmsm/") {
			if i := strings.LastIndex(l, "("); i > 0 {
				l = l[:i]
			}
			return strings.TrimPrefix(l, "github.com/tjfoc/gmsm/")
		}
	}
	return "?"
}

func clip(s string, n int) string {
	if len(s) > n {
		return s[:n]
	}
	return s
}

// ---- (A) malicious peers expressed through configuration ----------------------------------------

type badServer struct {
	name string
	mod  func(p *tlsk.PKI, c *gmtls.Config)
}

func keyed(cert gmtls.Certificate, key interface{}) gmtls.Certificate {
	return gmtls.Certificate{Certificate: cert.Certificate, PrivateKey: key}
}

var badServers = []badServer{
	{"genuine signing certificate, signing key of someone else", func(p *tlsk.PKI, c *gmtls.Config) {
		c.Certificates = []gmtls.Certificate{keyed(p.Sign, p.OtherKey), p.Enc}
	}},
	{"genuine encryption certificate, decryption key of someone else", func(p *tlsk.PKI, c *gmtls.Config) {
		c.Certificates = []gmtls.Certificate{p.Sign, keyed(p.Enc, p.OtherKey)}
	}},
	{"signing certificate from an untrusted CA", func(p *tlsk.PKI, c *gmtls.Config) { c.Certificates = []gmtls.Certificate{p.SignUntrusted, p.Enc} }},
	{"encryption certificate from an untrusted CA", func(p *tlsk.PKI, c *gmtls.Config) { c.Certificates = []gmtls.Certificate{p.Sign, p.EncUntrusted} }},
	{"both certificates from an untrusted CA", func(p *tlsk.PKI, c *gmtls.Config) {
		c.Certificates = []gmtls.Certificate{p.SignUntrusted, p.EncUntrusted}
	}},
	{"expired signing certificate", func(p *tlsk.PKI, c *gmtls.Config) { c.Certificates = []gmtls.Certificate{p.SignExpired, p.Enc} }},
	{"not yet valid signing certificate", func(p *tlsk.PKI, c *gmtls.Config) { c.Certificates = []gmtls.Certificate{p.SignNotYet, p.Enc} }},
	{"signing certificate for another host name", func(p *tlsk.PKI, c *gmtls.Config) { c.Certificates = []gmtls.Certificate{p.SignWrongName, p.Enc} }},
	{"encryption certificate for another host name", func(p *tlsk.PKI, c *gmtls.Config) { c.Certificates = []gmtls.Certificate{p.Sign, p.EncWrongName} }},
	{"signing and encryption certificates swapped", func(p *tlsk.PKI, c *gmtls.Config) { c.Certificates = []gmtls.Certificate{p.Enc, p.Sign} }},
	{"signing certificate without a signature key usage", func(p *tlsk.PKI, c *gmtls.Config) { c.Certificates = []gmtls.Certificate{p.SignNoKU, p.Enc} }},
	{"encryption certificate without an encipherment key usage", func(p *tlsk.PKI, c *gmtls.Config) { c.Certificates = []gmtls.Certificate{p.Sign, p.EncNoKU} }},
	{"the signing certificate twice", func(p *tlsk.PKI, c *gmtls.Config) { c.Certificates = []gmtls.Certificate{p.Sign, p.Sign} }},
	{"RSA certificate as signing certificate", func(p *tlsk.PKI, c *gmtls.Config) { c.Certificates = []gmtls.Certificate{p.RSA, p.Enc} }},
	{"RSA certificate as encryption certificate", func(p *tlsk.PKI, c *gmtls.Config) { c.Certificates = []gmtls.Certificate{p.Sign, p.RSA} }},
	{"identity of another genuine server (other keys, same name) with this server's signing key", func(p *tlsk.PKI, c *gmtls.Config) {
		c.Certificates = []gmtls.Certificate{keyed(p.Sign2, p.SignKey), p.Enc2}
	}},
}

func maliciousServerUnit() harness.Unit {
	return harness.Unit{Name: "malicious-server", Run: func(c *harness.Ctx) {
		p := tlsk.Get()
		for _, suite := range suites {
			// control
			o := run(baseClient(suite, 2), baseServer(suite, 1), nil)
			c.Add("evaluations", 1)
			if !o.C.Complete || !o.S.Complete {
				c.Violate("control-fails:server", fmt.Sprintf("suite %04x: honest pair does not complete: %s", suite, o.Describe()), nil, nil)
				continue
			}
			for _, b := range badServers {
				sc := baseServer(suite, 1)
				b.mod(p, sc)
				tag := fmt.Sprintf("suite=%04x server presents: %s", suite, b.name)
				c.Add("evaluations", 1)
				c.DistinctS("nontrivial", tag)
				o := run(baseClient(suite, 2), sc, nil)
				if crashOf(c, "client", "malicious-server:"+b.name, tag, o) {
					continue
				}
				if o.C.Complete || o.C.HandshakeErr == nil {
					c.Violate("client-accepts:"+b.name, fmt.Sprintf("[%s] the verifying client completed the handshake: %s", tag, o.Describe()), nil, tag)
				}
				if len(o.C.Read) > 0 {
					c.Violate("client-reads-data-from:"+b.name, fmt.Sprintf("[%s] the client delivered application data", tag), nil, tag)
				}
			}
			// verification time: a certificate valid now but not at the configured time
			for _, yr := range []int{2015, 2035} {
				cc := baseClient(suite, 2)
				y := yr
				cc.Time = func() (t timeT) { return tlsk.Now.AddDate(y-2024, 0, 0) }
				tag := fmt.Sprintf("suite=%04x client clock at %d (certificates valid 2020-2030)", suite, yr)
				c.Add("evaluations", 1)
				c.DistinctS("nontrivial", tag)
				o := run(cc, baseServer(suite, 1), nil)
				if !crash(c, "clock", tag, o) && (o.C.Complete || o.C.HandshakeErr == nil) {
					c.Violate("client-accepts:certificate-outside-validity-at-configured-time", fmt.Sprintf("[%s] %s", tag, o.Describe()), nil, tag)
				}
			}
			// requested server name
			for _, name := range []string{"other.example.test", "server.example.test.evil", "127.0.0.2"} {
				cc := baseClient(suite, 2)
				cc.ServerName = name
				tag := fmt.Sprintf("suite=%04x client asks for %q", suite, name)
				c.Add("evaluations", 1)
				c.DistinctS("nontrivial", tag)
				o := run(cc, baseServer(suite, 1), nil)
				if !crash(c, "servername", tag, o) && (o.C.Complete || o.C.HandshakeErr == nil) {
					c.Violate("client-accepts:wrong-server-name", fmt.Sprintf("[%s] %s", tag, o.Describe()), nil, tag)
				}
			}
			// roots: client trusting only another CA
			cc := baseClient(suite, 2)
			cc.RootCAs = p.Roots2
			o = run(cc, baseServer(suite, 1), nil)
			c.Add("evaluations", 1)
			if !crash(c, "roots", "other roots", o) && (o.C.Complete || o.C.HandshakeErr == nil) {
				c.Violate("client-accepts:untrusted-root", fmt.Sprintf("suite %04x: client trusting only CA2 accepted a CA-issued server: %s", suite, o.Describe()), nil, nil)
			}
		}
		c.Sample("16 malicious server identities, 2 clock settings, 3 wrong server names, wrong root pool, for both GMSSL suites against a verifying library client")
	}}
}

type badClient struct {
	name   string
	cert   func(p *tlsk.PKI) gmtls.Certificate
	force  bool // present the certificate even if the CertificateRequest's CA list does not admit it
	accept map[gmtls.ClientAuthType]bool
}

var policies = []gmtls.ClientAuthType{gmtls.NoClientCert, gmtls.RequestClientCert, gmtls.RequireAnyClientCert, gmtls.VerifyClientCertIfGiven, gmtls.RequireAndVerifyClientCert}

func all(v bool) map[gmtls.ClientAuthType]bool {
	m := map[gmtls.ClientAuthType]bool{}
	for _, p := range policies {
		m[p] = v
	}
	return m
}

func verifying(v bool) map[gmtls.ClientAuthType]bool {
	m := all(!v)
	m[gmtls.VerifyClientCertIfGiven] = v
	m[gmtls.RequireAndVerifyClientCert] = v
	return m
}

func maliciousClientUnit() harness.Unit {
	return harness.Unit{Name: "malicious-client", Run: func(c *harness.Ctx) {
		p := tlsk.Get()
		noKeyProof := all(false)
		noKeyProof[gmtls.NoClientCert] = true // certificate never requested, nothing to prove
		bad := []badClient{
			{"trusted certificate with its key (control)", func(p *tlsk.PKI) gmtls.Certificate { return p.Client }, true, all(true)},
			{"certificate not chaining to ClientCAs", func(p *tlsk.PKI) gmtls.Certificate { return p.ClientUntrusted }, true, verifying(false)},
			{"expired certificate", func(p *tlsk.PKI) gmtls.Certificate { return p.ClientExpired }, true, verifying(false)},
			{"certificate without the clientAuth extended key usage", func(p *tlsk.PKI) gmtls.Certificate { return p.ClientServerEKU }, true, verifying(false)},
			{"genuine certificate, CertificateVerify made with another key", func(p *tlsk.PKI) gmtls.Certificate { return keyed(p.Client, p.OtherKey) }, true, noKeyProof},
		}
		// outer: -1 = the server Config is used directly; otherwise it is handed out by
		// GetConfigForClient of an outer Config whose own ClientAuth is the given (other) policy - the
		// policy in force is the one of the Config that serves the connection
		outers := []int{-1, int(gmtls.NoClientCert), int(gmtls.RequestClientCert), int(gmtls.RequireAndVerifyClientCert)}
		via := func(sc *gmtls.Config, suite uint16, outer int) *gmtls.Config {
			if outer < 0 {
				return sc
			}
			oc := baseServer(suite, 3)
			oc.ClientAuth = gmtls.ClientAuthType(outer)
			oc.ClientCAs = p.Roots
			oc.GetConfigForClient = func(*gmtls.ClientHelloInfo) (*gmtls.Config, error) { return sc, nil }
			return oc
		}
		for _, suite := range suites {
			for _, outer := range outers {
				for _, pol := range policies {
					for _, b := range bad {
						sc := baseServer(suite, 1)
						sc.ClientAuth = pol
						sc.ClientCAs = p.Roots
						cc := baseClient(suite, 2)
						crt := b.cert(p)
						if b.force {
							cc.GetClientCertificate = func(*gmtls.CertificateRequestInfo) (*gmtls.Certificate, error) { return &crt, nil }
						} else {
							cc.Certificates = []gmtls.Certificate{crt}
						}
						tag := fmt.Sprintf("suite=%04x ClientAuth=%d (outer Config: %d) client presents: %s", suite, pol, outer, b.name)
						c.Add("evaluations", 1)
						c.DistinctS("nontrivial", tag)
						o := run(cc, via(sc, suite, outer), nil)
						if crashOf(c, "server", "malicious-client:"+b.name, tag, o) {
							continue
						}
						want := b.accept[pol]
						if want && !(o.S.Complete && o.C.Complete) {
							c.Violate(fmt.Sprintf("server-rejects-acceptable-client:policy%d:%s", pol, b.name), fmt.Sprintf("[%s] the policy admits this client but the handshake failed: %s", tag, o.Describe()), nil, tag)
						}
						if !want && (o.S.Complete || o.S.HandshakeErr == nil) {
							c.Violate(fmt.Sprintf("server-accepts:policy%d:%s", pol, b.name), fmt.Sprintf("[%s] the server completed the handshake: %s", tag, o.Describe()), nil, tag)
						}
						if !want && len(o.S.Read) > 0 {
							c.Violate("server-reads-data-from:"+b.name, fmt.Sprintf("[%s] the server delivered application data", tag), nil, tag)
						}
					}
					// no certificate at all
					sc := baseServer(suite, 1)
					sc.ClientAuth, sc.ClientCAs = pol, p.Roots
					o := run(baseClient(suite, 2), via(sc, suite, outer), nil)
					tag := fmt.Sprintf("suite=%04x ClientAuth=%d (outer Config: %d) client presents no certificate", suite, pol, outer)
					c.Add("evaluations", 1)
					c.DistinctS("nontrivial", tag)
					if crash(c, "no-client-cert", tag, o) {
						continue
					}
					require := pol == gmtls.RequireAnyClientCert || pol == gmtls.RequireAndVerifyClientCert
					if require && (o.S.Complete || o.S.HandshakeErr == nil) {
						c.Violate(fmt.Sprintf("server-accepts:policy%d:no certificate", pol), fmt.Sprintf("[%s] %s", tag, o.Describe()), nil, tag)
					}
					if !require && !(o.S.Complete && o.C.Complete) {
						c.Violate(fmt.Sprintf("server-rejects-acceptable-client:policy%d:no certificate", pol), fmt.Sprintf("[%s] %s", tag, o.Describe()), nil, tag)
					}
				}
			}
		}
		c.Sample("5 client identities + no certificate x 5 ClientAuth policies x {Config used directly, handed out by GetConfigForClient of an outer Config with policy none / request / require-and-verify} x 2 suites against a library server; acceptance predicted per policy")
	}}
}

// ---- (B) man in the middle on plaintext handshake messages ------------------------------------------

type mitmCase struct {
	fromClient bool
	index      int
	name       string
	edit       func(msg []byte) [][]byte
}

func msgName(t byte) string {
	return map[byte]string{1: "ClientHello", 2: "ServerHello", 4: "NewSessionTicket", 11: "Certificate", 12: "ServerKeyExchange", 13: "CertificateRequest", 14: "ServerHelloDone", 15: "CertificateVerify", 16: "ClientKeyExchange", 20: "Finished"}[t]
}

// judgeMITM: at least one side aborts; never both complete with different views.
func judgeMITM(c *harness.Ctx, tag, key string, o *tlsk.Outcome) {
	if crash(c, "mitm:"+key, tag, o) {
		return
	}
	if o.C.Complete && o.S.Complete {
		same := o.C.Version == o.S.Version && o.C.Suite == o.S.Suite && bytes.Equal(o.C.EKM, o.S.EKM)
		if !same {
			c.Violate("mitm-both-complete-different-views:"+key, fmt.Sprintf("[%s] both sides completed with different views: %s", tag, o.Describe()), nil, tag)
		} else {
			c.Violate("mitm-undetected:"+key, fmt.Sprintf("[%s] a handshake message was modified in transit and both sides completed: %s", tag, o.Describe()), nil, tag)
		}
	}
}

func mitmUnit(suite uint16, mutual bool) harness.Unit {
	return harness.Unit{Name: fmt.Sprintf("mitm/%04x/mutual=%v", suite, mutual), Run: func(c *harness.Ctx) {
		p := tlsk.Get()
		mk := func(seedS, seedC byte) (*gmtls.Config, *gmtls.Config) {
			sc, cc := baseServer(suite, seedS), baseClient(suite, seedC)
			if mutual {
				sc.ClientAuth, sc.ClientCAs = gmtls.RequireAndVerifyClientCert, p.Roots
				cc.Certificates = []gmtls.Certificate{p.Client}
			}
			return cc, sc
		}
		// reference session and a second session (other randomness) for splicing
		ed := &wire.HSEditor{}
		cc, sc := mk(1, 2)
		o := run(cc, sc, ed)
		if !o.C.Complete || !o.S.Complete {
			c.Violate("control-fails:mitm", o.Describe(), nil, nil)
			return
		}
		other := &wire.HSEditor{}
		cc2, sc2 := mk(41, 42)
		run(cc2, sc2, other)
		msgs := ed.Msgs
		for d := 0; d < 2; d++ {
			for i, m := range msgs[d] {
				fromClient := d == 0
				nm := fmt.Sprintf("%s#%d(%s)", map[bool]string{true: "client", false: "server"}[fromClient], i, msgName(m[0]))
				var cases []mitmCase
				// every byte of the message: one bit flipped (thorough: low and high bit)
				for b := 0; b < len(m); b++ {
					for _, mask := range []byte{0x01, 0x80} {
						if mask == 0x80 && !c.Thorough() && b%8 != 0 {
							continue
						}
						bb, mm := b, mask
						cases = append(cases, mitmCase{fromClient, i, fmt.Sprintf("byte %d ^= %02x", bb, mm), func(x []byte) [][]byte {
							y := append([]byte{}, x...)
							y[bb] ^= mm
							return [][]byte{y}
						}})
					}
				}
				cases = append(cases,
					mitmCase{fromClient, i, "dropped", func(x []byte) [][]byte { return nil }},
					mitmCase{fromClient, i, "duplicated", func(x []byte) [][]byte { return [][]byte{x, x} }},
					mitmCase{fromClient, i, "truncated by one byte (length fixed)", func(x []byte) [][]byte {
						if len(x) <= 4 {
							return [][]byte{x}
						}
						y := append([]byte{}, x[:len(x)-1]...)
						l := len(y) - 4
						y[1], y[2], y[3] = byte(l>>16), byte(l>>8), byte(l)
						return [][]byte{y}
					}},
				)
				if i < len(other.Msgs[d]) && other.Msgs[d][i][0] == m[0] && !bytes.Equal(other.Msgs[d][i], m) {
					sp := other.Msgs[d][i]
					cases = append(cases, mitmCase{fromClient, i, "replaced by the same message of another session", func(x []byte) [][]byte { return [][]byte{sp} }})
				}
				if i+1 < len(msgs[d]) {
					nx := msgs[d][i+1]
					cases = append(cases, mitmCase{fromClient, i, "sent after the following message", func(x []byte) [][]byte { return [][]byte{nx, x} }})
				}
				for _, mc := range cases {
					mc := mc
					skipNext := false
					e := &wire.HSEditor{Edit: func(fc bool, idx int, msg []byte) [][]byte {
						if fc == mc.fromClient && idx == mc.index {
							if mc.name == "sent after the following message" {
								skipNext = true
							}
							return mc.edit(msg)
						}
						if skipNext && fc == mc.fromClient && idx == mc.index+1 {
							skipNext = false
							return nil
						}
						return [][]byte{msg}
					}}
					if r := mc.edit(m); len(r) == 1 && bytes.Equal(r[0], m) {
						continue // the edit does not change this message
					}
					cc, sc := mk(1, 2)
					tag := fmt.Sprintf("suite=%04x mutual=%v %s %s", suite, mutual, nm, mc.name)
					c.Add("evaluations", 1)
					c.DistinctS("nontrivial", tag)
					o := run(cc, sc, e)
					cls := "bitflip"
					if !strings.HasPrefix(mc.name, "byte ") {
						cls = mc.name
					}
					judgeMITM(c, tag, fmt.Sprintf("%s:%s", msgName(m[0]), cls), o)
				}
				if c.WantSample() {
					c.Sample(fmt.Sprintf("suite %04x mutual=%v: %s (%d bytes): every byte flipped, dropped, duplicated, truncated, spliced from another session, reordered", suite, mutual, nm, len(m)))
				}
			}
		}
	}}
}

// tlsMitmUnit: the same on the TLS 1.2 path with Go's crypto/tls as the honest peer.
func tlsMitmUnit(libIsClient bool) harness.Unit {
	return harness.Unit{Name: fmt.Sprintf("mitm-tls12/libraryIsClient=%v", libIsClient), Run: func(c *harness.Ctx) {
		p := tlsk.Get()
		session := func(pol wire.Policy) *tlsk.Outcome {
			var cv, sv tlsk.View
			if libIsClient {
				cc := &gmtls.Config{RootCAs: p.StdRootsG, ServerName: tlsk.ServerName, Time: tlsk.FixedTime, Rand: wire.NewRand(2), MinVersion: 0x0303, MaxVersion: 0x0303}
				sc := &stdtls.Config{Certificates: []stdtls.Certificate{{Certificate: p.ECDSA.Certificate, PrivateKey: p.ECDSA.PrivateKey}}, Time: tlsk.FixedTime, MaxVersion: stdtls.VersionTLS12, Rand: wire.NewRand(1)}
				return tlsk.Run(tlsk.GMEnd(cc, true, app[0], &cv, nil), tlsk.StdEnd(sc, false, app[1], &sv), &cv, &sv, pol)
			}
			cc := &stdtls.Config{RootCAs: p.StdRoots, ServerName: tlsk.ServerName, Time: tlsk.FixedTime, MaxVersion: stdtls.VersionTLS12, Rand: wire.NewRand(2)}
			sc := &gmtls.Config{Certificates: []gmtls.Certificate{p.ECDSA}, Time: tlsk.FixedTime, Rand: wire.NewRand(1)}
			return tlsk.Run(tlsk.StdEnd(cc, true, app[0], &cv), tlsk.GMEnd(sc, false, app[1], &sv, nil), &cv, &sv, pol)
		}
		ed := &wire.HSEditor{}
		o := session(ed)
		if !o.C.Complete || !o.S.Complete {
			c.Violate("control-fails:mitm-tls", o.Describe(), nil, nil)
			return
		}
		for d := 0; d < 2; d++ {
			for i, m := range ed.Msgs[d] {
				for b := 0; b < len(m); b++ {
					if !c.Thorough() && b%2 == 1 && len(m) > 200 {
						continue
					}
					bb, dd, ii := b, d, i
					e := &wire.HSEditor{Edit: func(fc bool, idx int, msg []byte) [][]byte {
						if (fc == (dd == 0)) && idx == ii {
							y := append([]byte{}, msg...)
							k := bb
							if k >= len(y) { // signature lengths vary between sessions of the standard library peer
								k = len(y) - 1
							}
							y[k] ^= 0x01
							return [][]byte{y}
						}
						return [][]byte{msg}
					}}
					tag := fmt.Sprintf("TLS1.2 libraryIsClient=%v %s#%d(%s) byte %d ^= 01", libIsClient, map[int]string{0: "client", 1: "server"}[d], i, msgName(m[0]), b)
					c.Add("evaluations", 1)
					c.DistinctS("nontrivial", tag)
					o := session(e)
					if crash(c, "mitm-tls", tag, o) {
						continue
					}
					lib := o.C
					if !libIsClient {
						lib = o.S
					}
					_ = lib
					if o.C.Complete && o.S.Complete {
						c.Violate("mitm-undetected:tls12:"+msgName(m[0]), fmt.Sprintf("[%s] both sides completed: %s", tag, o.Describe()), nil, tag)
					}
				}
			}
		}
		c.Sample(fmt.Sprintf("TLS 1.2 with crypto/tls as honest peer (library is client=%v): every byte of every plaintext handshake message flipped", libIsClient))
	}}
}

// cacheHistoryUnit: a verifying client with a session cache (capacity 1..2) talks to two servers
// with DIFFERENT certified names; every history of connect(name i, server j) up to the depth bound.
// Whatever was cached, evicted or resumed before, a connection completes exactly when the answering
// server's certificates are valid for the requested name (i == j): resumption must never stand in
// for verification of another identity.
func cacheHistoryUnit(capacity, depth int) harness.Unit { return cacheHistoryUnitS(capacity, depth, 0) }

// spelling: how the application writes the two host names (0 lower case, 1 both in mixed case,
// 2 the first in mixed case only, 3 two spellings of the FIRST host)
func cacheHistoryUnitS(capacity, depth, spelling int) harness.Unit {
	name := fmt.Sprintf("client-cache-histories/cap%d/depth%d", capacity, depth)
	if spelling != 0 {
		name += fmt.Sprintf("/spelling%d", spelling)
	}
	return harness.Unit{Name: name, Run: func(c *harness.Ctx) {
		p := tlsk.Get()
		names := [][]string{{tlsk.ServerName, "other.example.test"}, {"Server.Example.Test", "Other.Example.Test"}, {"Server.Example.Test", "other.example.test"}, {"Server.Example.Test", "SERVER.example.test"}}[spelling]
		host := []int{0, 1}
		if spelling == 3 {
			host = []int{0, 0}
		}
		mkServers := func() []*gmtls.Config {
			var out []*gmtls.Config
			for j, certs := range [][]gmtls.Certificate{{p.Sign, p.Enc}, {p.SignWrongName, p.EncWrongName}} {
				sc := &gmtls.Config{GMSupport: &gmtls.GMSupport{}, Certificates: certs, Time: tlsk.FixedTime, Rand: wire.NewRand(byte(70 + j)),
					CipherSuites: []uint16{gmtls.GMTLS_ECC_SM4_CBC_SM3, gmtls.GMTLS_ECC_SM4_GCM_SM3}}
				sc.SetSessionTicketKeys([][32]byte{{byte(40 + j)}})
				out = append(out, sc)
			}
			return out
		}
		total := 1
		for i := 0; i < depth; i++ {
			total *= 4
		}
		for code := 0; code < total; code++ {
			servers := mkServers()
			cache := gmtls.NewLRUClientSessionCache(capacity)
			hist := ""
			c.Add("evaluations", 1)
			c.DistinctS("nontrivial", fmt.Sprintf("cache-history/%d/%d/%d", capacity, spelling, code))
			for x, i := code, 0; i < depth; i, x = i+1, x/4 {
				ni, sj := x%2, (x/2)%2
				if i > 0 {
					hist += "; "
				}
				hist += fmt.Sprintf("connect(%q, server %d)", names[ni], sj)
				cc := &gmtls.Config{GMSupport: &gmtls.GMSupport{}, RootCAs: p.Roots, ServerName: names[ni], Time: tlsk.FixedTime, Rand: wire.NewRand(byte(80 + i)), ClientSessionCache: cache}
				o := run(cc, servers[sj], nil)
				tag := fmt.Sprintf("client cache capacity %d, history [%s]", capacity, hist)
				if crashOf(c, "both", "client-cache-history", tag, o) {
					break
				}
				want := host[ni] == sj
				if o.C.Complete != want {
					if want {
						c.Violate("cache-history:genuine-server-refused", fmt.Sprintf("[%s] the last connection fails although the server is certified for the requested name: %s", tag, o.Describe()), nil, tag)
					} else {
						c.Violate("cache-history:accepts-server-certified-for-another-name", fmt.Sprintf("[%s] the client completes (resumed=%v) with a server that is certified for another name only: %s", tag, o.C.DidResume, o.Describe()), nil, tag)
					}
					break
				}
			}
		}
		c.Sample(fmt.Sprintf("every history of %d connect(name i, server j) steps with a client session cache of capacity %d", depth, capacity))
	}}
}

// Prop registers C08.
var Prop = &harness.Prop{
	ID:          "C08",
	Level:       "fault_enumeration",
	Rule:        "attacker catalogue applied exhaustively: (A) malicious peers expressed through configuration - 16 server identities (wrong signing key, wrong decryption key, untrusted/expired/not-yet-valid/wrong-name/wrong-usage/swapped/duplicated/RSA certificates, another server's identity), client clock and requested-name variations, wrong root pool, against a verifying library client; 5 client identities (untrusted, expired, wrong EKU, CertificateVerify by another key, server certificate) and no certificate x 5 ClientAuth policies against a library server, acceptance predicted per policy; both GMSSL suites. (B) man in the middle between two honest library endpoints (server-only and mutual authentication, both suites): at EVERY plaintext handshake message of both directions every byte flipped, the message dropped, duplicated, truncated, replaced by the same message of another session, reordered with its successor; the same byte flips on TLS 1.2 with Go's crypto/tls as the honest peer in each role. (C) a keyed scripted peer (gmref) that computes Finished over the transcript that really happened, so only the identity proof is wrong: as server against a verifying library client - ServerKeyExchange omitted (with and without the signing key), signed with the encryption key / an unrelated key / d=1, over swapped or foreign randoms, over the signing or a foreign encryption certificate, without the length prefix, without Z_A, r=0, empty, trailing byte; guessed pre-master secret; untrusted/expired/wrong-name certificates with their keys; one certificate, duplicated, swapped; 18 wrong Finished values (each byte, other label, 11/13/0 bytes, shorter transcripts); as client against a library server under each ClientAuth policy - CertificateVerify omitted, by other keys, over other transcripts, malformed; untrusted/expired/wrong-EKU certificates with valid proofs; pre-master secrets of 47/49/1 bytes or encrypted to the signing key; the same Finished cases. Oracle: the attacked endpoint aborts; never both complete; genuine identities (controls) complete. On the standard TLS path (1.2 with both AES suites, 1.1 and 1.0 with AES-CBC) the same reference peer in its RSA-key-exchange profiles, including a CertificateVerify replayed verbatim from an earlier session: 30 scripted-client proofs (CertificateVerify omitted / by other keys / over other transcripts / with changed algorithm bytes, certificate lists, untrusted certificates, 18 wrong Finished values) under each requesting ClientAuth policy, and scripted servers without the private key, with certificates of another key type, and with wrong Finished values. TLS 1.2 ECDHE (P-256, RSA- and ECDSA-signed) with the reference peer: ServerKeyExchange omitted / signed by another key / over other randoms or another point / with a mislabelled hash / unsigned; ephemeral points off the curve, all-zero, 'infinity', compressed, on a mislabelled curve, with explicit parameters; client key shares off the curve, zero, compressed, truncated, extended, mis-sized, non-reduced. Client-cache histories: a verifying client with a session cache of capacity 1 and 2 and two servers certified for different names, every history of connect(name i, server j) to depth 4 (thorough 5): completion exactly when the answering server is certified for the requested name. Pairs: for every ordered pair (A,B) of scripted-server cases, A then B against ONE client Config: B's verdict must equal B's verdict on a fresh Config (nothing a previous peer did may change whom the client trusts); likewise all ordered pairs of scripted-client cases on one server Config (RequireAndVerifyClientCert; thorough: every requesting policy). Distinct/non-trivial = distinct case labels. Added: requested name x certified names (25 spellings incl. IP literals, brackets, zone, trailing dot, case; GMSSL and TLS 1.0-1.2) against an independent matching rule; VerifyPeerCertificate / InsecureSkipVerify matrix on both sides (completion, consultation, certificates shown, verified chains); the configuration-level units again with every Config passed through Clone(); Listen / Dial / DialWithDialer over the loopback interface (name from the address, clock after expiry, caller's Config unchanged); identity across renegotiation (11 wrong renegotiation_info contents, 8 identity changes, first and second renegotiation, the client's own renegotiation_info); ticket-then-untrusted-identity on TLS and GMSSL; cache histories with mixed-case names; client-cache trust histories: one session cache, every history over {connect, server drops its ticket key, client clock past the certificates' validity, client root pool without the server's CA} (GMSSL with listed / default suites, TLS 1.2): a full handshake must verify the presented certificates against the settings in force now; the configured time as the only clock (one certificate valid only around the machine's clock, Config.Time a year away: five positions); nested sessions on one client Config (an impostor's complete session before every record of a genuine one and vice versa); ticket laundering (a keyless attacker offers the victim's ticket in a hello that forces a full handshake without certificate and resumes the ticket issued there: never the victim's identity); the ClientAuth policy x identity matrix also with the server Config handed out by GetConfigForClient of an outer Config with another policy.",
	Assumptions: []string{"the scripted peer is the independent reference implementation gmref (own codecs, PRF, SM2/SM3/SM4 from the reference packages); its honest flows are validated against the library in both roles by the control cases of every unit"},
	Bounds: func(tier string) string {
		if tier == "thorough" {
			return "both bit masks (01, 80) at every byte of every message"
		}
		return "mask 01 at every byte, mask 80 at every 8th byte; TLS: every byte of short messages, every 2nd byte of messages over 200 bytes"
	},
	Units: func(tier string) []harness.Unit {
		u := []harness.Unit{maliciousServerUnit(), maliciousClientUnit(), cloned(maliciousServerUnit()), cloned(maliciousClientUnit()), cloned(nameMatrixUnit()), cloned(callbackUnit())}
		for _, s := range suites {
			u = append(u, mitmUnit(s, false), mitmUnit(s, true))
		}
		u = append(u, tlsMitmUnit(true), tlsMitmUnit(false))
		for _, ts := range []uint16{gmref.SuiteAESCBC, gmref.SuiteAESGCM} {
			u = append(u, tlsRefClientUnit(ts, 0x0303), tlsRefServerUnit(ts, 0x0303))
		}
		for _, v := range []uint16{0x0301, 0x0302} {
			u = append(u, tlsRefClientUnit(gmref.SuiteAESCBC, v), tlsRefServerUnit(gmref.SuiteAESCBC, v))
		}
		for _, es := range []uint16{gmref.SuiteECDHERSAGCM, gmref.SuiteECDHEECDSAGCM} {
			u = append(u, ecdheUnit(es, true), ecdheUnit(es, false))
		}
		u = append(u, nestedImpostorUnit(suites[0]), nestedImpostorUnit(suites[1]), configuredClockUnit())
		u = append(u, tlsTicketIdentityUnit(), gmTicketIdentityUnit(), ticketLaunderingUnit(), nameMatrixUnit(), callbackUnit(), dialUnit(),
			renegIdentityUnit(gmref.SuiteAESCBC, 0x0303), renegIdentityUnit(gmref.SuiteAESGCM, 0x0303), renegIdentityUnit(gmref.SuiteAESCBC, 0x0301), renegIdentityUnit(gmref.SuiteECDHEECDSAGCM, 0x0303), renegIdentityUnit(gmref.SuiteECDHERSAGCM, 0x0303))
		chd := 4
		if tier == "thorough" {
			chd = 5
		}
		u = append(u, cacheHistoryUnit(1, chd), cacheHistoryUnit(2, chd))
		for fl := 0; fl < 3; fl++ {
			u = append(u, trustHistoryUnit(fl, chd))
		}
		for sp := 1; sp <= 3; sp++ {
			u = append(u, cacheHistoryUnitS(1, chd, sp), cacheHistoryUnitS(2, chd-1, sp))
		}
		for _, s := range suites {
			u = append(u, refServerUnit(s), refClientUnit(s))
			for p := 0; p < 8; p++ {
				u = append(u, refServerPairUnit(s, p, 8))
			}
			cpol := []gmtls.ClientAuthType{gmtls.RequireAndVerifyClientCert}
			if tier == "thorough" {
				cpol = []gmtls.ClientAuthType{gmtls.RequestClientCert, gmtls.RequireAnyClientCert, gmtls.VerifyClientCertIfGiven, gmtls.RequireAndVerifyClientCert}
			}
			for _, pol := range cpol {
				for p := 0; p < 8; p++ {
					u = append(u, refClientPairUnit(s, pol, p, 8))
				}
			}
		}
		return u
	},
}
