package c08

import (
	"bytes"
	"errors"
	"fmt"

	"github.com/tjfoc/gmsm/gmtls"
	gx509 "github.com/tjfoc/gmsm/x509"

	"verif/mc/harness"
	"verif/mc/tlsk"
	"verif/mc/wire"
)

// ---- application-level verification: VerifyPeerCertificate and InsecureSkipVerify -----------------
//
// An application may replace or extend the built-in verification: InsecureSkipVerify turns the
// built-in chain and name check off, VerifyPeerCertificate sees the peer's certificates (and the
// verified chains, when there are any) and has the last word. The identity the handshake accepts is
// then whatever this combination admits - and nothing else: a rejecting callback must end the
// handshake on that side for every peer identity and every policy, a handshake that completes with
// peer certificates must have shown exactly those certificates to the callback, and verified chains
// are handed over exactly when the built-in verification ran and succeeded.

type cbRecord struct {
	calls    int
	raw      [][]byte
	verified int
}

func cbFunc(rec *cbRecord, reject bool) func([][]byte, [][]*gx509.Certificate) error {
	return func(raw [][]byte, chains [][]*gx509.Certificate) error {
		rec.calls++
		rec.raw = append([][]byte{}, raw...)
		rec.verified = len(chains)
		if reject {
			return errors.New("application rejects this peer")
		}
		return nil
	}
}

type cbPath struct {
	label  string
	gm     bool
	client func(seed byte) *gmtls.Config
	server func(id int, seed byte) (*gmtls.Config, string, bool) // identity label, genuine
	ids    int
	// client certificates: 0 none, 1 trusted, 2 untrusted
	clientCert func(k int) []gmtls.Certificate
	clientCAs  *gx509.CertPool
}

func cbPaths() []cbPath {
	p := tlsk.Get()
	out := []cbPath{{
		label: "GMSSL", gm: true,
		client: func(seed byte) *gmtls.Config { return baseClient(suites[0], seed) },
		server: func(id int, seed byte) (*gmtls.Config, string, bool) {
			sc := baseServer(suites[0], seed)
			switch id {
			case 1:
				sc.Certificates = []gmtls.Certificate{p.SignUntrusted, p.EncUntrusted}
				return sc, "SM2 pair from an untrusted CA", false
			case 2:
				sc.Certificates = []gmtls.Certificate{p.SignWrongName, p.EncWrongName}
				return sc, "SM2 pair for another host name", false
			}
			return sc, "genuine SM2 pair", true
		},
		ids: 3,
		clientCert: func(k int) []gmtls.Certificate {
			return [][]gmtls.Certificate{nil, {p.Client}, {p.ClientUntrusted}}[k]
		},
		clientCAs: p.Roots,
	}}
	for _, v := range []uint16{0x0301, 0x0303} {
		ver := v
		out = append(out, cbPath{
			label: fmt.Sprintf("TLS %04x", ver),
			client: func(seed byte) *gmtls.Config {
				return &gmtls.Config{RootCAs: p.StdRootsG, ServerName: tlsk.ServerName, Time: tlsk.FixedTime, Rand: wire.NewRand(seed), MinVersion: ver, MaxVersion: ver}
			},
			server: func(id int, seed byte) (*gmtls.Config, string, bool) {
				sc := &gmtls.Config{Time: tlsk.FixedTime, Rand: wire.NewRand(seed), MinVersion: ver, MaxVersion: ver, Certificates: []gmtls.Certificate{p.ECDSA}}
				switch id {
				case 1:
					sc.Certificates = []gmtls.Certificate{p.StdClientUntrusted}
					return sc, "ECDSA leaf from an untrusted CA", false
				case 2:
					sc.Certificates = []gmtls.Certificate{p.StdServerCert([]string{"other.example.test"}, false)}
					return sc, "ECDSA leaf for another host name", false
				}
				return sc, "genuine ECDSA leaf", true
			},
			ids: 3,
			clientCert: func(k int) []gmtls.Certificate {
				return [][]gmtls.Certificate{nil, {p.StdClient}, {p.StdClientUntrusted}}[k]
			},
			clientCAs: p.StdRootsG,
		})
	}
	return out
}

func callbackUnit() harness.Unit {
	return harness.Unit{Name: "application-verification-callbacks", Run: func(c *harness.Ctx) {
		modes := []string{"no callback", "accepting callback", "rejecting callback"}
		for _, cp := range cbPaths() {
			// client side: server identity x InsecureSkipVerify x callback
			for id := 0; id < cp.ids; id++ {
				for _, skip := range []bool{false, true} {
					for mi, mode := range modes {
						sc, idLabel, genuine := cp.server(id, 1)
						cc := cp.client(2)
						cc.InsecureSkipVerify = skip
						rec := &cbRecord{}
						if mi > 0 {
							cc.VerifyPeerCertificate = cbFunc(rec, mi == 2)
						}
						o := run(cc, sc, nil)
						tag := fmt.Sprintf("%s client, InsecureSkipVerify=%v, %s; server presents %s", cp.label, skip, mode, idLabel)
						key := fmt.Sprintf("%s:skip=%v:%s:%s", cp.label, skip, mode, idLabel)
						c.Add("evaluations", 1)
						c.DistinctS("nontrivial", tag)
						if crash(c, "client-callback", tag, o) {
							continue
						}
						want := (skip || genuine) && mi != 2
						if want && !(o.C.Complete && o.S.Complete) {
							c.Violate("client-callback:admitted-peer-refused:"+key, fmt.Sprintf("[%s] the configured verification admits this server but the handshake failed: %s", tag, o.Describe()), nil, tag)
						}
						if !want && (o.C.Complete || o.C.HandshakeErr == nil) {
							c.Violate("client-accepts:application-verification:"+key, fmt.Sprintf("[%s] the configured verification does not admit this server, yet the client completed: %s", tag, o.Describe()), nil, tag)
						}
						if !want && len(o.C.Read) > 0 {
							c.Violate("client-reads-data:application-verification:"+key, fmt.Sprintf("[%s] application data delivered", tag), nil, tag)
						}
						if mi > 0 && o.C.Complete {
							if rec.calls != 1 {
								c.Violate("client-callback:not-consulted:"+key, fmt.Sprintf("[%s] the handshake completed and VerifyPeerCertificate was called %d times", tag, rec.calls), nil, tag)
							} else {
								if len(rec.raw) != len(o.C.PeerCerts) {
									c.Violate("client-callback:other-certificates:"+key, fmt.Sprintf("[%s] the callback saw %d certificates, the connection reports %d", tag, len(rec.raw), len(o.C.PeerCerts)), nil, tag)
								}
								for i := range rec.raw {
									if i < len(o.C.PeerCerts) && !bytes.Equal(rec.raw[i], o.C.PeerCerts[i]) {
										c.Violate("client-callback:other-certificates:"+key, fmt.Sprintf("[%s] certificate %d shown to the callback is not the connection's peer certificate", tag, i), nil, tag)
									}
								}
								if (rec.verified > 0) != !skip {
									c.Violate("client-callback:verified-chains:"+key, fmt.Sprintf("[%s] the callback received %d verified chains with InsecureSkipVerify=%v", tag, rec.verified, skip), nil, tag)
								}
							}
						}
						if mi > 0 && !skip && !genuine && rec.calls > 0 && rec.verified > 0 {
							c.Violate("client-callback:verified-chains-for-unverifiable-peer:"+key, fmt.Sprintf("[%s] verified chains handed to the callback for a peer that does not verify", tag), nil, tag)
						}
					}
				}
			}
			// server side: policy x client certificate x callback
			for _, pol := range []gmtls.ClientAuthType{gmtls.RequestClientCert, gmtls.RequireAnyClientCert, gmtls.VerifyClientCertIfGiven, gmtls.RequireAndVerifyClientCert} {
				for k := 0; k < 3; k++ {
					for mi, mode := range modes {
						sc, _, _ := cp.server(0, 1)
						sc.ClientAuth, sc.ClientCAs = pol, cp.clientCAs
						cc := cp.client(2)
						if crt := cp.clientCert(k); crt != nil {
							// the application insists on this certificate whatever the server names
							first := crt[0]
							cc.GetClientCertificate = func(*gmtls.CertificateRequestInfo) (*gmtls.Certificate, error) { return &first, nil }
						}
						rec := &cbRecord{}
						if mi > 0 {
							sc.VerifyPeerCertificate = cbFunc(rec, mi == 2)
						}
						o := run(cc, sc, nil)
						what := []string{"no certificate", "a trusted certificate", "an untrusted certificate"}[k]
						tag := fmt.Sprintf("%s server, ClientAuth=%d, %s; client presents %s", cp.label, pol, mode, what)
						key := fmt.Sprintf("%s:auth=%d:%s:%s", cp.label, pol, mode, what)
						c.Add("evaluations", 1)
						c.DistinctS("nontrivial", tag)
						if crashOf(c, "server", "server-callback", tag, o) {
							continue
						}
						admits := true
						switch pol {
						case gmtls.RequireAnyClientCert:
							admits = k != 0
						case gmtls.VerifyClientCertIfGiven:
							admits = k != 2
						case gmtls.RequireAndVerifyClientCert:
							admits = k == 1
						}
						switch {
						case !admits || (mi == 2 && k != 0):
							if o.S.Complete || o.S.HandshakeErr == nil {
								c.Violate("server-accepts:application-verification:"+key, fmt.Sprintf("[%s] policy and callback do not admit this client, yet the server completed: %s", tag, o.Describe()), nil, tag)
							}
							if len(o.S.Read) > 0 {
								c.Violate("server-reads-data:application-verification:"+key, fmt.Sprintf("[%s] application data delivered", tag), nil, tag)
							}
						case mi != 2:
							if !(o.S.Complete && o.C.Complete) {
								c.Violate("server-callback:admitted-peer-refused:"+key, fmt.Sprintf("[%s] policy and callback admit this client but the handshake failed: %s", tag, o.Describe()), nil, tag)
							}
						}
						if mi > 0 && o.S.Complete && len(o.S.PeerCerts) > 0 {
							if rec.calls != 1 || len(rec.raw) != len(o.S.PeerCerts) || !bytes.Equal(rec.raw[0], o.S.PeerCerts[0]) {
								c.Violate("server-callback:not-consulted:"+key, fmt.Sprintf("[%s] the server completed with a client certificate the callback was not shown (calls=%d, certificates shown=%d)", tag, rec.calls, len(rec.raw)), nil, tag)
							}
							if (rec.verified > 0) != (pol >= gmtls.VerifyClientCertIfGiven) {
								c.Violate("server-callback:verified-chains:"+key, fmt.Sprintf("[%s] the callback received %d verified chains under ClientAuth=%d", tag, rec.verified, pol), nil, tag)
							}
						}
					}
				}
			}
		}
		c.Sample("GMSSL, TLS 1.0, TLS 1.2: client side 3 server identities x InsecureSkipVerify x {no, accepting, rejecting} VerifyPeerCertificate; server side 4 policies x {no, trusted, untrusted} client certificate x the same callbacks; completion, callback consultation, certificates shown and verified chains predicted")
	}}
}
