package c05

import (
	"encoding/hex"
	"fmt"
	"strings"

	"github.com/tjfoc/gmsm/sm4"

	"verif/mc/harness"
	"verif/mc/ref/refsm4"
)

// ---- the first cipher objects of a process ------------------------------------------------------
//
// "The result for a block does not depend on which blocks the same cipher object processed before"
// has a process-wide counterpart: it must not depend on which KEYS the process expanded before, nor
// on there having been none. Package-level state of the library cannot be reset from inside a
// process, so every sequence of up to two (operation, key) steps over a small key alphabet runs as
// the first library activity of a fresh process (harness.FreshProcess).

func init() {
	harness.RegisterProbe("sm4-seq", func(args []string) string {
		var out []string
		for _, a := range args {
			f := strings.Split(a, ":")
			key, _ := hex.DecodeString(f[1])
			blk, _ := hex.DecodeString(f[2])
			b, err := sm4.NewCipher(key)
			if err != nil {
				out = append(out, "error")
				continue
			}
			o := make([]byte, 16)
			if f[0] == "E" {
				b.Encrypt(o, blk)
			} else {
				b.Decrypt(o, blk)
			}
			out = append(out, hex.EncodeToString(o))
		}
		return strings.Join(out, ",")
	})
}

func freshKeys() [][]byte {
	ff := make([]byte, 16)
	for i := range ff {
		ff[i] = 0xff
	}
	lo, hi := make([]byte, 16), make([]byte, 16)
	lo[15], hi[0] = 1, 1
	return [][]byte{make([]byte, 16), ff, keys[3], lo, hi}
}

func freshProcessUnit(part, parts int) harness.Unit {
	return harness.Unit{Name: fmt.Sprintf("fresh-process/first-keys/%d-of-%d", part+1, parts), Run: func(c *harness.Ctx) {
		ks := freshKeys()
		type step struct {
			op  string
			key []byte
		}
		var steps []step
		for _, k := range ks {
			steps = append(steps, step{"E", k}, step{"D", k})
		}
		var seqs [][]step
		for _, a := range steps {
			seqs = append(seqs, []step{a})
			for _, b := range steps {
				seqs = append(seqs, []step{a, b})
			}
		}
		blocks := [][]byte{make([]byte, 16), keys[3]}
		for si, seq := range seqs {
			if si%parts != part {
				continue
			}
			var args, want, names []string
			for i, st := range seq {
				args = append(args, fmt.Sprintf("%s:%x:%x", st.op, st.key, blocks[i]))
				o := make([]byte, 16)
				if st.op == "E" {
					refsm4.Must(st.key).Encrypt(o, blocks[i])
				} else {
					refsm4.Must(st.key).Decrypt(o, blocks[i])
				}
				want = append(want, hex.EncodeToString(o))
				names = append(names, fmt.Sprintf("%s(key %x)", st.op, st.key))
			}
			tag := strings.Join(names, " then ")
			c.Add("executions", 1)
			c.Add("transitions", int64(len(seq)))
			c.DistinctS("states", tag)
			got, err := harness.FreshProcess("sm4-seq", args...)
			if err != nil {
				c.Violate("fresh-process-crash:"+tag, fmt.Sprintf("a fresh process doing %s fails: %v", tag, err), nil, tag)
				continue
			}
			c.DistinctS("outcomes", got)
			if got != strings.Join(want, ",") {
				c.Violate("fresh-process-value:"+tag, fmt.Sprintf("as the first cipher objects of a process, %s give %s; GM/T 0002 gives %s", tag, got, strings.Join(want, ",")), nil, tag)
			}
		}
		c.Sample("every sequence of one or two steps over {Encrypt, Decrypt} x {zero key, all-ones key, standard example key, 0..01, 01 0..}, each in a new process")
	}}
}
