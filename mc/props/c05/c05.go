// Package c05: SM4 block = GM/T 0002 permutation, history independent (DESIGN §3 C05).
package c05

import (
	"bytes"
	"crypto/cipher"
	"fmt"

	"github.com/tjfoc/gmsm/sm4"

	"verif/mc/harness"
	"verif/mc/props/pu"
	"verif/mc/ref/refsm4"
	"verif/mc/xp"
)

var keys = [][]byte{
	make([]byte, 16),
	{0x01, 0x23, 0x45, 0x67, 0x89, 0xab, 0xcd, 0xef, 0xfe, 0xdc, 0xba, 0x98, 0x76, 0x54, 0x32, 0x10},
	{0xff, 0xff, 0xff, 0xff, 0xff, 0xff, 0xff, 0xff, 0xff, 0xff, 0xff, 0xff, 0xff, 0xff, 0xff, 0xff},
	{0x8e, 0x11, 0x00, 0x7f, 0x80, 0xa5, 0x5a, 0xc3, 0x3c, 0x01, 0xfe, 0x10, 0xef, 0x77, 0x88, 0x42},
}

// checkPair checks Encrypt/Decrypt of one (key, block) on a FRESH object in all buffer arrangements.
func checkPair(c *harness.Ctx, key, blk []byte, tag string) {
	ref := refsm4.Must(key)
	want := make([]byte, 16)
	ref.Encrypt(want, blk)
	c.Add("evaluations", 1)
	c.Distinct("nontrivial", append(append([]byte{}, key...), blk...))
	blkc, err := sm4.NewCipher(key)
	if err != nil {
		c.Violate("newcipher-16-rejected", fmt.Sprintf("NewCipher rejected a 16-byte key: %v", err), nil, nil)
		return
	}
	fail := func(kind, msg string) {
		c.Violate(fmt.Sprintf("block:%s:%s", kind, tag), fmt.Sprintf("%s key=%x block=%x: %s", kind, key, blk, msg), nil, nil)
	}
	// disjoint buffers with canaries; dst longer than a block must only be written in its first 16 bytes
	src := pu.NewCanary(blk, 16)
	dstC := pu.NewCanary(make([]byte, 32), 16)
	dst := dstC.Slice()
	blkc.Encrypt(dst, src.Slice())
	if !bytes.Equal(dst[:16], want) {
		fail("enc", fmt.Sprintf("got %x want %x", dst[:16], want))
	}
	if !bytes.Equal(dst[16:], make([]byte, 16)) {
		fail("enc-overrun", "Encrypt wrote beyond 16 bytes of dst")
	}
	if d := src.Check(); d != "" {
		fail("enc-src-written", d)
	}
	back := make([]byte, 16)
	blkc.Decrypt(back, want)
	if !bytes.Equal(back, blk) {
		fail("dec", fmt.Sprintf("Decrypt(ref ciphertext) = %x want %x", back, blk))
	}
	// in place
	ip := append([]byte{}, blk...)
	blkc.Encrypt(ip, ip)
	if !bytes.Equal(ip, want) {
		fail("enc-inplace", fmt.Sprintf("got %x want %x", ip, want))
	}
	blkc.Decrypt(ip, ip)
	if !bytes.Equal(ip, blk) {
		fail("dec-inplace", fmt.Sprintf("got %x want %x", ip, blk))
	}
	// decryption of an arbitrary block equals the reference inverse
	wantD := make([]byte, 16)
	ref.Decrypt(wantD, blk)
	blkc.Decrypt(back, blk)
	if !bytes.Equal(back, wantD) {
		fail("dec-any", fmt.Sprintf("Decrypt(block) = %x want %x", back, wantD))
	}
}

func tableUnit(ki int) harness.Unit {
	return harness.Unit{Name: fmt.Sprintf("table/key%d", ki), Run: func(c *harness.Ctx) {
		key := keys[ki]
		for _, base := range [][]byte{make([]byte, 16), pu.Msg(3, 16)} {
			for pos := 0; pos < 16; pos++ {
				for v := 0; v < 256; v++ {
					b := append([]byte{}, base...)
					b[pos] = byte(v)
					checkPair(c, key, b, fmt.Sprintf("k%d:b[%d]=%02x", ki, pos, v))
				}
			}
		}
		for bit := 0; bit < 128; bit++ {
			b := make([]byte, 16)
			b[bit/8] = 0x80 >> uint(bit%8)
			checkPair(c, key, b, fmt.Sprintf("k%d:bit%d", ki, bit))
		}
		checkPair(c, key, bytes.Repeat([]byte{0xff}, 16), fmt.Sprintf("k%d:ones", ki))
		c.Sample(fmt.Sprintf("key %x, every byte value in every block position over two base blocks, every single-bit block", key))
	}}
}

func keyUnit() harness.Unit {
	return harness.Unit{Name: "keys/every-byte-every-position", Run: func(c *harness.Ctx) {
		blk := pu.Msg(40, 16)
		for _, base := range [][]byte{make([]byte, 16), keys[3]} {
			for pos := 0; pos < 16; pos++ {
				for v := 0; v < 256; v++ {
					k := append([]byte{}, base...)
					k[pos] = byte(v)
					checkPair(c, k, blk, fmt.Sprintf("key[%d]=%02x", pos, v))
				}
			}
		}
		for bit := 0; bit < 128; bit++ {
			k := make([]byte, 16)
			k[bit/8] = 0x80 >> uint(bit%8)
			checkPair(c, k, make([]byte, 16), fmt.Sprintf("keybit%d", bit))
		}
		// a fixed enumerated set of unstructured pairs
		for i := 0; i < 3000; i++ {
			checkPair(c, pu.Msg(i*37+1, 16), pu.Msg(i*91+7, 16), fmt.Sprintf("pair%d", i))
		}
		c.Sample("every byte value in every key position over two base keys; every single-bit key; 3000 fixed unstructured pairs")
	}}
}

func keyLenUnit() harness.Unit {
	return harness.Unit{Name: "keylen/0..64", Run: func(c *harness.Ctx) {
		// every length with several fillings: a key is bytes, whatever they look like (zeros, all ones,
		// ASCII hex digits in both cases, text)
		fillers := []func(i int) byte{func(int) byte { return 0 }, func(int) byte { return 0xff }, func(i int) byte { return "0123456789abcdef"[i%16] }, func(i int) byte { return "FEDCBA9876543210"[i%16] }, func(i int) byte { return "key material!"[i%13] }}
		for n := 0; n <= 64; n++ {
			for fi, f := range fillers {
				key := make([]byte, n)
				for i := range key {
					key[i] = f(i)
				}
				var blk cipher.Block
				var err error
				c.Add("evaluations", 1)
				c.DistinctS("nontrivial", fmt.Sprint("len", n, "/", fi))
				if c.Guard(fmt.Sprintf("newcipher-panic:len=%d", n), "NewCipher", nil, func() { blk, err = sm4.NewCipher(key) }) {
					continue
				}
				if n == 16 {
					if err != nil || blk == nil || blk.BlockSize() != 16 {
						c.Violate("newcipher-16", fmt.Sprintf("NewCipher(16 bytes) = %v, %v", blk, err), nil, nil)
					}
				} else if err == nil {
					c.Violate(fmt.Sprintf("newcipher-accepts:len=%d", n), fmt.Sprintf("NewCipher accepted a %d-byte key (filling %d: %q...)", n, fi, key[:min(n, 8)]), nil, nil)
				}
			}
		}
		var err error
		c.Guard("newcipher-panic:nil", "NewCipher(nil)", nil, func() { _, err = sm4.NewCipher(nil) })
		if err == nil {
			c.Violate("newcipher-accepts:nil", "NewCipher accepted a nil key", nil, nil)
		}
		c.Sample("NewCipher with key lengths 0..64 and nil")
	}}
}

// ---- history exploration: operations on two long-lived objects -------------------------

const nHistOps = 10

func histUnit(first, depth int) harness.Unit {
	return harness.Unit{Name: fmt.Sprintf("hist/first=%d/depth=%d", first, depth), Run: func(c *harness.Ctx) {
		kA, kB := keys[1], keys[3]
		refA, refB := refsm4.Must(kA), refsm4.Must(kB)
		b0, b1 := pu.Msg(500, 16), bytes.Repeat([]byte{0xff}, 16)
		enc := func(r *refsm4.Cipher, b []byte) []byte { o := make([]byte, 16); r.Encrypt(o, b); return o }
		dec := func(r *refsm4.Cipher, b []byte) []byte { o := make([]byte, 16); r.Decrypt(o, b); return o }
		names := []string{"A.Enc(b0)", "A.Dec(b0)", "B.Enc(b0)", "B.Dec(b1)", "A.Enc(b1) in place", "A.Dec(b1) in place", "A.Enc(b1)", "B.Dec(b0) in place", "A.Enc(b0)->dst32", "B.Enc(b1)"}
		c.Explore(-1, func(x *xp.X) {
			A, _ := sm4.NewCipher(kA)
			B, _ := sm4.NewCipher(kB)
			var ops []int
			for step := 0; step < depth; step++ {
				op := first
				if step > 0 {
					op = x.Pick(nHistOps, "op")
				}
				ops = append(ops, op)
				c.Add("transitions", 1)
				var got, want []byte
				switch op {
				case 0:
					got = make([]byte, 16)
					A.Encrypt(got, b0)
					want = enc(refA, b0)
				case 1:
					got = make([]byte, 16)
					A.Decrypt(got, b0)
					want = dec(refA, b0)
				case 2:
					got = make([]byte, 16)
					B.Encrypt(got, b0)
					want = enc(refB, b0)
				case 3:
					got = make([]byte, 16)
					B.Decrypt(got, b1)
					want = dec(refB, b1)
				case 4:
					got = append([]byte{}, b1...)
					A.Encrypt(got, got)
					want = enc(refA, b1)
				case 5:
					got = append([]byte{}, b1...)
					A.Decrypt(got, got)
					want = dec(refA, b1)
				case 6:
					got = make([]byte, 16)
					A.Encrypt(got, b1)
					want = enc(refA, b1)
				case 7:
					got = append([]byte{}, b0...)
					B.Decrypt(got, got)
					want = dec(refB, b0)
				case 8:
					got = make([]byte, 32)
					A.Encrypt(got, b0)
					want = append(enc(refA, b0), make([]byte, 16)...)
				case 9:
					got = make([]byte, 16)
					B.Encrypt(got, b1)
					want = enc(refB, b1)
				}
				if !bytes.Equal(got, want) {
					hist := ""
					for _, o := range ops {
						hist += names[o] + "; "
					}
					prev := "none"
					if len(ops) > 1 {
						prev = names[ops[len(ops)-2]]
					}
					c.Violate(fmt.Sprintf("hist:%s:after:%s", names[op], prev), fmt.Sprintf("%s returned %x, the stateless reference gives %x, after history [%s]", names[op], got, want, hist), x.Choices, hist)
					c.DistinctS("outcomes", "mismatch:"+names[op])
					return
				}
			}
			c.DistinctS("outcomes", "ok")
			if c.WantSample() {
				s := ""
				for _, o := range ops {
					s += names[o] + "; "
				}
				c.Sample(s)
			}
		}, nil)
		c.DistinctS("states", fmt.Sprint(first))
	}}
}

// aliasUnit: the cipher object must not keep a reference to the caller's key slice, and results
// handed out earlier must not change when the caller reuses its buffers.
func aliasUnit() harness.Unit {
	return harness.Unit{Name: "caller-buffer-reuse", Run: func(c *harness.Ctx) {
		blkIn := pu.Msg(77, 16)
		for i := range keys {
			for j := range keys {
				keyBuf := append([]byte{}, keys[i]...)
				A, _ := sm4.NewCipher(keyBuf)
				copy(keyBuf, keys[j]) // caller rotates the key in place
				B, _ := sm4.NewCipher(keyBuf)
				for k := range keyBuf {
					keyBuf[k] = 0xEE
				}
				c.Add("evaluations", 1)
				c.DistinctS("nontrivial", fmt.Sprintf("alias/%d/%d", i, j))
				wa, wb := make([]byte, 16), make([]byte, 16)
				refsm4.Must(keys[i]).Encrypt(wa, blkIn)
				refsm4.Must(keys[j]).Encrypt(wb, blkIn)
				ga, gb := make([]byte, 16), make([]byte, 16)
				src := append([]byte{}, blkIn...)
				A.Encrypt(ga, src)
				for k := range src {
					src[k] = 0xEE // caller reuses the source buffer: ga must stay
				}
				B.Encrypt(gb, blkIn)
				if !bytes.Equal(ga, wa) || !bytes.Equal(gb, wb) {
					c.Violate(fmt.Sprintf("key-buffer-aliased:%d:%d", i, j), fmt.Sprintf("cipher objects created from one key buffer that the caller overwrote afterwards give %x / %x, want %x / %x", ga, gb, wa, wb), nil, nil)
				}
				da := make([]byte, 16)
				A.Decrypt(da, wa)
				if !bytes.Equal(da, blkIn) {
					c.Violate(fmt.Sprintf("key-buffer-aliased-dec:%d:%d", i, j), "Decrypt after the caller overwrote its key buffer is wrong", nil, nil)
				}
			}
		}
		c.Sample("NewCipher(keyBuf); overwrite keyBuf in place; NewCipher(keyBuf); scribble; both objects must still use their original keys")
	}}
}

// Prop registers C05.
var Prop = &harness.Prop{
	ID:    "C05",
	Level: "model_checking",
	Rule: "history part: every sequence of the 10 listed Encrypt/Decrypt operations (two long-lived cipher objects with different keys, disjoint / in-place / long dst) up to the depth bound, each result compared with a stateless independent SM4; table part: for 4 keys every byte value in every block position, every single-bit block, every byte value in every key position, every single-bit key, 3000 fixed pairs, in disjoint and in-place arrangements with canaries; NewCipher for every key length 0..64. " +
		"states = first-operation subtrees completed; outcomes = verdict classes; evaluations/nontrivial count (key, block) pairs of the table part. Fresh-process unit: every sequence of one or two (Encrypt/Decrypt, key) steps over {zero, all-ones, example, 0..01, 01 0..} as the first library activity of a new process (package-level state cannot be reset in-process). Key lengths 0..64 each with five fillings (zeros, ones, lower / upper hex digits, text).",
	Assumptions: []string{"refsm4 (S-box computed from its algebraic definition, anchored on the two vectors of GM/T 0002) is correct"},
	Bounds: func(tier string) string {
		if tier == "thorough" {
			return "histories: all sequences of length 8 over 10 operations; table part complete as described"
		}
		return "histories: all sequences of length 6 over 10 operations; table part complete as described"
	},
	Units: func(tier string) []harness.Unit {
		depth := 6
		if tier == "thorough" {
			depth = 8
		}
		var u []harness.Unit
		for f := 0; f < nHistOps; f++ {
			u = append(u, histUnit(f, depth))
		}
		for k := range keys {
			u = append(u, tableUnit(k))
		}
		u = append(u, keyUnit(), keyLenUnit(), aliasUnit())
		for p := 0; p < 4; p++ {
			u = append(u, freshProcessUnit(p, 4))
		}
		return u
	},
}
