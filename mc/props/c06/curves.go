package c06

import (
	stdtls "crypto/tls"
	"fmt"

	"github.com/tjfoc/gmsm/gmtls"

	"verif/mc/harness"
	"verif/mc/tlsk"
	"verif/mc/wire"
)

// ---- named-curve negotiation for the ECDHE suites -------------------------------------------------
//
// Config.CurvePreferences is part of "correctly configured": two ends that share a curve (and an
// ECDHE suite) must complete on TLS 1.0-1.2 whichever ends are the library and whichever is the Go
// standard library; two ends that share none must fall back to a non-ECDHE suite when both allow
// one, and otherwise fail on both sides. The curve lists are every ordered list of one or two of
// {P-256, P-384, P-521, X25519} plus the default (nil).

var curveIDs = []gmtls.CurveID{gmtls.CurveP256, gmtls.CurveP384, gmtls.CurveP521, gmtls.X25519}

func curveLists() [][]gmtls.CurveID {
	out := [][]gmtls.CurveID{nil}
	for _, a := range curveIDs {
		out = append(out, []gmtls.CurveID{a})
	}
	for _, a := range curveIDs {
		for _, b := range curveIDs {
			if a != b {
				out = append(out, []gmtls.CurveID{a, b})
			}
		}
	}
	return out
}

func effective(l []gmtls.CurveID) []gmtls.CurveID {
	if len(l) == 0 {
		return []gmtls.CurveID{gmtls.X25519, gmtls.CurveP256, gmtls.CurveP384, gmtls.CurveP521}
	}
	return l
}

func shareCurve(a, b []gmtls.CurveID) bool {
	for _, x := range effective(a) {
		for _, y := range effective(b) {
			if x == y {
				return true
			}
		}
	}
	return false
}

func stdCurves(l []gmtls.CurveID) []stdtls.CurveID {
	var o []stdtls.CurveID
	for _, x := range l {
		o = append(o, stdtls.CurveID(x))
	}
	return o
}

// pairing: 0 library both ends, 1 crypto/tls client, 2 crypto/tls server
func curveUnit(pairing int, vers uint16, ecdsa, fallback bool) harness.Unit {
	pn := []string{"library-both", "crypto-tls-client", "crypto-tls-server"}[pairing]
	return harness.Unit{Name: fmt.Sprintf("curve-negotiation/%s/tls%04x/ecdsa=%v/rsa-fallback=%v", pn, vers, ecdsa, fallback), Run: func(c *harness.Ctx) {
		p := tlsk.Get()
		ecdhe, cert := gmtls.TLS_ECDHE_RSA_WITH_AES_256_CBC_SHA, p.RSA // 0xc013 has no table entry in this library
		if vers == 0x0303 {
			ecdhe = gmtls.TLS_ECDHE_RSA_WITH_AES_128_GCM_SHA256
		}
		if ecdsa {
			ecdhe, cert = gmtls.TLS_ECDHE_ECDSA_WITH_AES_128_CBC_SHA, p.ECDSA
			if vers == 0x0303 {
				ecdhe = gmtls.TLS_ECDHE_ECDSA_WITH_AES_128_GCM_SHA256
			}
		}
		suites := []uint16{ecdhe}
		if fallback {
			suites = append(suites, gmtls.TLS_RSA_WITH_AES_128_CBC_SHA)
		}
		lists := curveLists()
		for ci, cl := range lists {
			for si, sl := range lists {
				tag := fmt.Sprintf("%s TLS %04x suites %04x client curves %v server curves %v", pn, vers, suites, cl, sl)
				c.Add("executions", 1)
				c.Add("transitions", 1)
				c.DistinctS("states", tag)
				app := [2]tlsk.App{{Writes: [][]byte{[]byte("ping")}, Expect: 4}, {Writes: [][]byte{[]byte("pong")}, Expect: 4}}
				var cv, sv tlsk.View
				seed := byte(ci*len(lists) + si)
				libC := &gmtls.Config{RootCAs: p.StdRootsG, ServerName: tlsk.ServerName, Time: tlsk.FixedTime, Rand: wire.NewRand(seed), MinVersion: vers, MaxVersion: vers, CurvePreferences: cl, CipherSuites: suites}
				libS := &gmtls.Config{Certificates: []gmtls.Certificate{cert}, Time: tlsk.FixedTime, Rand: wire.NewRand(seed + 1), MinVersion: vers, MaxVersion: vers, CurvePreferences: sl, CipherSuites: suites}
				var o *tlsk.Outcome
				switch pairing {
				case 0:
					o = tlsk.Run(tlsk.GMEnd(libC, true, app[0], &cv, nil), tlsk.GMEnd(libS, false, app[1], &sv, nil), &cv, &sv, nil)
				case 1:
					stdC := &stdtls.Config{RootCAs: p.StdRoots, ServerName: tlsk.ServerName, Time: tlsk.FixedTime, MinVersion: vers, MaxVersion: vers, CurvePreferences: stdCurves(cl), CipherSuites: suites}
					o = tlsk.Run(tlsk.StdEnd(stdC, true, app[0], &cv), tlsk.GMEnd(libS, false, app[1], &sv, nil), &cv, &sv, nil)
				case 2:
					stdS := &stdtls.Config{Certificates: []stdtls.Certificate{stdCert(cert)}, Time: tlsk.FixedTime, MinVersion: vers, MaxVersion: vers, CurvePreferences: stdCurves(sl), CipherSuites: suites}
					o = tlsk.Run(tlsk.GMEnd(libC, true, app[0], &cv, nil), tlsk.StdEnd(stdS, false, app[1], &sv), &cv, &sv, nil)
				}
				key := fmt.Sprintf("%s:%04x:ecdsa=%v:%v/%v", pn, vers, ecdsa, cl, sl)
				if o.C.Panic != nil || o.S.Panic != nil || len(o.Stuck) > 0 {
					c.Violate("curve-negotiation:crash-or-hang:"+key, fmt.Sprintf("[%s] %s", tag, o.Describe()), nil, tag)
					continue
				}
				share := shareCurve(cl, sl)
				// an ECDSA certificate cannot serve the RSA key exchange
				canFallback := fallback && !ecdsa
				c.DistinctS("outcomes", fmt.Sprintf("%v/%v/%04x", o.C.Complete, o.S.Complete, o.C.Suite))
				switch {
				case share || canFallback:
					want := ecdhe
					if !share {
						want = gmtls.TLS_RSA_WITH_AES_128_CBC_SHA
					}
					if !o.C.Complete || !o.S.Complete || string(o.S.Read) != "ping" || string(o.C.Read) != "pong" {
						c.Violate("curve-negotiation:correctly-configured-peers-fail:"+key, fmt.Sprintf("[%s] the ends share a curve or a non-ECDHE suite, yet: %s", tag, o.Describe()), nil, tag)
					} else if o.C.Suite != o.S.Suite || o.C.Suite != want {
						c.Violate("curve-negotiation:suite:"+key, fmt.Sprintf("[%s] client reports %04x, server %04x, expected %04x", tag, o.C.Suite, o.S.Suite, want), nil, tag)
					}
				default:
					if o.C.Complete || o.S.Complete || o.C.HandshakeErr == nil || o.S.HandshakeErr == nil {
						c.Violate("curve-negotiation:completes-without-common-curve:"+key, fmt.Sprintf("[%s] no common curve and no other key exchange, yet: %s", tag, o.Describe()), nil, tag)
					}
				}
			}
		}
		c.Sample(fmt.Sprintf("%d x %d curve lists (default, every ordered list of one or two of P-256/P-384/P-521/X25519)", len(lists), len(lists)))
	}}
}

func curveUnits(tier string) []harness.Unit {
	var u []harness.Unit
	for pairing := 0; pairing < 3; pairing++ {
		for _, vers := range []uint16{0x0301, 0x0302, 0x0303} {
			if tier != "thorough" && vers == 0x0302 {
				continue
			}
			for _, ecdsa := range []bool{false, true} {
				for _, fb := range []bool{false, true} {
					if tier != "thorough" && fb && (ecdsa || vers != 0x0303) {
						continue
					}
					u = append(u, curveUnit(pairing, vers, ecdsa, fb))
				}
			}
		}
	}
	return u
}
