package c06

import (
	"bytes"
	"fmt"
	"io"
	"net"

	"github.com/tjfoc/gmsm/gmtls"

	"verif/mc/harness"
	"verif/mc/props/pu"
	"verif/mc/ref/gmref"
	"verif/mc/tlsk"
	"verif/mc/wire"
)

// ---- a transport that reports its end together with its last bytes ----------------------------------
//
// io.Reader allows Read to return n > 0 and a non-nil error in one call; a buffering transport, or a
// TLS connection used as the transport of another one, does so when the end of the stream is already
// known. eofWithDataConn delivers at most n bytes per Read and returns io.EOF TOGETHER with the bytes
// that reach the total the peer will ever send (learnt from a first, counting run of the same
// deterministic session). The bytes delivered with the error are part of the stream: the application
// must still receive every byte the peer wrote.

type eofWithDataConn struct {
	net.Conn
	n     int
	total int // 0 = only count
	seen  int
	given bool
}

func (c *eofWithDataConn) Read(p []byte) (int, error) {
	if c.given {
		return 0, io.EOF
	}
	if len(p) > c.n {
		p = p[:c.n]
	}
	if c.total > 0 && len(p) > c.total-c.seen {
		p = p[:c.total-c.seen]
	}
	nr, err := c.Conn.Read(p)
	c.seen += nr
	if err == nil && c.total > 0 && c.seen >= c.total {
		c.given = true
		return nr, io.EOF
	}
	return nr, err
}

func eofWithDataUnit(suite uint16, libIsClient bool) harness.Unit {
	return harness.Unit{Name: fmt.Sprintf("end-of-stream-with-last-bytes/library-client=%v/%04x", libIsClient, suite), Run: func(c *harness.Ctx) {
		p := tlsk.Get()
		tlsMode := suite == gmref.SuiteAESCBC || suite == gmref.SuiteAESGCM
		for _, size := range []int{1, 100, 16384, 40000} {
			for _, n := range []int{1, 5, 1000, 1 << 20} {
				if n == 1 && size > 16384 && !c.Thorough() {
					continue
				}
				mkCfg := func() (*gmtls.Config, gmref.Identity) {
					switch {
					case tlsMode && libIsClient:
						return &gmtls.Config{RootCAs: p.StdRootsG, ServerName: tlsk.ServerName, Time: tlsk.FixedTime, Rand: wire.NewRand(71), CipherSuites: []uint16{suite}, MinVersion: 0x0303, MaxVersion: 0x0303},
							gmref.Identity{Certs: [][]byte{p.RSA.Certificate[0]}, RSAKey: p.RSAKey}
					case tlsMode:
						return &gmtls.Config{Certificates: []gmtls.Certificate{p.RSA}, Time: tlsk.FixedTime, Rand: wire.NewRand(72), CipherSuites: []uint16{suite}, MinVersion: 0x0303, MaxVersion: 0x0303},
							gmref.Identity{}
					case libIsClient:
						return &gmtls.Config{GMSupport: &gmtls.GMSupport{}, RootCAs: p.Roots, ServerName: tlsk.ServerName, Time: tlsk.FixedTime, Rand: wire.NewRand(71), CipherSuites: []uint16{suite}},
							tlsk.ServerIdentity()
					}
					return &gmtls.Config{GMSupport: &gmtls.GMSupport{}, Certificates: []gmtls.Certificate{p.Sign, p.Enc}, Time: tlsk.FixedTime, Rand: wire.NewRand(72), CipherSuites: []uint16{suite}},
						tlsk.ClientIdentity()
				}
				fromLib, fromRef := pu.Msg(size+1, 700), pu.Msg(size+2, size)
				data := func(q *gmref.Peer) error {
					if err := q.ReadApp(len(fromLib)); err != nil {
						return err
					}
					for off := 0; off < len(fromRef); off += 16384 {
						end := off + 16384
						if end > len(fromRef) {
							end = len(fromRef)
						}
						if err := q.WriteRecord(gmref.RecApp, fromRef[off:end]); err != nil {
							return err
						}
					}
					return nil // no close_notify: the stream ends with application data
				}
				setup := func(q *gmref.Peer) {
					if tlsMode {
						q.UseTLS()
					}
					q.Suites = []uint16{suite}
				}
				run := func(total int) (*tlsk.RefOutcome, *eofWithDataConn) {
					cfg, id := mkCfg()
					var w *eofWithDataConn
					app := tlsk.App{Writes: [][]byte{fromLib}, Expect: len(fromRef)}
					app.Wrap = func(nc net.Conn) net.Conn { w = &eofWithDataConn{Conn: nc, n: n, total: total}; return w }
					o := tlsk.RunLibVsRef(cfg, libIsClient, app, id, 73, setup, &gmref.Script{Data: data}, nil)
					return o, w
				}
				tag := fmt.Sprintf("library-client=%v suite=%04x; peer sends %d bytes and ends without close_notify; transport delivers at most %d bytes per Read", libIsClient, suite, size, n)
				o1, w1 := run(0)
				c.Add("executions", 1)
				if o1.Lib.Panic != nil || o1.LibStuck || o1.Horizon || !o1.Lib.Complete || !bytes.Equal(o1.Lib.Read, fromRef) || w1 == nil {
					c.Violate("end-of-stream-with-last-bytes:plain-session-fails", fmt.Sprintf("[%s] counting run: %s", tag, o1.Describe()), nil, tag)
					continue
				}
				total := w1.seen
				o2, w2 := run(total)
				c.Add("executions", 1)
				c.Add("transitions", 2)
				c.DistinctS("states", tag)
				c.DistinctS("outcomes", fmt.Sprintf("%v/%d", o2.Lib.Complete, len(o2.Lib.Read)))
				if w2 == nil || !w2.given {
					c.Add("eof_with_data_not_reached", 1)
					continue // the two runs read different totals: nothing injected, nothing to judge
				}
				c.Add("eof_with_data_given", 1)
				if o2.Lib.Panic != nil || o2.LibStuck || o2.Horizon {
					c.Violate("end-of-stream-with-last-bytes:crash-or-hang", fmt.Sprintf("[%s] %s\n%s", tag, o2.Describe(), clip(o2.Lib.Stack, 1200)), nil, tag)
					continue
				}
				if !bytes.Equal(o2.Lib.Read, fromRef) {
					c.Violate(fmt.Sprintf("end-of-stream-with-last-bytes:data-lost:%d", n), fmt.Sprintf("[%s] the transport returned its last bytes together with io.EOF (after %d bytes in all); the application received %d of the %d bytes the peer wrote (read error %v)", tag, total, len(o2.Lib.Read), len(fromRef), o2.Lib.ReadErr), nil, tag)
				}
			}
		}
		c.Sample("peer payload {1,100,16384,40000} bytes x at most {1,5,1000,2^20} bytes per Read; the Read that delivers the peer's last bytes also returns io.EOF")
	}}
}
