package c06

import (
	"bytes"
	stdtls "crypto/tls"
	"fmt"
	"strings"

	"github.com/tjfoc/gmsm/gmtls"

	"verif/mc/harness"
	"verif/mc/tlsk"
	"verif/mc/wire"
)

// ---- several server certificates: the one for the requested name ------------------------------------
//
// A TLS server configured with several certificates (NameToCertificate built from them, or given
// explicitly, or GetCertificate for some names and the static list for the rest) and a client asking
// for each name. The oracle does not model the selection algorithm: whenever SOME configured
// certificate covers the requested name, a verifying client must complete and see a certificate
// that covers it; when none does, the client must fail. Clients: the library and crypto/tls.

type sniCert struct {
	label string
	names []string
	rsa   bool
}

var sniCerts = []sniCert{
	{"A", []string{tlsk.ServerName, tlsk.AltName}, false},
	{"B", []string{"other.example.test"}, false},
	{"W", []string{"*.wild.example.test"}, false},
	{"R", []string{"rsa.example.test", "also-rsa.example.test"}, true},
	{"C", []string{"cb.example.test"}, false}, // only ever served by GetCertificate
}

func covers(pattern, host string) bool {
	pattern, host = strings.ToLower(pattern), strings.ToLower(host)
	if pattern == host {
		return true
	}
	if strings.HasPrefix(pattern, "*.") {
		i := strings.Index(host, ".")
		return i > 0 && host[i:] == pattern[1:]
	}
	return false
}

func sniUnit(vers uint16) harness.Unit {
	return harness.Unit{Name: fmt.Sprintf("server-certificate-by-name/%04x", vers), Run: func(c *harness.Ctx) {
		p := tlsk.Get()
		certs := map[string]gmtls.Certificate{}
		for _, sc := range sniCerts {
			certs[sc.label] = p.StdServerCert(sc.names, sc.rsa)
		}
		type variant struct {
			name   string
			static []string
			how    int // 0 BuildNameToCertificate, 1 explicit map, 2 + GetCertificate for C
		}
		variants := []variant{
			{"A,B,W,R + BuildNameToCertificate", []string{"A", "B", "W", "R"}, 0},
			{"R,W,B,A + BuildNameToCertificate", []string{"R", "W", "B", "A"}, 0},
			{"A,B,W,R + explicit NameToCertificate", []string{"A", "B", "W", "R"}, 1},
			{"B,A + BuildNameToCertificate", []string{"B", "A"}, 0},
			{"A,B,W,R + BuildNameToCertificate + GetCertificate serving cb.example.test", []string{"A", "B", "W", "R"}, 2},
			{"GetCertificate serving cb.example.test, static list B,A", []string{"B", "A"}, 2},
		}
		requests := []string{tlsk.ServerName, tlsk.AltName, "other.example.test", "OTHER.Example.Test", "a.wild.example.test", "A.WILD.example.test", "a.b.wild.example.test", "wild.example.test",
			"rsa.example.test", "also-rsa.example.test", "cb.example.test", "unknown.example.test", "ther.example.test", "xother.example.test"}
		app := [2]tlsk.App{{Writes: [][]byte{[]byte("c->s")}, Expect: 4}, {Writes: [][]byte{[]byte("s->c")}, Expect: 4}}
		for _, v := range variants {
			for _, req := range requests {
				for _, stdClient := range []bool{false, true} {
					sc := &gmtls.Config{Time: tlsk.FixedTime, Rand: wire.NewRand(11), MinVersion: vers, MaxVersion: vers}
					var configured []sniCert
					for _, l := range v.static {
						sc.Certificates = append(sc.Certificates, certs[l])
						for _, x := range sniCerts {
							if x.label == l {
								configured = append(configured, x)
							}
						}
					}
					switch v.how {
					case 0, 2:
						sc.BuildNameToCertificate()
					case 1:
						sc.NameToCertificate = map[string]*gmtls.Certificate{}
						for i, x := range configured {
							for _, n := range x.names {
								sc.NameToCertificate[n] = &sc.Certificates[i]
							}
						}
					}
					if v.how == 2 {
						cb := certs["C"]
						sc.GetCertificate = func(h *gmtls.ClientHelloInfo) (*gmtls.Certificate, error) {
							if strings.ToLower(h.ServerName) == "cb.example.test" {
								return &cb, nil
							}
							return nil, nil
						}
						configured = append(configured, sniCerts[4])
					}
					var admissible [][]byte
					for _, x := range configured {
						for _, n := range x.names {
							if covers(n, req) {
								admissible = append(admissible, certs[x.label].Certificate[0])
							}
						}
					}
					var cv, sv tlsk.View
					var cs func(*wire.End) error
					if stdClient {
						cs = tlsk.StdEnd(&stdtls.Config{RootCAs: p.StdRoots, ServerName: req, Time: tlsk.FixedTime, MinVersion: vers, MaxVersion: vers}, true, app[0], &cv)
					} else {
						cs = tlsk.GMEnd(&gmtls.Config{RootCAs: p.StdRootsG, ServerName: req, Time: tlsk.FixedTime, Rand: wire.NewRand(22), MinVersion: vers, MaxVersion: vers}, true, app[0], &cv, nil)
					}
					o := tlsk.Run(cs, tlsk.GMEnd(sc, false, app[1], &sv, nil), &cv, &sv, nil)
					label := fmt.Sprintf("TLS %04x server with %s; client (crypto/tls=%v) asks for %q", vers, v.name, stdClient, req)
					key := fmt.Sprintf("%04x:%s:%s:std=%v", vers, v.name, req, stdClient)
					c.Add("executions", 1)
					c.Add("transitions", 1)
					c.DistinctS("states", label)
					c.DistinctS("outcomes", fmt.Sprintf("c=%v s=%v admissible=%d", o.C.Complete, o.S.Complete, len(admissible)))
					if o.C.Panic != nil || o.S.Panic != nil {
						c.Violate("server-certificate-by-name:panic:"+panicSite(o.C.Stack+o.S.Stack), fmt.Sprintf("[%s] endpoint panicked: client=%v server=%v\n%s", label, o.C.Panic, o.S.Panic, clip(o.C.Stack+o.S.Stack, 1500)), nil, label)
						continue
					}
					if len(o.Stuck) > 0 || o.Horizon {
						c.Violate("server-certificate-by-name:hang:"+key, fmt.Sprintf("[%s] endpoints did not finish: %v", label, o.Stuck), nil, label)
						continue
					}
					if len(admissible) == 0 {
						if o.C.Complete {
							c.Violate("server-certificate-by-name:completes-without-certificate-for-name:"+key, fmt.Sprintf("[%s] no configured certificate covers the name, yet the verifying client completed: %s", label, o.Describe()), nil, label)
						}
						continue
					}
					if !o.C.Complete || !o.S.Complete {
						c.Violate("server-certificate-by-name:certified-name-fails:"+key, fmt.Sprintf("[%s] the server holds a certificate for the requested name but the handshake failed: %s", label, o.Describe()), nil, label)
						continue
					}
					ok := false
					for _, a := range admissible {
						if len(o.C.PeerCerts) > 0 && bytes.Equal(a, o.C.PeerCerts[0]) {
							ok = true
						}
					}
					if !ok {
						c.Violate("server-certificate-by-name:other-certificate:"+key, fmt.Sprintf("[%s] the client sees a certificate that is none of those covering the name", label), nil, label)
					}
					if !bytes.Equal(o.S.Read, []byte("c->s")) || !bytes.Equal(o.C.Read, []byte("s->c")) {
						c.Violate("server-certificate-by-name:data:"+key, fmt.Sprintf("[%s] %s", label, o.Describe()), nil, label)
					}
				}
			}
		}
		c.Sample(fmt.Sprintf("TLS %04x: 6 multi-certificate server configurations (ECDSA, RSA, wildcard; NameToCertificate built / explicit; GetCertificate + static list) x 14 requested names x {library client, crypto/tls client}", vers))
	}}
}
