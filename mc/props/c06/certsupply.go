package c06

import (
	"bytes"
	stdtls "crypto/tls"
	stdx509 "crypto/x509"
	"fmt"

	"github.com/tjfoc/gmsm/gmtls"
	gx509 "github.com/tjfoc/gmsm/x509"

	"verif/mc/harness"
	"verif/mc/tlsk"
	"verif/mc/wire"
)

// ---- ways of supplying the client certificate x what the server asks for -------------------------
//
// The property quantifies over the "way of supplying certificates". For the client that is: a
// static list of chains (one or several, a chain of one certificate or leaf+intermediate, with or
// without the pre-parsed Leaf), or the GetClientCertificate callback. Which chain goes out depends on
// the CertificateRequest (the subjects of the server's ClientCAs), and whether the server then
// accepts it on its policy and pool. The reference below is symbolic: every certificate is a node
// with a known issuer, the pool a set of issuers.

type symCert struct {
	name   string
	issuer string // "root", "sub", "root2"
	self   string // non-empty for a CA certificate: the name it issues under
}

type symChain struct {
	name  string
	certs []symCert
	get   func(p *tlsk.PKI, gm bool) gmtls.Certificate
}

var (
	chDirect = symChain{"leaf under the root", []symCert{{"leaf", "root", ""}}, func(p *tlsk.PKI, gm bool) gmtls.Certificate {
		if gm {
			return p.Client
		}
		return p.StdClient
	}}
	chSub = symChain{"leaf under the intermediate + intermediate", []symCert{{"leafS", "sub", ""}, {"sub", "root", "sub"}}, func(p *tlsk.PKI, gm bool) gmtls.Certificate {
		if gm {
			return p.ClientSub
		}
		return p.StdClientSub
	}}
	chSubAlone = symChain{"leaf under the intermediate, intermediate not sent", []symCert{{"leafS", "sub", ""}}, func(p *tlsk.PKI, gm bool) gmtls.Certificate {
		x := p.StdClientSub
		if gm {
			x = p.ClientSub
		}
		x.Certificate = x.Certificate[:1]
		return x
	}}
	chUntrusted = symChain{"leaf under a CA the server does not know", []symCert{{"leafU", "root2", ""}}, func(p *tlsk.PKI, gm bool) gmtls.Certificate {
		if gm {
			return p.ClientUntrusted
		}
		return p.StdClientUntrusted
	}}
	chRSA = symChain{"RSA leaf under the root", []symCert{{"leafR", "root", ""}}, func(p *tlsk.PKI, gm bool) gmtls.Certificate { return p.StdClientRSA }}
)

type supplyCase struct {
	chains   []symChain
	leafSet  bool // Certificate.Leaf pre-parsed by the application
	callback bool // GetClientCertificate returning the first chain (an application that has made up its mind)
}

func (s supplyCase) String() string {
	n := "no certificate"
	for i, ch := range s.chains {
		if i == 0 {
			n = ""
		} else {
			n += " ; "
		}
		n += ch.name
	}
	way := "static list"
	if s.callback {
		way = "GetClientCertificate"
	}
	return fmt.Sprintf("%s [%s, Leaf pre-parsed=%v]", n, way, s.leafSet)
}

func supplyCases(gm bool) []supplyCase {
	lists := [][]symChain{nil, {chDirect}, {chSub}, {chSubAlone}, {chUntrusted}, {chUntrusted, chDirect}, {chUntrusted, chSub}, {chSub, chDirect}, {chUntrusted, chSubAlone}}
	if !gm {
		lists = append(lists, []symChain{chRSA}, []symChain{chUntrusted, chRSA})
	}
	var out []supplyCase
	for _, l := range lists {
		for _, leaf := range []bool{false, true} {
			for _, cb := range []bool{false, true} {
				if len(l) == 0 && (leaf || cb) {
					continue
				}
				out = append(out, supplyCase{l, leaf, cb})
			}
		}
	}
	return out
}

// pools of the server: which issuers it names in the CertificateRequest and trusts as anchors.
type poolCase struct {
	name    string
	issuers []string
}

var poolCases = []poolCase{{"no ClientCAs", nil}, {"ClientCAs={root}", []string{"root"}}, {"ClientCAs={root, intermediate}", []string{"root", "sub"}}, {"ClientCAs={intermediate}", []string{"sub"}}}

func in(xs []string, x string) bool {
	for _, y := range xs {
		if y == x {
			return true
		}
	}
	return false
}

// selected is the chain a client sends: the callback's word is final; from a static list the first
// chain one of whose certificates was issued by a named authority (any chain when none is named).
func selected(s supplyCase, pool poolCase) *symChain {
	if len(s.chains) == 0 {
		return nil
	}
	if s.callback {
		return &s.chains[0]
	}
	for i, ch := range s.chains {
		if len(pool.issuers) == 0 {
			return &s.chains[i]
		}
		for _, crt := range ch.certs {
			if in(pool.issuers, crt.issuer) {
				return &s.chains[i]
			}
		}
	}
	return nil
}

// verifies: the leaf chains to an anchor of the pool through the intermediates that were sent.
func verifies(ch *symChain, pool poolCase) bool {
	cur := ch.certs[0].issuer
	for hops := 0; hops < 3; hops++ {
		if in(pool.issuers, cur) {
			return true
		}
		next := ""
		for _, crt := range ch.certs[1:] {
			if crt.self == cur {
				next = crt.issuer
			}
		}
		if next == "" {
			return false
		}
		cur = next
	}
	return false
}

func supplyExpect(s supplyCase, pool poolCase, pol gmtls.ClientAuthType) (complete bool, sent *symChain) {
	if pol == gmtls.NoClientCert {
		return true, nil
	}
	sent = selected(s, pool)
	if sent == nil {
		return pol == gmtls.RequestClientCert || pol == gmtls.VerifyClientCertIfGiven, nil
	}
	if pol >= gmtls.VerifyClientCertIfGiven && !verifies(sent, pool) {
		return false, sent
	}
	return true, sent
}

type supplyPath struct {
	name      string
	gm        bool
	suite     uint16
	vers      uint16
	stdServer bool
}

func supplyPaths() []supplyPath {
	return []supplyPath{
		{"GMSSL/ECC-SM4-CBC-SM3", true, cbc, 0, false}, {"GMSSL/ECC-SM4-GCM-SM3", true, gcm, 0, false},
		{"TLS1.0", false, 0, 0x0301, false}, {"TLS1.1", false, 0, 0x0302, false}, {"TLS1.2", false, 0, 0x0303, false},
		{"TLS1.0/crypto-tls-server", false, 0, 0x0301, true}, {"TLS1.2/crypto-tls-server", false, 0, 0x0303, true},
	}
}

func certSupplyUnit(sp supplyPath) harness.Unit {
	return harness.Unit{Name: "client-certificate-supply/" + sp.name, Run: func(c *harness.Ctx) {
		p := tlsk.Get()
		app := [2]tlsk.App{{Writes: [][]byte{[]byte("c->s")}, Expect: 4}, {Writes: [][]byte{[]byte("s->c")}, Expect: 4}}
		policies := []gmtls.ClientAuthType{gmtls.NoClientCert, gmtls.RequestClientCert, gmtls.RequireAnyClientCert, gmtls.VerifyClientCertIfGiven, gmtls.RequireAndVerifyClientCert}
		for _, s := range supplyCases(sp.gm) {
			for _, pool := range poolCases {
				for _, pol := range policies {
					if pol >= gmtls.VerifyClientCertIfGiven && pool.issuers == nil {
						continue // verification against the host's root store: not a configuration of this matrix
					}
					if pol == gmtls.NoClientCert && (pool.issuers != nil || s.leafSet) {
						continue
					}
					// client
					cc := &gmtls.Config{Time: tlsk.FixedTime, Rand: wire.NewRand(22), ServerName: tlsk.ServerName}
					if sp.gm {
						cc.GMSupport, cc.RootCAs, cc.CipherSuites = &gmtls.GMSupport{}, p.Roots, []uint16{sp.suite}
					} else {
						cc.RootCAs, cc.MinVersion, cc.MaxVersion = p.StdRootsG, sp.vers, sp.vers
					}
					var list []gmtls.Certificate
					for _, ch := range s.chains {
						crt := ch.get(p, sp.gm)
						if s.leafSet {
							leaf, err := gx509.ParseCertificate(crt.Certificate[0])
							if err != nil {
								panic(err)
							}
							crt.Leaf = leaf
						}
						list = append(list, crt)
					}
					if s.callback {
						first := list[0]
						cc.GetClientCertificate = func(*gmtls.CertificateRequestInfo) (*gmtls.Certificate, error) { return &first, nil }
					} else {
						cc.Certificates = list
					}
					// server
					var cv, sv tlsk.View
					var ss func(*wire.End) error
					if sp.stdServer {
						sc := &stdtls.Config{Time: tlsk.FixedTime, MinVersion: sp.vers, MaxVersion: sp.vers, ClientAuth: stdtls.ClientAuthType(pol), Certificates: []stdtls.Certificate{stdCert(p.ECDSA)}}
						if pool.issuers != nil {
							sc.ClientCAs = stdx509.NewCertPool()
							if in(pool.issuers, "root") {
								sc.ClientCAs.AddCert(p.StdCA)
							}
							if in(pool.issuers, "sub") {
								sub, err := stdx509.ParseCertificate(p.StdSubCA.Raw)
								if err != nil {
									panic(err)
								}
								sc.ClientCAs.AddCert(sub)
							}
						}
						ss = tlsk.StdEnd(sc, false, app[1], &sv)
					} else {
						sc := &gmtls.Config{Time: tlsk.FixedTime, Rand: wire.NewRand(11), ClientAuth: pol}
						if sp.gm {
							sc.GMSupport, sc.Certificates, sc.CipherSuites = &gmtls.GMSupport{}, []gmtls.Certificate{p.Sign, p.Enc}, []uint16{sp.suite}
						} else {
							sc.Certificates, sc.MinVersion, sc.MaxVersion = []gmtls.Certificate{p.ECDSA}, sp.vers, sp.vers
						}
						if pool.issuers != nil {
							sc.ClientCAs = gx509.NewCertPool()
							root, sub := p.CA, p.SubCA
							if !sp.gm {
								sub = p.StdSubCA
								var err error
								if root, err = gx509.ParseCertificate(p.StdCA.Raw); err != nil {
									panic(err)
								}
							}
							if in(pool.issuers, "root") {
								sc.ClientCAs.AddCert(root)
							}
							if in(pool.issuers, "sub") {
								sc.ClientCAs.AddCert(sub)
							}
						}
						ss = tlsk.GMEnd(sc, false, app[1], &sv, nil)
					}
					o := tlsk.Run(tlsk.GMEnd(cc, true, app[0], &cv, nil), ss, &cv, &sv, nil)
					wantComplete, sent := supplyExpect(s, pool, pol)
					label := fmt.Sprintf("%s: client supplies %s; server %s, ClientAuth=%d", sp.name, s, pool.name, pol)
					key := fmt.Sprintf("%s:%s:%s:auth=%d", sp.name, s, pool.name, pol)
					c.Add("executions", 1)
					c.Add("transitions", 1)
					c.DistinctS("states", label)
					c.DistinctS("outcomes", fmt.Sprintf("c=%v s=%v sent=%v", o.C.Complete, o.S.Complete, len(o.S.PeerCerts)))
					if o.C.Panic != nil || o.S.Panic != nil {
						c.Violate("certificate-supply-panic:"+panicSite(o.C.Stack+o.S.Stack), fmt.Sprintf("[%s] endpoint panicked: client=%v server=%v\n%s", label, o.C.Panic, o.S.Panic, clip(o.C.Stack+o.S.Stack, 1500)), nil, label)
						continue
					}
					if len(o.Stuck) > 0 || o.Horizon {
						c.Violate("certificate-supply-hang:"+key, fmt.Sprintf("[%s] endpoints did not finish: %v", label, o.Stuck), nil, label)
						continue
					}
					if !wantComplete {
						if o.C.Complete && o.S.Complete || o.S.Complete {
							c.Violate("certificate-supply:forbidden-completes:"+key, fmt.Sprintf("[%s] the server's policy does not admit what this client can present, yet the server completed: %s", label, o.Describe()), nil, label)
						}
						if o.S.HandshakeErr == nil {
							c.Violate("certificate-supply:forbidden-no-error:"+key, fmt.Sprintf("[%s] server reported no error: %s", label, o.Describe()), nil, label)
						}
						if o.C.HandshakeErr == nil && o.C.ReadErr == nil {
							c.Violate("certificate-supply:client-unaware:"+key, fmt.Sprintf("[%s] the client neither failed nor got an error afterwards: %s", label, o.Describe()), nil, label)
						}
						continue
					}
					if !o.C.Complete || !o.S.Complete {
						c.Violate("certificate-supply:admissible-fails:"+key, fmt.Sprintf("[%s] a correctly configured pair must complete: %s", label, o.Describe()), nil, label)
						continue
					}
					var want [][]byte
					if sent != nil {
						want = sent.get(p, sp.gm).Certificate
					}
					if len(want) != len(o.S.PeerCerts) {
						c.Violate("certificate-supply:server-sees-other-chain:"+key, fmt.Sprintf("[%s] the server sees %d client certificates, the client was to present %d", label, len(o.S.PeerCerts), len(want)), nil, label)
					} else {
						for i := range want {
							if !bytes.Equal(want[i], o.S.PeerCerts[i]) {
								c.Violate("certificate-supply:server-sees-other-chain:"+key, fmt.Sprintf("[%s] certificate %d seen by the server is not the one of the selected chain", label, i), nil, label)
							}
						}
					}
					if o.C.Version != o.S.Version || o.C.Suite != o.S.Suite || !bytes.Equal(o.S.Read, []byte("c->s")) || !bytes.Equal(o.C.Read, []byte("s->c")) {
						c.Violate("certificate-supply:views-or-data:"+key, fmt.Sprintf("[%s] %s", label, o.Describe()), nil, label)
					}
					if !sp.stdServer && !bytes.Equal(o.C.EKM, o.S.EKM) {
						c.Violate("certificate-supply:ekm:"+key, fmt.Sprintf("[%s] exported keying material differs", label), nil, label)
					}
				}
			}
		}
		c.Sample(fmt.Sprintf("%s: %d ways of supplying the client certificate (none / one / several chains, leaf or leaf+intermediate, Leaf pre-parsed or not, static or callback) x 4 server pools x 5 ClientAuth policies; selection and acceptance predicted by a symbolic issuer model", sp.name, len(supplyCases(sp.gm))))
	}}
}

// ---- server certificates issued by an intermediate authority ----------------------------------------
//
// The server side of the same question: a server whose certificates come from an intermediate CA
// supplies leaf + intermediate (statically or through the callbacks) and a client that trusts the root
// must complete; without the intermediate (and a client that does not know it) verification must
// fail. On the GMSSL path the Certificate message carries the signing certificate first, the
// encryption certificate second and everything else after them (GM/T 0024 6.4.5.3), so the two chains
// have to be merged in that order.

type srvChainCase struct {
	name           string
	signSub        bool // certificates issued by the intermediate (else directly by the root)
	sendSign, send bool // the intermediate accompanies the signing / the encryption (TLS: the only) certificate
	callbacks      bool
}

func serverChainUnit(gm bool, vers uint16) harness.Unit {
	name := fmt.Sprintf("server-certificate-chain/TLS%04x", vers)
	if gm {
		name = "server-certificate-chain/GMSSL"
	}
	return harness.Unit{Name: name, Run: func(c *harness.Ctx) {
		p := tlsk.Get()
		app := [2]tlsk.App{{Writes: [][]byte{[]byte("c->s")}, Expect: 4}, {Writes: [][]byte{[]byte("s->c")}, Expect: 4}}
		var cases []srvChainCase
		for _, cb := range []bool{false, true} {
			cases = append(cases, srvChainCase{"issued by the root", false, false, false, cb})
			for _, ss := range []bool{false, true} {
				for _, se := range []bool{false, true} {
					if !gm && ss != se {
						continue
					}
					cases = append(cases, srvChainCase{fmt.Sprintf("issued by the intermediate; intermediate sent with the signing certificate=%v, with the encryption certificate=%v", ss, se), true, ss, se, cb})
				}
			}
		}
		pools := []poolCase{{"RootCAs={root}", []string{"root"}}, {"RootCAs={root, intermediate}", []string{"root", "sub"}}, {"RootCAs={intermediate}", []string{"sub"}}}
		for _, sc := range cases {
			for _, pool := range pools {
				trim := func(crt gmtls.Certificate, keep bool) gmtls.Certificate {
					if !keep {
						crt.Certificate = crt.Certificate[:1]
					}
					return crt
				}
				scfg := &gmtls.Config{Time: tlsk.FixedTime, Rand: wire.NewRand(11)}
				ccfg := &gmtls.Config{Time: tlsk.FixedTime, Rand: wire.NewRand(22), ServerName: tlsk.ServerName}
				var leaves [][]byte
				if gm {
					sign, enc := p.Sign, p.Enc
					if sc.signSub {
						sign, enc = trim(p.SignSub, sc.sendSign), trim(p.EncSub, sc.send)
					}
					leaves = [][]byte{sign.Certificate[0], enc.Certificate[0]}
					scfg.GMSupport, ccfg.GMSupport = &gmtls.GMSupport{}, &gmtls.GMSupport{}
					if sc.callbacks {
						scfg.GetCertificate = func(*gmtls.ClientHelloInfo) (*gmtls.Certificate, error) { return &sign, nil }
						scfg.GetKECertificate = func(*gmtls.ClientHelloInfo) (*gmtls.Certificate, error) { return &enc, nil }
					} else {
						scfg.Certificates = []gmtls.Certificate{sign, enc}
					}
					ccfg.RootCAs = gx509.NewCertPool()
					if in(pool.issuers, "root") {
						ccfg.RootCAs.AddCert(p.CA)
					}
					if in(pool.issuers, "sub") {
						ccfg.RootCAs.AddCert(p.SubCA)
					}
				} else {
					crt := p.ECDSA
					if sc.signSub {
						crt = trim(p.ECDSASub, sc.send)
					}
					leaves = [][]byte{crt.Certificate[0]}
					scfg.MinVersion, scfg.MaxVersion, ccfg.MinVersion, ccfg.MaxVersion = vers, vers, vers, vers
					if sc.callbacks {
						scfg.GetCertificate = func(*gmtls.ClientHelloInfo) (*gmtls.Certificate, error) { return &crt, nil }
					} else {
						scfg.Certificates = []gmtls.Certificate{crt}
					}
					ccfg.RootCAs = gx509.NewCertPool()
					if in(pool.issuers, "root") {
						root, err := gx509.ParseCertificate(p.StdCA.Raw)
						if err != nil {
							panic(err)
						}
						ccfg.RootCAs.AddCert(root)
					}
					if in(pool.issuers, "sub") {
						ccfg.RootCAs.AddCert(p.StdSubCA)
					}
				}
				// symbolic verdict: each leaf reaches an anchor through what was sent
				want := true
				if sc.signSub {
					sentSub := sc.sendSign || sc.send
					want = in(pool.issuers, "sub") || (sentSub && in(pool.issuers, "root"))
				} else {
					want = in(pool.issuers, "root")
				}
				var cv, sv tlsk.View
				o := tlsk.Run(tlsk.GMEnd(ccfg, true, app[0], &cv, nil), tlsk.GMEnd(scfg, false, app[1], &sv, nil), &cv, &sv, nil)
				label := fmt.Sprintf("%s: server certificates %s (callbacks=%v); client %s", name, sc.name, sc.callbacks, pool.name)

				key := fmt.Sprintf("%s:%s:callbacks=%v:%s", name, sc.name, sc.callbacks, pool.name)
				c.Add("executions", 1)
				c.Add("transitions", 1)
				c.DistinctS("states", label)
				c.DistinctS("outcomes", fmt.Sprintf("c=%v s=%v want=%v", o.C.Complete, o.S.Complete, want))
				if o.C.Panic != nil || o.S.Panic != nil {
					c.Violate("server-certificate-chain:panic:"+panicSite(o.C.Stack+o.S.Stack), fmt.Sprintf("[%s] endpoint panicked: client=%v server=%v\n%s", label, o.C.Panic, o.S.Panic, clip(o.C.Stack+o.S.Stack, 1500)), nil, label)
					continue
				}
				if len(o.Stuck) > 0 || o.Horizon {
					c.Violate("server-certificate-chain:hang:"+key, fmt.Sprintf("[%s] endpoints did not finish: %v", label, o.Stuck), nil, label)
					continue
				}
				if !want {
					if o.C.Complete {
						c.Violate("server-certificate-chain:unverifiable-accepted:"+key, fmt.Sprintf("[%s] no path from the server's certificates to the client's anchors, yet the client completed: %s", label, o.Describe()), nil, label)
					}
					continue
				}
				if !o.C.Complete || !o.S.Complete {
					c.Violate("server-certificate-chain:verifiable-refused:"+key, fmt.Sprintf("[%s] the server's certificates chain to an anchor of the client through what the server holds, but the handshake failed: %s", label, o.Describe()), nil, label)
					continue
				}
				for i, l := range leaves {
					if len(o.C.PeerCerts) <= i || !bytes.Equal(o.C.PeerCerts[i], l) {
						c.Violate("server-certificate-chain:order:"+key, fmt.Sprintf("[%s] certificate %d seen by the client is not the server's %s certificate", label, i, []string{"signing", "encryption"}[i]), nil, label)
					}
				}
				if !bytes.Equal(o.S.Read, []byte("c->s")) || !bytes.Equal(o.C.Read, []byte("s->c")) {
					c.Violate("server-certificate-chain:data:"+key, fmt.Sprintf("[%s] %s", label, o.Describe()), nil, label)
				}
			}
		}
		c.Sample(name + ": server certificates from the root or from an intermediate (sent or not, with either certificate), static or through callbacks, x 3 client pools")
	}}
}
