package c06

import (
	"bytes"
	"fmt"

	"github.com/tjfoc/gmsm/gmtls"

	"verif/mc/harness"
	"verif/mc/tlsk"
	"verif/mc/wire"
)

// ---- the same pair of configurations used for several connections ----------------------------------
//
// "Session tickets on" means that a second connection is not the first one again: the client offers
// what it cached, the server may resume, refresh the ticket or fall back. Whatever happens inside,
// every connection of a correctly configured pair must complete and both ends must report the same
// parameters - in particular the client must see the certificate of the name it asked for. One
// multi-name TLS server (certificate chosen by server name, one set of ticket keys) and one client
// Config with an LRU session cache; every sequence of {connect(name A / B / wildcard), rotate the
// ticket keys keeping / dropping the old key} up to the depth bound.

func reconnectUnit(vers uint16, capacity, depth int) harness.Unit {
	return harness.Unit{Name: fmt.Sprintf("reconnect/%04x/cache%d/depth%d", vers, capacity, depth), Run: func(c *harness.Ctx) {
		p := tlsk.Get()
		names := []string{tlsk.ServerName, "other.example.test", "a.wild.example.test"}
		opName := func(op int) string {
			if op < 3 {
				return "connect(" + names[op] + ")"
			}
			return []string{"rotate ticket keys (old key kept)", "rotate ticket keys (old key dropped)"}[op-3]
		}
		var seqs [][]int
		var rec func(cur []int)
		rec = func(cur []int) {
			if len(cur) > 0 && cur[len(cur)-1] < 3 {
				seqs = append(seqs, append([]int{}, cur...))
			}
			if len(cur) == depth {
				return
			}
			for op := 0; op < 5; op++ {
				rec(append(cur, op))
			}
		}
		rec(nil)
		app := [2]tlsk.App{{Writes: [][]byte{[]byte("c->s")}, Expect: 4}, {Writes: [][]byte{[]byte("s->c")}, Expect: 4}}
		for _, sq := range seqs {
			// only maximal sequences need running: every prefix is judged on the way
			sc := &gmtls.Config{Time: tlsk.FixedTime, Rand: wire.NewRand(11), MinVersion: vers, MaxVersion: vers}
			for _, x := range sniCerts[:3] {
				sc.Certificates = append(sc.Certificates, p.StdServerCert(x.names, x.rsa))
			}
			sc.BuildNameToCertificate()
			keys := [][32]byte{{1}}
			sc.SetSessionTicketKeys(keys)
			cc := &gmtls.Config{RootCAs: p.StdRootsG, Time: tlsk.FixedTime, Rand: wire.NewRand(22), MinVersion: vers, MaxVersion: vers, ClientSessionCache: gmtls.NewLRUClientSessionCache(capacity)}
			hist := ""
			for i, op := range sq {
				hist += opName(op) + "; "
				if op >= 3 {
					nk := [32]byte{byte(10 + i)}
					if op == 3 {
						keys = append([][32]byte{nk}, keys...)
					} else {
						keys = [][32]byte{nk}
					}
					sc.SetSessionTicketKeys(keys)
					continue
				}
				cc.ServerName = names[op]
				var cv, sv tlsk.View
				o := tlsk.Run(tlsk.GMEnd(cc, true, app[0], &cv, nil), tlsk.GMEnd(sc, false, app[1], &sv, nil), &cv, &sv, nil)
				if i != len(sq)-1 {
					continue // judged when it was the last step of its own sequence
				}
				label := fmt.Sprintf("TLS %04x, client cache capacity %d: %s", vers, capacity, hist)
				key := fmt.Sprintf("%04x:cap%d:%s", vers, capacity, hist)
				c.Add("executions", 1)
				c.Add("transitions", int64(len(sq)))
				c.DistinctS("states", label)
				c.DistinctS("outcomes", fmt.Sprintf("c=%v s=%v resumed=%v/%v", o.C.Complete, o.S.Complete, o.C.DidResume, o.S.DidResume))
				if o.C.Panic != nil || o.S.Panic != nil {
					c.Violate("reconnect:panic:"+panicSite(o.C.Stack+o.S.Stack), fmt.Sprintf("[%s] endpoint panicked: client=%v server=%v\n%s", label, o.C.Panic, o.S.Panic, clip(o.C.Stack+o.S.Stack, 1500)), nil, label)
					continue
				}
				if len(o.Stuck) > 0 || o.Horizon {
					c.Violate("reconnect:hang:"+key, fmt.Sprintf("[%s] endpoints did not finish: %v", label, o.Stuck), nil, label)
					continue
				}
				if !o.C.Complete || !o.S.Complete {
					c.Violate("reconnect:fails:"+key, fmt.Sprintf("[%s] a correctly configured pair must complete every connection: %s", label, o.Describe()), nil, label)
					continue
				}
				if o.C.Version != o.S.Version || o.C.Suite != o.S.Suite || o.C.DidResume != o.S.DidResume || !bytes.Equal(o.C.EKM, o.S.EKM) {
					c.Violate("reconnect:views-differ:"+key, fmt.Sprintf("[%s] %s", label, o.Describe()), nil, label)
				}
				want := p.StdServerCert(sniCerts[op].names, sniCerts[op].rsa).Certificate[0]
				if len(o.C.PeerCerts) == 0 || !bytes.Equal(o.C.PeerCerts[0], want) {
					c.Violate("reconnect:other-certificate:"+key, fmt.Sprintf("[%s] the client reports a peer certificate that is not the one certified for %q (resumed=%v)", label, names[op], o.C.DidResume), nil, label)
				}
				if !bytes.Equal(o.S.Read, []byte("c->s")) || !bytes.Equal(o.C.Read, []byte("s->c")) {
					c.Violate("reconnect:data:"+key, fmt.Sprintf("[%s] %s", label, o.Describe()), nil, label)
				}
			}
		}
		c.Sample(fmt.Sprintf("TLS %04x multi-name server, client LRU cache of %d: every sequence up to length %d over {connect(3 names), rotate ticket keys keeping / dropping the old key}", vers, capacity, depth))
	}}
}
