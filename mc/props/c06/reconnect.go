package c06

import (
	"bytes"
	"fmt"

	"github.com/tjfoc/gmsm/gmtls"

	"verif/mc/harness"
	"verif/mc/tlsk"
	"verif/mc/wire"
)

// ---- the same pair of configurations used for several connections ----------------------------------
//
// "Session tickets on" means that a second connection is not the first one again: the client offers
// what it cached, the server may resume, refresh the ticket or fall back. Whatever happens inside,
// every connection of a correctly configured pair must complete and both ends must report the same
// parameters - in particular the client must see the certificate of the name it asked for. One
// multi-name TLS server (certificate chosen by server name, one set of ticket keys) and one client
// Config with an LRU session cache; every sequence of {connect(name A / B / wildcard), rotate the
// ticket keys keeping / dropping the old key} up to the depth bound.

func reconnectUnit(vers uint16, capacity, depth int) harness.Unit {
	return harness.Unit{Name: fmt.Sprintf("reconnect/%04x/cache%d/depth%d", vers, capacity, depth), Run: func(c *harness.Ctx) {
		p := tlsk.Get()
		names := []string{tlsk.ServerName, "other.example.test", "a.wild.example.test"}
		opName := func(op int) string {
			if op < 3 {
				return "connect(" + names[op] + ")"
			}
			return []string{"rotate ticket keys (old key kept)", "rotate ticket keys (old key dropped)", "server: MaxVersion toggles between 1.1 (initial) and 1.2", "client: MaxVersion toggles between 1.2 (initial) and 1.0"}[op-3]
		}
		// vers == 0: both ends speak TLS 1.0-1.2 and two more operations move their version caps
		nops, sCaps, cCaps := 5, []uint16{0x0302, 0x0303}, []uint16{0x0303, 0x0301}
		if vers == 0 {
			nops = 7
		}
		var seqs [][]int
		var rec func(cur []int)
		rec = func(cur []int) {
			if len(cur) > 0 && cur[len(cur)-1] < 3 {
				seqs = append(seqs, append([]int{}, cur...))
			}
			if len(cur) == depth {
				return
			}
			for op := 0; op < nops; op++ {
				rec(append(cur, op))
			}
		}
		rec(nil)
		app := [2]tlsk.App{{Writes: [][]byte{[]byte("c->s")}, Expect: 4}, {Writes: [][]byte{[]byte("s->c")}, Expect: 4}}
		for _, sq := range seqs {
			// only maximal sequences need running: every prefix is judged on the way
			sc := &gmtls.Config{Time: tlsk.FixedTime, Rand: wire.NewRand(11), MinVersion: vers, MaxVersion: vers}
			for _, x := range sniCerts[:3] {
				sc.Certificates = append(sc.Certificates, p.StdServerCert(x.names, x.rsa))
			}
			sc.BuildNameToCertificate()
			keys := [][32]byte{{1}}
			sc.SetSessionTicketKeys(keys)
			cc := &gmtls.Config{RootCAs: p.StdRootsG, Time: tlsk.FixedTime, Rand: wire.NewRand(22), MinVersion: vers, MaxVersion: vers, ClientSessionCache: gmtls.NewLRUClientSessionCache(capacity)}
			hist := ""
			sCap, cCap := 0, 0
			if vers == 0 {
				sc.MinVersion, sc.MaxVersion, cc.MinVersion, cc.MaxVersion = 0x0301, sCaps[0], 0x0301, cCaps[0]
			}
			for i, op := range sq {
				hist += opName(op) + "; "
				if op == 5 {
					sCap = (sCap + 1) % 2
					sc.MaxVersion = sCaps[sCap]
					continue
				}
				if op == 6 {
					cCap = (cCap + 1) % 2
					cc.MaxVersion = cCaps[cCap]
					continue
				}
				if op >= 3 {
					nk := [32]byte{byte(10 + i)}
					if op == 3 {
						keys = append([][32]byte{nk}, keys...)
					} else {
						keys = [][32]byte{nk}
					}
					sc.SetSessionTicketKeys(keys)
					continue
				}
				cc.ServerName = names[op]
				var cv, sv tlsk.View
				o := tlsk.Run(tlsk.GMEnd(cc, true, app[0], &cv, nil), tlsk.GMEnd(sc, false, app[1], &sv, nil), &cv, &sv, nil)
				if i != len(sq)-1 {
					continue // judged when it was the last step of its own sequence
				}
				label := fmt.Sprintf("TLS %04x, client cache capacity %d: %s", vers, capacity, hist)
				key := fmt.Sprintf("%04x:cap%d:%s", vers, capacity, hist)
				c.Add("executions", 1)
				c.Add("transitions", int64(len(sq)))
				c.DistinctS("states", label)
				c.DistinctS("outcomes", fmt.Sprintf("c=%v s=%v resumed=%v/%v", o.C.Complete, o.S.Complete, o.C.DidResume, o.S.DidResume))
				if o.C.Panic != nil || o.S.Panic != nil {
					c.Violate("reconnect:panic:"+panicSite(o.C.Stack+o.S.Stack), fmt.Sprintf("[%s] endpoint panicked: client=%v server=%v\n%s", label, o.C.Panic, o.S.Panic, clip(o.C.Stack+o.S.Stack, 1500)), nil, label)
					continue
				}
				if len(o.Stuck) > 0 || o.Horizon {
					c.Violate("reconnect:hang:"+key, fmt.Sprintf("[%s] endpoints did not finish: %v", label, o.Stuck), nil, label)
					continue
				}
				if !o.C.Complete || !o.S.Complete {
					c.Violate("reconnect:fails:"+key, fmt.Sprintf("[%s] a correctly configured pair must complete every connection: %s", label, o.Describe()), nil, label)
					continue
				}
				wantV := vers
				if vers == 0 {
					wantV = sCaps[sCap]
					if cCaps[cCap] < wantV {
						wantV = cCaps[cCap]
					}
				}
				if o.C.Version != wantV {
					c.Violate("reconnect:version:"+key, fmt.Sprintf("[%s] negotiated %04x, the configured caps give %04x", label, o.C.Version, wantV), nil, label)
				}
				if o.C.Version != o.S.Version || o.C.Suite != o.S.Suite || o.C.DidResume != o.S.DidResume || !bytes.Equal(o.C.EKM, o.S.EKM) {
					c.Violate("reconnect:views-differ:"+key, fmt.Sprintf("[%s] %s", label, o.Describe()), nil, label)
				}
				want := p.StdServerCert(sniCerts[op].names, sniCerts[op].rsa).Certificate[0]
				if len(o.C.PeerCerts) == 0 || !bytes.Equal(o.C.PeerCerts[0], want) {
					c.Violate("reconnect:other-certificate:"+key, fmt.Sprintf("[%s] the client reports a peer certificate that is not the one certified for %q (resumed=%v)", label, names[op], o.C.DidResume), nil, label)
				}
				if !bytes.Equal(o.S.Read, []byte("c->s")) || !bytes.Equal(o.C.Read, []byte("s->c")) {
					c.Violate("reconnect:data:"+key, fmt.Sprintf("[%s] %s", label, o.Describe()), nil, label)
				}
			}
		}
		c.Sample(fmt.Sprintf("TLS %04x multi-name server, client LRU cache of %d: every sequence up to length %d over {connect(3 names), rotate ticket keys keeping / dropping the old key}", vers, capacity, depth))
	}}
}

// gmReconnectUnit: the same on the GMSSL path with client authentication: one server Config (suites
// listed explicitly, which is what lets a GMSSL server resume), one client Config with a session
// cache and a certificate; every sequence of {connect, rotate keeping / dropping the old key, next
// ClientAuth policy}. On every connection, resumed or not, the server reports the client's
// certificate (under every policy that asks for one) and the client the server's pair.
func gmReconnectUnit(suite uint16, depth int) harness.Unit {
	return harness.Unit{Name: fmt.Sprintf("reconnect/GMSSL/%04x/depth%d", suite, depth), Run: func(c *harness.Ctx) {
		p := tlsk.Get()
		policies := []gmtls.ClientAuthType{gmtls.RequestClientCert, gmtls.RequireAnyClientCert, gmtls.VerifyClientCertIfGiven, gmtls.RequireAndVerifyClientCert, gmtls.NoClientCert}
		opName := []string{"connect", "rotate ticket keys (old key kept)", "rotate ticket keys (old key dropped)", "next ClientAuth policy"}
		var seqs [][]int
		var rec func(cur []int)
		rec = func(cur []int) {
			if len(cur) > 0 && cur[len(cur)-1] == 0 {
				seqs = append(seqs, append([]int{}, cur...))
			}
			if len(cur) == depth {
				return
			}
			for op := 0; op < 4; op++ {
				rec(append(cur, op))
			}
		}
		rec(nil)
		app := [2]tlsk.App{{Writes: [][]byte{[]byte("c->s")}, Expect: 4}, {Writes: [][]byte{[]byte("s->c")}, Expect: 4}}
		for _, sq := range seqs {
			pi := 0
			sc := &gmtls.Config{GMSupport: &gmtls.GMSupport{}, Certificates: []gmtls.Certificate{p.Sign, p.Enc}, Time: tlsk.FixedTime, Rand: wire.NewRand(11), CipherSuites: []uint16{suite}, ClientAuth: policies[0], ClientCAs: p.Roots}
			keys := [][32]byte{{1}}
			sc.SetSessionTicketKeys(keys)
			cc := &gmtls.Config{GMSupport: &gmtls.GMSupport{}, RootCAs: p.Roots, ServerName: tlsk.ServerName, Certificates: []gmtls.Certificate{p.Client}, Time: tlsk.FixedTime, Rand: wire.NewRand(22), CipherSuites: []uint16{suite}, ClientSessionCache: gmtls.NewLRUClientSessionCache(2)}
			hist := ""
			for i, op := range sq {
				hist += opName[op] + "; "
				switch op {
				case 1, 2:
					nk := [32]byte{byte(10 + i)}
					if op == 1 {
						keys = append([][32]byte{nk}, keys...)
					} else {
						keys = [][32]byte{nk}
					}
					sc.SetSessionTicketKeys(keys)
					continue
				case 3:
					pi = (pi + 1) % len(policies)
					sc.ClientAuth = policies[pi]
					continue
				}
				var cv, sv tlsk.View
				o := tlsk.Run(tlsk.GMEnd(cc, true, app[0], &cv, nil), tlsk.GMEnd(sc, false, app[1], &sv, nil), &cv, &sv, nil)
				if i != len(sq)-1 {
					continue
				}
				label := fmt.Sprintf("GMSSL %04x: %s(ClientAuth=%d at the last connection)", suite, hist, policies[pi])
				key := fmt.Sprintf("gm:%04x:%s", suite, hist)
				c.Add("executions", 1)
				c.Add("transitions", int64(len(sq)))
				c.DistinctS("states", label)
				c.DistinctS("outcomes", fmt.Sprintf("c=%v s=%v resumed=%v/%v certs=%d", o.C.Complete, o.S.Complete, o.C.DidResume, o.S.DidResume, len(o.S.PeerCerts)))
				if o.C.Panic != nil || o.S.Panic != nil {
					c.Violate("reconnect:panic:"+panicSite(o.C.Stack+o.S.Stack), fmt.Sprintf("[%s] endpoint panicked: client=%v server=%v\n%s", label, o.C.Panic, o.S.Panic, clip(o.C.Stack+o.S.Stack, 1500)), nil, label)
					continue
				}
				if len(o.Stuck) > 0 || o.Horizon {
					c.Violate("reconnect:hang:"+key, fmt.Sprintf("[%s] endpoints did not finish: %v", label, o.Stuck), nil, label)
					continue
				}
				if !o.C.Complete || !o.S.Complete {
					c.Violate("reconnect:fails:"+key, fmt.Sprintf("[%s] a correctly configured pair must complete every connection: %s", label, o.Describe()), nil, label)
					continue
				}
				if o.C.Version != o.S.Version || o.C.Suite != o.S.Suite || o.C.DidResume != o.S.DidResume || !bytes.Equal(o.C.EKM, o.S.EKM) {
					c.Violate("reconnect:views-differ:"+key, fmt.Sprintf("[%s] %s", label, o.Describe()), nil, label)
				}
				if len(o.C.PeerCerts) < 2 || !bytes.Equal(o.C.PeerCerts[0], p.Sign.Certificate[0]) || !bytes.Equal(o.C.PeerCerts[1], p.Enc.Certificate[0]) {
					c.Violate("reconnect:server-certificates:"+key, fmt.Sprintf("[%s] the client reports %d peer certificates (resumed=%v)", label, len(o.C.PeerCerts), o.C.DidResume), nil, label)
				}
				wantClientCert := policies[pi] != gmtls.NoClientCert
				if wantClientCert && (len(o.S.PeerCerts) == 0 || !bytes.Equal(o.S.PeerCerts[0], p.Client.Certificate[0])) {
					c.Violate("reconnect:client-certificate:"+key, fmt.Sprintf("[%s] the server reports %d peer certificates although its policy asks for one and the client has one (resumed=%v)", label, len(o.S.PeerCerts), o.S.DidResume), nil, label)
				}
				if !bytes.Equal(o.S.Read, []byte("c->s")) || !bytes.Equal(o.C.Read, []byte("s->c")) {
					c.Violate("reconnect:data:"+key, fmt.Sprintf("[%s] %s", label, o.Describe()), nil, label)
				}
			}
		}
		c.Sample(fmt.Sprintf("GMSSL %04x, client authentication: every sequence up to length %d over {connect, rotate keeping / dropping the old key, next ClientAuth policy}", suite, depth))
	}}
}

// autoReconnectUnit: ONE auto-switch server Config (GMSSL and TLS on one listener, one set of ticket
// keys) serving a GMSSL client and a TLS 1.2 client, each with its own session cache; every sequence of
// {connect as GMSSL, connect as TLS, rotate the ticket keys keeping / dropping the old key}. Every
// connection completes - resumed or, when the ticket is no longer accepted, by a full handshake - and
// both ends agree on version, suite, resumption and keying material.
func autoReconnectUnit(depth int) harness.Unit {
	return harness.Unit{Name: fmt.Sprintf("reconnect/auto-switch/depth%d", depth), Run: func(c *harness.Ctx) {
		p := tlsk.Get()
		opName := []string{"connect(GMSSL client)", "connect(TLS 1.2 client)", "rotate ticket keys (old key kept)", "rotate ticket keys (old key dropped)"}
		var seqs [][]int
		var rec func(cur []int)
		rec = func(cur []int) {
			if len(cur) > 0 && cur[len(cur)-1] < 2 {
				seqs = append(seqs, append([]int{}, cur...))
			}
			if len(cur) == depth {
				return
			}
			for op := 0; op < 4; op++ {
				rec(append(cur, op))
			}
		}
		rec(nil)
		app := [2]tlsk.App{{Writes: [][]byte{[]byte("c->s")}, Expect: 4}, {Writes: [][]byte{[]byte("s->c")}, Expect: 4}}
		for _, sq := range seqs {
			sc, err := gmtls.NewBasicAutoSwitchConfig(&p.Sign, &p.Enc, &p.ECDSA)
			if err != nil {
				c.Violate("reconnect:auto-switch-setup", err.Error(), nil, nil)
				return
			}
			sc.Time, sc.Rand = tlsk.FixedTime, wire.NewRand(11)
			keys := [][32]byte{{1}}
			sc.SetSessionTicketKeys(keys)
			gmc := &gmtls.Config{GMSupport: &gmtls.GMSupport{}, RootCAs: p.Roots, ServerName: tlsk.ServerName, Time: tlsk.FixedTime, Rand: wire.NewRand(22), ClientSessionCache: gmtls.NewLRUClientSessionCache(2)}
			tlc := &gmtls.Config{RootCAs: p.StdRootsG, ServerName: tlsk.ServerName, Time: tlsk.FixedTime, Rand: wire.NewRand(23), MinVersion: 0x0303, MaxVersion: 0x0303, ClientSessionCache: gmtls.NewLRUClientSessionCache(2)}
			hist := ""
			for i, op := range sq {
				hist += opName[op] + "; "
				if op >= 2 {
					nk := [32]byte{byte(10 + i)}
					if op == 2 {
						keys = append([][32]byte{nk}, keys...)
					} else {
						keys = [][32]byte{nk}
					}
					sc.SetSessionTicketKeys(keys)
					continue
				}
				cc := gmc
				if op == 1 {
					cc = tlc
				}
				var cv, sv tlsk.View
				o := tlsk.Run(tlsk.GMEnd(cc, true, app[0], &cv, nil), tlsk.GMEnd(sc, false, app[1], &sv, nil), &cv, &sv, nil)
				if i != len(sq)-1 {
					continue
				}
				label := "auto-switch server: " + hist
				key := "auto:" + hist
				c.Add("executions", 1)
				c.Add("transitions", int64(len(sq)))
				c.DistinctS("states", label)
				c.DistinctS("outcomes", fmt.Sprintf("c=%v s=%v resumed=%v/%v", o.C.Complete, o.S.Complete, o.C.DidResume, o.S.DidResume))
				if o.C.Panic != nil || o.S.Panic != nil {
					c.Violate("reconnect:panic:"+panicSite(o.C.Stack+o.S.Stack), fmt.Sprintf("[%s] endpoint panicked: client=%v server=%v\n%s", label, o.C.Panic, o.S.Panic, clip(o.C.Stack+o.S.Stack, 1500)), nil, label)
					continue
				}
				if len(o.Stuck) > 0 || o.Horizon {
					c.Violate("reconnect:hang:"+key, fmt.Sprintf("[%s] endpoints did not finish: %v", label, o.Stuck), nil, label)
					continue
				}
				if !o.C.Complete || !o.S.Complete {
					c.Violate("reconnect:fails:"+key, fmt.Sprintf("[%s] a correctly configured pair must complete every connection: %s", label, o.Describe()), nil, label)
					continue
				}
				wantV := uint16(0x0101)
				if op == 1 {
					wantV = 0x0303
				}
				if o.C.Version != wantV || o.C.Version != o.S.Version || o.C.Suite != o.S.Suite || o.C.DidResume != o.S.DidResume || !bytes.Equal(o.C.EKM, o.S.EKM) {
					c.Violate("reconnect:views-differ:"+key, fmt.Sprintf("[%s] %s", label, o.Describe()), nil, label)
				}
				if !bytes.Equal(o.S.Read, []byte("c->s")) || !bytes.Equal(o.C.Read, []byte("s->c")) {
					c.Violate("reconnect:data:"+key, fmt.Sprintf("[%s] %s", label, o.Describe()), nil, label)
				}
			}
		}
		c.Sample(fmt.Sprintf("auto-switch server, GMSSL and TLS 1.2 clients with session caches: every sequence up to length %d over {connect GMSSL, connect TLS, rotate keeping / dropping the old key}", depth))
	}}
}
