package c06

import (
	"bytes"
	"fmt"

	"github.com/tjfoc/gmsm/gmtls"

	"verif/mc/harness"
	"verif/mc/props/pu"
	"verif/mc/ref/gmref"
	"verif/mc/tlsk"
	"verif/mc/wire"
)

// refInteropUnit: the library against the independent GM/T 0024 implementation gmref as an ACTIVE
// peer, in both roles: every suite x server mode x ClientAuth policy x client certificate x
// fragmentation of the peer's handshake messages into records of 1, 7, 100 bytes or whole messages
// (all of which are conformant framings) x data exchanges; both sides must complete, gmref must
// verify every signature and Finished value the library produced, and data must arrive intact.
// RefInteropUnit is shared with C18 (handshake message decoders under every framing of the messages
// into records: whole, fragmented, several per record).
func RefInteropUnit(libIsClient bool, suite uint16) harness.Unit {
	return refInteropUnit(libIsClient, suite)
}

func refInteropUnit(libIsClient bool, suite uint16) harness.Unit {
	return harness.Unit{Name: fmt.Sprintf("reference-peer-interop/library-client=%v/%04x", libIsClient, suite), Run: func(c *harness.Ctx) {
		p := tlsk.Get()
		policies := []gmtls.ClientAuthType{gmtls.NoClientCert, gmtls.RequestClientCert, gmtls.RequireAnyClientCert, gmtls.VerifyClientCertIfGiven, gmtls.RequireAndVerifyClientCert}
		for _, frag := range []int{0, 1, 7, 100, -1} { // -1: the peer packs each flight's handshake messages into one record
			for _, pol := range policies {
				for _, withCert := range []bool{false, true} {
					for _, auto := range []bool{false, true} {
						if libIsClient && (auto || (pol != gmtls.NoClientCert && pol != gmtls.RequestClientCert)) {
							continue // the scripted server only asks or does not ask
						}
						payloadC, payloadS := pu.Msg(frag+2, 3000+frag), pu.Msg(frag+3, 70000)
						var cfg *gmtls.Config
						var id gmref.Identity
						needCert := pol == gmtls.RequireAnyClientCert || pol == gmtls.RequireAndVerifyClientCert
						expectOK := true
						tlsMode := suite == gmref.SuiteAESCBC || suite == gmref.SuiteAESGCM
						if tlsMode && auto {
							continue
						}
						if tlsMode && libIsClient {
							cfg = &gmtls.Config{RootCAs: p.StdRootsG, ServerName: tlsk.ServerName, Time: tlsk.FixedTime, Rand: wire.NewRand(61), CipherSuites: []uint16{suite}, MinVersion: 0x0303, MaxVersion: 0x0303}
							if withCert {
								cfg.Certificates = []gmtls.Certificate{p.StdClient}
							}
							id = gmref.Identity{Certs: [][]byte{p.RSA.Certificate[0]}, RSAKey: p.RSAKey}
						} else if tlsMode {
							cfg = &gmtls.Config{Certificates: []gmtls.Certificate{p.RSA}, Time: tlsk.FixedTime, Rand: wire.NewRand(62), CipherSuites: []uint16{suite}, ClientAuth: pol, ClientCAs: p.StdRootsG, MinVersion: 0x0303, MaxVersion: 0x0303}
							id = gmref.Identity{Certs: [][]byte{p.StdClient.Certificate[0]}, TLSKey: p.StdClient.PrivateKey}
							expectOK = withCert || !needCert
						} else if libIsClient {
							cfg = &gmtls.Config{GMSupport: &gmtls.GMSupport{}, RootCAs: p.Roots, ServerName: tlsk.ServerName, Time: tlsk.FixedTime, Rand: wire.NewRand(61), CipherSuites: []uint16{suite}}
							if withCert {
								cfg.Certificates = []gmtls.Certificate{p.Client}
							}
							id = tlsk.ServerIdentity()
						} else {
							cfg = &gmtls.Config{GMSupport: &gmtls.GMSupport{}, Certificates: []gmtls.Certificate{p.Sign, p.Enc}, Time: tlsk.FixedTime, Rand: wire.NewRand(62), CipherSuites: []uint16{suite}, ClientAuth: pol, ClientCAs: p.Roots}
							if auto {
								cfg = &gmtls.Config{GMSupport: &gmtls.GMSupport{}, Time: tlsk.FixedTime, Rand: wire.NewRand(62), CipherSuites: []uint16{suite, gmtls.TLS_ECDHE_ECDSA_WITH_AES_128_GCM_SHA256}, ClientAuth: pol, ClientCAs: p.Roots,
									GetCertificate:   func(*gmtls.ClientHelloInfo) (*gmtls.Certificate, error) { return &p.ECDSA, nil },
									GetKECertificate: func(*gmtls.ClientHelloInfo) (*gmtls.Certificate, error) { return &p.Enc, nil },
									Certificates:     []gmtls.Certificate{p.Sign, p.Enc}}
								cfg.GMSupport.EnableMixMode()
							}
							id = tlsk.ClientIdentity()
							expectOK = withCert || !needCert
						}
						libApp := tlsk.App{Writes: [][]byte{payloadC}, Expect: len(payloadS)}
						if !libIsClient {
							libApp = tlsk.App{Writes: [][]byte{payloadS}, Expect: len(payloadC)}
						}
						data := func(q *gmref.Peer) error {
							mine, theirs := payloadS, payloadC
							if q.Client {
								mine, theirs = payloadC, payloadS
							}
							for off := 0; off < len(mine); off += 16384 {
								end := off + 16384
								if end > len(mine) {
									end = len(mine)
								}
								if err := q.WriteRecord(gmref.RecApp, mine[off:end]); err != nil {
									return err
								}
							}
							if err := q.ReadApp(len(theirs)); err != nil {
								return err
							}
							return q.CloseNotify()
						}
						setup := func(q *gmref.Peer) {
							if tlsMode {
								q.UseTLS()
							}
							q.Suites = []uint16{suite}
							if frag < 0 {
								q.Coalesce = true
							} else {
								q.Fragment = frag
							}
							q.RequestCert = pol != gmtls.NoClientCert
							if q.RequestCert && !tlsMode {
								q.CAs = [][]byte{p.CA.RawSubject}
							}
						}
						o := tlsk.RunLibVsRef(cfg, libIsClient, libApp, id, 63, setup, &gmref.Script{SendClientCert: withCert, Data: data}, nil)
						tag := fmt.Sprintf("library-client=%v suite=%04x auto-switch=%v ClientAuth=%d client-certificate=%v peer-fragment=%d", libIsClient, suite, auto, pol, withCert, frag)
						c.Add("executions", 1)
						c.Add("transitions", 1)
						c.DistinctS("states", tag)
						if c.WantSample() {
							c.Sample(tag)
						}
						c.DistinctS("outcomes", fmt.Sprintf("%v/%v", o.Lib.Complete, o.Ref.Res.Completed))
						if o.Lib.Panic != nil || o.Ref.Panic != nil || o.LibStuck || o.Horizon {
							c.Violate("reference-peer:crash-or-hang", fmt.Sprintf("[%s] %s\n%s", tag, o.Describe(), clip(o.Lib.Stack, 1200)), nil, tag)
							continue
						}
						if !expectOK {
							if o.Lib.Complete {
								c.Violate("reference-peer:completes-without-required-certificate", fmt.Sprintf("[%s] %s", tag, o.Describe()), nil, tag)
							}
							continue
						}
						if !o.Lib.Complete || !o.Ref.Res.Completed || o.Ref.Res.Err != nil {
							c.Violate(fmt.Sprintf("reference-peer:honest-handshake-fails:library-client=%v:frag=%d", libIsClient, frag), fmt.Sprintf("[%s] the library and the independent implementation do not complete an honest exchange: %s", tag, o.Describe()), nil, tag)
							continue
						}
						peer := o.Ref.Peer
						for k, v := range peer.Checks {
							if !v {
								c.Violate("reference-peer:library-proof-wrong:"+k, fmt.Sprintf("[%s] the reference peer could not verify what the library sent (%s): %s", tag, k, o.Describe()), nil, tag)
							}
						}
						wantSeen := "ske-signature"
						if libIsClient || tlsMode {
							wantSeen = "peer-finished"
						}
						if _, ok := peer.Checks[wantSeen]; !ok {
							c.Violate("reference-peer:proof-not-seen:"+wantSeen, fmt.Sprintf("[%s] %s", tag, o.Describe()), nil, tag)
						}
						if !libIsClient && withCert && pol != gmtls.NoClientCert {
							// the library server must have seen the client certificate
							if len(o.Lib.PeerCerts) == 0 {
								c.Violate("reference-peer:client-certificate-lost", fmt.Sprintf("[%s] %s", tag, o.Describe()), nil, tag)
							}
						}
						// exported keying material and channel binding against the reference's own derivation
						if want := peer.EKM("EXPORTER-verif", []byte("ctx"), 32); !bytes.Equal(o.Lib.EKM, want) || o.Lib.EKMErr != nil {
							c.Violate("reference-peer:exported-keying-material", fmt.Sprintf("[%s] ExportKeyingMaterial gives %x (%v), RFC 5705 over the session's master secret gives %x", tag, o.Lib.EKM, o.Lib.EKMErr, want), nil, tag)
						}
						if !bytes.Equal(o.Lib.TLSUnique, peer.ClientVerify) {
							c.Violate("reference-peer:tls-unique", fmt.Sprintf("[%s] ConnectionState.TLSUnique is %x, the first Finished of this full handshake carried %x", tag, o.Lib.TLSUnique, peer.ClientVerify), nil, tag)
						}
						libWant, refWant := payloadS, payloadC
						if !libIsClient {
							libWant, refWant = payloadC, payloadS
						}
						if !bytes.Equal(o.Lib.Read, libWant) || !bytes.Equal(peer.Received, refWant) {
							c.Violate("reference-peer:data-differs", fmt.Sprintf("[%s] library read %d bytes (want %d), reference peer read %d (want %d)", tag, len(o.Lib.Read), len(libWant), len(peer.Received), len(refWant)), nil, tag)
						}
					}
				}
			}
		}
	}}
}

// refSizesUnit: payload sizes around the internal buffer capacities of the record layer (powers of
// two minus the overhead of either suite), written by the library as single Writes to the reference
// peer and sent by the reference peer as single records to the library; both streams must arrive
// intact and every record must authenticate under the reference.
func refSizesUnit(libIsClient bool, suite uint16) harness.Unit {
	return harness.Unit{Name: fmt.Sprintf("reference-peer-sizes/library-client=%v/%04x", libIsClient, suite), Run: func(c *harness.Ctx) {
		p := tlsk.Get()
		var sizes []int
		for k := uint(9); k <= 14; k++ {
			for n := 1<<k - 72; n <= 1<<k+8; n++ {
				sizes = append(sizes, n)
			}
		}
		var libWrites [][]byte
		var libStream, refStream []byte
		for i, n := range sizes {
			w := pu.Msg(i, n)
			libWrites = append(libWrites, w)
			libStream = append(libStream, w...)
		}
		var cfg *gmtls.Config
		var id gmref.Identity
		tlsMode := suite == gmref.SuiteAESCBC || suite == gmref.SuiteAESGCM
		switch {
		case tlsMode && libIsClient:
			cfg = &gmtls.Config{RootCAs: p.StdRootsG, ServerName: tlsk.ServerName, Time: tlsk.FixedTime, Rand: wire.NewRand(65), CipherSuites: []uint16{suite}, MinVersion: 0x0303, MaxVersion: 0x0303}
			id = gmref.Identity{Certs: [][]byte{p.RSA.Certificate[0]}, RSAKey: p.RSAKey}
		case tlsMode:
			cfg = &gmtls.Config{Certificates: []gmtls.Certificate{p.RSA}, Time: tlsk.FixedTime, Rand: wire.NewRand(66), CipherSuites: []uint16{suite}, MinVersion: 0x0303, MaxVersion: 0x0303}
		case libIsClient:
			cfg = &gmtls.Config{GMSupport: &gmtls.GMSupport{}, RootCAs: p.Roots, ServerName: tlsk.ServerName, Time: tlsk.FixedTime, Rand: wire.NewRand(65), CipherSuites: []uint16{suite}}
			id = tlsk.ServerIdentity()
		default:
			cfg = &gmtls.Config{GMSupport: &gmtls.GMSupport{}, Certificates: []gmtls.Certificate{p.Sign, p.Enc}, Time: tlsk.FixedTime, Rand: wire.NewRand(66), CipherSuites: []uint16{suite}}
		}
		for i, n := range sizes {
			refStream = append(refStream, pu.Msg(5000+i, n)...)
		}
		data := func(q *gmref.Peer) error {
			off := 0
			for _, n := range sizes {
				// one record per payload; a payload over 2^14 bytes must be split by any sender
				for rest := n; rest > 0 || n == 0; {
					k := rest
					if k > 16384 {
						k = 16384
					}
					if err := q.WriteRecord(gmref.RecApp, refStream[off:off+k]); err != nil {
						return err
					}
					off += k
					rest -= k
					if n == 0 {
						break
					}
				}
			}
			if err := q.ReadApp(len(libStream)); err != nil {
				return err
			}
			return q.CloseNotify()
		}
		o := tlsk.RunLibVsRef(cfg, libIsClient, tlsk.App{Writes: libWrites, Expect: len(refStream)}, id, 67, func(q *gmref.Peer) {
			if tlsMode {
				q.UseTLS()
			}
			q.Suites = []uint16{suite}
		}, &gmref.Script{Data: data}, nil)
		tag := fmt.Sprintf("library-client=%v suite=%04x: %d payload sizes 2^k-72..2^k+8 (k=9..14) in each direction", libIsClient, suite, len(sizes))
		c.Add("executions", 1)
		c.Add("transitions", int64(2*len(sizes)))
		c.DistinctS("states", tag)
		c.Sample(tag)
		if o.Lib.Panic != nil || o.Ref.Panic != nil || o.LibStuck || o.Horizon {
			c.Violate("reference-peer-sizes:crash-or-hang", fmt.Sprintf("[%s] %s", tag, o.Describe()), nil, tag)
			return
		}
		peer := o.Ref.Peer
		if !o.Lib.Complete || peer == nil || o.Ref.Res.Err != nil || !bytes.Equal(peer.Received, libStream) {
			got := 0
			if peer != nil {
				got = len(peer.Received)
			}
			c.Violate(fmt.Sprintf("reference-peer-sizes:library-to-reference:%04x", suite), fmt.Sprintf("[%s] the reference peer authenticated and read %d of %d bytes the library wrote, then: %v", tag, got, len(libStream), o.Ref.Res.Err), nil, tag)
		}
		if !bytes.Equal(o.Lib.Read, refStream) {
			c.Violate(fmt.Sprintf("reference-peer-sizes:reference-to-library:%04x", suite), fmt.Sprintf("[%s] the library read %d of %d bytes the reference peer sent (read error %v)", tag, len(o.Lib.Read), len(refStream), o.Lib.ReadErr), nil, tag)
		}
	}}
}
