package c06

import (
	"bytes"
	"fmt"

	"github.com/tjfoc/gmsm/gmtls"

	"verif/mc/harness"
	"verif/mc/tlsk"
	"verif/mc/wire"
)

// ---- a second session in the middle of the first --------------------------------------------------
//
// A handshake is a sequence of records; a process that talks to two servers has the records of two
// handshakes interleaved in time. Session A (client to server A) is stopped before its k-th record is
// delivered, for EVERY k; at that moment a complete session B - another client Config, another server
// with OTHER certificates - runs from handshake to close; then A continues. Both sessions must be
// what they are when run alone: complete, each client seeing its own server's certificates, data
// intact. (No goroutine scheduling is involved: while B runs, both ends of A wait for the network.)

type nestPolicy struct {
	at    int
	seen  int
	fired bool
	inner func()
}

func (p *nestPolicy) Deliver(n *wire.Net, r wire.Record) [][]byte {
	if p.seen == p.at && !p.fired {
		p.fired = true
		p.inner()
	}
	p.seen++
	return [][]byte{r.Raw}
}
func (p *nestPolicy) OnIdle(n *wire.Net) bool { return false }

func nestedSessionsUnit(flavourA, flavourB int) harness.Unit {
	fns := []string{"GMSSL e013", "GMSSL e053", "TLS 1.2"}
	fn := fns[flavourA]
	if flavourB != flavourA {
		fn += " with " + fns[flavourB] + " inside"
	}
	return harness.Unit{Name: "nested-sessions/" + fn, Run: func(c *harness.Ctx) {
		p := tlsk.Get()
		mk := func(which int, seed byte) (*gmtls.Config, *gmtls.Config, [][]byte) {
			flavour := []int{flavourA, flavourB}[which]
			name := []string{tlsk.ServerName, "other.example.test"}[which]
			if flavour == 2 {
				certs := []gmtls.Certificate{p.ECDSA, p.StdServerCert([]string{"other.example.test"}, true)}
				sc := &gmtls.Config{Certificates: []gmtls.Certificate{certs[which]}, Time: tlsk.FixedTime, Rand: wire.NewRand(seed), MinVersion: 0x0303, MaxVersion: 0x0303}
				cc := &gmtls.Config{RootCAs: p.StdRootsG, ServerName: name, Time: tlsk.FixedTime, Rand: wire.NewRand(seed + 1), MinVersion: 0x0303, MaxVersion: 0x0303}
				return cc, sc, [][]byte{certs[which].Certificate[0]}
			}
			suite := []uint16{cbc, gcm}[flavour]
			pairs := [][]gmtls.Certificate{{p.Sign, p.Enc}, {p.Sign2, p.Enc2}} // the second identity has keys of its own
			name = tlsk.ServerName
			sc := &gmtls.Config{GMSupport: &gmtls.GMSupport{}, Certificates: pairs[which], Time: tlsk.FixedTime, Rand: wire.NewRand(seed), CipherSuites: []uint16{suite}}
			cc := &gmtls.Config{GMSupport: &gmtls.GMSupport{}, RootCAs: p.Roots, ServerName: name, Time: tlsk.FixedTime, Rand: wire.NewRand(seed + 1), CipherSuites: []uint16{suite}}
			return cc, sc, [][]byte{pairs[which][0].Certificate[0], pairs[which][1].Certificate[0]}
		}
		judge := func(tag, who string, o *tlsk.Outcome, want [][]byte, msgC, msgS string) bool {
			if o.C.Panic != nil || o.S.Panic != nil || len(o.Stuck) > 0 || o.Horizon {
				c.Violate("nested-sessions:crash-or-hang:"+fn, fmt.Sprintf("[%s] session %s: %s\n%s", tag, who, o.Describe(), clip(o.C.Stack+o.S.Stack, 1200)), nil, tag)
				return false
			}
			if !o.C.Complete || !o.S.Complete || string(o.S.Read) != msgC || string(o.C.Read) != msgS {
				c.Violate("nested-sessions:fails:"+fn, fmt.Sprintf("[%s] session %s is not what it is when run alone: %s", tag, who, o.Describe()), nil, tag)
				return false
			}
			if len(o.C.PeerCerts) != len(want) {
				c.Violate("nested-sessions:peer-certificates:"+fn, fmt.Sprintf("[%s] the client of session %s reports %d peer certificates", tag, who, len(o.C.PeerCerts)), nil, tag)
				return false
			}
			for i := range want {
				if !bytes.Equal(o.C.PeerCerts[i], want[i]) {
					c.Violate("nested-sessions:peer-certificates:"+fn, fmt.Sprintf("[%s] the client of session %s reports another server's certificate", tag, who), nil, tag)
					return false
				}
			}
			return true
		}
		fired := 0
		for at := 0; at < 40; at++ {
			ccA, scA, wantA := mk(0, 10)
			ccB, scB, wantB := mk(1, 20)
			var oB *tlsk.Outcome
			pol := &nestPolicy{at: at, inner: func() {
				var cv, sv tlsk.View
				oB = tlsk.Run(tlsk.GMEnd(ccB, true, tlsk.App{Writes: [][]byte{[]byte("b-ping")}, Expect: 6}, &cv, nil), tlsk.GMEnd(scB, false, tlsk.App{Writes: [][]byte{[]byte("b-pong")}, Expect: 6}, &sv, nil), &cv, &sv, nil)
			}}
			var cv, sv tlsk.View
			oA := tlsk.Run(tlsk.GMEnd(ccA, true, tlsk.App{Writes: [][]byte{[]byte("a-ping")}, Expect: 6}, &cv, nil), tlsk.GMEnd(scA, false, tlsk.App{Writes: [][]byte{[]byte("a-pong")}, Expect: 6}, &sv, nil), &cv, &sv, pol)
			if !pol.fired {
				break // session A has fewer records than that
			}
			fired++
			tag := fmt.Sprintf("%s: session B runs completely before record %d of session A is delivered", fn, at)
			c.Add("executions", 1)
			c.Add("transitions", 2)
			c.DistinctS("states", tag)
			if oB == nil {
				c.Violate("nested-sessions:inner-not-run", tag, nil, tag)
				continue
			}
			if judge(tag, "B", oB, wantB, "b-ping", "b-pong") {
				judge(tag, "A", oA, wantA, "a-ping", "a-pong")
			}
		}
		if fired < 5 {
			c.Violate("nested-sessions:vacuous", fmt.Sprintf("%s: only %d interruption points", fn, fired), nil, nil)
		}
		c.Sample(fmt.Sprintf("%s: %d interruption points (every record of session A), session B to another server with other certificates", fn, fired))
	}}
}
