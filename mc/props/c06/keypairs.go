package c06

import (
	"bytes"
	"crypto"
	"crypto/ecdsa"
	"crypto/rsa"
	stdx509 "crypto/x509"
	"encoding/pem"
	"fmt"
	"os"
	"path/filepath"

	"github.com/tjfoc/gmsm/gmtls"
	"github.com/tjfoc/gmsm/sm2"
	gx509 "github.com/tjfoc/gmsm/x509"

	"verif/mc/harness"
	"verif/mc/tlsk"
	"verif/mc/wire"
)

// ---- certificates and keys supplied as PEM ----------------------------------------------------------
//
// The documented way to configure an endpoint is to load certificate and key from PEM (X509KeyPair,
// GMX509KeyPairsSingle, GMX509KeyPairs and their file-reading forms). Every identity of the test PKI is
// written in every PEM shape the loaders claim to understand (key formats, chains, foreign blocks
// before / between / after, certificate and key in one input) and loaded; what comes out must be the
// certificates that went in, in order, with the key that belongs to the first one, and an endpoint
// configured with it must complete a handshake. A key that belongs to another certificate must be
// refused by the loader.

func pemBlock(t string, der []byte) []byte {
	return pem.EncodeToMemory(&pem.Block{Type: t, Bytes: der})
}

type keyForm struct {
	name     string
	pem      []byte
	optional bool // a format the loaders need not understand (a clean error is fine; a loaded key must be the right one)
}

func keyForms(k crypto.PrivateKey) []keyForm {
	var out []keyForm
	switch key := k.(type) {
	case *sm2.PrivateKey:
		if der, err := gx509.MarshalSm2UnecryptedPrivateKey(key); err == nil {
			out = append(out, keyForm{"PKCS#8 (PRIVATE KEY)", pemBlock("PRIVATE KEY", der), false}, keyForm{"PKCS#8 labelled EC PRIVATE KEY", pemBlock("EC PRIVATE KEY", der), false})
		}
		if p, err := gx509.WritePrivateKeyToPem(key, nil); err == nil {
			out = append(out, keyForm{"x509.WritePrivateKeyToPem", p, false})
		}
	case *ecdsa.PrivateKey:
		if der, err := stdx509.MarshalECPrivateKey(key); err == nil {
			// this fork's loaders know PKCS#1, PKCS#8 and the SM2 PKCS#8 form; SEC 1 is not among them
			out = append(out, keyForm{"SEC 1 (EC PRIVATE KEY)", pemBlock("EC PRIVATE KEY", der), true})
		}
		if der, err := stdx509.MarshalPKCS8PrivateKey(key); err == nil {
			out = append(out, keyForm{"PKCS#8 (PRIVATE KEY)", pemBlock("PRIVATE KEY", der), false})
		}
	case *rsa.PrivateKey:
		out = append(out, keyForm{"PKCS#1 (RSA PRIVATE KEY)", pemBlock("RSA PRIVATE KEY", stdx509.MarshalPKCS1PrivateKey(key)), false})
		if der, err := stdx509.MarshalPKCS8PrivateKey(key); err == nil {
			out = append(out, keyForm{"PKCS#8 (PRIVATE KEY)", pemBlock("PRIVATE KEY", der), false})
		}
	}
	return out
}

type certForm struct {
	name  string
	pem   []byte
	chain [][]byte
}

func certForms(leaf, ca []byte) []certForm {
	l, c := pemBlock("CERTIFICATE", leaf), pemBlock("CERTIFICATE", ca)
	junk := pemBlock("X509 CRL", []byte{0x30, 0x00})
	cat := func(bs ...[]byte) []byte { return bytes.Join(bs, nil) }
	return []certForm{
		{"leaf", l, [][]byte{leaf}},
		{"leaf + issuer", cat(l, c), [][]byte{leaf, ca}},
		{"text, leaf", cat([]byte("subject=/CN=leaf\nissuer=/CN=ca\n"), l), [][]byte{leaf}},
		{"foreign block, leaf, foreign block, issuer", cat(junk, l, junk, c), [][]byte{leaf, ca}},
		{"leaf with trailing text", cat(l, []byte("\n# end of file\n")), [][]byte{leaf}},
	}
}

func publicOf(k crypto.PrivateKey) crypto.PublicKey {
	if s, ok := k.(crypto.Signer); ok {
		return s.Public()
	}
	return nil
}

func keyPairUnit() harness.Unit {
	return harness.Unit{Name: "key-pairs-from-pem", Run: func(c *harness.Ctx) {
		p := tlsk.Get()
		type ident struct {
			name string
			cert gmtls.Certificate
			ca   []byte
			gm   bool
		}
		ids := []ident{
			{"SM2 signing certificate", p.Sign, p.CA.Raw, true}, {"SM2 encryption certificate", p.Enc, p.CA.Raw, true}, {"SM2 client certificate", p.Client, p.CA.Raw, true},
			{"ECDSA server certificate", p.ECDSA, p.StdCA.Raw, false}, {"RSA server certificate", p.RSA, p.StdCA.Raw, false},
		}
		dir, err := os.MkdirTemp(os.Getenv("VERIF_SCRATCH"), "keypairs-")
		if err != nil {
			c.Note("no scratch directory: %v", err)
			return
		}
		defer os.RemoveAll(dir)
		app := [2]tlsk.App{{Writes: [][]byte{[]byte("c->s")}, Expect: 4}, {Writes: [][]byte{[]byte("s->c")}, Expect: 4}}
		check := func(tag, key string, got gmtls.Certificate, err error, want [][]byte, priv crypto.PrivateKey, optional, prefixOK bool) bool {
			c.Add("executions", 1)
			c.Add("transitions", 1)
			c.DistinctS("states", tag)
			if err != nil {
				if !optional {
					c.Violate("key-pairs:matching-pair-refused:"+key, fmt.Sprintf("[%s] %v", tag, err), nil, tag)
				}
				return false
			}
			if prefixOK && len(got.Certificate) >= 1 && len(got.Certificate) < len(want) {
				want = want[:len(got.Certificate)] // the GM single-pair loaders may keep the first certificate only
			}
			if len(got.Certificate) != len(want) {
				c.Violate("key-pairs:certificate-list:"+key, fmt.Sprintf("[%s] %d certificates loaded, the input has %d", tag, len(got.Certificate), len(want)), nil, tag)
				return false
			}
			for i := range want {
				if !bytes.Equal(got.Certificate[i], want[i]) {
					c.Violate("key-pairs:certificate-list:"+key, fmt.Sprintf("[%s] certificate %d differs from the input", tag, i), nil, tag)
					return false
				}
			}
			if fmt.Sprint(publicOf(got.PrivateKey)) != fmt.Sprint(publicOf(priv)) {
				c.Violate("key-pairs:other-key:"+key, fmt.Sprintf("[%s] the loaded private key is not the one that was written", tag), nil, tag)
				return false
			}
			return true
		}
		handshake := func(tag, key string, sign, enc *gmtls.Certificate, std *gmtls.Certificate) {
			var sc, cc *gmtls.Config
			if std != nil {
				sc = &gmtls.Config{Certificates: []gmtls.Certificate{*std}, Time: tlsk.FixedTime, Rand: wire.NewRand(11)}
				cc = &gmtls.Config{RootCAs: p.StdRootsG, ServerName: tlsk.ServerName, Time: tlsk.FixedTime, Rand: wire.NewRand(22)}
			} else {
				sc = &gmtls.Config{GMSupport: &gmtls.GMSupport{}, Certificates: []gmtls.Certificate{*sign, *enc}, Time: tlsk.FixedTime, Rand: wire.NewRand(11)}
				cc = &gmtls.Config{GMSupport: &gmtls.GMSupport{}, RootCAs: p.Roots, ServerName: tlsk.ServerName, Time: tlsk.FixedTime, Rand: wire.NewRand(22)}
			}
			var cv, sv tlsk.View
			o := tlsk.Run(tlsk.GMEnd(cc, true, app[0], &cv, nil), tlsk.GMEnd(sc, false, app[1], &sv, nil), &cv, &sv, nil)
			if o.C.Panic != nil || o.S.Panic != nil || len(o.Stuck) > 0 || o.Horizon {
				c.Violate("key-pairs:crash-or-hang:"+key, fmt.Sprintf("[%s] %s\n%s", tag, o.Describe(), clip(o.C.Stack+o.S.Stack, 1200)), nil, tag)
				return
			}
			if !o.C.Complete || !o.S.Complete || !bytes.Equal(o.C.Read, []byte("s->c")) {
				c.Violate("key-pairs:loaded-identity-unusable:"+key, fmt.Sprintf("[%s] a server configured with the loaded pair does not complete: %s", tag, o.Describe()), nil, tag)
			}
		}
		n := 0
		for _, id := range ids {
			for _, kf := range keyForms(id.cert.PrivateKey) {
				for _, cf := range certForms(id.cert.Certificate[0], id.ca) {
					for li, loader := range []string{"X509KeyPair", "GMX509KeyPairsSingle", "LoadX509KeyPair", "LoadGMX509KeyPair", "X509KeyPair(certificate and key in one input, twice)"} {
						tag := fmt.Sprintf("%s, key as %s, certificates as [%s], loaded with %s", id.name, kf.name, cf.name, loader)
						key := fmt.Sprintf("%s:%s:%s:%s", id.name, kf.name, cf.name, loader)
						var got gmtls.Certificate
						var err error
						wantChain := cf.chain
						n++
						cfile, kfile := filepath.Join(dir, fmt.Sprintf("c%d.pem", n)), filepath.Join(dir, fmt.Sprintf("k%d.pem", n))
						switch li {
						case 0:
							got, err = gmtls.X509KeyPair(cf.pem, kf.pem)
						case 1:
							got, err = gmtls.GMX509KeyPairsSingle(cf.pem, kf.pem)

						case 2, 3:
							os.WriteFile(cfile, cf.pem, 0o600)
							os.WriteFile(kfile, kf.pem, 0o600)
							if li == 2 {
								got, err = gmtls.LoadX509KeyPair(cfile, kfile)
							} else {
								got, err = gmtls.LoadGMX509KeyPair(cfile, kfile)

							}
						case 4:
							both := append(append([]byte{}, cf.pem...), kf.pem...)
							got, err = gmtls.X509KeyPair(both, both)
						}
						if !check(tag, key, got, err, wantChain, id.cert.PrivateKey, kf.optional, li == 1 || li == 3) {
							continue
						}
						switch id.name {
						case "SM2 signing certificate":
							enc := p.Enc
							handshake(tag, key, &got, &enc, nil)
						case "SM2 encryption certificate":
							sign := p.Sign
							handshake(tag, key, &sign, &got, nil)
						case "ECDSA server certificate", "RSA server certificate":
							handshake(tag, key, nil, nil, &got)
						}
					}
				}
			}
		}
		// the double-certificate loader of the GM path
		for _, skf := range keyForms(p.SignKey) {
			for _, ekf := range keyForms(p.EncKey) {
				tag := fmt.Sprintf("GMX509KeyPairs: signing key as %s, encryption key as %s", skf.name, ekf.name)
				got, err := gmtls.GMX509KeyPairs(pemBlock("CERTIFICATE", p.Sign.Certificate[0]), skf.pem, pemBlock("CERTIFICATE", p.Enc.Certificate[0]), ekf.pem)
				check(tag, "GMX509KeyPairs:"+skf.name+":"+ekf.name, got, err, [][]byte{p.Sign.Certificate[0], p.Enc.Certificate[0]}, p.SignKey, false, false)
			}
		}
		// keys of other certificates
		type pair struct {
			name      string
			cert, key gmtls.Certificate
		}
		for _, m := range []pair{
			{"SM2 signing certificate with the encryption key", p.Sign, p.Enc}, {"SM2 encryption certificate with the signing key", p.Enc, p.Sign}, {"SM2 certificate with an ECDSA P-256 key", p.Sign, p.ECDSA},
			{"ECDSA certificate with another ECDSA key", p.ECDSA, p.StdClient}, {"ECDSA certificate with an RSA key", p.ECDSA, p.RSA}, {"RSA certificate with another RSA key", p.RSA, p.StdClientRSA}, {"RSA certificate with an SM2 key", p.RSA, p.Sign},
			{"ECDSA certificate with an SM2 key", p.ECDSA, p.Sign},
		} {
			for _, kf := range keyForms(m.key.PrivateKey) {
				for li, loader := range []string{"X509KeyPair", "GMX509KeyPairsSingle"} {
					tag := fmt.Sprintf("%s (key as %s), loaded with %s", m.name, kf.name, loader)
					var err error
					var got gmtls.Certificate
					if li == 0 {
						got, err = gmtls.X509KeyPair(pemBlock("CERTIFICATE", m.cert.Certificate[0]), kf.pem)
					} else {
						got, err = gmtls.GMX509KeyPairsSingle(pemBlock("CERTIFICATE", m.cert.Certificate[0]), kf.pem)
					}
					c.Add("executions", 1)
					c.DistinctS("states", tag)
					if err == nil {
						c.Violate("key-pairs:foreign-key-accepted:"+m.name+":"+loader, fmt.Sprintf("[%s] the loader returned a Certificate (%d certificates) for a key that does not belong to it", tag, len(got.Certificate)), nil, tag)
					}
				}
			}
		}
		for _, m := range []pair{{"signing key for the encryption certificate", p.Enc, p.Sign}, {"encryption key for the signing certificate", p.Sign, p.Enc}} {
			for _, kf := range keyForms(m.key.PrivateKey) {
				good := keyForms(m.cert.PrivateKey)[0].pem
				var err error
				tag := fmt.Sprintf("GMX509KeyPairs with the %s (key as %s)", m.name, kf.name)
				if m.name[0] == 's' {
					_, err = gmtls.GMX509KeyPairs(pemBlock("CERTIFICATE", p.Sign.Certificate[0]), keyForms(p.SignKey)[0].pem, pemBlock("CERTIFICATE", p.Enc.Certificate[0]), kf.pem)
				} else {
					_, err = gmtls.GMX509KeyPairs(pemBlock("CERTIFICATE", p.Sign.Certificate[0]), kf.pem, pemBlock("CERTIFICATE", p.Enc.Certificate[0]), keyForms(p.EncKey)[0].pem)
				}
				_ = good
				c.Add("executions", 1)
				c.DistinctS("states", tag)
				if err == nil {
					c.Violate("key-pairs:foreign-key-accepted:GMX509KeyPairs:"+m.name, fmt.Sprintf("[%s] accepted", tag), nil, tag)
				}
			}
		}
		c.Sample("5 identities x their key formats x 5 certificate inputs x 5 loaders (in memory and from files): certificates, key and a handshake with the loaded identity; 8 foreign-key pairs must be refused")
	}}
}
