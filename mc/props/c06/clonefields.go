package c06

import (
	"fmt"
	"reflect"

	"github.com/tjfoc/gmsm/gmtls"

	"verif/mc/harness"
)

// ---- Config.Clone keeps the configuration ----------------------------------------------------------
//
// Dial, GetConfigForClient callbacks and credential wrappers hand the handshake a Clone of what the
// application configured. Every exported field of Config is set, one at a time and all together, to a
// value that differs from the zero value; the clone must carry the same value (functions: the same
// function; pointers and interfaces: the same object).

func cloneFieldsUnit() harness.Unit {
	return harness.Unit{Name: "clone-keeps-every-field", Run: func(c *harness.Ctx) {
		typ := reflect.TypeOf(gmtls.Config{})
		set := func(cfg *gmtls.Config, i int) bool {
			f := reflect.ValueOf(cfg).Elem().Field(i)
			if !f.CanSet() {
				return false
			}
			switch f.Kind() {
			case reflect.Bool:
				f.SetBool(true)
			case reflect.Int, reflect.Int8, reflect.Int16, reflect.Int32, reflect.Int64:
				f.SetInt(2)
			case reflect.Uint, reflect.Uint8, reflect.Uint16, reflect.Uint32, reflect.Uint64:
				f.SetUint(0x0302)
			case reflect.String:
				f.SetString("sentinel.example.test")
			case reflect.Slice:
				f.Set(reflect.MakeSlice(f.Type(), 2, 2))
			case reflect.Map:
				f.Set(reflect.MakeMap(f.Type()))
			case reflect.Ptr:
				f.Set(reflect.New(f.Type().Elem()))
			case reflect.Func:
				f.Set(reflect.MakeFunc(f.Type(), func(args []reflect.Value) []reflect.Value {
					out := make([]reflect.Value, f.Type().NumOut())
					for k := range out {
						out[k] = reflect.Zero(f.Type().Out(k))
					}
					return out
				}))
			case reflect.Interface:
				switch f.Type().String() {
				case "io.Reader":
					f.Set(reflect.ValueOf(sentinelRW{}))
				case "io.Writer":
					f.Set(reflect.ValueOf(sentinelRW{}))
				case "gmtls.ClientSessionCache":
					f.Set(reflect.ValueOf(gmtls.NewLRUClientSessionCache(3)))
				default:
					return false
				}
			case reflect.Array:
				if f.Len() > 0 && f.Index(0).Kind() == reflect.Uint8 {
					f.Index(0).SetUint(7)
				} else {
					return false
				}
			default:
				return false
			}
			return true
		}
		same := func(a, b reflect.Value) bool {
			switch a.Kind() {
			case reflect.Func:
				return a.IsNil() == b.IsNil() && (a.IsNil() || a.Pointer() == b.Pointer())
			case reflect.Ptr, reflect.Map:
				return a.Pointer() == b.Pointer()
			case reflect.Slice:
				return a.Len() == b.Len() && (a.Len() == 0 || a.Pointer() == b.Pointer() || reflect.DeepEqual(a.Interface(), b.Interface()))
			case reflect.Interface:
				return a.IsNil() == b.IsNil() && (a.IsNil() || reflect.DeepEqual(a.Interface(), b.Interface()))
			default:
				return reflect.DeepEqual(a.Interface(), b.Interface())
			}
		}
		all := &gmtls.Config{}
		var settable []int
		for i := 0; i < typ.NumField(); i++ {
			if typ.Field(i).PkgPath != "" {
				continue // unexported
			}
			one := &gmtls.Config{}
			if !set(one, i) {
				c.Note("field %s of kind %s is not exercised", typ.Field(i).Name, typ.Field(i).Type)
				continue
			}
			set(all, i)
			settable = append(settable, i)
			c.Add("executions", 1)
			c.Add("transitions", 1)
			c.DistinctS("states", "Config."+typ.Field(i).Name)
			cl := one.Clone()
			if !same(reflect.ValueOf(one).Elem().Field(i), reflect.ValueOf(cl).Elem().Field(i)) {
				c.Violate("clone-drops-field:"+typ.Field(i).Name, fmt.Sprintf("Config{%s: <set>}.Clone() does not carry the value of %s", typ.Field(i).Name, typ.Field(i).Name), nil, nil)
			}
		}
		cl := all.Clone()
		for _, i := range settable {
			if !same(reflect.ValueOf(all).Elem().Field(i), reflect.ValueOf(cl).Elem().Field(i)) {
				c.Violate("clone-drops-field:"+typ.Field(i).Name+":all-set", fmt.Sprintf("with every field set, Clone() does not carry the value of %s", typ.Field(i).Name), nil, nil)
			}
		}
		c.Sample(fmt.Sprintf("%d exported fields of Config, each set alone and all together, compared with the clone", len(settable)))
	}}
}

type sentinelRW struct{}

func (sentinelRW) Read(p []byte) (int, error)  { return len(p), nil }
func (sentinelRW) Write(p []byte) (int, error) { return len(p), nil }
