// Package c06: handshakes agree on parameters and keys, then carry data intact (DESIGN §3 C06).
package c06

import (
	"bytes"
	stdtls "crypto/tls"
	"encoding/hex"
	"fmt"
	"strings"
	"sync"

	"github.com/tjfoc/gmsm/gmtls"

	"verif/mc/harness"
	"verif/mc/props/c07"
	"verif/mc/props/pu"
	"verif/mc/ref/gmrec"
	"verif/mc/ref/gmref"
	"verif/mc/tlsk"
	"verif/mc/wire"
)

const (
	modeGM = iota
	modeAuto
	modeTLS
	modeStdServer // Go's crypto/tls as the server (the library is the client)
)

const (
	cliGM = iota
	cliTLS
	cliStd // Go's crypto/tls client
)

var modeNames = []string{"GMSSL-only", "auto-switch", "TLS-only", "crypto/tls-server"}
var cliNames = []string{"gmtls-GMSSL-client", "gmtls-TLS-client", "crypto/tls-client"}

const (
	cbc  = gmtls.GMTLS_ECC_SM4_CBC_SM3
	gcm  = gmtls.GMTLS_ECC_SM4_GCM_SM3
	ecbc = gmtls.GMTLS_ECDHE_SM4_CBC_SM3
	egcm = gmtls.GMTLS_ECDHE_SM4_GCM_SM3
)

type scenario struct {
	mode, client     int
	cSuites, sSuites []uint16
	preferServer     bool
	auth             gmtls.ClientAuthType
	clientCert       int // 0 absent, 1 trusted, 2 untrusted
	callbacks        bool
	ticketsOff       bool
	vers             uint16 // TLS clients: the only version offered (0 = default range)
	stdCert          int    // TLS server certificate: 0 ECDSA, 1 RSA
	extras           bool   // TLS: stapled OCSP response and SCTs on the server certificate, ALPN on both sides
	noDyn            bool   // DynamicRecordSizingDisabled on the library endpoints
	via              int    // how the library endpoints get their Config: 0 as built, 1 Config.Clone(), 2 server through GetConfigForClient returning a clone (client: clone)
}

func ex2(ex, base string) string { return base + ex }

func (s scenario) String() string {
	ex := ""
	if s.extras {
		ex = " extras(OCSP staple, SCTs, ALPN)"
	}
	if s.noDyn {
		ex += " DynamicRecordSizingDisabled"
	}
	if s.via != 0 {
		ex += []string{"", " via Config.Clone()", " via GetConfigForClient -> Clone()", " via GetConfigForClient behind a decoy Config"}[s.via]
	}
	return ex2(ex, fmt.Sprintf("server=%s client=%s cSuites=%04x sSuites=%04x preferServer=%v clientAuth=%d clientCert=%d callbacks=%v ticketsOff=%v vers=%04x stdCert=%d",
		modeNames[s.mode], cliNames[s.client], s.cSuites, s.sSuites, s.preferServer, s.auth, s.clientCert, s.callbacks, s.ticketsOff, s.vers, s.stdCert))
}

// expectation: the reference model of negotiation.
type expect struct {
	complete          bool
	gm                bool
	suite             uint16 // 0 = not predicted (TLS)
	vers              uint16
	srvSeesClientCert bool
}

func implementedGM(id uint16) bool { return id == cbc || id == gcm }

func predict(s scenario) expect {
	var e expect
	gmClient := s.client == cliGM
	switch s.mode {
	case modeGM:
		if !gmClient {
			return e
		}
		e.gm = true
	case modeAuto:
		e.gm = gmClient
	case modeTLS, modeStdServer:
		if gmClient {
			return e
		}
	}
	if e.gm {
		cl := s.cSuites
		if cl == nil {
			cl = []uint16{cbc, gcm, ecbc, egcm}
		}
		sl := s.sSuites
		if sl == nil {
			sl = []uint16{cbc, gcm, ecbc, egcm}
		}
		pref, sup := cl, sl
		if s.preferServer {
			pref, sup = sl, cl
		}
		for _, id := range pref {
			if !implementedGM(id) {
				continue // the ECDHE-SM2 key agreement is not implemented: such a suite can never be the outcome
			}
			for _, o := range sup {
				if o == id {
					e.suite = id
					break
				}
			}
			if e.suite != 0 {
				break
			}
		}
		if e.suite == 0 {
			return e
		}
		e.vers = 0x0101
	} else {
		e.vers = s.vers
		if e.vers == 0 {
			e.vers = 0x0303
		}
	}
	// a client only presents a certificate that the CertificateRequest's CA list admits: when the
	// server verifies (ClientCAs set) an untrusted certificate is simply not sent
	if s.auth >= gmtls.VerifyClientCertIfGiven && s.clientCert == 2 {
		s.clientCert = 0
	}
	// client authentication policy
	switch s.auth {
	case gmtls.NoClientCert:
	case gmtls.RequestClientCert:
		e.srvSeesClientCert = s.clientCert != 0
	case gmtls.RequireAnyClientCert:
		if s.clientCert == 0 {
			return expect{}
		}
		e.srvSeesClientCert = true
	case gmtls.VerifyClientCertIfGiven:
		if s.clientCert == 2 {
			return expect{}
		}
		e.srvSeesClientCert = s.clientCert == 1
	case gmtls.RequireAndVerifyClientCert:
		if s.clientCert != 1 {
			return expect{}
		}
		e.srvSeesClientCert = true
	}
	e.complete = true
	return e
}

type keyLog struct {
	mu sync.Mutex
	b  bytes.Buffer
}

func (k *keyLog) Write(p []byte) (int, error) { k.mu.Lock(); defer k.mu.Unlock(); return k.b.Write(p) }
func (k *keyLog) master() []byte {
	k.mu.Lock()
	defer k.mu.Unlock()
	for _, l := range strings.Split(k.b.String(), "\n") {
		f := strings.Fields(l)
		if len(f) == 3 && f[0] == "CLIENT_RANDOM" {
			m, _ := hex.DecodeString(f[2])
			return m
		}
	}
	return nil
}

func serverConfig(s scenario, p *tlsk.PKI) *gmtls.Config {
	cfg := &gmtls.Config{Time: tlsk.FixedTime, Rand: wire.NewRand(11), ClientAuth: s.auth, CipherSuites: s.sSuites, PreferServerCipherSuites: s.preferServer, SessionTicketsDisabled: s.ticketsOff, DynamicRecordSizingDisabled: s.noDyn}
	if s.auth >= gmtls.VerifyClientCertIfGiven {
		cfg.ClientCAs = p.Roots
		if s.client != cliGM {
			cfg.ClientCAs = p.StdRootsG
		}
	}
	std := &p.ECDSA
	if s.stdCert == 1 {
		std = &p.RSA
	}
	sign, enc := p.Sign, p.Enc
	switch s.mode {
	case modeGM:
		cfg.GMSupport = &gmtls.GMSupport{}
		if s.callbacks {
			cfg.GetCertificate = func(*gmtls.ClientHelloInfo) (*gmtls.Certificate, error) { return &sign, nil }
			cfg.GetKECertificate = func(*gmtls.ClientHelloInfo) (*gmtls.Certificate, error) { return &enc, nil }
		} else {
			cfg.Certificates = []gmtls.Certificate{sign, enc}
		}
	case modeAuto:
		sup := gmtls.NewGMSupport()
		sup.EnableMixMode()
		cfg.GMSupport = sup
		if s.callbacks {
			a, _ := gmtls.NewBasicAutoSwitchConfig(&sign, &enc, std)
			cfg.GetCertificate, cfg.GetKECertificate = a.GetCertificate, a.GetKECertificate
		} else {
			// static certificates cannot express "SM2 pair for GMSSL, standard certificate for TLS":
			// the documented way is the callback pair; static = callbacks returning fixed values
			cfg.GetCertificate = func(h *gmtls.ClientHelloInfo) (*gmtls.Certificate, error) {
				for _, v := range h.SupportedVersions {
					if v == gmtls.VersionGMSSL {
						return &sign, nil
					}
				}
				return std, nil
			}
			cfg.GetKECertificate = func(*gmtls.ClientHelloInfo) (*gmtls.Certificate, error) { return &enc, nil }
		}
	case modeTLS:
		if s.extras {
			x := *std
			x.OCSPStaple, x.SignedCertificateTimestamps = staple, [][]byte{[]byte("sct-one"), []byte("sct-two")}
			std = &x
			cfg.NextProtos = []string{"h2", "http/1.1"}
		}
		if s.callbacks {
			cfg.GetCertificate = func(*gmtls.ClientHelloInfo) (*gmtls.Certificate, error) { return std, nil }
		} else {
			cfg.Certificates = []gmtls.Certificate{*std}
		}
	}
	return cfg
}

var staple = []byte("stapled OCSP response (opaque to the handshake)")

func clientConfig(s scenario, p *tlsk.PKI, kl *keyLog) *gmtls.Config {
	cfg := &gmtls.Config{Time: tlsk.FixedTime, Rand: wire.NewRand(22), ServerName: tlsk.ServerName, CipherSuites: s.cSuites, KeyLogWriter: kl, DynamicRecordSizingDisabled: s.noDyn}
	if s.client == cliGM {
		cfg.GMSupport = &gmtls.GMSupport{}
		cfg.RootCAs = p.Roots
		switch s.clientCert {
		case 1:
			cfg.Certificates = []gmtls.Certificate{p.Client}
		case 2:
			cfg.Certificates = []gmtls.Certificate{p.ClientUntrusted}
		}
	} else {
		cfg.RootCAs = p.StdRootsG
		if s.extras {
			cfg.NextProtos = []string{"h2", "http/1.1"}
		}
		if s.vers != 0 {
			cfg.MinVersion, cfg.MaxVersion = s.vers, s.vers
		}
		switch s.clientCert {
		case 1:
			cfg.Certificates = []gmtls.Certificate{p.StdClient}
		case 2:
			cfg.Certificates = []gmtls.Certificate{p.StdClientUntrusted} // standard certificate under a CA the server does not trust
		}
	}
	return cfg
}

func stdCert(c gmtls.Certificate) stdtls.Certificate {
	return stdtls.Certificate{Certificate: c.Certificate, PrivateKey: c.PrivateKey}
}

// runScenario executes one configuration and checks it against the prediction.
func runScenario(c *harness.Ctx, s scenario, app [2]tlsk.App, kind string) {
	p := tlsk.Get()
	c.Add("transitions", 1)
	c.Add("executions", 1)
	e := predict(s)
	kl := &keyLog{}
	var cv, sv tlsk.View
	var cs, ss func(*wire.End) error
	if s.client == cliStd {
		cc := &stdtls.Config{RootCAs: p.StdRoots, ServerName: tlsk.ServerName, Time: tlsk.FixedTime, KeyLogWriter: kl}
		if s.vers != 0 {
			cc.MinVersion, cc.MaxVersion = s.vers, s.vers
		} else {
			cc.MaxVersion = stdtls.VersionTLS12
		}
		if s.clientCert == 1 {
			cc.Certificates = []stdtls.Certificate{stdCert(p.StdClient)}
		}
		if s.clientCert == 2 {
			cc.Certificates = []stdtls.Certificate{stdCert(p.StdClientUntrusted)}
		}
		if s.extras {
			cc.NextProtos = []string{"h2", "http/1.1"}
		}
		cs = tlsk.StdEnd(cc, true, app[0], &cv)
	} else {
		ccfg := clientConfig(s, p, kl)
		if s.via != 0 {
			ccfg = ccfg.Clone()
		}
		cs = tlsk.GMEnd(ccfg, true, app[0], &cv, nil)
	}
	if s.mode == modeStdServer {
		sc := &stdtls.Config{Time: tlsk.FixedTime, MaxVersion: stdtls.VersionTLS12, ClientAuth: stdtls.ClientAuthType(s.auth)}
		if s.stdCert == 1 {
			sc.Certificates = []stdtls.Certificate{stdCert(p.RSA)}
		} else {
			sc.Certificates = []stdtls.Certificate{stdCert(p.ECDSA)}
		}
		if s.auth >= gmtls.VerifyClientCertIfGiven {
			sc.ClientCAs = p.StdRoots
		}
		if s.vers != 0 {
			sc.MinVersion = s.vers
		} else {
			sc.MinVersion = stdtls.VersionTLS10
		}
		if s.extras {
			sc.Certificates[0].OCSPStaple = staple
			sc.Certificates[0].SignedCertificateTimestamps = [][]byte{[]byte("sct-one"), []byte("sct-two")}
			sc.NextProtos = []string{"h2", "http/1.1"}
		}
		ss = tlsk.StdEnd(sc, false, app[1], &sv)
	} else {
		scfg := serverConfig(s, p)
		switch s.via {
		case 1:
			scfg = scfg.Clone()
		case 2:
			inner := scfg
			scfg = &gmtls.Config{Time: inner.Time, Rand: inner.Rand, GMSupport: inner.GMSupport, GetConfigForClient: func(*gmtls.ClientHelloInfo) (*gmtls.Config, error) { return inner.Clone(), nil }}
		case 3:
			// the Config given to Server() is a decoy that says the opposite of the real one wherever
			// the two can differ; the handshake must follow the Config that GetConfigForClient returns
			inner := scfg
			outer := &gmtls.Config{Time: inner.Time, Rand: inner.Rand, GMSupport: inner.GMSupport, Certificates: []gmtls.Certificate{p.StdClientUntrusted},
				PreferServerCipherSuites: !inner.PreferServerCipherSuites, SessionTicketsDisabled: !inner.SessionTicketsDisabled, ClientCAs: p.Roots2,
				MinVersion: 0x0301, MaxVersion: 0x0301, ClientAuth: gmtls.RequireAndVerifyClientCert, CipherSuites: []uint16{gmtls.TLS_RSA_WITH_RC4_128_SHA},
				GetConfigForClient: func(*gmtls.ClientHelloInfo) (*gmtls.Config, error) { return inner, nil }}
			if inner.ClientAuth == gmtls.RequireAndVerifyClientCert {
				outer.ClientAuth = gmtls.NoClientCert
			}
			if s.vers == 0x0301 {
				outer.MinVersion, outer.MaxVersion = 0x0303, 0x0303
			}
			scfg = outer
		}
		ss = tlsk.GMEnd(scfg, false, app[1], &sv, nil)
	}
	o := tlsk.Run(cs, ss, &cv, &sv, nil)
	label := s.String()
	c.DistinctS("states", label)
	outcome := fmt.Sprintf("c=%v s=%v", o.C.Complete, o.S.Complete)
	c.DistinctS("outcomes", outcome)
	cls := fmt.Sprintf("%s/%s", modeNames[s.mode], cliNames[s.client])
	if s.vers != 0 {
		cls += fmt.Sprintf("/%04x", s.vers)
	}
	if o.C.Panic != nil || o.S.Panic != nil {
		who := "server"
		pv, st := o.S.Panic, o.S.Stack
		if o.C.Panic != nil {
			who, pv, st = "client", o.C.Panic, o.C.Stack
		}
		c.Violate(fmt.Sprintf("%s-panic:%s:%s", who, cls, panicSite(st)), fmt.Sprintf("[%s] %s endpoint panicked: %v\n%s", label, who, pv, clip(st, 1500)), nil, label)
		return
	}
	if len(o.Stuck) > 0 || o.Horizon {
		c.Violate("hang:"+cls, fmt.Sprintf("[%s] endpoints did not finish after their input ended: %v horizon=%v", label, o.Stuck, o.Horizon), nil, label)
		return
	}
	if !e.complete {
		if o.C.Complete || o.S.Complete {
			c.Violate(fmt.Sprintf("forbidden-combination-completes:%s:auth=%d:cert=%d", cls, s.auth, s.clientCert), fmt.Sprintf("[%s] the configured policy forbids this combination but a side reports a completed handshake: %s", label, o.Describe()), nil, label)
		}
		// the side whose policy is violated must report an error; if it finished the handshake
		// before the other side could know (e.g. client finished, then server rejected the client
		// certificate), the failure must surface as an error on its first read
		if o.C.HandshakeErr == nil && o.C.ReadErr == nil && o.C.Complete {
			c.Violate("forbidden-combination-client-unaware:"+cls, fmt.Sprintf("[%s] the client neither failed its handshake nor got an error afterwards: %s", label, o.Describe()), nil, label)
		}
		return
	}
	if !o.C.Complete || !o.S.Complete || o.C.HandshakeErr != nil || o.S.HandshakeErr != nil {
		c.Violate(fmt.Sprintf("supported-combination-fails:%s:callbacks=%v:%s", cls, s.callbacks, errClass(o)), fmt.Sprintf("[%s] a correctly configured pair must complete: %s", label, o.Describe()), nil, label)
		return
	}
	// both completed: same view
	if o.C.Version != o.S.Version || o.C.Suite != o.S.Suite {
		c.Violate("views-differ:version-or-suite:"+cls, fmt.Sprintf("[%s] client sees %04x/%04x, server %04x/%04x", label, o.C.Version, o.C.Suite, o.S.Version, o.S.Suite), nil, label)
	}
	if s.extras {
		if o.C.Proto != "h2" || o.S.Proto != "h2" {
			c.Violate("extras:alpn:"+cls, fmt.Sprintf("[%s] both sides list h2 first but the negotiated protocol is %q (client) / %q (server)", label, o.C.Proto, o.S.Proto), nil, label)
		}
		if string(o.C.OCSP) != string(staple) {
			c.Violate("extras:ocsp-staple:"+cls, fmt.Sprintf("[%s] the client's connection state carries the OCSP response %q, the server stapled %q", label, o.C.OCSP, staple), nil, label)
		}
	}
	if o.C.Version != e.vers || (e.suite != 0 && o.C.Suite != e.suite) {
		c.Violate(fmt.Sprintf("negotiation-result:%s:cs=%04x:ss=%04x:pref=%v", cls, s.cSuites, s.sSuites, s.preferServer), fmt.Sprintf("[%s] negotiated %04x/%04x, the negotiation rules give %04x/%04x", label, o.C.Version, o.C.Suite, e.vers, e.suite), nil, label)
	}
	stdInvolved := s.client == cliStd || s.mode == modeStdServer // crypto/tls exports keying material only with EMS
	if !stdInvolved && (!bytes.Equal(o.C.EKM, o.S.EKM) || len(o.C.EKM) != 32 || o.C.EKMErr != nil || o.S.EKMErr != nil) {
		c.Violate("views-differ:exported-keying-material:"+cls, fmt.Sprintf("[%s] EKM client %x (%v) server %x (%v)", label, o.C.EKM, o.C.EKMErr, o.S.EKM, o.S.EKMErr), nil, label)
	}
	if s.mode != modeStdServer && o.S.SNI != tlsk.ServerName {
		c.Violate("views-differ:server-name:"+cls, fmt.Sprintf("[%s] the client asked for %q, the server's connection state says %q", label, tlsk.ServerName, o.S.SNI), nil, label)
	}
	if !stdInvolved && !bytes.Equal(o.C.TLSUnique, o.S.TLSUnique) {
		c.Violate("views-differ:tls-unique:"+cls, fmt.Sprintf("[%s] TLSUnique client %x server %x", label, o.C.TLSUnique, o.S.TLSUnique), nil, label)
	}
	// peer certificates
	wantSrv := 2
	if !e.gm {
		wantSrv = 1
	}
	if len(o.C.PeerCerts) < wantSrv {
		c.Violate("peer-certificates:client-view:"+cls, fmt.Sprintf("[%s] client sees %d server certificates", label, len(o.C.PeerCerts)), nil, label)
	}
	if (len(o.S.PeerCerts) > 0) != e.srvSeesClientCert {
		c.Violate(fmt.Sprintf("peer-certificates:server-view:%s:auth=%d:cert=%d", cls, s.auth, s.clientCert), fmt.Sprintf("[%s] server sees %d client certificates, expected present=%v", label, len(o.S.PeerCerts), e.srvSeesClientCert), nil, label)
	}
	// data
	wantAtServer, wantAtClient := tlsk.Cat(app[0].Writes), tlsk.Cat(app[1].Writes)
	if !bytes.Equal(o.S.Read, wantAtServer) {
		c.Violate("data:client-to-server:"+cls, fmt.Sprintf("[%s] server received %s, client wrote %s (write sizes %v)", label, pu.Hex(o.S.Read), pu.Hex(wantAtServer), sizes(app[0].Writes)), nil, label)
	}
	if !bytes.Equal(o.C.Read, wantAtClient) {
		c.Violate("data:server-to-client:"+cls, fmt.Sprintf("[%s] client received %s, server wrote %s (write sizes %v)", label, pu.Hex(o.C.Read), pu.Hex(wantAtClient), sizes(app[1].Writes)), nil, label)
	}
	// independent decoding of the captured wire (GMSSL): master secret from the decrypted
	// pre-master secret vs key log, Finished values, every protected record
	if e.gm && s.client == cliGM {
		var recs []gmrec.Rec
		for _, r := range o.Records {
			recs = append(recs, gmrec.Rec{FromClient: r.From == o.ClientEnd, Type: r.Type, Vers: r.Vers, Body: r.Body()})
		}
		sess, err := gmrec.Decode(recs, p.EncKey.D, kl.master())
		c.Add("independent_decodes", 1)
		if err != nil {
			c.Violate("independent-decode:"+fmt.Sprintf("%04x", o.C.Suite), fmt.Sprintf("[%s] the independent GM/T 0024 decoder rejects the captured session: %v", label, err), nil, label)
		} else {
			if !sess.ClientFinishedOK || !sess.ServerFinishedOK {
				c.Violate("independent-decode:finished", fmt.Sprintf("[%s] Finished not confirmed by the independent decoder", label), nil, label)
			}
			if !bytes.Equal(sess.ClientApp, wantAtServer) || !bytes.Equal(sess.ServerApp, wantAtClient) {
				c.Violate("independent-decode:application-data", fmt.Sprintf("[%s] the independent decoder reads other application data than was written", label), nil, label)
			}
			// explicit IVs / nonces never repeat
			seen := map[string]bool{}
			for _, iv := range sess.ExplicitIVs {
				if seen[string(iv)] && o.C.Suite == cbc {
					c.Violate("explicit-iv-repeats", fmt.Sprintf("[%s] an explicit CBC IV repeats on the wire: %x", label, iv), nil, label)
				}
				seen[string(iv)] = true
			}
		}
	}
	if c.WantSample() {
		c.Sample(label + " -> " + o.Describe())
	}
	_ = kind
}

func errClass(o *tlsk.Outcome) string {
	e := o.S.HandshakeErr
	if e == nil {
		e = o.C.HandshakeErr
	}
	if e == nil {
		return "no-error"
	}
	m := e.Error()
	if len(m) > 60 {
		m = m[:60]
	}
	return m
}

func sizes(w [][]byte) []int {
	var s []int
	for _, b := range w {
		s = append(s, len(b))
	}
	return s
}

func clip(s string, n int) string {
	if len(s) > n {
		return s[:n]
	}
	return s
}

// panicSite extracts the first library frame of a stack for a stable key.
func panicSite(st string) string {
	for _, l := range strings.Split(st, "\n") {
		l = strings.TrimSpace(l)
		if strings.HasPrefix(l, "github.com/tjfoc/gmsm/") && !strings.Contains(l, "panic") {
			if i := strings.LastIndex(l, "("); i > 0 {
				l = l[:i]
			}
			return strings.TrimPrefix(l, "github.com/tjfoc/gmsm/")
		}
	}
	return "?"
}

var smallApp = [2]tlsk.App{{Writes: [][]byte{[]byte("client->server")}, Expect: 14}, {Writes: [][]byte{[]byte("server->client!")}, Expect: 15}}

var suiteLists = [][]uint16{nil, {cbc}, {gcm}, {cbc, gcm}, {gcm, cbc}, {ecbc}, {ecbc, cbc}, {cbc, ecbc}, {egcm, gcm}}

var auths = []gmtls.ClientAuthType{gmtls.NoClientCert, gmtls.RequestClientCert, gmtls.RequireAnyClientCert, gmtls.VerifyClientCertIfGiven, gmtls.RequireAndVerifyClientCert}

func gmUnit(mode int, part, parts int, full bool) harness.Unit {
	return harness.Unit{Name: fmt.Sprintf("gm-config/%s/part%d", modeNames[mode], part), Run: func(c *harness.Ctx) {
		n := 0
		for ci, cl := range suiteLists {
			for si, sl := range suiteLists {
				for _, pref := range []bool{false, true} {
					for ai, auth := range auths {
						for cert := 0; cert < 3; cert++ {
							for _, cb := range []bool{false, true} {
								for _, toff := range []bool{false, true} {
									if !full {
										// quick: class representatives — vary suites with the default policy, and the
										// policy dimensions with two suite pairs
										suitesVaried := ci != 0 || si != 0 || pref
										policyVaried := ai != 0 || cert != 0 || cb || toff
										if suitesVaried && policyVaried && !(ci == 2 && si == 4) {
											continue
										}
										if toff && (ai%2 == 1) {
											continue
										}
									}
									n++
									if n%parts != part {
										continue
									}
									for via := 0; via < 4; via++ {
										runScenario(c, scenario{mode: mode, client: cliGM, cSuites: cl, sSuites: sl, preferServer: pref, auth: auth, clientCert: cert, callbacks: cb, ticketsOff: toff, via: via}, smallApp, "gm")
									}
								}
							}
						}
					}
				}
			}
		}
	}}
}

func tlsUnit(full bool) harness.Unit {
	return harness.Unit{Name: "tls-config", Run: func(c *harness.Ctx) {
		for _, mode := range []int{modeAuto, modeTLS, modeStdServer} {
			for _, cli := range []int{cliTLS, cliStd} {
				if mode == modeStdServer && cli == cliStd {
					continue
				}
				for _, v := range []uint16{0, 0x0301, 0x0302, 0x0303} {
					for _, sc := range []int{0, 1} {
						for _, auth := range auths {
							for cert := 0; cert < 3; cert++ {

								if !full && auth != gmtls.NoClientCert && !(v == 0x0303 && sc == 0) {
									continue
								}
								for via := 0; via < 4; via++ {
									runScenario(c, scenario{mode: mode, client: cli, vers: v, stdCert: sc, auth: auth, clientCert: cert, callbacks: mode == modeAuto, via: via}, smallApp, "tls")
								}
								if mode != modeAuto && (v == 0 || v == 0x0303 || full) {
									// the same with a stapled OCSP response, SCTs and ALPN
									runScenario(c, scenario{mode: mode, client: cli, vers: v, stdCert: sc, auth: auth, clientCert: cert, extras: true}, smallApp, "tls")
								}
							}
						}
					}
				}
			}
		}
	}}
}

func crossUnit() harness.Unit {
	return harness.Unit{Name: "cross-protocol", Run: func(c *harness.Ctx) {
		// combinations that must fail on both sides
		for _, sc := range []scenario{
			{mode: modeGM, client: cliTLS}, {mode: modeGM, client: cliStd}, {mode: modeTLS, client: cliGM}, {mode: modeStdServer, client: cliGM},
			{mode: modeGM, client: cliTLS, vers: 0x0301}, {mode: modeTLS, client: cliGM, cSuites: []uint16{gcm}},
		} {
			runScenario(c, sc, smallApp, "cross")
		}
	}}
}

var writeSizes = []int{0, 1, 2, 1207, 1208, 16384, 16385, 200000}

func dataUnit(suite uint16, tlsMode bool, depth int, part, parts int) harness.Unit {
	name := fmt.Sprintf("data/%04x/depth%d/part%d", suite, depth, part)
	if tlsMode {
		name = fmt.Sprintf("data/tls12/depth%d/part%d", depth, part)
	}
	return harness.Unit{Name: name, Run: func(c *harness.Ctx) {
		// all sequences of writes (who, size) up to depth; both sides then read everything
		type w struct {
			client bool
			size   int
		}
		var seqs [][]w
		var rec func(cur []w)
		rec = func(cur []w) {
			if len(cur) > 0 {
				seqs = append(seqs, append([]w{}, cur...))
			}
			if len(cur) == depth {
				return
			}
			for _, cl := range []bool{true, false} {
				for _, sz := range writeSizes {
					rec(append(cur, w{cl, sz}))
				}
			}
		}
		rec(nil)
		for i, sq := range seqs {
			if i%parts != part {
				continue
			}
			var app [2]tlsk.App
			off := 0
			for _, x := range sq {
				b := pu.Msg(off, x.size)
				off += x.size + 1
				if x.client {
					app[0].Writes = append(app[0].Writes, b)
				} else {
					app[1].Writes = append(app[1].Writes, b)
				}
			}
			// a zero-length final expectation would make Read block until EOF; mark expectations
			app[0].Expect = len(tlsk.Cat(app[1].Writes))
			app[1].Expect = len(tlsk.Cat(app[0].Writes))
			app[0].ReadBuf = []int{1, 7, 4096}[i%3]
			app[1].ReadBuf = []int{4096, 1, 7}[i%3]
			if app[0].Expect == 0 {
				app[0].Expect = -1
			}
			if app[1].Expect == 0 {
				app[1].Expect = -1
			}
			s := scenario{mode: modeGM, client: cliGM, cSuites: []uint16{suite}}
			if tlsMode {
				s = scenario{mode: modeTLS, client: cliStd, vers: 0x0303}
			}
			runScenario(c, s, app, "data")
			s.noDyn = true
			if tlsMode {
				s.client = cliTLS // both ends the library, so that both writers use fixed-size records
			}
			runScenario(c, s, app, "data")
		}
	}}
}

// manyRecordsUnit: long-lived connections - more than 256 (and more than 512) protected records in
// each direction, written as small fragments, so that everything that counts records (sequence
// numbers, nonces) goes past its first byte. GMSSL sessions are decoded by the independent decoder;
// the TLS ones run against Go's crypto/tls in each role, for TLS 1.2 and TLS 1.0 (1/n-1 split).
func manyRecordsUnit(k int) harness.Unit {
	type sc struct {
		name string
		s    scenario
	}
	all := []sc{
		{"GMSSL/CBC", scenario{mode: modeGM, client: cliGM, cSuites: []uint16{cbc}}},
		{"GMSSL/GCM", scenario{mode: modeGM, client: cliGM, cSuites: []uint16{gcm}}},
		{"TLS1.2/library-server/crypto-tls-client", scenario{mode: modeTLS, client: cliStd, vers: 0x0303}},
		{"TLS1.0/library-server/crypto-tls-client", scenario{mode: modeTLS, client: cliStd, vers: 0x0301}},
		{"TLS1.2/crypto-tls-server/library-client", scenario{mode: modeStdServer, client: cliTLS, vers: 0x0303}},
		{"TLS1.0/crypto-tls-server/library-client", scenario{mode: modeStdServer, client: cliTLS, vers: 0x0301}},
	}
	x := all[k]
	return harness.Unit{Name: "many-records/" + x.name, Run: func(c *harness.Ctx) {
		var app [2]tlsk.App
		for i := 0; i < 600; i++ {
			app[0].Writes = append(app[0].Writes, pu.Msg(i, 7+i%5))
			app[1].Writes = append(app[1].Writes, pu.Msg(1000+i, 3+i%7))
		}
		app[0].Expect = len(tlsk.Cat(app[1].Writes))
		app[1].Expect = len(tlsk.Cat(app[0].Writes))
		runScenario(c, x.s, app, "many-records")
	}}
}

// tlsSuiteMatrixUnit: every standard TLS suite the library implements, pinned on both sides, crossed
// with the version caps of client and server (1.0 / 1.1 / 1.2 each), with and without client
// authentication, for three pairings: library with library, crypto/tls client with library server,
// library client with crypto/tls server. The model: the version is the smaller cap; a suite that is
// defined for TLS 1.2 only (GCM, SHA-256/384 MACs, ChaCha20) must make BOTH sides fail below 1.2;
// otherwise both complete with exactly that suite and version and carry data.
func tlsSuiteMatrixUnit(part, parts int) harness.Unit {
	type su struct {
		id     uint16
		rsa    bool // needs an RSA certificate (else ECDSA)
		only12 bool
	}
	all := []su{
		{0x0005, true, false}, {0x000a, true, false}, {0x002f, true, false}, {0x0035, true, false}, {0x003c, true, true}, {0x009c, true, true}, {0x009d, true, true},
		{0xc007, false, false}, {0xc009, false, false}, {0xc00a, false, false}, {0xc011, true, false}, {0xc012, true, false}, {0xc013, true, false}, {0xc014, true, false},
		{0xc023, false, true}, {0xc027, true, true}, {0xc02f, true, true}, {0xc02b, false, true}, {0xc030, true, true}, {0xc02c, false, true}, {0xcca8, true, true}, {0xcca9, false, true},
	}
	return harness.Unit{Name: fmt.Sprintf("tls-suite-matrix/part%d", part), Run: func(c *harness.Ctx) {
		p := tlsk.Get()
		n := 0
		for _, s := range all {
			for _, sMax := range []uint16{0x0301, 0x0302, 0x0303} {
				for _, cMax := range []uint16{0x0301, 0x0302, 0x0303} {
					for _, authKind := range []int{0, 1, 2} { // none, ECDSA client certificate, RSA client certificate
						auth := authKind != 0
						clientCert := p.StdClient
						if authKind == 2 {
							clientCert = p.StdClientRSA
						}
						for pairing := 0; pairing < 3; pairing++ {
							n++
							if n%parts != part {
								continue
							}
							cert := p.ECDSA
							if s.rsa {
								cert = p.RSA
							}
							v := sMax
							if cMax < v {
								v = cMax
							}
							// 0xc013 and 0xc027 are exported constants ("implemented now or in the past") without
							// an entry in the library's suite table: pinning them leaves no usable suite
							mustFail := (s.only12 && v < 0x0303) || s.id == 0xc013 || s.id == 0xc027
							app := [2]tlsk.App{{Writes: [][]byte{[]byte("ping")}, Expect: 4}, {Writes: [][]byte{[]byte("pong")}, Expect: 4}}
							var cv, sv tlsk.View
							var cs, ss func(*wire.End) error
							if pairing == 1 {
								cc := &stdtls.Config{RootCAs: p.StdRoots, ServerName: tlsk.ServerName, Time: tlsk.FixedTime, MinVersion: 0x0301, MaxVersion: cMax, CipherSuites: []uint16{s.id}}
								if auth {
									cc.Certificates = []stdtls.Certificate{stdCert(clientCert)}
								}
								cs = tlsk.StdEnd(cc, true, app[0], &cv)
							} else {
								cc := &gmtls.Config{RootCAs: p.StdRootsG, ServerName: tlsk.ServerName, Time: tlsk.FixedTime, Rand: wire.NewRand(12), MinVersion: 0x0301, MaxVersion: cMax, CipherSuites: []uint16{s.id}}
								if auth {
									cc.Certificates = []gmtls.Certificate{clientCert}
								}
								cs = tlsk.GMEnd(cc, true, app[0], &cv, nil)
							}
							if pairing == 2 {
								sc := &stdtls.Config{Certificates: []stdtls.Certificate{stdCert(cert)}, Time: tlsk.FixedTime, MinVersion: 0x0301, MaxVersion: sMax, CipherSuites: []uint16{s.id}}
								if auth {
									sc.ClientAuth, sc.ClientCAs = stdtls.RequireAndVerifyClientCert, p.StdRoots
								}
								ss = tlsk.StdEnd(sc, false, app[1], &sv)
							} else {
								sc := &gmtls.Config{Certificates: []gmtls.Certificate{cert}, Time: tlsk.FixedTime, Rand: wire.NewRand(13), MinVersion: 0x0301, MaxVersion: sMax, CipherSuites: []uint16{s.id}}
								if auth {
									sc.ClientAuth, sc.ClientCAs = gmtls.RequireAndVerifyClientCert, p.StdRootsG
								}
								ss = tlsk.GMEnd(sc, false, app[1], &sv, nil)
							}
							o := tlsk.Run(cs, ss, &cv, &sv, nil)
							tag := fmt.Sprintf("suite %04x pinned on both sides, server max %04x, client max %04x, client-auth=%s, pairing %s", s.id, sMax, cMax, []string{"none", "ECDSA certificate", "RSA certificate"}[authKind], []string{"library/library", "crypto-tls client/library server", "library client/crypto-tls server"}[pairing])
							c.Add("executions", 1)
							c.Add("transitions", 1)
							c.DistinctS("states", tag)
							c.DistinctS("outcomes", fmt.Sprintf("%v/%v/%v", mustFail, o.C.Complete, o.S.Complete))
							if c.WantSample() {
								c.Sample(tag)
							}
							key := fmt.Sprintf("%04x:v=%04x:auth=%d:pairing=%d", s.id, v, authKind, pairing)
							if o.C.Panic != nil || o.S.Panic != nil || len(o.Stuck) > 0 {
								c.Violate("tls-suite-matrix:crash-or-hang:"+key, fmt.Sprintf("[%s] %s\n%s", tag, o.Describe(), clip(o.C.Stack+o.S.Stack, 1200)), nil, tag)
								continue
							}
							if mustFail {
								if o.C.Complete || o.S.Complete {
									c.Violate("tls-suite-matrix:completes-with-a-1.2-only-suite-below-1.2:"+key, fmt.Sprintf("[%s] the only mutual suite is not defined for the negotiated version, both sides must fail: %s", tag, o.Describe()), nil, tag)
								}
								continue
							}
							if !o.C.Complete || !o.S.Complete || string(o.S.Read) != "ping" || string(o.C.Read) != "pong" {
								c.Violate("tls-suite-matrix:fails:"+key, fmt.Sprintf("[%s] a correctly configured pair must complete and carry data: %s", tag, o.Describe()), nil, tag)
								continue
							}
							if o.C.Suite != s.id || o.S.Suite != s.id || o.C.Version != v || o.S.Version != v {
								c.Violate("tls-suite-matrix:parameters:"+key, fmt.Sprintf("[%s] negotiated %04x/%04x (client) %04x/%04x (server), want %04x/%04x", tag, o.C.Version, o.C.Suite, o.S.Version, o.S.Suite, v, s.id), nil, tag)
							}
							if auth && len(o.S.PeerCerts) == 0 {
								c.Violate("tls-suite-matrix:client-certificate-lost:"+key, fmt.Sprintf("[%s]", tag), nil, tag)
							}
						}
					}
				}
			}
		}
	}}
}

// seedSweepUnit: value-dependent steps of the key exchange (a shared ECDH coordinate or an SM2
// ciphertext coordinate with a leading zero byte occurs about once in 256 / 128 handshakes) are
// reached by running the SAME configuration under many deterministic random streams: seeds
// lo..hi-1 for both endpoints. kind 0: TLS 1.2 ECDHE-ECDSA with P-256 forced, library on both ends
// (keys must agree although client and server code differ); kind 1: the same with crypto/tls as
// client; kind 2: crypto/tls as server; kind 3: GMSSL against the reference peer (which decrypts the
// pre-master secret with its own SM2).
func seedSweepUnit(kind, lo, hi int) harness.Unit {
	names := []string{"tls12-ecdhe-p256/library-both", "tls12-ecdhe-p256/crypto-tls-client", "tls12-ecdhe-p256/crypto-tls-server", "gmssl/reference-client"}
	return harness.Unit{Name: fmt.Sprintf("seed-sweep/%s/%d..%d", names[kind], lo, hi-1), Run: func(c *harness.Ctx) {
		p := tlsk.Get()
		for seed := lo; seed < hi; seed++ {
			tag := fmt.Sprintf("%s, random streams seeded %d", names[kind], seed)
			c.Add("executions", 1)
			c.Add("transitions", 1)
			c.DistinctS("states", tag)
			app := [2]tlsk.App{{Writes: [][]byte{[]byte("ping")}, Expect: 4}, {Writes: [][]byte{[]byte("pong")}, Expect: 4}}
			var cv, sv tlsk.View
			var o *tlsk.Outcome
			switch kind {
			case 0, 1, 2:
				libS := &gmtls.Config{Certificates: []gmtls.Certificate{p.ECDSA}, Time: tlsk.FixedTime, Rand: wire.NewRand(byte(seed)), MinVersion: 0x0303, MaxVersion: 0x0303,
					CurvePreferences: []gmtls.CurveID{gmtls.CurveP256}, CipherSuites: []uint16{gmtls.TLS_ECDHE_ECDSA_WITH_AES_128_GCM_SHA256}}
				libS.Rand = seededRand(seed, 1)
				libC := &gmtls.Config{RootCAs: p.StdRootsG, ServerName: tlsk.ServerName, Time: tlsk.FixedTime, Rand: seededRand(seed, 2), MinVersion: 0x0303, MaxVersion: 0x0303,
					CurvePreferences: []gmtls.CurveID{gmtls.CurveP256}, CipherSuites: []uint16{gmtls.TLS_ECDHE_ECDSA_WITH_AES_128_GCM_SHA256}}
				switch kind {
				case 0:
					o = tlsk.Run(tlsk.GMEnd(libC, true, app[0], &cv, nil), tlsk.GMEnd(libS, false, app[1], &sv, nil), &cv, &sv, nil)
				case 1:
					stdC := &stdtls.Config{RootCAs: p.StdRoots, ServerName: tlsk.ServerName, Time: tlsk.FixedTime, MinVersion: 0x0303, MaxVersion: 0x0303, CurvePreferences: []stdtls.CurveID{stdtls.CurveP256}}
					o = tlsk.Run(tlsk.StdEnd(stdC, true, app[0], &cv), tlsk.GMEnd(libS, false, app[1], &sv, nil), &cv, &sv, nil)
				case 2:
					stdS := &stdtls.Config{Certificates: []stdtls.Certificate{stdCert(p.ECDSA)}, Time: tlsk.FixedTime, MinVersion: 0x0303, MaxVersion: 0x0303, CurvePreferences: []stdtls.CurveID{stdtls.CurveP256}}
					o = tlsk.Run(tlsk.GMEnd(libC, true, app[0], &cv, nil), tlsk.StdEnd(stdS, false, app[1], &sv), &cv, &sv, nil)
				}
				if o.C.Panic != nil || o.S.Panic != nil || len(o.Stuck) > 0 || !o.C.Complete || !o.S.Complete || string(o.S.Read) != "ping" || string(o.C.Read) != "pong" {
					c.Violate("seed-sweep:"+names[kind], fmt.Sprintf("[%s] correctly configured peers do not complete and exchange data: %s", tag, o.Describe()), nil, tag)
				}
			case 3:
				suite := []uint16{cbc, gcm}[seed%2]
				sc := &gmtls.Config{GMSupport: &gmtls.GMSupport{}, Certificates: []gmtls.Certificate{p.Sign, p.Enc}, Time: tlsk.FixedTime, Rand: seededRand(seed, 3), CipherSuites: []uint16{suite}}
				ro := tlsk.RunLibVsRef(sc, false, tlsk.LibApp(false), gmref.Identity{}, byte(seed), func(q *gmref.Peer) { q.Suites = []uint16{suite}; q.Rand = seededRand(seed, 4) }, &gmref.Script{Data: tlsk.PingPong(true)}, nil)
				if ro.Lib.Panic != nil || ro.LibStuck || !ro.Lib.Complete || !ro.Ref.Res.Completed {
					c.Violate("seed-sweep:"+names[kind], fmt.Sprintf("[%s] library server and reference client do not complete: %s", tag, ro.Describe()), nil, tag)
				}
				// and the library as client, encrypting the pre-master secret for the reference server
				cc := &gmtls.Config{GMSupport: &gmtls.GMSupport{}, RootCAs: p.Roots, ServerName: tlsk.ServerName, Time: tlsk.FixedTime, Rand: seededRand(seed, 5), CipherSuites: []uint16{suite}}
				ro = tlsk.RunLibVsRef(cc, true, tlsk.LibApp(true), tlsk.ServerIdentity(), byte(seed), func(q *gmref.Peer) { q.Suites = []uint16{suite}; q.Rand = seededRand(seed, 6) }, &gmref.Script{Data: tlsk.PingPong(false)}, nil)
				if ro.Lib.Panic != nil || ro.LibStuck || !ro.Lib.Complete || !ro.Ref.Res.Completed {
					c.Violate("seed-sweep:gmssl/reference-server", fmt.Sprintf("[%s] library client and reference server do not complete: %s", tag, ro.Describe()), nil, tag)
				}
			}
		}
		c.Sample(fmt.Sprintf("%s with random streams seeded %d..%d", names[kind], lo, hi-1))
	}}
}

// seededRand is a deterministic stream distinct for every (seed, role).
func seededRand(seed, role int) *seedStream {
	return &seedStream{x: uint64(seed)*1000003 + uint64(role)*7919 + 1}
}

type seedStream struct {
	mu sync.Mutex
	x  uint64
}

func (s *seedStream) Read(p []byte) (int, error) {
	s.mu.Lock()
	defer s.mu.Unlock()
	for i := range p {
		s.x += 0x9e3779b97f4a7c15
		z := s.x
		z = (z ^ (z >> 30)) * 0xbf58476d1ce4e5b9
		z = (z ^ (z >> 27)) * 0x94d049bb133111eb
		p[i] = byte(z ^ (z >> 31))
	}
	return len(p), nil
}

// Prop registers C06.
var Prop = &harness.Prop{
	ID:          "C06",
	Level:       "model_checking",
	Rule:        "configuration space enumerated as a product: server mode {GMSSL-only, auto-switch, TLS-only, Go crypto/tls server} x client {library GMSSL client, library TLS client, Go crypto/tls client} x client/server suite lists (9 each incl. ECDHE-only and mixed orders) x PreferServerCipherSuites x 5 ClientAuth policies x client certificate {absent, trusted, untrusted} x certificates static / callbacks x tickets on/off x TLS versions {default, 1.0, 1.1, 1.2} x {ECDSA, RSA} server certificate; each configuration runs real endpoints over the deterministic wire; a 60-line negotiation model predicts complete/must-fail, version and suite; both ends' ConnectionState, exported keying material, peer certificates and delivered bytes are compared; every captured GMSSL session is decoded by an independent GM/T 0024 record/PRF/Finished implementation (master secret re-derived from the pre-master secret decrypted with the reference SM2). Active reference peer: the library in each role against gmref (an independent endpoint with a GM/T 0024 profile and a TLS 1.2 RSA-key-exchange profile) for both suites of each profile x GMSSL-only/auto-switch x 5 ClientAuth policies x client certificate present/absent x the peer's handshake messages cut into records of 1, 7, 100 bytes or unfragmented; both complete exactly when the policy allows, gmref verifies the library's ServerKeyExchange / CertificateVerify signatures and Finished, 3 KB / 70 KB payloads arrive intact. Payload sizes 2^k-72..2^k+8 (k = 9..14) in each direction between the library and the reference peer. TLS suite matrix: each of the 22 standard suite constants (20 implemented; 0xc013 and 0xc027 have no table entry and must simply fail) pinned on both sides x server version cap x client version cap (1.0/1.1/1.2) x client authentication x {library/library, crypto/tls client, crypto/tls server}: 1.2-only suites must fail on both sides below 1.2, everything else completes with exactly that suite and version. Seed sweeps: the same configuration under 1536 (thorough 6144) deterministic random streams for TLS 1.2 ECDHE P-256 between two library endpoints and a quarter of that against crypto/tls in each role and for GMSSL against the reference peer in each role, so that value-dependent steps of the key exchange (coordinates with leading zero bytes, about 1 in 256) occur several times. Long connections: 600 small writes in each direction (more than 512 protected records per direction) for both GMSSL suites (independently decoded) and for TLS 1.2 / TLS 1.0 against crypto/tls in each role. Data phase: all write sequences up to the depth over 8 sizes x 2 directions with reader buffers {1,7,4096}. states = distinct configurations; transitions = sessions. Added dimensions: every scenario with the library Configs as built / through Config.Clone() / server through GetConfigForClient->Clone(); a reflective unit comparing every exported Config field with its clone; ways of supplying the client certificate (none, one, several chains, leaf or leaf+intermediate, Leaf pre-parsed, callback) x 4 server pools x 5 policies against a symbolic issuer model (library and crypto/tls servers); server certificates issued by the root or an intermediate (sent with either certificate or not, static or callbacks) x 3 client pools; server certificate chosen by requested name (NameToCertificate built/explicit, wildcard, RSA+ECDSA, GetCertificate fall-through; library and crypto/tls clients); key pairs loaded from PEM by every loader (key formats x certificate inputs, memory and files, foreign keys refused); Certificate messages of 1..70 KiB; reconnect histories on one Config pair (multi-name TLS server, LRU cache, ticket-key rotations; GMSSL with client authentication and policy changes); data-phase histories also with DynamicRecordSizingDisabled; TLSUnique, server-name and exported keying material (against the reference's RFC 5705 derivation) agree; the reference peer also packs each flight into one record; named-curve negotiation: 17 x 17 CurvePreferences lists (default, every ordered list of one or two of P-256/P-384/P-521/X25519) x TLS 1.0/1.2 (thorough 1.1) x RSA/ECDSA certificate x with/without a non-ECDHE fallback suite x {library/library, crypto/tls client, crypto/tls server}: complete with the ECDHE suite exactly when a curve is shared, fall back when allowed, otherwise fail on both sides. Segmented transport (the library reads 1..13 bytes at a time); applications that never call Handshake; nested sessions (a complete session B to a server with other keys before each record of session A, all pairs of three protocol flavours); reconnect histories with version caps and against one auto-switch server serving a GMSSL and a TLS client with caches. End-of-stream units: per suite and side, peer payload {1,100,16384,40000} x at most {1,5,1000,2^20} bytes per Read, the Read delivering the peer's last bytes returns io.EOF with them (total learnt from a counting run of the same deterministic session); the application must still receive every byte. Temporary transport errors in the middle of records (C07's read-timeout units) also run here for the four suites.",
	Assumptions: []string{"Go's crypto/tls is the independent implementation for TLS 1.0-1.2 (both roles)", "gmrec (independent decoder) is built on refsm2/3/4; it covers the two ECC suites", "the ECDHE-SM2 suites are not implemented by the library: the model never predicts them as an outcome"},
	Bounds: func(tier string) string {
		if tier == "thorough" {
			return "full GMSSL product for GMSSL-only and auto-switch (29k configurations), full TLS product, data-phase depth 3 for both GMSSL suites and TLS 1.2"
		}
		return "class representatives of the GMSSL product (all suite-list pairs with default policy, all policy combinations with default and one non-default suite pair), reduced TLS product, data-phase depth 2"
	},
	Units: func(tier string) []harness.Unit {
		var u []harness.Unit
		full := tier == "thorough"
		parts := 8
		if full {
			parts = 32
		}
		for _, m := range []int{modeGM, modeAuto} {
			for p := 0; p < parts; p++ {
				u = append(u, gmUnit(m, p, parts, full))
			}
		}
		u = append(u, tlsUnit(full), crossUnit())
		for _, lc := range []bool{true, false} {
			u = append(u, refInteropUnit(lc, cbc), refInteropUnit(lc, gcm), refSizesUnit(lc, cbc), refSizesUnit(lc, gcm))
			u = append(u, refInteropUnit(lc, gmref.SuiteAESCBC), refInteropUnit(lc, gmref.SuiteAESGCM), refSizesUnit(lc, gmref.SuiteAESCBC), refSizesUnit(lc, gmref.SuiteAESGCM))
			u = append(u, segmentedTransportUnit(cbc, lc), segmentedTransportUnit(gcm, lc), segmentedTransportUnit(gmref.SuiteAESCBC, lc), segmentedTransportUnit(gmref.SuiteAESGCM, lc))
			u = append(u, eofWithDataUnit(cbc, lc), eofWithDataUnit(gcm, lc), eofWithDataUnit(gmref.SuiteAESCBC, lc), eofWithDataUnit(gmref.SuiteAESGCM, lc))
			// temporary transport errors in the middle of records (shared with C07)
			u = append(u, c07.ReadTimeoutUnit(cbc, lc), c07.ReadTimeoutUnit(gcm, lc), c07.ReadTimeoutUnit(gmref.SuiteAESCBC, lc), c07.ReadTimeoutUnit(gmref.SuiteAESGCM, lc))
		}
		for k := 0; k < 6; k++ {
			u = append(u, manyRecordsUnit(k))
		}
		for p := 0; p < 16; p++ {
			u = append(u, tlsSuiteMatrixUnit(p, 16))
		}
		u = append(u, sniUnit(0x0301), sniUnit(0x0303), keyPairUnit())
		rdepth := 4
		if full {
			rdepth = 5
		}
		u = append(u, gmReconnectUnit(cbc, rdepth), gmReconnectUnit(gcm, rdepth), autoReconnectUnit(rdepth))
		for _, capacity := range []int{1, 2} {
			u = append(u, reconnectUnit(0x0303, capacity, rdepth), reconnectUnit(0x0301, capacity, rdepth-1), reconnectUnit(0, capacity, rdepth-1))
		}
		u = append(u, bigCertUnit(true), bigCertUnit(false), cloneFieldsUnit(), implicitHandshakeUnit())
		for fa := 0; fa < 3; fa++ {
			for fb := 0; fb < 3; fb++ {
				u = append(u, nestedSessionsUnit(fa, fb))
			}
		}
		u = append(u, serverChainUnit(true, 0), serverChainUnit(false, 0x0301), serverChainUnit(false, 0x0303))
		for _, sp := range supplyPaths() {
			u = append(u, certSupplyUnit(sp))
		}
		u = append(u, curveUnits(tier)...)
		nseed, step := 1536, 96
		if full {
			nseed = 6144
		}
		for lo := 0; lo < nseed; lo += step {
			u = append(u, seedSweepUnit(0, lo, lo+step))
		}
		for lo := 0; lo < nseed/4; lo += step {
			u = append(u, seedSweepUnit(1, lo, lo+step), seedSweepUnit(2, lo, lo+step), seedSweepUnit(3, lo, lo+step))
		}
		depth, dparts := 2, 4
		if full {
			depth, dparts = 3, 16
		}
		for p := 0; p < dparts; p++ {
			u = append(u, dataUnit(cbc, false, depth, p, dparts), dataUnit(gcm, false, depth, p, dparts), dataUnit(0, true, depth, p, dparts))
		}
		return u
	},
}
