package c06

import (
	"bytes"
	"crypto"
	"crypto/rand"
	stdtls "crypto/tls"
	stdx509 "crypto/x509"
	"crypto/x509/pkix"
	"fmt"
	"math/big"
	"time"

	"github.com/tjfoc/gmsm/gmtls"
	gx509 "github.com/tjfoc/gmsm/x509"

	"verif/mc/harness"
	"verif/mc/tlsk"
	"verif/mc/wire"
)

// ---- handshake messages larger than a record ---------------------------------------------------------
//
// A Certificate message is as large as the certificates in it. Beyond 16 KiB it no longer fits one
// record and the sender has to split it, the receiver to reassemble it; beyond the 64 KiB limit on
// handshake messages the handshake cannot work and must fail on both sides with an error. Server and
// client certificates carry a filler extension that brings the message to each size class; peers:
// the library on both ends, and Go's crypto/tls in either role on the TLS path.

func fillerExt(n int) pkix.Extension {
	hdr := []byte{0x04, byte(n)}
	switch {
	case n >= 65536:
		hdr = []byte{0x04, 0x83, byte(n >> 16), byte(n >> 8), byte(n)}
	case n >= 256:
		hdr = []byte{0x04, 0x82, byte(n >> 8), byte(n)}
	case n >= 128:
		hdr = []byte{0x04, 0x81, byte(n)}
	}
	return pkix.Extension{Id: []int{1, 2, 3, 4, 5, 77}, Value: append(hdr, bytes.Repeat([]byte{0x5a}, n)...)}
}

func fatCert(gm, server bool, filler int) gmtls.Certificate {
	p := tlsk.Get()
	nb, na := time.Date(2020, 1, 1, 0, 0, 0, 0, time.UTC), time.Date(2030, 1, 1, 0, 0, 0, 0, time.UTC)
	if gm {
		t := &gx509.Certificate{SerialNumber: big.NewInt(int64(9000 + filler%1000)), Subject: pkix.Name{CommonName: "fat", Organization: []string{"verif"}}, NotBefore: nb, NotAfter: na,
			KeyUsage: gx509.KeyUsageDigitalSignature, ExtraExtensions: []pkix.Extension{fillerExt(filler)}, SignatureAlgorithm: gx509.SM2WithSM3}
		key := p.SignKey
		if server {
			t.DNSNames, t.ExtKeyUsage = []string{tlsk.ServerName}, []gx509.ExtKeyUsage{gx509.ExtKeyUsageServerAuth}
		} else {
			key = p.ClientKey
			t.ExtKeyUsage = []gx509.ExtKeyUsage{gx509.ExtKeyUsageClientAuth}
		}
		der, err := gx509.CreateCertificate(t, p.CA, &key.PublicKey, p.CAKey)
		if err != nil {
			panic(err)
		}
		return gmtls.Certificate{Certificate: [][]byte{der}, PrivateKey: key}
	}
	t := &stdx509.Certificate{SerialNumber: big.NewInt(int64(9000 + filler%1000)), Subject: pkix.Name{CommonName: "fat"}, NotBefore: nb, NotAfter: na,
		KeyUsage: stdx509.KeyUsageDigitalSignature, ExtraExtensions: []pkix.Extension{fillerExt(filler)}}
	var priv crypto.PrivateKey = p.ECDSAKey
	if server {
		t.DNSNames, t.ExtKeyUsage = []string{tlsk.ServerName}, []stdx509.ExtKeyUsage{stdx509.ExtKeyUsageServerAuth}
	} else {
		priv = p.StdClient.PrivateKey
		t.ExtKeyUsage = []stdx509.ExtKeyUsage{stdx509.ExtKeyUsageClientAuth}
	}
	der, err := stdx509.CreateCertificate(rand.Reader, t, p.StdCA, priv.(crypto.Signer).Public(), p.StdCAKey)
	if err != nil {
		panic(err)
	}
	return gmtls.Certificate{Certificate: [][]byte{der}, PrivateKey: priv}
}

func bigCertUnit(gm bool) harness.Unit {
	name := "large-certificate-message/TLS1.2"
	if gm {
		name = "large-certificate-message/GMSSL"
	}
	return harness.Unit{Name: name, Run: func(c *harness.Ctx) {
		p := tlsk.Get()
		app := [2]tlsk.App{{Writes: [][]byte{[]byte("c->s")}, Expect: 4}, {Writes: [][]byte{[]byte("s->c")}, Expect: 4}}
		// filler sizes: well inside one record; around the record limit (the message has ~700 bytes of its own);
		// two and three records; around the handshake message limit; beyond it
		fillers := []int{100, 15000, 15600, 15700, 15800, 16384, 20000, 33000, 50000, 64000, 64700, 64800, 64900, 65000, 65536, 70000}
		type pairing struct {
			name           string
			stdCli, stdSrv bool
		}
		pairs := []pairing{{"library/library", false, false}}
		if !gm {
			pairs = append(pairs, pairing{"crypto-tls client/library server", true, false}, pairing{"library client/crypto-tls server", false, true})
		}
		for _, who := range []string{"server", "client"} {
			for _, f := range fillers {
				for _, pr := range pairs {
					srvCert, cliCert := fatCert(gm, true, 100), fatCert(gm, false, 100)
					if who == "server" {
						srvCert = fatCert(gm, true, f)
					} else {
						cliCert = fatCert(gm, false, f)
					}
					msgLen := 10 + len(srvCert.Certificate[0])
					if who == "client" {
						msgLen = 10 + len(cliCert.Certificate[0])
					}
					if gm && who == "server" {
						msgLen += 3 + len(p.Enc.Certificate[0])
					}
					var cv, sv tlsk.View
					var cs, ss func(*wire.End) error
					if pr.stdCli {
						cs = tlsk.StdEnd(&stdtls.Config{RootCAs: p.StdRoots, ServerName: tlsk.ServerName, Time: tlsk.FixedTime, MinVersion: 0x0303, MaxVersion: 0x0303, Certificates: []stdtls.Certificate{stdCert(cliCert)}}, true, app[0], &cv)
					} else {
						cc := &gmtls.Config{Time: tlsk.FixedTime, Rand: wire.NewRand(22), ServerName: tlsk.ServerName, Certificates: []gmtls.Certificate{cliCert}}
						if gm {
							cc.GMSupport, cc.RootCAs = &gmtls.GMSupport{}, p.Roots
						} else {
							cc.RootCAs, cc.MinVersion, cc.MaxVersion = p.StdRootsG, 0x0303, 0x0303
						}
						cs = tlsk.GMEnd(cc, true, app[0], &cv, nil)
					}
					if pr.stdSrv {
						ss = tlsk.StdEnd(&stdtls.Config{Certificates: []stdtls.Certificate{stdCert(srvCert)}, ClientAuth: stdtls.RequireAndVerifyClientCert, ClientCAs: p.StdRoots, Time: tlsk.FixedTime, MinVersion: 0x0303, MaxVersion: 0x0303}, false, app[1], &sv)
					} else {
						sc := &gmtls.Config{Time: tlsk.FixedTime, Rand: wire.NewRand(11), ClientAuth: gmtls.RequireAndVerifyClientCert}
						if gm {
							sc.GMSupport, sc.Certificates, sc.ClientCAs = &gmtls.GMSupport{}, []gmtls.Certificate{srvCert, p.Enc}, p.Roots
						} else {
							sc.Certificates, sc.ClientCAs, sc.MinVersion, sc.MaxVersion = []gmtls.Certificate{srvCert}, p.StdRootsG, 0x0303, 0x0303
						}
						ss = tlsk.GMEnd(sc, false, app[1], &sv, nil)
					}
					o := tlsk.Run(cs, ss, &cv, &sv, nil)
					label := fmt.Sprintf("%s, %s: the %s's Certificate message has %d bytes", name, pr.name, who, msgLen)
					key := fmt.Sprintf("%s:%s:%s:%d", name, pr.name, who, f)
					c.Add("executions", 1)
					c.Add("transitions", 1)
					c.DistinctS("states", label)
					c.DistinctS("outcomes", fmt.Sprintf("c=%v s=%v", o.C.Complete, o.S.Complete))
					if o.C.Panic != nil || o.S.Panic != nil {
						c.Violate("large-certificate-message:panic:"+panicSite(o.C.Stack+o.S.Stack), fmt.Sprintf("[%s] endpoint panicked: client=%v server=%v\n%s", label, o.C.Panic, o.S.Panic, clip(o.C.Stack+o.S.Stack, 1500)), nil, label)
						continue
					}
					if len(o.Stuck) > 0 || o.Horizon {
						c.Violate("large-certificate-message:hang:"+key, fmt.Sprintf("[%s] endpoints did not finish: %v", label, o.Stuck), nil, label)
						continue
					}
					switch {
					case msgLen+4 <= 65536:
						if !o.C.Complete || !o.S.Complete || !bytes.Equal(o.C.Read, []byte("s->c")) || !bytes.Equal(o.S.Read, []byte("c->s")) {
							c.Violate("large-certificate-message:fails:"+key, fmt.Sprintf("[%s] the message is within the handshake message limit but the handshake failed: %s", label, o.Describe()), nil, label)
						} else if who == "client" && (len(o.S.PeerCerts) == 0 || !bytes.Equal(o.S.PeerCerts[0], cliCert.Certificate[0])) {
							c.Violate("large-certificate-message:other-certificate:"+key, fmt.Sprintf("[%s] the server reports another client certificate", label), nil, label)
						} else if who == "server" && (len(o.C.PeerCerts) == 0 || !bytes.Equal(o.C.PeerCerts[0], srvCert.Certificate[0])) {
							c.Violate("large-certificate-message:other-certificate:"+key, fmt.Sprintf("[%s] the client reports another server certificate", label), nil, label)
						}
					case msgLen > 65536+8 && !((who == "server" && pr.stdCli) || (who == "client" && pr.stdSrv)):
						// the 64 KiB bound is this library's limit as a RECEIVER; crypto/tls accepts larger certificate messages
						if o.C.Complete && o.S.Complete {
							c.Violate("large-certificate-message:oversized-completes:"+key, fmt.Sprintf("[%s] a handshake message beyond the 64 KiB limit was sent and accepted: %s", label, o.Describe()), nil, label)
						}
						if (o.C.HandshakeErr == nil && o.C.ReadErr == nil) || (o.S.HandshakeErr == nil && o.S.ReadErr == nil) {
							c.Violate("large-certificate-message:oversized-no-error:"+key, fmt.Sprintf("[%s] a side reported no error: %s", label, o.Describe()), nil, label)
						}
					}
				}
			}
		}
		c.Sample(name + ": server and client certificates padded so that the Certificate message has 1 KiB ... 70 KiB: one record, around the record limit, two to four records, around and beyond the 64 KiB message limit")
	}}
}
