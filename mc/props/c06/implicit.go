package c06

import (
	"bytes"
	"fmt"

	"github.com/tjfoc/gmsm/gmtls"

	"verif/mc/harness"
	"verif/mc/props/pu"
	"verif/mc/tlsk"
	"verif/mc/wire"
)

// ---- applications that never call Handshake ----------------------------------------------------------
//
// Most programs just Read and Write; the first of either starts the handshake. Each end either
// writes first or reads first (four combinations, of which "both read first" would wait forever and
// is left out), over GMSSL (both suites), TLS 1.0 and TLS 1.2, with payloads below and above one
// record. Before any I/O ConnectionState reports an incomplete handshake and VerifyHostname refuses;
// afterwards both ends are complete, agree, and every byte arrived.

func implicitHandshakeUnit() harness.Unit {
	return harness.Unit{Name: "implicit-handshake", Run: func(c *harness.Ctx) {
		p := tlsk.Get()
		type flavour struct {
			name string
			cl   func() *gmtls.Config
			sv   func() *gmtls.Config
		}
		gm := func(suite uint16) flavour {
			return flavour{fmt.Sprintf("GMSSL %04x", suite),
				func() *gmtls.Config {
					return &gmtls.Config{GMSupport: &gmtls.GMSupport{}, RootCAs: p.Roots, ServerName: tlsk.ServerName, Time: tlsk.FixedTime, Rand: wire.NewRand(81), CipherSuites: []uint16{suite}}
				},
				func() *gmtls.Config {
					return &gmtls.Config{GMSupport: &gmtls.GMSupport{}, Certificates: []gmtls.Certificate{p.Sign, p.Enc}, Time: tlsk.FixedTime, Rand: wire.NewRand(82), CipherSuites: []uint16{suite}}
				}}
		}
		std := func(v uint16) flavour {
			return flavour{fmt.Sprintf("TLS %04x", v),
				func() *gmtls.Config {
					return &gmtls.Config{RootCAs: p.StdRootsG, ServerName: tlsk.ServerName, Time: tlsk.FixedTime, Rand: wire.NewRand(81), MinVersion: v, MaxVersion: v}
				},
				func() *gmtls.Config {
					return &gmtls.Config{Certificates: []gmtls.Certificate{p.ECDSA}, Time: tlsk.FixedTime, Rand: wire.NewRand(82), MinVersion: v, MaxVersion: v}
				}}
		}
		for _, f := range []flavour{gm(cbc), gm(gcm), std(0x0301), std(0x0303)} {
			for _, n := range []int{1, 20000} {
				for mode := 0; mode < 3; mode++ {
					pc, ps := pu.Msg(90+mode, n), pu.Msg(95+mode, n+3)
					ca := tlsk.App{Implicit: true, Writes: [][]byte{pc}, Expect: len(ps), ReadFirst: mode == 1}
					sa := tlsk.App{Implicit: true, Writes: [][]byte{ps}, Expect: len(pc), ReadFirst: mode == 0}
					var cv, sv tlsk.View
					o := tlsk.Run(tlsk.GMEnd(f.cl(), true, ca, &cv, nil), tlsk.GMEnd(f.sv(), false, sa, &sv, nil), &cv, &sv, nil)
					tag := fmt.Sprintf("%s, %d-byte payloads, %s", f.name, n, []string{"client writes first, server reads first", "server writes first, client reads first", "both write first"}[mode])
					c.Add("executions", 1)
					c.Add("transitions", 1)
					c.DistinctS("states", tag)
					c.DistinctS("outcomes", fmt.Sprintf("%v/%v", o.C.Complete, o.S.Complete))
					if o.C.Panic != nil || o.S.Panic != nil || len(o.Stuck) > 0 || o.Horizon {
						c.Violate("implicit-handshake:crash-or-hang", fmt.Sprintf("[%s] %s\n%s", tag, o.Describe(), clip(o.C.Stack+o.S.Stack, 1200)), nil, tag)
						continue
					}
					if o.C.BeforeComplete || o.S.BeforeComplete || o.C.VerifyHostnameBefore == nil {
						c.Violate("implicit-handshake:state-before-io", fmt.Sprintf("[%s] before any I/O: client complete=%v server complete=%v VerifyHostname=%v", tag, o.C.BeforeComplete, o.S.BeforeComplete, o.C.VerifyHostnameBefore), nil, tag)
					}
					if !o.C.Complete || !o.S.Complete {
						c.Violate("implicit-handshake:fails:"+f.name, fmt.Sprintf("[%s] %s", tag, o.Describe()), nil, tag)
						continue
					}
					if o.C.Version != o.S.Version || o.C.Suite != o.S.Suite {
						c.Violate("implicit-handshake:views-differ", fmt.Sprintf("[%s] %s", tag, o.Describe()), nil, tag)
					}
					if !bytes.Equal(o.C.Read, ps) || !bytes.Equal(o.S.Read, pc) {
						c.Violate("implicit-handshake:data:"+f.name, fmt.Sprintf("[%s] client read %d of %d bytes, server read %d of %d; %s", tag, len(o.C.Read), len(ps), len(o.S.Read), len(pc), o.Describe()), nil, tag)
					}
				}
			}
		}
		c.Sample("4 protocol flavours x payloads {1, 20000} x {client writes first, server writes first, both write first}; nobody calls Handshake")
	}}
}
