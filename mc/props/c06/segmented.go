package c06

import (
	"bytes"
	"fmt"
	"net"

	"github.com/tjfoc/gmsm/gmtls"

	"verif/mc/harness"
	"verif/mc/props/pu"
	"verif/mc/ref/gmref"
	"verif/mc/tlsk"
	"verif/mc/wire"
)

// ---- a transport that delivers a few bytes at a time -----------------------------------------------
//
// TCP hands over whatever has arrived. chunkConn lets every Read of the library endpoint return at
// most n bytes (1, 2, 3, 5, 13, 1000), so record headers, handshake message headers and record bodies
// are all cut at every offset; the session against the reference peer must be what it is on an
// unsegmented transport: complete, verified by the peer, payloads intact in both directions.

type chunkConn struct {
	net.Conn
	n int
}

func (c *chunkConn) Read(p []byte) (int, error) {
	if len(p) > c.n {
		p = p[:c.n]
	}
	return c.Conn.Read(p)
}

func segmentedTransportUnit(suite uint16, libIsClient bool) harness.Unit {
	return harness.Unit{Name: fmt.Sprintf("segmented-transport/library-client=%v/%04x", libIsClient, suite), Run: func(c *harness.Ctx) {
		p := tlsk.Get()
		tlsMode := suite == gmref.SuiteAESCBC || suite == gmref.SuiteAESGCM
		for _, n := range []int{1, 2, 3, 5, 13, 1000} {
			for _, withCert := range []bool{false, true} {
				var cfg *gmtls.Config
				var id gmref.Identity
				switch {
				case tlsMode && libIsClient:
					cfg = &gmtls.Config{RootCAs: p.StdRootsG, ServerName: tlsk.ServerName, Time: tlsk.FixedTime, Rand: wire.NewRand(71), CipherSuites: []uint16{suite}, MinVersion: 0x0303, MaxVersion: 0x0303}
					if withCert {
						cfg.Certificates = []gmtls.Certificate{p.StdClient}
					}
					id = gmref.Identity{Certs: [][]byte{p.RSA.Certificate[0]}, RSAKey: p.RSAKey}
				case tlsMode:
					cfg = &gmtls.Config{Certificates: []gmtls.Certificate{p.RSA}, Time: tlsk.FixedTime, Rand: wire.NewRand(72), CipherSuites: []uint16{suite}, ClientCAs: p.StdRootsG, MinVersion: 0x0303, MaxVersion: 0x0303}
					if withCert {
						cfg.ClientAuth = gmtls.RequireAndVerifyClientCert
					}
					id = gmref.Identity{Certs: [][]byte{p.StdClient.Certificate[0]}, TLSKey: p.StdClient.PrivateKey}
				case libIsClient:
					cfg = &gmtls.Config{GMSupport: &gmtls.GMSupport{}, RootCAs: p.Roots, ServerName: tlsk.ServerName, Time: tlsk.FixedTime, Rand: wire.NewRand(71), CipherSuites: []uint16{suite}}
					if withCert {
						cfg.Certificates = []gmtls.Certificate{p.Client}
					}
					id = tlsk.ServerIdentity()
				default:
					cfg = &gmtls.Config{GMSupport: &gmtls.GMSupport{}, Certificates: []gmtls.Certificate{p.Sign, p.Enc}, Time: tlsk.FixedTime, Rand: wire.NewRand(72), CipherSuites: []uint16{suite}, ClientCAs: p.Roots}
					if withCert {
						cfg.ClientAuth = gmtls.RequireAndVerifyClientCert
					}
					id = tlsk.ClientIdentity()
				}
				payloadC, payloadS := pu.Msg(n+1, 3000+n), pu.Msg(n+2, 40000)
				libApp := tlsk.App{Writes: [][]byte{payloadC}, Expect: len(payloadS)}
				if !libIsClient {
					libApp = tlsk.App{Writes: [][]byte{payloadS}, Expect: len(payloadC)}
				}
				libApp.Wrap = func(nc net.Conn) net.Conn { return &chunkConn{nc, n} }
				data := func(q *gmref.Peer) error {
					mine, theirs := payloadS, payloadC
					if q.Client {
						mine, theirs = payloadC, payloadS
					}
					for off := 0; off < len(mine); off += 16384 {
						end := off + 16384
						if end > len(mine) {
							end = len(mine)
						}
						if err := q.WriteRecord(gmref.RecApp, mine[off:end]); err != nil {
							return err
						}
					}
					if err := q.ReadApp(len(theirs)); err != nil {
						return err
					}
					return q.CloseNotify()
				}
				setup := func(q *gmref.Peer) {
					if tlsMode {
						q.UseTLS()
					}
					q.Suites = []uint16{suite}
					q.RequestCert = withCert
					if q.RequestCert && !tlsMode {
						q.CAs = [][]byte{p.CA.RawSubject}
					}
				}
				o := tlsk.RunLibVsRef(cfg, libIsClient, libApp, id, 73, setup, &gmref.Script{SendClientCert: withCert, Data: data}, nil)
				tag := fmt.Sprintf("library-client=%v suite=%04x client-certificate=%v; transport delivers at most %d bytes per Read", libIsClient, suite, withCert, n)
				c.Add("executions", 1)
				c.Add("transitions", 1)
				c.DistinctS("states", tag)
				c.DistinctS("outcomes", fmt.Sprintf("%v/%v", o.Lib.Complete, o.Ref.Res.Completed))
				if o.Lib.Panic != nil || o.Ref.Panic != nil || o.LibStuck || o.Horizon {
					c.Violate("segmented-transport:crash-or-hang", fmt.Sprintf("[%s] %s\n%s", tag, o.Describe(), clip(o.Lib.Stack, 1200)), nil, tag)
					continue
				}
				if !o.Lib.Complete || !o.Ref.Res.Completed || o.Ref.Res.Err != nil {
					c.Violate(fmt.Sprintf("segmented-transport:honest-session-fails:library-client=%v:%d", libIsClient, n), fmt.Sprintf("[%s] %s", tag, o.Describe()), nil, tag)
					continue
				}
				for k, v := range o.Ref.Peer.Checks {
					if !v {
						c.Violate("segmented-transport:library-proof-wrong:"+k, fmt.Sprintf("[%s] %s", tag, o.Describe()), nil, tag)
					}
				}
				wantLib, wantRef := payloadS, payloadC
				if !libIsClient {
					wantLib, wantRef = payloadC, payloadS
				}
				if !bytes.Equal(o.Lib.Read, wantLib) || !bytes.Equal(o.Ref.Peer.Received, wantRef) {
					c.Violate(fmt.Sprintf("segmented-transport:data:%d", n), fmt.Sprintf("[%s] library read %d of %d bytes, reference read %d of %d", tag, len(o.Lib.Read), len(wantLib), len(o.Ref.Peer.Received), len(wantRef)), nil, tag)
				}
			}
		}
		c.Sample("library endpoint reads at most {1,2,3,5,13,1000} bytes at a time x with/without client certificate; 3 KB / 40 KB payloads")
	}}
}
