// Package c15: a misbehaving handshake peer gets an error, never completion, a crash or a hang
// (DESIGN §3 C15).
package c15

import (
	stdtls "crypto/tls"
	"fmt"
	gx509 "github.com/tjfoc/gmsm/x509"
	"io/ioutil"
	"strings"

	"github.com/tjfoc/gmsm/gmtls"

	"verif/mc/harness"
	"verif/mc/tlsk"
	"verif/mc/wire"
)

const (
	modeGM = iota
	modeAutoGM
	modeAutoTLS
	modeTLS
)

var modeNames = []string{"GMSSL-only", "auto-switch(GMSSL client)", "auto-switch(TLS client)", "TLS-only"}

func serverCfg(mode int, auth bool) *gmtls.Config {
	p := tlsk.Get()
	cfg := &gmtls.Config{Time: tlsk.FixedTime, Rand: wire.NewRand(1)}
	switch mode {
	case modeGM:
		cfg.GMSupport = &gmtls.GMSupport{}
		cfg.Certificates = []gmtls.Certificate{p.Sign, p.Enc}
	case modeAutoGM, modeAutoTLS:
		a, _ := gmtls.NewBasicAutoSwitchConfig(&p.Sign, &p.Enc, &p.ECDSA)
		a.Time, a.Rand = tlsk.FixedTime, wire.NewRand(1)
		cfg = a
	case modeTLS:
		cfg.Certificates = []gmtls.Certificate{p.ECDSA}
	}
	if auth {
		cfg.ClientAuth = gmtls.RequireAnyClientCert
	}
	return cfg
}

func clientCfg(mode int, auth bool) *gmtls.Config {
	p := tlsk.Get()
	cfg := &gmtls.Config{Time: tlsk.FixedTime, Rand: wire.NewRand(2), ServerName: tlsk.ServerName}
	if mode == modeGM || mode == modeAutoGM {
		cfg.GMSupport = &gmtls.GMSupport{}
		cfg.RootCAs = p.Roots
		if auth {
			cfg.Certificates = []gmtls.Certificate{p.Client}
		}
	} else {
		cfg.RootCAs = p.StdRootsG
		if auth {
			cfg.Certificates = []gmtls.Certificate{p.StdClient}
		}
	}
	return cfg
}

var app = [2]tlsk.App{{Writes: [][]byte{[]byte("ping")}, Expect: 4}, {Writes: [][]byte{[]byte("pong")}, Expect: 4}}

func session(mode int, auth bool, pol wire.Policy) *tlsk.Outcome {
	var cv, sv tlsk.View
	return tlsk.Run(tlsk.GMEnd(clientCfg(mode, auth), true, app[0], &cv, nil), tlsk.GMEnd(serverCfg(mode, auth), false, app[1], &sv, nil), &cv, &sv, pol)
}

func site(st string) string {
	for _, l := range strings.Split(st, "\n") {
		l = strings.TrimSpace(l)
		if strings.HasPrefix(l, "github.com/tjfoc/gmsm/") {
			if i := strings.LastIndex(l, "("); i > 0 {
				l = l[:i]
			}
			return strings.TrimPrefix(l, "github.com/tjfoc/gmsm/")
		}
	}
	return "?"
}

func clip(s string, n int) string {
	if len(s) > n {
		return s[:n]
	}
	return s
}

// verdict checks the always-conditions (no panic, no hang) and, for non-conformant deviations,
// that the endpoint which received the deviation did not complete.
func verdict(c *harness.Ctx, tag, key string, o *tlsk.Outcome, receiverIsClient bool, conformant bool) {
	if o.C.Panic != nil || o.S.Panic != nil {
		st := o.C.Stack + o.S.Stack
		who := "server"
		if o.C.Panic != nil {
			who = "client"
		}
		c.Violate(fmt.Sprintf("panic:%s:%s", who, site(st)), fmt.Sprintf("[%s] the %s panicked: %v %v\n%s", tag, who, o.C.Panic, o.S.Panic, clip(st, 1500)), nil, tag)
		return
	}
	if len(o.Stuck) > 0 || o.Horizon {
		c.Violate("hang:"+key, fmt.Sprintf("[%s] endpoint keeps waiting although its input has ended: %v horizon=%v", tag, o.Stuck, o.Horizon), nil, tag)
		return
	}
	if conformant {
		return // completion allowed, not demanded
	}
	recv := o.S
	if receiverIsClient {
		recv = o.C
	}
	if recv.Complete || recv.HandshakeErr == nil {
		c.Violate("completes-after:"+key, fmt.Sprintf("[%s] the endpoint that received the deviation reports a completed handshake / no error: %s", tag, o.Describe()), nil, tag)
	}
}

type deviation struct {
	name       string
	conformant bool
	// apply returns what is delivered in place of msg (entries starting with 0xFF are raw records)
	apply func(msg []byte, canned map[byte][]byte, vers uint16) [][]byte
}

func raw(b []byte) []byte { return append([]byte{0xFF}, b...) }

func hsMsg(t byte, body []byte) []byte {
	return append([]byte{t, byte(len(body) >> 16), byte(len(body) >> 8), byte(len(body))}, body...)
}

func deviations() []deviation {
	var ds []deviation
	add := func(n string, conf bool, f func(msg []byte, canned map[byte][]byte, vers uint16) [][]byte) {
		ds = append(ds, deviation{n, conf, f})
	}
	add("omitted", false, func(m []byte, _ map[byte][]byte, _ uint16) [][]byte { return nil })
	add("repeated", false, func(m []byte, _ map[byte][]byte, _ uint16) [][]byte { return [][]byte{m, m} })
	for _, t := range []byte{0, 1, 2, 4, 11, 12, 13, 14, 15, 16, 20, 22, 99} {
		t := t
		add(fmt.Sprintf("replaced by a well-formed message of type %d", t), false, func(m []byte, canned map[byte][]byte, _ uint16) [][]byte {
			if m[0] == t {
				return [][]byte{m}
			}
			if cm, ok := canned[t]; ok {
				return [][]byte{cm}
			}
			return [][]byte{hsMsg(t, nil)}
		})
		add(fmt.Sprintf("preceded by a message of type %d", t), false, func(m []byte, canned map[byte][]byte, _ uint16) [][]byte {
			if cm, ok := canned[t]; ok {
				return [][]byte{cm, m}
			}
			return [][]byte{hsMsg(t, nil), m}
		})
	}
	add("type byte changed, body kept", false, func(m []byte, _ map[byte][]byte, _ uint16) [][]byte {
		y := append([]byte{}, m...)
		y[0] ^= 0x40
		return [][]byte{y}
	})
	add("ChangeCipherSpec record first", false, func(m []byte, _ map[byte][]byte, v uint16) [][]byte {
		return [][]byte{raw(wire.Frame(v, 20, []byte{1})), m}
	})
	add("application-data record first", false, func(m []byte, _ map[byte][]byte, v uint16) [][]byte {
		return [][]byte{raw(wire.Frame(v, 23, []byte("early data"))), m}
	})
	add("zero-length application-data record first", false, func(m []byte, _ map[byte][]byte, v uint16) [][]byte { return [][]byte{raw(wire.Frame(v, 23, nil)), m} })
	add("zero-length ChangeCipherSpec record first", false, func(m []byte, _ map[byte][]byte, v uint16) [][]byte { return [][]byte{raw(wire.Frame(v, 20, nil)), m} })
	add("zero-length alert record first", false, func(m []byte, _ map[byte][]byte, v uint16) [][]byte { return [][]byte{raw(wire.Frame(v, 21, nil)), m} })
	add("three zero-length application-data records first", false, func(m []byte, _ map[byte][]byte, v uint16) [][]byte {
		return [][]byte{raw(wire.Frame(v, 23, nil)), raw(wire.Frame(v, 23, nil)), raw(wire.Frame(v, 23, nil)), m}
	})
	add("fatal alert first", false, func(m []byte, _ map[byte][]byte, v uint16) [][]byte {
		return [][]byte{raw(wire.Frame(v, 21, []byte{2, 40})), m}
	})
	add("close_notify first", false, func(m []byte, _ map[byte][]byte, v uint16) [][]byte {
		return [][]byte{raw(wire.Frame(v, 21, []byte{1, 0})), m}
	})
	add("warning alert first", true, func(m []byte, _ map[byte][]byte, v uint16) [][]byte {
		return [][]byte{raw(wire.Frame(v, 21, []byte{1, 90})), m}
	})
	add("six warning alerts first", false, func(m []byte, _ map[byte][]byte, v uint16) [][]byte {
		out := [][]byte{}
		for i := 0; i < 6; i++ {
			out = append(out, raw(wire.Frame(v, 21, []byte{1, 90})))
		}
		return append(out, m)
	})
	add("malformed alert record (1 byte)", false, func(m []byte, _ map[byte][]byte, v uint16) [][]byte {
		return [][]byte{raw(wire.Frame(v, 21, []byte{1})), m}
	})
	add("zero-length handshake record first", true, func(m []byte, _ map[byte][]byte, v uint16) [][]byte { return [][]byte{raw(wire.Frame(v, 22, nil)), m} })
	add("unknown record type first", false, func(m []byte, _ map[byte][]byte, v uint16) [][]byte {
		return [][]byte{raw(wire.Frame(v, 99, []byte{0})), m}
	})
	add("split into one-byte records", true, func(m []byte, _ map[byte][]byte, v uint16) [][]byte {
		var out [][]byte
		for _, b := range m {
			out = append(out, raw(wire.Frame(v, 22, []byte{b})))
		}
		return out
	})
	for _, rv := range []uint16{0x0000, 0x0300, 0x0304, 0xffff} {
		rv := rv
		add(fmt.Sprintf("record version %04x", rv), true, func(m []byte, _ map[byte][]byte, _ uint16) [][]byte { return [][]byte{raw(wire.Frame(rv, 22, m))} })
	}
	// body truncations, consistent and inconsistent lengths
	for _, frac := range []string{"0", "1", "half", "len-1"} {
		frac := frac
		cut := func(m []byte) []byte {
			body := m[4:]
			var k int
			switch frac {
			case "0":
				k = 0
			case "1":
				k = 1
			case "half":
				k = len(body) / 2
			default:
				k = len(body) - 1
			}
			if k < 0 || k >= len(body) {
				return nil
			}
			return body[:k]
		}
		add("body truncated to "+frac+" (length field consistent)", false, func(m []byte, _ map[byte][]byte, _ uint16) [][]byte {
			b := cut(m)
			if b == nil {
				return [][]byte{m}
			}
			return [][]byte{hsMsg(m[0], b)}
		})
		add("body truncated to "+frac+" (length field stale)", false, func(m []byte, _ map[byte][]byte, _ uint16) [][]byte {
			b := cut(m)
			if b == nil {
				return [][]byte{m}
			}
			return [][]byte{append(append([]byte{}, m[:4]...), b...)}
		})
	}
	add("message length field +1", false, func(m []byte, _ map[byte][]byte, _ uint16) [][]byte {
		y := append([]byte{}, m...)
		y[3]++
		return [][]byte{y}
	})
	add("message length field = 0xffffff", false, func(m []byte, _ map[byte][]byte, _ uint16) [][]byte {
		y := append([]byte{}, m...)
		y[1], y[2], y[3] = 0xff, 0xff, 0xff
		return [][]byte{y}
	})
	add("message length field = 65537 with that much data", false, func(m []byte, _ map[byte][]byte, _ uint16) [][]byte {
		return [][]byte{hsMsg(m[0], make([]byte, 65537))}
	})
	add("one byte appended to the body", false, func(m []byte, _ map[byte][]byte, _ uint16) [][]byte {
		return [][]byte{hsMsg(m[0], append(append([]byte{}, m[4:]...), 0))}
	})
	return ds
}

// innerLengthFaults perturbs every plausible 1/2/3-byte length or count field inside a message:
// at every offset the byte is set to 0, +1, -1 and 0xff (the parsers must bound-check them all).
func innerLengthFaults(m []byte) [][]byte {
	var out [][]byte
	for i := 4; i < len(m); i++ {
		for _, v := range []byte{0x00, m[i] + 1, m[i] - 1, 0xff} {
			if v == m[i] {
				continue
			}
			y := append([]byte{}, m...)
			y[i] = v
			out = append(out, y)
		}
	}
	return out
}

func msgName(t byte) string {
	n := map[byte]string{0: "HelloRequest", 1: "ClientHello", 2: "ServerHello", 4: "NewSessionTicket", 11: "Certificate", 12: "ServerKeyExchange", 13: "CertificateRequest", 14: "ServerHelloDone", 15: "CertificateVerify", 16: "ClientKeyExchange", 20: "Finished", 22: "CertificateStatus"}[t]
	if n == "" {
		n = fmt.Sprintf("type%d", t)
	}
	return n
}

func sequenceUnit(mode int, auth bool) harness.Unit {
	return harness.Unit{Name: fmt.Sprintf("sequence/%s/auth=%v", modeNames[mode], auth), Run: func(c *harness.Ctx) {
		ed := &wire.HSEditor{}
		o := session(mode, auth, ed)
		if !o.C.Complete || !o.S.Complete {
			c.Violate("control-fails:"+modeNames[mode], fmt.Sprintf("honest session (auth=%v) does not complete: %s", auth, o.Describe()), nil, nil)
			return
		}
		vers := uint16(0x0101)
		if mode >= modeAutoTLS {
			vers = 0x0303
		}
		canned := map[byte][]byte{}
		for d := 0; d < 2; d++ {
			for _, m := range ed.Msgs[d] {
				canned[m[0]] = m
			}
		}
		devs := deviations()
		for d := 0; d < 2; d++ {
			for i, m := range ed.Msgs[d] {
				who := map[int]string{0: "client", 1: "server"}[d]
				pos := fmt.Sprintf("%s message %d (%s)", who, i, msgName(m[0]))
				runOne := func(devName string, conformant bool, repl [][]byte) {
					if len(repl) == 1 && string(repl[0]) == string(m) {
						return // not applicable here
					}
					e := &wire.HSEditor{Edit: func(fc bool, idx int, msg []byte) [][]byte {
						if fc == (d == 0) && idx == i {
							return repl
						}
						return [][]byte{msg}
					}}
					tag := fmt.Sprintf("%s auth=%v: %s %s", modeNames[mode], auth, pos, devName)
					c.Add("executions", 1)
					c.Add("transitions", 1)
					c.DistinctS("states", tag)
					o := session(mode, auth, e)
					c.DistinctS("outcomes", fmt.Sprintf("%v/%v/%v", o.C.Complete, o.S.Complete, o.C.Panic != nil || o.S.Panic != nil))
					verdict(c, tag, fmt.Sprintf("%s:%s", msgName(m[0]), devClass(devName)), o, d == 1, conformant)
				}
				for _, dv := range devs {
					runOne(dv.name, dv.conformant, dv.apply(m, canned, vers))
				}
				if len(m) <= 300 || c.Thorough() {
					for k, y := range innerLengthFaults(m) {
						if !c.Thorough() && len(m) > 120 && k%3 != 0 {
							continue
						}
						runOne(fmt.Sprintf("inner byte perturbed (variant %d)", k), false, [][]byte{y})
					}
				}
				if c.WantSample() {
					c.Sample(fmt.Sprintf("%s auth=%v: %d deviations at %s", modeNames[mode], auth, len(devs), pos))
				}
			}
		}
		// end of stream after every record of the honest exchange
		nrec := len(o.Records)
		for cut := 0; cut <= nrec; cut++ {
			k := cut
			seen := 0
			pol := &cutter{after: k, seen: &seen}
			tag := fmt.Sprintf("%s auth=%v: connection closed after %d records", modeNames[mode], auth, k)
			c.Add("executions", 1)
			c.Add("transitions", 1)
			c.DistinctS("states", tag)
			o := session(mode, auth, pol)
			// whoever was cut off before finishing must return an error; completion is only possible
			// for an endpoint that had received everything it needs
			verdict(c, tag, "eof", o, false, true)
			for _, v := range []struct {
				n string
				w tlsk.View
			}{{"client", o.C}, {"server", o.S}} {
				if !v.w.Complete && v.w.HandshakeErr == nil {
					c.Violate("eof-without-error", fmt.Sprintf("[%s] the %s neither completed nor returned an error", tag, v.n), nil, tag)
				}
			}
		}
	}}
}

func devClass(n string) string {
	for _, p := range []string{"replaced by", "preceded by", "body truncated", "record version", "inner byte", "message length"} {
		if strings.HasPrefix(n, p) {
			return p
		}
	}
	return n
}

// cutter drops every record after the first `after` ones and signals end of stream.
type cutter struct {
	after int
	seen  *int
	done  bool
}

func (k *cutter) Deliver(n *wire.Net, r wire.Record) [][]byte {
	*k.seen++
	if *k.seen > k.after {
		if !k.done {
			k.done = true
			n.EOF(n.A)
			n.EOF(n.B)
		}
		return nil
	}
	return [][]byte{r.Raw}
}
func (k *cutter) OnIdle(n *wire.Net) bool { return false }

// ---- first-flight spaces: a raw peer sends one crafted hello -------------------------------------

func buildClientHello(vers uint16, suites []uint16, comp []byte, ext bool) []byte {
	b := []byte{byte(vers >> 8), byte(vers)}
	b = append(b, make([]byte, 32)...)
	for i := 0; i < 32; i++ {
		b[2+i] = byte(i * 7)
	}
	b = append(b, 0) // session id
	b = append(b, byte(len(suites)*2>>8), byte(len(suites)*2))
	for _, s := range suites {
		b = append(b, byte(s>>8), byte(s))
	}
	b = append(b, byte(len(comp)))
	b = append(b, comp...)
	if ext {
		// supported_groups + ec_point_formats + signature_algorithms as crypto/tls sends them
		e := []byte{0, 10, 0, 4, 0, 2, 0, 23, 0, 11, 0, 2, 1, 0, 0, 13, 0, 6, 0, 4, 4, 3, 4, 1}
		b = append(b, byte(len(e)>>8), byte(len(e)))
		b = append(b, e...)
	}
	return hsMsg(1, b)
}

func rawPeer(first []byte, v *tlsk.View) func(e *wire.End) error {
	return func(e *wire.End) error {
		e.Write(first)
		buf := make([]byte, 4096)
		for {
			n, err := e.Read(buf)
			v.Read = append(v.Read, buf[:n]...)
			if err != nil {
				break
			}
			if len(v.Read) > 1<<20 {
				break
			}
		}
		e.Close()
		v.Done = true
		return nil
	}
}

// withCallbacks switches on the optional server-side hooks (all of them behave like the static
// configuration), so that the code paths that run before and around them are part of the sweep.
func withCallbacks(cfg *gmtls.Config, mode int) {
	p := tlsk.Get()
	cfg.GetConfigForClient = func(*gmtls.ClientHelloInfo) (*gmtls.Config, error) { return nil, nil }
	if mode == modeTLS {
		cfg.GetCertificate = func(*gmtls.ClientHelloInfo) (*gmtls.Certificate, error) { return &p.ECDSA, nil }
	}
	cfg.VerifyPeerCertificate = func([][]byte, [][]*gx509.Certificate) error { return nil }
	cfg.NextProtos = []string{"h2", "http/1.1"}
	cfg.KeyLogWriter = ioutil.Discard
}

func helloSweepUnit(mode int, lo, hi uint16) harness.Unit {
	return harness.Unit{Name: fmt.Sprintf("clienthello-sweep/%s/%04x..%04x", modeNames[mode], lo, hi), Run: func(c *harness.Ctx) {
		lists := map[string][]uint16{
			"ECC-CBC": {0xe013}, "ECC-GCM": {0xe053}, "ECDHE-SM2 only": {0xe011, 0xe051}, "unknown only": {0x1234, 0xfefe},
			"TLS list": {0xc02b, 0xc02f, 0xc009, 0xc013, 0x009c, 0x002f, 0x000a}, "empty": {}, "GM+TLS": {0xe013, 0xc02b},
		}
		comps := map[string][]byte{"null": {0}, "deflate only": {1}, "none listed": {}}
		for v := uint32(lo); v <= uint32(hi); v++ {
			for ln, l := range lists {
				for cn, cp := range comps {
					if cn != "null" && v%16 != 1 && v%16 != 3 {
						continue // the compression variants at two versions out of 16
					}
					hello := buildClientHello(uint16(v), l, cp, true)
					rv := uint16(0x0301)
					if v == 0x0101 {
						rv = 0x0101
					}
					for _, callbacks := range []bool{false, true} {
						if callbacks && !(cn == "null" && (ln == "GM+TLS" || ln == "ECC-GCM")) {
							continue
						}
						first := wire.Frame(rv, 22, hello)
						var cv, sv tlsk.View
						tag := fmt.Sprintf("%s: ClientHello version %04x suites=%s compression=%s", modeNames[mode], v, ln, cn)
						c.Add("executions", 1)
						c.Add("transitions", 1)
						c.DistinctS("states", tag)
						scfg := serverCfg(mode, false)
						if callbacks {
							// the same sweep against a server that uses every optional callback and list
							tag += " [server with GetConfigForClient/GetCertificate/VerifyPeerCertificate/NextProtos]"
							withCallbacks(scfg, mode)
						}
						o := tlsk.Run(rawPeer(first, &cv), tlsk.GMEnd(scfg, false, app[1], &sv, nil), &cv, &sv, nil)
						c.DistinctS("outcomes", fmt.Sprintf("%v/%v", o.S.HandshakeErr != nil, o.S.Panic != nil))
						if o.S.Panic != nil {
							c.Violate(fmt.Sprintf("panic:server:%s", site(o.S.Stack)), fmt.Sprintf("[%s] server panicked: %v\n%s", tag, o.S.Panic, clip(o.S.Stack, 1200)), nil, tag)
							continue
						}
						if len(o.Stuck) > 0 {
							c.Violate("hang:clienthello", fmt.Sprintf("[%s] server keeps waiting after the peer closed: %v", tag, o.Stuck), nil, tag)
							continue
						}
						if o.S.Complete || o.S.HandshakeErr == nil {
							c.Violate("completes-after:clienthello-only", fmt.Sprintf("[%s] the server reports completion although the peer sent only a ClientHello", tag), nil, tag)
						}
					}
				}
			}
		}
		c.Sample(fmt.Sprintf("%s: every ClientHello version %04x..%04x x 7 suite lists (x 3 compression lists at 2 of 16 versions)", modeNames[mode], lo, hi))
	}}
}

func buildServerHello(vers, suite uint16, comp byte) []byte {
	b := []byte{byte(vers >> 8), byte(vers)}
	b = append(b, make([]byte, 32)...)
	b = append(b, 0)
	b = append(b, byte(suite>>8), byte(suite), comp)
	return hsMsg(2, b)
}

func serverHelloSweepUnit(gm bool) harness.Unit {
	return harness.Unit{Name: fmt.Sprintf("serverhello-sweep/gmClient=%v", gm), Run: func(c *harness.Ctx) {
		mode := modeTLS
		if gm {
			mode = modeGM
		}
		for v := uint32(0); v <= 0x0400; v++ {
			for _, suite := range []uint16{0xe013, 0xe053, 0xe011, 0xc02b, 0x1234, 0x0000} {
				for _, comp := range []byte{0, 1} {
					if comp == 1 && v%64 != 1 && v%64 != 3 {
						continue
					}
					sh := buildServerHello(uint16(v), suite, comp)
					tag := fmt.Sprintf("gmClient=%v: ServerHello version %04x suite %04x compression %d (then end of stream)", gm, v, suite, comp)
					c.Add("executions", 1)
					c.Add("transitions", 1)
					c.DistinctS("states", tag)
					var cv, sv tlsk.View
					// raw server: waits for the ClientHello, answers, closes
					srv := func(e *wire.End) error {
						buf := make([]byte, 4096)
						e.Read(buf)
						e.Write(wire.Frame(uint16(v), 22, sh))
						e.Write(wire.Frame(uint16(v), 22, hsMsg(14, nil)))
						for {
							if _, err := e.Read(buf); err != nil {
								break
							}
						}
						e.Close()
						return nil
					}
					o := tlsk.Run(tlsk.GMEnd(clientCfg(mode, false), true, app[0], &cv, nil), srv, &cv, &sv, nil)
					c.DistinctS("outcomes", fmt.Sprintf("%v/%v", o.C.HandshakeErr != nil, o.C.Panic != nil))
					if o.C.Panic != nil {
						c.Violate(fmt.Sprintf("panic:client:%s", site(o.C.Stack)), fmt.Sprintf("[%s] client panicked: %v\n%s", tag, o.C.Panic, clip(o.C.Stack, 1200)), nil, tag)
						continue
					}
					if len(o.Stuck) > 0 {
						c.Violate("hang:serverhello", fmt.Sprintf("[%s] %v", tag, o.Stuck), nil, tag)
						continue
					}
					if o.C.Complete || o.C.HandshakeErr == nil {
						c.Violate("completes-after:serverhello-only", fmt.Sprintf("[%s] the client reports completion", tag), nil, tag)
					}
				}
			}
		}
		c.Sample(fmt.Sprintf("library client (GMSSL=%v): every ServerHello version 0000..0400 x 6 suites x compression, followed by ServerHelloDone and end of stream", gm))
	}}
}

var _ = stdtls.VersionTLS12

// Prop registers C15.
var Prop = &harness.Prop{
	ID:          "C15",
	Level:       "model_checking",
	Rule:        "deviation-bounded exploration of scripted handshakes: for each server mode {GMSSL-only, auto-switch with GMSSL client, auto-switch with TLS client, TLS-only} and client-authentication {none, require-any} the honest exchange between two library endpoints is taken as the default trace and exactly one deviation is applied at every plaintext handshake message of both directions: omitted, repeated, replaced/preceded by each of 13 message types (canned well-formed bodies), type byte changed, ChangeCipherSpec / application data / fatal alert / close_notify / warning alert(s) / malformed alert / zero-length record / unknown record type injected, one-byte fragmentation, 4 record versions, body truncated to 4 lengths with consistent and stale length fields, message length +1 / 0xffffff / 65537, trailing byte, every inner byte set to {0,+1,-1,0xff}; end of stream after every record; plus the first-flight spaces: every ClientHello version 0x0000..0x0400 x 7 suite lists x compression lists against each server mode and every ServerHello version x 6 suites x compression against GMSSL and TLS clients. Oracle: never a panic, never an endpoint still waiting after end of stream; for non-conformant deviations the receiving endpoint returns an error and does not report completion (conformant variations - warning alert, empty record, re-fragmentation, record-layer version - are recorded, not judged). Scripted peer (gmref, both roles, both ECC suites, with and without client authentication): every single edit of the peer's two flights - each message omitted, sent twice, swapped with its successor, and each of 13-15 alphabet items (all handshake messages of both roles, ChangeCipherSpec, Finished, HelloRequest, unknown type, NewSessionTicket, application data, empty application data, warning alert) inserted at every position or put in place of every message (thorough: every pair of edits); every length/count field of every message set to +1/-1/0/max/+256/^0x80; every strict truncation of every body and a trailing byte with the handshake length adjusted. There the oracle also demands completion of every conformant variant. states = distinct scripted traces; transitions = sessions run. Added scripted-peer units: TLS 1.0/1.1/1.2 RSA, TLS 1.2 ECDHE-GCM and ECDHE-CBC at 1.0-1.2 profiles of the reference peer (flight edits, malformed fields with cuts at every length-field boundary, straddling ChangeCipherSpec); CertificateRequest contents (12 type lists x signature algorithms x 8 authority lists x 5 ways the client chooses); NextProtocol on TLS and GMSSL servers; unoffered suite; every exported suite id x ClientHello version 0300..0304 against a server listing exactly that suite; renegotiation: policy x requests x RFC 5746, every single flight edit inside the first and second renegotiation, ten odd requests, end of stream after every record, and the first-handshake units again with renegotiation-enabled clients. Flight edits also with the peer's handshake messages packed into one record per flight. A scripted server that selects an ECDHE-SM2 suite: curve_type x named_curve x 7 point encodings x 8 signature kinds (the server holds the certified signing key), the signed body cut at every length, inconsistent point lengths. The alphabets include an empty Certificate; a whole unsolicited client authentication (Certificate, ClientKeyExchange, CertificateVerify) is one case. ChangeCipherSpec with 7 malformed bodies followed by a correct Finished sent with and without record protection.",
	Assumptions: []string{"in the man-in-the-middle units Finished always mismatches after a deviation; the scripted-peer units use the independent reference implementation gmref, whose Finished covers the transcript that really happened, so there a deviation can only be refused by noticing the deviation itself", "conformance of a scripted sequence is decided by the message grammar of the ECC suites (ServerHello, Certificate, ServerKeyExchange, [CertificateRequest], ServerHelloDone / [Certificate], ClientKeyExchange, [CertificateVerify], ChangeCipherSpec, Finished); warning alerts and HelloRequest towards a client are tolerated either way"},
	Bounds: func(tier string) string {
		if tier == "thorough" {
			return "<=1 deviation by the man in the middle, inner-byte perturbation at every byte of every message; full hello sweeps; scripted peer: <=2 edits, every truncation"
		}
		return "<=1 deviation, inner-byte perturbation at every byte of messages <=120 bytes and every third variant up to 300 bytes; full hello sweeps; scripted peer: <=1 edit, truncations at every byte up to 100 bytes and every 7th beyond"
	},
	Units: func(tier string) []harness.Unit {
		var u []harness.Unit
		for m := 0; m < 4; m++ {
			for _, a := range []bool{false, true} {
				u = append(u, sequenceUnit(m, a))
			}
		}
		for _, m := range []int{modeGM, modeAutoGM, modeTLS} {
			for lo := uint32(0); lo <= 0x0400; lo += 0x80 {
				hi := lo + 0x7f
				if hi > 0x0400 {
					hi = 0x0400
				}
				u = append(u, helloSweepUnit(m, uint16(lo), uint16(hi)))
			}
		}
		u = append(u, serverHelloSweepUnit(true), serverHelloSweepUnit(false))
		u = append(u, suiteVersionUnit(), versionRangeUnit())
		u = append(u, refUnits()...)
		u = append(u, renegUnits()...)
		return u
	},
}

// suiteVersionUnit: a ClientHello of every TLS version offering exactly one suite, for every suite
// the library exports, to a TLS server that lists exactly that suite (default-off suites included)
// and holds an RSA and an ECDSA certificate through GetCertificate. A suite that needs TLS 1.2 (AEAD,
// SHA-256/384 MAC) must not be selected for an older hello; an unknown or unimplemented suite never.
// The server answers a ServerHello only when the pair (suite, version) is defined.
func suiteVersionUnit() harness.Unit {
	return harness.Unit{Name: "clienthello-suite-for-version", Run: func(c *harness.Ctx) {
		p := tlsk.Get()
		type su struct {
			id     uint16
			rsa    bool
			only12 bool
			absent bool // exported constant without an implementation
		}
		all := []su{
			{0x0005, true, false, false}, {0x000a, true, false, false}, {0x002f, true, false, false}, {0x0035, true, false, false}, {0x003c, true, true, false}, {0x009c, true, true, false}, {0x009d, true, true, false},
			{0xc007, false, false, false}, {0xc009, false, false, false}, {0xc00a, false, false, false}, {0xc011, true, false, false}, {0xc012, true, false, false}, {0xc013, true, false, true}, {0xc014, true, false, false},
			{0xc023, false, true, false}, {0xc027, true, true, true}, {0xc02f, true, true, false}, {0xc02b, false, true, false}, {0xc030, true, true, false}, {0xc02c, false, true, false}, {0xcca8, true, true, false}, {0xcca9, false, true, false},
			{0xe013, false, true, true}, {0xe053, false, true, true}, {0x1301, false, true, true}, {0x00ff, false, false, true},
		}
		for _, s := range all {
			for _, v := range []uint16{0x0300, 0x0301, 0x0302, 0x0303, 0x0304} {
				cert := p.ECDSA
				if s.rsa {
					cert = p.RSA
				}
				scfg := &gmtls.Config{Certificates: []gmtls.Certificate{cert}, Time: tlsk.FixedTime, Rand: wire.NewRand(5), CipherSuites: []uint16{s.id}}
				hello := buildClientHello(v, []uint16{s.id}, []byte{0}, true)
				var cv, sv tlsk.View
				o := tlsk.Run(rawPeer(wire.Frame(0x0301, 22, hello), &cv), tlsk.GMEnd(scfg, false, app[1], &sv, nil), &cv, &sv, nil)
				tag := fmt.Sprintf("TLS server listing only suite %04x; ClientHello version %04x offering only that suite", s.id, v)
				c.Add("executions", 1)
				c.Add("transitions", 1)
				c.DistinctS("states", tag)
				if o.S.Panic != nil {
					c.Violate(fmt.Sprintf("panic:server:%s", site(o.S.Stack)), fmt.Sprintf("[%s] server panicked: %v\n%s", tag, o.S.Panic, clip(o.S.Stack, 1200)), nil, tag)
					continue
				}
				if len(o.Stuck) > 0 {
					c.Violate("hang:clienthello", fmt.Sprintf("[%s] server keeps waiting after the peer closed: %v", tag, o.Stuck), nil, tag)
					continue
				}
				if o.S.Complete || o.S.HandshakeErr == nil {
					c.Violate("completes-after:clienthello-only", fmt.Sprintf("[%s] the server reports completion although the peer sent only a ClientHello", tag), nil, tag)
				}
				// what the raw peer read back: a ServerHello (handshake record whose first message has type 2)?
				answered := len(cv.Read) >= 6 && cv.Read[0] == 22 && cv.Read[5] == 2
				eff := v
				if eff > 0x0303 {
					eff = 0x0303
				}
				// SSL 3.0 hellos are answered by this library for the suites that predate TLS 1.2: not judged
				defined := !s.absent && (!s.only12 || eff == 0x0303)
				c.DistinctS("outcomes", fmt.Sprintf("%v/%v", answered, defined))
				if answered && !defined {
					c.Violate(fmt.Sprintf("serverhello-for-undefined-suite-version:%04x:%04x", s.id, v), fmt.Sprintf("[%s] the server answered with a ServerHello (%x...) although this suite is not defined for this version", tag, clipB(cv.Read, 12)), nil, tag)
				}
			}
		}
		c.Sample("26 suite ids (all exported TLS suites, the GMSSL ids, a TLS 1.3 id, the renegotiation SCSV) x ClientHello versions 0300..0304, one suite offered to a server listing exactly that suite")
	}}
}

func clipB(b []byte, n int) []byte {
	if len(b) > n {
		return b[:n]
	}
	return b
}

// versionRangeUnit: the version range of the Config that is in force - given directly, or returned by
// GetConfigForClient while the Config handed to Server() says something else - against a ClientHello
// of every version: a ServerHello is sent only for a version inside the range, and it carries the
// highest version both sides support.
func versionRangeUnit() harness.Unit {
	return harness.Unit{Name: "clienthello-version-range", Run: func(c *harness.Ctx) {
		p := tlsk.Get()
		ranges := [][2]uint16{{0, 0}, {0x0301, 0}, {0x0302, 0}, {0x0303, 0}, {0, 0x0301}, {0, 0x0302}, {0x0302, 0x0302}, {0x0301, 0x0302}}
		hows := []string{"set on the Config given to Server()", "set on the Config returned by GetConfigForClient (outer Config: defaults)", "set on the Config returned by GetConfigForClient (outer Config: TLS 1.2 only)", "set on the Config returned by GetConfigForClient (outer Config: TLS 1.0 only)"}
		for _, rg := range ranges {
			for hi, how := range hows {
				for _, v := range []uint16{0x0300, 0x0301, 0x0302, 0x0303, 0x0304} {
					inner := &gmtls.Config{Certificates: []gmtls.Certificate{p.RSA}, Time: tlsk.FixedTime, Rand: wire.NewRand(5), MinVersion: rg[0], MaxVersion: rg[1]}
					scfg := inner
					switch hi {
					case 1, 2, 3:
						scfg = &gmtls.Config{Certificates: []gmtls.Certificate{p.RSA}, Time: tlsk.FixedTime, Rand: wire.NewRand(5), GetConfigForClient: func(*gmtls.ClientHelloInfo) (*gmtls.Config, error) { return inner, nil }}
						if hi == 2 {
							scfg.MinVersion, scfg.MaxVersion = 0x0303, 0x0303
						}
						if hi == 3 {
							scfg.MinVersion, scfg.MaxVersion = 0x0301, 0x0301
						}
					}
					hello := buildClientHello(v, []uint16{0x002f}, []byte{0}, true)
					var cv, sv tlsk.View
					o := tlsk.Run(rawPeer(wire.Frame(0x0301, 22, hello), &cv), tlsk.GMEnd(scfg, false, app[1], &sv, nil), &cv, &sv, nil)
					tag := fmt.Sprintf("TLS server, MinVersion=%04x MaxVersion=%04x %s; ClientHello version %04x", rg[0], rg[1], how, v)
					c.Add("executions", 1)
					c.Add("transitions", 1)
					c.DistinctS("states", tag)
					if o.S.Panic != nil {
						c.Violate(fmt.Sprintf("panic:server:%s", site(o.S.Stack)), fmt.Sprintf("[%s] server panicked: %v\n%s", tag, o.S.Panic, clip(o.S.Stack, 1200)), nil, tag)
						continue
					}
					if len(o.Stuck) > 0 {
						c.Violate("hang:clienthello", fmt.Sprintf("[%s] server keeps waiting after the peer closed: %v", tag, o.Stuck), nil, tag)
						continue
					}
					if o.S.Complete || o.S.HandshakeErr == nil {
						c.Violate("completes-after:clienthello-only", fmt.Sprintf("[%s] the server reports completion although the peer sent only a ClientHello", tag), nil, tag)
					}
					answered := len(cv.Read) >= 11 && cv.Read[0] == 22 && cv.Read[5] == 2
					max := rg[1]
					if max == 0 {
						max = 0x0303
					}
					want := v
					if want > max {
						want = max
					}
					inRange := want >= rg[0] || rg[0] == 0
					c.DistinctS("outcomes", fmt.Sprintf("%v/%v", answered, inRange))
					if rg[0] == 0 && want < 0x0301 {
						continue // what the default minimum is (SSL 3.0 is answered by this library) is not judged
					}
					if answered && !inRange {
						c.Violate(fmt.Sprintf("serverhello-outside-version-range:%04x-%04x:how%d:%04x", rg[0], rg[1], hi, v), fmt.Sprintf("[%s] the server answered with a ServerHello although no version of its range is offered", tag), nil, tag)
					}
					if answered && inRange {
						if got := uint16(cv.Read[9])<<8 | uint16(cv.Read[10]); got != want {
							c.Violate(fmt.Sprintf("serverhello-version:%04x-%04x:how%d:%04x", rg[0], rg[1], hi, v), fmt.Sprintf("[%s] ServerHello carries version %04x, the highest version both support is %04x", tag, got, want), nil, tag)
						}
					}
					if !answered && inRange {
						c.Violate(fmt.Sprintf("version-in-range-refused:%04x-%04x:how%d:%04x", rg[0], rg[1], hi, v), fmt.Sprintf("[%s] no ServerHello although the version is inside the range", tag), nil, tag)
					}
				}
			}
		}
		c.Sample("8 version ranges x 4 ways they are in force (directly; behind GetConfigForClient with three different outer Configs) x ClientHello versions 0300..0304")
	}}
}
