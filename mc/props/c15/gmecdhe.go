package c15

import (
	"crypto/sha1"
	"fmt"
	"math/big"

	"github.com/tjfoc/gmsm/gmtls"

	"verif/mc/harness"
	"verif/mc/ref/gmref"
	"verif/mc/ref/refsm2"
	"verif/mc/tlsk"
	"verif/mc/wire"
)

// ---- a server that selects an ECDHE-SM2 suite -------------------------------------------------------
//
// A GMSSL client with default CipherSuites OFFERS 0xe011 and 0xe051. A server - certified or not -
// may select one and send a ServerKeyExchange of the ECDHE shape: curve_type | named_curve | point |
// signature. The scripted server here holds the genuine server identity, so it can sign whatever
// parameters it likes the way this client verifies them (SM2 with the default identity over
// SHA-1(client_random | server_random | params)); it cannot finish the handshake (nobody specifies
// how), so the client must end with an error - for every parameter block, signed or not, complete
// or cut short - and must never crash or wait forever.

func gmECDHEServerKXUnit(suite uint16) harness.Unit {
	return harness.Unit{Name: fmt.Sprintf("scripted-server-selects-ecdhe-sm2/%04x", suite), Run: func(c *harness.Ctx) {
		p := tlsk.Get()
		g := refsm2.BaseMul(big.NewInt(0x1234567))
		pad := func(v *big.Int) []byte { b := v.Bytes(); return append(make([]byte, 32-len(b)), b...) }
		onCurve := append(append([]byte{4}, pad(g.X)...), pad(g.Y)...)
		offCurve := append([]byte{}, onCurve...)
		offCurve[64] ^= 1
		compressed := append([]byte{2 + byte(g.Y.Bit(0))}, pad(g.X)...)
		type pt struct {
			name string
			b    []byte
		}
		points := []pt{{"SM2 point", onCurve}, {"point off the curve", offCurve}, {"compressed point", compressed}, {"32 bytes", pad(g.X)}, {"infinity octet", []byte{0}}, {"empty", nil}, {"zero coordinates", append([]byte{4}, make([]byte, 64)...)}}
		curveTypes := []byte{3, 1, 2, 0}
		curveIDs := []uint16{23, 24, 25, 29, 41, 0, 0x1234, 0xffff}
		sigKinds := []string{"signed by the certified key", "signed by another key", "unsigned (zero-length signature)", "signature field absent", "one byte where the signature length should be", "signature length one too large", "signature length one too small", "garbage DER"}
		run := func(tag, key string, build func(q *gmref.Peer) []byte) {
			cfg := &gmtls.Config{GMSupport: &gmtls.GMSupport{}, RootCAs: p.Roots, ServerName: tlsk.ServerName, Time: tlsk.FixedTime, Rand: wire.NewRand(41)}
			mut := func(fl int, items []gmref.Item) []gmref.Item {
				if fl != 0 {
					return items
				}
				out := append([]gmref.Item{}, items...)
				for i := range out {
					if out[i].Name == "ServerKeyExchange" {
						out[i].Build = func(q *gmref.Peer) []byte { return gmref.HS(gmref.HSServerKX, build(q)) }
					}
				}
				return out
			}
			o := tlsk.RunLibVsRef(cfg, true, tlsk.LibApp(true), tlsk.ServerIdentity(), 42, func(q *gmref.Peer) { q.Suites = []uint16{suite} }, &gmref.Script{Data: tlsk.PingPong(false), Mutate: mut}, nil)
			c.Add("executions", 1)
			c.Add("transitions", 1)
			c.DistinctS("states", tag)
			c.DistinctS("outcomes", fmt.Sprintf("%v/%v", o.Lib.Complete, o.Lib.HandshakeErr))
			if o.Lib.Panic != nil {
				c.Violate("panic:client:"+site(o.Lib.Stack)+":ecdhe-sm2-server-key-exchange:"+key, fmt.Sprintf("[%s] the client panics: %v\n%s", tag, o.Lib.Panic, clip(o.Lib.Stack, 1500)), nil, tag)
				return
			}
			if o.LibStuck || o.Horizon {
				c.Violate("hang:ecdhe-sm2-server-key-exchange:"+key, fmt.Sprintf("[%s] %s", tag, o.Describe()), nil, tag)
				return
			}
			if o.Lib.Complete || o.Lib.HandshakeErr == nil || len(o.Lib.Read) > 0 {
				c.Violate("completes-after:ecdhe-sm2-server-key-exchange:"+key, fmt.Sprintf("[%s] the client reports completion although the server never proved knowledge of a shared key: %s", tag, o.Describe()), nil, tag)
			}
		}
		sign := func(q *gmref.Peer, params []byte, kind int) []byte {
			h := sha1.New()
			h.Write(q.CR)
			h.Write(q.SR)
			h.Write(params)
			d := h.Sum(nil)
			switch kind {
			case 0:
				return gmref.SKEBody(gmref.SignSM2(q.ID.SignKey, d, q.Rand))
			case 1:
				return gmref.SKEBody(gmref.SignSM2(big.NewInt(77777), d, q.Rand))
			case 2:
				return []byte{0, 0}
			case 3:
				return nil
			case 4:
				return []byte{0}
			case 5, 6:
				s := gmref.SignSM2(q.ID.SignKey, d, q.Rand)
				b := gmref.SKEBody(s)
				n := len(s) + 1
				if kind == 6 {
					n = len(s) - 1
				}
				b[0], b[1] = byte(n>>8), byte(n)
				return b
			}
			return gmref.SKEBody([]byte{0x30, 0x06, 0x02, 0x01, 0x01, 0x02, 0x01})
		}
		params := func(ct byte, id uint16, pb []byte) []byte {
			return append([]byte{ct, byte(id >> 8), byte(id), byte(len(pb))}, pb...)
		}
		for _, ct := range curveTypes {
			for _, id := range curveIDs {
				for _, po := range points {
					for sk, sn := range sigKinds {
						if !c.Thorough() && ct != 3 && (id != 23 || sk > 1) {
							continue
						}
						ct, id, po, sk := ct, id, po, sk
						tag := fmt.Sprintf("suite %04x; ServerKeyExchange curve_type=%d named_curve=%d point=%s; %s", suite, ct, id, po.name, sn)
						run(tag, fmt.Sprintf("type%d:curve%d:%s:%s", ct, id, po.name, sn), func(q *gmref.Peer) []byte {
							pr := params(ct, id, po.b)
							return append(pr, sign(q, pr, sk)...)
						})
					}
				}
			}
		}
		// the well-formed signed body cut at every length, and with trailing bytes (P-256 named: refused
		// at the point check; X25519 named: the point is not examined, the signature part is reached)
		for _, cid := range []uint16{23, 29} {
			for cut := 0; cut <= 160; cut++ {
				cid, cut := cid, cut
				tag := fmt.Sprintf("suite %04x; signed ServerKeyExchange (curve %d, SM2 point) cut to %d bytes", suite, cid, cut)
				run(tag, fmt.Sprintf("curve%d:cut%d", cid, cut), func(q *gmref.Peer) []byte {
					pr := params(3, cid, onCurve)
					b := append(pr, sign(q, pr, 0)...)
					if cut < len(b) {
						return b[:cut]
					}
					return append(b, make([]byte, cut-len(b)+1)...)
				})
			}
		}
		// point length octet inconsistent with the body
		for _, pl := range []int{0, 1, 64, 66, 200, 255} {
			pl := pl
			tag := fmt.Sprintf("suite %04x; point length octet %d with a 65-byte point", suite, pl)
			run(tag, fmt.Sprintf("pointlen%d", pl), func(q *gmref.Peer) []byte {
				pr := params(3, 23, onCurve)
				pr[3] = byte(pl)
				return append(pr, sign(q, pr, 0)...)
			})
		}
		c.Sample("curve_type x named_curve x point encodings x signature kinds (the scripted server holds the certified signing key); the signed body cut at every length / extended; inconsistent point length")
	}}
}
