package c15

import (
	"fmt"

	"github.com/tjfoc/gmsm/gmtls"

	"verif/mc/harness"
	"verif/mc/props/refdev"
	"verif/mc/ref/gmref"
	"verif/mc/tlsk"
	"verif/mc/wire"
)

// refCfg describes one configuration of the scripted-peer units.
type refCfg struct {
	libIsClient bool
	suite       uint16
	auth        bool   // client certificate requested (and sent by the client)
	tls         bool   // standard TLS path (RSA key exchange) instead of GMSSL
	ver         uint16 // TLS version when tls is set (0 = TLS 1.2)
	auto        bool   // library server in GMSSL/TLS auto-switch mode (GMSSL reference client)
	reneg       bool   // library client with Config.Renegotiation = RenegotiateFreelyAsClient
	coalesce    bool   // the scripted peer packs the handshake messages of a flight into one record
}

func (r refCfg) ecdhe() bool {
	switch r.suite {
	case gmref.SuiteECDHERSAGCM, gmref.SuiteECDHEECDSAGCM, gmref.SuiteECDHEECDSACBC, gmref.SuiteECDHERSACBC256:
		return true
	}
	return false
}

func (r refCfg) ecdsaServer() bool {
	return r.suite == gmref.SuiteECDHEECDSAGCM || r.suite == gmref.SuiteECDHEECDSACBC
}

func (r refCfg) version() uint16 {
	if r.ver != 0 {
		return r.ver
	}
	return 0x0303
}

func (r refCfg) String() string {
	role := "library-server"
	if r.libIsClient {
		role = "library-client"
	}
	if r.tls {
		role = fmt.Sprintf("tls%04x/", r.version()) + role
	}
	if r.auto {
		role = "auto-switch/" + role
	}
	if r.reneg {
		role = "renegotiation-enabled/" + role
	}
	if r.coalesce {
		role = "coalesced-records/" + role
	}
	return fmt.Sprintf("%s/%04x/client-auth=%v", role, r.suite, r.auth)
}

// identity of the reference peer in the role it plays against the library.
func (r refCfg) identity() gmref.Identity {
	p := tlsk.Get()
	ecdhe := r.ecdhe()
	switch {
	case ecdhe && r.libIsClient && r.ecdsaServer():
		return gmref.Identity{Certs: [][]byte{p.ECDSA.Certificate[0]}, TLSKey: p.ECDSAKey}
	case ecdhe && r.libIsClient:
		return gmref.Identity{Certs: [][]byte{p.RSA.Certificate[0]}, TLSKey: p.RSAKey}
	case r.tls && r.libIsClient:
		return gmref.Identity{Certs: [][]byte{p.RSA.Certificate[0]}, RSAKey: p.RSAKey}
	case r.tls:
		return gmref.Identity{Certs: [][]byte{p.StdClient.Certificate[0]}, TLSKey: p.StdClient.PrivateKey}
	case r.libIsClient:
		return tlsk.ServerIdentity()
	}
	return tlsk.ClientIdentity()
}

func (r refCfg) setup(q *gmref.Peer) {
	if r.tls {
		q.UseTLSVersion(r.version())
	}
	if r.suite == gmref.SuiteECDHERSAGCM || r.suite == gmref.SuiteECDHEECDSAGCM {
		q.UseECDHE()
	}
	if r.suite == gmref.SuiteECDHEECDSACBC || r.suite == gmref.SuiteECDHERSACBC256 {
		q.UseECDHECBC(r.version())
	}
	q.Suites = []uint16{r.suite}
	q.RequestCert = r.auth
	q.Coalesce = r.coalesce
}

// streams are the conformant server-to-client message streams of the profile.
func (r refCfg) serverStreams() [][]string {
	if !r.tls || r.ecdhe() {
		return refdev.ServerStreams() // with ServerKeyExchange
	}
	return [][]string{
		{"ServerHello", "Certificate", "ServerHelloDone", "ChangeCipherSpec", "Finished"},
		{"ServerHello", "Certificate", "CertificateRequest", "ServerHelloDone", "ChangeCipherSpec", "Finished"},
	}
}

func (r refCfg) libConfig() *gmtls.Config {
	c := r.libConfig0()
	if r.reneg && r.libIsClient {
		c.Renegotiation = gmtls.RenegotiateFreelyAsClient
	}
	return c
}

func (r refCfg) libConfig0() *gmtls.Config {
	p := tlsk.Get()
	if r.tls {
		if r.libIsClient {
			c := &gmtls.Config{RootCAs: p.StdRootsG, ServerName: tlsk.ServerName, Time: tlsk.FixedTime, Rand: wire.NewRand(21), CipherSuites: []uint16{r.suite}, MinVersion: r.version(), MaxVersion: r.version()}
			if r.auth {
				c.Certificates = []gmtls.Certificate{p.StdClient}
			}
			return c
		}
		scert := p.RSA
		if r.ecdsaServer() {
			scert = p.ECDSA
		}
		s := &gmtls.Config{Certificates: []gmtls.Certificate{scert}, Time: tlsk.FixedTime, Rand: wire.NewRand(22), CipherSuites: []uint16{r.suite}, MinVersion: r.version(), MaxVersion: r.version()}
		if r.auth {
			s.ClientAuth, s.ClientCAs = gmtls.RequireAndVerifyClientCert, p.StdRootsG
		}
		return s
	}
	if r.libIsClient {
		c := &gmtls.Config{GMSupport: &gmtls.GMSupport{}, RootCAs: p.Roots, ServerName: tlsk.ServerName, Time: tlsk.FixedTime, Rand: wire.NewRand(21), CipherSuites: []uint16{r.suite}}
		if r.auth {
			c.Certificates = []gmtls.Certificate{p.Client}
		}
		return c
	}
	s := &gmtls.Config{GMSupport: &gmtls.GMSupport{}, Certificates: []gmtls.Certificate{p.Sign, p.Enc}, Time: tlsk.FixedTime, Rand: wire.NewRand(22), CipherSuites: []uint16{r.suite}}
	if r.auto {
		a, err := gmtls.NewBasicAutoSwitchConfig(&p.Sign, &p.Enc, &p.ECDSA)
		if err != nil {
			panic(err)
		}
		a.Time, a.Rand = tlsk.FixedTime, wire.NewRand(22)
		s = a
	}
	if r.auth {
		s.ClientAuth, s.ClientCAs = gmtls.RequireAndVerifyClientCert, p.Roots
	}
	return s
}

// run plays one session with the given edits; it returns the outcome, the names sent per flight
// and whether every edit fitted.
func (r refCfg) run(edits []refdev.Edit) (*tlsk.RefOutcome, [2][]string, bool) {
	var sent [2][]string
	fit := true
	script := &gmref.Script{SendClientCert: r.auth, Data: tlsk.PingPong(!r.libIsClient), Mutate: refdev.Mutator(edits, &sent, &fit)}
	o := tlsk.RunLibVsRef(r.libConfig(), r.libIsClient, tlsk.LibApp(r.libIsClient), r.identity(), 23, r.setup, script, nil)
	return o, sent, fit
}

func (r refCfg) alphabet() []gmref.Item {
	if r.libIsClient {
		return refdev.ServerAlphabet()
	}
	return refdev.ClientAlphabet()
}

// judge applies the oracle of C15 to one scripted-peer session.
func judgeRef(c *harness.Ctx, r refCfg, tag, key string, o *tlsk.RefOutcome, verdict string) {
	c.DistinctS("outcomes", fmt.Sprintf("%s/%v/%v", verdict, o.Lib.Complete, o.Lib.HandshakeErr != nil))
	if o.Lib.Panic != nil {
		c.Violate("panic:scripted-peer:"+site(o.Lib.Stack), fmt.Sprintf("[%s] the endpoint panicked: %v\n%s", tag, o.Lib.Panic, clip(o.Lib.Stack, 1500)), nil, tag)
		return
	}
	if o.Ref.Panic != nil {
		c.Note("reference peer panicked in [%s]: %v", tag, o.Ref.Panic)
		c.Add("harness_divergences", 1)
		return
	}
	if o.LibStuck || o.Horizon {
		c.Violate("hang:scripted-peer:"+key, fmt.Sprintf("[%s] the endpoint keeps waiting although its input has ended: %s", tag, o.Describe()), nil, tag)
		return
	}
	switch verdict {
	case refdev.MustAbort:
		if o.Lib.Complete || o.Lib.HandshakeErr == nil {
			c.Violate("completes-after:scripted-peer:"+key, fmt.Sprintf("[%s] the endpoint reports a completed handshake although the peer's message sequence is not a conformant handshake: %s", tag, o.Describe()), nil, tag)
		}
	case refdev.MustComplete:
		if !o.Lib.Complete || !o.Ref.Res.Completed {
			c.Violate("conformant-peer-refused:"+key, fmt.Sprintf("[%s] a conformant exchange with the reference peer does not complete: %s", tag, o.Describe()), nil, tag)
		}
	}
}

func editKey(sentHonest [2][]string, e refdev.Edit) string {
	name := "end"
	if e.Pos < len(sentHonest[e.Flight]) {
		name = sentHonest[e.Flight][e.Pos]
	}
	switch e.Kind {
	case "insert":
		return fmt.Sprintf("%s-before-%s", e.X.Name, name)
	case "replace":
		return fmt.Sprintf("%s-instead-of-%s", e.X.Name, name)
	}
	return fmt.Sprintf("%s-%s", e.Kind, name)
}

// refSequenceUnit: every single edit (thorough: every pair of edits) of the messages the scripted
// peer sends in one flight (pairs: first edit in `flight`, second anywhere).
func refSequenceUnit(r refCfg, flight int) harness.Unit {
	return harness.Unit{Name: fmt.Sprintf("scripted-peer/%s/flight%d", r, flight), Run: func(c *harness.Ctx) {
		o, honest, _ := r.run(nil)
		wants := [][]string{append(append([]string{}, honest[0]...), honest[1]...)}
		if r.libIsClient {
			wants = r.serverStreams() // a server may or may not ask for a client certificate
		}
		c.Add("executions", 1)
		if !o.Lib.Complete || !o.Ref.Res.Completed || o.Lib.Panic != nil {
			c.Violate("control-fails:scripted-peer:"+r.String(), fmt.Sprintf("honest reference peer and library do not complete: %s", o.Describe()), nil, nil)
			return
		}
		one := func(edits []refdev.Edit) {
			o, sent, fit := r.run(edits)
			if !fit {
				return
			}
			stream := append(append([]string{}, sent[0]...), sent[1]...)
			verdict := refdev.ClassifyFlights(sent, honest, wants, r.libIsClient)
			tag := r.String()
			key := ""
			for i, e := range edits {
				tag += "; " + e.String()
				if i > 0 {
					key += "+"
				}
				key += editKey(honest, e)
			}
			c.Add("executions", 1)
			c.Add("transitions", int64(len(stream)))
			c.DistinctS("states", fmt.Sprint(stream))
			if c.WantSample() {
				c.Sample(fmt.Sprintf("%s => peer sends %v: %s", tag, stream, verdict))
			}
			judgeRef(c, r, tag, key, o, verdict)
		}
		first := refdev.Enumerate(flight, len(honest[flight]), r.alphabet())
		for _, e1 := range first {
			one([]refdev.Edit{e1})
		}
		if !r.libIsClient && !r.auth && flight == 1 {
			// a whole unsolicited client authentication: Certificate, ClientKeyExchange, CertificateVerify
			// although the server never sent a CertificateRequest
			cert, cv := gmref.ItemCertificate(), gmref.ItemCertVerify()
			one([]refdev.Edit{{Flight: 1, Kind: "insert", Pos: 0, X: &cert}, {Flight: 1, Kind: "insert", Pos: 2, X: &cv}})
		}
		if c.Thorough() {
			for _, e1 := range first {
				// the list after e1 has at most one more item
				for f2 := flight; f2 < 2; f2++ {
					n2 := len(honest[f2])
					if f2 == flight {
						n2++
					}
					for _, e2 := range refdev.Enumerate(f2, n2, r.alphabet()) {
						one([]refdev.Edit{e1, e2})
					}
				}
			}
		}
	}}
}

// refStraddleUnit: a handshake message cut in two by ChangeCipherSpec - the tail of the message
// before it arrives after it, or the head of the message after it arrives before it. The peer's
// transcript contains each message exactly once and its Finished is correct, so only the check that
// no handshake data is pending at ChangeCipherSpec can refuse it.
func refStraddleUnit(r refCfg) harness.Unit {
	return harness.Unit{Name: fmt.Sprintf("scripted-peer-straddle/%s", r), Run: func(c *harness.Ctx) {
		o, honest, _ := r.run(nil)
		c.Add("executions", 1)
		if !o.Lib.Complete || !o.Ref.Res.Completed {
			c.Violate("control-fails:scripted-peer:"+r.String(), fmt.Sprintf("honest reference peer and library do not complete: %s", o.Describe()), nil, nil)
			return
		}
		// the flight that carries ChangeCipherSpec is flight 1 in both roles
		ccs := -1
		for i, n := range honest[1] {
			if n == "ChangeCipherSpec" {
				ccs = i
			}
		}
		if ccs < 0 {
			return
		}
		type cut struct {
			before    bool // true: the message BEFORE ChangeCipherSpec loses its tail to the other side
			k         int  // bytes that end up on the other side
			coalesced bool // the head of the next message travels in the SAME record as the previous message
		}
		var cuts []cut
		for _, k := range []int{1, 2, 4, 5, 11} {
			cuts = append(cuts, cut{false, k, false})
			if ccs > 0 {
				cuts = append(cuts, cut{true, k, false}, cut{false, k, true})
			}
		}
		for _, ct := range cuts {
			ct := ct
			mut := func(fl int, items []gmref.Item) []gmref.Item {
				if fl != 1 {
					return items
				}
				out := append([]gmref.Item{}, items[:ccs]...)
				var part []byte
				if ct.before {
					prev := items[ccs-1]
					out = out[:ccs-1]
					out = append(out, gmref.Item{Name: prev.Name + "(head)", Rec: gmref.RecHS, Fragment: true, Build: func(p *gmref.Peer) []byte {
						m := prev.Build(p)
						p.Transcript = append(p.Transcript, m...)
						k := ct.k
						if k >= len(m) {
							k = len(m) - 1
						}
						part = m[len(m)-k:]
						return m[:len(m)-k]
					}}, items[ccs], gmref.Item{Name: prev.Name + "(tail after ChangeCipherSpec)", Rec: gmref.RecHS, Fragment: true, Build: func(p *gmref.Peer) []byte { return part }})
					return append(out, items[ccs+1:]...)
				}
				next := items[ccs+1]
				var lead []byte
				if ct.coalesced {
					prev := items[ccs-1]
					out = out[:ccs-1]
					out = append(out, gmref.Item{Name: prev.Name + "(accounted)", Rec: gmref.RecHS, Fragment: true, Build: func(p *gmref.Peer) []byte {
						lead = prev.Build(p)
						p.Transcript = append(p.Transcript, lead...)
						return nil
					}})
				}
				out = append(out, gmref.Item{Name: next.Name + "(head before ChangeCipherSpec)", Rec: gmref.RecHS, Fragment: true, Build: func(p *gmref.Peer) []byte {
					m := next.Build(p)
					if len(m) > 0 && m[0] == gmref.HSFinished {
						p.SentFinished = true
					}
					p.Transcript = append(p.Transcript, m...)
					k := ct.k
					if k >= len(m) {
						k = len(m) - 1
					}
					part = m[k:]
					return append(append([]byte{}, lead...), m[:k]...)
				}}, items[ccs], gmref.Item{Name: next.Name + "(tail)", Rec: gmref.RecHS, Fragment: true, Build: func(p *gmref.Peer) []byte { return part }})
				return append(out, items[ccs+2:]...)
			}
			o := r.runMut(mut)
			side := "the first"
			name := honest[1][ccs+1]
			if ct.before {
				side = "the last"
				name = honest[1][ccs-1]
			}
			tag := fmt.Sprintf("%s; %s %d byte(s) of %s on the other side of ChangeCipherSpec (same record as the previous message: %v)", r, side, ct.k, name, ct.coalesced)
			c.Add("executions", 1)
			c.Add("transitions", 1)
			c.DistinctS("states", tag)
			c.Sample(tag)
			judgeRef(c, r, tag, fmt.Sprintf("straddles-ChangeCipherSpec:%s:before=%v:coalesced=%v", name, ct.before, ct.coalesced), o, refdev.MustAbort)
		}
		// ChangeCipherSpec with a body other than {1}, followed by a CORRECT Finished that is sent with
		// or without record protection. Without protection the peer behaves as if its malformed
		// ChangeCipherSpec had not happened - an endpoint that merely skips the malformed record would
		// find the plaintext Finished valid.
		if ccs+1 < len(honest[1]) && honest[1][ccs+1] == "Finished" {
			for _, body := range [][]byte{{}, {0}, {2}, {0xff}, {1, 1}, {1, 0}, {0, 1}} {
				for _, protect := range []bool{true, false} {
					body, protect := body, protect
					mut := func(fl int, items []gmref.Item) []gmref.Item {
						if fl != 1 {
							return items
						}
						out := append([]gmref.Item{}, items[:ccs]...)
						fin := items[ccs+1]
						if protect {
							out = append(out, gmref.Item{Name: fmt.Sprintf("ChangeCipherSpec(body %x)", body), Rec: gmref.RecCCS, Build: func(p *gmref.Peer) []byte { return body }}, fin)
						} else {
							out = append(out, gmref.Item{Name: fmt.Sprintf("ChangeCipherSpec(body %x, protection stays off)", body), Rec: gmref.RecCCS, Raw: true, Build: func(p *gmref.Peer) []byte { return body }},
								gmref.Item{Name: "Finished(unprotected)", Rec: gmref.RecHS, Fragment: true, Build: func(p *gmref.Peer) []byte {
									m := fin.Build(p)
									p.SentFinished = true
									p.Transcript = append(p.Transcript, m...)
									return m
								}})
						}
						return append(out, items[ccs+2:]...)
					}
					o := r.runMut(mut)
					tag := fmt.Sprintf("%s; ChangeCipherSpec with body %x, then a correct Finished (record protection on: %v)", r, body, protect)
					c.Add("executions", 1)
					c.Add("transitions", 1)
					c.DistinctS("states", tag)
					judgeRef(c, r, tag, fmt.Sprintf("malformed-ChangeCipherSpec:body=%x:finished-protected=%v", body, protect), o, refdev.MustAbort)
				}
			}
			c.Sample(fmt.Sprintf("%s; ChangeCipherSpec bodies {empty,00,02,ff,0101,0100,0001} x Finished protected / unprotected", r))
		}
	}}
}

// refTicketHelloUnit: state carried from an earlier connection. The reference client first obtains
// a session ticket from the server in an honest handshake, then comes back with that (valid) ticket
// in ClientHellos that no server may accept: suite lists without any suite the server supports,
// an empty list, a compression list without "null". Resumption logic runs before suite selection,
// so what it leaves behind must not let such a hello through. A hello that offers the ticket with
// the server's other suite is the conformant control (full handshake or resumption, must complete).
func refTicketHelloUnit(suite uint16) harness.Unit { return refTicketHelloUnitP(suite, false) }

// prefer: the server has PreferServerCipherSuites set (its own list then drives the choice, which
// must still be confined to what the client offers - also when a ticket is presented)
func refTicketHelloUnitP(suite uint16, prefer bool) harness.Unit {
	name := fmt.Sprintf("scripted-peer-ticket-then-hello/%04x", suite)
	if prefer {
		name += "/PreferServerCipherSuites"
	}
	return harness.Unit{Name: name, Run: func(c *harness.Ctx) {
		p := tlsk.Get()
		tls := suite == gmref.SuiteAESCBC || suite == gmref.SuiteAESGCM
		mkServer := func() *gmtls.Config {
			sc := &gmtls.Config{GMSupport: &gmtls.GMSupport{}, Certificates: []gmtls.Certificate{p.Sign, p.Enc}, Time: tlsk.FixedTime, Rand: wire.NewRand(91),
				CipherSuites: []uint16{gmtls.GMTLS_ECC_SM4_CBC_SM3, gmtls.GMTLS_ECC_SM4_GCM_SM3}, PreferServerCipherSuites: prefer}
			if tls {
				sc = &gmtls.Config{Certificates: []gmtls.Certificate{p.RSA}, Time: tlsk.FixedTime, Rand: wire.NewRand(91), MinVersion: 0x0303, MaxVersion: 0x0303,
					CipherSuites: []uint16{gmref.SuiteAESGCM, gmref.SuiteAESCBC}, PreferServerCipherSuites: prefer}
			}
			sc.SetSessionTicketKeys([][32]byte{{9, 9, 9}})
			return sc
		}
		other := uint16(gmref.SuiteCBC)
		switch suite {
		case gmref.SuiteCBC:
			other = gmref.SuiteGCM
		case gmref.SuiteAESCBC:
			other = gmref.SuiteAESGCM
		case gmref.SuiteAESGCM:
			other = gmref.SuiteAESCBC
		}
		type hello struct {
			name       string
			suites     []uint16
			conformant bool
		}
		hellos := []hello{
			{"the ticket's suite (control)", []uint16{suite}, true},
			{"only the server's other suite (control)", []uint16{other}, true},
			{"only unknown suites", []uint16{0x0a0a, 0x1a1a, 0xfafa}, false},
			{"only the unimplemented ECDHE-SM2 suites", []uint16{0xe011, 0xe051}, false},
			{"only suites of the other protocol family", map[bool][]uint16{false: {0xc02b, 0xc02f, 0x009c}, true: {0xe013, 0xe053}}[tls], false},
			{"an empty suite list", []uint16{}, false},
		}
		for _, withTicket := range []bool{true, false} {
			for _, h := range hellos {
				sc := mkServer()
				// connection 1: honest, obtains a ticket
				var first *gmref.Peer
				o1 := tlsk.RunLibVsRef(sc, false, tlsk.LibApp(false), gmref.Identity{}, 92, func(q *gmref.Peer) {
					if tls {
						q.UseTLS()
					}
					q.Suites = []uint16{suite}
					q.OfferTicket = true
					first = q
				}, &gmref.Script{Data: tlsk.PingPong(true)}, nil)
				if !o1.Lib.Complete || first == nil || first.NewTicket == nil {
					c.Violate("control-fails:ticket-issue", fmt.Sprintf("suite %04x: the honest first connection does not complete with a ticket: %s", suite, o1.Describe()), nil, nil)
					return
				}
				ticket, master := first.NewTicket, first.Master
				setup := func(q *gmref.Peer) {
					if tls {
						q.UseTLS()
					}
					q.Suites = h.suites
					q.OfferTicket = true
					if withTicket {
						q.Ticket, q.ResumeMaster, q.ResumeSuite = ticket, master, suite
					}
				}
				o := tlsk.RunLibVsRef(sc, false, tlsk.LibApp(false), gmref.Identity{}, 93, setup, &gmref.Script{Data: tlsk.PingPong(true)}, nil)
				tag := fmt.Sprintf("server with a ticket issued for suite %04x; next ClientHello presents the ticket=%v and offers %s", suite, withTicket, h.name)
				c.Add("executions", 2)
				c.Add("transitions", 2)
				c.DistinctS("states", tag)
				c.Sample(tag)
				verdict := refdev.MustAbort
				if h.conformant {
					verdict = refdev.MustComplete
				}
				r := refCfg{libIsClient: false, suite: suite, tls: tls}
				judgeRef(c, r, tag, fmt.Sprintf("ticket=%v:hello offering %s", withTicket, h.name), o, verdict)
				if o.Lib.Complete && len(h.suites) > 0 {
					offered := false
					for _, x := range h.suites {
						offered = offered || x == o.Lib.Suite
					}
					if !offered {
						c.Violate("selects-suite-not-offered", fmt.Sprintf("[%s] the server completed with suite %04x, which the ClientHello did not offer", tag, o.Lib.Suite), nil, tag)
					}
				}
			}
		}
	}}
}

// refNPNUnit: next-protocol negotiation on the standard TLS server. The scripted client offers NPN,
// ALPN, both or neither, and sends or omits the NextProtocol message; a NextProtocol message is due
// exactly when the server put the NPN extension into its ServerHello. Anything else must abort.
func refNPNUnit(suite uint16) harness.Unit {
	return harness.Unit{Name: fmt.Sprintf("scripted-peer-next-protocol/%04x", suite), Run: func(c *harness.Ctx) {
		p := tlsk.Get()
		gm := suite == gmtls.GMTLS_ECC_SM4_CBC_SM3 || suite == gmtls.GMTLS_ECC_SM4_GCM_SM3
		npnExt := []byte{0x33, 0x74, 0, 0}
		alpnExt := []byte{0, 16, 0, 5, 0, 3, 2, 'h', '2'}
		nextProto := func(proto string) gmref.Item {
			return gmref.Item{Name: "NextProtocol", Rec: gmref.RecHS, Build: func(q *gmref.Peer) []byte {
				b := append([]byte{byte(len(proto))}, proto...)
				pad := 32 - (len(proto)+2)%32
				b = append(b, byte(pad))
				b = append(b, make([]byte, pad)...)
				return gmref.HS(67, b)
			}}
		}
		for _, serverProtos := range [][]string{{"h2", "http/1.1"}, nil} {
			for hi, hello := range [][]byte{nil, npnExt, alpnExt, append(append([]byte{}, alpnExt...), npnExt...)} {
				for _, send := range []string{"", "h2", "spdy/evil"} {
					sc := &gmtls.Config{Certificates: []gmtls.Certificate{p.RSA}, Time: tlsk.FixedTime, Rand: wire.NewRand(95), CipherSuites: []uint16{suite}, MinVersion: 0x0303, MaxVersion: 0x0303, NextProtos: serverProtos}
					if gm {
						sc = &gmtls.Config{GMSupport: &gmtls.GMSupport{}, Certificates: []gmtls.Certificate{p.Sign, p.Enc}, Time: tlsk.FixedTime, Rand: wire.NewRand(95), CipherSuites: []uint16{suite}, NextProtos: serverProtos}
					}
					var peer *gmref.Peer
					setup := func(q *gmref.Peer) {
						if !gm {
							q.UseTLS()
						}
						q.Suites = []uint16{suite}
						q.HelloExt = hello
						peer = q
					}
					mut := func(fl int, items []gmref.Item) []gmref.Item {
						if fl != 1 || send == "" {
							return items
						}
						var out []gmref.Item
						for _, it := range items {
							if it.Name == "Finished" {
								out = append(out, nextProto(send))
							}
							out = append(out, it)
						}
						return out
					}
					o := tlsk.RunLibVsRef(sc, false, tlsk.LibApp(false), gmref.Identity{}, 96, setup, &gmref.Script{Data: tlsk.PingPong(true), Mutate: mut}, nil)
					negotiated := false
					if peer != nil && peer.ServerExts != nil {
						_, negotiated = peer.ServerExts[0x3374]
					}
					tag := fmt.Sprintf(map[bool]string{true: "GMSSL", false: "TLS 1.2"}[gm]+" server NextProtos=%v; ClientHello extension set %d (0 none, 1 NPN, 2 ALPN, 3 ALPN+NPN); NPN in ServerHello=%v; client sends NextProtocol %q", serverProtos, hi, negotiated, send)
					c.Add("executions", 1)
					c.Add("transitions", 1)
					c.DistinctS("states", tag)
					if c.WantSample() {
						c.Sample(tag)
					}
					verdict := refdev.MustAbort
					if negotiated == (send != "") {
						verdict = refdev.MustComplete
					}
					r := refCfg{libIsClient: false, suite: suite, tls: !gm}
					judgeRef(c, r, tag, fmt.Sprintf("next-protocol:negotiated=%v:sent=%v", negotiated, send != ""), o, verdict)
					if verdict == refdev.MustComplete && o.Lib.Complete {
						want := ""
						switch {
						case negotiated:
							want = send
						case len(serverProtos) > 0 && (hi == 2 || hi == 3):
							want = "h2" // ALPN
						}
						if o.Lib.Proto != want {
							c.Violate("next-protocol:wrong-protocol-reported", fmt.Sprintf("[%s] the server reports the negotiated protocol %q, want %q", tag, o.Lib.Proto, want), nil, tag)
						}
					}
				}
			}
		}
	}}
}

// refUnofferedSuiteUnit: a keyed server that selects a cipher suite the ClientHello did not offer and
// then carries the whole handshake through consistently under that suite. The client must refuse the
// ServerHello. Cases: the other suite of the profile (GMSSL, TLS 1.2), and on TLS 1.0 / 1.1 a suite
// that the client has configured but could not offer at that version (AES-128-GCM).
func refUnofferedSuiteUnit() harness.Unit {
	return harness.Unit{Name: "scripted-peer-unoffered-suite", Run: func(c *harness.Ctx) {
		p := tlsk.Get()
		type cs struct {
			name          string
			tls           bool
			ver           uint16
			configured    []uint16 // client configuration
			serverSelects uint16
			offered       bool // control: the selected suite WAS offered
		}
		cases := []cs{
			{"GMSSL client offering CBC, server selects GCM", false, 0x0101, []uint16{gmref.SuiteCBC}, gmref.SuiteGCM, false},
			{"GMSSL client offering GCM, server selects CBC", false, 0x0101, []uint16{gmref.SuiteGCM}, gmref.SuiteCBC, false},
			{"GMSSL client offering both, server selects GCM (control)", false, 0x0101, []uint16{gmref.SuiteCBC, gmref.SuiteGCM}, gmref.SuiteGCM, true},
			{"TLS 1.2 client offering AES-CBC, server selects AES-GCM", true, 0x0303, []uint16{gmref.SuiteAESCBC}, gmref.SuiteAESGCM, false},
			{"TLS 1.2 client offering AES-GCM, server selects AES-CBC", true, 0x0303, []uint16{gmref.SuiteAESGCM}, gmref.SuiteAESCBC, false},
			{"TLS 1.2 client offering both, server selects AES-GCM (control)", true, 0x0303, []uint16{gmref.SuiteAESCBC, gmref.SuiteAESGCM}, gmref.SuiteAESGCM, true},
			{"TLS 1.1 client with AES-CBC and AES-GCM configured (GCM cannot be offered at 1.1), server selects AES-GCM", true, 0x0302, []uint16{gmref.SuiteAESCBC, gmref.SuiteAESGCM}, gmref.SuiteAESGCM, false},
			{"TLS 1.0 client with AES-CBC and AES-GCM configured, server selects AES-GCM", true, 0x0301, []uint16{gmref.SuiteAESCBC, gmref.SuiteAESGCM}, gmref.SuiteAESGCM, false},
			{"TLS 1.1 client with the default suite list, server selects AES-GCM", true, 0x0302, nil, gmref.SuiteAESGCM, false},
			{"TLS 1.1 client, server selects AES-CBC (control)", true, 0x0302, []uint16{gmref.SuiteAESCBC, gmref.SuiteAESGCM}, gmref.SuiteAESCBC, true},
		}
		for _, k := range cases {
			var cc *gmtls.Config
			id := tlsk.ServerIdentity()
			if k.tls {
				cc = &gmtls.Config{RootCAs: p.StdRootsG, ServerName: tlsk.ServerName, Time: tlsk.FixedTime, Rand: wire.NewRand(97), CipherSuites: k.configured, MinVersion: k.ver, MaxVersion: k.ver}
				id = gmref.Identity{Certs: [][]byte{p.RSA.Certificate[0]}, RSAKey: p.RSAKey}
			} else {
				cc = &gmtls.Config{GMSupport: &gmtls.GMSupport{}, RootCAs: p.Roots, ServerName: tlsk.ServerName, Time: tlsk.FixedTime, Rand: wire.NewRand(97), CipherSuites: k.configured}
			}
			setup := func(q *gmref.Peer) {
				if k.tls {
					q.UseTLSVersion(k.ver)
				}
				q.Suites = []uint16{k.serverSelects}
			}
			o := tlsk.RunLibVsRef(cc, true, tlsk.LibApp(true), id, 98, setup, &gmref.Script{Data: tlsk.PingPong(false)}, nil)
			tag := k.name
			c.Add("executions", 1)
			c.Add("transitions", 1)
			c.DistinctS("states", tag)
			c.Sample(tag)
			verdict := refdev.MustAbort
			if k.offered {
				verdict = refdev.MustComplete
			}
			judgeRef(c, refCfg{libIsClient: true, suite: k.serverSelects, tls: k.tls, ver: k.ver}, tag, "unoffered-suite:"+k.name, o, verdict)
		}
	}}
}

func refUnits() []harness.Unit {
	var u []harness.Unit
	u = append(u, gmECDHEServerKXUnit(gmtls.GMTLS_ECDHE_SM4_CBC_SM3), gmECDHEServerKXUnit(gmtls.GMTLS_ECDHE_SM4_GCM_SM3))
	for _, ts := range []uint16{gmtls.GMTLS_ECC_SM4_CBC_SM3, gmtls.GMTLS_ECC_SM4_GCM_SM3, gmref.SuiteAESCBC, gmref.SuiteAESGCM} {
		u = append(u, refTicketHelloUnitP(ts, true))
	}
	u = append(u, refTicketHelloUnit(gmref.SuiteAESCBC), refTicketHelloUnit(gmref.SuiteAESGCM))
	u = append(u, refTicketHelloUnit(gmtls.GMTLS_ECC_SM4_CBC_SM3), refTicketHelloUnit(gmtls.GMTLS_ECC_SM4_GCM_SM3), refNPNUnit(gmref.SuiteAESCBC), refNPNUnit(gmref.SuiteAESGCM), refNPNUnit(gmtls.GMTLS_ECC_SM4_CBC_SM3), refNPNUnit(gmtls.GMTLS_ECC_SM4_GCM_SM3))
	for _, lc := range []bool{true, false} {
		for _, suite := range []uint16{gmtls.GMTLS_ECC_SM4_CBC_SM3, gmtls.GMTLS_ECC_SM4_GCM_SM3} {
			for _, auth := range []bool{false, true} {
				for f := 0; f < 2; f++ {
					u = append(u, refSequenceUnit(refCfg{lc, suite, auth, false, 0, false, false, false}, f))
				}
				u = append(u, refMalformedUnit(refCfg{lc, suite, auth, false, 0, false, false, false}), refStraddleUnit(refCfg{lc, suite, auth, false, 0, false, false, false}))
			}
		}
	}
	// the standard TLS 1.2 path (RSA key exchange) with the same scripted peer in its TLS profile
	for _, lc := range []bool{true, false} {
		for _, suite := range []uint16{gmref.SuiteAESCBC, gmref.SuiteAESGCM} {
			for _, auth := range []bool{false, true} {
				r := refCfg{lc, suite, auth, true, 0, false, false, false}
				u = append(u, refSequenceUnit(r, 0), refSequenceUnit(r, 1), refMalformedUnit(r), refStraddleUnit(r))
			}
		}
		for _, es := range []uint16{gmref.SuiteECDHERSAGCM, gmref.SuiteECDHEECDSAGCM} {
			r := refCfg{lc, es, es == gmref.SuiteECDHERSAGCM, true, 0, false, false, false}
			u = append(u, refSequenceUnit(r, 0), refSequenceUnit(r, 1), refStraddleUnit(r), refMalformedUnit(r))
		}
		// ephemeral ECDH with the CBC suites at every TLS version (below 1.2 the signed parameters
		// carry no algorithm bytes and use the fixed RFC 4492 digests)
		for _, v := range []uint16{0x0301, 0x0302, 0x0303} {
			for _, es := range []uint16{gmref.SuiteECDHEECDSACBC, gmref.SuiteECDHERSACBC256} {
				r := refCfg{lc, es, es == gmref.SuiteECDHEECDSACBC, true, v, false, false, false}
				u = append(u, refMalformedUnit(r))
				if v != 0x0303 {
					u = append(u, refSequenceUnit(r, 0), refSequenceUnit(r, 1))
				}
			}
		}
		for _, v := range []uint16{0x0301, 0x0302} {
			for _, auth := range []bool{false, true} {
				r := refCfg{lc, gmref.SuiteAESCBC, auth, true, v, false, false, false}
				u = append(u, refSequenceUnit(r, 0), refSequenceUnit(r, 1), refMalformedUnit(r), refStraddleUnit(r))
			}
		}
	}
	u = append(u, refUnofferedSuiteUnit())
	// the same flight edits with the peer's handshake messages packed into one record per flight (a
	// message that arrives early then shares a record with its predecessor)
	for _, lc := range []bool{true, false} {
		for _, r := range []refCfg{{lc, gmref.SuiteAESCBC, false, true, 0x0303, false, false, true}, {lc, gmref.SuiteAESGCM, true, true, 0x0303, false, false, true}, {lc, gmref.SuiteAESCBC, false, true, 0x0301, false, false, true},
			{lc, gmtls.GMTLS_ECC_SM4_CBC_SM3, false, false, 0, false, false, true}, {lc, gmtls.GMTLS_ECC_SM4_GCM_SM3, true, false, 0, false, false, true}, {lc, gmref.SuiteECDHERSAGCM, false, true, 0x0303, false, false, true}} {
			u = append(u, refSequenceUnit(r, 0), refSequenceUnit(r, 1))
		}
	}
	// a client that allows renegotiation takes other branches of the record layer from its first
	// handshake on (handshake records are admitted where others are expected)
	for _, r := range []refCfg{{true, gmref.SuiteAESCBC, false, true, 0x0303, false, true, false}, {true, gmref.SuiteAESGCM, true, true, 0x0303, false, true, false}, {true, gmref.SuiteAESCBC, false, true, 0x0301, false, true, false},
		{true, gmref.SuiteECDHERSAGCM, false, true, 0x0303, false, true, false}, {true, gmtls.GMTLS_ECC_SM4_CBC_SM3, false, false, 0, false, true, false}, {true, gmtls.GMTLS_ECC_SM4_GCM_SM3, true, false, 0, false, true, false}} {
		u = append(u, refSequenceUnit(r, 0), refSequenceUnit(r, 1), refStraddleUnit(r))
	}
	for _, suite := range []uint16{gmtls.GMTLS_ECC_SM4_CBC_SM3, gmtls.GMTLS_ECC_SM4_GCM_SM3} {
		u = append(u, refCertRequestUnit(refCfg{true, suite, true, false, 0, false, false, false}))
	}
	for _, v := range []uint16{0x0301, 0x0302, 0x0303} {
		u = append(u, refCertRequestUnit(refCfg{true, gmref.SuiteAESCBC, true, true, v, false, false, false}))
	}
	u = append(u, refCertRequestUnit(refCfg{true, gmref.SuiteECDHEECDSACBC, true, true, 0x0301, false, false, false}), refCertRequestUnit(refCfg{true, gmref.SuiteECDHERSAGCM, true, true, 0x0303, false, false, false}))
	// the auto-switch server has its own ClientHello processing in front of the GMSSL handshake
	for _, suite := range []uint16{gmtls.GMTLS_ECC_SM4_CBC_SM3, gmtls.GMTLS_ECC_SM4_GCM_SM3} {
		for _, auth := range []bool{false, true} {
			r := refCfg{false, suite, auth, false, 0, true, false, false}
			u = append(u, refSequenceUnit(r, 0), refSequenceUnit(r, 1), refMalformedUnit(r))
		}
	}
	return u
}

// ---- malformed messages from a peer whose transcript stays consistent --------------------------

type lenField struct {
	off, size int
	what      string
}

// lengthFields lists the length/count fields of a framed handshake message (offsets into msg).
func (r refCfg) fields(m []byte) []lenField {
	return lengthFieldsL(m, r.tls && r.version() == 0x0303, r.ecdhe())
}

func lengthFields(m []byte, tls bool) []lenField { return lengthFieldsL(m, tls, false) }

// lengthFieldsL: tls12 = TLS 1.2 message layouts (algorithm bytes in front of signatures, signature
// algorithms in CertificateRequest); ecdhe = ECDHE key exchange layouts (RFC 4492).
func lengthFieldsL(m []byte, tls, ecdhe bool) []lenField {
	fs := []lenField{{1, 3, "handshake length"}}
	b := 4 // body offset
	body := m[4:]
	der := func(off int, what string) {
		// DER: tag at off, length at off+1 (short or 0x81 form)
		if off+1 < len(m) {
			fs = append(fs, lenField{off + 1, 1, what})
		}
	}
	switch m[0] {
	case gmref.HSClientHello:
		if len(body) > 35 {
			fs = append(fs, lenField{b + 34, 1, "session id length"})
			o := 35 + int(body[34])
			if len(body) >= o+2 {
				fs = append(fs, lenField{b + o, 2, "cipher suites length"})
				o += 2 + (int(body[o])<<8 | int(body[o+1]))
				if len(body) > o {
					fs = append(fs, lenField{b + o, 1, "compression methods length"})
				}
			}
		}
	case gmref.HSServerHello:
		if len(body) > 35 {
			fs = append(fs, lenField{b + 34, 1, "session id length"})
		}
	case gmref.HSCertificate:
		if len(body) >= 3 {
			fs = append(fs, lenField{b, 3, "certificate list length"})
			o := 3
			for i := 0; o+3 <= len(body) && i < 3; i++ {
				fs = append(fs, lenField{b + o, 3, fmt.Sprintf("certificate %d length", i)})
				o += 3 + (int(body[o])<<16 | int(body[o+1])<<8 | int(body[o+2]))
			}
		}
	case gmref.HSServerKX, gmref.HSCertVerify:
		o := 0
		if ecdhe && m[0] == gmref.HSServerKX {
			// curve_type(1) named_curve(2) point length(1) point, then the signature block
			if len(body) < 4 {
				break
			}
			fs = append(fs, lenField{b + 3, 1, "ephemeral point length"})
			o = 4 + int(body[3])
			if tls {
				o += 2
			}
		} else if tls && m[0] == gmref.HSCertVerify {
			o = 2 // hash and signature algorithm
		}
		if len(body) >= o+2 {
			fs = append(fs, lenField{b + o, 2, "signature length"})
			der(b+o+2, "ASN.1 SEQUENCE length")
			der(b+o+4, "ASN.1 INTEGER r length")
		}
	case gmref.HSClientKX:
		if ecdhe {
			if len(body) >= 1 {
				fs = append(fs, lenField{b, 1, "ephemeral point length"})
			}
			break
		}
		if len(body) >= 2 {
			fs = append(fs, lenField{b, 2, "ciphertext length"})
			if !tls {
				der(b+2, "ASN.1 SEQUENCE length")
			}
		}
	case gmref.HSCertRequest:
		if len(body) >= 1 {
			fs = append(fs, lenField{b, 1, "certificate types count"})
			o := 1 + int(body[0])
			if tls && len(body) >= o+2 {
				fs = append(fs, lenField{b + o, 2, "signature algorithms length"})
				o += 2 + (int(body[o])<<8 | int(body[o+1]))
			}
			if len(body) >= o+2 {
				fs = append(fs, lenField{b + o, 2, "CA list length"})
				if len(body) >= o+4 {
					fs = append(fs, lenField{b + o + 2, 2, "first CA name length"})
				}
			}
		}
	}
	return fs
}

func getField(m []byte, f lenField) int {
	v := 0
	for i := 0; i < f.size; i++ {
		v = v<<8 | int(m[f.off+i])
	}
	return v
}

func setField(m []byte, f lenField, v int) []byte {
	o := append([]byte{}, m...)
	for i := f.size - 1; i >= 0; i-- {
		o[f.off+i] = byte(v)
		v >>= 8
	}
	return o
}

// perturbations of one field value: every one leaves the message inconsistent.
func fieldValues(f lenField, v int) []int {
	max := 1<<(8*uint(f.size)) - 1
	cand := []int{v + 1, v - 1, 0, max, v + 256, v ^ 0x80}
	var out []int
	seen := map[int]bool{v: true}
	for _, c := range cand {
		if c < 0 || c > max || seen[c] {
			continue
		}
		seen[c] = true
		out = append(out, c)
	}
	return out
}

// refMalformedUnit: for every message the scripted peer sends, every length/count field set to each
// perturbed value, and every strict truncation of the body with the handshake length adjusted; the
// peer's transcript (and so its Finished) covers exactly the bytes it sent.
func refMalformedUnit(r refCfg) harness.Unit {
	return harness.Unit{Name: fmt.Sprintf("scripted-peer-malformed/%s", r), Run: func(c *harness.Ctx) {
		o, honest, _ := r.run(nil)
		c.Add("executions", 1)
		if !o.Lib.Complete || !o.Ref.Res.Completed {
			c.Violate("control-fails:scripted-peer:"+r.String(), fmt.Sprintf("honest reference peer and library do not complete: %s", o.Describe()), nil, nil)
			return
		}
		for flight := 0; flight < 2; flight++ {
			for pos, name := range honest[flight] {
				if name == "ChangeCipherSpec" {
					continue
				}
				// learn the message as built in the honest run to enumerate its fields
				var built []byte
				probe := func(fl int, items []gmref.Item) []gmref.Item {
					if fl != flight {
						return items
					}
					out := append([]gmref.Item{}, items...)
					orig := out[pos]
					out[pos].Build = func(p *gmref.Peer) []byte { built = orig.Build(p); return built }
					return out
				}
				r.runMut(probe)
				if built == nil {
					c.Note("could not capture %s of %s", name, r)
					continue
				}
				try := func(what, key string, f func(m []byte) []byte) {
					applied := false
					mut := func(fl int, items []gmref.Item) []gmref.Item {
						if fl != flight {
							return items
						}
						out := append([]gmref.Item{}, items...)
						orig := out[pos]
						out[pos].Build = func(p *gmref.Peer) []byte {
							m := orig.Build(p)
							if x := f(m); x != nil {
								applied = true
								return x
							}
							return m
						}
						return out
					}
					o := r.runMut(mut)
					if !applied {
						return
					}
					tag := fmt.Sprintf("%s; %s: %s", r, name, what)
					c.Add("executions", 1)
					c.Add("transitions", 1)
					c.DistinctS("states", tag)
					if c.WantSample() {
						c.Sample(tag)
					}
					judgeRef(c, r, tag, "malformed:"+name+":"+key, o, refdev.MustAbort)
				}
				// fields are located and perturbed on the message as it is built IN THAT RUN (signature
				// encodings vary in length from run to run)
				for _, f := range r.fields(built) {
					what := f.what
					for _, op := range []string{"+1", "-1", "=0", "=max", "+256", "^0x80"} {
						op := op
						try(fmt.Sprintf("%s %s", what, op), what, func(m []byte) []byte {
							for _, g := range r.fields(m) {
								if g.what != what {
									continue
								}
								v := getField(m, g)
								max := 1<<(8*uint(g.size)) - 1
								nv := v
								switch op {
								case "+1":
									nv = v + 1
								case "-1":
									nv = v - 1
								case "=0":
									nv = 0
								case "=max":
									nv = max
								case "+256":
									nv = v + 256
								case "^0x80":
									nv = v ^ 0x80
								}
								if nv < 0 || nv > max || nv == v {
									return nil // not applicable to this value
								}
								return setField(m, g, nv)
							}
							return nil
						})
					}
				}
				body := len(built) - 4
				step := 1
				if body > 100 && !c.Thorough() {
					step = 7
				}
				cuts := map[int]bool{}
				for k := 0; k < body; k += step {
					cuts[k] = true
				}
				// every cut at, just before and just after each length field: the places where a parser
				// reads a count it has not checked for
				for _, f := range r.fields(built) {
					for k := f.off - 4 - 2; k <= f.off-4+f.size+2; k++ {
						if k >= 0 && k < body {
							cuts[k] = true
						}
					}
				}
				for k := body - 3; k < body; k++ {
					if k >= 0 {
						cuts[k] = true
					}
				}
				for k := 0; k < body; k++ {
					if !cuts[k] {
						continue
					}
					k := k
					try(fmt.Sprintf("body truncated to %d bytes (handshake length adjusted)", k), "truncated", func(m []byte) []byte {
						if k >= len(m)-4 {
							return nil
						}
						return gmref.HS(m[0], m[4:4+k])
					})
				}
				try("one trailing byte (handshake length adjusted)", "trailing-byte", func(m []byte) []byte { return gmref.HS(m[0], append(append([]byte{}, m[4:]...), 0)) })
				// inner blocks whose own length field is consistent with the message but whose entries
				// do not fill them: 1-3 stray bytes at the end of a list
				for _, sv := range strayVariants(built) {
					sv := sv
					if sv.conformant {
						mut := func(fl int, items []gmref.Item) []gmref.Item {
							if fl != flight {
								return items
							}
							out := append([]gmref.Item{}, items...)
							orig := out[pos]
							out[pos].Build = func(p *gmref.Peer) []byte { return sv.f(orig.Build(p)) }
							return out
						}
						o := r.runMut(mut)
						tag := fmt.Sprintf("%s; %s: %s", r, name, sv.what)
						c.Add("executions", 1)
						c.DistinctS("states", tag)
						judgeRef(c, r, tag, "wellformed-variant:"+name+":"+sv.key, o, sv.verdict)
						continue
					}
					try(sv.what, sv.key, sv.f)
				}
			}
		}
	}}
}

// runMut plays one session with a free-form flight mutator.
func (r refCfg) runMut(mut func(int, []gmref.Item) []gmref.Item) *tlsk.RefOutcome {
	script := &gmref.Script{SendClientCert: r.auth, Data: tlsk.PingPong(!r.libIsClient), Mutate: mut}
	return tlsk.RunLibVsRef(r.libConfig(), r.libIsClient, tlsk.LibApp(r.libIsClient), r.identity(), 23, r.setup, script, nil)
}

type strayVariant struct {
	what, key  string
	conformant bool
	verdict    string
	f          func(m []byte) []byte
}

// strayVariants: list-shaped parts of a message (extensions, certificate list, CA names) extended by
// bytes that belong to no entry while every enclosing length field is adjusted to stay consistent.
func strayVariants(m []byte) []strayVariant {
	var out []strayVariant
	u16 := func(n int) []byte { return []byte{byte(n >> 8), byte(n)} }
	u24 := func(n int) []byte { return []byte{byte(n >> 16), byte(n >> 8), byte(n)} }
	switch m[0] {
	case gmref.HSClientHello, gmref.HSServerHello:
		// the hellos of the reference peer end after the compression field or carry an extensions
		// block (ECDHE profiles): the variants add to the block that is there or open one
		split := func(m []byte) (head, exts []byte) {
			body := m[4:]
			o := 34
			if o >= len(body) {
				return body, nil
			}
			o += 1 + int(body[o]) // session id
			if m[0] == gmref.HSClientHello {
				if o+2 > len(body) {
					return body, nil
				}
				o += 2 + (int(body[o])<<8 | int(body[o+1])) // suites
				if o >= len(body) {
					return body, nil
				}
				o += 1 + int(body[o]) // compression methods
			} else {
				o += 3 // suite, compression method
			}
			if o+2 > len(body) {
				return body, nil
			}
			return body[:o], body[o+2:]
		}
		with := func(m []byte, blk []byte) []byte {
			head, exts := split(m)
			all := append(append([]byte{}, exts...), blk...)
			b := append(append([]byte{}, head...), u16(len(all))...)
			return gmref.HS(m[0], append(b, all...))
		}
		ext := []byte{0x12, 0x34, 0, 2, 0xaa, 0xbb} // one unknown extension
		verdict := refdev.MustComplete
		if m[0] == gmref.HSServerHello {
			verdict = refdev.MayComplete // an extension the client did not offer: refusing it is legitimate
		}
		out = append(out, strayVariant{what: "one well-formed unknown extension appended", key: "unknown-extension", conformant: true, verdict: verdict, f: func(m []byte) []byte {
			return with(m, ext)
		}})
		for k := 1; k <= 3; k++ {
			k := k
			out = append(out, strayVariant{what: fmt.Sprintf("extensions block ending in %d stray byte(s) (extensions length and handshake length consistent)", k), key: "extensions-stray-bytes", f: func(m []byte) []byte {
				return with(m, append(append([]byte{}, ext...), make([]byte, k)...))
			}})
		}
		out = append(out, strayVariant{what: "extension whose length overstates the block by one", key: "extension-length-overstated", f: func(m []byte) []byte {
			return with(m, []byte{0x12, 0x34, 0, 3, 0xaa, 0xbb})
		}})
		if _, exts := split(m); exts == nil {
			out = append(out, strayVariant{what: "empty extensions block followed by nothing (length 0)", key: "extensions-empty", conformant: true, verdict: refdev.MayComplete, f: func(m []byte) []byte {
				return gmref.HS(m[0], append(append([]byte{}, m[4:]...), 0, 0))
			}})
		}
	case gmref.HSCertificate:
		for k := 1; k <= 2; k++ {
			k := k
			out = append(out, strayVariant{what: fmt.Sprintf("certificate list ending in %d stray byte(s) (list length consistent)", k), key: "certificate-list-stray-bytes", f: func(m []byte) []byte {
				list := append(append([]byte{}, m[7:]...), make([]byte, k)...)
				return gmref.HS(m[0], append(u24(len(list)), list...))
			}})
		}
		out = append(out, strayVariant{what: "an empty certificate entry appended to the list", key: "certificate-empty-entry", f: func(m []byte) []byte {
			list := append(append([]byte{}, m[7:]...), 0, 0, 0)
			return gmref.HS(m[0], append(u24(len(list)), list...))
		}})
	case gmref.HSCertRequest:
		body := m[4:]
		if len(body) >= 1 {
			nt := int(body[0])
			if len(body) >= 1+nt+2 {
				out = append(out, strayVariant{what: "CA list ending in 1 stray byte (list length consistent)", key: "ca-list-stray-byte", f: func(m []byte) []byte {
					body := m[4:]
					head := append([]byte{}, body[:1+nt]...)
					list := append(append([]byte{}, body[1+nt+2:]...), 0)
					return gmref.HS(m[0], append(append(head, u16(len(list))...), list...))
				}})
			}
		}
	}
	return out
}

// ---- CertificateRequest contents x ways the client chooses its certificate ------------------------

// refCertRequestUnit: a scripted server whose CertificateRequest lists every kind of acceptable
// certificate types, signature algorithms (TLS 1.2) and authority names - usual, unusual, unknown,
// none - against a client that picks its certificate from a static list, through
// GetClientCertificate (returning a certificate, an empty one, or an error), or has none. The
// request is well-formed in all of them: the client completes or returns an error; the unusual
// lists must not crash it or leave it waiting.
func refCertRequestUnit(r refCfg) harness.Unit {
	return harness.Unit{Name: fmt.Sprintf("scripted-peer-certificate-request/%s", r), Run: func(c *harness.Ctx) {
		p := tlsk.Get()
		tls12 := r.tls && r.version() == 0x0303
		all := make([]byte, 255)
		for i := range all {
			all[i] = byte(i + 1)
		}
		typeLists := [][]byte{{1, 64}, {1}, {64}, {2}, {3, 4}, {0xee}, {64, 1}, {2, 1}, {20, 64}, {5, 6, 20}, all, {}}
		sigLists := [][]byte{nil}
		if tls12 {
			sigLists = [][]byte{{4, 3, 4, 1}, {4, 3}, {4, 1}, {2, 1}, {2, 3}, {0xff, 0xff}, {6, 3, 6, 1, 5, 3, 5, 1, 4, 3, 4, 1, 2, 3, 2, 1}, {8, 4}, {}}
		}
		ca := p.StdCA.RawSubject
		own := p.CA.RawSubject
		if !r.tls {
			ca, own = own, ca
		}
		many := [][]byte{}
		for i := 0; i < 60; i++ {
			many = append(many, own)
		}
		many = append(many, ca)
		caLists := [][][]byte{nil, {ca}, {own}, {own, ca}, {{0x30, 0x00}}, {{}}, {{0xff}}, many}
		ways := []string{"static list", "GetClientCertificate returning the certificate", "GetClientCertificate returning an empty certificate", "GetClientCertificate returning an error", "no certificate configured"}
		for ti, types := range typeLists {
			for si, sigs := range sigLists {
				for ci, cas := range caLists {
					if !c.Thorough() && ti > 1 && si > 1 && ci > 1 {
						continue // quick: every value of each dimension against the first two of the others
					}
					for wi, way := range ways {
						body := append([]byte{byte(len(types))}, types...)
						if tls12 {
							body = append(body, byte(len(sigs)>>8), byte(len(sigs)))
							body = append(body, sigs...)
						}
						var l []byte
						for _, n := range cas {
							l = append(l, byte(len(n)>>8), byte(len(n)))
							l = append(l, n...)
						}
						body = append(body, byte(len(l)>>8), byte(len(l)))
						body = append(body, l...)
						cfg := r.libConfig()
						crt := cfg.Certificates
						switch wi {
						case 1:
							cfg.Certificates = nil
							cfg.GetClientCertificate = func(*gmtls.CertificateRequestInfo) (*gmtls.Certificate, error) { return &crt[0], nil }
						case 2:
							cfg.Certificates = nil
							cfg.GetClientCertificate = func(*gmtls.CertificateRequestInfo) (*gmtls.Certificate, error) { return new(gmtls.Certificate), nil }
						case 3:
							cfg.Certificates = nil
							cfg.GetClientCertificate = func(*gmtls.CertificateRequestInfo) (*gmtls.Certificate, error) {
								return nil, fmt.Errorf("the application declines")
							}
						case 4:
							cfg.Certificates = nil
						}
						mut := func(fl int, items []gmref.Item) []gmref.Item {
							if fl != 0 {
								return items
							}
							out := append([]gmref.Item{}, items...)
							for i := range out {
								if out[i].Name == "CertificateRequest" {
									out[i].Build = func(*gmref.Peer) []byte { return gmref.HS(gmref.HSCertRequest, body) }
								}
							}
							return out
						}
						script := &gmref.Script{Data: tlsk.PingPong(false), Mutate: mut}
						o := tlsk.RunLibVsRef(cfg, true, tlsk.LibApp(true), r.identity(), 23, r.setup, script, nil)
						tag := fmt.Sprintf("%s; CertificateRequest types=%x signature algorithms=%x authorities=#%d (%d names); client: %s", r, clipBytes(types, 12), sigs, ci, len(cas), way)
						c.Add("executions", 1)
						c.Add("transitions", 1)
						c.DistinctS("states", tag)
						if c.WantSample() {
							c.Sample(tag)
						}
						verdict := refdev.MayComplete
						usual := ti == 0 && si == 0 && (ci == 0 || ci == 1 || ci == 3 || ci == 7)
						if usual && wi != 3 {
							verdict = refdev.MustComplete
						}
						judgeRef(c, r, tag, fmt.Sprintf("certificate-request:types#%d:sigs#%d:cas#%d:way#%d", ti, si, ci, wi), o, verdict)
					}
				}
			}
		}
	}}
}

func clipBytes(b []byte, n int) []byte {
	if len(b) > n {
		return b[:n]
	}
	return b
}
