package c15

import (
	"fmt"
	"strings"

	"github.com/tjfoc/gmsm/gmtls"

	"verif/mc/harness"
	"verif/mc/props/refdev"
	"verif/mc/ref/gmref"
	"verif/mc/tlsk"
)

// ---- renegotiation: further handshakes on the protected connection ----------------------------------
//
// A client configured with Config.Renegotiation lets the server start another handshake in the data
// phase. The scripted server (keyed reference peer) does so: per policy (never / once / freely) and
// number of requests the client must carry on or refuse with an error; and within a renegotiation
// every single edit of the server's flights is judged by the same message grammar as the first
// handshake. Nothing may crash the client or leave it waiting, and no byte written after a
// non-conformant renegotiation may be delivered.

func (r refCfg) renegRun(pol gmtls.RenegotiationSupport, pl *tlsk.RenegPlan) *tlsk.RefOutcome {
	cfg := r.libConfig()
	cfg.Renegotiation = pol
	script := &gmref.Script{Data: pl.Data()}
	return tlsk.RunLibVsRef(cfg, true, pl.App(), r.identity(), 23, func(q *gmref.Peer) { r.setup(q); q.EchoRenegInfo = pl.Echo }, script, nil)
}

func reportReneg(c *harness.Ctx, tag, key string, fs []tlsk.RenegFinding) {
	for _, f := range fs {
		k := "renegotiation:" + f.Key + ":" + key
		if f.Key == "panic" {
			k = "panic:renegotiation:" + site(f.Msg)
		}
		c.Violate(k, fmt.Sprintf("[%s] %s", tag, clip(f.Msg, 1500)), nil, tag)
	}
}

var renegPolicies = []struct {
	name string
	v    gmtls.RenegotiationSupport
}{{"RenegotiateNever", gmtls.RenegotiateNever}, {"RenegotiateOnceAsClient", gmtls.RenegotiateOnceAsClient}, {"RenegotiateFreelyAsClient", gmtls.RenegotiateFreelyAsClient}}

// renegPolicyUnit: policy x number of requests x RFC 5746 participation.
func renegPolicyUnit(r refCfg) harness.Unit {
	return harness.Unit{Name: fmt.Sprintf("renegotiation-policy/%s", r), Run: func(c *harness.Ctx) {
		for _, pol := range renegPolicies {
			for rounds := 1; rounds <= 3; rounds++ {
				for _, echo := range []bool{true, false} {
					for _, ask := range []bool{true, false} {
						pl := &tlsk.RenegPlan{Rounds: rounds, Echo: echo, Lenient: true}
						if !ask {
							// a server that never asks: the client must simply get its data (1 round = none asked)
							if rounds > 1 {
								continue
							}
							pl.Rounds = 0
						}
						o := r.renegRun(pol.v, pl)
						tag := fmt.Sprintf("%s; %s; the server asks for %d renegotiation(s), renegotiation_info=%v", r, pol.name, pl.Rounds, echo)
						c.Add("executions", 1)
						c.Add("transitions", int64(1+pl.Rounds))
						c.DistinctS("states", tag)
						c.DistinctS("outcomes", fmt.Sprintf("%d/%v", len(o.Lib.Read), o.Lib.ReadErr != nil))
						allowed := 0
						switch pol.v {
						case gmtls.RenegotiateOnceAsClient:
							allowed = 1
						case gmtls.RenegotiateFreelyAsClient:
							allowed = 3
						}
						verdict, deviant := refdev.MustComplete, -1
						if pl.Rounds > allowed {
							verdict, deviant = refdev.MustAbort, allowed // the first request beyond the policy
						}
						if !r.tls {
							// the GMSSL client does not take part in renegotiation at all: refusing is its right,
							// carrying on would have to be correct
							if verdict == refdev.MustComplete && pl.Rounds > 0 {
								verdict = refdev.MayComplete
							}
							if verdict == refdev.MustAbort {
								deviant = 0
								if string(o.Lib.Read) == string(pl.Reply()[:2]) {
									deviant = -1 // refused at the first request already
									verdict = refdev.MayComplete
								}
							}
						}
						reportReneg(c, tag, fmt.Sprintf("policy:%s:rounds=%d:echo=%v", pol.name, pl.Rounds, echo), tlsk.JudgeReneg(o, pl, verdict, deviant, false, true))
						if c.WantSample() {
							c.Sample(tag + " -> " + o.Describe())
						}
					}
				}
			}
		}
	}}
}

// renegSequenceUnit: every single edit of the server's flights in a renegotiation (first or second).
func renegSequenceUnit(r refCfg, flight, round int) harness.Unit {
	return harness.Unit{Name: fmt.Sprintf("renegotiation-scripted-peer/%s/round%d/flight%d", r, round, flight), Run: func(c *harness.Ctx) {
		var honest [2][]string
		run := func(edits []refdev.Edit) (*tlsk.RefOutcome, *tlsk.RenegPlan, [2][]string, bool) {
			var sent [2][]string
			fit := true
			mut := refdev.Mutator(edits, &sent, &fit)
			pl := &tlsk.RenegPlan{Rounds: round + 1, Echo: true, Lenient: true, Mutate: func(rr, fl int, items []gmref.Item) []gmref.Item {
				if rr != round {
					return items
				}
				return mut(fl, items)
			}}
			o := r.renegRun(gmtls.RenegotiateFreelyAsClient, pl)
			return o, pl, sent, fit
		}
		o, pl, h, _ := run(nil)
		honest = h
		c.Add("executions", 1)
		if fs := tlsk.JudgeReneg(o, pl, refdev.MustComplete, -1, false, false); len(fs) > 0 {
			c.Violate("control-fails:renegotiation:"+r.String(), fmt.Sprintf("honest renegotiation with the reference server does not complete: %v %s", fs, o.Describe()), nil, nil)
			return
		}
		wants := r.serverStreams()
		for _, e := range refdev.Enumerate(flight, len(honest[flight]), r.alphabet()) {
			o, pl, sent, fit := run([]refdev.Edit{e})
			if !fit {
				continue
			}
			verdict := refdev.ClassifyFlights(sent, honest, wants, true)
			foreign := false
			var stripped [2][]string
			for f := 0; f < 2; f++ {
				for _, n := range sent[f] {
					if strings.HasPrefix(n, "ApplicationData") {
						foreign = true
						continue
					}
					stripped[f] = append(stripped[f], n)
				}
			}
			if foreign && verdict == refdev.MustAbort && refdev.ClassifyFlights(stripped, honest, wants, true) != refdev.MustAbort {
				verdict = refdev.MayComplete // application data may be interleaved with a renegotiation
			}
			tag := fmt.Sprintf("%s; renegotiation %d; %s => %v: %s", r, round, e, append(append([]string{}, sent[0]...), sent[1]...), verdict)
			c.Add("executions", 1)
			c.Add("transitions", int64(len(sent[0])+len(sent[1])))
			c.DistinctS("states", tag)
			c.DistinctS("outcomes", fmt.Sprintf("%s/%d/%v", verdict, len(o.Lib.Read), o.Lib.ReadErr != nil))
			if c.WantSample() {
				c.Sample(tag)
			}
			reportReneg(c, tag, "edit:"+editKey(honest, e), tlsk.JudgeReneg(o, pl, verdict, round, foreign, false))
		}
	}}
}

// renegMiscUnit: requests that are themselves odd.
func renegMiscUnit(r refCfg) harness.Unit {
	return harness.Unit{Name: fmt.Sprintf("renegotiation-requests/%s", r), Run: func(c *harness.Ctx) {
		type cs struct {
			name    string
			data    func(q *gmref.Peer) error
			verdict string
		}
		hr := func(body []byte) func(q *gmref.Peer) error {
			return func(q *gmref.Peer) error { return q.WriteRecord(gmref.RecHS, gmref.HS(gmref.HSHelloRequest, body)) }
		}
		seq := func(fs ...func(q *gmref.Peer) error) func(q *gmref.Peer) error {
			return func(q *gmref.Peer) error {
				if err := q.ReadApp(4); err != nil {
					return err
				}
				for _, f := range fs {
					if err := f(q); err != nil {
						return err
					}
				}
				return nil
			}
		}
		closeIt := func(q *gmref.Peer) error { return q.CloseNotify() }
		pong := func(q *gmref.Peer) error { return q.WriteRecord(gmref.RecApp, []byte("pong")) }
		drain := func(q *gmref.Peer) error { q.ReadUntil(gmref.HSClientHello); return nil }
		cases := []cs{
			{"HelloRequest, then the stream ends", seq(hr(nil)), refdev.MustAbort},
			{"HelloRequest, then close_notify", seq(hr(nil), closeIt), refdev.MustAbort},
			{"HelloRequest with a one-byte body", seq(hr([]byte{0}), pong, closeIt), refdev.MayComplete},
			{"HelloRequest cut after its first two bytes, then the stream ends", seq(func(q *gmref.Peer) error { return q.WriteRecord(gmref.RecHS, []byte{0, 0}) }), refdev.MustAbort},
			{"HelloRequest, the ClientHello is read and answered with application data", seq(hr(nil), drain, pong, closeIt), refdev.MayComplete},
			{"HelloRequest, the ClientHello is read and answered with a second HelloRequest, then the stream ends", seq(hr(nil), drain, hr(nil)), refdev.MustAbort},
			{"two HelloRequests in one record, then the stream ends", seq(func(q *gmref.Peer) error {
				return q.WriteRecord(gmref.RecHS, append(gmref.HS(gmref.HSHelloRequest, nil), gmref.HS(gmref.HSHelloRequest, nil)...))
			}), refdev.MustAbort},
			{"a ServerHello out of the blue in the data phase", seq(func(q *gmref.Peer) error {
				return q.WriteRecord(gmref.RecHS, gmref.HS(gmref.HSServerHello, gmref.ServerHelloBody(q.Vers, make([]byte, 32), nil, q.Suite, 0)))
			}, pong, closeIt), refdev.MustAbort},
			{"a Finished out of the blue in the data phase", seq(func(q *gmref.Peer) error {
				return q.WriteRecord(gmref.RecHS, gmref.HS(gmref.HSFinished, make([]byte, 12)))
			}, pong, closeIt), refdev.MustAbort},
			{"ChangeCipherSpec in the data phase", seq(func(q *gmref.Peer) error { return q.WriteRecord(gmref.RecCCS, []byte{1}) }, pong, closeIt), refdev.MustAbort},
		}
		for _, pol := range renegPolicies {
			for i, k := range cases {
				cfg := r.libConfig()
				cfg.Renegotiation = pol.v
				o := tlsk.RunLibVsRef(cfg, true, tlsk.LibApp(true), r.identity(), 23, func(q *gmref.Peer) { r.setup(q); q.EchoRenegInfo = true }, &gmref.Script{Data: k.data}, nil)
				tag := fmt.Sprintf("%s; %s; after the handshake the server sends: %s", r, pol.name, k.name)
				c.Add("executions", 1)
				c.Add("transitions", 1)
				c.DistinctS("states", tag)
				c.DistinctS("outcomes", fmt.Sprintf("%d/%q/%v", i, o.Lib.Read, o.Lib.ReadErr != nil))
				if o.Lib.Panic != nil {
					c.Violate("panic:renegotiation:"+site(o.Lib.Stack), fmt.Sprintf("[%s] the client panicked: %v\n%s", tag, o.Lib.Panic, clip(o.Lib.Stack, 1500)), nil, tag)
					continue
				}
				if o.LibStuck || o.Horizon {
					c.Violate(fmt.Sprintf("hang:renegotiation:%s:case%d", pol.name, i), fmt.Sprintf("[%s] the client keeps waiting although its input has ended: %s", tag, o.Describe()), nil, tag)
					continue
				}
				if k.verdict == refdev.MustAbort && (string(o.Lib.Read) == "pong" || o.Lib.ReadErr == nil) {
					c.Violate(fmt.Sprintf("renegotiation:accepted:%s:case%d", pol.name, i), fmt.Sprintf("[%s] the client carried on as if nothing had happened: %s", tag, o.Describe()), nil, tag)
				}
				if len(o.Lib.Read) > 0 && string(o.Lib.Read) != "pong" {
					c.Violate(fmt.Sprintf("renegotiation:data:%s:case%d", pol.name, i), fmt.Sprintf("[%s] the client delivered %q", tag, o.Lib.Read), nil, tag)
				}
			}
		}
	}}
}

// renegCutUnit: the stream ends after every record of a session with one renegotiation.
func renegCutUnit(r refCfg) harness.Unit {
	return harness.Unit{Name: fmt.Sprintf("renegotiation-end-of-stream/%s", r), Run: func(c *harness.Ctx) {
		pl := &tlsk.RenegPlan{Rounds: 1, Echo: true}
		o := r.renegRun(gmtls.RenegotiateFreelyAsClient, pl)
		total := len(o.Records)
		if fs := tlsk.JudgeReneg(o, pl, refdev.MustComplete, -1, false, false); len(fs) > 0 && r.tls {
			c.Violate("control-fails:renegotiation:"+r.String(), fmt.Sprintf("honest renegotiation does not complete: %v", fs), nil, nil)
			return
		}
		for k := 1; k < total; k++ {
			pl := &tlsk.RenegPlan{Rounds: 1, Echo: true}
			cfg := r.libConfig()
			cfg.Renegotiation = gmtls.RenegotiateFreelyAsClient
			seen := 0
			o := tlsk.RunLibVsRef(cfg, true, pl.App(), r.identity(), 23, func(q *gmref.Peer) { r.setup(q); q.EchoRenegInfo = true }, &gmref.Script{Data: pl.Data()}, &cutter{after: k, seen: &seen})
			tag := fmt.Sprintf("%s; one renegotiation; the stream ends after record %d of %d", r, k, total)
			c.Add("executions", 1)
			c.Add("transitions", int64(k))
			c.DistinctS("states", tag)
			c.DistinctS("outcomes", fmt.Sprintf("%d/%v/%v", len(o.Lib.Read), o.Lib.Complete, o.Lib.ReadErr != nil))
			if o.Lib.Panic != nil {
				c.Violate("panic:renegotiation:"+site(o.Lib.Stack), fmt.Sprintf("[%s] the client panicked: %v\n%s", tag, o.Lib.Panic, clip(o.Lib.Stack, 1500)), nil, tag)
				continue
			}
			if o.LibStuck || o.Horizon {
				c.Violate("hang:renegotiation:end-of-stream", fmt.Sprintf("[%s] the client keeps waiting although its input has ended: %s", tag, o.Describe()), nil, tag)
				continue
			}
			reply := pl.Reply()
			if len(o.Lib.Read) > len(reply) || string(reply[:len(o.Lib.Read)]) != string(o.Lib.Read) {
				c.Violate("renegotiation:data:end-of-stream", fmt.Sprintf("[%s] the client delivered %q, the server wrote %q", tag, o.Lib.Read, reply), nil, tag)
			}
			if len(o.Lib.Read) < len(reply) && o.Lib.Complete && o.Lib.ReadErr == nil {
				c.Violate("renegotiation:no-error:end-of-stream", fmt.Sprintf("[%s] the client got %q of %q and reported no error: %s", tag, o.Lib.Read, reply, o.Describe()), nil, tag)
			}
			if !o.Lib.Complete && o.Lib.HandshakeErr == nil {
				c.Violate("renegotiation:eof-without-error", fmt.Sprintf("[%s] the client neither completed nor returned an error", tag), nil, tag)
			}
		}
	}}
}

func renegUnits() []harness.Unit {
	var u []harness.Unit
	cfgs := []refCfg{
		{true, gmref.SuiteAESCBC, false, true, 0x0303, false, false, false}, {true, gmref.SuiteAESGCM, false, true, 0x0303, false, false, false},
		{true, gmref.SuiteAESCBC, false, true, 0x0301, false, false, false}, {true, gmref.SuiteAESCBC, false, true, 0x0302, false, false, false},
		{true, gmref.SuiteECDHERSAGCM, false, true, 0x0303, false, false, false}, {true, gmref.SuiteAESCBC, true, true, 0x0303, false, false, false},
		{true, gmtls.GMTLS_ECC_SM4_CBC_SM3, false, false, 0, false, false, false}, {true, gmtls.GMTLS_ECC_SM4_GCM_SM3, false, false, 0, false, false, false},
	}
	for _, r := range cfgs {
		u = append(u, renegPolicyUnit(r), renegMiscUnit(r), renegCutUnit(r))
		if r.tls {
			u = append(u, renegSequenceUnit(r, 0, 0), renegSequenceUnit(r, 1, 0))
		}
	}
	r := cfgs[0]
	u = append(u, renegSequenceUnit(r, 0, 1), renegSequenceUnit(r, 1, 1))
	return u
}
