package c16

import (
	stdtls "crypto/tls"
	"fmt"

	"github.com/tjfoc/gmsm/gmtls"

	"verif/mc/harness"
	"verif/mc/tlsk"
	"verif/mc/wire"
	"verif/mc/xp"
)

// Resumption on the standard TLS 1.2 path against Go's crypto/tls as the independent peer, in each
// role: every history to the depth bound over {connect, rotate ticket keys keeping the old key,
// rotate dropping it}. A session resumed between the two implementations proves that ticket
// contents, master-secret reuse and the abbreviated handshake mean the same thing on both sides.

const (
	sConnect = iota
	sRotateKeep
	sRotateDrop
	sNumOps
)

var sOpNames = []string{"connect", "rotate(keep old)", "rotate(drop old)"}

func stdCert(c gmtls.Certificate) stdtls.Certificate {
	return stdtls.Certificate{Certificate: c.Certificate, PrivateKey: c.PrivateKey}
}

type sWorld struct {
	libIsServer bool
	lib         *gmtls.Config
	std         *stdtls.Config
	ring        []int
	next        int
	ticketKey   int // key id of the ticket the client holds (0 = none)
}

func newSWorld(libIsServer bool) *sWorld {
	p := tlsk.Get()
	w := &sWorld{libIsServer: libIsServer, ring: []int{1}, next: 2}
	if libIsServer {
		w.lib = &gmtls.Config{Certificates: []gmtls.Certificate{p.ECDSA}, Time: tlsk.FixedTime, Rand: wire.NewRand(81), MinVersion: 0x0303, MaxVersion: 0x0303}
		w.std = &stdtls.Config{RootCAs: p.StdRoots, ServerName: tlsk.ServerName, Time: tlsk.FixedTime, Rand: wire.NewRand(82), MinVersion: 0x0303, MaxVersion: 0x0303, ClientSessionCache: stdtls.NewLRUClientSessionCache(4)}
	} else {
		w.lib = &gmtls.Config{RootCAs: p.StdRootsG, ServerName: tlsk.ServerName, Time: tlsk.FixedTime, Rand: wire.NewRand(83), MinVersion: 0x0303, MaxVersion: 0x0303, ClientSessionCache: gmtls.NewLRUClientSessionCache(4)}
		w.std = &stdtls.Config{Certificates: []stdtls.Certificate{stdCert(p.ECDSA)}, Time: tlsk.FixedTime, Rand: wire.NewRand(84), MinVersion: 0x0303, MaxVersion: 0x0303}
	}
	w.setKeys()
	return w
}

func (w *sWorld) setKeys() {
	var ks [][32]byte
	for _, id := range w.ring {
		ks = append(ks, keyBytes(200+id))
	}
	if w.libIsServer {
		w.lib.SetSessionTicketKeys(ks)
	} else {
		w.std.SetSessionTicketKeys(ks)
	}
}

func (w *sWorld) step(c *harness.Ctx, op int, hist string, vec []int) {
	switch op {
	case sRotateKeep:
		w.ring = []int{w.next, w.ring[0]}
		w.next++
		w.setKeys()
		return
	case sRotateDrop:
		w.ring = []int{w.next}
		w.next++
		w.setKeys()
		return
	}
	must := false
	for _, k := range w.ring {
		must = must || (w.ticketKey != 0 && k == w.ticketKey)
	}
	var cv, sv tlsk.View
	var o *tlsk.Outcome
	if w.libIsServer {
		o = tlsk.Run(tlsk.StdEnd(w.std, true, app[0], &cv), tlsk.GMEnd(w.lib, false, app[1], &sv, nil), &cv, &sv, nil)
	} else {
		o = tlsk.Run(tlsk.GMEnd(w.lib, true, app[0], &cv, nil), tlsk.StdEnd(w.std, false, app[1], &sv), &cv, &sv, nil)
	}
	role := map[bool]string{true: "library server / crypto/tls client", false: "library client / crypto/tls server"}[w.libIsServer]
	tag := fmt.Sprintf("%s, history [%s]", role, hist)
	c.Add("transitions", 1)
	c.DistinctS("outcomes", fmt.Sprintf("%v must=%v resumed=%v/%v complete=%v/%v", w.libIsServer, must, o.C.DidResume, o.S.DidResume, o.C.Complete, o.S.Complete))
	if o.C.Panic != nil || o.S.Panic != nil || len(o.Stuck) > 0 {
		c.Violate("std-peer:crash-or-hang", fmt.Sprintf("[%s] %s\n%s", tag, o.Describe(), o.C.Stack+o.S.Stack), vec, tag)
		return
	}
	if !o.C.Complete || !o.S.Complete || string(o.S.Read) != string(app[0].Writes[0]) || string(o.C.Read) != string(app[1].Writes[0]) {
		c.Violate("std-peer:connection-fails", fmt.Sprintf("[%s] %s", tag, o.Describe()), vec, tag)
		return
	}
	if o.C.DidResume != o.S.DidResume {
		c.Violate("std-peer:views-differ", fmt.Sprintf("[%s] client resumed=%v server resumed=%v", tag, o.C.DidResume, o.S.DidResume), vec, tag)
		return
	}
	if o.S.DidResume != must {
		k := "std-peer:does-not-resume"
		if o.S.DidResume {
			k = "std-peer:resumes-when-it-must-not"
		}
		c.Violate(fmt.Sprintf("%s:library-server=%v", k, w.libIsServer), fmt.Sprintf("[%s] resumed=%v, the model says %v (ring %v, client holds a ticket under key %d): %s", tag, o.S.DidResume, must, w.ring, w.ticketKey, o.Describe()), vec, tag)
		return
	}
	// which ticket does the client hold now: a full handshake, or a resumption under an old key,
	// brings a new ticket under the newest key
	if !o.S.DidResume || w.ticketKey != w.ring[0] {
		w.ticketKey = w.ring[0]
	}
}

func stdPeerUnit(libIsServer bool, depth int) harness.Unit {
	return harness.Unit{Name: fmt.Sprintf("std-peer-resumption/library-server=%v/depth=%d", libIsServer, depth), Run: func(c *harness.Ctx) {
		c.Explore(-1, func(x *xp.X) {
			w := newSWorld(libIsServer)
			hist := ""
			var ops []int
			for i := 0; i < depth; i++ {
				op := sConnect
				if i > 0 {
					op = x.Pick(sNumOps, "op")
				}
				ops = append(ops, op)
				if i > 0 {
					hist += "; "
				}
				hist += sOpNames[op]
				n := len(c.Violations)
				w.step(c, op, hist, append([]int{}, x.Choices...))
				if len(c.Violations) > n {
					return
				}
			}
			c.DistinctS("states", fmt.Sprint(libIsServer, ops))
			if c.WantSample() {
				c.Sample(fmt.Sprintf("library-server=%v: %s", libIsServer, hist))
			}
		}, nil)
	}}
}
