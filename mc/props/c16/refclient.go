package c16

import (
	"bytes"
	"fmt"

	"github.com/tjfoc/gmsm/gmtls"

	"verif/mc/harness"
	"verif/mc/ref/gmref"
	"verif/mc/tlsk"
	"verif/mc/wire"
	"verif/mc/xp"
)

// Resumption against the INDEPENDENT client gmref: the reference client keeps the tickets and the
// master secrets itself and performs the abbreviated handshake with its own key derivation, so a
// defect that two library endpoints would share (wrong secret or transcript on resumption) does
// not cancel out. Histories over 8 operations are explored exhaustively to the depth bound.

type rTicket struct {
	bytes   []byte
	master  []byte
	suite   uint16
	keyID   int
	hasCert bool
}

type rWorld struct {
	tls     bool // standard TLS 1.2 path (RSA key exchange) instead of GMSSL
	suite   uint16
	cfg     *gmtls.Config
	ring    []int // ticket key ids, newest first
	nextKey int
	policy  int
	tickets []rTicket
	seed    byte
	// withhold: the client presents no certificate although it is asked for one
	withhold bool
}

var rPolicies = []gmtls.ClientAuthType{gmtls.NoClientCert, gmtls.RequestClientCert, gmtls.RequireAndVerifyClientCert}

const (
	rFull = iota
	rNewest
	rOldest
	rRotateKeep
	rRotateDrop
	rNextPolicy
	rWrongMaster
	rOtherSuiteOnly
	rNumOps
	// operations of the identity-focused unit only
	rOtherSuiteNoCert = 8
	rNewestOwnSuite   = 9
	rWithhold         = 10
)

var rOpNames = []string{"connect(no ticket)", "connect(newest ticket)", "connect(oldest ticket)", "rotate(keep old)", "rotate(drop old)", "next ClientAuth policy", "connect(newest ticket, wrong master secret)", "connect(newest ticket, offering only the other suite)",
	"connect(newest ticket, offering only the other suite, presenting NO certificate)", "connect(newest ticket, offering the suite of that ticket)", "client stops / resumes presenting its certificate"}

var rPreferServer bool // the units below run with and without PreferServerCipherSuites on the server

func newRWorld(suite uint16) *rWorld {
	p := tlsk.Get()
	w := &rWorld{suite: suite, ring: []int{1}, nextKey: 2}
	if suite == gmref.SuiteAESCBC || suite == gmref.SuiteAESGCM {
		w.tls = true
		w.cfg = &gmtls.Config{Certificates: []gmtls.Certificate{p.RSA}, Time: tlsk.FixedTime, Rand: wire.NewRand(71), MinVersion: 0x0303, MaxVersion: 0x0303,
			CipherSuites: []uint16{gmref.SuiteAESCBC, gmref.SuiteAESGCM}, ClientCAs: p.StdRootsG}
	} else {
		w.cfg = &gmtls.Config{GMSupport: &gmtls.GMSupport{}, Certificates: []gmtls.Certificate{p.Sign, p.Enc}, Time: tlsk.FixedTime, Rand: wire.NewRand(71),
			CipherSuites: []uint16{gmtls.GMTLS_ECC_SM4_CBC_SM3, gmtls.GMTLS_ECC_SM4_GCM_SM3}, ClientCAs: p.Roots}
	}
	w.cfg.PreferServerCipherSuites = rPreferServer
	w.setKeys()
	return w
}

func (w *rWorld) clientIdentity() gmref.Identity {
	if w.tls {
		p := tlsk.Get()
		return gmref.Identity{Certs: [][]byte{p.StdClient.Certificate[0]}, TLSKey: p.StdClient.PrivateKey}
	}
	return tlsk.ClientIdentity()
}

func (w *rWorld) clientCert() []byte {
	if w.tls {
		return tlsk.Get().StdClient.Certificate[0]
	}
	return tlsk.Get().Client.Certificate[0]
}

func (w *rWorld) setKeys() {
	var ks [][32]byte
	for _, id := range w.ring {
		ks = append(ks, keyBytes(100+id))
	}
	w.cfg.SetSessionTicketKeys(ks)
}

func other(s uint16) uint16 {
	switch s {
	case gmref.SuiteCBC:
		return gmref.SuiteGCM
	case gmref.SuiteGCM:
		return gmref.SuiteCBC
	case gmref.SuiteAESCBC:
		return gmref.SuiteAESGCM
	}
	return gmref.SuiteAESCBC
}

// step applies one operation; it returns a description and, for connections, judges the outcome.
func (w *rWorld) step(c *harness.Ctx, op int, hist string, vec []int) {
	switch op {
	case rRotateKeep:
		w.ring = []int{w.nextKey, w.ring[0]}
		w.nextKey++
		w.setKeys()
		return
	case rRotateDrop:
		w.ring = []int{w.nextKey}
		w.nextKey++
		w.setKeys()
		return
	case rNextPolicy:
		w.policy = (w.policy + 1) % len(rPolicies)
		w.cfg.ClientAuth = rPolicies[w.policy]
		return
	case rWithhold:
		w.withhold = !w.withhold
		return
	}
	pol := rPolicies[w.policy]
	var t *rTicket
	switch op {
	case rNewest, rWrongMaster, rOtherSuiteOnly, rOtherSuiteNoCert, rNewestOwnSuite:
		if len(w.tickets) > 0 {
			t = &w.tickets[len(w.tickets)-1]
		}
	case rOldest:
		if len(w.tickets) > 0 {
			t = &w.tickets[0]
		}
	}
	offered := []uint16{w.suite}
	if op == rOtherSuiteOnly || op == rOtherSuiteNoCert {
		offered = []uint16{other(w.suite)}
	}
	if op == rNewestOwnSuite && t != nil {
		offered = []uint16{t.suite}
	}
	sendCert := pol != gmtls.NoClientCert && !w.withhold && op != rOtherSuiteNoCert
	// prediction
	mustResume := false
	if t != nil {
		inRing := false
		for _, k := range w.ring {
			inRing = inRing || k == t.keyID
		}
		need := pol == gmtls.RequireAnyClientCert || pol == gmtls.RequireAndVerifyClientCert
		mustResume = inRing && t.suite == offered[0] && !(need && !t.hasCert) && !(t.hasCert && pol == gmtls.NoClientCert)
	}
	w.seed++
	setup := func(q *gmref.Peer) {
		if w.tls {
			q.UseTLS()
		}
		q.Suites = offered
		q.OfferTicket = true
		if t != nil {
			q.Ticket, q.ResumeMaster, q.ResumeSuite = t.bytes, t.master, t.suite
			if op == rWrongMaster {
				q.ResumeMaster = bytes.Repeat([]byte{0x5a}, 48)
				q.Lenient = true
			}
		}
	}
	o := tlsk.RunLibVsRef(w.cfg, false, tlsk.LibApp(false), w.clientIdentity(), w.seed, setup, &gmref.Script{SendClientCert: sendCert, Data: tlsk.PingPong(true)}, nil)
	tag := fmt.Sprintf("suite=%04x history [%s]", w.suite, hist)
	c.Add("transitions", 1)
	peer := o.Ref.Peer
	if o.Lib.Panic != nil {
		c.Violate("reference-client:server-panics:"+site(o.Lib.Stack), fmt.Sprintf("[%s] the server panicked: %v\n%s", tag, o.Lib.Panic, o.Lib.Stack), vec, tag)
		return
	}
	if o.Ref.Panic != nil || peer == nil {
		c.Note("reference client panicked in [%s]: %v", tag, o.Ref.Panic)
		c.Add("harness_divergences", 1)
		return
	}
	if o.LibStuck || o.Horizon {
		c.Violate("reference-client:server-hangs", fmt.Sprintf("[%s] %s", tag, o.Describe()), vec, tag)
		return
	}
	c.DistinctS("outcomes", fmt.Sprintf("op=%d predicted=%v resumed=%v complete=%v", op, mustResume, peer.Resumed, o.Lib.Complete))
	if peer.Resumed != o.Lib.DidResume && o.Lib.Complete {
		c.Violate("reference-client:views-differ", fmt.Sprintf("[%s] client saw resumed=%v, server reports DidResume=%v", tag, peer.Resumed, o.Lib.DidResume), vec, tag)
		return
	}
	if peer.Resumed != mustResume {
		if peer.Resumed {
			c.Violate(fmt.Sprintf("reference-client:resumes-when-it-must-not:%s", rOpNames[op]), fmt.Sprintf("[%s] the server resumed a session the model forbids (ring %v, ticket key %d, policy %d): %s", tag, w.ring, t.keyID, pol, o.Describe()), vec, tag)
		} else {
			c.Violate(fmt.Sprintf("reference-client:does-not-resume:%s", rOpNames[op]), fmt.Sprintf("[%s] the server did not resume a session it must resume (ring %v, policy %d): %s", tag, w.ring, pol, o.Describe()), vec, tag)
		}
		return
	}
	if !mustResume && (pol == gmtls.RequireAnyClientCert || pol == gmtls.RequireAndVerifyClientCert) && !sendCert {
		// a full handshake in which the required certificate is withheld must fail
		if o.Lib.Complete || o.Lib.HandshakeErr == nil {
			c.Violate("reference-client:completes-without-required-certificate", fmt.Sprintf("[%s] %s", tag, o.Describe()), vec, tag)
		}
		return
	}
	if op == rWrongMaster && peer.Resumed {
		// a client that does not know the master secret must never be accepted
		if o.Lib.Complete || o.Lib.HandshakeErr == nil {
			c.Violate("reference-client:resumption-without-master-secret", fmt.Sprintf("[%s] the server completed a resumption with a client whose Finished was computed under another master secret: %s", tag, o.Describe()), vec, tag)
		}
		return
	}
	if !o.Lib.Complete || !o.Ref.Res.Completed || string(o.Lib.Read) != "ping" || string(peer.Received) != "pong" {
		c.Violate(fmt.Sprintf("reference-client:connection-fails:%s", rOpNames[op]), fmt.Sprintf("[%s] resumed=%v: %s", tag, peer.Resumed, o.Describe()), vec, tag)
		return
	}
	if o.Lib.Suite != offered[0] {
		c.Violate("reference-client:suite", fmt.Sprintf("[%s] server reports suite %04x, offered %04x", tag, o.Lib.Suite, offered[0]), vec, tag)
	}
	hasCert := sendCert
	if peer.Resumed {
		hasCert = t.hasCert
		// the resumed session keeps the identity of the original one
		if (len(o.Lib.PeerCerts) > 0) != t.hasCert {
			c.Violate("reference-client:resumed-client-identity", fmt.Sprintf("[%s] original session had client certificate=%v, resumed session reports %d certificates", tag, t.hasCert, len(o.Lib.PeerCerts)), vec, tag)
		}
		for k, v := range peer.Checks {
			if !v {
				c.Violate("reference-client:resumed-proof-wrong:"+k, fmt.Sprintf("[%s] %s", tag, o.Describe()), vec, tag)
			}
		}
	}
	if len(o.Lib.PeerCerts) > 0 && !bytes.Equal(o.Lib.PeerCerts[0], w.clientCert()) {
		c.Violate("reference-client:wrong-client-certificate", fmt.Sprintf("[%s]", tag), vec, tag)
	}
	if peer.NewTicket != nil {
		w.tickets = append(w.tickets, rTicket{peer.NewTicket, peer.Master, offered[0], w.ring[0], hasCert})
		if len(w.tickets) > 4 {
			w.tickets = w.tickets[1:]
		}
	} else if !peer.Resumed {
		c.Violate("reference-client:no-ticket-issued", fmt.Sprintf("[%s] a full handshake that offered the ticket extension got no NewSessionTicket", tag), vec, tag)
	}
}

func refClientHistUnit(suite uint16, first, depth int) harness.Unit {
	return harness.Unit{Name: fmt.Sprintf("reference-client-histories/%04x/first=%s/depth=%d", suite, rOpNames[first], depth), Run: func(c *harness.Ctx) {
		c.Explore(-1, func(x *xp.X) {
			w := newRWorld(suite)
			hist := ""
			var ops []int
			for i := 0; i < depth; i++ {
				op := first
				if i > 0 {
					op = x.Pick(rNumOps, "op")
				}
				ops = append(ops, op)
				if i > 0 {
					hist += "; "
				}
				hist += rOpNames[op]
				n := len(c.Violations)
				w.step(c, op, hist, append([]int{}, x.Choices...))
				if len(c.Violations) > n {
					return
				}
			}
			c.DistinctS("states", fmt.Sprint(suite, ops))
			if c.WantSample() {
				c.Sample(fmt.Sprintf("suite %04x: %s", suite, hist))
			}
		}, nil)
	}}
}

// identity-focused histories: the server asks for a client certificate without insisting, and the
// client may withhold it. What a session is worth is what ITS full handshake proved: a ticket issued
// after a handshake without client certificate must never resume into a session that reports one -
// whatever ticket the client had offered (and the server had declined) in that handshake.
var rIdentityOps = []int{rFull, rNewest, rOtherSuiteOnly, rOtherSuiteNoCert, rNewestOwnSuite, rWithhold}

func refClientIdentityUnit(suite uint16, pol gmtls.ClientAuthType, first, depth int) harness.Unit {
	return harness.Unit{Name: fmt.Sprintf("reference-client-identity-histories/%04x/ClientAuth=%d/first=%s/depth=%d", suite, pol, rOpNames[first], depth), Run: func(c *harness.Ctx) {
		c.Explore(-1, func(x *xp.X) {
			w := newRWorld(suite)
			w.cfg.ClientAuth = pol
			for i, p := range rPolicies {
				if p == pol {
					w.policy = i
				}
			}
			hist := ""
			for i := 0; i < depth; i++ {
				op := first
				if i > 0 {
					op = rIdentityOps[x.Pick(len(rIdentityOps), "op")]
				}
				if i > 0 {
					hist += "; "
				}
				hist += rOpNames[op]
				n := len(c.Violations)
				w.step(c, op, hist, append([]int{}, x.Choices...))
				if len(c.Violations) > n {
					return
				}
			}
			c.DistinctS("states", fmt.Sprint(suite, pol, hist))
		}, nil)
	}}
}

func refClientUnits(tier string) []harness.Unit {
	depth := 4
	if tier == "thorough" {
		depth = 5
	}
	var u []harness.Unit
	for _, s := range []uint16{gmref.SuiteCBC, gmref.SuiteGCM, gmref.SuiteAESCBC, gmref.SuiteAESGCM} {
		for _, f := range rIdentityOps {
			u = append(u, refClientIdentityUnit(s, gmtls.RequestClientCert, f, depth))
		}
		for f := 0; f < rNumOps; f++ {
			u = append(u, refClientHistUnit(s, f, depth))
			hu := refClientHistUnit(s, f, depth-1)
			u = append(u, harness.Unit{Name: hu.Name + "/PreferServerCipherSuites", Run: func(c *harness.Ctx) {
				rPreferServer = true
				defer func() { rPreferServer = false }()
				hu.Run(c)
			}})
		}
	}
	return u
}
