// Package c16: resumption preserves the session or falls back; tickets are authenticated
// (DESIGN §3 C16).
package c16

import (
	"bytes"
	"crypto/aes"
	"crypto/cipher"
	"crypto/hmac"
	"crypto/sha256"
	"crypto/sha512"
	"fmt"
	"strings"

	"github.com/tjfoc/gmsm/gmtls"

	"verif/mc/harness"
	"verif/mc/tlsk"
	"verif/mc/wire"
	"verif/mc/xp"
)

const (
	cbc = gmtls.GMTLS_ECC_SM4_CBC_SM3
	gcm = gmtls.GMTLS_ECC_SM4_GCM_SM3
)

// variant fixes the protocol flavour of a history.
type variant struct {
	name        string
	gm          bool
	srvExplicit bool // server lists its suites explicitly
	shared      bool // the two servers start with the same ticket key
	capacity    int
	auth        gmtls.ClientAuthType // initial ClientAuth of both servers
	ops         []int                // reduced operation alphabet (nil = all)
	related     int                  // 0: two Configs built independently; 1: S1 = S0.Clone(); 2: S1 hands out S0.Clone() through GetConfigForClient
	versions    bool                 // TLS only: the client speaks 1.0-1.2 and operations 7/8/9 move version caps
}

func keyBytes(id int) (k [32]byte) {
	for i := range k {
		k[i] = byte(id*37 + i + 1)
	}
	return
}

// ---- the reference model (resmodel) ---------------------------------------------------------------

type mServer struct {
	ring       []int
	suites     []uint16 // nil = default
	auth       gmtls.ClientAuthType
	ticketsOff bool
	maxVers    uint16 // 0 = the library's default (TLS 1.2)
}

type mEntry struct {
	name    string
	keyID   int
	suite   uint16
	hasCert bool
	vers    uint16
}

type model struct {
	v       variant
	srv     [2]mServer
	cache   []mEntry // front = most recently used
	cSuites []uint16 // client's explicit list (nil = default)
	nextKey int
	cMax    uint16 // client's MaxVersion (versions variants)
}

// negotiated is the protocol version a handshake with server si ends up with.
func (m *model) negotiated(si int) uint16 {
	v := uint16(0x0303)
	if m.srv[si].maxVers != 0 && m.srv[si].maxVers < v {
		v = m.srv[si].maxVers
	}
	if m.cMax != 0 && m.cMax < v {
		v = m.cMax
	}
	return v
}

func (m *model) lookup(name string) *mEntry {
	for i := range m.cache {
		if m.cache[i].name == name {
			e := m.cache[i]
			copy(m.cache[1:i+1], m.cache[:i])
			m.cache[0] = e
			return &m.cache[0]
		}
	}
	return nil
}

func (m *model) put(e mEntry) {
	for i := range m.cache {
		if m.cache[i].name == e.name {
			copy(m.cache[1:i+1], m.cache[:i])
			m.cache[0] = e
			return
		}
	}
	if len(m.cache) < m.v.capacity {
		m.cache = append([]mEntry{e}, m.cache...)
		return
	}
	copy(m.cache[1:], m.cache[:len(m.cache)-1])
	m.cache[0] = e
}

func contains(l []uint16, s uint16) bool {
	for _, x := range l {
		if x == s {
			return true
		}
	}
	return false
}

func (m *model) clientOffers() []uint16 {
	if m.cSuites != nil {
		return m.cSuites
	}
	if m.v.gm {
		return []uint16{cbc, gcm, gmtls.GMTLS_ECDHE_SM4_CBC_SM3, gmtls.GMTLS_ECDHE_SM4_GCM_SM3}
	}
	return nil // TLS defaults: the negotiated suite is always among them
}

const (
	mustNot = iota
	must
	may
)

// predict returns the verdict for the next connection and the suite a full handshake would pick.
func (m *model) predict(si int, name string) (verdict int, why string) {
	s := &m.srv[si]
	e := m.lookup(name)
	if e == nil {
		return mustNot, "no cached session for this name"
	}
	if m.v.gm && !contains(m.clientOffers(), e.suite) {
		return mustNot, "client no longer offers the session's suite"
	}
	if s.ticketsOff {
		return mustNot, "tickets disabled"
	}
	if m.v.versions && e.vers != m.negotiated(si) {
		return mustNot, "session was established under another protocol version"
	}
	ok := false
	for _, k := range s.ring {
		if k == e.keyID {
			ok = true
		}
	}
	if !ok {
		return mustNot, "ticket key not configured on this server"
	}
	if m.v.gm {
		if s.suites == nil {
			return may, "server does not list its suites explicitly"
		}
		if !contains(s.suites, e.suite) {
			return mustNot, "server no longer supports the session's suite"
		}
	}
	need := s.auth == gmtls.RequireAnyClientCert || s.auth == gmtls.RequireAndVerifyClientCert
	if need && !e.hasCert {
		return mustNot, "policy requires a client certificate the session does not carry"
	}
	if e.hasCert && s.auth == gmtls.NoClientCert {
		return mustNot, "session carries client certificates the policy forbids"
	}
	return must, "valid ticket, unchanged or compatible configuration"
}

// negotiated suite of a full GMSSL handshake (client preference).
func (m *model) fullSuite(si int) uint16 {
	if !m.v.gm {
		return 0
	}
	sl := m.srv[si].suites
	if sl == nil {
		sl = []uint16{cbc, gcm}
	}
	for _, c := range m.clientOffers() {
		if (c == cbc || c == gcm) && contains(sl, c) {
			return c
		}
	}
	return 0
}

// after updates the model with the outcome of a connection.
func (m *model) after(si int, name string, resumed bool, suite uint16) {
	s := &m.srv[si]
	if resumed {
		e := m.lookup(name)
		if e != nil && e.keyID != s.ring[0] {
			e.keyID = s.ring[0] // refreshed ticket under the current key
		}
		return
	}
	if s.ticketsOff {
		return
	}
	m.put(mEntry{name: name, keyID: s.ring[0], suite: suite, hasCert: s.auth >= gmtls.RequestClientCert, vers: m.negotiated(si)})
}

// ---- the real system ------------------------------------------------------------------------------

type world struct {
	v     variant
	srv   [2]*gmtls.Config
	cli   *gmtls.Config
	seq   byte
	inner *gmtls.Config // related == 2: the Config that S1's GetConfigForClient hands out
	kept  []keptConn    // every connection made so far, with what it reported when it was made
}

// keptConn: both Conn objects of an earlier connection and their view at the time. A connection's
// session - master secret (seen through ExportKeyingMaterial) and peer certificates - is its own:
// nothing a LATER connection does may change it.
type keptConn struct {
	cl, sv       *gmtls.Conn
	ekm          []byte
	cPeer, sPeer [][]byte
	what         string
}

// recheck compares every earlier connection with what it reported when it was made.
func (w *world) recheck() string {
	for _, k := range w.kept {
		for side, cn := range []*gmtls.Conn{k.cl, k.sv} {
			st := cn.ConnectionState()
			ekm, err := st.ExportKeyingMaterial("EXPORTER-verif", []byte("ctx"), 32)
			if err != nil || !bytes.Equal(ekm, k.ekm) {
				return fmt.Sprintf("%s: exported keying material of the %s end was %x and is now %x (%v)", k.what, []string{"client", "server"}[side], k.ekm, ekm, err)
			}
			want := [][][]byte{k.cPeer, k.sPeer}[side]
			if len(st.PeerCertificates) != len(want) {
				return fmt.Sprintf("%s: the %s end reported %d peer certificates and now reports %d", k.what, []string{"client", "server"}[side], len(want), len(st.PeerCertificates))
			}
			for i, pc := range st.PeerCertificates {
				if !bytes.Equal(pc.Raw, want[i]) {
					return fmt.Sprintf("%s: peer certificate %d of the %s end changed after later connections", k.what, i, []string{"client", "server"}[side])
				}
			}
		}
	}
	return ""
}

func newWorld(v variant) (*world, *model) {
	p := tlsk.Get()
	w := &world{v: v}
	m := &model{v: v, nextKey: 2}
	for i := 0; i < 2; i++ {
		cfg := &gmtls.Config{Time: tlsk.FixedTime, Rand: wire.NewRand(byte(10 + i)), ClientCAs: p.Roots, ClientAuth: v.auth}
		m.srv[i].auth = v.auth
		if v.gm {
			cfg.GMSupport = &gmtls.GMSupport{}
			cfg.Certificates = []gmtls.Certificate{p.Sign, p.Enc}
			if v.srvExplicit {
				cfg.CipherSuites = []uint16{cbc, gcm}
				m.srv[i].suites = []uint16{cbc, gcm}
			}
		} else {
			cfg.Certificates = []gmtls.Certificate{p.ECDSA}
			cfg.ClientCAs = p.StdRootsG
		}
		id := 0
		if !v.shared {
			id = i
		}
		cfg.SetSessionTicketKeys([][32]byte{keyBytes(id)})
		m.srv[i].ring = []int{id}
		w.srv[i] = cfg
	}
	switch v.related {
	case 1:
		// a configuration derived from another one is a configuration of its own from then on
		w.srv[1] = w.srv[0].Clone()
	case 2:
		inner := w.srv[0].Clone()
		w.srv[1] = &gmtls.Config{Time: tlsk.FixedTime, Rand: wire.NewRand(11), GMSupport: inner.GMSupport, GetConfigForClient: func(*gmtls.ClientHelloInfo) (*gmtls.Config, error) { return inner, nil }}
		w.inner = inner
	}
	w.cli = &gmtls.Config{Time: tlsk.FixedTime, Rand: wire.NewRand(20), ClientSessionCache: gmtls.NewLRUClientSessionCache(v.capacity)}
	if v.gm {
		w.cli.GMSupport = &gmtls.GMSupport{}
		w.cli.RootCAs = p.Roots
		w.cli.Certificates = []gmtls.Certificate{p.Client}
	} else {
		w.cli.RootCAs = p.StdRootsG
		w.cli.Certificates = []gmtls.Certificate{p.StdClient}
		w.cli.MinVersion, w.cli.MaxVersion = 0x0303, 0x0303
		if v.versions {
			w.cli.MinVersion = 0x0301
		}
	}
	return w, m
}

var names = []string{tlsk.ServerName, tlsk.AltName}

const nOps = 13

func opName(op int) string {
	return []string{"connect(S0,a)", "connect(S0,b)", "connect(S1,a)", "connect(S1,b)", "rotate(S0,keep old)", "rotate(S0,drop old)", "rotate(S1,keep old)",
		"S0.suites:=[GCM]", "S0.suites:=[CBC,GCM]", "client.suites:=[GCM]", "S0.ClientAuth:=RequireAny", "S0.ClientAuth:=None", "S0.disableTickets"}[op]
}

func cloneCerts(in [][]byte) [][]byte {
	var out [][]byte
	for _, c := range in {
		out = append(out, append([]byte{}, c...))
	}
	return out
}

func opNameV(v variant, op int) string {
	if v.versions {
		switch op {
		case 7:
			return "S0.MaxVersion:=TLS1.1"
		case 8:
			return "S0.MaxVersion:=TLS1.2"
		case 9:
			return "client.MaxVersion:=TLS1.0"
		}
	}
	return opName(op)
}

type connResult struct {
	o *tlsk.Outcome
}

var app = [2]tlsk.App{{Writes: [][]byte{[]byte("resumption-c")}, Expect: 12}, {Writes: [][]byte{[]byte("resumption-s")}, Expect: 12}}

// apply performs op on the world and the model; for connects it returns the outcome and the
// model's prediction.
func apply(w *world, m *model, op int) (o *tlsk.Outcome, verdict int, why string, si int, name string) {
	switch {
	case op < 4:
		si, name = op/2, names[op%2]
		verdict, why = m.predict(si, name)
		w.cli.ServerName = name
		var cv, sv tlsk.View
		var kc, ks *gmtls.Conn
		o = tlsk.Run(tlsk.GMEnd(w.cli, true, app[0], &cv, &kc), tlsk.GMEnd(w.srv[si], false, app[1], &sv, &ks), &cv, &sv, nil)
		if o.C.Complete && o.S.Complete && kc != nil && ks != nil && o.C.Panic == nil && o.S.Panic == nil {
			w.kept = append(w.kept, keptConn{kc, ks, append([]byte{}, o.C.EKM...), cloneCerts(o.C.PeerCerts), cloneCerts(o.S.PeerCerts), fmt.Sprintf("connection %d (%s, resumed=%v)", len(w.kept)+1, opName(op), o.C.DidResume)})
		}
		return
	case op == 4 || op == 5 || op == 6:
		si = 0
		if op == 6 {
			si = 1
		}
		id := m.nextKey
		m.nextKey++
		if op == 5 {
			m.srv[si].ring = []int{id}
		} else {
			m.srv[si].ring = append([]int{id}, m.srv[si].ring...)
		}
		var ks [][32]byte
		for _, k := range m.srv[si].ring {
			ks = append(ks, keyBytes(k))
		}
		if si == 1 && w.inner != nil {
			w.inner.SetSessionTicketKeys(ks)
		} else {
			w.srv[si].SetSessionTicketKeys(ks)
		}
	case op == 7 && m.v.versions:
		w.srv[0].MaxVersion = 0x0302
		m.srv[0].maxVers = 0x0302
	case op == 8 && m.v.versions:
		w.srv[0].MaxVersion = 0x0303
		m.srv[0].maxVers = 0x0303
	case op == 9 && m.v.versions:
		w.cli.MaxVersion = 0x0301
		m.cMax = 0x0301
	case op == 7:
		if m.v.gm {
			w.srv[0].CipherSuites = []uint16{gcm}
			m.srv[0].suites = []uint16{gcm}
		}
	case op == 8:
		if m.v.gm {
			w.srv[0].CipherSuites = []uint16{cbc, gcm}
			m.srv[0].suites = []uint16{cbc, gcm}
		}
	case op == 9:
		if m.v.gm {
			w.cli.CipherSuites = []uint16{gcm}
			m.cSuites = []uint16{gcm}
		}
	case op == 10:
		w.srv[0].ClientAuth = gmtls.RequireAnyClientCert
		m.srv[0].auth = gmtls.RequireAnyClientCert
	case op == 11:
		w.srv[0].ClientAuth = gmtls.NoClientCert
		m.srv[0].auth = gmtls.NoClientCert
	case op == 12:
		w.srv[0].SessionTicketsDisabled = true
		m.srv[0].ticketsOff = true
	}
	return nil, 0, "", 0, ""
}

func site(st string) string {
	for _, l := range strings.Split(st, "\n") {
		l = strings.TrimSpace(l)
		if strings.HasPrefix(l, "github.com/tjfoc/gmsm/") {
			if i := strings.LastIndex(l, "("); i > 0 {
				l = l[:i]
			}
			return strings.TrimPrefix(l, "github.com/tjfoc/gmsm/")
		}
	}
	return "?"
}

func histUnit(v variant, first, depth int) harness.Unit {
	return harness.Unit{Name: fmt.Sprintf("history/%s/first=%s/depth=%d", v.name, opNameV(v, first), depth), Run: func(c *harness.Ctx) {
		c.Explore(-1, func(x *xp.X) {
			w, m := newWorld(v)
			var hist []string
			origCerts := map[string][][]byte{}
			for step := 0; step < depth; step++ {
				op := first
				if step > 0 {
					if v.ops != nil {
						op = v.ops[x.Pick(len(v.ops), "op")]
					} else {
						op = x.Pick(nOps, "op")
					}
				}
				hist = append(hist, opNameV(v, op))
				c.Add("transitions", 1)
				o, verdict, why, si, name := apply(w, m, op)
				if o == nil {
					continue
				}
				tag := fmt.Sprintf("%s: history [%s]", v.name, strings.Join(hist, "; "))
				if o.C.Panic != nil || o.S.Panic != nil {
					who, st := "server", o.S.Stack
					if o.C.Panic != nil {
						who, st = "client", o.C.Stack
					}
					c.Violate(fmt.Sprintf("panic:%s:%s:%s", who, v.name, site(st)), fmt.Sprintf("[%s] the %s panicked: %v %v\n%s", tag, who, o.C.Panic, o.S.Panic, st[:min(len(st), 1500)]), x.Choices, tag)
					c.DistinctS("outcomes", "panic")
					return
				}
				if len(o.Stuck) > 0 || o.Horizon {
					c.Violate("hang:"+v.name, fmt.Sprintf("[%s] %v", tag, o.Stuck), x.Choices, tag)
					return
				}
				if !o.C.Complete || !o.S.Complete {
					// the only legitimate failure: the policy requires a client certificate... the client
					// always has one, so every connection of these histories must succeed
					c.Violate(fmt.Sprintf("connection-fails:%s:%s", v.name, opNameV(v, op)), fmt.Sprintf("[%s] (model: %s) the connection failed instead of resuming or falling back: %s", tag, why, o.Describe()), x.Choices, tag)
					c.DistinctS("outcomes", "fail")
					return
				}
				if o.C.DidResume != o.S.DidResume {
					c.Violate("resume-views-differ:"+v.name, fmt.Sprintf("[%s] client DidResume=%v server DidResume=%v", tag, o.C.DidResume, o.S.DidResume), x.Choices, tag)
					return
				}
				if v.versions && (o.C.Version != m.negotiated(si) || o.S.Version != m.negotiated(si)) {
					c.Violate("version:"+v.name, fmt.Sprintf("[%s] client reports version %04x, server %04x, the caps allow %04x", tag, o.C.Version, o.S.Version, m.negotiated(si)), x.Choices, tag)
					return
				}
				res := o.C.DidResume
				c.DistinctS("outcomes", fmt.Sprintf("verdict%d/resumed=%v", verdict, res))
				if verdict == must && !res {
					c.Violate(fmt.Sprintf("no-resumption:%s:%s", v.name, why), fmt.Sprintf("[%s] the model says MUST resume (%s) but a full handshake happened", tag, why), x.Choices, tag)
					return
				}
				if verdict == mustNot && res {
					c.Violate(fmt.Sprintf("forbidden-resumption:%s:%s", v.name, why), fmt.Sprintf("[%s] the model says MUST NOT resume (%s) but the session was resumed", tag, why), x.Choices, tag)
					return
				}
				if !bytes.Equal(o.C.EKM, o.S.EKM) || len(o.C.EKM) == 0 {
					c.Violate("ekm-differs:"+v.name, fmt.Sprintf("[%s] exported keying material differs (resumed=%v)", tag, res), x.Choices, tag)
					return
				}
				if !bytes.Equal(o.C.Read, app[1].Writes[0]) || !bytes.Equal(o.S.Read, app[0].Writes[0]) {
					c.Violate("data-after-resumption:"+v.name, fmt.Sprintf("[%s] application data not delivered intact (resumed=%v)", tag, res), x.Choices, tag)
					return
				}
				if res {
					e := m.lookup(name)
					if e != nil && v.gm && o.C.Suite != e.suite {
						c.Violate("resumed-with-other-suite:"+v.name, fmt.Sprintf("[%s] resumed session uses suite %04x, original %04x", tag, o.C.Suite, e.suite), x.Choices, tag)
						return
					}
					if oc, ok := origCerts[name]; ok {
						if len(o.C.PeerCerts) != len(oc) || (len(oc) > 0 && !bytes.Equal(o.C.PeerCerts[0], oc[0])) {
							c.Violate("resumed-peer-identity:"+v.name, fmt.Sprintf("[%s] the resumed session reports other server certificates than the original", tag), x.Choices, tag)
							return
						}
					}
					if e != nil && (len(o.S.PeerCerts) > 0) != e.hasCert {
						c.Violate("resumed-client-identity:"+v.name, fmt.Sprintf("[%s] server sees client certificates=%v, original session had=%v", tag, len(o.S.PeerCerts) > 0, e.hasCert), x.Choices, tag)
						return
					}
				} else {
					origCerts[name] = o.C.PeerCerts
				}
				if why := w.recheck(); why != "" {
					c.Violate("earlier-connection-changed:"+v.name, fmt.Sprintf("[%s] %s", tag, why), x.Choices, tag)
					return
				}
				suite := o.C.Suite
				m.after(si, name, res, suite)
				c.DistinctS("states", fmt.Sprintf("%v|%v|%v|%v", m.srv, m.cache, m.cSuites, v.name))
			}
			if c.WantSample() {
				c.Sample(v.name + ": " + strings.Join(hist, "; "))
			}
		}, nil)
	}}
}

// ---- ticket faults: raw replays of a ClientHello that carries a ticket ----------------------------

// firstFlight sends raw bytes and collects the server's answer until it goes quiet.
func firstFlight(cfg *gmtls.Config, hello []byte) (resp []byte, o *tlsk.Outcome) {
	var cv, sv tlsk.View
	rawc := func(e *wire.End) error {
		e.Write(hello)
		buf := make([]byte, 8192)
		for {
			n, err := e.Read(buf)
			cv.Read = append(cv.Read, buf[:n]...)
			if err != nil {
				break
			}
		}
		e.Close()
		return nil
	}
	o = tlsk.Run(rawc, tlsk.GMEnd(cfg, false, app[1], &sv, nil), &cv, &sv, nil)
	return o.C.Read, o
}

// resumedIn reports whether the server's first flight is an abbreviated handshake
// (ChangeCipherSpec without a Certificate message before it).
func resumedIn(resp []byte) bool {
	sawCert := false
	for len(resp) >= 5 {
		l := int(resp[3])<<8 | int(resp[4])
		if len(resp) < 5+l {
			break
		}
		if resp[0] == 22 && l > 0 && resp[5] == 11 {
			sawCert = true
		}
		if resp[0] == 20 {
			return !sawCert
		}
		resp = resp[5+l:]
	}
	return false
}

type grab struct{ hello []byte }

func (g *grab) Deliver(n *wire.Net, r wire.Record) [][]byte {
	if g.hello == nil && r.From == n.A && r.Type == 22 {
		g.hello = append([]byte{}, r.Raw...)
	}
	return [][]byte{r.Raw}
}
func (g *grab) OnIdle(n *wire.Net) bool { return false }

func ticketFaultUnit(v variant) harness.Unit {
	return harness.Unit{Name: "ticket-faults/" + v.name, Run: func(c *harness.Ctx) {
		w, m := newWorld(v)
		// first connection issues a ticket, second one offers it: capture that ClientHello
		apply(w, m, 0)
		g := &grab{}
		w.cli.ServerName = names[0]
		var cv, sv tlsk.View
		o := tlsk.Run(tlsk.GMEnd(w.cli, true, app[0], &cv, nil), tlsk.GMEnd(w.srv[0], false, app[1], &sv, nil), &cv, &sv, g)
		if !o.C.DidResume || g.hello == nil {
			c.Note("no resumption in the honest second connection of %s (%s); ticket faults not applicable", v.name, o.Describe())
			c.Add("evaluations", 1)
			c.DistinctS("nontrivial", "no-resumption-1")
			c.DistinctS("nontrivial", "no-resumption-2")
			return
		}
		// locate the ticket inside the hello: it is the longest run shared with nothing else; find by
		// the key name of key 0 (first 16 bytes of SHA-512 of the key)
		kb := keyBytes(0)
		h := sha512.Sum512(kb[:])
		off := bytes.Index(g.hello, h[:16])
		if off < 0 {
			c.Violate("ticket-not-found", "the offered ClientHello does not contain a ticket under the configured key", nil, nil)
			return
		}
		tlen := int(g.hello[off-2])<<8 | int(g.hello[off-1])
		// control: the unmodified hello resumes
		if resp, _ := firstFlight(w.srv[0], g.hello); !resumedIn(resp) {
			c.Violate("ticket-control", "replaying the captured ClientHello unmodified does not resume", nil, nil)
			return
		}
		try := func(kind string, hello []byte) {
			c.Add("evaluations", 1)
			c.Distinct("nontrivial", hello)
			resp, o := firstFlight(w.srv[0], hello)
			if o.S.Panic != nil {
				c.Violate(fmt.Sprintf("panic:server:ticket-%s:%s", kind, site(o.S.Stack)), fmt.Sprintf("%s: server panicked on a ClientHello with a %s ticket: %v\n%s", v.name, kind, o.S.Panic, o.S.Stack[:min(1200, len(o.S.Stack))]), nil, nil)
				return
			}
			if len(o.Stuck) > 0 {
				c.Violate("hang:ticket-"+kind, fmt.Sprintf("%s: %v", v.name, o.Stuck), nil, nil)
				return
			}
			if resumedIn(resp) {
				c.Violate("tampered-ticket-resumed:"+kind+":"+v.name, fmt.Sprintf("%s: the server resumed a session from a ticket that differs from the one it issued (%s)", v.name, kind), nil, nil)
			}
		}
		for i := 0; i < tlen; i++ {
			for _, mask := range []byte{0x01, 0x80} {
				hh := append([]byte{}, g.hello...)
				hh[off+i] ^= mask
				try("byte-changed", hh)
			}
		}
		// truncations and extensions of the ticket (all enclosing length fields adjusted)
		reframe := func(newTicket []byte) []byte {
			// rebuild: record hdr(5) + hs hdr(4) + body; adjust ext length(2 before ticket len?), extensions total length
			body := append([]byte{}, g.hello[9:]...)
			toff := off - 9
			old := tlen
			delta := len(newTicket) - old
			nb := append(append(append([]byte{}, body[:toff]...), newTicket...), body[toff+old:]...)
			// ticket extension length sits right before the ticket
			nb[toff-2], nb[toff-1] = byte(len(newTicket)>>8), byte(len(newTicket))
			// total extensions length: find it — it is at position after compression methods
			p := 2 + 32
			p += 1 + int(body[p])                       // session id
			p += 2 + (int(body[p])<<8 | int(body[p+1])) // suites
			p += 1 + int(body[p])                       // compression
			el := (int(body[p])<<8 | int(body[p+1])) + delta
			nb[p], nb[p+1] = byte(el>>8), byte(el)
			hs := append([]byte{1, byte(len(nb) >> 16), byte(len(nb) >> 8), byte(len(nb))}, nb...)
			return wire.Frame(uint16(g.hello[1])<<8|uint16(g.hello[2]), 22, hs)
		}
		ticket := g.hello[off : off+tlen]
		if resp, _ := firstFlight(w.srv[0], reframe(ticket)); !resumedIn(resp) {
			c.Note("reframing helper does not reproduce a resumable hello; truncation/extension faults skipped")
		} else {
			for n := 0; n < tlen; n++ {
				try("truncated", reframe(ticket[:n]))
			}
			try("extended", reframe(append(append([]byte{}, ticket...), 0)))
			try("extended", reframe(append(append([]byte{}, ticket...), make([]byte, 16)...)))
			// crafted tickets: valid MAC under the configured key, altered plaintext state
			hk := sha512.Sum512(kb[:])
			keyName, aesKey, hmacKey := hk[:16], hk[16:32], hk[32:48]
			seal := func(state []byte) []byte {
				out := append([]byte{}, keyName...)
				iv := bytes.Repeat([]byte{7}, 16)
				out = append(out, iv...)
				ct := make([]byte, len(state))
				blk, _ := aes.NewCipher(aesKey)
				cipher.NewCTR(blk, iv).XORKeyStream(ct, state)
				out = append(out, ct...)
				mac := hmac.New(sha256.New, hmacKey)
				mac.Write(out)
				return mac.Sum(out)
			}
			// decrypt the genuine ticket to get the genuine state
			blk, _ := aes.NewCipher(aesKey)
			st := make([]byte, tlen-16-16-32)
			cipher.NewCTR(blk, ticket[16:32]).XORKeyStream(st, ticket[32:tlen-32])
			if resp, _ := firstFlight(w.srv[0], reframe(seal(st))); !resumedIn(resp) {
				c.Note("re-sealed genuine state does not resume; crafted-state cases skipped")
			} else {
				crafted := map[string][]byte{}
				mut := func(name string, f func(s []byte) []byte) { crafted[name] = f(append([]byte{}, st...)) }
				mut("version+1", func(s []byte) []byte { s[1]++; return s })
				mut("version 0x0303", func(s []byte) []byte { s[0], s[1] = 3, 3; return s })
				mut("suite unknown", func(s []byte) []byte { s[2], s[3] = 0x12, 0x34; return s })
				mut("suite other", func(s []byte) []byte { s[3] ^= 0x40; return s })
				mut("master secret length 0xffff", func(s []byte) []byte { s[4], s[5] = 0xff, 0xff; return s })
				mut("master secret length 0", func(s []byte) []byte { return append(append(append([]byte{}, s[:4]...), 0, 0), s[6+48:]...) })
				mut("certificate count 0xffff", func(s []byte) []byte { s[6+48], s[6+48+1] = 0xff, 0xff; return s })
				mut("certificate count 1 without data", func(s []byte) []byte { s[6+48], s[6+48+1] = 0, 1; return s[:6+48+2] })
				mut("certificate length 0x7fffffff", func(s []byte) []byte {
					s[6+48], s[6+48+1] = 0, 1
					return append(s[:6+48+2], 0x7f, 0xff, 0xff, 0xff)
				})
				mut("certificate length negative", func(s []byte) []byte {
					s[6+48], s[6+48+1] = 0, 1
					return append(s[:6+48+2], 0xff, 0xff, 0xff, 0xff)
				})
				mut("garbage certificate", func(s []byte) []byte {
					s[6+48], s[6+48+1] = 0, 1
					return append(s[:6+48+2], 0, 0, 0, 3, 1, 2, 3)
				})
				mut("trailing byte", func(s []byte) []byte { return append(s, 0) })
				mut("empty state", func(s []byte) []byte { return nil })
				mut("7-byte state", func(s []byte) []byte { return s[:7] })
				for name, cs := range crafted {
					c.Add("evaluations", 1)
					c.Distinct("nontrivial", cs)
					resp, o := firstFlight(w.srv[0], reframe(seal(cs)))
					if o.S.Panic != nil {
						c.Violate(fmt.Sprintf("panic:server:crafted-ticket:%s:%s", name, site(o.S.Stack)), fmt.Sprintf("%s: server panicked on an authentic ticket whose state has %s: %v\n%s", v.name, name, o.S.Panic, o.S.Stack[:min(1200, len(o.S.Stack))]), nil, nil)
						continue
					}
					if len(o.Stuck) > 0 {
						c.Violate("hang:crafted-ticket:"+name, fmt.Sprintf("%s: %v", v.name, o.Stuck), nil, nil)
						continue
					}
					// an authentic ticket can only be made with the ticket key; the statement forbids
					// resumption for another version or an unsupported suite, and a state that does not
					// parse cannot describe a session at all
					forbidden := map[string]bool{"version+1": true, "suite unknown": true, "certificate count 0xffff": true, "certificate count 1 without data": true,
						"certificate length 0x7fffffff": true, "certificate length negative": true, "trailing byte": true, "empty state": true, "7-byte state": true, "master secret length 0xffff": true}
					if name == "version 0x0303" && v.gm {
						forbidden[name] = true
					}
					if resumedIn(resp) && forbidden[name] {
						c.Violate("crafted-ticket-resumed:"+name+":"+v.name, fmt.Sprintf("%s: the server resumed from a ticket whose state has %s", v.name, name), nil, nil)
					}
				}
			}
		}
		c.Sample(fmt.Sprintf("%s: every byte of the %d-byte ticket x {^01,^80}, every truncation, extension by 1 and 16, 14 authentic tickets with altered state", v.name, tlen))
	}}
}

var variants = []variant{
	{"GMSSL/explicit-suites/shared-key/cap2", true, true, true, 2, 0, nil, 0, false},
	{"GMSSL/explicit-suites/separate-keys/cap1", true, true, false, 1, 0, nil, 0, false},
	{"GMSSL/default-suites/shared-key/cap2", true, false, true, 2, 0, nil, 0, false},
	{"TLS1.2/shared-key/cap2", false, false, true, 2, 0, nil, 0, false},
	{"TLS1.2/separate-keys/cap1", false, false, false, 1, 0, nil, 0, false},
	{"GMSSL/explicit-suites/shared-key/cap3", true, true, true, 3, 0, nil, 0, false},
	{"GMSSL/explicit-suites/S1=S0.Clone()/cap2", true, true, true, 2, 0, nil, 1, false},
	{"TLS1.2/S1=S0.Clone()/cap2", false, false, true, 2, 0, nil, 1, false},
	{"TLS1.2/S1=GetConfigForClient->S0.Clone()/cap2", false, false, true, 2, 0, nil, 2, false},
}

// focused variants: a reduced alphabet (connections and key rotations only) explored deeper, with
// servers that request / require client certificates from the start
var rotationOps = []int{0, 2, 4, 5, 6}
var versionOps = []int{0, 2, 7, 8, 9, 4}
var focused = []variant{
	{"TLS/version-caps/shared-key/cap2", false, false, true, 2, 0, versionOps, 0, true},
	{"TLS/version-caps/S1=S0.Clone()/cap2", false, false, true, 2, 0, versionOps, 1, true},
	{"TLS/version-caps/S1=GetConfigForClient->S0.Clone()/cap2", false, false, true, 2, 0, versionOps, 2, true},
	{"GMSSL/rotation-focus/ClientAuth=Request", true, true, true, 2, gmtls.RequestClientCert, rotationOps, 0, false},
	{"GMSSL/rotation-focus/ClientAuth=VerifyIfGiven", true, true, true, 2, gmtls.VerifyClientCertIfGiven, rotationOps, 0, false},
	{"TLS1.2/rotation-focus/ClientAuth=Request", false, false, true, 2, gmtls.RequestClientCert, rotationOps, 0, false},
	{"TLS1.2/rotation-focus/ClientAuth=RequireAny", false, false, false, 1, gmtls.RequireAnyClientCert, rotationOps, 0, false},
}

// Prop registers C16.
var Prop = &harness.Prop{
	ID:          "C16",
	Level:       "model_checking",
	Rule:        "history exploration: every sequence up to the depth bound over 13 operations {connect(S0|S1, name a|b), rotate(S0 keep/drop old key), rotate(S1 keep old), S0.suites:=[GCM] / [CBC,GCM], client.suites:=[GCM], S0.ClientAuth:=RequireAny / None, S0.disableTickets} on one client Config with an LRU session cache (capacity 1-3) and two real server Configs (ticket keys shared or separate), for GMSSL with explicit suite lists, GMSSL with default lists and TLS 1.2; a reference model (key rings, cache entries as (name, ticket key id, suite, client-cert flag) in LRU order, configuration) predicts MUST / MUST NOT / MAY resume for every connect; observed: DidResume agrees on both ends and with the prediction, exported keying material equal, data delivered, resumed sessions keep suite and both peers' certificates, no failure, no panic. Ticket faults: the ClientHello of a resuming connection is captured and replayed raw with every byte of the ticket changed (^01, ^80), every truncation, extensions, and 14 authentic tickets (re-sealed under the configured key) whose plaintext state is altered: never a resumption from a modified ticket, never a crash. states = distinct model states reached; transitions = operations applied. Reference client: the independent implementation gmref keeps tickets and master secrets itself and performs the abbreviated handshake with its own key derivation against a library server; every history to the depth bound over {connect without ticket, with the newest, with the oldest ticket, rotate keeping / dropping the old key, next ClientAuth policy (none, request, require-and-verify), newest ticket with a wrong master secret, newest ticket offering only the other suite}; MUST/MUST NOT resume predicted from key ring, suite and certificate policy; a resumed session keeps the client identity of the original; a client without the master secret is never accepted. Variants with related server Configs: S1 = S0.Clone() and S1 handing out S0.Clone() through GetConfigForClient (a rotation on one must not reach the other). Version caps: variants in which operations move S0's and the client's MaxVersion (TLS 1.0-1.2); the model entry carries the protocol version, a session MUST NOT be resumed under another version and every connection reports the version the caps give. Every history keeps all earlier Conn pairs and re-checks their exported keying material and peer certificates after every later connection. Identity-focused reference-client histories (ClientAuth = request): the client may withhold its certificate, offer a ticket with another suite, resume a ticket with its own suite - a session is worth what its own full handshake proved.",
	Assumptions: []string{"the reference-client units use gmref (independent key derivation and abbreviated handshake); its model of MUST/MUST NOT resume is: ticket key in the server's ring, same suite offered, client-certificate policy compatible", "the client always holds a certificate; servers only request/require it per policy", "resumption is observed through DidResume on both ends and, for raw replays, through the shape of the server's first flight"},
	Bounds: func(tier string) string {
		if tier == "thorough" {
			return "depth 4 for six variants over 13 operations, depth 6 for four rotation-focused variants over 5 operations; ticket faults for five variants; reference-client histories depth 5 over 8 operations, both suites"
		}
		return "depth 3 for six variants over 13 operations, depth 4 for four rotation-focused variants over 5 operations (connect S0/S1, rotate keep/drop) with servers requesting client certificates; ticket faults for three variants; reference-client histories depth 4 over 8 operations, both suites"
	},
	Units: func(tier string) []harness.Unit {
		var u []harness.Unit
		depth := 3
		if tier == "thorough" {
			depth = 4
		}
		for _, v := range variants {
			for f := 0; f < nOps; f++ {
				if f >= 4 && depth > 3 == false && false {
					continue
				}
				u = append(u, histUnit(v, f, depth))
			}
		}
		fdepth := 4
		if tier == "thorough" {
			fdepth = 6
		}
		for _, v := range focused {
			for _, f := range v.ops {
				u = append(u, histUnit(v, f, fdepth))
			}
		}
		nv := 3
		if tier == "thorough" {
			nv = 5
		}
		for i, v := range []variant{variants[0], variants[3], variants[2], variants[1], variants[4]} {
			if i < nv {
				u = append(u, ticketFaultUnit(v))
			}
		}
		u = append(u, refClientUnits(tier)...)
		sd := 5
		if tier == "thorough" {
			sd = 7
		}
		u = append(u, stdPeerUnit(true, sd), stdPeerUnit(false, sd))
		return u
	},
}
