package c17

import (
	"crypto/ecdsa"
	"math/big"
)

func ecD(k interface{}) *big.Int {
	if p, ok := k.(*ecdsa.PrivateKey); ok {
		return p.D
	}
	return new(big.Int)
}
