// Package c17: PKCS#7 / PKCS#12 containers return what was put in, only to the right holder
// (DESIGN §3 C17).
package c17

import (
	"bytes"
	"crypto"
	"crypto/ecdsa"
	"crypto/elliptic"
	"crypto/rand"
	"crypto/rsa"
	"crypto/sha1"
	"crypto/sha256"
	stdx509 "crypto/x509"
	"crypto/x509/pkix"
	"encoding/asn1"
	"encoding/pem"
	"fmt"
	"math/big"
	"sync"
	"time"

	"github.com/tjfoc/gmsm/pkcs12"
	"github.com/tjfoc/gmsm/sm2"
	"github.com/tjfoc/gmsm/sm3"
	gx509 "github.com/tjfoc/gmsm/x509"

	"verif/mc/harness"
	"verif/mc/props/pu"
	"verif/mc/props/sm2k"
)

type ident struct {
	name string
	sm2  *sm2.PrivateKey
	rsa  *rsa.PrivateKey
	cert *gx509.Certificate
}

var (
	idOnce sync.Once
	idents []*ident
)

func mkSM2Cert(cn string, serial int64, k *sm2.PrivateKey) *gx509.Certificate {
	t := &gx509.Certificate{SerialNumber: big.NewInt(serial), Subject: pkix.Name{CommonName: cn}, NotBefore: time.Date(2020, 1, 1, 0, 0, 0, 0, time.UTC), NotAfter: time.Date(2040, 1, 1, 0, 0, 0, 0, time.UTC),
		KeyUsage: gx509.KeyUsageDigitalSignature | gx509.KeyUsageKeyEncipherment, SignatureAlgorithm: gx509.SM2WithSM3}
	der, err := gx509.CreateCertificate(t, t, &k.PublicKey, k)
	if err != nil {
		panic(err)
	}
	c, err := gx509.ParseCertificate(der)
	if err != nil {
		panic(err)
	}
	return c
}

func mkRSACert(cn string, serial int64, k *rsa.PrivateKey) *gx509.Certificate {
	t := &stdx509.Certificate{SerialNumber: big.NewInt(serial), Subject: pkix.Name{CommonName: cn}, NotBefore: time.Date(2020, 1, 1, 0, 0, 0, 0, time.UTC), NotAfter: time.Date(2040, 1, 1, 0, 0, 0, 0, time.UTC), KeyUsage: stdx509.KeyUsageKeyEncipherment | stdx509.KeyUsageDigitalSignature}
	der, err := stdx509.CreateCertificate(rand.Reader, t, t, &k.PublicKey, k)
	if err != nil {
		panic(err)
	}
	c, err := gx509.ParseCertificate(der)
	if err != nil {
		panic(err)
	}
	return c
}

func identities() []*ident {
	idOnce.Do(func() {
		al := sm2k.Alphabet()
		for i, ki := range []int{5, 8, 9, 11} {
			k := al[ki].Lib()
			idents = append(idents, &ident{name: fmt.Sprintf("sm2-%d", i), sm2: k, cert: mkSM2Cert(fmt.Sprintf("sm2-%d", i), int64(500+i), k)})
		}
		for i := 0; i < 3; i++ {
			k, _ := rsa.GenerateKey(rand.Reader, 2048)
			idents = append(idents, &ident{name: fmt.Sprintf("rsa-%d", i), rsa: k, cert: mkRSACert(fmt.Sprintf("rsa-%d", i), int64(600+i), k)})
		}
	})
	return idents
}

var contentLens = []int{0, 1, 7, 8, 9, 15, 16, 17, 1000, 65536}

func envelopeUnit(alg int) harness.Unit {
	algName := map[int]string{gx509.EncryptionAlgorithmDESCBC: "DES-CBC", gx509.EncryptionAlgorithmAES128GCM: "AES-128-GCM"}[alg]
	return harness.Unit{Name: "enveloped/" + algName, Run: func(c *harness.Ctx) {
		gx509.ContentEncryptionAlgorithm = alg // process-wide selector; this unit is single-threaded
		ids := identities()
		sm := ids[:4]
		rs := ids[4:]
		for _, L := range contentLens {
			content := pu.Msg(L, L)
			// SM2 recipients
			for mode := 0; mode < 2; mode++ {
				for nrec := 1; nrec <= 3; nrec++ {
					tag := fmt.Sprintf("%s SM2 mode=%d |content|=%d recipients=%d", algName, mode, L, nrec)
					c.Add("evaluations", 1)
					c.DistinctS("nontrivial", tag)
					var certs []*gx509.Certificate
					for i := 0; i < nrec; i++ {
						certs = append(certs, sm[i].cert)
					}
					var env []byte
					var err error
					if c.Guard("envelope-panic:encrypt-sm2", "PKCS7EncryptSM2 "+tag, nil, func() { env, err = gx509.PKCS7EncryptSM2(content, certs, mode) }) {
						continue
					}
					if err != nil {
						c.Violate(fmt.Sprintf("envelope-encrypt-error:sm2:%s:L=%d", algName, L), fmt.Sprintf("[%s] %v", tag, err), nil, nil)
						continue
					}
					p7, err := gx509.ParsePKCS7(env)
					if err != nil {
						c.Violate("envelope-parse:sm2:"+algName, fmt.Sprintf("[%s] own envelope does not parse: %v", tag, err), nil, nil)
						continue
					}
					for i := 0; i < nrec; i++ {
						var pt []byte
						if c.Guard("envelope-panic:decrypt-sm2", "DecryptSM2 "+tag, nil, func() { pt, err = p7.DecryptSM2(sm[i].cert, sm[i].sm2, mode) }) {
							continue
						}
						if err != nil || !bytes.Equal(pt, content) {
							c.Violate(fmt.Sprintf("envelope-recipient-fails:sm2:%s:L=%d", algName, L), fmt.Sprintf("[%s] recipient %d recovers %s (err %v)", tag, i, pu.Hex(pt), err), nil, nil)
						}
					}
					// wrong holders
					neg := func(what string, cert *gx509.Certificate, key crypto.PrivateKey, m int) {
						c.Add("evaluations", 1)
						var pt []byte
						var err error
						if c.Guard("envelope-panic:wrong-holder:"+what, "DecryptSM2 by "+what+" ["+tag+"]", nil, func() { pt, err = p7.DecryptSM2(cert, key, m) }) {
							return
						}
						if err == nil {
							c.Violate("envelope-wrong-holder-succeeds:sm2:"+what, fmt.Sprintf("[%s] %s obtained %s without error", tag, what, pu.Hex(pt)), nil, nil)
						}
					}
					neg("another SM2 key with the recipient's certificate", sm[0].cert, sm[3].sm2, mode)
					neg("a certificate that is not a recipient", sm[3].cert, sm[3].sm2, mode)
					if L > 0 || true {
						neg("the other ciphertext ordering", sm[0].cert, sm[0].sm2, 1-mode)
					}
					neg("an RSA key", sm[0].cert, rs[0].rsa, mode)
					if c.WantSample() {
						c.Sample(tag)
					}
				}
			}
			// RSA recipients
			for nrec := 1; nrec <= 3; nrec++ {
				tag := fmt.Sprintf("%s RSA |content|=%d recipients=%d", algName, L, nrec)
				c.Add("evaluations", 1)
				c.DistinctS("nontrivial", tag)
				var certs []*gx509.Certificate
				for i := 0; i < nrec; i++ {
					certs = append(certs, rs[i].cert)
				}
				var env []byte
				var err error
				if c.Guard("envelope-panic:encrypt-rsa", "PKCS7Encrypt "+tag, nil, func() { env, err = gx509.PKCS7Encrypt(content, certs) }) {
					continue
				}
				if err != nil {
					c.Violate(fmt.Sprintf("envelope-encrypt-error:rsa:%s:L=%d", algName, L), fmt.Sprintf("[%s] %v", tag, err), nil, nil)
					continue
				}
				p7, err := gx509.ParsePKCS7(env)
				if err != nil {
					c.Violate("envelope-parse:rsa:"+algName, fmt.Sprintf("[%s] %v", tag, err), nil, nil)
					continue
				}
				for i := 0; i < nrec; i++ {
					var pt []byte
					if c.Guard("envelope-panic:decrypt-rsa", "Decrypt "+tag, nil, func() { pt, err = p7.Decrypt(rs[i].cert, rs[i].rsa) }) {
						continue
					}
					if err != nil || !bytes.Equal(pt, content) {
						c.Violate(fmt.Sprintf("envelope-recipient-fails:rsa:%s:L=%d", algName, L), fmt.Sprintf("[%s] recipient %d recovers %s (err %v)", tag, i, pu.Hex(pt), err), nil, nil)
					}
				}
				neg := func(what string, cert *gx509.Certificate, key crypto.PrivateKey) {
					c.Add("evaluations", 1)
					var pt []byte
					var err error
					if c.Guard("envelope-panic:wrong-holder:"+what, "Decrypt by "+what+" ["+tag+"]", nil, func() { pt, err = p7.Decrypt(cert, key) }) {
						return
					}
					if err == nil && bytes.Equal(pt, content) {
						c.Violate("envelope-wrong-holder-succeeds:rsa:"+what, fmt.Sprintf("[%s] %s recovered the content", tag, what), nil, nil)
					}
				}
				neg("another RSA key with the recipient's certificate", rs[0].cert, rs[2].rsa)
				if nrec < 3 {
					neg("a certificate that is not a recipient", rs[2].cert, rs[2].rsa)
				}
				neg("an SM2 key", rs[0].cert, sm[0].sm2)
			}
		}
	}}
}

// denseUnit: every content length in a dense range (DER length-encoding boundaries such as 127/128,
// 255/256 and 65280..65535 inside the containers), one recipient, both content algorithms.
func denseUnit(alg int, lo, hi int, extra []int) harness.Unit {
	algName := map[int]string{gx509.EncryptionAlgorithmDESCBC: "DES-CBC", gx509.EncryptionAlgorithmAES128GCM: "AES-128-GCM"}[alg]
	return harness.Unit{Name: fmt.Sprintf("enveloped-dense/%s/%d..%d", algName, lo, hi), Run: func(c *harness.Ctx) {
		gx509.ContentEncryptionAlgorithm = alg
		ids := identities()
		sm, rs := ids[0], ids[4]
		var lens []int
		for l := lo; l <= hi; l++ {
			lens = append(lens, l)
		}
		lens = append(lens, extra...)
		for _, L := range lens {
			content := pu.Msg(L+1, L)
			c.Add("evaluations", 2)
			c.DistinctS("nontrivial", fmt.Sprintf("dense/%s/%d", algName, L))
			c.Guard("envelope-panic:dense-sm2", fmt.Sprintf("SM2 envelope %s |content|=%d", algName, L), nil, func() {
				env, err := gx509.PKCS7EncryptSM2(content, []*gx509.Certificate{sm.cert}, L%2)
				if err != nil {
					c.Violate(fmt.Sprintf("envelope-encrypt-error:sm2:%s:L=%d", algName, L), err.Error(), nil, nil)
					return
				}
				p7, err := gx509.ParsePKCS7(env)
				if err != nil {
					c.Violate(fmt.Sprintf("envelope-parse:sm2:%s:dense", algName), fmt.Sprintf("own %s envelope of a %d-byte content does not parse: %v", algName, L, err), nil, nil)
					return
				}
				pt, err := p7.DecryptSM2(sm.cert, sm.sm2, L%2)
				if err != nil || !bytes.Equal(pt, content) {
					c.Violate(fmt.Sprintf("envelope-recipient-fails:sm2:%s:dense", algName), fmt.Sprintf("%s SM2 envelope of a %d-byte content: recipient recovers %s (err %v)", algName, L, pu.Hex(pt), err), nil, nil)
				}
			})
			c.Guard("envelope-panic:dense-rsa", fmt.Sprintf("RSA envelope %s |content|=%d", algName, L), nil, func() {
				env, err := gx509.PKCS7Encrypt(content, []*gx509.Certificate{rs.cert})
				if err != nil {
					c.Violate(fmt.Sprintf("envelope-encrypt-error:rsa:%s:L=%d", algName, L), err.Error(), nil, nil)
					return
				}
				p7, err := gx509.ParsePKCS7(env)
				if err != nil {
					c.Violate(fmt.Sprintf("envelope-parse:rsa:%s:dense", algName), fmt.Sprintf("own %s envelope of a %d-byte content does not parse: %v", algName, L, err), nil, nil)
					return
				}
				pt, err := p7.Decrypt(rs.cert, rs.rsa)
				if err != nil || !bytes.Equal(pt, content) {
					c.Violate(fmt.Sprintf("envelope-recipient-fails:rsa:%s:dense", algName), fmt.Sprintf("%s RSA envelope of a %d-byte content: recipient recovers %s (err %v)", algName, L, pu.Hex(pt), err), nil, nil)
				}
			})
		}
		// attached signed data of every length too (content inside the container)
		if alg == gx509.EncryptionAlgorithmDESCBC {
			for _, L := range lens {
				content := pu.Msg(L+2, L)
				c.Add("evaluations", 1)
				sp := sdSpec{content: content, attrs: L%2 == 0, signer: sm, certInBag: sm.cert}
				c.Guard("signed-panic:dense", fmt.Sprintf("signed data |content|=%d", L), nil, func() {
					p7, err := gx509.ParsePKCS7(buildSigned(sp))
					if err == nil {
						err = p7.Verify()
					}
					if err != nil {
						c.Violate("signed-valid-rejected:dense", fmt.Sprintf("valid attached SM2 signed data with %d bytes of content rejected: %v", L, err), nil, nil)
					}
				})
			}
		}
		c.Sample(fmt.Sprintf("%s: every content length %d..%d plus %v, SM2 and RSA recipient, attached signed data", algName, lo, hi, extra))
	}}
}

// ---- signed data built by the harness in the GM/T 0010 layout ------------------------------

type attribute struct {
	Type  asn1.ObjectIdentifier
	Value asn1.RawValue `asn1:"set"`
}
type issuerAndSerial struct {
	IssuerName   asn1.RawValue
	SerialNumber *big.Int
}
type signerInfo struct {
	Version                   int `asn1:"default:1"`
	IssuerAndSerialNumber     issuerAndSerial
	DigestAlgorithm           pkix.AlgorithmIdentifier
	AuthenticatedAttributes   []attribute `asn1:"optional,tag:0"`
	DigestEncryptionAlgorithm pkix.AlgorithmIdentifier
	EncryptedDigest           []byte
}
type contentInfo struct {
	ContentType asn1.ObjectIdentifier
	Content     asn1.RawValue `asn1:"explicit,optional,tag:0"`
}
type rawCerts struct{ Raw asn1.RawContent }
type signedData struct {
	Version                    int                        `asn1:"default:1"`
	DigestAlgorithmIdentifiers []pkix.AlgorithmIdentifier `asn1:"set"`
	ContentInfo                contentInfo
	Certificates               rawCerts     `asn1:"optional,tag:0"`
	SignerInfos                []signerInfo `asn1:"set"`
}

var (
	oidData        = asn1.ObjectIdentifier{1, 2, 840, 113549, 1, 7, 1}
	oidSMSigned    = asn1.ObjectIdentifier{1, 2, 156, 10197, 6, 1, 4, 2, 2}
	oidSigned      = asn1.ObjectIdentifier{1, 2, 840, 113549, 1, 7, 2}
	oidHashSM3     = asn1.ObjectIdentifier{1, 2, 156, 10197, 1, 401}
	oidSM3withSM2  = asn1.ObjectIdentifier{1, 2, 156, 10197, 1, 501}
	oidSHA256      = asn1.ObjectIdentifier{2, 16, 840, 1, 101, 3, 4, 2, 1}
	oidDSASM2      = asn1.ObjectIdentifier{1, 2, 156, 10197, 1, 301, 1}
	oidContentType = asn1.ObjectIdentifier{1, 2, 840, 113549, 1, 9, 3}
	oidMsgDigest   = asn1.ObjectIdentifier{1, 2, 840, 113549, 1, 9, 4}
	oidSigningTime = asn1.ObjectIdentifier{1, 2, 840, 113549, 1, 9, 5}
)

func mkAttr(t asn1.ObjectIdentifier, v interface{}) attribute {
	b, err := asn1.Marshal(v)
	if err != nil {
		panic(err)
	}
	return attribute{Type: t, Value: asn1.RawValue{Tag: 17, IsCompound: true, Bytes: b}}
}

type sdSpec struct {
	content   []byte
	attrs     bool
	detached  bool
	sha256    bool
	signer    *ident
	certInBag *gx509.Certificate
	mutate    func(attrs []attribute, sig []byte, digest []byte) ([]attribute, []byte)
}

func buildSigned(sp sdSpec) []byte { return buildSignedMulti([]sdSpec{sp}) }

// signerInfoFor makes the SignerInfo of one signer over sp.content.
func signerInfoFor(sp sdSpec) (signerInfo, asn1.ObjectIdentifier) {
	digAlg, encAlg := oidHashSM3, oidSM3withSM2
	var digest []byte
	if sp.sha256 {
		digAlg, encAlg = oidSHA256, oidDSASM2
		d := sha256.Sum256(sp.content)
		digest = d[:]
	} else {
		digest = sm3.Sm3Sum(sp.content)
	}
	var attrs []attribute
	toSign := sp.content
	if sp.attrs {
		attrs = []attribute{mkAttr(oidContentType, oidData), mkAttr(oidSigningTime, time.Date(2024, 1, 2, 3, 4, 5, 0, time.UTC)), mkAttr(oidMsgDigest, digest)}
		enc, _ := asn1.Marshal(struct {
			A []attribute `asn1:"set"`
		}{attrs})
		var raw asn1.RawValue
		asn1.Unmarshal(enc, &raw)
		toSign = raw.Bytes
	}
	r, s, err := sm2.Sm2Sign(sp.signer.sm2, toSign, nil, rand.Reader)
	if err != nil {
		panic(err)
	}
	sig, _ := asn1.Marshal(struct{ R, S *big.Int }{r, s})
	if sp.mutate != nil {
		attrs, sig = sp.mutate(attrs, sig, digest)
	}
	return signerInfo{Version: 1, IssuerAndSerialNumber: issuerAndSerial{asn1.RawValue{FullBytes: sp.signer.cert.RawIssuer}, sp.signer.cert.SerialNumber},
		DigestAlgorithm: pkix.AlgorithmIdentifier{Algorithm: digAlg}, AuthenticatedAttributes: attrs, DigestEncryptionAlgorithm: pkix.AlgorithmIdentifier{Algorithm: encAlg}, EncryptedDigest: sig}, digAlg
}

// buildSignedMulti: one signed-data object over sps[0].content with one SignerInfo per spec (all
// specs share content and attached/detached form); the certificate bag holds every certInBag.
func buildSignedMulti(sps []sdSpec) []byte {
	var sis []signerInfo
	var digs []pkix.AlgorithmIdentifier
	var bag []byte
	for _, sp := range sps {
		si, dig := signerInfoFor(sp)
		sis = append(sis, si)
		dup := false
		for _, d := range digs {
			dup = dup || d.Algorithm.Equal(dig)
		}
		if !dup {
			digs = append(digs, pkix.AlgorithmIdentifier{Algorithm: dig})
		}
		bag = append(bag, sp.certInBag.Raw...)
	}
	ci := contentInfo{ContentType: oidData}
	if !sps[0].detached {
		cb, _ := asn1.Marshal(sps[0].content)
		ci.Content = asn1.RawValue{Class: 2, Tag: 0, Bytes: cb, IsCompound: true}
	}
	cv := asn1.RawValue{Class: 2, Tag: 0, Bytes: bag, IsCompound: true}
	cvb, _ := asn1.Marshal(cv)
	sd := signedData{Version: 1, DigestAlgorithmIdentifiers: digs, ContentInfo: ci, Certificates: rawCerts{cvb}, SignerInfos: sis}
	inner, err := asn1.Marshal(sd)
	if err != nil {
		panic(err)
	}
	outer, _ := asn1.Marshal(contentInfo{ContentType: oidSMSigned, Content: asn1.RawValue{Class: 2, Tag: 0, Bytes: inner, IsCompound: true}})
	return outer
}

// multiSignerUnit: objects with two and three signers. Verify must accept the genuine object and
// refuse it as soon as ANY ONE signer's contribution is wrong (signature, digest attribute,
// certificate for another key), whichever position that signer has.
func multiSignerUnit() harness.Unit {
	return harness.Unit{Name: "signed-data/several-signers", Run: func(c *harness.Ctx) {
		ids := identities()
		other := ids[2].cert // a certificate for another key
		faults := []struct {
			name string
			mut  func(sp *sdSpec)
		}{
			{"signature bit flipped", func(sp *sdSpec) {
				sp.mutate = func(a []attribute, sig, d []byte) ([]attribute, []byte) {
					s2 := append([]byte{}, sig...)
					s2[len(s2)-1] ^= 1
					return a, s2
				}
			}},
			{"signature of other content", func(sp *sdSpec) { sp.content = append(append([]byte{}, sp.content...), 'x') }},
			{"signer certificate for another key", func(sp *sdSpec) {
				// the SignerInfo names (and the bag carries) a certificate whose key did not sign
				cp := *sp.signer
				cp.cert = other
				sp.signer = &cp
				sp.certInBag = other
			}},
		}
		for _, n := range []int{2, 3} {
			for _, attrs := range []bool{false, true} {
				for _, det := range []bool{false, true} {
					content := []byte("content signed by several parties")
					mk := func() []sdSpec {
						var sps []sdSpec
						for k := 0; k < n; k++ {
							sps = append(sps, sdSpec{content: content, attrs: attrs, detached: det, sha256: k == 1, signer: ids[k%2], certInBag: ids[k%2].cert})
						}
						return sps
					}
					verify := func(der []byte) (err error, panicked bool) {
						panicked = c.Guard("signed-panic:several-signers", "ParsePKCS7/Verify with several signers", nil, func() {
							p7, e := gx509.ParsePKCS7(der)
							if e != nil {
								err = e
								return
							}
							if det {
								p7.Content = content
							}
							err = p7.Verify()
						})
						return
					}
					tag := fmt.Sprintf("%d signers, attributes=%v, detached=%v", n, attrs, det)
					c.Add("evaluations", 1)
					c.DistinctS("nontrivial", tag)
					if err, pk := verify(buildSignedMulti(mk())); !pk && err != nil {
						c.Violate("signed-valid-rejected:several-signers", fmt.Sprintf("[%s] genuine object rejected: %v", tag, err), nil, nil)
						continue
					}
					for pos := 0; pos < n; pos++ {
						for _, f := range faults {
							if f.name == "signer certificate for another key" && ids[pos%2].cert == other {
								continue
							}
							sps := mk()
							f.mut(&sps[pos])
							c.Add("evaluations", 1)
							c.DistinctS("nontrivial", fmt.Sprintf("%s/%d/%s", tag, pos, f.name))
							if err, pk := verify(buildSignedMulti(sps)); !pk && err == nil {
								c.Violate(fmt.Sprintf("signed-tampered-accepted:several-signers:%s", f.name), fmt.Sprintf("[%s] signer %d of %d: %s - Verify returns nil", tag, pos+1, n, f.name), nil, nil)
							}
						}
					}
				}
			}
		}
		c.Sample("2 and 3 signers (alternating identities and digest algorithms) x attributes x detached; each of 3 faults at each signer position")
	}}
}

func signedUnit() harness.Unit {
	return harness.Unit{Name: "signed-data", Run: func(c *harness.Ctx) {
		ids := identities()
		signer := ids[0]
		// same issuer+serial, other key: a certificate the signer's key did not certify
		other := ids[1]
		imp := mkSM2Cert("sm2-0", 500, other.sm2)
		for _, L := range []int{0, 1, 16, 1000} {
			for _, attrs := range []bool{false, true} {
				for _, det := range []bool{false, true} {
					for _, sha := range []bool{false, true} {
						content := pu.Msg(L+3, L)
						base := sdSpec{content: content, attrs: attrs, detached: det, sha256: sha, signer: signer, certInBag: signer.cert}
						tag := fmt.Sprintf("|content|=%d attrs=%v detached=%v sha256=%v", L, attrs, det, sha)
						run := func(what string, sp sdSpec, setContent []byte, wantOK bool) {
							c.Add("evaluations", 1)
							c.DistinctS("nontrivial", tag+"/"+what)
							der := buildSigned(sp)
							var err error
							if c.Guard("signed-panic:"+what, "ParsePKCS7/Verify "+tag+" "+what, nil, func() {
								var p7 *gx509.PKCS7
								p7, err = gx509.ParsePKCS7(der)
								if err != nil {
									return
								}
								if sp.detached {
									p7.Content = setContent
								} else if setContent != nil && !bytes.Equal(setContent, sp.content) {
									p7.Content = setContent
								}
								err = p7.Verify()
							}) {
								return
							}
							if wantOK && err != nil {
								c.Violate(fmt.Sprintf("signed-valid-rejected:attrs=%v:detached=%v:sha256=%v", attrs, det, sha), fmt.Sprintf("[%s] valid SM2 signed data rejected: %v", tag, err), nil, nil)
							}
							if !wantOK && err == nil {
								c.Violate("signed-invalid-accepted:"+what, fmt.Sprintf("[%s] signed data verifies although %s", tag, what), nil, nil)
							}
						}
						// re-verification histories on ONE parsed object: every sequence of up to 3
						// (set Content, Verify) steps; the verdict depends on the current content only
						{
							alts := [][]byte{content, append(append([]byte{}, content...), 0x01), {}}
							if L > 0 {
								m := append([]byte{}, content...)
								m[L/2] ^= 1
								alts = append(alts, m)
							}
							der := buildSigned(base)
							n := len(alts)
							for seq := 0; seq < n*n*n; seq++ {
								steps := []int{seq % n, (seq / n) % n, seq / (n * n)}
								c.Add("evaluations", 1)
								c.DistinctS("nontrivial", fmt.Sprintf("%s/reverify/%v", tag, steps))
								c.Guard("signed-panic:reverify", "re-verification "+tag, nil, func() {
									p7, err := gx509.ParsePKCS7(der)
									if err != nil {
										return // reported by the one-shot case
									}
									for i, st := range steps {
										p7.Content = append([]byte{}, alts[st]...)
										err := p7.Verify()
										genuine := bytes.Equal(alts[st], content)
										if genuine && err != nil {
											c.Violate(fmt.Sprintf("signed-reverify:genuine-rejected:attrs=%v:detached=%v", attrs, det), fmt.Sprintf("[%s] step %d of content history %v on one parsed object: genuine content rejected: %v", tag, i, steps, err), nil, nil)
											return
										}
										if !genuine && err == nil {
											c.Violate(fmt.Sprintf("signed-reverify:other-content-accepted:attrs=%v:detached=%v", attrs, det), fmt.Sprintf("[%s] step %d of content history %v on one parsed object: content the signer never signed verifies", tag, i, steps), nil, nil)
											return
										}
									}
								})
							}
						}
						run("valid", base, content, true)
						run("content changed", base, append(append([]byte{}, content...), 0x01), false)
						if L > 0 {
							m := append([]byte{}, content...)
							m[L/2] ^= 1
							run("content bit flipped", base, m, false)
						}
						sp := base
						sp.mutate = func(a []attribute, sig, d []byte) ([]attribute, []byte) {
							s2 := append([]byte{}, sig...)
							s2[len(s2)-1] ^= 1
							return a, s2
						}
						run("signature changed", sp, content, false)
						sp = base
						sp.certInBag = imp
						run("signer certificate replaced by one for another key", sp, content, false)
						if attrs {
							sp = base
							sp.mutate = func(a []attribute, sig, d []byte) ([]attribute, []byte) {
								b := append([]attribute{}, a...)
								b[1] = mkAttr(oidSigningTime, time.Date(2025, 1, 2, 3, 4, 5, 0, time.UTC))
								return b, sig
							}
							run("signing-time attribute changed after signing", sp, content, false)
							sp = base
							sp.mutate = func(a []attribute, sig, d []byte) ([]attribute, []byte) {
								b := append([]attribute{}, a...)
								d2 := append([]byte{}, d...)
								d2[0] ^= 1
								b[2] = mkAttr(oidMsgDigest, d2)
								return b, sig
							}
							run("message-digest attribute changed after signing", sp, content, false)
							sp = base
							sp.mutate = func(a []attribute, sig, d []byte) ([]attribute, []byte) { return a[:2], sig }
							run("message-digest attribute removed", sp, content, false)
						}
					}
				}
			}
		}
		// the package's own creation path: RSA signer, with attributes (what NewSignedData/AddSigner produce)
		rsaID := ids[4]
		for _, det := range []bool{false, true} {
			content := []byte("signed by the package itself")
			c.Add("evaluations", 1)
			c.DistinctS("nontrivial", fmt.Sprintf("own-rsa/%v", det))
			var err error
			if c.Guard("signed-panic:own-rsa", "NewSignedData/AddSigner/Finish/ParsePKCS7/Verify", nil, func() {
				sd, e := gx509.NewSignedData(content)
				if e != nil {
					err = e
					return
				}
				if e = sd.AddSigner(rsaID.cert, rsaID.rsa, gx509.SignerInfoConfig{}); e != nil {
					err = e
					return
				}
				if det {
					sd.Detach()
				}
				der, e := sd.Finish()
				if e != nil {
					err = e
					return
				}
				p7, e := gx509.ParsePKCS7(der)
				if e != nil {
					err = e
					return
				}
				if det {
					p7.Content = content
				}
				err = p7.Verify()
			}) {
				continue
			}
			if err != nil {
				c.Violate("signed-valid-rejected:rsa-signer-created-by-package", fmt.Sprintf("signed data created by NewSignedData/AddSigner (RSA signer, detached=%v) is rejected by Verify: %v", det, err), nil, nil)
			}
		}
		_ = sha1.New
		c.Sample("SM2 signed data (SM3/SM2 and SHA256/SM2 OIDs) x content lengths {0,1,16,1000} x with/without signed attributes x attached/detached; 8 tamperings each; the package's own RSA creation path")
	}}
}

// ---- PKCS#12 ---------------------------------------------------------------------------

var p12Passwords = func() []string {
	l := []string{"", "123", "Passw0rd with spaces", "密码Ünïcode"}
	// long passwords: the PKCS#12 key derivation works on 64-byte blocks of the BMP-encoded password
	// (2 bytes per character plus a terminator), so 31, 32 and 33 characters sit around one block
	for _, n := range []int{31, 32, 33, 63, 64, 65, 200} {
		b := make([]byte, n)
		for i := range b {
			b[i] = byte('a' + (i*7+n)%26)
		}
		l = append(l, string(b))
	}
	return append(l, "密码密码密码密码密码密码密码密码密码密码密码密码密码密码密码密码密码密码") // 36 non-ASCII characters
}()

func samePriv(k interface{}, want *sm2.PrivateKey) bool {
	switch p := k.(type) {
	case *sm2.PrivateKey:
		return p.D.Cmp(want.D) == 0 && p.X.Cmp(want.X) == 0 && p.Y.Cmp(want.Y) == 0
	case interface{ Public() crypto.PublicKey }:
		// *ecdsa.PrivateKey on the SM2 curve
		type dk interface{ Public() crypto.PublicKey }
		_ = dk(p)
		return ecD(k).Cmp(want.D) == 0
	}
	return false
}

// p12ChainUnit: bundles that carry the issuing certificates as well. Encode accepts a list of CA
// certificates; DecodeAll must give back the key and every certificate that was put in (Decode, which
// is documented for exactly one certificate, may refuse such a bundle but must not return something
// else), and a wrong password is refused.
// stdCAs: three CA certificates of the kinds the Encode signature admits (crypto/x509 certificates:
// RSA and NIST curves).
func stdCAs() []*stdx509.Certificate {
	var out []*stdx509.Certificate
	for i := 0; i < 3; i++ {
		var pub interface{}
		var priv interface{}
		if i == 1 {
			k, _ := rsa.GenerateKey(rand.Reader, 2048)
			pub, priv = &k.PublicKey, k
		} else {
			k, _ := ecdsa.GenerateKey(elliptic.P256(), rand.Reader)
			pub, priv = &k.PublicKey, k
		}
		t := &stdx509.Certificate{SerialNumber: big.NewInt(int64(900 + i)), Subject: pkix.Name{CommonName: fmt.Sprintf("bundle CA %d", i)}, NotBefore: time.Date(2020, 1, 1, 0, 0, 0, 0, time.UTC), NotAfter: time.Date(2040, 1, 1, 0, 0, 0, 0, time.UTC), IsCA: true, BasicConstraintsValid: true, KeyUsage: stdx509.KeyUsageCertSign}
		der, err := stdx509.CreateCertificate(rand.Reader, t, t, pub, priv)
		if err != nil {
			panic(err)
		}
		c, err := stdx509.ParseCertificate(der)
		if err != nil {
			panic(err)
		}
		out = append(out, c)
	}
	return out
}

func p12ChainUnit() harness.Unit {
	return harness.Unit{Name: "pkcs12/with-ca-certificates", Run: func(c *harness.Ctx) {
		ids := identities()
		for ki := 0; ki < 2; ki++ {
			id := ids[ki]
			for nca := 0; nca <= 3; nca++ {
				cas := stdCAs()[:nca]
				for _, pw := range []string{"", "pw-chain"} {
					tag := fmt.Sprintf("key=%s, %d CA certificates, password=%q", id.name, nca, pw)
					c.Add("evaluations", 1)
					c.DistinctS("nontrivial", tag)
					var pfx []byte
					var err error
					if c.Guard("p12-panic:encode-chain", "pkcs12.Encode "+tag, nil, func() { pfx, err = pkcs12.Encode(id.sm2, id.cert, cas, pw) }) {
						continue
					}
					if err != nil {
						c.Violate("p12-chain-encode", fmt.Sprintf("[%s] Encode failed: %v", tag, err), nil, nil)
						continue
					}
					var k interface{}
					var certs []*gx509.Certificate
					if c.Guard("p12-panic:decode-chain", "pkcs12.DecodeAll "+tag, nil, func() { k, certs, err = pkcs12.DecodeAll(pfx, pw) }) {
						continue
					}
					if err != nil {
						c.Violate("p12-chain-roundtrip", fmt.Sprintf("[%s] DecodeAll with the right password fails: %v", tag, err), nil, nil)
						continue
					}
					want := [][]byte{id.cert.Raw}
					for _, ca := range cas {
						want = append(want, ca.Raw)
					}
					okc := len(certs) == len(want)
					for _, w := range want {
						found := false
						for _, g := range certs {
							found = found || bytes.Equal(g.Raw, w)
						}
						okc = okc && found
					}
					if !samePriv(k, id.sm2) || !okc {
						c.Violate("p12-chain-content", fmt.Sprintf("[%s] DecodeAll returns %d certificates (want %d, all that were put in) and the right key=%v", tag, len(certs), len(want), samePriv(k, id.sm2)), nil, nil)
					}
					if _, _, err := pkcs12.DecodeAll(pfx, pw+"x"); err == nil {
						c.Violate("p12-wrong-password-accepted", fmt.Sprintf("[%s] bundle decoded with a wrong password", tag), nil, nil)
					}
					c.Guard("p12-panic:decode-single", "pkcs12.Decode "+tag, nil, func() {
						k1, c1, err := pkcs12.Decode(pfx, pw)
						if err == nil && (!samePriv(k1, id.sm2) || c1 == nil || !bytes.Equal(c1.Raw, id.cert.Raw)) {
							c.Violate("p12-chain-decode-single", fmt.Sprintf("[%s] Decode returns no error but not the key and leaf that were put in", tag), nil, nil)
						}
					})
				}
			}
		}
		c.Sample("2 identities x 0..3 CA certificates x 2 passwords: Encode, DecodeAll (all certificates back), wrong password, Decode")
	}}
}

func p12Unit(pi int) harness.Unit {
	return harness.Unit{Name: fmt.Sprintf("pkcs12/password%d", pi), Run: func(c *harness.Ctx) {
		ids := identities()
		pw := p12Passwords[pi]
		for ki := 0; ki < 2; ki++ {
			id := ids[ki]
			tag := fmt.Sprintf("key=%s password=%q", id.name, pw)
			c.Add("evaluations", 1)
			c.DistinctS("nontrivial", tag)
			var pfx []byte
			var err error
			if c.Guard("p12-panic:encode", "pkcs12.Encode "+tag, nil, func() { pfx, err = pkcs12.Encode(id.sm2, id.cert, nil, pw) }) {
				continue
			}
			if err != nil {
				c.Violate("p12-encode-error", fmt.Sprintf("[%s] %v", tag, err), nil, nil)
				continue
			}
			// DecodeAll
			check := func(what string, data []byte, password string) (ok bool, diff bool, err error) {
				var k interface{}
				var certs []*gx509.Certificate
				if c.Guard("p12-panic:decode:"+what, "pkcs12.DecodeAll "+what+" ["+tag+"]", nil, func() { k, certs, err = pkcs12.DecodeAll(data, password) }) {
					return false, false, fmt.Errorf("panic")
				}
				if err != nil {
					return false, false, err
				}
				if !samePriv(k, id.sm2) || len(certs) != 1 || !bytes.Equal(certs[0].Raw, id.cert.Raw) {
					return true, true, nil
				}
				return true, false, nil
			}
			if ok, diff, err := check("right password", pfx, pw); !ok || diff {
				c.Violate("p12-roundtrip", fmt.Sprintf("[%s] DecodeAll with the right password: ok=%v different=%v err=%v", tag, ok, diff, err), nil, nil)
				continue
			}
			// ToPEM
			c.Guard("p12-panic:topem", "pkcs12.ToPEM "+tag, nil, func() {
				blocks, err := pkcs12.ToPEM(pfx, pw)
				if err != nil {
					c.Violate("p12-topem-error", fmt.Sprintf("[%s] %v", tag, err), nil, nil)
					return
				}
				var haveCert, haveKey bool
				for _, b := range blocks {
					if b.Type == "CERTIFICATE" && bytes.Equal(b.Bytes, id.cert.Raw) {
						haveCert = true
					}
					if b.Type == "PRIVATE KEY" || b.Type == "EC PRIVATE KEY" || b.Type == "SM2 PRIVATE KEY" {
						haveKey = true
					}
				}
				if !haveCert || !haveKey {
					c.Violate("p12-topem-content", fmt.Sprintf("[%s] ToPEM blocks lack the certificate or key: %v", tag, blockTypes(blocks)), nil, nil)
				}
			})
			// every other password
			wrong := append([]string{pw + "x", pw + " ", "X" + pw}, p12Passwords...)
			if r := []rune(pw); len(r) > 1 {
				// one character changed at the end, in the middle, right after the 32nd; cut to 32 / 31 characters
				for _, at := range []int{len(r) - 1, len(r) / 2, 32, 33} {
					if at < len(r) {
						q := append([]rune{}, r...)
						q[at]++
						wrong = append(wrong, string(q))
					}
				}
				for _, cut := range []int{31, 32, 33} {
					if cut < len(r) {
						wrong = append(wrong, string(r[:cut]))
					}
				}
			}
			for _, w := range wrong {
				if w == pw {
					continue
				}
				c.Add("evaluations", 1)
				if ok, _, _ := check("wrong password", pfx, w); ok {
					c.Violate("p12-wrong-password-accepted", fmt.Sprintf("[%s] bundle decoded with password %q", tag, w), nil, nil)
				}
			}
			c.Guard("p12-panic:topem-wrong-password", "pkcs12.ToPEM with a wrong password "+tag, nil, func() {
				if blocks, err := pkcs12.ToPEM(pfx, pw+"x"); err == nil {
					c.Violate("p12-topem-wrong-password-accepted", fmt.Sprintf("[%s] ToPEM with a wrong password returned %d blocks and no error", tag, len(blocks)), nil, nil)
				}
			})
			if len(pw) > 0 {
				if ok, _, _ := check("wrong password", pfx, pw[:len(pw)-1]); ok {
					c.Violate("p12-wrong-password-accepted", fmt.Sprintf("[%s] bundle decoded with a truncated password", tag), nil, nil)
				}
			}
			// fault enumeration: every byte x {b^1, b^0x80, 00, ff}, every truncation
			if ki == 0 && pi < 4 {
				subs := 0
				for i := 0; i < len(pfx); i++ {
					for _, v := range []byte{pfx[i] ^ 1, pfx[i] ^ 0x80, 0x00, 0xff} {
						if v == pfx[i] {
							continue
						}
						if !c.Thorough() && v != pfx[i]^1 && i%4 != 0 {
							continue // quick: b^1 everywhere, the other three substitutions at every 4th position
						}
						bad := append([]byte{}, pfx...)
						bad[i] = v
						c.Add("evaluations", 1)
						c.Distinct("nontrivial", bad)
						subs++
						if ok, diff, _ := check("corrupted", bad, pw); ok && diff {
							c.Violate("p12-corruption-changes-content", fmt.Sprintf("[%s] byte %d %02x->%02x makes the bundle decode to a DIFFERENT key or certificate", tag, i, pfx[i], v), nil, nil)
						}
					}
				}
				for n := 0; n < len(pfx); n++ {
					c.Add("evaluations", 1)
					if ok, diff, _ := check("truncated", pfx[:n], pw); ok && diff {
						c.Violate("p12-truncation-changes-content", fmt.Sprintf("[%s] truncated to %d bytes decodes to different content", tag, n), nil, nil)
					}
				}
			}
			// second-order edits: the integrity field itself is edited (made unrecognisable, removed,
			// emptied), and under each such edit every byte of the bundle is flipped in turn
			if ki == 0 && pi < 4 {
				for _, me := range macEdits(pfx) {
					c.Add("evaluations", 1)
					if ok, diff, _ := check("integrity field "+me.name, me.data, pw); ok && diff {
						c.Violate("p12-corruption-changes-content:integrity-field-"+me.name, fmt.Sprintf("[%s] with the integrity field %s the bundle decodes to a DIFFERENT key or certificate", tag, me.name), nil, nil)
					}
					for i := 0; i < len(me.data); i++ {
						bad := append([]byte{}, me.data...)
						bad[i] ^= 1
						c.Add("evaluations", 1)
						c.Distinct("nontrivial", bad)
						if ok, diff, _ := check("integrity field "+me.name+" + byte flip", bad, pw); ok && diff {
							c.Violate("p12-corruption-changes-content:integrity-field-"+me.name+"+byte-flip", fmt.Sprintf("[%s] with the integrity field %s and byte %d flipped (%02x->%02x) the bundle decodes to a DIFFERENT key or certificate", tag, me.name, i, me.data[i], bad[i]), nil, nil)
							break
						}
					}
				}
			}
			if c.WantSample() {
				c.Sample(tag + fmt.Sprintf(" (%d-byte bundle)", len(pfx)))
			}
		}
	}}
}

type macEdit struct {
	name string
	data []byte
}

// macEdits: the bundle with its last top-level element (the integrity field) given another tag,
// removed, replaced by an empty SEQUENCE, or with its digest emptied; outer lengths re-encoded.
func macEdits(pfx []byte) []macEdit {
	var outer asn1.RawValue
	if _, err := asn1.Unmarshal(pfx, &outer); err != nil {
		return nil
	}
	var kids []asn1.RawValue
	rest := outer.Bytes
	for len(rest) > 0 {
		var rv asn1.RawValue
		var err error
		if rest, err = asn1.Unmarshal(rest, &rv); err != nil {
			return nil
		}
		kids = append(kids, rv)
	}
	if len(kids) != 3 {
		return nil
	}
	wrap := func(parts ...[]byte) []byte {
		var body []byte
		for _, p := range parts {
			body = append(body, p...)
		}
		out, _ := asn1.Marshal(asn1.RawValue{Class: 0, Tag: 16, IsCompound: true, Bytes: body})
		return out
	}
	v, a, m := kids[0].FullBytes, kids[1].FullBytes, kids[2].FullBytes
	retag := append([]byte{}, m...)
	retag[0] = 0x31
	ctx := append([]byte{}, m...)
	ctx[0] = 0xa1
	// the digest is the last OCTET STRING inside DigestInfo, the first element of MacData
	var out []macEdit
	out = append(out,
		macEdit{"given-the-SET-tag", wrap(v, a, retag)},
		macEdit{"given-a-context-tag", wrap(v, a, ctx)},
		macEdit{"removed", wrap(v, a)},
		macEdit{"replaced-by-an-empty-SEQUENCE", wrap(v, a, []byte{0x30, 0x00})},
	)
	return out
}

func blockTypes(bs []*pem.Block) []string {
	var t []string
	for _, b := range bs {
		t = append(t, b.Type)
	}
	return t
}

// Prop registers C17.
var Prop = &harness.Prop{
	ID:          "C17",
	Level:       "exploration",
	Rule:        "enveloped data: every content length 0..300 and around 65280..65536 with one SM2 and one RSA recipient for both content algorithms (DER length-encoding boundaries inside the container), attached signed data of the same lengths; full product content lengths {0,1,7,8,9,15,16,17,1000,65536} x content algorithm {DES-CBC, AES-128-GCM} x {SM2 C1C3C2, SM2 C1C2C3, RSA} x 1..3 recipients: each recipient recovers the content; another key, a non-recipient certificate, the other ordering and a key of the wrong type must give an error (not a panic). signed data: SM2 objects built by the harness in the GM/T 0010 layout over lengths x attributes x attached/detached x both OID pairs verify, and each of 8 tamperings (content, signature, signer certificate, each signed attribute) is rejected; the package's own RSA creation path must verify; objects with 2 and 3 signers (alternating identities and digest algorithms) verify, and each of 3 faults at each signer position is rejected. PKCS#12: 2 SM2 identities x 12 passwords (empty, ASCII, spaces, non-ASCII, 31/32/33/63/64/65/200 characters, 36 non-ASCII characters): round trip through DecodeAll/ToPEM, every other password refused (also one character changed at the end / in the middle / after the 32nd, cut to 31/32/33 characters); bundles with 0..3 CA certificates give back every certificate through DecodeAll; fault enumeration over one bundle per password: every byte substitution and every truncation gives an error or the same content. Distinct/non-trivial = distinct case labels / mutated bundles. PKCS#12 second-order edits: the integrity field given the SET tag / a context tag / removed / replaced by an empty SEQUENCE (outer length re-encoded), alone and combined with a flip of every byte of the bundle: decode fails or returns the same key and certificate.",
	Assumptions: []string{"the PKCS#7 content-encryption selector is a process-wide setting changed only between units (single-threaded)", "RSA recipient certificates come from Go's crypto/x509"},
	Bounds: func(tier string) string {
		if tier == "thorough" {
			return "complete; PKCS#12 byte faults with all four substitutions at every position"
		}
		return "complete; PKCS#12 byte faults: b^1 at every position, the other three substitutions at every 4th position, every truncation"
	},
	Units: func(tier string) []harness.Unit {
		u := []harness.Unit{envelopeUnit(gx509.EncryptionAlgorithmDESCBC), envelopeUnit(gx509.EncryptionAlgorithmAES128GCM), signedUnit(), multiSignerUnit(), p12ChainUnit()}
		big := []int{65200, 65279, 65280, 65281, 65400, 65527, 65535, 65536, 65537}
		for _, alg := range []int{gx509.EncryptionAlgorithmDESCBC, gx509.EncryptionAlgorithmAES128GCM} {
			for lo := 0; lo <= 300; lo += 76 {
				hi := lo + 75
				if hi > 300 {
					hi = 300
				}
				ex := []int(nil)
				if lo == 0 {
					ex = big
				}
				u = append(u, denseUnit(alg, lo, hi, ex))
			}
		}
		for i := range p12Passwords {
			u = append(u, p12Unit(i))
		}
		return u
	},
}
