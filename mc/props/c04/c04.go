// Package c04: SM3 over every chunking and call history (DESIGN §3 C04).
package c04

import (
	"bytes"
	"crypto/hmac"
	"fmt"
	"hash"

	"github.com/tjfoc/gmsm/sm3"
	"golang.org/x/crypto/pbkdf2"

	"verif/mc/harness"
	"verif/mc/props/pu"
	"verif/mc/ref/refsm3"
	"verif/mc/xp"
)

var writeLens = []int{0, 1, 3, 55, 56, 63, 64, 65, 119, 128}

const (
	opSumNil  = 10
	opSumPfx  = 11 // 3-byte prefix, no spare capacity
	opSumPfxC = 12 // 3-byte prefix with 64 bytes of spare capacity
	opReset   = 13
	nOps      = 14
)

func opName(op int) string {
	switch {
	case op < len(writeLens):
		return fmt.Sprintf("Write(%d)", writeLens[op])
	case op == opSumNil:
		return "Sum(nil)"
	case op == opSumPfx:
		return "Sum(prefix3)"
	case op == opSumPfxC:
		return "Sum(prefix3+cap64)"
	}
	return "Reset"
}

func seqName(ops []int) string {
	s := ""
	for i, o := range ops {
		if i > 0 {
			s += ","
		}
		s += opName(o)
	}
	return s
}

// history runs one operation sequence on a fresh object against the byte-slice model.
// It returns a violation key/description or "".
type histState struct {
	h     hash.Hash
	model []byte
	pos   int // absolute position counter: bytes differ after a Reset as well
	// every slice a Sum call handed out, with a private copy of what it held then: the result belongs
	// to the caller and no later call on the object may change it
	handed [][2][]byte
}

func (st *histState) handedIntact() (string, string) {
	for i, h := range st.handed {
		if !bytes.Equal(h[0], h[1]) {
			return "earlier-sum-result-changed", fmt.Sprintf("the slice returned by Sum call %d held %s and now holds %s", i+1, pu.Hex(h[1]), pu.Hex(h[0]))
		}
	}
	return "", ""
}

func checkSum(c *harness.Ctx, st *histState, op int) (key, desc string) {
	want := refsm3.Sum(st.model)
	var in []byte
	var can *pu.Canary
	switch op {
	case opSumNil:
		in = nil
	case opSumPfx:
		can = pu.NewCanary([]byte{0xC1, 0xC2, 0xC3}, 0)
		in = can.Slice()
	case opSumPfxC:
		can = pu.NewCanary([]byte{0xC1, 0xC2, 0xC3}, 64)
		in = can.Slice()
	}
	out := st.h.Sum(in)
	st.handed = append(st.handed, [2][]byte{out, append([]byte{}, out...)})
	exp := append(append([]byte{}, in...), want[:]...)
	if !bytes.Equal(out, exp) {
		if len(out) == 32 && bytes.Equal(out, want[:]) && len(in) > 0 {
			return "sum-drops-prefix", fmt.Sprintf("Sum(prefix) returned only the digest (%d bytes) instead of prefix||digest", len(out))
		}
		if len(in) > 0 && len(out) >= 32 {
			wrongState := refsm3.Sum(append(append([]byte{}, st.model...), in...))
			if bytes.Equal(out[len(out)-32:], wrongState[:]) {
				return "sum-hashes-prefix", "Sum(prefix) hashed the prefix into the message"
			}
		}
		return "sum-wrong-digest", fmt.Sprintf("Sum returned %s, want %s (message length %d)", pu.Hex(out), pu.Hex(exp), len(st.model))
	}
	if can != nil {
		// the prefix bytes themselves and everything beyond prefix+32 must be untouched
		b := can.Slice()
		if !bytes.Equal(b, []byte{0xC1, 0xC2, 0xC3}) {
			return "sum-clobbers-prefix", "Sum changed the caller's prefix bytes"
		}
		full := b[:cap(b)]
		for i := 3 + 32; i < len(full); i++ {
			if full[i] != 0xA5 {
				return "sum-writes-beyond", fmt.Sprintf("Sum wrote into the caller's capacity beyond prefix+32 (offset %d)", i)
			}
		}
	}
	return "", ""
}

// reduced alphabet for the deeper exploration
var reducedOps = []int{1, 5, 6, 7, opSumNil, opSumPfx, opSumPfxC, opReset}

func runHistory(c *harness.Ctx, first int, depth int, x *xp.X, alphabet []int) (ops []int, key, desc string) {
	st := &histState{h: sm3.New()}
	for step := 0; step < depth; step++ {
		op := first
		if step > 0 {
			if alphabet != nil {
				op = alphabet[x.Pick(len(alphabet), "op")]
			} else {
				op = x.Pick(nOps, "op")
			}
		}
		ops = append(ops, op)
		c.Add("transitions", 1)
		switch {
		case op < len(writeLens):
			n := writeLens[op]
			p := pu.Msg(st.pos, n)
			keep := append([]byte(nil), p...)
			wn, err := st.h.Write(p)
			if wn != n || err != nil {
				return ops, "write-return", fmt.Sprintf("Write(%d bytes) returned (%d,%v)", n, wn, err)
			}
			if !bytes.Equal(p, keep) {
				return ops, "write-modifies-input", "Write modified its argument"
			}
			for i := range p { // the caller reuses its buffer: the hash must not alias it
				p[i] = 0xEE
			}
			st.model = append(st.model, keep...)
			st.pos += n
		case op == opReset:
			st.h.Reset()
			st.model = st.model[:0]
		default:
			if k, d := checkSum(c, st, op); k != "" {
				return ops, k, d
			}
		}
	}
	// implicit final Sum(nil): shows that the state was not disturbed by anything before
	c.Add("transitions", 1)
	if k, d := checkSum(c, st, opSumNil); k != "" {
		return ops, k + "-final", d
	}
	if k, d := st.handedIntact(); k != "" {
		return ops, k, d
	}
	return ops, "", ""
}

func histUnit(first, depth int, alphabet []int) harness.Unit {
	nm := "hist"
	if alphabet != nil {
		nm = "hist-reduced"
	}
	return harness.Unit{Name: fmt.Sprintf("%s/first=%s/depth=%d", nm, opName(first), depth), Run: func(c *harness.Ctx) {
		c.Explore(-1, func(x *xp.X) {
			ops, key, desc := runHistory(c, first, depth, x, alphabet)
			c.DistinctS("outcomes", key)
			if c.WantSample() {
				c.Sample(seqName(ops))
			}
			if key != "" {
				// canonical key: the violation class plus the shortest-form description of the op that failed
				c.Violate("hist:"+key+":"+opName(ops[len(ops)-1]), desc+" after history ["+seqName(ops)+"]", x.Choices, seqName(ops))
			}
		}, nil)
		// states of the model: (message length) reachable; counted as distinct lengths seen at Sum
	}}
}

func one(data []byte) []byte {
	h := sm3.New()
	h.Write(data)
	return h.Sum(nil)
}

func splitUnit(lo, hi int) harness.Unit {
	return harness.Unit{Name: fmt.Sprintf("split2/L=%d..%d", lo, hi), Run: func(c *harness.Ctx) {
		for L := lo; L <= hi; L++ {
			msg := pu.Msg(0, L)
			want := refsm3.Sum(msg)
			for s := 0; s <= L; s++ {
				h := sm3.New()
				h.Write(msg[:s])
				h.Write(msg[s:])
				got := h.Sum(nil)
				c.Add("executions", 1)
				c.Add("transitions", 3)
				if !bytes.Equal(got, want[:]) {
					c.Violate(fmt.Sprintf("split2:L=%d:s=%d", L, s), fmt.Sprintf("digest of %d bytes written as %d+%d is wrong", L, s, L-s), nil, nil)
				}
			}
			c.DistinctS("states", fmt.Sprint(L))
		}
		c.Sample(fmt.Sprintf("every split point of every length %d..%d", lo, hi))
	}}
}

func split3Unit(lo, hi int) harness.Unit {
	return harness.Unit{Name: fmt.Sprintf("split3/L=%d..%d", lo, hi), Run: func(c *harness.Ctx) {
		for L := lo; L <= hi; L++ {
			msg := pu.Msg(0, L)
			want := refsm3.Sum(msg)
			for s := 0; s <= L; s++ {
				for t := s; t <= L; t++ {
					h := sm3.New()
					h.Write(msg[:s])
					h.Write(msg[s:t])
					h.Write(msg[t:])
					got := h.Sum(nil)
					c.Add("executions", 1)
					c.Add("transitions", 4)
					if !bytes.Equal(got, want[:]) {
						c.Violate(fmt.Sprintf("split3:L=%d:s=%d:t=%d", L, s, t), fmt.Sprintf("digest of %d bytes written as %d+%d+%d is wrong", L, s, t-s, L-t), nil, nil)
					}
				}
			}
		}
		c.Sample(fmt.Sprintf("every pair of split points of every length %d..%d", lo, hi))
	}}
}

func oneShotUnit(lo, hi int) harness.Unit {
	return harness.Unit{Name: fmt.Sprintf("oneshot/L=%d..%d", lo, hi), Run: func(c *harness.Ctx) {
		for L := lo; L <= hi; L++ {
			msg := pu.Msg(0, L)
			can := pu.NewCanary(msg, 96)
			want := refsm3.Sum(msg)
			got1 := sm3.Sm3Sum(can.Slice())
			got2 := one(can.Slice())
			c.Add("executions", 2)
			c.Add("transitions", 3)
			if !bytes.Equal(got1, want[:]) {
				c.Violate(fmt.Sprintf("oneshot:Sm3Sum:L=%d", L), fmt.Sprintf("Sm3Sum of %d bytes = %s, want %s", L, pu.Hex(got1), pu.Hex(want[:])), nil, nil)
			}
			if !bytes.Equal(got2, want[:]) {
				c.Violate(fmt.Sprintf("oneshot:New:L=%d", L), fmt.Sprintf("New/Write/Sum of %d bytes = %s, want %s", L, pu.Hex(got2), pu.Hex(want[:])), nil, nil)
			}
			if d := can.Check(); d != "" {
				c.Violate(fmt.Sprintf("oneshot:input-written:L=%d", L), "hashing wrote to the caller's input: "+d, nil, nil)
			}
			c.DistinctS("states", fmt.Sprint(L))
		}
		c.Sample(fmt.Sprintf("Sm3Sum and New+Write+Sum for every length %d..%d", lo, hi))
	}}
}

func streamUnit(total, chunk int) harness.Unit {
	return harness.Unit{Name: fmt.Sprintf("stream/%d/by%d", total, chunk), Run: func(c *harness.Ctx) {
		msg := pu.Msg(0, total)
		want := refsm3.Sum(msg)
		h := sm3.New()
		for off := 0; off < total; off += chunk {
			end := off + chunk
			if end > total {
				end = total
			}
			h.Write(msg[off:end])
			c.Add("transitions", 1)
		}
		got := h.Sum(nil)
		c.Add("executions", 1)
		if !bytes.Equal(got, want[:]) {
			c.Violate(fmt.Sprintf("stream:%d:by%d", total, chunk), "digest of a long stream is wrong", nil, nil)
		}
		// the digest can be asked again and the stream continued
		h.Write(msg[:1000])
		want2 := refsm3.Sum(append(append([]byte{}, msg...), msg[:1000]...))
		if got := h.Sum(nil); !bytes.Equal(got, want2[:]) {
			c.Violate(fmt.Sprintf("stream-continue:%d:by%d", total, chunk), "continuing a long stream after Sum gives a wrong digest", nil, nil)
		}
		c.Sample(fmt.Sprintf("%d bytes in writes of %d", total, chunk))
	}}
}

// bigWriteUnit: ONE Write (and the one-shot function) with 2^k-1, 2^k and 2^k+1 bytes, on an empty
// object and after 1 or 63 pending bytes. Chunked streams never hand the implementation an argument
// larger than the chunk; this does.
func bigWriteUnit(k int) harness.Unit {
	return harness.Unit{Name: fmt.Sprintf("big-write/2^%d", k), Run: func(c *harness.Ctx) {
		msg := pu.Msg(k, (1<<k)+1+63)
		for _, n := range []int{(1 << k) - 1, 1 << k, (1 << k) + 1} {
			for _, pre := range []int{0, 1, 63} {
				want := refsm3.Sum(msg[:pre+n])
				h := sm3.New()
				h.Write(msg[:pre])
				if w, err := h.Write(msg[pre : pre+n]); w != n || err != nil {
					c.Violate(fmt.Sprintf("big-write-count:2^%d", k), fmt.Sprintf("Write of %d bytes returns (%d, %v)", n, w, err), nil, nil)
				}
				c.Add("transitions", 2)
				c.Add("executions", 1)
				if got := h.Sum(nil); !bytes.Equal(got, want[:]) {
					c.Violate(fmt.Sprintf("big-write:2^%d%+d:after%d", k, n-(1<<k), pre), fmt.Sprintf("digest after %d pending bytes and one Write of %d bytes is %x, GM/T 0004 gives %x", pre, n, got, want), nil, nil)
				}
				if pre == 0 {
					if got := sm3.Sm3Sum(msg[:n]); !bytes.Equal(got, want[:]) {
						c.Violate(fmt.Sprintf("big-one-shot:2^%d%+d", k, n-(1<<k)), fmt.Sprintf("one-shot digest of %d bytes is %x, GM/T 0004 gives %x", n, got, want), nil, nil)
					}
					a, b := hmac.New(sm3.New, msg[:40]), hmac.New(refsm3.New, msg[:40])
					a.Write(msg[:n])
					b.Write(msg[:n])
					if !bytes.Equal(a.Sum(nil), b.Sum(nil)) {
						c.Violate(fmt.Sprintf("big-hmac:2^%d%+d", k, n-(1<<k)), fmt.Sprintf("HMAC-SM3 over one Write of %d bytes differs from its definition", n), nil, nil)
					}
				}
			}
		}
		c.Sample(fmt.Sprintf("single Writes of 2^%d-1, 2^%d, 2^%d+1 bytes after 0/1/63 pending bytes; one-shot; HMAC", k, k, k))
	}}
}

func consumersUnit() harness.Unit {
	return harness.Unit{Name: "consumers/hmac+pbkdf2", Run: func(c *harness.Ctx) {
		if sm3.New().Size() != 32 || sm3.New().BlockSize() != 64 {
			c.Violate("size-constants", "Size/BlockSize are not 32/64", nil, nil)
		}
		klens := []int{0, 1, 31, 32, 63, 64, 65, 128, 200}
		mlens := []int{0, 1, 55, 56, 63, 64, 65, 119, 120, 128, 1000}
		for _, kl := range klens {
			key := pu.Msg(1000, kl)
			for _, ml := range mlens {
				msg := pu.Msg(77, ml)
				for _, pfx := range [][]byte{nil, {9, 8, 7}} {
					a := hmac.New(sm3.New, key)
					b := hmac.New(refsm3.New, key)
					// split the message in two writes
					a.Write(msg[:ml/2])
					a.Write(msg[ml/2:])
					b.Write(msg)
					ga, gb := a.Sum(pfx), b.Sum(pfx)
					c.Add("executions", 1)
					if !bytes.Equal(ga, gb) {
						k := "hmac"
						if pfx != nil {
							k = "hmac-sum-prefix"
						}
						c.Violate(fmt.Sprintf("%s:k=%d:m=%d", k, kl, ml), fmt.Sprintf("HMAC-SM3(key %d bytes, msg %d bytes).Sum(%v) = %s, definition gives %s", kl, ml, pfx, pu.Hex(ga), pu.Hex(gb)), nil, nil)
					}
					// reuse after Reset
					a.Reset()
					b.Reset()
					a.Write(msg)
					b.Write(msg)
					if !bytes.Equal(a.Sum(nil), b.Sum(nil)) {
						c.Violate(fmt.Sprintf("hmac-reset:k=%d:m=%d", kl, ml), "HMAC-SM3 after Reset differs from its definition", nil, nil)
					}
				}
			}
		}
		for _, it := range []int{1, 2, 3, 100} {
			for _, dk := range []int{1, 31, 32, 33, 64, 65} {
				for _, pl := range []int{0, 8, 64, 65} {
					for _, sl := range []int{0, 8, 60} {
						pw, salt := pu.Msg(5, pl), pu.Msg(99, sl)
						ga := pbkdf2.Key(pw, salt, it, dk, sm3.New)
						gb := pbkdf2.Key(pw, salt, it, dk, refsm3.New)
						c.Add("executions", 1)
						if !bytes.Equal(ga, gb) {
							c.Violate(fmt.Sprintf("pbkdf2:it=%d:dk=%d:p=%d:s=%d", it, dk, pl, sl), "PBKDF2-SM3 differs from its definition", nil, nil)
						}
					}
				}
			}
		}
		c.Sample("hmac.New(sm3.New,k) vs hmac.New(refsm3.New,k) for key lengths 0..200 x message lengths 0..1000; pbkdf2 iterations {1,2,3,100}")
	}}
}

// Prop is the registration of C04.
var Prop = &harness.Prop{
	ID:    "C04",
	Level: "model_checking",
	Rule: "every sequence over {Write(c) c in {0,1,3,55,56,63,64,65,119,128}, Sum(nil), Sum(3-byte prefix), Sum(3-byte prefix with 64 spare), Reset} up to the depth bound runs on a real sm3.New() object; the model is a byte slice; after every Sum the result must equal prefix||refsm3(model) and the prefix/capacity must be intact, and at the end of the history every slice an earlier Sum handed out must still hold what it held; plus every split of every length, every one-shot length, long streams, single very large Writes (an argument of 2^k-1, 2^k, 2^k+1 bytes), HMAC and PBKDF2 against their definitions over refsm3. " +
		"states = distinct message lengths compared one-shot/split; outcomes = distinct verdict classes of the history exploration.",
	Assumptions: []string{"refsm3 is a correct transcription of GM/T 0004 (self-tested on the standard's vectors by setup.sh)", "message bytes are a fixed function of position; digest collisions between distinct models are ignored"},
	Bounds: func(tier string) string {
		if tier == "thorough" {
			return "histories: all sequences of length 7 over 14 operations and of length 9 over the reduced 8-operation alphabet {Write 1/63/64/65, 3 Sums, Reset} (+ implicit final Sum); 2-splits: all L<=600; 3-splits: all L<=140; one-shot: all L<=8192; streams 3 MiB by 4096 and by 4099; single Writes of 2^k-1/2^k/2^k+1 bytes, k=14..26 (64 MiB), after 0/1/63 pending bytes"
		}
		return "histories: all sequences of length 5 over 14 operations and of length 7 over the reduced 8-operation alphabet {Write 1/63/64/65, 3 Sums, Reset} (+ implicit final Sum); 2-splits: all L<=300; 3-splits: all L<=70; one-shot: all L<=2100 and 8000..8192; stream 3 MiB by 4096; single Writes of 2^k-1/2^k/2^k+1 bytes, k=14..23 (8 MiB), after 0/1/63 pending bytes"
	},
	Units: func(tier string) []harness.Unit {
		var u []harness.Unit
		depth, rdepth := 5, 7
		if tier == "thorough" {
			depth, rdepth = 7, 9
		}
		for f := 0; f < nOps; f++ {
			u = append(u, histUnit(f, depth, nil))
		}
		for _, f := range reducedOps {
			u = append(u, histUnit(f, rdepth, reducedOps))
		}
		if tier == "thorough" {
			for lo := 0; lo <= 600; lo += 50 {
				u = append(u, splitUnit(lo, min(lo+49, 600)))
			}
			for lo := 0; lo <= 140; lo += 10 {
				u = append(u, split3Unit(lo, min(lo+9, 140)))
			}
			for lo := 0; lo <= 8192; lo += 512 {
				u = append(u, oneShotUnit(lo, min(lo+511, 8192)))
			}
			u = append(u, streamUnit(3<<20, 4096), streamUnit(3<<20, 4099))
			for k := 14; k <= 26; k++ {
				u = append(u, bigWriteUnit(k))
			}
		} else {
			for lo := 0; lo <= 300; lo += 50 {
				u = append(u, splitUnit(lo, min(lo+49, 300)))
			}
			for lo := 0; lo <= 70; lo += 10 {
				u = append(u, split3Unit(lo, min(lo+9, 70)))
			}
			for lo := 0; lo <= 2100; lo += 300 {
				u = append(u, oneShotUnit(lo, min(lo+299, 2100)))
			}
			u = append(u, oneShotUnit(8000, 8192))
			u = append(u, streamUnit(3<<20, 4096))
			for k := 14; k <= 23; k++ {
				u = append(u, bigWriteUnit(k))
			}
		}
		u = append(u, consumersUnit(), freshSM3Unit())
		return u
	},
}
