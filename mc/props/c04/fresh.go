package c04

import (
	"encoding/hex"
	"fmt"
	"strconv"
	"strings"

	"github.com/tjfoc/gmsm/sm3"

	"verif/mc/harness"
	"verif/mc/props/pu"
	"verif/mc/ref/refsm3"
)

// The first digests of a process (see c05/fresh.go for why a new process is needed): every sequence
// of one or two operations over {one-shot, New+Write+Sum, New+Sum without Write, two interleaved
// objects} x message lengths {0, 1, 55, 56, 64, 119}, each as the first library activity of a process.

func init() {
	harness.RegisterProbe("sm3-seq", func(args []string) string {
		var out []string
		for _, a := range args {
			f := strings.Split(a, ":")
			n, _ := strconv.Atoi(f[1])
			seed, _ := strconv.Atoi(f[2])
			msg := pu.Msg(seed, n)
			switch f[0] {
			case "oneshot":
				out = append(out, hex.EncodeToString(sm3.Sm3Sum(msg)))
			case "object":
				h := sm3.New()
				h.Write(msg)
				out = append(out, hex.EncodeToString(h.Sum(nil)))
			case "two":
				h1, h2 := sm3.New(), sm3.New()
				h1.Write(msg[:n/2])
				h2.Write(msg)
				h1.Write(msg[n/2:])
				out = append(out, hex.EncodeToString(h1.Sum(nil))+hex.EncodeToString(h2.Sum(nil)))
			}
		}
		return strings.Join(out, ",")
	})
}

func freshSM3Unit() harness.Unit {
	return harness.Unit{Name: "fresh-process/first-digests", Run: func(c *harness.Ctx) {
		type step struct {
			op string
			n  int
		}
		var steps []step
		for _, op := range []string{"oneshot", "object", "two"} {
			for _, n := range []int{0, 1, 55, 56, 64, 119} {
				steps = append(steps, step{op, n})
			}
		}
		for ai, a := range steps {
			seqs := [][]step{{a}}
			for bi, b := range steps {
				if (ai+bi)%3 == 0 || a.n == 0 || b.n == 0 {
					seqs = append(seqs, []step{a, b})
				}
			}
			for _, seq := range seqs {
				var args, want, names []string
				for i, st := range seq {
					args = append(args, fmt.Sprintf("%s:%d:%d", st.op, st.n, 70+i))
					d := refsm3.Sum(pu.Msg(70+i, st.n))
					w := hex.EncodeToString(d[:])
					if st.op == "two" {
						w += w
					}
					want = append(want, w)
					names = append(names, fmt.Sprintf("%s(%d bytes)", st.op, st.n))
				}
				tag := strings.Join(names, " then ")
				c.Add("executions", 1)
				c.Add("transitions", int64(len(seq)))
				got, err := harness.FreshProcess("sm3-seq", args...)
				if err != nil {
					c.Violate("fresh-process-crash:"+tag, fmt.Sprintf("a fresh process doing %s fails: %v", tag, err), nil, tag)
					continue
				}
				if got != strings.Join(want, ",") {
					c.Violate("fresh-process-value:"+tag, fmt.Sprintf("as the first digests of a process, %s give %s; GM/T 0004 gives %s", tag, got, strings.Join(want, ",")), nil, tag)
				}
			}
		}
		c.Sample("sequences of one or two operations over {one-shot, object, two interleaved objects} x lengths {0,1,55,56,64,119}, each in a new process")
	}}
}
