// Package sm2k builds the SM2 key alphabet shared by C01/C02/C13/C14: boundary private keys, the
// GM/T 0003.5 example key, and keys found by a deterministic search whose d / Px / Py have
// leading zero bytes. Public points are computed by the reference, never by the library.
package sm2k

import (
	"math/big"
	"sync"

	"github.com/tjfoc/gmsm/sm2"

	"verif/mc/ref/refsm2"
)

// Key is one alphabet entry.
type Key struct {
	Name string
	D    *big.Int
	Pub  refsm2.Point
}

// Lib returns the library key object for k (coordinates from the reference).
func (k Key) Lib() *sm2.PrivateKey {
	return &sm2.PrivateKey{PublicKey: sm2.PublicKey{Curve: sm2.P256Sm2(), X: new(big.Int).Set(k.Pub.X), Y: new(big.Int).Set(k.Pub.Y)}, D: new(big.Int).Set(k.D)}
}

func (k Key) LibPub() *sm2.PublicKey { return &k.Lib().PublicKey }

func mk(name string, d *big.Int) Key { return Key{name, d, refsm2.BaseMul(d)} }

var (
	once sync.Once
	all  []Key
)

func hexInt(s string) *big.Int { v, _ := new(big.Int).SetString(s, 16); return v }

// lead returns the number of leading zero bytes of x as a 32-byte value.
func lead(x *big.Int) int { return 32 - len(x.Bytes()) }

// Alphabet returns the full key alphabet (computed once per process, deterministic).
func Alphabet() []Key {
	once.Do(func() {
		n := refsm2.N
		all = append(all,
			mk("d=1", big.NewInt(1)),
			mk("d=2", big.NewInt(2)),
			mk("d=3", big.NewInt(3)),
			mk("d=n-2", new(big.Int).Sub(n, big.NewInt(2))),
			mk("d=n-3", new(big.Int).Sub(n, big.NewInt(3))),
			mk("gmt-example", hexInt("3945208F7B2144B13F36E38AC6D39F95889393692860B51A42FB81EF4DF7C5B8")),
			mk("d<2^248", hexInt("00C3A1F06B2E99D47A5581E3F0A67C24B1D9E8073C5AF2614B8E97D035C6A1F2")),
			mk("d<2^240", hexInt("0000F1E2D3C4B5A69788796A5B4C3D2E1F00112233445566778899AABBCCDDEE")),
			mk("unstructured", hexInt("81EB26E941BB5AF16DF116495F90695272AE2CD63D6C4AE1678418BE48230029")),
		)
		// deterministic search d = 4,5,6,... for leading-zero coordinates
		var fx, fy, fy2 bool
		fxy := true // both coordinates short has probability 2^-16 per key: not searched
		p := refsm2.BaseMul(big.NewInt(3))
		g := refsm2.G()
		for d := int64(4); d < 20000 && !(fx && fy && fxy && fy2); d++ {
			p = refsm2.Add(p, g)
			lx, ly := lead(p.X), lead(p.Y)
			cp := refsm2.Point{X: new(big.Int).Set(p.X), Y: new(big.Int).Set(p.Y)}
			switch {
			case lx >= 1 && ly == 0 && !fx:
				fx = true
				all = append(all, Key{"Px-leading-zero", big.NewInt(d), cp})
			case ly >= 1 && lx == 0 && !fy:
				fy = true
				all = append(all, Key{"Py-leading-zero", big.NewInt(d), cp})
			case ly >= 1 && lx == 0 && fy && !fy2:
				fy2 = true
				all = append(all, Key{"Py-leading-zero-2", big.NewInt(d), cp})
			case lx >= 1 && ly >= 1 && !fxy:
				fxy = true
				all = append(all, Key{"Px,Py-leading-zero", big.NewInt(d), cp})
			}
		}
		// scalars found once by an offline search (d = 4, 5, 6, ... with the stated property); the
		// property itself is re-checked here with the reference arithmetic
		for _, h := range []struct {
			name   string
			d      int64
			lx, ly int
		}{{"Px-2-leading-zeros", 17883, 2, 0}, {"Py-2-leading-zeros", 193197, 0, 2}, {"Px,Py-leading-zero", 278982, 1, 1}} {
			k := mk(h.name, big.NewInt(h.d))
			if lead(k.Pub.X) < h.lx || lead(k.Pub.Y) < h.ly {
				panic("sm2k: hard-coded scalar " + h.name + " does not have the stated property")
			}
			all = append(all, k)
		}
	})
	return all
}

// Small returns a sub-alphabet (boundary, example, leading-zero keys) for expensive products.
func Small() []Key {
	var out []Key
	for _, k := range Alphabet() {
		switch k.Name {
		case "d=1", "d=n-2", "gmt-example", "Px-leading-zero", "Py-leading-zero", "d<2^240":
			out = append(out, k)
		}
	}
	return out
}
