package sm2k

import "testing"

func TestAlphabet(t *testing.T) {
	for _, k := range Alphabet() {
		t.Logf("%-20s d=%x  X=%x Y=%x", k.Name, k.D, k.Pub.X, k.Pub.Y)
	}
}
