package c11

import (
	"encoding/hex"
	"fmt"
	"strings"

	"github.com/tjfoc/gmsm/sm4"

	"verif/mc/harness"
	"verif/mc/props/pu"
)

// The first helper calls of a process: package-level state of the library (the shared IV, anything a
// helper might remember about "the last key") starts from its zero value only once per process. Every
// sequence of one or two helper calls over mode x key x direction runs as the first library activity
// of a new process (harness.FreshProcess); the IV is the package default, or set once before.

func init() {
	harness.RegisterProbe("sm4-modes", func(args []string) string {
		var out []string
		for _, a := range args {
			f := strings.Split(a, ":")
			if f[0] == "iv" {
				iv, _ := hex.DecodeString(f[1])
				if err := sm4.SetIV(iv); err != nil {
					out = append(out, "error")
				} else {
					out = append(out, "ok")
				}
				continue
			}
			mode := int(f[0][0] - '0')
			key, _ := hex.DecodeString(f[1])
			in, _ := hex.DecodeString(f[2])
			o, err := call(mode, key, in, f[3] == "e")
			if err != nil {
				out = append(out, "error")
			} else {
				out = append(out, hex.EncodeToString(o))
			}
		}
		return strings.Join(out, ",")
	})
}

func freshModesUnit(part, parts int) harness.Unit {
	return harness.Unit{Name: fmt.Sprintf("fresh-process/first-helper-calls/%d-of-%d", part+1, parts), Run: func(c *harness.Ctx) {
		type step struct {
			mode int
			key  []byte
			enc  bool
		}
		var steps []step
		for m := 0; m < 4; m++ {
			for _, k := range [][]byte{keys[1], keys[0]} { // the all-zero key and the standard's example key
				steps = append(steps, step{m, k, true}, step{m, k, false})
			}
		}
		zeroIV := make([]byte, 16)
		otherIV := pu.Msg(9, 16)
		n := 0
		for _, iv := range [][]byte{nil, otherIV} {
			for _, a := range steps {
				seqs := [][]step{{a}}
				for _, b := range steps {
					seqs = append(seqs, []step{a, b})
				}
				for _, seq := range seqs {
					n++
					if n%parts != part {
						continue
					}
					var args, want, names []string
					useIV := zeroIV
					if iv != nil {
						args = append(args, "iv:"+hex.EncodeToString(iv))
						want = append(want, "ok")
						useIV = iv
						names = append(names, "SetIV")
					}
					for i, st := range seq {
						pt := pu.Msg(20+i, 37)
						ct := refEnc(st.mode, st.key, useIV, pt)
						if st.enc {
							args = append(args, fmt.Sprintf("%d:%x:%x:e", st.mode, st.key, pt))
							want = append(want, hex.EncodeToString(ct))
						} else {
							args = append(args, fmt.Sprintf("%d:%x:%x:d", st.mode, st.key, ct))
							want = append(want, hex.EncodeToString(pt))
						}
						names = append(names, fmt.Sprintf("%s(key %x, encrypt=%v)", modeNames[st.mode], st.key[:2], st.enc))
					}
					tag := strings.Join(names, " then ")
					c.Add("executions", 1)
					c.Add("transitions", int64(len(seq)))
					c.DistinctS("states", tag)
					got, err := harness.FreshProcess("sm4-modes", args...)
					if err != nil {
						c.Violate("fresh-process-crash:"+tag, fmt.Sprintf("a fresh process doing %s fails: %v", tag, err), nil, tag)
						continue
					}
					c.DistinctS("outcomes", got)
					if got != strings.Join(want, ",") {
						c.Violate("fresh-process-value:"+tag, fmt.Sprintf("as the first helper calls of a process, %s give %s; the mode definitions give %s", tag, got, strings.Join(want, ",")), nil, tag)
					}
				}
			}
		}
		c.Sample("every sequence of one or two calls over {ECB,CBC,CFB,OFB} x {zero key, example key} x {encrypt, decrypt}, default IV or SetIV first, each in a new process")
	}}
}
