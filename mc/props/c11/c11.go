// Package c11: SM4 ECB/CBC/CFB/OFB helpers equal the standard padded modes (DESIGN §3 C11).
package c11

import (
	"bytes"
	"crypto/cipher"
	"fmt"

	"github.com/tjfoc/gmsm/sm4"

	"verif/mc/harness"
	"verif/mc/props/pu"
	"verif/mc/ref/refsm4"
)

var keys = [][]byte{
	{0x01, 0x23, 0x45, 0x67, 0x89, 0xab, 0xcd, 0xef, 0xfe, 0xdc, 0xba, 0x98, 0x76, 0x54, 0x32, 0x10},
	make([]byte, 16),
	{0x8e, 0x11, 0x00, 0x7f, 0x80, 0xa5, 0x5a, 0xc3, 0x3c, 0x01, 0xfe, 0x10, 0xef, 0x77, 0x88, 0x42},
}

var modeNames = []string{"ECB", "CBC", "CFB", "OFB"}

func call(mode int, key, in []byte, enc bool) ([]byte, error) {
	switch mode {
	case 0:
		return sm4.Sm4Ecb(key, in, enc)
	case 1:
		return sm4.Sm4Cbc(key, in, enc)
	case 2:
		return sm4.Sm4CFB(key, in, enc)
	}
	return sm4.Sm4OFB(key, in, enc)
}

// refEnc is the standard definition of the mode over the reference SM4 on the padded input.
func refEnc(mode int, key, iv, pt []byte) []byte {
	blk := refsm4.Must(key)
	p := refsm4.Pad(pt)
	out := make([]byte, len(p))
	switch mode {
	case 0:
		for i := 0; i < len(p); i += 16 {
			blk.Encrypt(out[i:i+16], p[i:i+16])
		}
	case 1:
		cipher.NewCBCEncrypter(blk, iv).CryptBlocks(out, p)
	case 2:
		cipher.NewCFBEncrypter(blk, iv).XORKeyStream(out, p)
	case 3:
		cipher.NewOFB(blk, iv).XORKeyStream(out, p)
	}
	return out
}

type tail struct {
	v byte
	j int
}

func tails(L int) []tail {
	t := []tail{{0, 0}}
	if L == 0 {
		return t
	}
	r := L % 16
	pad := byte(16 - r)
	seen := map[tail]bool{}
	for _, v := range []byte{pad, 1, 2, 16, pad - 1} {
		if v == 0 {
			continue
		}
		for _, j := range []int{1, 2, int(v)} {
			if j > L {
				j = L
			}
			k := tail{v, j}
			if !seen[k] {
				seen[k] = true
				t = append(t, k)
			}
		}
	}
	return t
}

func lengths(tier string) []int {
	var ls []int
	if tier == "thorough" {
		for l := 0; l <= 1024; l++ {
			ls = append(ls, l)
		}
		return append(ls, 4095, 4096, 4097)
	}
	for l := 0; l <= 130; l++ {
		ls = append(ls, l)
	}
	for l := 1008; l <= 1024; l++ {
		ls = append(ls, l)
	}
	return ls
}

func unit(ki, mode int) harness.Unit {
	return harness.Unit{Name: fmt.Sprintf("%s/key%d", modeNames[mode], ki), Run: func(c *harness.Ctx) {
		key := keys[ki]
		ivs := [][]byte{nil, pu.Msg(900, 16), bytes.Repeat([]byte{0xff}, 16)}
		for ivi, ivv := range ivs {
			iv := make([]byte, 16)
			var ivCan *pu.Canary
			if ivv != nil {
				ivCan = pu.NewCanary(ivv, []int{0, 64, 16}[ivi]) // spare capacity behind the caller's IV slice
				if err := sm4.SetIV(ivCan.Slice()); err != nil {
					c.Violate("setiv-error", fmt.Sprintf("SetIV(16 bytes) failed: %v", err), nil, nil)
					return
				}
				copy(iv, ivv)
			} else {
				if err := sm4.SetIV(make([]byte, 16)); err != nil {
					c.Violate("setiv-error", fmt.Sprintf("SetIV(16 zero bytes) failed: %v", err), nil, nil)
				}
			}
			for _, L := range lengths(c.Tier) {
				for _, tl := range tails(L) {
					pt := pu.Msg(L*3, L)
					for i := 0; i < tl.j; i++ {
						pt[L-1-i] = tl.v
					}
					for _, spare := range []int{0, 1, 16, 64} {
						if spare != 0 && (tl.j != 0 && spare != 16) {
							continue // spare-capacity variation only needs one arrangement per tail pattern
						}
						tag := fmt.Sprintf("%s:L=%d:iv%d", modeNames[mode], L, ivi)
						c.Add("evaluations", 1)
						c.DistinctS("nontrivial", fmt.Sprintf("%d/%d/%d/%v/%d", ivi, L, spare, tl, mode))
						in := pu.NewCanary(pt, spare)
						kc := pu.NewCanary(key, 16)
						var ct []byte
						var err error
						if c.Guard("panic-enc:"+tag, "encrypt helper", nil, func() { ct, err = call(mode, kc.Slice(), in.Slice(), true) }) {
							continue
						}
						if err != nil {
							c.Violate("enc-error:"+tag, fmt.Sprintf("encryption of %d bytes failed: %v", L, err), nil, nil)
							continue
						}
						want := refEnc(mode, key, iv, pt)
						if len(ct) != (L/16+1)*16 {
							c.Violate("enc-length:"+tag, fmt.Sprintf("ciphertext of %d-byte plaintext has %d bytes, want %d", L, len(ct), (L/16+1)*16), nil, nil)
						} else if !bytes.Equal(ct, want) {
							c.Violate("enc-value:"+tag, fmt.Sprintf("%s ciphertext of %d bytes (tail %v) differs from the standard mode over SM4: got %s want %s", modeNames[mode], L, tl, pu.Hex(ct), pu.Hex(want)), nil, nil)
						}
						if d := in.Check(); d != "" {
							where := "input"
							if len(d) > 0 && bytes.Contains([]byte(d), []byte("spare-capacity")) {
								where = "spare-capacity"
							}
							c.Violate(fmt.Sprintf("enc-writes-caller-%s:%s", where, modeNames[mode]), fmt.Sprintf("encrypting %d bytes (spare capacity %d) wrote to caller memory: %s", L, spare, d), nil, nil)
						}
						if d := kc.Check(); d != "" {
							c.Violate("enc-writes-key:"+tag, d, nil, nil)
						}
						if ivCan != nil {
							if d := ivCan.Check(); d != "" {
								c.Violate("enc-writes-iv:"+tag, d, nil, nil)
							}
						}
						// decrypt the STANDARD ciphertext (so that a self-consistent wrong mode cannot hide)
						cin := pu.NewCanary(want, spare)
						var back []byte
						if c.Guard("panic-dec:"+tag, "decrypt helper", nil, func() { back, err = call(mode, key, cin.Slice(), false) }) {
							continue
						}
						if err != nil || !bytes.Equal(back, pt) {
							c.Violate(fmt.Sprintf("dec-value:%s:L=%d:tail=%d,%d", modeNames[mode], L, tl.v, tl.j), fmt.Sprintf("%s decryption of the %d-byte plaintext's ciphertext (tail %v) returned %s, err=%v; want %s", modeNames[mode], L, tl, pu.Hex(back), err, pu.Hex(pt)), nil, nil)
						}
						if d := cin.Check(); d != "" {
							c.Violate("dec-writes-caller:"+tag, d, nil, nil)
						}
						if c.WantSample() {
							c.Sample(fmt.Sprintf("%s key%d iv%d L=%d tail=%v spare=%d", modeNames[mode], ki, ivi, L, tl, spare))
						}
					}
				}
			}
		}
		sm4.SetIV(make([]byte, 16))
		// IV of a wrong size is refused
		for _, n := range []int{0, 15, 17, 32} {
			if sm4.SetIV(make([]byte, n)) == nil {
				c.Violate(fmt.Sprintf("setiv-accepts:%d", n), fmt.Sprintf("SetIV accepted %d bytes", n), nil, nil)
			}
		}
		// a refused SetIV leaves the IV in effect as it was: accepted IV A, then every refused length
		// with non-zero content, then the mode must still run under A
		ivA := pu.Msg(61, 16)
		if err := sm4.SetIV(append([]byte{}, ivA...)); err != nil {
			c.Violate("setiv-error", fmt.Sprintf("SetIV(16 bytes) failed: %v", err), nil, nil)
		}
		for _, n := range []int{1, 8, 15, 17, 32} {
			bad := pu.Msg(62+n, n)
			for i := range bad {
				bad[i] |= 0x80
			}
			sm4.SetIV(bad)
			pt := pu.Msg(63, 37)
			got, err := call(mode, keys[0], pt, true)
			want := refEnc(mode, keys[0], ivA, pt)
			c.Add("evaluations", 1)
			if err != nil || !bytes.Equal(got, want) {
				c.Violate(fmt.Sprintf("iv-changed-by-refused-setiv:%s", modeNames[mode]), fmt.Sprintf("after SetIV(A) and a refused SetIV of %d bytes, %s does not encrypt under A: got %s want %s (%v)", n, modeNames[mode], pu.Hex(got), pu.Hex(want), err), nil, nil)
				break
			}
		}
		// IV install histories: the IV is an exported variable, so a caller can install its own slice
		// by assignment as well as through SetIV. Every sequence of up to 3 installs over
		// {assign slice 1, assign slice 2, SetIV(slice 3), SetIV(slice 4)}: the mode runs under the
		// IV installed last and none of the caller's four slices is ever written.
		{
			vals := [][]byte{pu.Msg(71, 16), pu.Msg(72, 16), pu.Msg(73, 16), pu.Msg(74, 16)}
			insNames := []string{"IV=slice1", "IV=slice2", "SetIV(slice3)", "SetIV(slice4)"}
			var seqs [][]int
			var gen func(cur []int)
			gen = func(cur []int) {
				if len(cur) > 0 {
					seqs = append(seqs, append([]int{}, cur...))
				}
				if len(cur) == 3 {
					return
				}
				for o := 0; o < 4; o++ {
					gen(append(cur, o))
				}
			}
			gen(nil)
		hist:
			for _, seq := range seqs {
				own := make([][]byte, 4)
				for i := range own {
					own[i] = append([]byte{}, vals[i]...)
				}
				names := ""
				for _, o := range seq {
					if o < 2 {
						sm4.IV = own[o]
					} else if err := sm4.SetIV(own[o]); err != nil {
						c.Violate("setiv-error", fmt.Sprintf("SetIV(16 bytes) failed: %v", err), nil, nil)
					}
					names += insNames[o] + " "
					pt := pu.Msg(75, 37)
					got, err := call(mode, keys[0], pt, true)
					want := refEnc(mode, keys[0], vals[o], pt)
					c.Add("evaluations", 1)
					if err != nil || !bytes.Equal(got, want) {
						c.Violate(fmt.Sprintf("iv-install-history:%s-not-under-last-iv", modeNames[mode]), fmt.Sprintf("after the installs [%s] %s does not encrypt under the IV installed last: got %s want %s (%v)", names, modeNames[mode], pu.Hex(got), pu.Hex(want), err), nil, nil)
						break hist
					}
					for i := range own {
						if !bytes.Equal(own[i], vals[i]) {
							c.Violate(fmt.Sprintf("iv-install-history:caller-slice-written:%s", modeNames[mode]), fmt.Sprintf("after the installs [%s] the caller's IV slice %d was overwritten: %s, was %s", names, i+1, pu.Hex(own[i]), pu.Hex(vals[i])), nil, nil)
							break hist
						}
					}
				}
			}
		}
		sm4.SetIV(make([]byte, 16))
		for _, n := range []int{0, 15, 17, 24, 32} {
			if _, err := call(mode, make([]byte, n), []byte("x"), true); err == nil {
				c.Violate(fmt.Sprintf("helper-accepts-keylen:%d", n), fmt.Sprintf("%s helper accepted a %d-byte key", modeNames[mode], n), nil, nil)
			}
		}
	}}
}

// reuseUnit: sequences of helper calls in which the caller reuses ONE key buffer and ONE data
// buffer (overwritten in place between calls) and keeps earlier outputs: every output must equal
// the stateless definition and must not change when the buffers are reused afterwards.
// crossHistoryUnit: the IV installed by SetIV is package-level state, and the GCM helpers live in
// the same package. Every sequence up to the depth bound over {SetIV(iv1), SetIV(iv2), each mode
// helper (encrypt), GCM encrypt with a 12-byte and with a 16-byte nonce, GCM decrypt} runs in one
// process; every mode-helper result must be the standard ciphertext under the IV set LAST by
// SetIV, and every GCM result must be what the same call gives on its own.
func crossHistoryUnit(first, depth int) harness.Unit {
	return harness.Unit{Name: fmt.Sprintf("cross-helper-histories/first=%d/depth=%d", first, depth), Run: func(c *harness.Ctx) {
		key := keys[1]
		ivs := [][]byte{pu.Msg(901, 16), pu.Msg(902, 16)}
		pt := pu.Msg(77, 37)
		n12, n16, aad := pu.Msg(5, 12), pu.Msg(6, 16), pu.Msg(7, 5)
		blk := refsm4.Must(key)
		g12, _ := cipher.NewGCMWithNonceSize(blk, 12)
		g16, _ := cipher.NewGCMWithNonceSize(blk, 16)
		want12, want16 := g12.Seal(nil, n12, pt, aad), g16.Seal(nil, n16, pt, aad)
		names := []string{"SetIV(iv1)", "SetIV(iv2)", "Sm4Ecb", "Sm4Cbc", "Sm4CFB", "Sm4OFB", "GCMEncrypt(12-byte nonce)", "GCMEncrypt(16-byte nonce)", "GCMDecrypt(12-byte nonce)"}
		nOps := len(names)
		total := 1
		for i := 1; i < depth; i++ {
			total *= nOps
		}
		for code := 0; code < total; code++ {
			ops := []int{first}
			for x, i := code, 1; i < depth; i++ {
				ops = append(ops, x%nOps)
				x /= nOps
			}
			sm4.SetIV(make([]byte, 16))
			cur := make([]byte, 16)
			hist := ""
			c.Add("evaluations", 1)
			c.DistinctS("nontrivial", fmt.Sprintf("cross/%v", ops))
			bad := false
			for i, op := range ops {
				if i > 0 {
					hist += "; "
				}
				hist += names[op]
				if bad {
					break
				}
				c.Guard("cross-history-panic", hist, nil, func() {
					switch {
					case op <= 1:
						if err := sm4.SetIV(append([]byte{}, ivs[op]...)); err != nil {
							c.Violate("cross-history:setiv", err.Error(), nil, nil)
							bad = true
						}
						cur = ivs[op]
					case op <= 5:
						mode := op - 2
						got, err := call(mode, key, append([]byte{}, pt...), true)
						want := refEnc(mode, key, cur, pt)
						if err != nil || !bytes.Equal(got, want) {
							c.Violate(fmt.Sprintf("cross-history:%s-depends-on-earlier-calls", modeNames[mode]), fmt.Sprintf("in the call history [%s] the %s helper does not produce the standard ciphertext under the IV set last by SetIV (err %v)", hist, modeNames[mode], err), nil, nil)
							bad = true
						}
					case op == 6 || op == 7:
						nonce, want := n12, want12
						if op == 7 {
							nonce, want = n16, want16
						}
						ct, tag := sm4.GCMEncrypt(key, append([]byte{}, nonce...), append([]byte{}, pt...), append([]byte{}, aad...))
						if !bytes.Equal(append(append([]byte{}, ct...), tag...), want) {
							c.Violate("cross-history:gcm-depends-on-earlier-calls", fmt.Sprintf("in the call history [%s] GCMEncrypt differs from standard GCM", hist), nil, nil)
							bad = true
						}
					default:
						p2, tag := sm4.GCMDecrypt(key, append([]byte{}, n12...), append([]byte{}, want12[:len(pt)]...), append([]byte{}, aad...))
						if !bytes.Equal(p2, pt) || !bytes.Equal(tag, want12[len(pt):]) {
							c.Violate("cross-history:gcm-decrypt-depends-on-earlier-calls", fmt.Sprintf("in the call history [%s] GCMDecrypt differs from standard GCM", hist), nil, nil)
							bad = true
						}
					}
				})
			}
		}
		sm4.SetIV(make([]byte, 16))
		c.Sample(fmt.Sprintf("all call histories of length %d starting with %s over %v", depth, names[first], names))
	}}
}

func reuseUnit() harness.Unit {
	return harness.Unit{Name: "caller-buffer-reuse-histories", Run: func(c *harness.Ctx) {
		sm4.SetIV(make([]byte, 16))
		iv := make([]byte, 16)
		lens := []int{0, 5, 16, 33}
		keyBuf := make([]byte, 16)
		dataBuf := make([]byte, 64)
		type kept struct {
			got, want []byte
			what      string
		}
		var outs []kept
		for round := 0; round < 2; round++ {
			for ki := range keys {
				for mode := 0; mode < 4; mode++ {
					for _, L := range lens {
						for _, enc := range []bool{true, false} {
							copy(keyBuf, keys[ki])
							pt := pu.Msg(L+mode+round, L)
							ct := refEnc(mode, keys[ki], iv, pt)
							var in, want []byte
							if enc {
								in, want = dataBuf[:copy(dataBuf, pt)], ct
							} else {
								in, want = dataBuf[:copy(dataBuf, ct)], pt
							}
							c.Add("evaluations", 1)
							c.DistinctS("nontrivial", fmt.Sprintf("reuse/%d/%d/%d/%d/%v", round, ki, mode, L, enc))
							var got []byte
							what := fmt.Sprintf("%s key%d L=%d enc=%v (round %d of a history on reused buffers)", modeNames[mode], ki, L, enc, round)
							if c.Guard("reuse-panic:"+modeNames[mode], what, nil, func() { got, _ = call(mode, keyBuf, in, enc) }) {
								continue
							}
							if !bytes.Equal(got, want) {
								c.Violate("reuse-history-value:"+modeNames[mode], what+fmt.Sprintf(": got %s want %s", pu.Hex(got), pu.Hex(want)), nil, nil)
							}
							outs = append(outs, kept{got, append([]byte{}, want...), what})
							for i := range dataBuf {
								dataBuf[i] = 0xEE
							}
							for i := range keyBuf {
								keyBuf[i] = 0xEE
							}
						}
					}
				}
			}
		}
		for _, o := range outs {
			if !bytes.Equal(o.got, o.want) {
				c.Violate("reuse-output-aliases-input", "an output returned earlier changed after the caller reused its input/key buffers: "+o.what, nil, nil)
				break
			}
		}
		c.Sample("2 rounds x 3 keys x 4 modes x lengths {0,5,16,33} x enc/dec on one reused key buffer and one reused data buffer; outputs re-checked at the end")
	}}
}

// Prop registers C11.
var Prop = &harness.Prop{
	ID:          "C11",
	Level:       "exploration",
	Rule:        "full product of 3 keys x 3 IV settings (default zero, pattern, all-ones via SetIV) x every plaintext length of the tier x tail patterns (position-dependent, and last 1/2/v bytes equal to v for v in {pad byte, 1, 2, 16, pad-1}) x 4 modes x spare capacity {0,1,16,64}; ciphertext compared with crypto/cipher's mode over the independent SM4 on the PKCS#7-padded input; the STANDARD ciphertext is decrypted by the helper; inputs, key, IV and spare capacity are canary-checked. Cross-helper call histories: every sequence of length 4 (thorough 5) over {SetIV(iv1), SetIV(iv2), Sm4Ecb, Sm4Cbc, Sm4CFB, Sm4OFB, GCMEncrypt with a 12- and a 16-byte nonce, GCMDecrypt} in one process: each mode helper must use the IV set last by SetIV and each GCM call must equal standard GCM, whatever ran before. A case is distinct/non-trivial per (iv, length, tail, spare, mode) or per history. Fresh-process unit: every sequence of one or two helper calls over mode x {zero key, example key} x direction, default IV or SetIV first, each in a new process. After every refused SetIV (5 lengths, non-zero content) each mode still runs under the IV accepted before. IV install histories: every sequence of up to 3 installs over {assign caller slice 1/2 to the exported IV, SetIV(slice 3/4)}: each mode runs under the IV installed last and none of the four caller slices is written.",
	Assumptions: []string{"refsm4 correct (anchored on GM/T 0002 vectors); Go's crypto/cipher CBC/CFB/OFB are the standard definitions (CFB = full-block CFB-128)"},
	Bounds: func(tier string) string {
		if tier == "thorough" {
			return "every length 0..1024 plus 4095..4097"
		}
		return "every length 0..130 and 1008..1024"
	},
	Units: func(tier string) []harness.Unit {
		var u []harness.Unit
		for m := 0; m < 4; m++ {
			for k := range keys {
				u = append(u, unit(k, m))
			}
		}
		u = append(u, reuseUnit())
		for p := 0; p < 8; p++ {
			u = append(u, freshModesUnit(p, 8))
		}
		hd := 4
		if tier == "thorough" {
			hd = 5
		}
		for f := 0; f < 9; f++ {
			u = append(u, crossHistoryUnit(f, hd))
		}
		return u
	},
}
