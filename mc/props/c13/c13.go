// Package c13: SM2 key exchange (DESIGN §3 C13).
package c13

import (
	"bytes"
	"fmt"
	"math/big"

	"github.com/tjfoc/gmsm/sm2"

	"verif/mc/harness"
	"verif/mc/props/pu"
	"verif/mc/props/sm2k"
	"verif/mc/ref/refsm2"
)

var klens = []int{1, 15, 16, 17, 31, 32, 33, 48, 64, 1024}
var idLens = []int{0, 1, 16, 255, 8191}

func libKey(d *big.Int, p refsm2.Point) *sm2.PrivateKey {
	return &sm2.PrivateKey{PublicKey: sm2.PublicKey{Curve: sm2.P256Sm2(), X: new(big.Int).Set(p.X), Y: new(big.Int).Set(p.Y)}, D: new(big.Int).Set(d)}
}

type party struct {
	d *big.Int
	p refsm2.Point
}

func mkParty(d *big.Int) party { return party{d, refsm2.BaseMul(d)} }

// exchange runs both roles on the library and on the reference and compares everything.
func exchange(c *harness.Ctx, tag string, klen int, idA, idB []byte, A, B, rA, rB party) {
	c.Add("evaluations", 1)
	c.DistinctS("nontrivial", tag)
	refA, errA := refsm2.KeyExchange(klen, idA, idB, A.d, A.p, B.p, rA.d, rA.p, rB.p, true)
	refB, errB := refsm2.KeyExchange(klen, idA, idB, B.d, B.p, A.p, rB.d, rB.p, rA.p, false)
	if errA != nil || errB != nil {
		c.Note("reference refuses %s: %v %v", tag, errA, errB)
		return
	}
	if !bytes.Equal(refA.K, refB.K) {
		panic("reference sides disagree")
	}
	var ka, s1a, s2a, kb, s1b, s2b []byte
	var ea, eb error
	if c.Guard("kx-panic:A", "KeyExchangeA ["+tag+"]", nil, func() {
		ka, s1a, s2a, ea = sm2.KeyExchangeA(klen, idA, idB, libKey(A.d, A.p), &libKey(B.d, B.p).PublicKey, libKey(rA.d, rA.p), &libKey(rB.d, rB.p).PublicKey)
	}) {
		return
	}
	if c.Guard("kx-panic:B", "KeyExchangeB ["+tag+"]", nil, func() {
		kb, s1b, s2b, eb = sm2.KeyExchangeB(klen, idA, idB, libKey(B.d, B.p), &libKey(A.d, A.p).PublicKey, libKey(rB.d, rB.p), &libKey(rA.d, rA.p).PublicKey)
	}) {
		return
	}
	if ea != nil || eb != nil {
		c.Violate("kx-error", fmt.Sprintf("[%s] honest exchange failed: A=%v B=%v", tag, ea, eb), nil, nil)
		return
	}
	vcls := "V-full"
	if len(refA.V.X.Bytes()) < 32 || len(refA.V.Y.Bytes()) < 32 {
		vcls = "V-leading-zero"
	}
	ecls := "R-full"
	for _, v := range []*big.Int{rA.p.X, rA.p.Y, rB.p.X, rB.p.Y} {
		if len(v.Bytes()) < 32 {
			ecls = "R-leading-zero"
		}
	}
	if !bytes.Equal(ka, kb) {
		c.Violate("kx-sides-differ:K", fmt.Sprintf("[%s] initiator key %x != responder key %x", tag, ka, kb), nil, nil)
	}
	if !bytes.Equal(s1a, s1b) || !bytes.Equal(s2a, s2b) {
		c.Violate("kx-sides-differ:S", fmt.Sprintf("[%s] confirmation values differ between the sides", tag), nil, nil)
	}
	if !bytes.Equal(ka, refA.K) || len(ka) != klen {
		c.Violate(fmt.Sprintf("kx-key-vs-standard:%s", vcls), fmt.Sprintf("[%s] shared key %s, GM/T 0003.3 prescribes %s", tag, pu.Hex(ka), pu.Hex(refA.K)), nil, nil)
	}
	if !bytes.Equal(s1a, refA.S1) || !bytes.Equal(s1b, refA.S1) {
		c.Violate(fmt.Sprintf("kx-S1-vs-standard:%s:%s", vcls, ecls), fmt.Sprintf("[%s] S1/SB = %x (A) %x (B), GM/T 0003.3 prescribes %x", tag, s1a, s1b, refA.S1), nil, nil)
	}
	if !bytes.Equal(s2a, refA.S2) || !bytes.Equal(s2b, refA.S2) {
		c.Violate(fmt.Sprintf("kx-S2-vs-standard:%s:%s", vcls, ecls), fmt.Sprintf("[%s] S2/SA = %x (A) %x (B), GM/T 0003.3 prescribes %x", tag, s2a, s2b, refA.S2), nil, nil)
	}
	if c.WantSample() {
		c.Sample(tag)
	}
}

func hexInt(s string) *big.Int { v, _ := new(big.Int).SetString(s, 16); return v }

func exampleUnit() harness.Unit {
	return harness.Unit{Name: "gmt-0003.5-example", Run: func(c *harness.Ctx) {
		A := mkParty(hexInt("81EB26E941BB5AF16DF116495F90695272AE2CD63D6C4AE1678418BE48230029"))
		B := mkParty(hexInt("785129917D45A9EA5437A59356B82338EAADDA6CEB199088F14AE10DEFA229B5"))
		rA := mkParty(hexInt("D4DE15474DB74D06491C440D305E012400990F3E390C7E87153C12DB2EA60BB3"))
		rB := mkParty(hexInt("7E07124814B309489125EAED101113164EBF0F3458C5BD88335C1F9D596243D6"))
		id := []byte("1234567812345678")
		exchange(c, "GM/T 0003.5 example klen=16", 16, id, id, A, B, rA, rB)
		for _, kl := range klens {
			exchange(c, fmt.Sprintf("GM/T 0003.5 example keys klen=%d", kl), kl, id, id, A, B, rA, rB)
		}
	}}
}

// identityFormsUnit: an identity is a byte string; the EMPTY one has two spellings in Go (nil and a
// non-nil slice of length 0) and one meaning in the standard (ENTL = 0). Every pair of identities
// over {nil, empty, one byte, the 16-byte default identity, 17 bytes} runs through the common check,
// and for the empty identity the two parties use DIFFERENT spellings - they must still agree with
// each other and with the standard.
func identityFormsUnit() harness.Unit {
	return harness.Unit{Name: "identity-forms", Run: func(c *harness.Ctx) {
		A := mkParty(hexInt("81EB26E941BB5AF16DF116495F90695272AE2CD63D6C4AE1678418BE48230029"))
		B := mkParty(hexInt("785129917D45A9EA5437A59356B82338EAADDA6CEB199088F14AE10DEFA229B5"))
		rA := mkParty(hexInt("D4DE15474DB74D06491C440D305E012400990F3E390C7E87153C12DB2EA60BB3"))
		rB := mkParty(hexInt("7E07124814B309489125EAED101113164EBF0F3458C5BD88335C1F9D596243D6"))
		type idf struct {
			name string
			b    []byte
		}
		forms := []idf{{"nil", nil}, {"empty", []byte{}}, {"one byte", []byte{0x31}}, {"default 16 bytes", []byte("1234567812345678")}, {"17 bytes", []byte("12345678123456789")}}
		for _, fa := range forms {
			for _, fb := range forms {
				exchange(c, fmt.Sprintf("idA=%s idB=%s klen=16", fa.name, fb.name), 16, fa.b, fb.b, A, B, rA, rB)
			}
		}
		// the same empty identity spelled differently by the two parties
		spell := [][]byte{nil, {}}
		for ia := 0; ia < 2; ia++ {
			for ib := 0; ib < 2; ib++ {
				for _, other := range []idf{{"empty", []byte{}}, {"default 16 bytes", []byte("1234567812345678")}} {
					for _, emptyIsA := range []bool{true, false} {
						tag := fmt.Sprintf("empty identity of %s spelled %v by A and %v by B, other identity %s", map[bool]string{true: "A", false: "B"}[emptyIsA], []string{"nil", "[]byte{}"}[ia], []string{"nil", "[]byte{}"}[ib], other.name)
						idAforA, idBforA, idAforB, idBforB := spell[ia], other.b, spell[ib], other.b
						if !emptyIsA {
							idAforA, idBforA, idAforB, idBforB = other.b, spell[ia], other.b, spell[ib]
						}
						c.Add("evaluations", 1)
						c.DistinctS("nontrivial", tag)
						ref, err := refsm2.KeyExchange(16, append([]byte{}, idAforA...), append([]byte{}, idBforA...), A.d, A.p, B.p, rA.d, rA.p, rB.p, true)
						if err != nil {
							continue
						}
						var ka, kb []byte
						var ea, eb error
						if c.Guard("kx-panic:A", "KeyExchangeA ["+tag+"]", nil, func() {
							ka, _, _, ea = sm2.KeyExchangeA(16, idAforA, idBforA, libKey(A.d, A.p), &libKey(B.d, B.p).PublicKey, libKey(rA.d, rA.p), &libKey(rB.d, rB.p).PublicKey)
						}) {
							continue
						}
						if c.Guard("kx-panic:B", "KeyExchangeB ["+tag+"]", nil, func() {
							kb, _, _, eb = sm2.KeyExchangeB(16, idAforB, idBforB, libKey(B.d, B.p), &libKey(A.d, A.p).PublicKey, libKey(rB.d, rB.p), &libKey(rA.d, rA.p).PublicKey)
						}) {
							continue
						}
						if ea != nil || eb != nil {
							c.Violate("kx-error:identity-forms", fmt.Sprintf("[%s] honest exchange failed: A=%v B=%v", tag, ea, eb), nil, nil)
							continue
						}
						if !bytes.Equal(ka, kb) {
							c.Violate("kx-sides-differ:K:identity-spelling", fmt.Sprintf("[%s] initiator key %x != responder key %x", tag, ka, kb), nil, nil)
						} else if !bytes.Equal(ka, ref.K) {
							c.Violate("kx-key-vs-standard:identity-spelling", fmt.Sprintf("[%s] shared key %x, GM/T 0003.3 prescribes %x", tag, ka, ref.K), nil, nil)
						}
					}
				}
			}
		}
		c.Sample("5 x 5 identity forms incl. nil and empty; the empty identity spelled nil by one party and []byte{} by the other")
	}}
}

// shortXUnit: peer ephemeral points whose x coordinate is SHORT - around 2^127 and 2^128 (x~ keeps the
// low 127 bits and sets bit 127: the boundary of that rule), 2^64, 2^8, and full-size controls. Such
// points are constructed from x (y is a square root of the curve equation), so nobody knows their
// discrete logarithm: the party under test is checked one-sidedly against the reference, in both
// roles and for its own keys from the alphabet.
func shortXUnit() harness.Unit {
	return harness.Unit{Name: "peer-ephemeral-with-short-x", Run: func(c *harness.Ctx) {
		keys := sm2k.Alphabet()
		id := []byte("1234567812345678")
		var pts []refsm2.Point
		for _, e := range []uint{8, 64, 126, 127, 128, 129, 200} {
			for _, delta := range []int64{-1, 0} {
				found := 0
				x := new(big.Int).Lsh(big.NewInt(1), e)
				if delta < 0 {
					x.Sub(x, big.NewInt(1))
				}
				for tries := 0; tries < 400 && found < 2; tries++ {
					rhs := new(big.Int).Exp(x, big.NewInt(3), refsm2.P)
					rhs.Add(rhs, new(big.Int).Mul(refsm2.A, x))
					rhs.Add(rhs, refsm2.B)
					rhs.Mod(rhs, refsm2.P)
					if y := new(big.Int).ModSqrt(rhs, refsm2.P); y != nil {
						pts = append(pts, refsm2.Point{X: new(big.Int).Set(x), Y: y})
						found++
					}
					if delta < 0 {
						x.Sub(x, big.NewInt(1))
					} else {
						x.Add(x, big.NewInt(1))
					}
				}
			}
		}
		for pi, R := range pts {
			if !refsm2.OnCurve(R.X, R.Y) {
				c.Note("constructed point %d is not on the curve", pi)
				c.Add("harness_divergences", 1)
				continue
			}
			self := party{keys[(pi+5)%len(keys)].D, keys[(pi+5)%len(keys)].Pub}
			peer := party{keys[(pi+8)%len(keys)].D, keys[(pi+8)%len(keys)].Pub}
			rSelf := party{keys[(pi+6)%len(keys)].D, keys[(pi+6)%len(keys)].Pub}
			for _, asA := range []bool{true, false} {
				tag := fmt.Sprintf("peer ephemeral x = %x (%d bits), party under test is initiator=%v", R.X, R.X.BitLen(), asA)
				c.Add("evaluations", 1)
				c.DistinctS("nontrivial", tag)
				ref, err := refsm2.KeyExchange(16, id, id, self.d, self.p, peer.p, rSelf.d, rSelf.p, R, asA)
				if err != nil {
					continue
				}
				var k, s1, s2 []byte
				var kerr error
				Rpub := &sm2.PublicKey{Curve: sm2.P256Sm2(), X: R.X, Y: R.Y}
				if c.Guard("kx-panic:short-x", tag, nil, func() {
					if asA {
						k, s1, s2, kerr = sm2.KeyExchangeA(16, id, id, libKey(self.d, self.p), &libKey(peer.d, peer.p).PublicKey, libKey(rSelf.d, rSelf.p), Rpub)
					} else {
						k, s1, s2, kerr = sm2.KeyExchangeB(16, id, id, libKey(self.d, self.p), &libKey(peer.d, peer.p).PublicKey, libKey(rSelf.d, rSelf.p), Rpub)
					}
				}) {
					continue
				}
				if kerr != nil {
					c.Violate("kx-error:short-x", fmt.Sprintf("[%s] %v", tag, kerr), nil, nil)
					continue
				}
				if !bytes.Equal(k, ref.K) || !bytes.Equal(s1, ref.S1) || !bytes.Equal(s2, ref.S2) {
					c.Violate(fmt.Sprintf("kx-vs-standard:peer-ephemeral-x-%d-bits", R.X.BitLen()), fmt.Sprintf("[%s] K=%x S1=%x S2=%x, GM/T 0003.3 prescribes K=%x S1=%x S2=%x", tag, k, s1, s2, ref.K, ref.S1, ref.S2), nil, nil)
				}
			}
		}
		c.Sample(fmt.Sprintf("%d constructed peer ephemeral points with x just below / at 2^8, 2^64, 2^126..2^129, 2^200, both roles", len(pts)))
	}}
}

func productUnit(ai int, tier string) harness.Unit {
	return harness.Unit{Name: fmt.Sprintf("product/keyA=%d", ai), Run: func(c *harness.Ctx) {
		keys := sm2k.Alphabet()
		A := party{keys[ai].D, keys[ai].Pub}
		n := len(keys)
		cnt := 0
		for bj := 0; bj < n; bj++ {
			B := party{keys[bj].D, keys[bj].Pub}
			for ei := 0; ei < n; ei++ {
				// pairwise pruning: ephemeral indices tied to (a,b,e) so that each pair of factors co-occurs
				ej := (ai + 2*bj + 3*ei + 1) % n
				rA := party{keys[ei].D, keys[ei].Pub}
				rB := party{keys[ej].D, keys[ej].Pub}
				if keys[ei].D.Cmp(big.NewInt(1)) == 0 || keys[ej].D.Cmp(big.NewInt(1)) == 0 {
					// ephemeral d=1 is fine mathematically; keep it
				}
				kl := klens[(ai+bj+ei)%len(klens)]
				la := idLens[(ai+ei)%len(idLens)]
				lb := idLens[(bj+2*ei)%len(idLens)]
				tag := fmt.Sprintf("A=%s B=%s rA=%s rB=%s |idA|=%d |idB|=%d klen=%d", keys[ai].Name, keys[bj].Name, keys[ei].Name, keys[ej].Name, la, lb, kl)
				exchange(c, tag, kl, pu.Msg(1, la), pu.Msg(2, lb), A, B, rA, rB)
				cnt++
			}
		}
	}}
}

// lengthProductUnit (thorough): the FULL product of key lengths and identity lengths on a few key
// combinations (the product units pair them only pairwise).
func lengthProductUnit(part, parts int) harness.Unit {
	return harness.Unit{Name: fmt.Sprintf("length-product/part%d", part), Run: func(c *harness.Ctx) {
		keys := sm2k.Alphabet()
		combos := [][4]int{{5, 6, 7, 8}, {0, 11, 3, 9}, {9, 10, 1, 2}, {4, 5, 10, 11}}
		n := 0
		for ci, cb := range combos {
			A, B := party{keys[cb[0]].D, keys[cb[0]].Pub}, party{keys[cb[1]].D, keys[cb[1]].Pub}
			rA, rB := party{keys[cb[2]].D, keys[cb[2]].Pub}, party{keys[cb[3]].D, keys[cb[3]].Pub}
			for _, kl := range append(append([]int{}, klens...), 2, 63, 65, 96, 4096) {
				for _, la := range idLens {
					for _, lb := range idLens {
						n++
						if n%parts != part {
							continue
						}
						exchange(c, fmt.Sprintf("combo %d |idA|=%d |idB|=%d klen=%d", ci, la, lb, kl), kl, pu.Msg(1, la), pu.Msg(2, lb), A, B, rA, rB)
					}
				}
			}
		}
	}}
}

// coincidenceUnit: key pairs CONSTRUCTED so that the point additions inside the exchange meet
// their special cases: the peer's long-term point equals [x~]R_peer (the sum P + [x~]R is a
// doubling), and, for the own side, t = d + x~ r takes the values 1, 2 and n-1. All are valid
// exchanges (the reference computes an ordinary key), so both sides must return that key.
func coincidenceUnit() harness.Unit {
	return harness.Unit{Name: "constructed-coincidences", Run: func(c *harness.Ctx) {
		keys := sm2k.Alphabet()
		id := []byte("1234567812345678")
		n := refsm2.N
		for i, rk := range []int{5, 6, 8, 9, 10} {
			r := keys[rk].D
			R := keys[rk].Pub
			xb := refsm2.XBar(R.X)
			// peer long-term key with P = [x~]R: d = x~ * r mod n
			d := new(big.Int).Mul(xb, r)
			d.Mod(d, n)
			if d.Sign() == 0 || d.Cmp(new(big.Int).Sub(n, big.NewInt(1))) >= 0 {
				continue
			}
			peer := mkParty(d)
			rPeer := party{r, R}
			self := party{keys[(rk+3)%len(keys)].D, keys[(rk+3)%len(keys)].Pub}
			rSelf := party{keys[(rk+5)%len(keys)].D, keys[(rk+5)%len(keys)].Pub}
			// the constructed party as responder and as initiator
			exchange(c, fmt.Sprintf("peer long-term point equals [x~]R of its ephemeral (r=%s), peer is B", keys[rk].Name), 16+i, id, id, self, peer, rSelf, rPeer)
			exchange(c, fmt.Sprintf("peer long-term point equals [x~]R of its ephemeral (r=%s), peer is A", keys[rk].Name), 32, id, id, peer, self, rPeer, rSelf)
			// own t = d + x~ r in {1, 2, n-1}: d = t - x~ r
			for _, tv := range []*big.Int{big.NewInt(1), big.NewInt(2), new(big.Int).Sub(n, big.NewInt(1))} {
				d2 := new(big.Int).Sub(tv, new(big.Int).Mul(xb, r))
				d2.Mod(d2, n)
				if d2.Sign() == 0 || d2.Cmp(new(big.Int).Sub(n, big.NewInt(1))) >= 0 {
					continue
				}
				own := mkParty(d2)
				exchange(c, fmt.Sprintf("own t = d + x~ r equals %s (r=%s), as A", tv.String()[:1], keys[rk].Name), 16, id, id, own, self, rPeer, rSelf)
				exchange(c, fmt.Sprintf("own t = d + x~ r equals %s (r=%s), as B", tv.String()[:1], keys[rk].Name), 16, id, id, self, own, rSelf, rPeer)
			}
			// own t = 0: d = -(x~ r); then V = [h t]U is the point at infinity whatever the peer sent and
			// the standard prescribes failure (A7 / B6) - in both roles, for several key lengths
			d0 := new(big.Int).Mul(xb, r)
			d0.Mod(d0.Neg(d0), n)
			if d0.Sign() > 0 && d0.Cmp(new(big.Int).Sub(n, big.NewInt(1))) < 0 {
				own0 := mkParty(d0)
				for _, kl := range []int{1, 16, 100} {
					for _, asA := range []bool{true, false} {
						what := fmt.Sprintf("own t = d + x~ r = 0 (r=%s), as initiator=%v, klen=%d", keys[rk].Name, asA, kl)
						c.Add("evaluations", 1)
						c.DistinctS("nontrivial", what)
						var k []byte
						var err error
						if c.Guard("kx-panic:own-t-zero", what, nil, func() {
							if asA {
								k, _, _, err = sm2.KeyExchangeA(kl, id, id, libKey(own0.d, own0.p), &libKey(self.d, self.p).PublicKey, libKey(rPeer.d, rPeer.p), &libKey(rSelf.d, rSelf.p).PublicKey)
							} else {
								k, _, _, err = sm2.KeyExchangeB(kl, id, id, libKey(own0.d, own0.p), &libKey(self.d, self.p).PublicKey, libKey(rPeer.d, rPeer.p), &libKey(rSelf.d, rSelf.p).PublicKey)
							}
						}) {
							continue
						}
						if err == nil {
							c.Violate("kx-accepts-V-infinite:own-t-zero", fmt.Sprintf("%s: the shared point is infinite, the library returned key %x instead of an error", what, k), nil, nil)
						}
					}
				}
			}
		}
	}}
}

// shortVUnit searches ephemerals for which the shared point V has a leading zero byte.
func shortVUnit() harness.Unit {
	return harness.Unit{Name: "shared-point-leading-zero", Run: func(c *harness.Ctx) {
		keys := sm2k.Alphabet()
		A := party{keys[5].D, keys[5].Pub}
		B := party{keys[8].D, keys[8].Pub}
		rB := mkParty(hexInt("7E07124814B309489125EAED101113164EBF0F3458C5BD88335C1F9D596243D6"))
		id := []byte("1234567812345678")
		found := 0
		for r := int64(2); r < 3000 && found < 4; r++ {
			rA := mkParty(big.NewInt(r))
			res, err := refsm2.KeyExchange(16, id, id, A.d, A.p, B.p, rA.d, rA.p, rB.p, true)
			if err != nil {
				continue
			}
			if len(res.V.X.Bytes()) < 32 || len(res.V.Y.Bytes()) < 32 {
				found++
				for _, kl := range []int{16, 33} {
					exchange(c, fmt.Sprintf("V with leading zero byte (rA=%d) klen=%d", r, kl), kl, id, id, A, B, rA, rB)
				}
			}
		}
		c.Note("ephemerals with short shared-point coordinates found: %d", found)
	}}
}

func rejectUnit() harness.Unit {
	return harness.Unit{Name: "bad-peer-ephemeral", Run: func(c *harness.Ctx) {
		keys := sm2k.Alphabet()
		id := []byte("1234567812345678")
		for ai := 0; ai < len(keys); ai += 2 {
			A := party{keys[ai].D, keys[ai].Pub}
			B := party{keys[(ai+1)%len(keys)].D, keys[(ai+1)%len(keys)].Pub}
			rA := mkParty(big.NewInt(int64(1000 + ai)))
			rB := mkParty(big.NewInt(int64(2000 + ai)))
			bad := map[string][2]*big.Int{
				"x+1":                            {new(big.Int).Add(rB.p.X, big.NewInt(1)), rB.p.Y},
				"x-1":                            {new(big.Int).Sub(rB.p.X, big.NewInt(1)), rB.p.Y},
				"y+1":                            {rB.p.X, new(big.Int).Add(rB.p.Y, big.NewInt(1))},
				"infinity":                       {big.NewInt(0), big.NewInt(0)},
				"order-2 on another curve (2,0)": {big.NewInt(2), big.NewInt(0)},
				"x,y swapped":                    {rB.p.Y, rB.p.X},
			}
			for name, xy := range bad {
				for _, initiator := range []bool{true, false} {
					c.Add("evaluations", 1)
					c.DistinctS("nontrivial", fmt.Sprintf("bad/%d/%s/%v", ai, name, initiator))
					peer := &sm2.PublicKey{Curve: sm2.P256Sm2(), X: xy[0], Y: xy[1]}
					var k []byte
					var err error
					what := fmt.Sprintf("key exchange (initiator=%v) with peer ephemeral %s", initiator, name)
					if c.Guard("kx-panic:bad-ephemeral:"+name, what, nil, func() {
						if initiator {
							k, _, _, err = sm2.KeyExchangeA(16, id, id, libKey(A.d, A.p), &libKey(B.d, B.p).PublicKey, libKey(rA.d, rA.p), peer)
						} else {
							k, _, _, err = sm2.KeyExchangeB(16, id, id, libKey(A.d, A.p), &libKey(B.d, B.p).PublicKey, libKey(rA.d, rA.p), peer)
						}
					}) {
						continue
					}
					if err == nil {
						c.Violate("kx-accepts-bad-ephemeral:"+name, fmt.Sprintf("%s (keys %s/%s) returned a key %x instead of an error", what, keys[ai].Name, keys[(ai+1)%len(keys)].Name, k), nil, nil)
					}
				}
			}
			// V = infinity: the peer's long-term key is chosen as -[x̄(R)]R
			R := rB.p
			pp := refsm2.Neg(refsm2.Mul(refsm2.XBar(R.X), R))
			c.Add("evaluations", 1)
			var k []byte
			var err error
			if !c.Guard("kx-panic:V-infinite", "key exchange with V = infinity", nil, func() {
				k, _, _, err = sm2.KeyExchangeA(16, id, id, libKey(A.d, A.p), &sm2.PublicKey{Curve: sm2.P256Sm2(), X: pp.X, Y: pp.Y}, libKey(rA.d, rA.p), &sm2.PublicKey{Curve: sm2.P256Sm2(), X: R.X, Y: R.Y})
			}) {
				if err == nil {
					c.Violate("kx-accepts-V-infinite", fmt.Sprintf("peer long-term key -[x̄]R makes the shared point infinite; the library returned key %x instead of an error", k), nil, nil)
				}
			}
		}
		c.Sample("peer ephemeral off the curve (x+-1, y+1, swapped, (0,0), (2,0)) in both roles; V = infinity")
	}}
}

// Prop registers C13.
var Prop = &harness.Prop{
	ID:          "C13",
	Level:       "exploration",
	Rule:        "products over the 12-key alphabet (boundary d, GM/T keys, coordinates with leading zero bytes) for long-term and ephemeral keys (pairwise-pruned index schedule), identity lengths {0,1,16,255,8191}, key lengths {1,15,16,17,31,32,33,48,64,1024}; the GM/T 0003.5 worked example; ephemerals found by search whose shared point has a leading zero byte; both roles run on the library and K, S1, S2 are compared between the sides and with the independent GM/T 0003.3 reference; keys constructed so that the peer's long-term point equals [x~]R of its ephemeral (the inner addition is a doubling) and so that the own t = d + x~ r is 1, 2 or n-1; off-curve / infinite peer ephemerals and V = infinity must give an error. Distinct/non-trivial = distinct case labels. Identity forms: 5 x 5 identities incl. nil and the empty slice, and the empty identity spelled nil by one party and []byte{} by the other. Own keys with t = d + x~ r = 0 (error required, both roles); peer ephemeral points constructed from chosen x just below / at 2^8, 2^64, 2^126..2^129, 2^200, checked one-sidedly against the reference.",
	Assumptions: []string{"refsm2 correct (its key-exchange reproduces the GM/T 0003.5 example: K, S1/SB, S2/SA)", "klen is in bytes as the library API defines it"},
	Bounds: func(tier string) string {
		return "all 12x12x12 (A,B,ephemeral-index) combinations with key and identity lengths rotated pairwise" + map[bool]string{true: "; full product of 15 key lengths x 5 x 5 identity lengths on 4 key combinations", false: ""}[tier == "thorough"]
	},
	Units: func(tier string) []harness.Unit {
		u := []harness.Unit{exampleUnit(), shortVUnit(), rejectUnit(), coincidenceUnit(), identityFormsUnit(), shortXUnit()}
		for i := range sm2k.Alphabet() {
			u = append(u, productUnit(i, tier))
		}
		if tier == "thorough" {
			for p := 0; p < 16; p++ {
				u = append(u, lengthProductUnit(p, 16))
			}
		}
		return u
	},
}
