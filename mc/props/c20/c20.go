// Package c20: results do not depend on goroutine interleaving; shared objects are race-free
// (DESIGN §3 C20). Built only by cmd/check20 with the overlay produced by cmd/instr.
package c20

import (
	"bytes"
	"crypto/cipher"
	"fmt"
	"math/big"
	"os"
	"sort"
	"strings"
	gosync "sync"

	"github.com/tjfoc/gmsm/sm2"
	"github.com/tjfoc/gmsm/sm3"
	"github.com/tjfoc/gmsm/sm4"
	gx509 "github.com/tjfoc/gmsm/x509"
	"github.com/tjfoc/gmsm/zzverif/vsched"

	"verif/mc/harness"
	"verif/mc/props/pu"
	"verif/mc/props/sm2k"
	"verif/mc/xp"
)

// scenario: threads operating on one shared state; every thread's result must equal the result
// the same call gives when it runs alone (the operations are on separate data or on objects that
// promise to be shareable), i.e. the outcome of SOME sequential order.
type scenario struct {
	name    string
	stmt    bool // use statement-level scheduling points
	strict  bool // bound ALL departures from the default schedule (which thread continues after a block), not only preemptions
	bound   int  // preemption bound (quick)
	boundT  int  // preemption bound (thorough)
	setup   func() interface{}
	threads []func(st interface{}) interface{}
	// accept decides whether the vector of results is the outcome of some sequential order; nil
	// means: every result equals the solo result of that thread on a fresh state.
	accept func(st interface{}, res []interface{}) string
}

type chooser struct {
	x      *xp.X
	strict bool // every departure from the default continuation costs one deviation, not only preemptions
}

func (c chooser) Choose(n int, preempt bool, label string) int {
	if preempt || c.strict {
		return c.x.Choose(n, label)
	}
	return c.x.Pick(n, label)
}

func fmtRes(v interface{}) string {
	switch t := v.(type) {
	case []byte:
		return pu.Hex(t)
	case nil:
		return "nil"
	}
	return fmt.Sprint(v)
}

func same(a, b interface{}) bool {
	ab, ok1 := a.([]byte)
	bb, ok2 := b.([]byte)
	if ok1 && ok2 {
		return bytes.Equal(ab, bb)
	}
	return fmt.Sprint(a) == fmt.Sprint(b)
}

func scenarioUnit(sc scenario) harness.Unit {
	return harness.Unit{Name: "sched/" + sc.name, Run: func(c *harness.Ctx) {
		// solo results
		solo := make([]interface{}, len(sc.threads))
		if sc.accept == nil { // scenarios with their own acceptance test may have threads that cannot run alone
			for i, th := range sc.threads {
				solo[i] = th(sc.setup())
			}
		}
		bound := sc.bound
		if c.Thorough() {
			bound = sc.boundT
		}
		// determinism gate: the default schedule twice
		run := func(x *xp.X) (*vsched.Sched, []vsched.Result, interface{}) {
			st := sc.setup()
			var bodies []func() interface{}
			for _, th := range sc.threads {
				th := th
				bodies = append(bodies, func() interface{} { return th(st) })
			}
			s, res := vsched.Run(chooser{x, sc.strict}, sc.stmt, 200000, bodies...)
			return s, res, st
		}
		g1, r1, _ := run(xp.Run(nil, func(*xp.X) {}))
		g2, r2, _ := run(xp.Run(nil, func(*xp.X) {}))
		if fmt.Sprint(g1.Trace) != fmt.Sprint(g2.Trace) || len(r1) != len(r2) {
			c.Note("HARNESS NON-DETERMINISM in %s: the default schedule does not replay", sc.name)
			c.Add("harness_divergences", 1)
			return
		}
		c.Explore(bound, func(x *xp.X) {
			s, res, st := run(x)
			c.Add("transitions", int64(s.Points))
			if s.Deadlock {
				c.Violate("deadlock:"+sc.name, fmt.Sprintf("%s: no enabled thread although threads are unfinished; schedule %v", sc.name, s.Trace), x.Choices, nil)
				c.DistinctS("outcomes", "deadlock")
				return
			}
			if s.Horizon {
				c.Violate("livelock-or-horizon:"+sc.name, fmt.Sprintf("%s: more than %d scheduling points", sc.name, s.MaxPoints), x.Choices, nil)
				return
			}
			var vals []interface{}
			for i, r := range res {
				if r.Panic != nil {
					c.Violate(fmt.Sprintf("panic:%s:thread%d", sc.name, i), fmt.Sprintf("%s: thread %d panicked under schedule %v: %v\n%s", sc.name, i, s.Trace, r.Panic, r.Stack[:min(len(r.Stack), 1200)]), x.Choices, nil)
					c.DistinctS("outcomes", "panic")
					return
				}
				vals = append(vals, r.Value)
			}
			out := ""
			for _, v := range vals {
				out += fmtRes(v) + "|"
			}
			c.DistinctS("outcomes", out)
			c.DistinctS("states", fmt.Sprint(s.Trace))
			if sc.accept != nil {
				if why := sc.accept(st, vals); why != "" {
					c.Violate("not-sequential:"+sc.name, fmt.Sprintf("%s: %s (schedule %v)", sc.name, why, s.Trace), x.Choices, nil)
				}
				return
			}
			for i := range vals {
				if !same(vals[i], solo[i]) {
					c.Violate(fmt.Sprintf("result-depends-on-interleaving:%s", sc.name), fmt.Sprintf("%s: thread %d returned %s, alone it returns %s (schedule %v)", sc.name, i, fmtRes(vals[i]), fmtRes(solo[i]), s.Trace), x.Choices, nil)
					return
				}
			}
			if c.WantSample() {
				c.Sample(fmt.Sprintf("%s schedule %v", sc.name, s.Trace))
			}
		}, nil)
	}}
}

// ---- scenarios ---------------------------------------------------------------------------------

func key16(i int) []byte { return pu.Msg(i*31+7, 16) }

// blockScenario: n threads on one FRESH cipher object; pattern gives each thread's operation
// ('E' or 'D'), so that first uses of either direction overlap.
func blockScenario(pattern string) scenario {
	n := len(pattern)
	sc := scenario{name: fmt.Sprintf("shared-sm4-block/%s", pattern), stmt: true, bound: 2, boundT: 3,
		setup: func() interface{} { b, _ := sm4.NewCipher(key16(1)); return b }}
	for i := 0; i < n; i++ {
		i := i
		sc.threads = append(sc.threads, func(st interface{}) interface{} {
			blk := st.(cipher.Block)
			out := make([]byte, 16)
			if pattern[i] == 'E' {
				blk.Encrypt(out, pu.Msg(100+i, 16))
			} else {
				blk.Decrypt(out, pu.Msg(100+i, 16))
			}
			return out
		})
	}
	if n > 2 {
		sc.bound, sc.boundT = 1, 2
	}
	return sc
}

func cbcScenario() scenario {
	// how gmtls uses the cipher: one Block per direction, each driven by one goroutine
	return scenario{name: "sm4-block-per-direction(control)", stmt: true, bound: 1, boundT: 2,
		setup: func() interface{} {
			a, _ := sm4.NewCipher(key16(2))
			b, _ := sm4.NewCipher(key16(2))
			return [2]cipher.Block{a, b}
		},
		threads: []func(interface{}) interface{}{
			func(st interface{}) interface{} {
				out := make([]byte, 32)
				cipher.NewCBCEncrypter(st.([2]cipher.Block)[0], key16(3)).CryptBlocks(out, pu.Msg(1, 32))
				return out
			},
			func(st interface{}) interface{} {
				out := make([]byte, 32)
				cipher.NewCBCDecrypter(st.([2]cipher.Block)[1], key16(3)).CryptBlocks(out, pu.Msg(2, 32))
				return out
			},
		}}
}

func helpersScenario() scenario {
	return scenario{name: "package-level-sm4-helpers", stmt: true, bound: 1, boundT: 2,
		setup: func() interface{} { return nil },
		threads: []func(interface{}) interface{}{
			func(interface{}) interface{} { o, _ := sm4.Sm4Cbc(key16(4), pu.Msg(1, 20), true); return o },
			func(interface{}) interface{} { o, _ := sm4.Sm4Ecb(key16(5), pu.Msg(2, 20), true); return o },
		}}
}

func sm3Scenario() scenario {
	return scenario{name: "package-level-sm3", stmt: true, bound: 2, boundT: 3,
		setup: func() interface{} { return nil },
		threads: []func(interface{}) interface{}{
			func(interface{}) interface{} { return sm3.Sm3Sum(pu.Msg(1, 70)) },
			func(interface{}) interface{} {
				h := sm3.New()
				h.Write(pu.Msg(2, 10))
				h.Write(pu.Msg(3, 60))
				return h.Sum(nil)
			},
		}}
}

var p7once gosync.Once
var p7blob []byte

func pkcs7Blob() []byte {
	p7once.Do(func() {
		k := sm2k.Alphabet()[5].Lib()
		t := &gx509.Certificate{SerialNumber: big.NewInt(5), SignatureAlgorithm: gx509.SM2WithSM3}
		der, err := gx509.CreateCertificate(t, t, &k.PublicKey, k)
		if err != nil {
			panic(err)
		}
		crt, _ := gx509.ParseCertificate(der)
		p7blob, err = gx509.PKCS7EncryptSM2([]byte("content"), []*gx509.Certificate{crt}, sm2.C1C3C2)
		if err != nil {
			panic(err)
		}
	})
	return p7blob
}

func berScenario() scenario {
	blob := pkcs7Blob()
	f := func(interface{}) interface{} {
		p, err := gx509.ParsePKCS7(blob)
		return fmt.Sprint(p != nil, err)
	}
	return scenario{name: "parse-pkcs7-concurrently", stmt: true, bound: 1, boundT: 2, setup: func() interface{} { return nil },
		threads: []func(interface{}) interface{}{f, f}}
}

func curveInitScenario() scenario {
	// first use of the curve from several threads at once (Once shim + statement points in init)
	f := func(interface{}) interface{} {
		c := sm2.P256Sm2()
		x, y := c.ScalarBaseMult([]byte{7})
		return fmt.Sprintf("%x,%x,%x", c.Params().N, x, y)
	}
	return scenario{name: "first-use-of-curve", stmt: true, bound: 2, boundT: 3, setup: func() interface{} { return nil },
		threads: []func(interface{}) interface{}{f, f, f}}
}

// sm2Scenario: package-level SM2 operations on separate data, among them verifications under two
// RELATED keys (d and n-d share the x coordinate of their public points), so that any package-level
// state keyed too coarsely is shared between the threads. Scheduling points are the sync operations
// of the package (curve initialisation, any lock it takes).
func sm2Scenario() scenario {
	type fixture struct {
		k1, k2 *sm2.PrivateKey
		m1, m2 []byte
		r1, s1 *big.Int
		r2, s2 *big.Int
		ct     []byte
	}
	mkKey := func(d *big.Int) *sm2.PrivateKey {
		c := sm2.P256Sm2()
		x, y := c.ScalarBaseMult(d.Bytes())
		return &sm2.PrivateKey{PublicKey: sm2.PublicKey{Curve: c, X: x, Y: y}, D: d}
	}
	var fx *fixture
	var once gosync.Once
	get := func() *fixture {
		once.Do(func() {
			d := sm2k.Alphabet()[8].D
			f := &fixture{k1: mkKey(d), k2: mkKey(new(big.Int).Sub(sm2.P256Sm2().Params().N, d)), m1: pu.Msg(1, 20), m2: pu.Msg(2, 33)}
			var err error
			if f.r1, f.s1, err = sm2.Sm2Sign(f.k1, f.m1, nil, wire20{1}); err != nil {
				panic(err)
			}
			if f.r2, f.s2, err = sm2.Sm2Sign(f.k2, f.m2, nil, wire20{2}); err != nil {
				panic(err)
			}
			if f.ct, err = sm2.Encrypt(&f.k1.PublicKey, pu.Msg(3, 40), wire20{3}, sm2.C1C3C2); err != nil {
				panic(err)
			}
			fx = f
		})
		return fx
	}
	return scenario{name: "package-level-sm2(related keys)", stmt: false, bound: 2, boundT: 3,
		setup: func() interface{} { return get() },
		threads: []func(interface{}) interface{}{
			func(st interface{}) interface{} {
				f := st.(*fixture)
				return sm2.Sm2Verify(&f.k1.PublicKey, f.m1, nil, f.r1, f.s1)
			},
			func(st interface{}) interface{} {
				f := st.(*fixture)
				return sm2.Sm2Verify(&f.k2.PublicKey, f.m2, nil, f.r2, f.s2)
			},
			func(st interface{}) interface{} {
				f := st.(*fixture)
				p, err := sm2.Decrypt(f.k1, f.ct, sm2.C1C3C2)
				return fmt.Sprintf("%x %v", p, err)
			},
		}}
}

// pointReader is a deterministic nonce source whose Read is a pair of scheduling points (before and
// after it fills the caller's buffer): an operation that reads its randomness is interruptible there,
// as it is with a real, blocking source.
type pointReader struct{ seed byte }

func (w pointReader) Read(p []byte) (int, error) {
	vsched.Point()
	for i := range p {
		p[i] = byte(i*11) ^ w.seed ^ 0x3c
	}
	vsched.Point()
	return len(p), nil
}

// sm2NonceScenario: signing, encrypting and generating keys at the same time, each call with its own
// deterministic random stream. The result of each call is a function of its own stream alone (the
// value GM/T 0003 prescribes for that nonce), whatever the other calls do meanwhile.
func sm2NonceScenario() scenario {
	k := func() *sm2.PrivateKey {
		c := sm2.P256Sm2()
		d := sm2k.Alphabet()[8].D
		x, y := c.ScalarBaseMult(d.Bytes())
		return &sm2.PrivateKey{PublicKey: sm2.PublicKey{Curve: c, X: x, Y: y}, D: d}
	}
	return scenario{name: "package-level-sm2(own random streams)", stmt: false, bound: 2, boundT: 3,
		setup: func() interface{} { return k() },
		threads: []func(interface{}) interface{}{
			func(st interface{}) interface{} {
				r, s, err := sm2.Sm2Sign(st.(*sm2.PrivateKey), pu.Msg(1, 20), nil, pointReader{1})
				return fmt.Sprintf("%x %x %v", r, s, err)
			},
			func(st interface{}) interface{} {
				r, s, err := sm2.Sm2Sign(st.(*sm2.PrivateKey), pu.Msg(2, 33), nil, pointReader{2})
				return fmt.Sprintf("%x %x %v", r, s, err)
			},
			func(st interface{}) interface{} {
				ct, err := sm2.Encrypt(&st.(*sm2.PrivateKey).PublicKey, pu.Msg(3, 40), pointReader{3}, sm2.C1C3C2)
				return fmt.Sprintf("%x %v", ct, err)
			},
			func(st interface{}) interface{} {
				g, err := sm2.GenerateKey(pointReader{4})
				if err != nil {
					return err.Error()
				}
				return fmt.Sprintf("%x", g.D)
			},
		}}
}

// wire20 is a deterministic byte source for the fixtures.
type wire20 struct{ seed byte }

func (w wire20) Read(p []byte) (int, error) {
	for i := range p {
		p[i] = byte(i*7) ^ w.seed ^ 0x5a
	}
	return len(p), nil
}

func scenarios() []scenario {
	sc := []scenario{blockScenario("ED"), blockScenario("DD"), blockScenario("EE"), blockScenario("EDE"), blockScenario("DDD"), cbcScenario(), helpersScenario(), sm3Scenario(), berScenario(), sm2Scenario(), sm2NonceScenario()}
	return append(append(append(append(sc, connScenarios()...), handshakeScenarios()...), renegScenarios()...), keyedBadRecordScenarios()...)
}

var _ = sort.Strings
var _ = strings.Join
var _ = os.Getenv

// Prop registers C20.
var Prop = &harness.Prop{
	ID:          "C20",
	Level:       "model_checking",
	Rule:        "controlled scheduling of small colliding harnesses: the library is rebuilt with every sync/sync-atomic import redirected to scheduler-aware shims and with statement-level scheduling points in the functions that share plain memory; for each scenario all schedules with at most the stated number of preemptions are executed (iterative context bounding, stateless DFS with replay) and every thread's result is compared with the sequential outcome; deadlock = no enabled thread, horizon = step budget. gmtls connections run under the same scheduler over an in-memory transport whose blocking Read is a scheduler wait: on one established connection two and three concurrent Write calls (the peer must read one of the sequential orders), Read with Write, two Read calls, Write with Close (prefix oracle: Close is documented to break an in-flight Write), for both suites; two Handshake calls on one connection while the server answers; two simultaneous connections sharing server and client Config (first use of the Config, session cache, ticket-key rotation meanwhile; here every departure from the default schedule counts as a deviation). A separate free-running pass built with -race executes the same thread bodies and reports data races. states = distinct schedules, transitions = scheduling points executed. Race pass additions: key log written through per-connection clones handed out by GetConfigForClient (writer deliberately unsafe); a reference server renegotiating twice while two goroutines write, one reads and one polls ConnectionState (every Write must succeed). Controlled-scheduler scenario one-conn-renegotiation-read-write (TLS 1.2, both AES suites): the scripted reference server asks for a renegotiation while one goroutine reads and another writes; every schedule up to the preemption bound must give the sequential results. Race pass also: a structured certificate pool (key-id groups of 3 and 5 roots, roots without key id, intermediates, 24 leaves) verified by 8 goroutines; controlled scheduler also: a malformed inbound record header racing a writer on one connection. Further controlled-scheduler scenarios: package-level SM2 calls with own random streams (sync.Pool shim: Get/Put are scheduling points, LIFO reuse); a keyed reference server planting an oversized / wrong-MAC / unexpected-type record while a writer runs; two writers against CloseWrite.",
	Assumptions: []string{"scheduling points exist at synchronisation operations and at the statements of the instrumented functions; unsynchronised accesses elsewhere are the race pass's job", "SetIV and the PKCS#7 content-encryption selector are documented process-wide settings and are not run concurrently"},
	Bounds:      func(tier string) string { return "see per-scenario preemption bounds (quick 1-2, thorough 2-3)" },
	Units: func(tier string) []harness.Unit {
		var u []harness.Unit
		for _, sc := range scenarios() {
			u = append(u, scenarioUnit(sc))
		}
		u = append(u, raceUnit())
		return u
	},
}
