package c20

import (
	"bytes"
	"errors"
	"fmt"
	"io"
	"net"
	"strings"
	gosync "sync"
	"time"

	"github.com/tjfoc/gmsm/gmtls"
	"github.com/tjfoc/gmsm/zzverif/vsched"

	"verif/mc/ref/gmref"
	"verif/mc/tlsk"
	"verif/mc/wire"
)

// memConn is an in-memory duplex transport whose blocking is visible to the controlled scheduler:
// inside a controlled execution a Read on an empty buffer is a vsched.Wait, outside it is an
// ordinary condition wait. Writes never block.
type memHalf struct {
	mu     gosync.Mutex
	cond   *gosync.Cond
	buf    []byte
	closed bool
}

type memConn struct {
	r, w *memHalf
}

func newMemPair() (*memConn, *memConn) {
	a, b := &memHalf{}, &memHalf{}
	a.cond, b.cond = gosync.NewCond(&a.mu), gosync.NewCond(&b.mu)
	return &memConn{r: a, w: b}, &memConn{r: b, w: a}
}

func (c *memConn) Read(p []byte) (int, error) {
	h := c.r
	if vsched.Active() {
		vsched.Point()
		vsched.Wait(func() bool { return len(h.buf) > 0 || h.closed })
		h.mu.Lock()
	} else {
		h.mu.Lock()
		for len(h.buf) == 0 && !h.closed {
			h.cond.Wait()
		}
	}
	defer h.mu.Unlock()
	if len(h.buf) > 0 {
		n := copy(p, h.buf)
		h.buf = h.buf[n:]
		return n, nil
	}
	return 0, io.EOF
}

func (c *memConn) Write(p []byte) (int, error) {
	if vsched.Active() {
		vsched.Point()
	}
	h := c.w
	h.mu.Lock()
	defer h.mu.Unlock()
	if h.closed {
		return 0, errors.New("memconn: write on closed pipe")
	}
	h.buf = append(h.buf, p...)
	h.cond.Broadcast()
	return len(p), nil
}

func (c *memConn) Close() error {
	if vsched.Active() {
		vsched.Point()
	}
	for _, h := range []*memHalf{c.w, c.r} {
		h.mu.Lock()
		h.closed = true
		h.cond.Broadcast()
		h.mu.Unlock()
	}
	return nil
}

type memAddr struct{}

func (memAddr) Network() string                       { return "mem" }
func (memAddr) String() string                        { return "mem" }
func (c *memConn) LocalAddr() net.Addr                { return memAddr{} }
func (c *memConn) RemoteAddr() net.Addr               { return memAddr{} }
func (c *memConn) SetDeadline(t time.Time) error      { return nil }
func (c *memConn) SetReadDeadline(t time.Time) error  { return nil }
func (c *memConn) SetWriteDeadline(t time.Time) error { return nil }

// established is one GMSSL connection set up OUTSIDE the controlled execution (both handshakes
// run as ordinary goroutines to completion), so that a controlled execution starts from a
// quiescent, established pair.
type established struct {
	cl, sv  *gmtls.Conn
	ct, st  *memConn
	preload string
}

func establish(suite uint16, preload string) *established {
	p := tlsk.Get()
	s := &gmtls.Config{GMSupport: &gmtls.GMSupport{}, Certificates: []gmtls.Certificate{p.Sign, p.Enc}, Time: tlsk.FixedTime, Rand: wire.NewRand(3), CipherSuites: []uint16{suite}}
	c := &gmtls.Config{GMSupport: &gmtls.GMSupport{}, RootCAs: p.Roots, ServerName: tlsk.ServerName, Time: tlsk.FixedTime, Rand: wire.NewRand(4), CipherSuites: []uint16{suite}}
	a, b := newMemPair()
	e := &established{cl: gmtls.Client(a, c), sv: gmtls.Server(b, s), ct: a, st: b, preload: preload}
	ch := make(chan error, 1)
	go func() { ch <- e.sv.Handshake() }()
	if err := e.cl.Handshake(); err != nil {
		panic(err)
	}
	if err := <-ch; err != nil {
		panic(err)
	}
	if preload != "" {
		if _, err := e.sv.Write([]byte(preload)); err != nil {
			panic(err)
		}
	}
	return e
}

// drain: after the controlled execution the client's transport is closed for writing and the
// server reads everything that arrived.
func (e *established) drain() (string, error) {
	h := e.ct.w
	h.mu.Lock()
	h.closed = true
	h.cond.Broadcast()
	h.mu.Unlock()
	var got bytes.Buffer
	buf := make([]byte, 256)
	for {
		n, err := e.sv.Read(buf)
		got.Write(buf[:n])
		if err != nil {
			return got.String(), err
		}
	}
}

func wr(data string) func(st interface{}) interface{} {
	return func(st interface{}) interface{} {
		n, err := st.(*established).cl.Write([]byte(data))
		return fmt.Sprint(n, err)
	}
}

func connScenarios() []scenario {
	var out []scenario
	for _, suite := range []uint16{gmtls.GMTLS_ECC_SM4_CBC_SM3, gmtls.GMTLS_ECC_SM4_GCM_SM3} {
		suite := suite
		// two writers: the peer must read one of the two sequential orders
		out = append(out, scenario{name: fmt.Sprintf("one-conn-write-write/%04x", suite), bound: 2, boundT: 3,
			setup:   func() interface{} { return establish(suite, "") },
			threads: []func(interface{}) interface{}{wr("AAAAA"), wr("BBBBB")},
			accept: func(st interface{}, res []interface{}) string {
				got, _ := st.(*established).drain()
				if fmt.Sprint(res[0]) != "5 <nil>" || fmt.Sprint(res[1]) != "5 <nil>" {
					return fmt.Sprintf("Write results %v", res)
				}
				if got != "AAAAABBBBB" && got != "BBBBBAAAAA" {
					return fmt.Sprintf("the peer read %q, which is neither order of the two Write calls", got)
				}
				return ""
			}})
		// two writers whose buffers span several records each (Write cuts them into 16 KiB records)
		out = append(out, scenario{name: fmt.Sprintf("one-conn-large-write-write/%04x", suite), bound: 2, boundT: 3,
			setup:   func() interface{} { return establish(suite, "") },
			threads: []func(interface{}) interface{}{wr(strings.Repeat("A", 40000)), wr(strings.Repeat("B", 20000))},
			accept: func(st interface{}, res []interface{}) string {
				got, _ := st.(*established).drain()
				if fmt.Sprint(res[0]) != "40000 <nil>" || fmt.Sprint(res[1]) != "20000 <nil>" {
					return fmt.Sprintf("Write results %v", res)
				}
				a, b := strings.Repeat("A", 40000), strings.Repeat("B", 20000)
				if got != a+b && got != b+a {
					runs := ""
					for i := 0; i < len(got); {
						j := i
						for j < len(got) && got[j] == got[i] {
							j++
						}
						runs += fmt.Sprintf("%c*%d ", got[i], j-i)
						i = j
						if len(runs) > 120 {
							break
						}
					}
					return fmt.Sprintf("the peer read %d bytes in the runs %s- neither order of the two Write calls", len(got), runs)
				}
				return ""
			}})
		// three writers, one preemption fewer
		out = append(out, scenario{name: fmt.Sprintf("one-conn-write-write-write/%04x", suite), bound: 1, boundT: 2,
			setup:   func() interface{} { return establish(suite, "") },
			threads: []func(interface{}) interface{}{wr("AAAAA"), wr("BBBBB"), wr("CCCCC")},
			accept: func(st interface{}, res []interface{}) string {
				got, _ := st.(*established).drain()
				if len(got) != 15 {
					return fmt.Sprintf("the peer read %q", got)
				}
				seen := map[string]bool{}
				for i := 0; i < 15; i += 5 {
					seen[got[i:i+5]] = true
				}
				if !seen["AAAAA"] || !seen["BBBBB"] || !seen["CCCCC"] {
					return fmt.Sprintf("the peer read %q, which is no order of the three Write calls", got)
				}
				return ""
			}})
		// full duplex: a reader and a writer on the same connection
		out = append(out, scenario{name: fmt.Sprintf("one-conn-read-write/%04x", suite), bound: 2, boundT: 3,
			setup: func() interface{} { return establish(suite, "pong!") },
			threads: []func(interface{}) interface{}{
				func(st interface{}) interface{} {
					var got []byte
					buf := make([]byte, 16)
					for len(got) < 5 {
						n, err := st.(*established).cl.Read(buf)
						got = append(got, buf[:n]...)
						if err != nil {
							return fmt.Sprint(string(got), err)
						}
					}
					return string(got)
				},
				wr("ping!"),
			},
			accept: func(st interface{}, res []interface{}) string {
				got, _ := st.(*established).drain()
				if fmt.Sprint(res[0]) != "pong!" || fmt.Sprint(res[1]) != "5 <nil>" || got != "ping!" {
					return fmt.Sprintf("reader got %v, writer got %v, the peer read %q", res[0], res[1], got)
				}
				return ""
			}})
		// Write against Close: Close is documented to break an in-flight Write, so the oracle is the
		// weaker one: the peer reads a prefix of the message, and all of it if Write reported success
		out = append(out, scenario{name: fmt.Sprintf("one-conn-write-close/%04x", suite), bound: 2, boundT: 3,
			setup: func() interface{} { return establish(suite, "") },
			threads: []func(interface{}) interface{}{
				wr("AAAAA"),
				func(st interface{}) interface{} { return fmt.Sprint(st.(*established).cl.Close()) },
			},
			accept: func(st interface{}, res []interface{}) string {
				got, _ := st.(*established).drain()
				if len(got) > 5 || got != "AAAAA"[:len(got)] {
					return fmt.Sprintf("the peer read %q, not a prefix of the written message", got)
				}
				if fmt.Sprint(res[0]) == "5 <nil>" && got != "AAAAA" {
					return fmt.Sprintf("Write reported success but the peer read %q", got)
				}
				return ""
			}})
		// two writers against CloseWrite: CloseWrite is the orderly end of the outgoing stream, so every
		// Write that reports success has been sent BEFORE close_notify and the peer reads it before EOF; a
		// Write that lost the race returns an error and contributes nothing
		out = append(out, scenario{name: fmt.Sprintf("one-conn-write-write-closewrite/%04x", suite), bound: 2, boundT: 3,
			setup: func() interface{} { return establish(suite, "") },
			threads: []func(interface{}) interface{}{
				wr("AAAAA"),
				wr("BBBBB"),
				func(st interface{}) interface{} { return fmt.Sprint(st.(*established).cl.CloseWrite()) },
			},
			accept: func(st interface{}, res []interface{}) string {
				got, rerr := st.(*established).drain()
				want := map[string]bool{}
				a, b := fmt.Sprint(res[0]) == "5 <nil>", fmt.Sprint(res[1]) == "5 <nil>"
				switch {
				case a && b:
					want["AAAAABBBBB"], want["BBBBBAAAAA"] = true, true
				case a:
					want["AAAAA"] = true
				case b:
					want["BBBBB"] = true
				default:
					want[""] = true
				}
				if !want[got] {
					return fmt.Sprintf("Write results %v / %v, CloseWrite %v, but the peer read %q up to %v: no order of the three calls gives that", res[0], res[1], res[2], got, rerr)
				}
				return ""
			}})
		// two readers, one Read call each: the bytes are handed out in stream order without loss or duplication
		out = append(out, scenario{name: fmt.Sprintf("one-conn-read-read/%04x", suite), bound: 2, boundT: 3,
			setup:   func() interface{} { return establish(suite, "0123456789") },
			threads: rd2(),
			accept: func(st interface{}, res []interface{}) string {
				a, b := fmt.Sprint(res[0]), fmt.Sprint(res[1])
				const stream = "0123456789"
				ok := func(x string) bool { return len(x) <= len(stream) && x == stream[:len(x)] }
				if a == "" || b == "" || (!ok(a+b) && !ok(b+a)) {
					return fmt.Sprintf("two single Read calls returned %q and %q from a stream %s", a, b, stream)
				}
				return ""
			}})
		// a record with an impossible header arrives (the reader answers with an alert and fails) while
		// another goroutine writes: the alert and the data record go out one after the other, so the peer
		// reads the whole message whenever Write reported success
		out = append(out, scenario{name: fmt.Sprintf("one-conn-bad-record-read-write/%04x", suite), bound: 2, boundT: 3,
			setup: func() interface{} {
				e := establish(suite, "")
				h := e.ct.r
				h.mu.Lock()
				h.buf = append(h.buf, 0x17, 0x01, 0x01, 0x48, 0x01) // application data, length 18433: beyond the ciphertext limit
				h.mu.Unlock()
				return e
			},
			threads: []func(interface{}) interface{}{
				func(st interface{}) interface{} {
					buf := make([]byte, 16)
					n, err := st.(*established).cl.Read(buf)
					return fmt.Sprint(n, err != nil)
				},
				wr("AAAAA"),
			},
			accept: func(st interface{}, res []interface{}) string {
				got, _ := st.(*established).drain()
				if fmt.Sprint(res[0]) != "0 true" {
					return fmt.Sprintf("Read of an oversized record returned %v", res[0])
				}
				if fmt.Sprint(res[1]) == "5 <nil>" && got != "AAAAA" {
					return fmt.Sprintf("Write reported success but the peer read %q before its stream failed", got)
				}
				if got != "" && got != "AAAAA" {
					return fmt.Sprintf("the peer read %q, not the written message", got)
				}
				return ""
			}})
	}
	return out
}

// fresh is a pair of connections that have NOT yet shaken hands: the handshakes themselves run as
// controlled threads (client and server of each pair), sharing the configurations.
type fresh struct {
	cc, sc *gmtls.Config
	ccs    []*gmtls.Config // per-pair client configurations (distinct server names, ONE shared session cache)
	cl, sv []*gmtls.Conn
}

var ticketKey1, ticketKey2 = [32]byte{1, 1, 1}, [32]byte{2, 2, 2}

func newFresh(pairs int, cache bool) *fresh {
	p := tlsk.Get()
	f := &fresh{}
	f.sc = &gmtls.Config{GMSupport: &gmtls.GMSupport{}, Certificates: []gmtls.Certificate{p.Sign, p.Enc}, Time: tlsk.FixedTime, Rand: wire.NewRand(5), CipherSuites: []uint16{gmtls.GMTLS_ECC_SM4_CBC_SM3}}
	f.cc = &gmtls.Config{GMSupport: &gmtls.GMSupport{}, RootCAs: p.Roots, ServerName: tlsk.ServerName, Time: tlsk.FixedTime, Rand: wire.NewRand(6), CipherSuites: []uint16{gmtls.GMTLS_ECC_SM4_CBC_SM3}}
	if cache {
		f.cc.ClientSessionCache = gmtls.NewLRUClientSessionCache(4)
		f.sc.SetSessionTicketKeys([][32]byte{ticketKey1})
	}
	for i := 0; i < pairs; i++ {
		a, b := newMemPair()
		cc := f.cc
		if cache && i > 0 {
			cc = f.cc.Clone() // shares the session cache; another (certified) name gives another cache key
			cc.ServerName = tlsk.AltName
		}
		f.ccs = append(f.ccs, cc)
		f.cl = append(f.cl, gmtls.Client(a, cc))
		f.sv = append(f.sv, gmtls.Server(b, f.sc))
	}
	return f
}

func hsThread(client bool, i int) func(interface{}) interface{} {
	return func(st interface{}) interface{} {
		f := st.(*fresh)
		if client {
			return fmt.Sprint(f.cl[i].Handshake())
		}
		return fmt.Sprint(f.sv[i].Handshake())
	}
}

func allNil(what string) func(st interface{}, res []interface{}) string {
	return func(st interface{}, res []interface{}) string {
		for i, r := range res {
			if fmt.Sprint(r) != "<nil>" {
				return fmt.Sprintf("%s: thread %d returned %v", what, i, r)
			}
		}
		f := st.(*fresh)
		for i := range f.cl {
			cs, ss := f.cl[i].ConnectionState(), f.sv[i].ConnectionState()
			if !cs.HandshakeComplete || !ss.HandshakeComplete || cs.CipherSuite != ss.CipherSuite {
				return fmt.Sprintf("%s: pair %d not established on both sides", what, i)
			}
		}
		return ""
	}
}

func handshakeScenarios() []scenario {
	return []scenario{
		// Handshake called by two goroutines on the same client connection while the server answers
		{name: "one-conn-handshake-handshake", bound: 1, boundT: 2,
			setup:   func() interface{} { return newFresh(1, false) },
			threads: []func(interface{}) interface{}{hsThread(true, 0), hsThread(true, 0), hsThread(false, 0)},
			accept:  allNil("two Handshake calls on one connection")},
		// one server Config and one client Config (with session cache) serving two simultaneous
		// connections, first use of the server Config inside the execution, ticket keys rotated meanwhile
		{name: "shared-config-two-connections-rotate", strict: true, bound: 1, boundT: 2,
			setup: func() interface{} { return newFresh(2, true) },
			threads: []func(interface{}) interface{}{hsThread(true, 0), hsThread(false, 0), hsThread(true, 1), hsThread(false, 1),
				func(st interface{}) interface{} {
					// rotation that KEEPS the old key: whatever the order, every ticket issued by
					// either handshake stays valid afterwards
					st.(*fresh).sc.SetSessionTicketKeys([][32]byte{ticketKey2, ticketKey1})
					return "<nil>"
				}},
			accept: func(st interface{}, res []interface{}) string {
				if why := allNil("two connections sharing their configurations")(st, res); why != "" {
					return why
				}
				// afterwards (outside the controlled execution) each client reconnects: in every
				// sequential order of the calls its ticket is valid, so the session must be resumed
				f := st.(*fresh)
				for i, cc := range f.ccs {
					a, b := newMemPair()
					cl, sv := gmtls.Client(a, cc), gmtls.Server(b, f.sc)
					ch := make(chan error, 1)
					go func() { ch <- sv.Handshake() }()
					err := cl.Handshake()
					if e2 := <-ch; err != nil || e2 != nil {
						return fmt.Sprintf("second connection of client %d fails: %v / %v", i, err, e2)
					}
					if !cl.ConnectionState().DidResume || !sv.ConnectionState().DidResume {
						return fmt.Sprintf("the ticket issued to client %d while the keys were rotated (old key kept) is not accepted afterwards: no sequential order of the calls gives that", i)
					}
				}
				return ""
			}},
	}
}

func rd2() []func(interface{}) interface{} {
	// ONE Read call per thread: the atomic unit the connection promises
	f := func(st interface{}) interface{} {
		buf := make([]byte, 5)
		n, err := st.(*established).cl.Read(buf)
		if err != nil {
			return fmt.Sprint(string(buf[:n]), err)
		}
		return string(buf[:n])
	}
	return []func(interface{}) interface{}{f, f}
}

// ---- a renegotiation on a connection that another goroutine writes to ------------------------------

// renegWorld: a TLS 1.2 client that allows renegotiation, connected (outside the controlled
// execution) to the scripted reference server; inside the execution the server asks for a
// renegotiation while one goroutine reads and another writes.
type renegWorld struct {
	cl  *gmtls.Conn
	srv *gmref.Peer
}

func newRenegWorld(suite uint16) *renegWorld {
	p := tlsk.Get()
	a, b := newMemPair()
	cc := &gmtls.Config{RootCAs: p.StdRootsG, ServerName: tlsk.ServerName, Time: tlsk.FixedTime, Rand: wire.NewRand(8), MinVersion: 0x0303, MaxVersion: 0x0303, CipherSuites: []uint16{suite}, Renegotiation: gmtls.RenegotiateFreelyAsClient}
	w := &renegWorld{cl: gmtls.Client(a, cc)}
	w.srv = gmref.New(b, false, gmref.Identity{Certs: [][]byte{p.RSA.Certificate[0]}, RSAKey: p.RSAKey}, wire.NewRand(9))
	w.srv.UseTLS()
	w.srv.Suites = []uint16{suite}
	w.srv.EchoRenegInfo = true
	ch := make(chan gmref.Result, 1)
	go func() { ch <- w.srv.Run(&gmref.Script{}) }()
	if err := w.cl.Handshake(); err != nil {
		panic(err)
	}
	if r := <-ch; r.Err != nil || !r.Completed {
		panic(fmt.Sprintf("reference server: %+v", r))
	}
	return w
}

// keyedBadRecordScenarios: the keyed reference server has put one record into the client's inbound
// stream that the client must refuse AFTER decrypting or authenticating it (more than 2^14 plaintext
// bytes under correct protection; a wrong MAC; a correctly protected record of a type that is not
// expected). The refusal sends an alert from the reading goroutine while another goroutine writes:
// alert and data record share the write half, so whenever Write reports success the server must
// receive and authenticate the whole message.
func keyedBadRecordScenarios() []scenario {
	var out []scenario
	kinds := []struct {
		name  string
		craft func(q *gmref.Peer) error
	}{
		{"16385 plaintext bytes under correct protection", func(q *gmref.Peer) error {
			return q.WriteRaw(gmref.RecApp, q.Seal(gmref.RecApp, make([]byte, 16385), gmref.SealOpt{}))
		}},
		{"wrong MAC", func(q *gmref.Peer) error {
			return q.WriteRaw(gmref.RecApp, q.Seal(gmref.RecApp, []byte("xxxxx"), gmref.SealOpt{FlipMAC: true}))
		}},
		{"correctly protected ChangeCipherSpec in the data phase", func(q *gmref.Peer) error {
			return q.WriteRaw(gmref.RecCCS, q.Seal(gmref.RecCCS, []byte{1}, gmref.SealOpt{}))
		}},
	}
	for _, suite := range []uint16{gmref.SuiteAESCBC, gmref.SuiteAESGCM} {
		for _, k := range kinds {
			suite, k := suite, k
			out = append(out, scenario{name: fmt.Sprintf("one-conn-refused-record-read-write/%04x/%s", suite, k.name), bound: 2, boundT: 3,
				setup: func() interface{} {
					w := newRenegWorld(suite)
					if err := k.craft(w.srv); err != nil {
						panic(err)
					}
					return w
				},
				threads: []func(interface{}) interface{}{
					func(st interface{}) interface{} {
						buf := make([]byte, 16)
						n, err := st.(*renegWorld).cl.Read(buf)
						return fmt.Sprint(n, err != nil)
					},
					func(st interface{}) interface{} {
						n, err := st.(*renegWorld).cl.Write([]byte("AAAAA"))
						return fmt.Sprint(n, err == nil)
					},
				},
				accept: func(st interface{}, res []interface{}) string {
					w := st.(*renegWorld)
					w.cl.Close()
					rerr := w.srv.ReadApp(5)
					got := string(w.srv.Received)
					if fmt.Sprint(res[0]) != "0 true" {
						return fmt.Sprintf("Read of the refused record returned %v", res[0])
					}
					if fmt.Sprint(res[1]) == "5 true" && got != "AAAAA" {
						return fmt.Sprintf("Write reported success but the keyed server received %q (then: %v)", got, rerr)
					}
					if got != "" && got != "AAAAA" {
						return fmt.Sprintf("the keyed server received %q, not the written message", got)
					}
					return ""
				}})
		}
	}
	return out
}

func renegScenarios() []scenario {
	var out []scenario
	for _, suite := range []uint16{gmref.SuiteAESCBC, gmref.SuiteAESGCM} {
		suite := suite
		out = append(out, scenario{name: fmt.Sprintf("one-conn-renegotiation-read-write/%04x", suite), bound: 1, boundT: 2,
			setup: func() interface{} { return newRenegWorld(suite) },
			threads: []func(interface{}) interface{}{
				func(st interface{}) interface{} { // reader: the renegotiation happens inside these Read calls
					w := st.(*renegWorld)
					var got []byte
					buf := make([]byte, 16)
					for len(got) < 8 {
						n, err := w.cl.Read(buf)
						got = append(got, buf[:n]...)
						if err != nil {
							return fmt.Sprint(string(got), " ", err)
						}
					}
					return string(got)
				},
				func(st interface{}) interface{} { // writer
					w := st.(*renegWorld)
					n, err := w.cl.Write([]byte("AAAAA"))
					if err != nil {
						w.cl.Close() // lets the server's read end instead of leaving everybody waiting
					}
					return fmt.Sprint(n, err)
				},
				func(st interface{}) interface{} { // the scripted server
					q := st.(*renegWorld).srv
					if err := q.WriteRecord(gmref.RecApp, []byte("pre-")); err != nil {
						return err.Error()
					}
					if r := q.RenegotiateServer(&gmref.Script{}, true); r.Err != nil || !r.Completed {
						return fmt.Sprintf("renegotiation: %+v", r)
					}
					if err := q.WriteRecord(gmref.RecApp, []byte("post")); err != nil {
						return err.Error()
					}
					for len(q.Received) < 5 {
						if err := q.ReadApp(5); err != nil {
							return fmt.Sprintf("server read %q then %v", q.Received, err)
						}
					}
					return string(q.Received)
				},
			},
			accept: func(st interface{}, res []interface{}) string {
				if fmt.Sprint(res[0]) != "pre-post" || fmt.Sprint(res[1]) != "5 <nil>" || fmt.Sprint(res[2]) != "AAAAA" {
					return fmt.Sprintf("reader got %v, writer got %v, the server %v; every sequential order of Read and Write gives \"pre-post\", \"5 <nil>\", \"AAAAA\"", res[0], res[1], res[2])
				}
				return ""
			}})
	}
	return out
}
