package c20

import (
	"bufio"
	"bytes"
	"crypto/cipher"
	"crypto/rand"
	"crypto/x509/pkix"
	"fmt"
	"io"
	"math/big"
	"net"
	"os"
	"os/exec"
	"regexp"
	"strings"
	gosync "sync"
	"time"

	"github.com/tjfoc/gmsm/gmtls"
	"github.com/tjfoc/gmsm/sm2"
	"github.com/tjfoc/gmsm/sm3"
	"github.com/tjfoc/gmsm/sm4"
	gx509 "github.com/tjfoc/gmsm/x509"

	"verif/mc/harness"
	"verif/mc/props/pu"
	"verif/mc/props/sm2k"
	"verif/mc/ref/gmref"
	"verif/mc/tlsk"
)

// raceScenario: bodies run as free goroutines (released together), repeated several times, in a
// binary built with -race. Results are compared with solo results as well.
type raceScenario struct {
	name   string
	rounds int
	setup  func() interface{}
	bodies []func(st interface{}) interface{}
	// sameAsSolo: compare each result with the body's solo result
	sameAsSolo bool
}

func gmPair(scfg, ccfg *gmtls.Config) (cl, sv *gmtls.Conn, err error) {
	a, b := net.Pipe()
	cl, sv = gmtls.Client(a, ccfg), gmtls.Server(b, scfg)
	ch := make(chan error, 1)
	go func() { ch <- sv.Handshake() }()
	if err = cl.Handshake(); err != nil {
		return
	}
	err = <-ch
	return
}

func gmConfigs() (*gmtls.Config, *gmtls.Config) {
	p := tlsk.Get()
	s := &gmtls.Config{GMSupport: &gmtls.GMSupport{}, Certificates: []gmtls.Certificate{p.Sign, p.Enc}, Time: tlsk.FixedTime, CipherSuites: []uint16{gmtls.GMTLS_ECC_SM4_CBC_SM3, gmtls.GMTLS_ECC_SM4_GCM_SM3}}
	c := &gmtls.Config{GMSupport: &gmtls.GMSupport{}, RootCAs: p.Roots, ServerName: tlsk.ServerName, Time: tlsk.FixedTime}
	return c, s
}

func raceScenarios() []raceScenario {
	al := sm2k.Alphabet()
	k := al[5].Lib()
	var rs []raceScenario
	// first use of the curve must come first in the process
	rs = append(rs, raceScenario{name: "first-use-of-curve", rounds: 1, setup: func() interface{} { return nil }, sameAsSolo: false,
		bodies: rep(8, func(interface{}) interface{} {
			c := sm2.P256Sm2()
			x, _ := c.ScalarBaseMult([]byte{9})
			return x.String()
		})})
	rs = append(rs, raceScenario{name: "shared-sm4-block", rounds: 50, sameAsSolo: true,
		setup: func() interface{} { b, _ := sm4.NewCipher(key16(1)); return b },
		bodies: []func(interface{}) interface{}{
			func(st interface{}) interface{} {
				o := make([]byte, 16)
				st.(cipher.Block).Encrypt(o, pu.Msg(1, 16))
				return o
			},
			func(st interface{}) interface{} {
				o := make([]byte, 16)
				st.(cipher.Block).Decrypt(o, pu.Msg(2, 16))
				return o
			},
			func(st interface{}) interface{} {
				o := make([]byte, 16)
				st.(cipher.Block).Encrypt(o, pu.Msg(3, 16))
				return o
			},
			func(st interface{}) interface{} {
				o := make([]byte, 64)
				cipher.NewCBCEncrypter(st.(cipher.Block), key16(9)).CryptBlocks(o, pu.Msg(4, 64))
				return o
			},
		}})
	// first uses of a FRESH cipher object overlapping (lazily built per-object state)
	for _, pat := range []string{"DDDDDDDD", "EEEEEEEE", "EDEDEDED"} {
		pat := pat
		sc := raceScenario{name: "fresh-sm4-block-first-use/" + pat, rounds: 1500, sameAsSolo: true,
			setup: func() interface{} { b, _ := sm4.NewCipher(key16(2)); return b }}
		for i := range pat {
			i := i
			sc.bodies = append(sc.bodies, func(st interface{}) interface{} {
				o := make([]byte, 16)
				if pat[i] == 'E' {
					st.(cipher.Block).Encrypt(o, pu.Msg(10+i, 16))
				} else {
					st.(cipher.Block).Decrypt(o, pu.Msg(10+i, 16))
				}
				return o
			})
		}
		rs = append(rs, sc)
	}
	msg := pu.Msg(5, 100)
	r0, s0, _ := sm2.Sm2Sign(k, msg, nil, rand.Reader)
	ct, _ := sm2.Encrypt(&k.PublicKey, msg, rand.Reader, sm2.C1C3C2)
	certT := &gx509.Certificate{SerialNumber: big.NewInt(77), Subject: pkix.Name{CommonName: "race"}, SignatureAlgorithm: gx509.SM2WithSM3, NotBefore: tlsk.Now.AddDate(-1, 0, 0), NotAfter: tlsk.Now.AddDate(1, 0, 0)}
	certDER, _ := gx509.CreateCertificate(certT, certT, &k.PublicKey, k)
	blob := pkcs7Blob()
	rs = append(rs, raceScenario{name: "package-level-calls-on-separate-data", rounds: 20, sameAsSolo: true, setup: func() interface{} { return nil },
		bodies: []func(interface{}) interface{}{
			func(interface{}) interface{} { _, _, err := sm2.Sm2Sign(k, msg, nil, rand.Reader); return err == nil },
			func(interface{}) interface{} { return sm2.Sm2Verify(&k.PublicKey, msg, nil, r0, s0) },
			func(interface{}) interface{} {
				p, err := sm2.Decrypt(k, ct, sm2.C1C3C2)
				return fmt.Sprint(pu.Hex(p), err)
			},
			func(interface{}) interface{} {
				_, err := sm2.Encrypt(&k.PublicKey, msg, rand.Reader, sm2.C1C2C3)
				return err == nil
			},
			func(interface{}) interface{} { return sm3.Sm3Sum(msg) },
			func(interface{}) interface{} { h := sm3.New(); h.Write(msg); return h.Sum(nil) },
			func(interface{}) interface{} { o, _ := sm4.Sm4Cbc(key16(4), msg, true); return o },
			func(interface{}) interface{} { o, _ := sm4.Sm4Ecb(key16(5), msg, true); return o },
			func(interface{}) interface{} { o, _ := sm4.Sm4OFB(key16(6), msg, true); return o },
			func(interface{}) interface{} {
				c, t, _ := sm4.Sm4GCM(key16(7), pu.Msg(1, 12), msg, pu.Msg(2, 5), true)
				return append(c, t...)
			},
			func(interface{}) interface{} {
				c, err := gx509.ParseCertificate(certDER)
				return fmt.Sprint(c != nil, err)
			},
			func(interface{}) interface{} { p, err := gx509.ParsePKCS7(blob); return fmt.Sprint(p != nil, err) },
			func(interface{}) interface{} { p, err := gx509.ParsePKCS7(blob); return fmt.Sprint(p != nil, err) },
			func(interface{}) interface{} {
				k2, err := gx509.ReadPrivateKeyFromHex(gx509.WritePrivateKeyToHex(k))
				return fmt.Sprint(k2 != nil, err)
			},
		}})
	// one certificate pool, concurrent verifications
	p := tlsk.Get()
	leaf, _ := gx509.ParseCertificate(p.Sign.Certificate[0])
	rs = append(rs, raceScenario{name: "one-certpool-concurrent-verify", rounds: 10, sameAsSolo: true, setup: func() interface{} { return nil },
		bodies: rep(4, func(interface{}) interface{} {
			ch, err := leaf.Verify(gx509.VerifyOptions{Roots: p.Roots, DNSName: tlsk.ServerName, CurrentTime: tlsk.Now})
			return fmt.Sprint(len(ch), err)
		})})
	// one pool with STRUCTURE: groups of 3 and of 5 CAs sharing a subject key identifier (the pool's
	// index slices then have spare capacity), CAs without one, and leaves whose authority key
	// identifier names a group although the issuer is only found by name. Different leaves are
	// verified at the same time against the same roots and intermediates.
	rs = append(rs, raceScenario{name: "one-structured-certpool-concurrent-verify", rounds: 25, sameAsSolo: true,
		setup: func() interface{} { return structuredPool() },
		bodies: func() []func(interface{}) interface{} {
			var bs []func(interface{}) interface{}
			for i := 0; i < 8; i++ {
				i := i
				bs = append(bs, func(st interface{}) interface{} {
					sp := st.(*poolFixture)
					out := ""
					for r := 0; r < 6; r++ {
						l := sp.leaves[(i+r*3)%len(sp.leaves)]
						ch, err := l.Verify(gx509.VerifyOptions{Roots: sp.roots, Intermediates: sp.inter, CurrentTime: tlsk.Now, KeyUsages: []gx509.ExtKeyUsage{gx509.ExtKeyUsageAny}})
						out += fmt.Sprintf("%s:%d:%v;", l.Subject.CommonName, len(ch), err)
					}
					return out
				})
			}
			return bs
		}()})
	// one server Config serving simultaneous connections, with ticket-key rotation
	rs = append(rs, raceScenario{name: "one-server-config-many-handshakes+rotation", rounds: 6, sameAsSolo: false,
		setup: func() interface{} { _, s := gmConfigs(); return s },
		bodies: []func(interface{}) interface{}{
			func(st interface{}) interface{} {
				c, _ := gmConfigs()
				_, _, err := gmPair(st.(*gmtls.Config), c)
				return fmt.Sprint(err)
			},
			func(st interface{}) interface{} {
				c, _ := gmConfigs()
				_, _, err := gmPair(st.(*gmtls.Config), c)
				return fmt.Sprint(err)
			},
			func(st interface{}) interface{} {
				c, _ := gmConfigs()
				_, _, err := gmPair(st.(*gmtls.Config), c)
				return fmt.Sprint(err)
			},
			func(st interface{}) interface{} {
				for i := 0; i < 3; i++ {
					st.(*gmtls.Config).SetSessionTicketKeys([][32]byte{{byte(i + 1)}, {9}})
				}
				return "<nil>"
			},
		}})
	// one client Config with a session cache, concurrent connections
	rs = append(rs, raceScenario{name: "one-client-config-with-cache", rounds: 6, sameAsSolo: false,
		setup: func() interface{} {
			c, s := gmConfigs()
			c.ClientSessionCache = gmtls.NewLRUClientSessionCache(2)
			return [2]*gmtls.Config{c, s}
		},
		bodies: rep(3, func(st interface{}) interface{} {
			cs := st.([2]*gmtls.Config)
			_, _, err := gmPair(cs[1], cs[0])
			return fmt.Sprint(err)
		})})
	// one established connection: concurrent writers, reader and Close
	type connPair struct{ cl, sv *gmtls.Conn }
	mk := func() interface{} {
		c, s := gmConfigs()
		cl, sv, err := gmPair(s, c)
		if err != nil {
			panic(err)
		}
		go io.Copy(io.Discard, sv) // the peer drains what the client writes
		return &connPair{cl, sv}
	}
	rs = append(rs, raceScenario{name: "one-conn-write-write-read-close", rounds: 8, sameAsSolo: false, setup: mk,
		bodies: []func(interface{}) interface{}{
			func(st interface{}) interface{} {
				_, err := st.(*connPair).cl.Write(pu.Msg(1, 3000))
				return err == nil
			},
			func(st interface{}) interface{} {
				_, err := st.(*connPair).cl.Write(pu.Msg(2, 20000))
				return err == nil
			},
			func(st interface{}) interface{} {
				cp := st.(*connPair)
				go cp.sv.Write([]byte("to the client"))
				b := make([]byte, 64)
				cp.cl.SetReadDeadline(time.Now().Add(2 * time.Second))
				n, _ := cp.cl.Read(b)
				return n >= 0
			},
			func(st interface{}) interface{} {
				time.Sleep(time.Millisecond)
				return st.(*connPair).cl.Close() == nil || true
			},
			func(st interface{}) interface{} { return st.(*connPair).cl.ConnectionState().HandshakeComplete },
		}})
	rs = append(rs, raceScenario{name: "handshake-handshake-on-one-conn", rounds: 6, sameAsSolo: false,
		setup: func() interface{} {
			c, s := gmConfigs()
			a, b := net.Pipe()
			cl, sv := gmtls.Client(a, c), gmtls.Server(b, s)
			go sv.Handshake()
			return cl
		},
		bodies: rep(3, func(st interface{}) interface{} { return fmt.Sprint(st.(*gmtls.Conn).Handshake()) })})
	// one server configuration serving simultaneous handshakes through GetConfigForClient, each
	// connection on a Clone(): what the clones still share (the key-log writer, the ticket keys, the
	// certificates) must stay serialised. The writer is deliberately not safe for concurrent use.
	for _, gm := range []bool{true, false} {
		gm := gm
		name := "keylog-through-GetConfigForClient-clones/TLS1.2"
		if gm {
			name = "keylog-through-GetConfigForClient-clones/GMSSL"
		}
		type world struct {
			outer *gmtls.Config
			ccfg  *gmtls.Config
			log   *plainLog
		}
		rs = append(rs, raceScenario{name: name, rounds: 6, sameAsSolo: false,
			setup: func() interface{} {
				p := tlsk.Get()
				c, s := gmConfigs()
				if !gm {
					s = &gmtls.Config{Certificates: []gmtls.Certificate{p.ECDSA}, Time: tlsk.FixedTime}
					c = &gmtls.Config{RootCAs: p.StdRootsG, ServerName: tlsk.ServerName, Time: tlsk.FixedTime, MinVersion: 0x0303, MaxVersion: 0x0303}
				}
				w := &world{log: &plainLog{name: name}, ccfg: c}
				s.KeyLogWriter = w.log
				inner := s
				w.outer = &gmtls.Config{GMSupport: s.GMSupport, Time: tlsk.FixedTime, GetConfigForClient: func(*gmtls.ClientHelloInfo) (*gmtls.Config, error) { return inner.Clone(), nil }}
				return w
			},
			bodies: rep(6, func(st interface{}) interface{} {
				w := st.(*world)
				_, _, err := gmPair(w.outer, w.ccfg.Clone())
				return err == nil
			})})
	}
	// ticket keys rotated to a list of the SAME length while sessions are resumed: both keys stay
	// installed throughout ({A,B} <-> {B,A}), so every resumption must succeed, and the key list must
	// never be read while it is being rewritten
	for _, gm := range []bool{true, false} {
		gm := gm
		name := "same-length-key-rotation-while-resuming/TLS1.2"
		if gm {
			name = "same-length-key-rotation-while-resuming/GMSSL"
		}
		type world struct {
			scfg *gmtls.Config
			ccs  []*gmtls.Config
		}
		keyA, keyB := [32]byte{0xa}, [32]byte{0xb}
		rs = append(rs, raceScenario{name: name, rounds: 4, sameAsSolo: false,
			setup: func() interface{} {
				p := tlsk.Get()
				c, s := gmConfigs()
				if !gm {
					s = &gmtls.Config{Certificates: []gmtls.Certificate{p.ECDSA}, Time: tlsk.FixedTime}
					c = &gmtls.Config{RootCAs: p.StdRootsG, ServerName: tlsk.ServerName, Time: tlsk.FixedTime, MinVersion: 0x0303, MaxVersion: 0x0303}
				}
				s.SetSessionTicketKeys([][32]byte{keyA, keyB})
				w := &world{scfg: s}
				for i := 0; i < 4; i++ {
					cc := c.Clone()
					cc.ClientSessionCache = gmtls.NewLRUClientSessionCache(2)
					if _, _, err := gmPair(s, cc); err != nil { // full handshake: the cache now holds a ticket under key A
						panic(err)
					}
					w.ccs = append(w.ccs, cc)
				}
				return w
			},
			bodies: func() []func(interface{}) interface{} {
				var bs []func(interface{}) interface{}
				for i := 0; i < 4; i++ {
					i := i
					bs = append(bs, func(st interface{}) interface{} {
						w := st.(*world)
						for k := 0; k < 6; k++ {
							cl, _, err := gmPair(w.scfg, w.ccs[i])
							if err != nil {
								fmt.Fprintf(os.Stderr, "@@DIFF %s body %d: concurrent %s solo %s\n", name, i, "handshake fails: "+err.Error(), "every connection completes")
								return false
							}
							if !cl.ConnectionState().DidResume {
								fmt.Fprintf(os.Stderr, "@@DIFF %s body %d: concurrent %s solo %s\n", name, i, "a ticket under a key that is installed throughout was not accepted", "every connection resumes")
								return false
							}
						}
						return true
					})
				}
				bs = append(bs, func(st interface{}) interface{} {
					w := st.(*world)
					for k := 0; k < 200; k++ {
						if k%2 == 0 {
							w.scfg.SetSessionTicketKeys([][32]byte{keyB, keyA})
						} else {
							w.scfg.SetSessionTicketKeys([][32]byte{keyA, keyB})
						}
						time.Sleep(50 * time.Microsecond)
					}
					return true
				})
				return bs
			}()})
	}
	// a renegotiation (handshake inside Read) while other goroutines write, read the connection state
	// and close: the scripted reference server asks for two renegotiations in the data phase
	for _, tlsSuite := range []uint16{gmref.SuiteAESCBC, gmref.SuiteAESGCM} {
		suite := tlsSuite
		type rw struct {
			cl   *gmtls.Conn
			done chan struct{}
		}
		rs = append(rs, raceScenario{name: fmt.Sprintf("renegotiation-while-writing/%04x", suite), rounds: 5, sameAsSolo: false,
			setup: func() interface{} {
				p := tlsk.Get()
				a, b := net.Pipe()
				ccfg := &gmtls.Config{RootCAs: p.StdRootsG, ServerName: tlsk.ServerName, Time: tlsk.FixedTime, MinVersion: 0x0303, MaxVersion: 0x0303, CipherSuites: []uint16{suite}, Renegotiation: gmtls.RenegotiateFreelyAsClient}
				cl := gmtls.Client(a, ccfg)
				w := &rw{cl: cl, done: make(chan struct{})}
				go func() {
					defer close(w.done)
					defer b.Close()
					q := gmref.New(b, false, gmref.Identity{Certs: [][]byte{p.RSA.Certificate[0]}, RSAKey: p.RSAKey}, rand.Reader)
					q.UseTLS()
					q.Suites = []uint16{suite}
					q.EchoRenegInfo = true
					q.Run(&gmref.Script{Data: func(q *gmref.Peer) error {
						for r := 0; r < 2; r++ {
							if err := q.WriteRecord(gmref.RecApp, []byte("chunk")); err != nil {
								return err
							}
							if res := q.RenegotiateServer(&gmref.Script{}, true); res.Err != nil {
								return res.Err
							}
						}
						q.WriteRecord(gmref.RecApp, []byte("done!"))
						for {
							if err := q.ReadApp(0); err != nil {
								return nil
							}
						}
					}})
				}()
				if err := cl.Handshake(); err != nil {
					panic(err)
				}
				return w
			},
			bodies: []func(interface{}) interface{}{
				func(st interface{}) interface{} {
					w := st.(*rw)
					buf := make([]byte, 64)
					total := 0
					w.cl.SetReadDeadline(time.Now().Add(20 * time.Second))
					for total < 15 {
						n, err := w.cl.Read(buf)
						total += n
						if err != nil {
							break
						}
					}
					return total
				},
				func(st interface{}) interface{} {
					w := st.(*rw)
					for i := 0; i < 20; i++ {
						if _, err := w.cl.Write(pu.Msg(i, 700)); err != nil {
							fmt.Fprintf(os.Stderr, "@@DIFF renegotiation-while-writing/%04x body 1: concurrent %s solo %s\n", suite, fmt.Sprintf("Write %d failed: %v", i, err), "every Write succeeds in any sequential order")
							return i
						}
					}
					return 20
				},
				func(st interface{}) interface{} {
					w := st.(*rw)
					for i := 0; i < 20; i++ {
						if _, err := w.cl.Write(pu.Msg(100+i, 30)); err != nil {
							fmt.Fprintf(os.Stderr, "@@DIFF renegotiation-while-writing/%04x body 2: concurrent %s solo %s\n", suite, fmt.Sprintf("Write %d failed: %v", i, err), "every Write succeeds in any sequential order")
							return i
						}
					}
					return 20
				},
				func(st interface{}) interface{} {
					w := st.(*rw)
					n := 0
					for i := 0; i < 50; i++ {
						if w.cl.ConnectionState().HandshakeComplete {
							n++
						}
					}
					return n >= 0
				},
			}})
	}
	return rs
}

// plainLog is an io.Writer that is NOT safe for concurrent use (as a bytes.Buffer or a file wrapper
// with its own buffering would be) and notices overlapping calls.
type plainLog struct {
	name   string
	inside int
	lines  [][]byte
}

func (l *plainLog) Write(p []byte) (int, error) {
	l.inside++
	if l.inside != 1 {
		fmt.Fprintf(os.Stderr, "@@DIFF %s body 0: concurrent %s solo %s\n", l.name, "KeyLogWriter.Write entered while another call was inside", "one call at a time")
	}
	l.lines = append(l.lines, append([]byte{}, p...))
	time.Sleep(200 * time.Microsecond)
	l.inside--
	return len(p), nil
}

type poolFixture struct {
	roots, inter *gx509.CertPool
	leaves       []*gx509.Certificate
}

// structuredPool builds (deterministically shaped, freshly signed) roots, intermediates and leaves.
func structuredPool() *poolFixture {
	al := sm2k.Alphabet()
	serial := int64(9000)
	mk := func(cn string, ca bool, key *sm2.PrivateKey, ski, aki []byte, parent *gx509.Certificate, pk *sm2.PrivateKey) *gx509.Certificate {
		serial++
		t := &gx509.Certificate{SerialNumber: big.NewInt(serial), Subject: pkix.Name{CommonName: cn}, SignatureAlgorithm: gx509.SM2WithSM3,
			NotBefore: tlsk.Now.AddDate(-1, 0, 0), NotAfter: tlsk.Now.AddDate(1, 0, 0), SubjectKeyId: ski, AuthorityKeyId: aki}
		if ca {
			t.IsCA, t.BasicConstraintsValid, t.KeyUsage = true, true, gx509.KeyUsageCertSign
		} else {
			t.KeyUsage = gx509.KeyUsageDigitalSignature
		}
		if parent == nil {
			parent, pk = t, key
		}
		der, err := gx509.CreateCertificate(t, parent, &key.PublicKey, pk)
		if err != nil {
			panic(err)
		}
		c, err := gx509.ParseCertificate(der)
		if err != nil {
			panic(err)
		}
		return c
	}
	f := &poolFixture{roots: gx509.NewCertPool(), inter: gx509.NewCertPool()}
	S, T := []byte{1, 1, 1, 1}, []byte{2, 2, 2, 2}
	type ca struct {
		c *gx509.Certificate
		k *sm2.PrivateKey
	}
	var cas []ca
	add := func(cn string, ki int, ski []byte) ca {
		k := al[ki%len(al)].Lib()
		x := ca{mk(cn, true, k, ski, nil, nil, nil), k}
		cas = append(cas, x)
		f.roots.AddCert(x.c)
		return x
	}
	for i := 0; i < 3; i++ {
		add(fmt.Sprintf("group-S-%d", i), 1+i, S)
	}
	for i := 0; i < 5; i++ {
		add(fmt.Sprintf("group-T-%d", i), 4+i, T)
	}
	x, y, z := add("plain-X", 9, nil), add("plain-Y", 10, nil), add("plain-Z", 11, nil)
	// intermediates: under X and Y, sharing S as their OWN key id as well (second index with spare capacity)
	ix := ca{mk("inter-X", true, al[12%len(al)].Lib(), S, S, x.c, x.k), al[12%len(al)].Lib()}
	iy := ca{mk("inter-Y", true, al[13%len(al)].Lib(), S, T, y.c, y.k), al[13%len(al)].Lib()}
	iz := ca{mk("inter-Z", true, al[14%len(al)].Lib(), S, nil, z.c, z.k), al[14%len(al)].Lib()}
	for _, i := range []ca{ix, iy, iz} {
		f.inter.AddCert(i.c)
	}
	lk := al[5].Lib()
	for _, iss := range []ca{x, y, z, cas[0], cas[4], ix, iy, iz} {
		for ai, aki := range [][]byte{S, T, nil} {
			f.leaves = append(f.leaves, mk(fmt.Sprintf("leaf-of-%s-aki%d", iss.c.Subject.CommonName, ai), false, lk, nil, aki, iss.c, iss.k))
		}
	}
	return f
}

func rep(n int, f func(interface{}) interface{}) []func(interface{}) interface{} {
	var o []func(interface{}) interface{}
	for i := 0; i < n; i++ {
		o = append(o, f)
	}
	return o
}

// RacePassMain runs inside the -race binary: executes every scenario and prints markers.
func RacePassMain() {
	for _, sc := range raceScenarios() {
		fmt.Fprintf(os.Stderr, "\n@@SCENARIO %s\n", sc.name)
		var solo []interface{}
		if sc.sameAsSolo {
			for _, b := range sc.bodies {
				solo = append(solo, b(sc.setup()))
			}
		}
		for r := 0; r < sc.rounds; r++ {
			st := sc.setup()
			var wg gosync.WaitGroup
			start := make(chan struct{})
			res := make([]interface{}, len(sc.bodies))
			for i, b := range sc.bodies {
				wg.Add(1)
				go func(i int, b func(interface{}) interface{}) {
					defer wg.Done()
					defer func() {
						if rr := recover(); rr != nil {
							fmt.Fprintf(os.Stderr, "@@PANIC %s body %d: %v\n", sc.name, i, rr)
						}
					}()
					<-start
					res[i] = b(st)
				}(i, b)
			}
			close(start)
			done := make(chan struct{})
			go func() { wg.Wait(); close(done) }()
			select {
			case <-done:
			case <-time.After(60 * time.Second):
				fmt.Fprintf(os.Stderr, "@@STUCK %s round %d\n", sc.name, r)
				goto next
			}
			if sc.sameAsSolo {
				for i := range res {
					if !same(res[i], solo[i]) {
						fmt.Fprintf(os.Stderr, "@@DIFF %s body %d: concurrent %s solo %s\n", sc.name, i, fmtRes(res[i]), fmtRes(solo[i]))
					}
				}
			}
		}
	next:
		fmt.Fprintf(os.Stderr, "@@DONE %s\n", sc.name)
	}
}

var frameRe = regexp.MustCompile(`^\s+github\.com/tjfoc/gmsm/(.*?)\([^()]*\)\s*$`)

// raceUnit runs the -race binary (VERIF_RACE_BIN) and turns its reports into violations.
func raceUnit() harness.Unit {
	return harness.Unit{Name: "race-pass(free-running,-race)", Run: func(c *harness.Ctx) {
		bin := os.Getenv("VERIF_RACE_BIN")
		if bin == "" {
			c.Note("VERIF_RACE_BIN not set: race pass skipped")
			return
		}
		cmd := exec.Command(bin, "--racepass")
		cmd.Env = append(os.Environ(), "GORACE=halt_on_error=0 history_size=3", "GOMAXPROCS=8")
		var out bytes.Buffer
		cmd.Stderr = &out
		cmd.Stdout = io.Discard
		err := cmd.Run()
		scn := "?"
		sc := bufio.NewScanner(&out)
		sc.Buffer(make([]byte, 1<<20), 1<<24)
		var inRace bool
		var frames []string
		var block []string
		flush := func() {
			if inRace {
				uniq := []string{}
				for _, f := range frames {
					if len(uniq) < 2 && (len(uniq) == 0 || uniq[len(uniq)-1] != f) {
						uniq = append(uniq, f)
					}
				}
				c.Violate(fmt.Sprintf("data-race:%s:%s", scn, strings.Join(uniq, "<->")), fmt.Sprintf("the race detector reports a data race while the %q bodies run concurrently:\n%s", scn, strings.Join(block, "\n")), nil, nil)
			}
			inRace, frames, block = false, nil, nil
		}
		scenariosSeen := 0
		for sc.Scan() {
			l := sc.Text()
			switch {
			case strings.HasPrefix(l, "@@SCENARIO "):
				flush()
				scn = strings.TrimPrefix(l, "@@SCENARIO ")
				scenariosSeen++
				c.Add("executions", 1)
			case strings.HasPrefix(l, "@@PANIC "):
				c.Violate("panic-in-concurrent-run:"+scn, l, nil, nil)
			case strings.HasPrefix(l, "@@STUCK "):
				c.Violate("stuck-in-concurrent-run:"+scn, l+" (bodies did not finish within 60 s, re-run to confirm)", nil, nil)
			case strings.HasPrefix(l, "@@DIFF "):
				c.Violate("result-differs-in-concurrent-run:"+scn, l, nil, nil)
			case strings.HasPrefix(l, "WARNING: DATA RACE"):
				flush()
				inRace = true
				block = append(block, l)
			case strings.HasPrefix(l, "=================="):
				if inRace && len(block) > 1 {
					flush()
				}
			default:
				if inRace {
					if len(block) < 40 {
						block = append(block, l)
					}
					if m := frameRe.FindStringSubmatch(l); m != nil {
						frames = append(frames, m[1])
					}
				}
			}
		}
		flush()
		c.Add("transitions", int64(scenariosSeen))
		c.DistinctS("states", fmt.Sprint(scenariosSeen))
		c.DistinctS("outcomes", "race-pass")
		if err != nil && scenariosSeen < len(raceScenarios()) {
			c.Violate("race-pass-crashed:"+scn, fmt.Sprintf("the -race binary died during scenario %q: %v\n%s", scn, err, tailStr(out.String(), 2000)), nil, nil)
		}
		c.Sample(fmt.Sprintf("%d scenarios executed free-running under the race detector", scenariosSeen))
	}}
}

func tailStr(s string, n int) string {
	if len(s) > n {
		return s[len(s)-n:]
	}
	return s
}
