// Package pu holds small helpers shared by the property harnesses.
package pu

import (
	"bytes"
	"encoding/hex"
	"fmt"
)

// Msg returns n bytes whose value is a function of the absolute position off+i, with no
// period dividing 64, so that a lost, duplicated or shifted byte changes a digest.
func Msg(off, n int) []byte {
	b := make([]byte, n)
	for i := range b {
		p := off + i
		b[i] = byte(p*167 + (p>>6)*13 + (p>>11)*101 + 5)
	}
	return b
}

// Canary wraps data in a buffer with guard bytes before and spare capacity behind, to detect
// writes into caller memory. Slice() is the caller-visible slice (len n, cap n+spare).
type Canary struct {
	buf   []byte
	orig  []byte
	lead  int
	n     int
	spare int
}

const canaryByte = 0xA5

func NewCanary(data []byte, spare int) *Canary {
	lead := 8
	c := &Canary{lead: lead, n: len(data), spare: spare}
	c.buf = make([]byte, lead+len(data)+spare)
	for i := range c.buf {
		c.buf[i] = canaryByte
	}
	copy(c.buf[lead:], data)
	c.orig = append([]byte(nil), c.buf...)
	return c
}

func (c *Canary) Slice() []byte { return c.buf[c.lead : c.lead+c.n : c.lead+c.n+c.spare] }

// Check returns "" if the whole backing array is unchanged, else a description.
func (c *Canary) Check() string {
	if bytes.Equal(c.buf, c.orig) {
		return ""
	}
	for i := range c.buf {
		if c.buf[i] != c.orig[i] {
			where := "data"
			if i < c.lead {
				where = "guard-before"
			} else if i >= c.lead+c.n {
				where = "spare-capacity"
			}
			return fmt.Sprintf("byte %d (%s, offset %d from data start) changed %02x->%02x", i, where, i-c.lead, c.orig[i], c.buf[i])
		}
	}
	return "changed"
}

func Hex(b []byte) string {
	if len(b) > 48 {
		return hex.EncodeToString(b[:24]) + ".." + hex.EncodeToString(b[len(b)-8:]) + fmt.Sprintf("(%d)", len(b))
	}
	return hex.EncodeToString(b)
}

// Held remembers byte slices that an API handed out - the very memory, plus a private copy of what it
// held at the time. A result belongs to the caller: nothing the library does LATER may change it
// (a result that aliases an internal scratch buffer or a pooled block passes every check made when
// it is returned). Only the most recent 32 results are kept.
type Held struct {
	live, copy [][]byte
	names      []string
}

func (h *Held) Keep(name string, b []byte) {
	if len(b) == 0 {
		return
	}
	if len(h.live) == 32 {
		h.live, h.copy, h.names = h.live[1:], h.copy[1:], h.names[1:]
	}
	h.live = append(h.live, b)
	h.copy = append(h.copy, append([]byte{}, b...))
	h.names = append(h.names, name)
}

// Changed names the first remembered result whose memory no longer holds what it held ("" if none).
func (h *Held) Changed() string {
	for i := range h.live {
		if string(h.live[i]) != string(h.copy[i]) {
			return h.names[i]
		}
	}
	return ""
}
