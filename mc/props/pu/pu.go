// Package pu holds small helpers shared by the property harnesses.
package pu

import (
	"bytes"
	"encoding/hex"
	"fmt"
)

// Msg returns n bytes whose value is a function of the absolute position off+i, with no
// period dividing 64, so that a lost, duplicated or shifted byte changes a digest.
func Msg(off, n int) []byte {
	b := make([]byte, n)
	for i := range b {
		p := off + i
		b[i] = byte(p*167 + (p>>6)*13 + (p>>11)*101 + 5)
	}
	return b
}

// Canary wraps data in a buffer with guard bytes before and spare capacity behind, to detect
// writes into caller memory. Slice() is the caller-visible slice (len n, cap n+spare).
type Canary struct {
	buf   []byte
	orig  []byte
	lead  int
	n     int
	spare int
}

const canaryByte = 0xA5

func NewCanary(data []byte, spare int) *Canary {
	lead := 8
	c := &Canary{lead: lead, n: len(data), spare: spare}
	c.buf = make([]byte, lead+len(data)+spare)
	for i := range c.buf {
		c.buf[i] = canaryByte
	}
	copy(c.buf[lead:], data)
	c.orig = append([]byte(nil), c.buf...)
	return c
}

func (c *Canary) Slice() []byte { return c.buf[c.lead : c.lead+c.n : c.lead+c.n+c.spare] }

// Check returns "" if the whole backing array is unchanged, else a description.
func (c *Canary) Check() string {
	if bytes.Equal(c.buf, c.orig) {
		return ""
	}
	for i := range c.buf {
		if c.buf[i] != c.orig[i] {
			where := "data"
			if i < c.lead {
				where = "guard-before"
			} else if i >= c.lead+c.n {
				where = "spare-capacity"
			}
			return fmt.Sprintf("byte %d (%s, offset %d from data start) changed %02x->%02x", i, where, i-c.lead, c.orig[i], c.buf[i])
		}
	}
	return "changed"
}

func Hex(b []byte) string {
	if len(b) > 48 {
		return hex.EncodeToString(b[:24]) + ".." + hex.EncodeToString(b[len(b)-8:]) + fmt.Sprintf("(%d)", len(b))
	}
	return hex.EncodeToString(b)
}
