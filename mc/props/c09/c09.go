// Package c09: issued certificates, CSRs and CRLs parse back and verify only under the issuer
// (DESIGN §3 C09).
package c09

import (
	"bytes"
	"crypto"
	"crypto/ecdsa"
	"crypto/elliptic"
	"crypto/rand"
	"crypto/rsa"
	stdx509 "crypto/x509"
	"crypto/x509/pkix"
	"encoding/asn1"
	"fmt"
	"io"
	"math/big"
	"net"
	"reflect"
	"strings"
	"time"

	"github.com/tjfoc/gmsm/sm2"
	gx509 "github.com/tjfoc/gmsm/x509"

	"verif/mc/harness"
	"verif/mc/props/sm2k"
)

type signer struct {
	name   string
	family string // sm2 | rsa | ecdsa
	key    crypto.Signer
	ca     *gx509.Certificate // CA certificate carrying the signer's public key
	others []*gx509.Certificate
}

type algT struct {
	name   string
	alg    gx509.SignatureAlgorithm
	family string // "" = default
}

var algs = []algT{
	{"unset", 0, ""},
	{"SM2-SM3", gx509.SM2WithSM3, "sm2"},
	{"SM2-SHA1", gx509.SM2WithSHA1, "sm2"},
	{"SM2-SHA256", gx509.SM2WithSHA256, "sm2"},
	{"SHA256-RSA", gx509.SHA256WithRSA, "rsa"},
	{"SHA384-RSA", gx509.SHA384WithRSA, "rsa"},
	{"SHA256-RSAPSS", gx509.SHA256WithRSAPSS, "rsa"},
	{"SHA1-RSA", gx509.SHA1WithRSA, "rsa"},
	{"SHA512-RSA", gx509.SHA512WithRSA, "rsa"},
	{"SHA384-RSAPSS", gx509.SHA384WithRSAPSS, "rsa"},
	{"SHA512-RSAPSS", gx509.SHA512WithRSAPSS, "rsa"},
	{"ECDSA-SHA1", gx509.ECDSAWithSHA1, "ecdsa"},
	{"ECDSA-SHA512", gx509.ECDSAWithSHA512, "ecdsa"},
	{"ECDSA-SHA256", gx509.ECDSAWithSHA256, "ecdsa"},
	{"ECDSA-SHA384", gx509.ECDSAWithSHA384, "ecdsa"},
}

func stdCA(name string, key crypto.Signer, serial int64) *gx509.Certificate {
	t := &stdx509.Certificate{SerialNumber: big.NewInt(serial), Subject: pkix.Name{CommonName: name}, NotBefore: time.Date(2019, 1, 1, 0, 0, 0, 0, time.UTC), NotAfter: time.Date(2040, 1, 1, 0, 0, 0, 0, time.UTC),
		IsCA: true, BasicConstraintsValid: true, KeyUsage: stdx509.KeyUsageCertSign | stdx509.KeyUsageCRLSign, SubjectKeyId: []byte(name + "-ski")}
	der, err := stdx509.CreateCertificate(rand.Reader, t, t, key.Public(), key)
	if err != nil {
		panic(err)
	}
	c, err := gx509.ParseCertificate(der)
	if err != nil {
		panic(err)
	}
	return c
}

func sm2CA(name string, key *sm2.PrivateKey, serial int64) *gx509.Certificate {
	t := &gx509.Certificate{SerialNumber: big.NewInt(serial), Subject: pkix.Name{CommonName: name}, NotBefore: time.Date(2019, 1, 1, 0, 0, 0, 0, time.UTC), NotAfter: time.Date(2040, 1, 1, 0, 0, 0, 0, time.UTC),
		IsCA: true, BasicConstraintsValid: true, KeyUsage: gx509.KeyUsageCertSign | gx509.KeyUsageCRLSign, SubjectKeyId: []byte(name + "-ski"), SignatureAlgorithm: gx509.SM2WithSM3}
	der, err := gx509.CreateCertificate(t, t, &key.PublicKey, key)
	if err != nil {
		panic(err)
	}
	c, err := gx509.ParseCertificate(der)
	if err != nil {
		panic(err)
	}
	return c
}

func signers() []*signer {
	al := sm2k.Alphabet()
	s1, s2, s3 := al[5].Lib(), al[8].Lib(), al[9].Lib()
	r1, _ := rsa.GenerateKey(rand.Reader, 2048)
	r2, _ := rsa.GenerateKey(rand.Reader, 2048)
	e1, _ := ecdsa.GenerateKey(elliptic.P256(), rand.Reader)
	e2, _ := ecdsa.GenerateKey(elliptic.P256(), rand.Reader)
	e3, _ := ecdsa.GenerateKey(elliptic.P384(), rand.Reader)
	e4, _ := ecdsa.GenerateKey(elliptic.P384(), rand.Reader)
	sm := &signer{name: "SM2", family: "sm2", key: s1, ca: sm2CA("CA-sm2", s1, 11)}
	sm.others = []*gx509.Certificate{sm2CA("CA-sm2", s2, 12), sm2CA("CA-sm2", s3, 13)}
	rs := &signer{name: "RSA-2048", family: "rsa", key: r1, ca: stdCA("CA-rsa", r1, 21)}
	rs.others = []*gx509.Certificate{stdCA("CA-rsa", r2, 22), sm.ca}
	p256 := &signer{name: "P-256", family: "ecdsa", key: e1, ca: stdCA("CA-p256", e1, 31)}
	p256.others = []*gx509.Certificate{stdCA("CA-p256", e2, 32), sm.ca}
	p384 := &signer{name: "P-384", family: "ecdsa", key: e3, ca: stdCA("CA-p384", e3, 41)}
	p384.others = []*gx509.Certificate{stdCA("CA-p384", e4, 42), p256.ca}
	sm.others = append(sm.others, p256.ca)
	// the same keys behind an opaque crypto.Signer (an HSM or KMS handle): only Public and Sign
	osm := &signer{name: "SM2 behind an opaque crypto.Signer", family: "sm2", key: opaqueSigner{s1}, ca: sm.ca, others: sm.others}
	op256 := &signer{name: "P-256 behind an opaque crypto.Signer", family: "ecdsa", key: opaqueSigner{e1}, ca: p256.ca, others: p256.others}
	ors := &signer{name: "RSA-2048 behind an opaque crypto.Signer", family: "rsa", key: opaqueSigner{r1}, ca: rs.ca, others: rs.others}
	return []*signer{sm, rs, p256, p384, osm, op256, ors}
}

type opaqueSigner struct{ inner crypto.Signer }

func (o opaqueSigner) Public() crypto.PublicKey { return o.inner.Public() }
func (o opaqueSigner) Sign(r io.Reader, digest []byte, opts crypto.SignerOpts) ([]byte, error) {
	return o.inner.Sign(r, digest, opts)
}

func date(y int, m time.Month, d int) time.Time { return time.Date(y, m, d, 12, 30, 15, 0, time.UTC) }

func baseTemplate() *gx509.Certificate {
	return &gx509.Certificate{
		SerialNumber: big.NewInt(4242),
		Subject:      pkix.Name{CommonName: "subject.example", Organization: []string{"Org"}, Country: []string{"CN"}},
		NotBefore:    date(2020, 1, 1), NotAfter: date(2030, 1, 1),
		KeyUsage:     gx509.KeyUsageDigitalSignature,
		SubjectKeyId: []byte{1, 2, 3, 4},
		DNSNames:     []string{"a.example"},
	}
}

type tmplCase struct {
	name string
	mod  func(t *gx509.Certificate)
}

func templateCases() []tmplCase {
	var cs []tmplCase
	add := func(n string, f func(t *gx509.Certificate)) { cs = append(cs, tmplCase{n, f}) }
	add("base", func(t *gx509.Certificate) {})
	add("serial=1", func(t *gx509.Certificate) { t.SerialNumber = big.NewInt(1) })
	add("serial=2^63", func(t *gx509.Certificate) { t.SerialNumber = new(big.Int).Lsh(big.NewInt(1), 63) })
	add("serial=20 bytes", func(t *gx509.Certificate) { t.SerialNumber = new(big.Int).Lsh(big.NewInt(0x7f), 152) })
	add("serial negative", func(t *gx509.Certificate) { t.SerialNumber = big.NewInt(-12345) })
	add("subject multi-valued", func(t *gx509.Certificate) {
		t.Subject = pkix.Name{CommonName: "cn", Organization: []string{"O1", "O2"}, OrganizationalUnit: []string{"U1", "U2"}, Locality: []string{"L"}, Province: []string{"P"}, StreetAddress: []string{"S"}, PostalCode: []string{"1"}, SerialNumber: "SN-9", Country: []string{"CN", "DE"}}
	})
	add("subject extra attribute", func(t *gx509.Certificate) {
		t.Subject.ExtraNames = []pkix.AttributeTypeAndValue{{Type: asn1.ObjectIdentifier{2, 5, 4, 12}, Value: "title"}}
	})
	add("subject utf8", func(t *gx509.Certificate) { t.Subject = pkix.Name{CommonName: "国密-тест"} })
	add("validity epoch", func(t *gx509.Certificate) { t.NotBefore = time.Unix(0, 0).UTC(); t.NotAfter = date(1970, 1, 2) })
	add("validity 2049/2050", func(t *gx509.Certificate) {
		t.NotBefore = time.Date(2049, 12, 31, 23, 59, 59, 0, time.UTC)
		t.NotAfter = time.Date(2050, 1, 1, 0, 0, 0, 0, time.UTC)
	})
	add("validity 2050+", func(t *gx509.Certificate) { t.NotBefore = date(2050, 1, 1); t.NotAfter = date(2099, 12, 31) })
	add("validity non-UTC zone", func(t *gx509.Certificate) {
		z := time.FixedZone("x", 8*3600)
		t.NotBefore = time.Date(2021, 3, 4, 5, 6, 7, 0, z)
		t.NotAfter = time.Date(2031, 3, 4, 5, 6, 7, 0, z)
	})
	for bit := 0; bit < 9; bit++ {
		b := bit
		add(fmt.Sprintf("keyusage bit %d", b), func(t *gx509.Certificate) { t.KeyUsage = gx509.KeyUsage(1 << uint(b)) })
	}
	add("keyusage all", func(t *gx509.Certificate) { t.KeyUsage = gx509.KeyUsage(0x1ff) })
	add("keyusage none", func(t *gx509.Certificate) { t.KeyUsage = 0 })
	for e := gx509.ExtKeyUsageAny; e <= gx509.ExtKeyUsageNetscapeServerGatedCrypto; e++ {
		ee := e
		add(fmt.Sprintf("eku %d", int(ee)), func(t *gx509.Certificate) { t.ExtKeyUsage = []gx509.ExtKeyUsage{ee} })
	}
	add("eku several+unknown", func(t *gx509.Certificate) {
		t.ExtKeyUsage = []gx509.ExtKeyUsage{gx509.ExtKeyUsageServerAuth, gx509.ExtKeyUsageClientAuth}
		t.UnknownExtKeyUsage = []asn1.ObjectIdentifier{{1, 2, 3, 4, 5}}
	})
	add("CA pathlen unset", func(t *gx509.Certificate) { t.BasicConstraintsValid = true; t.IsCA = true })
	add("CA pathlen 0", func(t *gx509.Certificate) {
		t.BasicConstraintsValid = true
		t.IsCA = true
		t.MaxPathLen = 0
		t.MaxPathLenZero = true
	})
	add("CA pathlen 1", func(t *gx509.Certificate) { t.BasicConstraintsValid = true; t.IsCA = true; t.MaxPathLen = 1 })
	add("CA pathlen -1", func(t *gx509.Certificate) { t.BasicConstraintsValid = true; t.IsCA = true; t.MaxPathLen = -1 })
	add("not CA, BC present", func(t *gx509.Certificate) { t.BasicConstraintsValid = true; t.IsCA = false })
	add("san dns several", func(t *gx509.Certificate) { t.DNSNames = []string{"a.example", "*.b.example", "xn--fiq228c.example"} })
	add("san email", func(t *gx509.Certificate) {
		t.DNSNames = nil
		t.EmailAddresses = []string{"u@example.test", "v@example.test"}
	})
	add("san ipv4", func(t *gx509.Certificate) { t.DNSNames = nil; t.IPAddresses = []net.IP{net.ParseIP("10.1.2.3").To4()} })
	add("san ipv6", func(t *gx509.Certificate) { t.DNSNames = nil; t.IPAddresses = []net.IP{net.ParseIP("2001:db8::17")} })
	add("san ipv4 as 16 bytes", func(t *gx509.Certificate) { t.DNSNames = nil; t.IPAddresses = []net.IP{net.ParseIP("192.168.0.1")} })
	add("san all kinds", func(t *gx509.Certificate) {
		t.EmailAddresses = []string{"u@example.test"}
		t.IPAddresses = []net.IP{net.ParseIP("10.0.0.1").To4(), net.ParseIP("::1")}
	})
	add("no san", func(t *gx509.Certificate) { t.DNSNames = nil })
	add("name constraints", func(t *gx509.Certificate) {
		t.BasicConstraintsValid = true
		t.IsCA = true
		t.PermittedDNSDomains = []string{"example.test", ".sub.example.test"}
	})
	add("name constraints critical", func(t *gx509.Certificate) {
		t.BasicConstraintsValid = true
		t.IsCA = true
		t.PermittedDNSDomains = []string{"example.test"}
		t.PermittedDNSDomainsCritical = true
	})
	add("policies", func(t *gx509.Certificate) {
		t.PolicyIdentifiers = []asn1.ObjectIdentifier{{1, 2, 156, 10197, 1}, {2, 23, 140, 1, 2, 1}}
	})
	add("crl dp + aia", func(t *gx509.Certificate) {
		t.CRLDistributionPoints = []string{"http://crl.example/a.crl", "http://crl.example/b.crl"}
		t.OCSPServer = []string{"http://ocsp.example"}
		t.IssuingCertificateURL = []string{"http://ca.example/ca.cer"}
	})
	add("extra extension", func(t *gx509.Certificate) {
		t.ExtraExtensions = []pkix.Extension{{Id: asn1.ObjectIdentifier{1, 2, 3, 4, 5, 6}, Critical: false, Value: []byte{0x04, 0x03, 1, 2, 3}}}
	})
	add("ski long", func(t *gx509.Certificate) { t.SubjectKeyId = bytes.Repeat([]byte{0xab}, 20) })
	add("no ski", func(t *gx509.Certificate) { t.SubjectKeyId = nil })
	return cs
}

// inFamily: the property's premise — default algorithm or one of the signer's key family.
func inFamily(s *signer, a algT) bool { return a.family == "" || a.family == s.family }

func expectedAlg(s *signer, a algT) gx509.SignatureAlgorithm {
	if a.alg != 0 {
		return a.alg
	}
	switch {
	case strings.HasPrefix(s.name, "SM2"):
		return gx509.SM2WithSM3
	case strings.HasPrefix(s.name, "RSA-2048"):
		return gx509.SHA256WithRSA
	case strings.HasPrefix(s.name, "P-256"):
		return gx509.ECDSAWithSHA256
	}
	return gx509.ECDSAWithSHA384
}

func ipEq(a, b []net.IP) bool {
	if len(a) != len(b) {
		return false
	}
	for i := range a {
		if !a[i].Equal(b[i]) {
			return false
		}
	}
	return true
}

func strsEq(a, b []string) bool {
	if len(a) == 0 && len(b) == 0 {
		return true
	}
	return reflect.DeepEqual(a, b)
}

// compare returns the list of fields in which the parsed certificate differs from the template.
func compare(t *gx509.Certificate, p *gx509.Certificate, parent *gx509.Certificate, subj *sm2.PublicKey, wantAlg gx509.SignatureAlgorithm) []string {
	var d []string
	ne := func(name string, a, b interface{}) { d = append(d, fmt.Sprintf("%s: got %v want %v", name, a, b)) }
	if p.SerialNumber.Cmp(t.SerialNumber) != 0 {
		ne("SerialNumber", p.SerialNumber, t.SerialNumber)
	}
	ws, _ := asn1.Marshal(t.Subject.ToRDNSequence())
	if !bytes.Equal(p.RawSubject, ws) {
		ne("Subject", p.Subject, t.Subject)
	}
	wi, _ := asn1.Marshal(parent.Subject.ToRDNSequence())
	if !bytes.Equal(p.RawIssuer, wi) {
		ne("Issuer", p.Issuer, parent.Subject)
	}
	if !p.NotBefore.Equal(t.NotBefore) || !p.NotAfter.Equal(t.NotAfter) {
		ne("Validity", fmt.Sprint(p.NotBefore, p.NotAfter), fmt.Sprint(t.NotBefore.UTC(), t.NotAfter.UTC()))
	}
	if p.KeyUsage != t.KeyUsage {
		ne("KeyUsage", p.KeyUsage, t.KeyUsage)
	}
	if !(len(p.ExtKeyUsage) == 0 && len(t.ExtKeyUsage) == 0) && !reflect.DeepEqual(p.ExtKeyUsage, t.ExtKeyUsage) {
		ne("ExtKeyUsage", p.ExtKeyUsage, t.ExtKeyUsage)
	}
	if len(p.UnknownExtKeyUsage) != len(t.UnknownExtKeyUsage) || (len(t.UnknownExtKeyUsage) > 0 && !p.UnknownExtKeyUsage[0].Equal(t.UnknownExtKeyUsage[0])) {
		ne("UnknownExtKeyUsage", p.UnknownExtKeyUsage, t.UnknownExtKeyUsage)
	}
	if p.BasicConstraintsValid != t.BasicConstraintsValid || p.IsCA != (t.IsCA && t.BasicConstraintsValid) {
		ne("BasicConstraints", fmt.Sprint(p.BasicConstraintsValid, p.IsCA), fmt.Sprint(t.BasicConstraintsValid, t.IsCA))
	}
	if t.BasicConstraintsValid {
		wantLen, wantZero := t.MaxPathLen, false
		if t.MaxPathLen == 0 && !t.MaxPathLenZero {
			wantLen = -1
		}
		if t.MaxPathLen == 0 && t.MaxPathLenZero {
			wantZero = true
		}
		if p.MaxPathLen != wantLen || p.MaxPathLenZero != wantZero {
			ne("MaxPathLen", fmt.Sprint(p.MaxPathLen, p.MaxPathLenZero), fmt.Sprint(wantLen, wantZero))
		}
	}
	if !bytes.Equal(p.SubjectKeyId, t.SubjectKeyId) {
		ne("SubjectKeyId", p.SubjectKeyId, t.SubjectKeyId)
	}
	if !bytes.Equal(p.AuthorityKeyId, parent.SubjectKeyId) {
		ne("AuthorityKeyId", p.AuthorityKeyId, parent.SubjectKeyId)
	}
	if !strsEq(p.DNSNames, t.DNSNames) {
		ne("DNSNames", p.DNSNames, t.DNSNames)
	}
	if !strsEq(p.EmailAddresses, t.EmailAddresses) {
		ne("EmailAddresses", p.EmailAddresses, t.EmailAddresses)
	}
	if !ipEq(p.IPAddresses, t.IPAddresses) {
		ne("IPAddresses", p.IPAddresses, t.IPAddresses)
	}
	if !strsEq(p.PermittedDNSDomains, t.PermittedDNSDomains) || (len(t.PermittedDNSDomains) > 0 && p.PermittedDNSDomainsCritical != t.PermittedDNSDomainsCritical) {
		ne("PermittedDNSDomains", fmt.Sprint(p.PermittedDNSDomains, p.PermittedDNSDomainsCritical), fmt.Sprint(t.PermittedDNSDomains, t.PermittedDNSDomainsCritical))
	}
	if len(p.PolicyIdentifiers) != len(t.PolicyIdentifiers) {
		ne("PolicyIdentifiers", p.PolicyIdentifiers, t.PolicyIdentifiers)
	} else {
		for i := range t.PolicyIdentifiers {
			if !p.PolicyIdentifiers[i].Equal(t.PolicyIdentifiers[i]) {
				ne("PolicyIdentifiers", p.PolicyIdentifiers, t.PolicyIdentifiers)
			}
		}
	}
	if !strsEq(p.CRLDistributionPoints, t.CRLDistributionPoints) {
		ne("CRLDistributionPoints", p.CRLDistributionPoints, t.CRLDistributionPoints)
	}
	if !strsEq(p.OCSPServer, t.OCSPServer) || !strsEq(p.IssuingCertificateURL, t.IssuingCertificateURL) {
		ne("AIA", fmt.Sprint(p.OCSPServer, p.IssuingCertificateURL), fmt.Sprint(t.OCSPServer, t.IssuingCertificateURL))
	}
	for _, e := range t.ExtraExtensions {
		found := false
		for _, pe := range p.Extensions {
			if pe.Id.Equal(e.Id) && bytes.Equal(pe.Value, e.Value) && pe.Critical == e.Critical {
				found = true
			}
		}
		if !found {
			ne("ExtraExtension", "missing", e.Id)
		}
	}
	if p.SignatureAlgorithm != wantAlg {
		ne("SignatureAlgorithm", p.SignatureAlgorithm, wantAlg)
	}
	switch k := p.PublicKey.(type) {
	case *ecdsa.PublicKey:
		if k.X.Cmp(subj.X) != 0 || k.Y.Cmp(subj.Y) != 0 {
			ne("PublicKey", "point differs", "")
		}
	case *sm2.PublicKey:
		if k.X.Cmp(subj.X) != 0 || k.Y.Cmp(subj.Y) != 0 {
			ne("PublicKey", "point differs", "")
		}
	default:
		ne("PublicKey type", fmt.Sprintf("%T", p.PublicKey), "EC point")
	}
	if p.Version != 3 {
		ne("Version", p.Version, 3)
	}
	return d
}

// bundleUnit: two parse paths that must agree. Certificates from every template variation (plus a
// bare template without any extension, issued by a CA without a subject key id) are concatenated in
// every ordered pair and parsed with ParseCertificates; each element must be deeply equal to what
// ParseCertificate gives for the same DER on its own - nothing may leak from one certificate of a
// bundle into the next. The same certificate is also parsed twice in a row.
func bundleUnit(part, parts int) harness.Unit {
	return harness.Unit{Name: fmt.Sprintf("bundles/part%d", part), Run: func(c *harness.Ctx) {
		s := signers()[0]
		subj := &sm2k.Alphabet()[8].Lib().PublicKey
		type item struct {
			name string
			der  []byte
			one  *gx509.Certificate
		}
		var items []item
		add := func(name string, t, parent *gx509.Certificate, key crypto.Signer) {
			der, err := gx509.CreateCertificate(t, parent, subj, key)
			if err != nil {
				return
			}
			one, err := gx509.ParseCertificate(der)
			if err != nil {
				return
			}
			items = append(items, item{name, der, one})
		}
		for _, tc := range templateCases() {
			t := baseTemplate()
			tc.mod(t)
			t.SignatureAlgorithm = gx509.SM2WithSM3
			add(tc.name, t, s.ca, s.key)
		}
		// a CA without subject key id and a leaf without any extension-producing field
		bareCA := &gx509.Certificate{SerialNumber: big.NewInt(900), Subject: pkix.Name{CommonName: "bare CA"}, NotBefore: date(2020, 1, 1), NotAfter: date(2030, 1, 1),
			IsCA: true, BasicConstraintsValid: true, MaxPathLen: 1, KeyUsage: gx509.KeyUsageCertSign | gx509.KeyUsageCRLSign, DNSNames: []string{"ca.example"}, SignatureAlgorithm: gx509.SM2WithSM3}
		caKey := sm2k.Alphabet()[5].Lib()
		if der, err := gx509.CreateCertificate(bareCA, bareCA, &caKey.PublicKey, caKey); err == nil {
			if ca, err := gx509.ParseCertificate(der); err == nil {
				items = append(items, item{"bare CA (no subject key id)", der, ca})
				bare := &gx509.Certificate{SerialNumber: big.NewInt(901), Subject: pkix.Name{CommonName: "bare leaf"}, NotBefore: date(2020, 1, 1), NotAfter: date(2030, 1, 1), SignatureAlgorithm: gx509.SM2WithSM3}
				if d2, err := gx509.CreateCertificate(bare, ca, subj, caKey); err == nil {
					if one, err := gx509.ParseCertificate(d2); err == nil {
						items = append(items, item{"bare leaf (no extension-producing field)", d2, one})
					}
				}
			}
		}
		n := 0
		for i, a := range items {
			for j, b := range items {
				n++
				if n%parts != part {
					continue
				}
				c.Add("evaluations", 1)
				c.DistinctS("nontrivial", fmt.Sprintf("bundle/%d/%d", i, j))
				tag := fmt.Sprintf("bundle [%s, %s]", a.name, b.name)
				c.Guard("bundle-panic", tag, nil, func() {
					got, err := gx509.ParseCertificates(append(append([]byte{}, a.der...), b.der...))
					if err != nil || len(got) != 2 {
						c.Violate("bundle-parse", fmt.Sprintf("[%s] ParseCertificates: %d certificates, error %v", tag, len(got), err), nil, nil)
						return
					}
					for k, want := range []*gx509.Certificate{a.one, b.one} {
						if !reflect.DeepEqual(got[k], want) {
							c.Violate("bundle-element-differs-from-single-parse", fmt.Sprintf("[%s] element %d parsed as part of the bundle differs from ParseCertificate of the same DER (IsCA %v/%v, KeyUsage %v/%v, DNSNames %v/%v, %d/%d extensions)", tag, k, got[k].IsCA, want.IsCA, got[k].KeyUsage, want.KeyUsage, got[k].DNSNames, want.DNSNames, len(got[k].Extensions), len(want.Extensions)), nil, nil)
							return
						}
					}
					// and the single-certificate parser after the bundle parser
					again, err := gx509.ParseCertificate(b.der)
					if err != nil || !reflect.DeepEqual(again, b.one) {
						c.Violate("parse-depends-on-earlier-parse", fmt.Sprintf("[%s] ParseCertificate after ParseCertificates gives another result", tag), nil, nil)
					}
				})
			}
		}
		c.Sample(fmt.Sprintf("every ordered pair of %d certificates (all template variations, bare CA, bare leaf) parsed as one bundle and compared with the single parses", len(items)))
	}}
}

func certUnit(si int) harness.Unit {
	return harness.Unit{Name: fmt.Sprintf("certificates/signer%d", si), Run: func(c *harness.Ctx) {
		ss := signers()
		s := ss[si]
		subj := &sm2k.Alphabet()[8].Lib().PublicKey
		for _, tc := range templateCases() {
			for _, a := range algs {
				if tc.name != "base" && a.alg != 0 && a.family != s.family {
					continue // mismatching algorithm: one-at-a-time with the base template only
				}
				t := baseTemplate()
				tc.mod(t)
				t.SignatureAlgorithm = a.alg
				tag := fmt.Sprintf("certificate template=%q signer=%s alg=%s", tc.name, s.name, a.name)
				c.Add("evaluations", 1)
				c.DistinctS("nontrivial", tag)
				var der []byte
				var err error
				if c.Guard("create-panic:certificate", "CreateCertificate "+tag, nil, func() { der, err = gx509.CreateCertificate(t, s.ca, subj, s.key) }) {
					continue
				}
				if !inFamily(s, a) {
					continue // outside the premise: nothing is demanded
				}
				if err != nil {
					// a template the package does not accept is outside the premise, but the base template must be accepted
					if tc.name == "base" {
						c.Violate(fmt.Sprintf("create-rejects:certificate:%s:%s", s.name, a.name), fmt.Sprintf("[%s] CreateCertificate failed: %v", tag, err), nil, nil)
					} else {
						c.Note("template not accepted (%s): %v", tag, err)
					}
					continue
				}
				p, err := gx509.ParseCertificate(der)
				if err != nil {
					c.Violate(fmt.Sprintf("parse-back:certificate:%s", tc.name), fmt.Sprintf("[%s] own output does not parse: %v", tag, err), nil, nil)
					continue
				}
				if diff := compare(t, p, s.ca, subj, expectedAlg(s, a)); len(diff) > 0 {
					c.Violate(fmt.Sprintf("field-roundtrip:certificate:%s", tc.name), fmt.Sprintf("[%s] parsed certificate differs from the template: %v", tag, diff), nil, nil)
				}
				if err := p.CheckSignatureFrom(s.ca); err != nil {
					c.Violate(fmt.Sprintf("self-verify:certificate:%s:%s", s.name, a.name), fmt.Sprintf("[%s] the created certificate does not verify under its issuer: %v", tag, err), nil, nil)
					continue
				}
				if tc.name == "base" || tc.name == "serial negative" {
					for oi, o := range s.others {
						if err := p.CheckSignatureFrom(o); err == nil {
							c.Violate(fmt.Sprintf("verifies-under-other-key:certificate:%s", s.name), fmt.Sprintf("[%s] verifies under another key (other #%d)", tag, oi), nil, nil)
						}
					}
				}
				if c.WantSample() {
					c.Sample(tag)
				}
			}
		}
		// ExtraExtensions override the extension the template would generate for the same OID - that one
		// and no other. A template that sets every field gives the baseline; a second one with other
		// values donates, OID by OID, a well-formed replacement value. With one replacement in
		// ExtraExtensions the certificate must carry every extension exactly once, the replaced one
		// with the donated value and all others byte for byte as in the baseline.
		rich := func(alt bool) *gx509.Certificate {
			t := baseTemplate()
			t.KeyUsage = gx509.KeyUsageDigitalSignature | gx509.KeyUsageCertSign
			t.ExtKeyUsage = []gx509.ExtKeyUsage{gx509.ExtKeyUsageServerAuth}
			t.BasicConstraintsValid, t.IsCA, t.MaxPathLen = true, true, 2
			t.SubjectKeyId = []byte{1, 2, 3, 4}
			t.DNSNames, t.EmailAddresses = []string{"a.example"}, []string{"u@example.test"}
			t.PolicyIdentifiers = []asn1.ObjectIdentifier{{1, 2, 3, 4}}
			t.CRLDistributionPoints = []string{"http://crl.example/a.crl"}
			t.OCSPServer, t.IssuingCertificateURL = []string{"http://ocsp.example"}, []string{"http://ca.example/ca.cer"}
			t.PermittedDNSDomains, t.PermittedDNSDomainsCritical = []string{"example"}, true
			if alt {
				t.KeyUsage = gx509.KeyUsageKeyEncipherment
				t.ExtKeyUsage = []gx509.ExtKeyUsage{gx509.ExtKeyUsageClientAuth, gx509.ExtKeyUsageEmailProtection}
				t.MaxPathLen = 5
				t.SubjectKeyId = []byte{9, 9, 9}
				t.DNSNames, t.EmailAddresses = []string{"x.example", "y.example"}, nil
				t.PolicyIdentifiers = []asn1.ObjectIdentifier{{1, 2, 3, 5}, {1, 2, 3, 6}}
				t.CRLDistributionPoints = []string{"http://crl.example/b.crl"}
				t.OCSPServer, t.IssuingCertificateURL = []string{"http://ocsp2.example"}, nil
				t.PermittedDNSDomains = []string{"other"}
			}
			return t
		}
		mkParsed := func(t *gx509.Certificate) *gx509.Certificate {
			der, err := gx509.CreateCertificate(t, s.ca, subj, s.key)
			if err != nil {
				return nil
			}
			q, err := gx509.ParseCertificate(der)
			if err != nil {
				return nil
			}
			return q
		}
		p0, p2 := mkParsed(rich(false)), mkParsed(rich(true))
		if p0 == nil || p2 == nil {
			c.Violate("create-rejects:certificate:rich-template:"+s.name, "a template setting every field is not accepted or does not parse back", nil, nil)
			return
		}
		// the issuer of the donor gets another key id, so that the authority key id has a replacement too
		extOf := func(q *gx509.Certificate, id asn1.ObjectIdentifier) *pkix.Extension {
			for i := range q.Extensions {
				if q.Extensions[i].Id.Equal(id) {
					return &q.Extensions[i]
				}
			}
			return nil
		}
		donors := append([]pkix.Extension{}, p2.Extensions...)
		if aki := extOf(p0, asn1.ObjectIdentifier{2, 5, 29, 35}); aki != nil {
			v, _ := asn1.Marshal(struct {
				Id []byte `asn1:"optional,tag:0"`
			}{[]byte{7, 7, 7}})
			for i := range donors {
				if donors[i].Id.Equal(aki.Id) {
					donors[i].Value = v
				}
			}
		}
		for _, e := range donors {
			if extOf(p0, e.Id) == nil {
				continue
			}
			t := rich(false)
			t.ExtraExtensions = []pkix.Extension{{Id: e.Id, Critical: e.Critical, Value: e.Value}}
			tag := fmt.Sprintf("certificate template with every field set and ExtraExtensions replacing %v, signer=%s", e.Id, s.name)
			c.Add("evaluations", 1)
			c.DistinctS("nontrivial", tag)
			var q *gx509.Certificate
			if c.Guard("create-panic:certificate", "CreateCertificate "+tag, nil, func() { q = mkParsed(t) }) {
				continue
			}
			if q == nil {
				c.Violate("extra-extension-override:rejected:"+e.Id.String(), fmt.Sprintf("[%s] not created or does not parse back", tag), nil, nil)
				continue
			}
			seen := map[string]int{}
			for _, x := range q.Extensions {
				seen[x.Id.String()]++
			}
			var diff []string
			for id, n := range seen {
				if n > 1 {
					diff = append(diff, fmt.Sprintf("extension %s occurs %d times", id, n))
				}
			}
			for _, b := range p0.Extensions {
				x := extOf(q, b.Id)
				switch {
				case x == nil:
					diff = append(diff, fmt.Sprintf("extension %v is missing", b.Id))
				case b.Id.Equal(e.Id):
					if !bytes.Equal(x.Value, e.Value) {
						diff = append(diff, fmt.Sprintf("extension %v does not carry the value given in ExtraExtensions", b.Id))
					}
				case !bytes.Equal(x.Value, b.Value):
					diff = append(diff, fmt.Sprintf("extension %v changed although another one was replaced", b.Id))
				}
			}
			if len(diff) > 0 {
				c.Violate("extra-extension-override:"+e.Id.String(), fmt.Sprintf("[%s] %v", tag, diff), nil, nil)
			}
		}
	}}
}

func csrUnit(si int) harness.Unit {
	return harness.Unit{Name: fmt.Sprintf("requests/signer%d", si), Run: func(c *harness.Ctx) {
		s := signers()[si]
		type cc struct {
			name string
			t    gx509.CertificateRequest
			mk   func() gx509.CertificateRequest // a fresh template (CreateCertificateRequest may write into Attributes)
			// what must be found in the parsed request beyond subject, SANs and key
			wantExt  []pkix.Extension
			wantAttr []pkix.AttributeTypeAndValueSET
		}
		oidExtReq := asn1.ObjectIdentifier{1, 2, 840, 113549, 1, 9, 14}
		oidChallenge := asn1.ObjectIdentifier{1, 2, 840, 113549, 1, 9, 7}
		extX := pkix.Extension{Id: asn1.ObjectIdentifier{1, 2, 3, 9}, Value: []byte{5, 0}}
		extY := pkix.Extension{Id: asn1.ObjectIdentifier{1, 2, 3, 10}, Value: []byte{4, 2, 7, 7}}
		extXother := pkix.Extension{Id: asn1.ObjectIdentifier{1, 2, 3, 9}, Value: []byte{4, 1, 1}}
		type part struct {
			name string
			f    func(t *gx509.CertificateRequest, w *cc)
		}
		subjects := []part{
			{"CN+O", func(t *gx509.CertificateRequest, w *cc) {
				t.Subject = pkix.Name{CommonName: "req", Organization: []string{"O"}}
			}},
			{"multi-valued subject", func(t *gx509.CertificateRequest, w *cc) {
				t.Subject = pkix.Name{CommonName: "req", Organization: []string{"O1", "O2"}, Country: []string{"CN"}}
			}},
			{"empty subject", func(t *gx509.CertificateRequest, w *cc) {}},
		}
		sans := []part{
			{"no SANs", func(t *gx509.CertificateRequest, w *cc) {}},
			{"DNS names", func(t *gx509.CertificateRequest, w *cc) { t.DNSNames = []string{"a.example", "b.example"} }},
			{"DNS+email+IP", func(t *gx509.CertificateRequest, w *cc) {
				t.DNSNames, t.EmailAddresses = []string{"a.example", "b.example"}, []string{"u@example.test"}
				t.IPAddresses = []net.IP{net.ParseIP("10.0.0.9").To4(), net.ParseIP("2001:db8::9")}
			}},
		}
		extras := []part{
			{"no extra extension", func(t *gx509.CertificateRequest, w *cc) {}},
			{"one extra extension", func(t *gx509.CertificateRequest, w *cc) {
				t.ExtraExtensions = []pkix.Extension{extX}
				w.wantExt = append(w.wantExt, extX)
			}},
			{"two extra extensions", func(t *gx509.CertificateRequest, w *cc) {
				t.ExtraExtensions = []pkix.Extension{extX, extY}
				w.wantExt = append(w.wantExt, extX, extY)
			}},
		}
		reqAttr := func(es ...pkix.Extension) pkix.AttributeTypeAndValueSET {
			var atvs []pkix.AttributeTypeAndValue
			for _, e := range es {
				atvs = append(atvs, pkix.AttributeTypeAndValue{Type: e.Id, Value: e.Value})
			}
			return pkix.AttributeTypeAndValueSET{Type: oidExtReq, Value: [][]pkix.AttributeTypeAndValue{atvs}}
		}
		other := func() pkix.AttributeTypeAndValueSET {
			return pkix.AttributeTypeAndValueSET{Type: oidChallenge, Value: [][]pkix.AttributeTypeAndValue{{{Type: asn1.ObjectIdentifier{2, 5, 4, 3}, Value: "secret"}}}}
		}
		attrs := []part{
			{"no attributes", func(t *gx509.CertificateRequest, w *cc) {}},
			{"another attribute", func(t *gx509.CertificateRequest, w *cc) {
				t.Attributes = []pkix.AttributeTypeAndValueSET{other()}
				w.wantAttr = append(w.wantAttr, other())
			}},
			{"extensionRequest attribute with its own extension", func(t *gx509.CertificateRequest, w *cc) {
				t.Attributes = []pkix.AttributeTypeAndValueSET{reqAttr(extY)}
				w.wantExt = append(w.wantExt, extY)
			}},
			{"another attribute, then an extensionRequest attribute", func(t *gx509.CertificateRequest, w *cc) {
				t.Attributes = []pkix.AttributeTypeAndValueSET{other(), reqAttr(extY)}
				w.wantExt = append(w.wantExt, extY)
				w.wantAttr = append(w.wantAttr, other())
			}},
			{"extensionRequest attribute overriding the first extra extension", func(t *gx509.CertificateRequest, w *cc) {
				t.Attributes = []pkix.AttributeTypeAndValueSET{reqAttr(extXother)}
				for i := range w.wantExt {
					if w.wantExt[i].Id.Equal(extXother.Id) {
						w.wantExt[i] = extXother
					}
				}
				if len(t.ExtraExtensions) == 0 {
					w.wantExt = append(w.wantExt, extXother)
				}
			}},
			{"extensionRequest attribute without values", func(t *gx509.CertificateRequest, w *cc) {
				t.Attributes = []pkix.AttributeTypeAndValueSET{{Type: oidExtReq}}
			}},
		}
		var cases []cc
		for _, sp := range subjects {
			for _, np := range sans {
				for _, ep := range extras {
					for _, ap := range attrs {
						sp, np, ep, ap := sp, np, ep, ap
						w := cc{name: sp.name + "; " + np.name + "; " + ep.name + "; " + ap.name}
						build := func(w *cc) gx509.CertificateRequest {
							var t gx509.CertificateRequest
							sp.f(&t, w)
							np.f(&t, w)
							ep.f(&t, w)
							ap.f(&t, w)
							return t
						}
						w.t = build(&w)
						w.mk = func() gx509.CertificateRequest { var scratch cc; return build(&scratch) }
						cases = append(cases, w)
					}
				}
			}
		}
		for _, tc := range cases {
			for _, a := range algs {
				if !strings.HasPrefix(tc.name, "CN+O; no SANs; no extra extension; no attributes") && a.alg != 0 && a.family != s.family {
					continue
				}
				t := tc.mk()
				t.SignatureAlgorithm = a.alg
				tag := fmt.Sprintf("CSR template=%q signer=%s alg=%s", tc.name, s.name, a.name)
				c.Add("evaluations", 1)
				c.DistinctS("nontrivial", tag)
				var der []byte
				var err error
				if c.Guard("create-panic:csr", "CreateCertificateRequest "+tag, nil, func() { der, err = gx509.CreateCertificateRequest(rand.Reader, &t, s.key) }) {
					continue
				}
				if !inFamily(s, a) || err != nil {
					if err != nil && inFamily(s, a) {
						c.Note("CSR template not accepted (%s): %v", tag, err)
					}
					continue
				}
				p, err := gx509.ParseCertificateRequest(der)
				if err != nil {
					c.Violate("parse-back:csr:"+tc.name, fmt.Sprintf("[%s] own output does not parse: %v", tag, err), nil, nil)
					continue
				}
				ws, _ := asn1.Marshal(t.Subject.ToRDNSequence())
				var diff []string
				if !bytes.Equal(p.RawSubject, ws) {
					diff = append(diff, "Subject")
				}
				if !strsEq(p.DNSNames, t.DNSNames) || !strsEq(p.EmailAddresses, t.EmailAddresses) || !ipEq(p.IPAddresses, t.IPAddresses) {
					diff = append(diff, "SANs")
				}
				if p.SignatureAlgorithm != expectedAlg(s, a) {
					diff = append(diff, fmt.Sprintf("SignatureAlgorithm %v want %v", p.SignatureAlgorithm, expectedAlg(s, a)))
				}
				for _, e := range tc.wantExt {
					f := false
					for _, pe := range p.Extensions {
						if pe.Id.Equal(e.Id) && bytes.Equal(pe.Value, e.Value) {
							f = true
						}
					}
					if !f {
						diff = append(diff, fmt.Sprintf("extension %v", e.Id))
					}
				}
				for _, wa := range tc.wantAttr {
					f := false
					for _, pa := range p.Attributes {
						if pa.Type.Equal(wa.Type) && fmt.Sprint(pa.Value) == fmt.Sprint(wa.Value) {
							f = true
						}
					}
					if !f {
						diff = append(diff, fmt.Sprintf("attribute %v", wa.Type))
					}
				}
				// the same template object used a second time gives a request with the same contents
				if der2, err2 := gx509.CreateCertificateRequest(rand.Reader, &t, s.key); err2 != nil {
					diff = append(diff, fmt.Sprintf("second use of the template fails: %v", err2))
				} else if p2, err2 := gx509.ParseCertificateRequest(der2); err2 != nil {
					diff = append(diff, fmt.Sprintf("second use of the template does not parse: %v", err2))
				} else if !strsEq(p2.DNSNames, p.DNSNames) || !ipEq(p2.IPAddresses, p.IPAddresses) || len(p2.Extensions) != len(p.Extensions) || len(p2.Attributes) != len(p.Attributes) {
					diff = append(diff, "second use of the template gives other contents")
				}
				if !samePublic(p.PublicKey, s.key.Public()) {
					diff = append(diff, "PublicKey")
				}
				if len(diff) > 0 {
					c.Violate("field-roundtrip:csr:"+tc.name, fmt.Sprintf("[%s] parsed request differs: %v", tag, diff), nil, nil)
				}
				if err := p.CheckSignature(); err != nil {
					c.Violate(fmt.Sprintf("self-verify:csr:%s:%s", s.name, a.name), fmt.Sprintf("[%s] the created request fails its own signature check: %v", tag, err), nil, nil)
				}
				if c.WantSample() {
					c.Sample(tag)
				}
			}
		}
	}}
}

func samePublic(a, b crypto.PublicKey) bool {
	xy := func(k crypto.PublicKey) (*big.Int, *big.Int, *big.Int) {
		switch p := k.(type) {
		case *ecdsa.PublicKey:
			return p.X, p.Y, nil
		case *sm2.PublicKey:
			return p.X, p.Y, nil
		case *rsa.PublicKey:
			return nil, nil, p.N
		}
		return nil, nil, nil
	}
	ax, ay, an := xy(a)
	bx, by, bn := xy(b)
	if an != nil || bn != nil {
		return an != nil && bn != nil && an.Cmp(bn) == 0
	}
	return ax != nil && bx != nil && ax.Cmp(bx) == 0 && ay.Cmp(by) == 0
}

func crlUnit(si int) harness.Unit {
	return harness.Unit{Name: fmt.Sprintf("crls/signer%d", si), Run: func(c *harness.Ctx) {
		s := signers()[si]
		now, next := date(2024, 5, 6), date(2024, 6, 6)
		revSets := [][]pkix.RevokedCertificate{
			nil,
			{{SerialNumber: big.NewInt(5), RevocationTime: date(2024, 1, 1)}},
			{{SerialNumber: big.NewInt(5), RevocationTime: date(2024, 1, 1)}, {SerialNumber: new(big.Int).Lsh(big.NewInt(1), 100), RevocationTime: time.Date(2024, 2, 2, 3, 4, 5, 0, time.FixedZone("z", 3600))}},
			// entries with their own extensions: reasonCode keyCompromise, a critical private extension
			{{SerialNumber: big.NewInt(7), RevocationTime: date(2024, 1, 1), Extensions: []pkix.Extension{{Id: asn1.ObjectIdentifier{2, 5, 29, 21}, Value: []byte{0x0a, 0x01, 0x01}}}},
				{SerialNumber: big.NewInt(8), RevocationTime: date(2024, 3, 1)},
				{SerialNumber: big.NewInt(9), RevocationTime: date(2024, 4, 1), Extensions: []pkix.Extension{{Id: asn1.ObjectIdentifier{2, 5, 29, 21}, Value: []byte{0x0a, 0x01, 0x04}}, {Id: asn1.ObjectIdentifier{1, 3, 6, 1, 4, 1, 55555, 2}, Critical: true, Value: []byte{0x05, 0x00}}}}},
		}
		verifyCRL := func(tag, kind string, der []byte, wantAlg gx509.SignatureAlgorithm, rev []pkix.RevokedCertificate, a string) {
			crl, err := gx509.ParseCRL(der)
			if err != nil {
				c.Violate("parse-back:"+kind, fmt.Sprintf("[%s] own CRL does not parse: %v", tag, err), nil, nil)
				return
			}
			if len(crl.TBSCertList.RevokedCertificates) != len(rev) {
				c.Violate("field-roundtrip:"+kind+":revoked-count", fmt.Sprintf("[%s] %d revoked entries, want %d", tag, len(crl.TBSCertList.RevokedCertificates), len(rev)), nil, nil)
			} else {
				for i := range rev {
					g := crl.TBSCertList.RevokedCertificates[i]
					if g.SerialNumber.Cmp(rev[i].SerialNumber) != 0 || !g.RevocationTime.Equal(rev[i].RevocationTime) {
						c.Violate("field-roundtrip:"+kind+":revoked-entry", fmt.Sprintf("[%s] entry %d differs", tag, i), nil, nil)
					}
					same := len(g.Extensions) == len(rev[i].Extensions)
					for k := 0; same && k < len(g.Extensions); k++ {
						same = g.Extensions[k].Id.Equal(rev[i].Extensions[k].Id) && g.Extensions[k].Critical == rev[i].Extensions[k].Critical && bytes.Equal(g.Extensions[k].Value, rev[i].Extensions[k].Value)
					}
					if !same {
						c.Violate("field-roundtrip:"+kind+":revoked-entry-extensions", fmt.Sprintf("[%s] entry %d comes back with %d extensions, %d were put in", tag, i, len(g.Extensions), len(rev[i].Extensions)), nil, nil)
					}
				}
			}
			if !crl.TBSCertList.ThisUpdate.Equal(now) || !crl.TBSCertList.NextUpdate.Equal(next) {
				c.Violate("field-roundtrip:"+kind+":updates", fmt.Sprintf("[%s] thisUpdate/nextUpdate differ", tag), nil, nil)
			}
			if err := s.ca.CheckCRLSignature(crl); err != nil {
				c.Violate(fmt.Sprintf("self-verify:%s:%s:%s", kind, s.name, a), fmt.Sprintf("[%s] the created CRL does not verify under its issuer: %v", tag, err), nil, nil)
				return
			}
			for oi, o := range s.others {
				if err := o.CheckCRLSignature(crl); err == nil {
					c.Violate("verifies-under-other-key:"+kind, fmt.Sprintf("[%s] CRL verifies under another key (#%d)", tag, oi), nil, nil)
				}
			}
		}
		for ri, rev := range revSets {
			tag := fmt.Sprintf("CreateCRL signer=%s revoked=%d", s.name, ri)
			c.Add("evaluations", 1)
			c.DistinctS("nontrivial", tag)
			var der []byte
			var err error
			if !c.Guard("create-panic:crl", tag, nil, func() { der, err = s.ca.CreateCRL(rand.Reader, s.key, rev, now, next) }) {
				if err != nil {
					c.Violate("create-rejects:crl:"+s.name, fmt.Sprintf("[%s] %v", tag, err), nil, nil)
				} else {
					verifyCRL(tag, "crl", der, 0, rev, "default")
				}
			}
			for _, a := range algs {
				tag := fmt.Sprintf("CreateRevocationList signer=%s alg=%s revoked=%d", s.name, a.name, ri)
				c.Add("evaluations", 1)
				c.DistinctS("nontrivial", tag)
				t := &gx509.RevocationList{SignatureAlgorithm: a.alg, RevokedCertificates: rev, Number: big.NewInt(int64(7 + ri)), ThisUpdate: now, NextUpdate: next}
				if ri == 2 {
					t.ExtraExtensions = []pkix.Extension{{Id: asn1.ObjectIdentifier{1, 2, 3, 77}, Value: []byte{5, 0}}}
				}
				if c.Guard("create-panic:revocationlist", tag, nil, func() { der, err = gx509.CreateRevocationList(rand.Reader, t, s.ca, s.key) }) {
					continue
				}
				if !inFamily(s, a) {
					continue
				}
				if err != nil {
					c.Violate(fmt.Sprintf("create-rejects:revocationlist:%s:%s", s.name, a.name), fmt.Sprintf("[%s] %v", tag, err), nil, nil)
					continue
				}
				verifyCRL(tag, "revocationlist", der, expectedAlg(s, a), rev, a.name)
			}
		}
		c.Sample(fmt.Sprintf("CreateCRL and CreateRevocationList x 9 algorithms x 4 revoked sets (one with per-entry extensions) with signer %s", s.name))
	}}
}

// faultUnit: every byte of the signed part and of the signature value, four substitutions each.
func faultUnit(si int) harness.Unit {
	return harness.Unit{Name: fmt.Sprintf("byte-faults/signer%d", si), Run: func(c *harness.Ctx) {
		s := signers()[si]
		subj := &sm2k.Alphabet()[8].Lib().PublicKey
		t := baseTemplate()
		if s.family == "sm2" {
			t.SignatureAlgorithm = gx509.SM2WithSM3
		}
		der, err := gx509.CreateCertificate(t, s.ca, subj, s.key)
		if err != nil {
			c.Violate("fault-setup", err.Error(), nil, nil)
			return
		}
		// the unused-bits octet of the signature BIT STRING: every value 1..7 on 10 certificates (a
		// value k only parses when the signature's last byte has k trailing zero bits)
		for n := 0; n < 10; n++ {
			d2, err := gx509.CreateCertificate(t, s.ca, subj, s.key)
			if err != nil {
				break
			}
			q, err := gx509.ParseCertificate(d2)
			if err != nil || q.CheckSignatureFrom(s.ca) != nil {
				break
			}
			ub := bytes.LastIndex(d2, q.Signature) - 1
			for k := byte(1); k <= 7; k++ {
				bad := append([]byte{}, d2...)
				bad[ub] = k
				c.Add("evaluations", 1)
				c.Distinct("nontrivial", bad)
				if r, err := gx509.ParseCertificate(bad); err == nil && r.CheckSignatureFrom(s.ca) == nil {
					c.Violate(fmt.Sprintf("fault-undetected:signature-unused-bits:%s", s.name), fmt.Sprintf("certificate signed by %s still verifies after the unused-bits octet of the signature BIT STRING was changed 00->%02x", s.name, k), nil, nil)
				}
			}
		}
		ders := [][]byte{der}
		if c.Thorough() {
			// thorough: the byte sweep also over every 4th template variation
			for i, tc := range templateCases() {
				if i%4 != 1 {
					continue
				}
				t2 := baseTemplate()
				if s.family == "sm2" {
					t2.SignatureAlgorithm = gx509.SM2WithSM3
				}
				tc.mod(t2)
				if d2, err := gx509.CreateCertificate(t2, s.ca, subj, s.key); err == nil {
					ders = append(ders, d2)
				}
			}
		}
		for _, der := range ders {
			certByteFaults(c, s, der)
		}
		c09objects(c, s)
	}}
}

func certByteFaults(c *harness.Ctx, s *signer, der []byte) {
	{
		p, err := gx509.ParseCertificate(der)
		if err != nil || p.CheckSignatureFrom(s.ca) != nil {
			c.Note("certificate does not verify for %s; byte faults skipped (reported by the certificate unit)", s.name)
			return
		}
		tbsOff := bytes.Index(der, p.RawTBSCertificate)
		sigOff := bytes.LastIndex(der, p.Signature)
		try := func(region string, i int) {
			for _, v := range []byte{der[i] ^ 1, der[i] ^ 0x80, 0x00, 0xff} {
				if v == der[i] {
					continue
				}
				bad := append([]byte{}, der...)
				bad[i] = v
				c.Add("evaluations", 1)
				c.Distinct("nontrivial", bad)
				var ok bool
				if c.Guard("fault-panic:"+region, fmt.Sprintf("parse/verify with byte %d changed", i), nil, func() {
					q, err := gx509.ParseCertificate(bad)
					ok = err == nil && q.CheckSignatureFrom(s.ca) == nil
				}) {
					continue
				}
				if ok {
					c.Violate(fmt.Sprintf("fault-undetected:%s:%s", region, s.name), fmt.Sprintf("certificate signed by %s still verifies after byte %d (%s, offset %d in region) changed %02x->%02x", s.name, i, region, i-map[string]int{"tbs": tbsOff, "signature": sigOff}[region], der[i], v), nil, nil)
				}
			}
		}
		for i := tbsOff; i < tbsOff+len(p.RawTBSCertificate); i++ {
			try("tbs", i)
		}
		// the whole signatureValue BIT STRING: tag, length, unused-bits octet and contents
		bitStart := sigOff - 1
		for bitStart > 0 && der[bitStart] != 0x03 {
			bitStart--
		}
		for i := bitStart; i < sigOff+len(p.Signature); i++ {
			try("signature", i)
		}
		c.Sample(fmt.Sprintf("every byte of TBS (%d) and signature value (%d) of a certificate signed by %s x {b^1,b^0x80,00,ff}", len(p.RawTBSCertificate), len(p.Signature), s.name))
	}
}

func c09objects(c *harness.Ctx, s *signer) {
	{
		// the same for a certificate request and a revocation list
		type obj struct {
			kind   string
			make   func() ([]byte, error)
			parts  func(der []byte) (signed, sig []byte, err error)
			verify func(der []byte) bool
		}
		now, next := date(2024, 5, 6), date(2024, 6, 6)
		objs := []obj{
			{"request", func() ([]byte, error) {
				t := gx509.CertificateRequest{Subject: pkix.Name{CommonName: "req", Organization: []string{"O"}}, DNSNames: []string{"a.example"}}
				return gx509.CreateCertificateRequest(rand.Reader, &t, s.key)
			}, func(der []byte) ([]byte, []byte, error) {
				q, err := gx509.ParseCertificateRequest(der)
				if err != nil {
					return nil, nil, err
				}
				return q.RawTBSCertificateRequest, q.Signature, q.CheckSignature()
			}, func(der []byte) bool {
				q, err := gx509.ParseCertificateRequest(der)
				return err == nil && q.CheckSignature() == nil
			}},
			{"crl", func() ([]byte, error) {
				return s.ca.CreateCRL(rand.Reader, s.key, []pkix.RevokedCertificate{{SerialNumber: big.NewInt(5), RevocationTime: date(2024, 1, 1)}}, now, next)
			}, func(der []byte) ([]byte, []byte, error) {
				q, err := gx509.ParseCRL(der)
				if err != nil {
					return nil, nil, err
				}
				return q.TBSCertList.Raw, q.SignatureValue.Bytes, s.ca.CheckCRLSignature(q)
			}, func(der []byte) bool {
				q, err := gx509.ParseCRL(der)
				return err == nil && s.ca.CheckCRLSignature(q) == nil
			}},
		}
		for _, o := range objs {
			// unused-bits octet 1..7 on 10 objects
			for n := 0; n < 10; n++ {
				d2, err := o.make()
				if err != nil {
					break
				}
				_, sig, err := o.parts(d2)
				if err != nil {
					break
				}
				ub := bytes.LastIndex(d2, sig) - 1
				for k := byte(1); k <= 7; k++ {
					bad := append([]byte{}, d2...)
					bad[ub] = k
					c.Add("evaluations", 1)
					c.Distinct("nontrivial", bad)
					var ok bool
					if c.Guard("fault-panic:"+o.kind, "unused-bits octet changed", nil, func() { ok = o.verify(bad) }) {
						continue
					}
					if ok {
						c.Violate(fmt.Sprintf("fault-undetected:%s-signature-unused-bits:%s", o.kind, s.name), fmt.Sprintf("%s signed by %s still verifies after the unused-bits octet of the signature BIT STRING was changed 00->%02x", o.kind, s.name, k), nil, nil)
					}
				}
			}
			d, err := o.make()
			if err != nil {
				c.Note("%s not created for %s: %v", o.kind, s.name, err)
				continue
			}
			signed, sig, err := o.parts(d)
			if err != nil {
				c.Note("%s of %s does not verify; byte faults skipped (reported elsewhere): %v", o.kind, s.name, err)
				continue
			}
			so, go_ := bytes.Index(d, signed), bytes.LastIndex(d, sig)
			bs := go_ - 1
			for bs > 0 && d[bs] != 0x03 {
				bs--
			}
			idx := []int{}
			for i := so; i < so+len(signed); i++ {
				idx = append(idx, i)
			}
			for i := bs; i < go_+len(sig); i++ {
				idx = append(idx, i)
			}
			for _, i := range idx {
				for _, v := range []byte{d[i] ^ 1, d[i] ^ 0x80, 0x00, 0xff} {
					if v == d[i] {
						continue
					}
					bad := append([]byte{}, d...)
					bad[i] = v
					c.Add("evaluations", 1)
					c.Distinct("nontrivial", bad)
					var ok bool
					if c.Guard("fault-panic:"+o.kind, fmt.Sprintf("parse/verify with byte %d changed", i), nil, func() { ok = o.verify(bad) }) {
						continue
					}
					if ok {
						c.Violate(fmt.Sprintf("fault-undetected:%s:%s", o.kind, s.name), fmt.Sprintf("%s signed by %s still verifies after byte %d changed %02x->%02x", o.kind, s.name, i, d[i], v), nil, nil)
					}
				}
			}
			c.Sample(fmt.Sprintf("every byte of the signed part (%d) and signature value (%d) of a %s signed by %s x {b^1,b^0x80,00,ff}", len(signed), len(sig), o.kind, s.name))
		}
	}
}

// Prop registers C09.
var Prop = &harness.Prop{
	ID:          "C09",
	Level:       "exploration",
	Rule:        "one-at-a-time product: 58 template variations (serials incl. negative/20-byte, names, validity boundaries, every KeyUsage bit, every ExtKeyUsage, basic constraints/path lengths, SAN kinds, name constraints, policies, CRL DP/AIA, extra extension, key ids) x signer {SM2, RSA-2048, P-256, P-384} x signature algorithm {unset + the signer's family; all 9 incl. mismatching ones on the base template}; CSRs (5 templates) and CRLs (CreateCRL, CreateRevocationList x 9 algorithms x 3 revoked sets) likewise. For every object inside the premise: creation, parse-back field by field, verification under the issuer, failure under other keys. Fault enumeration: every byte of the signed part and of the signatureValue BIT STRING (tag, length, unused-bits octet, contents) of one certificate, one certificate request and one revocation list per signer x {b^1,b^0x80,00,ff} must fail to parse or verify; the unused-bits octet set to 1..7 on 10 objects of each kind. Bundles: every ordered pair of certificates from all template variations (plus a CA without key id and a leaf without extensions) parsed by ParseCertificates must equal the single parses. Distinct/non-trivial = distinct case labels / mutated DERs. Added: certificate requests as a product of subject x SANs x extra extensions x attributes (6 attribute shapes incl. an existing extensionRequest), each template object used twice; certificates with every field set and each generated extension replaced in turn through ExtraExtensions by a donor value: the replaced one carries the donor value, all others are byte-identical to the baseline, no extension OID twice. Signers behind an opaque crypto.Signer (SM2, P-256, RSA); revoked entries with per-entry extensions. The algorithm alphabet covers every RSA PKCS#1 v1.5 hash from SHA-1 to SHA-512, all three RSA-PSS hashes, and ECDSA with SHA-1/256/384/512, besides the three SM2 algorithms and unset.",
	Assumptions: []string{"RSA/ECDSA issuer certificates are created with Go's crypto/x509 and parsed by the package", "signature values are randomised inside the library (not observed)"},
	Bounds: func(tier string) string {
		if tier == "thorough" {
			return "products complete for the stated alphabets; byte sweep over the base certificate and every 4th template variation (15 certificates) per signer, plus one request and one revocation list per signer"
		}
		return "products complete for the stated alphabets; byte sweep over one certificate, one request and one revocation list per signer"
	},
	Units: func(tier string) []harness.Unit {
		var u []harness.Unit
		for i := 0; i < 4; i++ {
			u = append(u, certUnit(i), csrUnit(i), crlUnit(i), faultUnit(i))
		}
		for i := 4; i < 7; i++ { // opaque signers
			u = append(u, certUnit(i), csrUnit(i), crlUnit(i))
		}
		for p := 0; p < 4; p++ {
			u = append(u, bundleUnit(p, 4))
		}
		return u
	},
}
