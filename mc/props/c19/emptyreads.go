package c19

import (
	"bytes"
	"crypto/cipher"
	"fmt"
	"io"

	"github.com/tjfoc/gmsm/sm4"
	"github.com/tjfoc/gmsm/sm4/padding"

	"verif/mc/harness"
	"verif/mc/props/pu"
	"verif/mc/ref/refsm4"
)

// ---- a source that answers (0, nil) again and again, never twice without progress in between ------
//
// The deviation-bounded units allow a handful of empty reads per execution. A source may also return
// (0, nil) before EVERY piece of data (a non-blocking descriptor polled too early, a decoder that
// needs more input): hundreds of empty reads over the life of the stream, each followed by progress.
// The result must be the same as for a source that never does so.

type dripSource struct {
	data    []byte
	chunk   int // bytes per productive read
	empties int // empty reads before every productive read
	due     int
	calls   int
}

func (d *dripSource) Read(p []byte) (int, error) {
	d.calls++
	if d.calls > 1<<20 {
		panic("source read more than a million times")
	}
	if len(d.data) == 0 {
		return 0, io.EOF
	}
	if d.due < d.empties {
		d.due++
		return 0, nil
	}
	d.due = 0
	n := d.chunk
	if n > len(d.data) {
		n = len(d.data)
	}
	if n > len(p) {
		n = len(p)
	}
	copy(p, d.data[:n])
	d.data = d.data[n:]
	return n, nil
}

func manyEmptyReadsUnit() harness.Unit {
	return harness.Unit{Name: "reader/many-empty-reads", Run: func(c *harness.Ctx) {
		key, iv := pu.Msg(11, 16), pu.Msg(22, 16)
		for _, bs := range []int{8, 16} {
			for _, L := range []int{0, 150, 257, 400} {
				for _, pat := range [][2]int{{1, 1}, {3, 2}, {64, 1}} {
					for _, bufLen := range []int{1, bs, 100} {
						data := pu.Msg(L+3, L)
						tag := fmt.Sprintf("bs=%d L=%d: %d empty reads before every %d-byte piece, caller buffer %d", bs, L, pat[1], pat[0], bufLen)
						c.Add("executions", 1)
						c.DistinctS("states", tag)
						var got []byte
						var rerr error
						if c.Guard("reader-panic:many-empty-reads", tag, nil, func() {
							rd := padding.NewPKCS7PaddingReader(&dripSource{data: append([]byte{}, data...), chunk: pat[0], empties: pat[1]}, bs)
							buf := make([]byte, bufLen)
							for i := 0; i < 1<<20; i++ {
								n, err := rd.Read(buf)
								got = append(got, buf[:n]...)
								c.Add("transitions", 1)
								if err != nil {
									rerr = err
									return
								}
							}
						}) {
							continue
						}
						if rerr != io.EOF || !bytes.Equal(got, pad(data, bs)) {
							c.Violate(fmt.Sprintf("reader-many-empty-reads:bs%d", bs), fmt.Sprintf("[%s] the padding reader ends with %v after %d of %d bytes (source bytes followed by one pad expected)", tag, rerr, len(got), len(pad(data, bs))), nil, tag)
						}
					}
					if bs == 16 {
						data := pu.Msg(L+3, L)
						tag := fmt.Sprintf("P7BlockEnc L=%d: %d empty reads before every %d-byte piece", L, pat[1], pat[0])
						blk, _ := sm4.NewCipher(key)
						want := make([]byte, len(pad(data, 16)))
						cipher.NewCBCEncrypter(refsm4.Must(key), iv).CryptBlocks(want, pad(data, 16))
						var ct bytes.Buffer
						var err error
						if c.Guard("blockcrypt-panic:many-empty-reads", tag, nil, func() {
							err = padding.P7BlockEnc(cipher.NewCBCEncrypter(blk, iv), &dripSource{data: append([]byte{}, data...), chunk: pat[0], empties: pat[1]}, &ct)
						}) {
							continue
						}
						c.Add("executions", 1)
						if err != nil || !bytes.Equal(ct.Bytes(), want) {
							c.Violate("enc-many-empty-reads", fmt.Sprintf("[%s] P7BlockEnc returns %v and %d bytes; CBC(pad(data)) has %d", tag, err, ct.Len(), len(want)), nil, tag)
						}
					}
				}
			}
		}
		c.Sample("block sizes 8/16 x L {0,150,257,400} x {1 empty read before every byte, 2 before every 3 bytes, 1 before every 64} x caller buffers {1, bs, 100}; P7BlockEnc over the same sources")
	}}
}

// ---- other ways of consuming the padding reader ------------------------------------------------------
//
// A caller may drain the reader with io.Copy, io.ReadAll, io.CopyN, or Read a little first and copy
// the rest (io.Copy uses a WriterTo fast path when the reader offers one). Whatever the mix, the bytes
// are the source bytes followed by one pad.

type plainWriter struct{ buf bytes.Buffer }

func (w *plainWriter) Write(p []byte) (int, error) { return w.buf.Write(p) }

func consumptionModesUnit() harness.Unit {
	return harness.Unit{Name: "reader/consumption-modes", Run: func(c *harness.Ctx) {
		for _, bs := range []int{8, 16} {
			lens := []int{}
			for L := 0; L <= 2*bs+1; L++ {
				lens = append(lens, L)
			}
			lens = append(lens, 1000, 5000)
			for _, L := range lens {
				data := pu.Msg(L+5, L)
				want := pad(data, bs)
				for _, first := range []int{0, 1, bs - 1, bs, bs + 1, 3 * bs} {
					for _, mode := range []string{"io.Copy", "io.ReadAll", "io.CopyN in two halves", "io.Copy to a plain Writer"} {
						tag := fmt.Sprintf("bs=%d L=%d: Read(%d) first, then %s", bs, L, first, mode)
						c.Add("executions", 1)
						c.DistinctS("states", tag)
						var got []byte
						var err error
						if c.Guard("reader-panic:consumption", tag, nil, func() {
							rd := padding.NewPKCS7PaddingReader(bytes.NewReader(data), bs)
							if first > 0 {
								b := make([]byte, first)
								n, e := io.ReadFull(rd, b)
								got = append(got, b[:n]...)
								if e != nil && e != io.EOF && e != io.ErrUnexpectedEOF {
									err = e
									return
								}
							}
							switch mode {
							case "io.Copy":
								var out bytes.Buffer
								_, err = io.Copy(&out, rd)
								got = append(got, out.Bytes()...)
							case "io.ReadAll":
								var rest []byte
								rest, err = io.ReadAll(rd)
								got = append(got, rest...)
							case "io.CopyN in two halves":
								var out bytes.Buffer
								remaining := int64(len(want) - len(got))
								if remaining > 0 {
									_, err = io.CopyN(&out, rd, remaining/2)
									if err == nil {
										_, err = io.Copy(&out, rd)
									}
								}
								got = append(got, out.Bytes()...)
							default:
								w := &plainWriter{}
								_, err = io.Copy(w, rd)
								got = append(got, w.buf.Bytes()...)
							}
							c.Add("transitions", 2)
						}) {
							continue
						}
						if err != nil || !bytes.Equal(got, want) {
							c.Violate(fmt.Sprintf("reader-consumption:%s:bs%d", mode, bs), fmt.Sprintf("[%s] got %d bytes (err %v), want the %d source bytes followed by one pad (%d bytes); tail %x vs %x", tag, len(got), err, L, len(want), tail(got, bs), tail(want, bs)), nil, tag)
						}
					}
				}
			}
		}
		c.Sample("block sizes 8/16 x lengths 0..2bs+1, 1000, 5000 x an initial Read of {0,1,bs-1,bs,bs+1,3bs} bytes x {io.Copy, io.ReadAll, io.CopyN+io.Copy, io.Copy to a plain Writer}")
	}}
}
