// Package c19: streaming PKCS#7 padding is independent of chunking (DESIGN §3 C19).
// The source io.Reader's every answer and the writer-side chunk sizes are xp choices.
package c19

import (
	"bytes"
	"crypto/cipher"
	"fmt"
	"io"

	"github.com/tjfoc/gmsm/sm4"
	"github.com/tjfoc/gmsm/sm4/padding"

	"verif/mc/harness"
	"verif/mc/props/pu"
	"verif/mc/ref/refsm4"
	"verif/mc/xp"
)

// src is a scripted io.Reader: how much each Read returns is an environment choice.
type src struct {
	x        *xp.X
	data     []byte
	pos      int
	zeroRun  int
	eofSent  bool
	calls    int
	maxCalls int
	answers  []string
	bad      string
}

func (s *src) Read(buf []byte) (int, error) {
	s.calls++
	if s.calls > s.maxCalls {
		s.bad = "source read more than the step budget allows (consumer does not make progress)"
		return 0, io.ErrNoProgress
	}
	r := len(s.data) - s.pos
	if r == 0 {
		// at end: EOF, or (once) a zero-byte non-EOF read first
		if s.zeroRun == 0 && len(buf) > 0 && s.x.Choose(2, "at-end") == 1 {
			s.zeroRun++
			s.note("0,nil@end")
			return 0, nil
		}
		s.eofSent = true
		s.note("0,EOF")
		return 0, io.EOF
	}
	m := len(buf)
	if m > r {
		m = r
	}
	if m == 0 {
		return 0, nil
	}
	// menu of answers; index 0 is the default "fill as much as possible, no EOF"
	type ans struct {
		k   int
		eof bool
		tag string
	}
	menu := []ans{{m, false, "full"}}
	if m == r {
		menu = append(menu, ans{m, true, "full+EOF"})
	}
	if s.zeroRun == 0 {
		menu = append(menu, ans{0, false, "zero"})
	}
	if m > 1 {
		menu = append(menu, ans{1, false, "one"})
	}
	if h := (m + 1) / 2; h > 1 && h < m {
		menu = append(menu, ans{h, false, "half"})
	}
	if m > 2 {
		menu = append(menu, ans{m - 1, false, "allbut1"})
	}
	a := menu[s.x.Choose(len(menu), "read")]
	if a.k == 0 {
		s.zeroRun++
	} else {
		s.zeroRun = 0
	}
	copy(buf, s.data[s.pos:s.pos+a.k])
	s.pos += a.k
	s.note(fmt.Sprintf("%d/%d%s", a.k, len(buf), map[bool]string{true: "+EOF", false: ""}[a.eof]))
	if a.eof {
		s.eofSent = true
		return a.k, io.EOF
	}
	return a.k, nil
}

func (s *src) note(t string) {
	if len(s.answers) < 40 {
		s.answers = append(s.answers, t)
	}
}

func pad(data []byte, bs int) []byte {
	n := bs - len(data)%bs
	return append(append([]byte{}, data...), bytes.Repeat([]byte{byte(n)}, n)...)
}

var bufPatterns = [][]int{{4096}, {1024}, {1}, {2}, {15}, {16}, {17}, {7, 1, 33}, {16, 1}}

// readerUnit explores PKCS7PaddingReader for lengths lo..hi.
func readerUnit(bs, lo, hi, maxDev int) harness.Unit {
	return harness.Unit{Name: fmt.Sprintf("reader/bs%d/L=%d..%d/dev<=%d", bs, lo, hi, maxDev), Run: func(c *harness.Ctx) {
		c.Explore(maxDev, func(x *xp.X) {
			L := lo + x.Pick(hi-lo+1, "L")
			pat := bufPatterns[x.Pick(len(bufPatterns), "bufpattern")]
			data := pu.Msg(L, L)
			s := &src{x: x, data: data, maxCalls: 4*L + 64}
			rd := padding.NewPKCS7PaddingReader(s, bs)
			want := pad(data, bs)
			var got []byte
			key, desc := "", ""
			calls := 0
			func() {
				defer func() {
					if r := recover(); r != nil {
						key, desc = "reader-panic", fmt.Sprintf("PKCS7PaddingReader.Read panicked: %v", r)
					}
				}()
				for {
					bl := pat[calls%len(pat)]
					buf := make([]byte, bl+8)
					for i := range buf {
						buf[i] = 0xA5
					}
					n, err := rd.Read(buf[:bl])
					calls++
					c.Add("transitions", 1)
					if n < 0 || n > bl {
						key, desc = "reader-n-range", fmt.Sprintf("Read returned n=%d for a %d-byte buffer", n, bl)
						return
					}
					if !bytes.Equal(buf[bl:], bytes.Repeat([]byte{0xA5}, 8)) {
						key, desc = "reader-overrun", "Read wrote beyond the caller's buffer length"
						return
					}
					got = append(got, buf[:n]...)
					if err == io.EOF {
						return
					}
					if err != nil {
						key, desc = "reader-error", fmt.Sprintf("Read returned error %v although the source never failed", err)
						return
					}
					if len(got) > len(want)+64 || calls > 8*L+200 {
						key, desc = "reader-runaway", "reader produced more than source+pad or needs unboundedly many calls"
						return
					}
				}
			}()
			if key == "" && s.bad != "" {
				key, desc = "reader-no-progress", s.bad
			}
			if key == "" && !bytes.Equal(got, want) {
				switch {
				case len(got) < len(want) && bytes.Equal(got, want[:len(got)]):
					key = "reader-short"
				case len(got) > len(data) && bytes.Equal(got[:len(data)], data):
					key = "reader-bad-pad"
				default:
					key = "reader-corrupt-stream"
				}
				desc = fmt.Sprintf("reader output %s, want source||pad %s", pu.Hex(got), pu.Hex(want))
			}
			if key == "" {
				// after EOF the reader keeps reporting EOF and yields nothing
				if r := harness.Try(func() {
					n, err := rd.Read(make([]byte, 4))
					if n != 0 || err != io.EOF {
						key, desc = "reader-after-eof", fmt.Sprintf("Read after EOF returned (%d,%v)", n, err)
					}
				}); r != nil {
					key, desc = "reader-after-eof-panic", fmt.Sprint(r)
				}
			}
			c.DistinctS("outcomes", key)
			c.DistinctS("states", fmt.Sprintf("%d/%v", L, pat))
			if c.WantSample() {
				c.Sample(fmt.Sprintf("bs=%d L=%d bufs=%v source answers=%v", bs, L, pat, s.answers))
			}
			if key != "" {
				dev := 0
				for i, ch := range x.Choices {
					if i >= 2 && ch != 0 {
						dev++
					}
				}
				c.Violate(fmt.Sprintf("%s:bs%d", key, bs), fmt.Sprintf("bs=%d L=%d caller buffers %v, source answers %v: %s", bs, L, pat, s.answers, desc), x.Choices, nil)
			}
		}, nil)
	}}
}

// ---- writer ----------------------------------------------------------------------------

type sink struct {
	buf   bytes.Buffer
	calls int
}

func (s *sink) Write(p []byte) (int, error) { s.calls++; return s.buf.Write(p) }

var chunkMenu = func(bs int) []int { return []int{1024, 1, bs - 1, bs, bs + 1, 1023, 1025, 8192, 1 << 20} }

// final-block faults
type fault struct {
	name string
	mut  func(stream []byte, bs int) []byte // returns nil if not applicable
}

var faults = []fault{
	{"valid", func(s []byte, bs int) []byte { return s }},
	{"last-byte-0", func(s []byte, bs int) []byte { t := append([]byte{}, s...); t[len(t)-1] = 0; return t }},
	{"last-byte-bs+1", func(s []byte, bs int) []byte { t := append([]byte{}, s...); t[len(t)-1] = byte(bs + 1); return t }},
	{"last-byte-ff", func(s []byte, bs int) []byte { t := append([]byte{}, s...); t[len(t)-1] = 0xff; return t }},
	{"pad-byte-first-differs", func(s []byte, bs int) []byte {
		n := int(s[len(s)-1])
		if n < 2 {
			return nil
		}
		t := append([]byte{}, s...)
		t[len(t)-n] ^= 0x01
		return t
	}},
	{"pad-byte-middle-differs", func(s []byte, bs int) []byte {
		n := int(s[len(s)-1])
		if n < 3 {
			return nil
		}
		t := append([]byte{}, s...)
		t[len(t)-2] = 0
		return t
	}},
	{"pad-longer-than-claimed-ok", nil}, // placeholder (not a fault)
	{"truncated-by-1", func(s []byte, bs int) []byte { return append([]byte{}, s[:len(s)-1]...) }},
	{"extended-by-1", func(s []byte, bs int) []byte {
		// one extra byte equal to a plausible pad value: total length is no longer a block multiple
		return append(append([]byte{}, s...), 0x01)
	}},
	{"empty", func(s []byte, bs int) []byte { return []byte{} }},
}

// Every single pad byte and every PAIR of pad bytes changed by the same mask (a check that folds
// the differences instead of comparing each byte lets equal differences cancel), and all pad bytes
// but the last replaced by another legal pad value.
func init() {
	at := func(i int) string { return fmt.Sprintf("%d", i) }
	for i := 2; i <= 16; i++ {
		i := i
		for _, m := range []byte{0x01, 0x80} {
			m := m
			faults = append(faults, fault{"pad-byte-" + at(i) + "-from-end-xor-" + fmt.Sprintf("%02x", m), func(s []byte, bs int) []byte {
				n := int(s[len(s)-1])
				if n < i {
					return nil
				}
				t := append([]byte{}, s...)
				t[len(t)-i] ^= m
				return t
			}})
			for j := i + 1; j <= 16; j++ {
				j := j
				faults = append(faults, fault{"pad-bytes-" + at(i) + "-and-" + at(j) + "-from-end-xor-" + fmt.Sprintf("%02x", m), func(s []byte, bs int) []byte {
					n := int(s[len(s)-1])
					if n < j {
						return nil
					}
					t := append([]byte{}, s...)
					t[len(t)-i] ^= m
					t[len(t)-j] ^= m
					return t
				}})
			}
		}
	}
	faults = append(faults, fault{"pad-bytes-all-but-last-another-legal-value", func(s []byte, bs int) []byte {
		n := int(s[len(s)-1])
		if n < 3 {
			return nil
		}
		t := append([]byte{}, s...)
		for k := 2; k <= n; k++ {
			t[len(t)-k] = byte(n%bs + 1)
		}
		return t
	}})
}

// content: the bytes of a message of length L. kind 0: a fixed function of the position; kind 1 / 2:
// the same with the last one / three bytes equal to the pad value that will FOLLOW them
// (bs - L mod bs), so that data and padding cannot be told apart by value.
func content(seed, L, bs, kind int) []byte {
	data := pu.Msg(seed, L)
	padv := byte(bs - L%bs)
	n := []int{0, 1, 3}[kind]
	for i := 0; i < n && i < L; i++ {
		data[L-1-i] = padv
	}
	return data
}

var contentNames = []string{"position-dependent", "last byte equals the pad value", "last three bytes equal the pad value"}

func writerUnit(bs, lo, hi, maxDev int) harness.Unit {
	return harness.Unit{Name: fmt.Sprintf("writer/bs%d/L=%d..%d/dev<=%d", bs, lo, hi, maxDev), Run: func(c *harness.Ctx) {
		menu := chunkMenu(bs)
		c.Explore(maxDev, func(x *xp.X) {
			L := lo + x.Pick(hi-lo+1, "L")
			fi := x.Pick(len(faults), "final-block")
			f := faults[fi]
			if f.mut == nil {
				return
			}
			ck := x.Pick(3, "content")
			data := content(L+1, L, bs, ck)
			stream := f.mut(pad(data, bs), bs)
			if stream == nil {
				return
			}
			valid := f.name == "valid"
			sk := &sink{}
			w := padding.NewPKCS7PaddingWriter(sk, bs)
			key, desc := "", ""
			var chunks []int
			var ferr error
			func() {
				defer func() {
					if r := recover(); r != nil {
						key, desc = "writer-panic", fmt.Sprintf("PKCS7PaddingWriter panicked: %v (chunks %v)", r, chunks)
					}
				}()
				pos := 0
				for pos < len(stream) {
					k := menu[x.Choose(len(menu), "chunk")]
					if k > len(stream)-pos {
						k = len(stream) - pos
					}
					chunks = append(chunks, k)
					n, err := w.Write(stream[pos : pos+k])
					c.Add("transitions", 1)
					if err != nil || n != k {
						key, desc = "writer-write-return", fmt.Sprintf("Write(%d bytes) returned (%d,%v)", k, n, err)
						return
					}
					pos += k
				}
				ferr = w.Final()
				c.Add("transitions", 1)
			}()
			if key == "" {
				if valid {
					if ferr != nil {
						key, desc = "writer-valid-rejected", fmt.Sprintf("Final returned %v for a valid padded stream", ferr)
					} else if !bytes.Equal(sk.buf.Bytes(), data) {
						key, desc = "writer-output", fmt.Sprintf("writer emitted %s, want %s", pu.Hex(sk.buf.Bytes()), pu.Hex(data))
					}
				} else if ferr == nil {
					key, desc = "writer-invalid-accepted:"+f.name, fmt.Sprintf("Final accepted a stream whose final block is not a valid pad (%s; stream tail %x)", f.name, tail(stream, bs))
				}
			}
			c.DistinctS("outcomes", key)
			c.DistinctS("states", fmt.Sprintf("%d/%s", L, f.name))
			if c.WantSample() {
				c.Sample(fmt.Sprintf("bs=%d L=%d final=%s chunks=%v", bs, L, f.name, chunks))
			}
			if key != "" {
				c.Violate(fmt.Sprintf("%s:bs%d", key, bs), fmt.Sprintf("bs=%d L=%d content=%s final=%s chunks=%v: %s", bs, L, contentNames[ck], f.name, chunks, desc), x.Choices, nil)
			}
		}, nil)
	}}
}

func tail(s []byte, n int) []byte {
	if len(s) > n {
		return s[len(s)-n:]
	}
	return s
}

// ---- P7BlockEnc / P7BlockDecrypt -------------------------------------------------------

func cryptUnit(lo, hi, maxDev int) harness.Unit {
	return harness.Unit{Name: fmt.Sprintf("blockcrypt/L=%d..%d/dev<=%d", lo, hi, maxDev), Run: func(c *harness.Ctx) {
		key := pu.Msg(11, 16)
		iv := pu.Msg(22, 16)
		c.Explore(maxDev, func(x *xp.X) {
			L := lo + x.Pick(hi-lo+1, "L")
			ck := x.Pick(3, "content")
			data := content(L+2, L, 16, ck)
			blk, _ := sm4.NewCipher(key)
			want := make([]byte, len(pad(data, 16)))
			cipher.NewCBCEncrypter(refsm4.Must(key), iv).CryptBlocks(want, pad(data, 16))
			k, desc := "", ""
			s1 := &src{x: x, data: data, maxCalls: 4*L + 64}
			var ct, pt bytes.Buffer
			var s2 *src
			func() {
				defer func() {
					if r := recover(); r != nil {
						if k == "" {
							k = "blockcrypt-panic"
						}
						desc = fmt.Sprintf("%s panicked: %v", desc, r)
					}
				}()
				desc = "P7BlockEnc"
				err := padding.P7BlockEnc(cipher.NewCBCEncrypter(blk, iv), s1, &ct)
				c.Add("transitions", 1)
				if err != nil {
					k, desc = "enc-error", fmt.Sprintf("P7BlockEnc returned %v", err)
					return
				}
				if !bytes.Equal(ct.Bytes(), want) {
					k, desc = "enc-ciphertext", fmt.Sprintf("P7BlockEnc output %s, want CBC(pad(data)) %s", pu.Hex(ct.Bytes()), pu.Hex(want))
					return
				}
				desc = "P7BlockDecrypt"
				s2 = &src{x: x, data: want, maxCalls: 4*len(want) + 64}
				err = padding.P7BlockDecrypt(cipher.NewCBCDecrypter(blk, iv), s2, &pt)
				c.Add("transitions", 1)
				if err != nil {
					k, desc = "dec-error", fmt.Sprintf("P7BlockDecrypt returned %v for a valid stream", err)
					return
				}
				if !bytes.Equal(pt.Bytes(), data) {
					k, desc = "dec-plaintext", fmt.Sprintf("P7BlockDecrypt output %s, want %s", pu.Hex(pt.Bytes()), pu.Hex(data))
				}
				desc = ""
			}()
			if k == "" && (s1.bad != "" || (s2 != nil && s2.bad != "")) {
				k, desc = "blockcrypt-no-progress", "helper keeps reading without making progress"
			}
			c.DistinctS("outcomes", k)
			c.DistinctS("states", fmt.Sprint(L))
			var a2 []string
			if s2 != nil {
				a2 = s2.answers
			}
			if c.WantSample() {
				c.Sample(fmt.Sprintf("L=%d plaintext-source answers=%v ciphertext-source answers=%v", L, s1.answers, a2))
			}
			if k != "" {
				c.Violate(k, fmt.Sprintf("L=%d content=%s plaintext-source answers %v, ciphertext-source answers %v: %s", L, contentNames[ck], s1.answers, a2, desc), x.Choices, nil)
			}
		}, nil)
	}}
}

// decFaultUnit: P7BlockDecrypt must report an error (not panic) for invalid streams.
func decFaultUnit() harness.Unit {
	return harness.Unit{Name: "blockcrypt/invalid-streams", Run: func(c *harness.Ctx) {
		key, iv := pu.Msg(11, 16), pu.Msg(22, 16)
		blk, _ := sm4.NewCipher(key)
		for L := 0; L <= 40; L++ {
			data := pu.Msg(L+2, L)
			for _, f := range faults {
				if f.mut == nil || f.name == "valid" {
					continue
				}
				st := f.mut(pad(data, 16), 16)
				if st == nil {
					continue
				}
				var ct []byte
				if len(st)%16 == 0 {
					ct = make([]byte, len(st))
					cipher.NewCBCEncrypter(refsm4.Must(key), iv).CryptBlocks(ct, st)
				} else {
					// ciphertext of the valid stream, truncated/extended: not a whole number of blocks
					full := pad(data, 16)
					ct = make([]byte, len(full))
					cipher.NewCBCEncrypter(refsm4.Must(key), iv).CryptBlocks(ct, full)
					if len(st) < len(full) {
						ct = ct[:len(st)]
					} else {
						ct = append(ct, 0x01)
					}
				}
				c.Add("executions", 1)
				c.Add("transitions", 1)
				var out bytes.Buffer
				var err error
				tag := fmt.Sprintf("dec-invalid:%s", f.name)
				if c.Guard(tag+":panic", fmt.Sprintf("P7BlockDecrypt on a %d-byte ciphertext (%s, L=%d)", len(ct), f.name, L), nil, func() {
					err = padding.P7BlockDecrypt(cipher.NewCBCDecrypter(blk, iv), bytes.NewReader(ct), &out)
				}) {
					continue
				}
				if err == nil {
					c.Violate(tag+":accepted", fmt.Sprintf("P7BlockDecrypt accepted an invalid stream (%s, L=%d) and produced %s", f.name, L, pu.Hex(out.Bytes())), nil, nil)
				}
				c.DistinctS("states", fmt.Sprintf("%d/%s", L, f.name))
			}
		}
		c.Sample("every final-block fault x every L in 0..40 through P7BlockDecrypt")
	}}
}

// Prop registers C19.
var Prop = &harness.Prop{
	ID:          "C19",
	Level:       "model_checking",
	Rule:        "environment-answer exploration: every answer of the scripted source io.Reader (full / full+EOF / zero-byte / 1 byte / half / all-but-one / zero-byte-at-end) and every writer chunk size from {1024,1,bs-1,bs,bs+1,1023,1025,8192,all} is an xp choice; all executions with at most the stated number of deviations from the default answer run on the real PKCS7PaddingReader / PKCS7PaddingWriter / P7BlockEnc / P7BlockDecrypt; model = byte slice (source||pad, unpadded data, CBC over independent SM4). states = distinct (length, buffer pattern / final-block kind); outcomes = verdict classes. Message contents whose last one / three bytes equal the pad value that follows; sources that answer (0, nil) before every piece of data (hundreds in total); readers drained through io.Copy / io.ReadAll / io.CopyN after an initial Read of k bytes.",
	Assumptions: []string{"sources never return errors other than io.EOF (I/O failures are outside the statement)", "refsm4 + crypto/cipher CBC as reference"},
	Bounds: func(tier string) string {
		if tier == "thorough" {
			return "reader: L 0..20 <=4 deviations, 21..80 <=3, 81..300 <=2, {1023,1024,1025,4999,5000} <=1; writer: 10 final-block kinds x L 0..64 <=3 chunk deviations, 65..300 <=2, 1000..1100/5000 <=2; block helpers: L 0..48 <=3, 49..300 <=2, 1000..1100 <=1; block sizes 8 and 16"
		}
		return "reader: L 0..20 <=3 deviations, 21..80 <=2, {1023,1024,1025} <=1; writer: L 0..40 <=2, {1000..1030} <=2; block helpers: L 0..40 <=2, {1000..1040} <=1; block sizes 8 and 16"
	},
	Units: func(tier string) []harness.Unit {
		var u []harness.Unit
		th := tier == "thorough"
		for _, bs := range []int{16, 8} {
			if th {
				for lo := 0; lo <= 20; lo += 3 {
					u = append(u, readerUnit(bs, lo, min(lo+2, 20), 4))
				}
				for lo := 21; lo <= 80; lo += 5 {
					u = append(u, readerUnit(bs, lo, min(lo+4, 80), 3))
				}
				for lo := 81; lo <= 300; lo += 20 {
					u = append(u, readerUnit(bs, lo, min(lo+19, 300), 2))
				}
				u = append(u, readerUnit(bs, 1023, 1025, 1), readerUnit(bs, 4999, 5000, 1))
				for lo := 0; lo <= 64; lo += 8 {
					u = append(u, writerUnit(bs, lo, min(lo+7, 64), 3))
				}
				for lo := 65; lo <= 300; lo += 40 {
					u = append(u, writerUnit(bs, lo, min(lo+39, 300), 2))
				}
				u = append(u, writerUnit(bs, 1000, 1100, 2), writerUnit(bs, 5000, 5000, 2), writerUnit(bs, 9000, 9000, 2))
			} else {
				for lo := 0; lo <= 20; lo += 7 {
					u = append(u, readerUnit(bs, lo, min(lo+6, 20), 3))
				}
				for lo := 21; lo <= 80; lo += 10 {
					u = append(u, readerUnit(bs, lo, min(lo+9, 80), 2))
				}
				u = append(u, readerUnit(bs, 1023, 1025, 1))
				for lo := 0; lo <= 40; lo += 10 {
					u = append(u, writerUnit(bs, lo, min(lo+9, 40), 2))
				}
				u = append(u, writerUnit(bs, 1000, 1030, 2), writerUnit(bs, 9000, 9000, 1))
			}
		}
		if th {
			for lo := 0; lo <= 48; lo += 4 {
				u = append(u, cryptUnit(lo, min(lo+3, 48), 3))
			}
			for lo := 49; lo <= 300; lo += 25 {
				u = append(u, cryptUnit(lo, min(lo+24, 300), 2))
			}
			u = append(u, cryptUnit(1000, 1100, 1), cryptUnit(5000, 5000, 1))
		} else {
			for lo := 0; lo <= 40; lo += 5 {
				u = append(u, cryptUnit(lo, min(lo+4, 40), 2))
			}
			u = append(u, cryptUnit(1000, 1040, 1))
		}
		u = append(u, decFaultUnit(), manyEmptyReadsUnit(), consumptionModesUnit())
		return u
	},
}
