// Package c03: the SM2 curve object implements the group law (DESIGN §3 C03).
package c03

import (
	"bytes"
	"fmt"
	"io"
	"math/big"

	"github.com/tjfoc/gmsm/sm2"

	"verif/mc/harness"
	"verif/mc/props/pu"
	"verif/mc/ref/refsm2"
)

var n = refsm2.N

func aff(p refsm2.Point) (x, y *big.Int) {
	if p.Inf {
		return new(big.Int), new(big.Int)
	}
	return new(big.Int).Set(p.X), new(big.Int).Set(p.Y)
}

func same(x, y *big.Int, p refsm2.Point) bool {
	if x == nil || y == nil {
		return false
	}
	if p.Inf {
		return x.Sign() == 0 && y.Sign() == 0
	}
	return x.Cmp(p.X) == 0 && y.Cmp(p.Y) == 0
}

func ptStr(x, y *big.Int) string { return fmt.Sprintf("(%x,%x)", x, y) }
func refStr(p refsm2.Point) string {
	if p.Inf {
		return "infinity(0,0)"
	}
	return ptStr(p.X, p.Y)
}

// ---- 1. group walk: explicit-state search over discrete logs ---------------------------

type walkState struct {
	m    *big.Int // discrete log known to the model
	x, y *big.Int // coordinates as returned by the IMPLEMENTATION
	path string
}

var mulConsts = func() []*big.Int {
	c := []*big.Int{big.NewInt(0), big.NewInt(1), big.NewInt(2), big.NewInt(3), big.NewInt(15), big.NewInt(16), big.NewInt(17)}
	c = append(c, new(big.Int).Sub(n, big.NewInt(1)), new(big.Int).Set(n), new(big.Int).Add(n, big.NewInt(1)))
	return c
}()

const nWalkOps = 8 + 10

func walkOpName(op int) string {
	names := []string{"+G", "-G", "Double", "Add(self,self)", "Add(self,-self)", "Add(self,prev)", "Add(inf,self)", "Add(self,inf)"}
	if op < 8 {
		return names[op]
	}
	return fmt.Sprintf("ScalarMult(self,%s)", constName(mulConsts[op-8]))
}

func constName(c *big.Int) string {
	d := new(big.Int).Sub(c, n)
	if d.CmpAbs(big.NewInt(100)) < 0 {
		if d.Sign() == 0 {
			return "n"
		}
		return fmt.Sprintf("n%+d", d.Int64())
	}
	return c.String()
}

// step applies op to s on the real curve and on the model; prev is an earlier state.
func step(c *harness.Ctx, s, prev walkState, op int) (ns walkState, key, desc string) {
	curve := sm2.P256Sm2()
	gx, gy := aff(refsm2.G())
	ngx, ngy := aff(refsm2.Neg(refsm2.G()))
	zero := new(big.Int)
	var x, y *big.Int
	m := new(big.Int)
	r := harness.Try(func() {
		switch op {
		case 0:
			x, y = curve.Add(s.x, s.y, gx, gy)
			m.Add(s.m, big.NewInt(1))
		case 1:
			x, y = curve.Add(s.x, s.y, ngx, ngy)
			m.Sub(s.m, big.NewInt(1))
		case 2:
			x, y = curve.Double(s.x, s.y)
			m.Lsh(s.m, 1)
		case 3:
			x, y = curve.Add(s.x, s.y, new(big.Int).Set(s.x), new(big.Int).Set(s.y))
			m.Lsh(s.m, 1)
		case 4:
			ny := new(big.Int)
			if s.y.Sign() != 0 {
				ny.Sub(refsm2.P, s.y)
			}
			x, y = curve.Add(s.x, s.y, new(big.Int).Set(s.x), ny)
			m.SetInt64(0)
		case 5:
			x, y = curve.Add(s.x, s.y, prev.x, prev.y)
			m.Add(s.m, prev.m)
		case 6:
			x, y = curve.Add(zero, zero, s.x, s.y)
			m.Set(s.m)
		case 7:
			x, y = curve.Add(s.x, s.y, zero, zero)
			m.Set(s.m)
		default:
			k := mulConsts[op-8]
			x, y = curve.ScalarMult(s.x, s.y, k.Bytes())
			m.Mul(s.m, k)
		}
	})
	m.Mod(m, n)
	ns = walkState{m: m, x: x, y: y, path: s.path + " " + walkOpName(op)}
	c.Add("transitions", 1)
	if r != nil {
		return ns, "walk-panic:" + walkOpName(op), fmt.Sprintf("%s panicked on the point [%s]G: %v", walkOpName(op), s.m, r)
	}
	want := refsm2.BaseMul(m)
	if !same(x, y, want) {
		cls := "generic"
		switch {
		case s.m.Sign() == 0:
			cls = "self=infinity"
		case op == 5 && s.m.Cmp(prev.m) == 0:
			cls = "prev=self"
		case op == 5 && new(big.Int).Mod(new(big.Int).Add(s.m, prev.m), n).Sign() == 0:
			cls = "prev=-self"
		case op == 0 && s.m.Cmp(big.NewInt(1)) == 0, op == 1 && new(big.Int).Add(s.m, big.NewInt(1)).Cmp(n) == 0:
			cls = "operands-equal"
		}
		return ns, fmt.Sprintf("walk-value:%s:%s", walkOpName(op), cls), fmt.Sprintf("%s on [%s]G (reached by%s) returned %s, the group law gives [%s]G = %s", walkOpName(op), s.m, s.path, ptStr(x, y), m, refStr(want))
	}
	return ns, "", ""
}

func walkUnit(init int, first int, depth int) harness.Unit {
	return harness.Unit{Name: fmt.Sprintf("walk/init=%d/first=%s/depth=%d", init, walkOpName(first), depth), Run: func(c *harness.Ctx) {
		var start walkState
		if init == 0 {
			start = walkState{m: big.NewInt(0), x: new(big.Int), y: new(big.Int), path: " inf"}
		} else {
			gx, gy := aff(refsm2.G())
			start = walkState{m: big.NewInt(1), x: gx, y: gy, path: " G"}
		}
		seen := map[string]bool{start.m.String(): true}
		frontier := []walkState{start}
		order := []walkState{start}
		for d := 0; d < depth && len(frontier) > 0; d++ {
			var next []walkState
			for _, s := range frontier {
				for op := 0; op < nWalkOps; op++ {
					if d == 0 && op != first {
						continue
					}
					prev := order[(len(order)*7+op)%len(order)] // deterministic earlier state
					if op == 5 && d == 0 {
						prev = start
					}
					ns, key, desc := step(c, s, prev, op)
					if key != "" {
						c.Violate(key, desc, nil, ns.path)
						c.DistinctS("outcomes", key)
						continue // do not propagate wrong coordinates
					}
					c.DistinctS("outcomes", "ok")
					k := ns.m.String()
					if !seen[k] {
						seen[k] = true
						next = append(next, ns)
						order = append(order, ns)
						c.DistinctS("states", k)
						if c.WantSample() && d >= 2 {
							c.Sample("path:" + ns.path + " -> discrete log " + k)
						}
					}
				}
			}
			frontier = next
		}
		c.Add("executions", int64(len(order)))
	}}
}

// ---- 2. scalar alphabet ----------------------------------------------------------------

type scalarT struct {
	name string
	b    []byte
}

func scalars(tier string) []scalarT {
	var out []scalarT
	add := func(name string, v *big.Int, lead int) {
		b := append(make([]byte, lead), v.Bytes()...)
		out = append(out, scalarT{fmt.Sprintf("%s (lead %d)", name, lead), b})
	}
	out = append(out, scalarT{"empty byte string", []byte{}}, scalarT{"one zero byte", []byte{0}}, scalarT{"32 zero bytes", make([]byte, 32)}, scalarT{"40 zero bytes", make([]byte, 40)})
	for i := int64(0); i <= 20; i++ {
		add(fmt.Sprint(i), big.NewInt(i), 0)
	}
	for d := int64(-20); d <= 20; d++ {
		v := new(big.Int).Add(n, big.NewInt(d))
		for _, lead := range []int{0, 1, 4} {
			if lead != 0 && d%5 != 0 && d != -6 {
				continue
			}
			add(fmt.Sprintf("n%+d", d), v, lead)
		}
		add(fmt.Sprintf("2n%+d", d), new(big.Int).Add(new(big.Int).Lsh(n, 1), big.NewInt(d)), 0)
	}
	for _, t := range []int64{3, 255, 65537} {
		for _, d := range []int64{-6, -1, 0, 1, 5} {
			v := new(big.Int).Mul(n, big.NewInt(t))
			add(fmt.Sprintf("%dn%+d", t, d), v.Add(v, big.NewInt(d)), 0)
		}
	}
	for j := uint(0); j <= 260; j++ {
		p := new(big.Int).Lsh(big.NewInt(1), j)
		add(fmt.Sprintf("2^%d", j), p, 0)
		add(fmt.Sprintf("2^%d-1", j), new(big.Int).Sub(p, big.NewInt(1)), 0)
		if tier == "thorough" || j%8 == 0 {
			add(fmt.Sprintf("2^%d+1", j), new(big.Int).Add(p, big.NewInt(1)), 0)
			add(fmt.Sprintf("2^%d-3", j), new(big.Int).Sub(p, big.NewInt(3)), 0)
			add(fmt.Sprintf("n-2^%d", j), new(big.Int).Mod(new(big.Int).Sub(n, p), n), 0)
		}
	}
	step := uint(4)
	if tier == "thorough" {
		step = 1
	}
	for off := uint(0); off < 256; off += step {
		for _, w := range []int64{0xf, 0x1f, 0x9, 0x7} { // all-ones windows of width 4/5, and 1001 / 0111 patterns
			add(fmt.Sprintf("%#x<<%d", w, off), new(big.Int).Lsh(big.NewInt(w), off), 0)
		}
	}
	// every entry of the base-point comb tables alone: bits at 64t (+32)
	for tbl := uint(0); tbl < 2; tbl++ {
		for set := 1; set < 16; set++ {
			v := new(big.Int)
			for t := uint(0); t < 4; t++ {
				if set>>t&1 == 1 {
					v.SetBit(v, int(64*t+32*tbl), 1)
				}
			}
			add(fmt.Sprintf("comb table %d index %d", tbl, set), v, 0)
		}
	}
	// comb entries at every row (bit positions shifted by r)
	if tier == "thorough" {
		for r := uint(1); r < 32; r++ {
			for _, set := range []int{1, 6, 9, 15} {
				v := new(big.Int)
				for t := uint(0); t < 4; t++ {
					if set>>t&1 == 1 {
						v.SetBit(v, int(64*t+r), 1)
					}
				}
				add(fmt.Sprintf("comb row %d index %d", r, set), v, 0)
			}
		}
	}
	add("all ones 256 bits", new(big.Int).Sub(new(big.Int).Lsh(big.NewInt(1), 256), big.NewInt(1)), 0)
	add("all ones 320 bits", new(big.Int).Sub(new(big.Int).Lsh(big.NewInt(1), 320), big.NewInt(1)), 0)
	add("0x55.. 32 bytes", new(big.Int).SetBytes(bytes.Repeat([]byte{0x55}, 32)), 0)
	add("0xaa.. 32 bytes", new(big.Int).SetBytes(bytes.Repeat([]byte{0xaa}, 32)), 2)
	add("0x88.. 32 bytes", new(big.Int).SetBytes(bytes.Repeat([]byte{0x88}, 32)), 0)
	add("0x77.. 32 bytes", new(big.Int).SetBytes(bytes.Repeat([]byte{0x77}, 32)), 0)
	add("pattern 32 bytes", new(big.Int).SetBytes(pu.Msg(3, 32)), 3)
	add("pattern 40 bytes", new(big.Int).SetBytes(pu.Msg(4, 40)), 0)
	return out
}

var basePoints = func() []struct {
	name string
	m    *big.Int
} {
	return []struct {
		name string
		m    *big.Int
	}{
		{"G", big.NewInt(1)}, {"2G", big.NewInt(2)}, {"3G", big.NewInt(3)}, {"-G", new(big.Int).Sub(n, big.NewInt(1))},
		{"Q", new(big.Int).SetBytes(pu.Msg(123, 31))},
	}
}()

func scalarUnit(pi int, part, parts int, tier string) harness.Unit {
	return harness.Unit{Name: fmt.Sprintf("scalars/%s/part%d", basePoints[pi].name, part), Run: func(c *harness.Ctx) {
		curve := sm2.P256Sm2()
		bp := basePoints[pi]
		P := refsm2.BaseMul(bp.m)
		px, py := aff(P)
		for i, sc := range scalars(tier) {
			if i%parts != part {
				continue
			}
			k := new(big.Int).SetBytes(sc.b)
			want := refsm2.Mul(new(big.Int).Mod(k, n), P)
			c.Add("evaluations", 1)
			c.DistinctS("nontrivial", bp.name+"*"+sc.name)
			var x, y *big.Int
			if !c.Guard("scalarmult-panic:"+sc.name, fmt.Sprintf("ScalarMult(%s, %s)", bp.name, sc.name), nil, func() { x, y = curve.ScalarMult(new(big.Int).Set(px), new(big.Int).Set(py), sc.b) }) {
				if !same(x, y, want) {
					c.Violate(fmt.Sprintf("scalarmult:%s:%s", bp.name, sc.name), fmt.Sprintf("ScalarMult(%s, k=%s [%x]) = %s, group law gives %s", bp.name, sc.name, sc.b, ptStr(x, y), refStr(want)), nil, nil)
				}
			}
			if pi == 0 {
				if !c.Guard("scalarbasemult-panic:"+sc.name, fmt.Sprintf("ScalarBaseMult(%s)", sc.name), nil, func() { x, y = curve.ScalarBaseMult(sc.b) }) {
					if !same(x, y, want) {
						c.Violate(fmt.Sprintf("scalarbasemult:%s", sc.name), fmt.Sprintf("ScalarBaseMult(k=%s [%x]) = %s, group law gives %s", sc.name, sc.b, ptStr(x, y), refStr(want)), nil, nil)
					}
				}
			}
			if c.WantSample() {
				c.Sample(fmt.Sprintf("[%s]%s", sc.name, bp.name))
			}
		}
	}}
}

// ---- 3. field-limb alphabet through the public API -------------------------------------

// limbValue assembles the integer whose 9 limbs (29,28,29,28,... bits) are l[0..8].
func limbValue(l [9]uint32) *big.Int {
	v := new(big.Int)
	for i := 8; i >= 0; i-- {
		if i%2 == 0 {
			v.Lsh(v, 29)
		} else {
			v.Lsh(v, 28)
		}
		v.Add(v, big.NewInt(int64(l[i])))
	}
	return v
}

var rInv = new(big.Int).ModInverse(new(big.Int).Lsh(big.NewInt(1), 257), refsm2.P)

// fieldWithLimbs returns the field element x whose Montgomery form x*2^257 mod p has the given
// limbs, or nil if the limb pattern is not a canonical residue (>= p).
func fieldWithLimbs(l [9]uint32) *big.Int {
	v := limbValue(l)
	if v.Cmp(refsm2.P) >= 0 {
		return nil
	}
	v.Mul(v, rInv)
	return v.Mod(v, refsm2.P)
}

func limbAlphabet(i int, tier string) []uint32 {
	max := uint32(1<<29 - 1)
	if i%2 == 1 {
		max = 1<<28 - 1
	}
	if tier == "thorough" {
		return []uint32{0, 1, max - 1, max}
	}
	return []uint32{0, 1, max}
}

func limbUnit(top uint32, topIdx int, tier string) harness.Unit {
	return harness.Unit{Name: fmt.Sprintf("limbs/limb8=%#x", top), Run: func(c *harness.Ctx) {
		curve := sm2.P256Sm2()
		p := refsm2.P
		var l [9]uint32
		l[8] = top
		var idx [8]int
		prevX, prevY := aff(refsm2.G())
		for {
			for i := 0; i < 8; i++ {
				l[i] = limbAlphabet(i, tier)[idx[i]]
			}
			if x := fieldWithLimbs(l); x != nil {
				c.Add("evaluations", 1)
				c.Distinct("nontrivial", x.Bytes())
				// y with limbs rotated (another boundary pattern), and the y that puts (x,y) on the curve if any
				var lr [9]uint32
				for i := 0; i < 9; i++ {
					lr[i] = l[(i+2)%9]
					if i%2 == 1 && lr[i] > 1<<28-1 {
						lr[i] = 1<<28 - 1
					}
				}
				y := fieldWithLimbs(lr)
				if y == nil {
					y = new(big.Int).Set(x)
				}
				tag := fmt.Sprintf("limbs %x", l)
				// IsOnCurve must agree with the equation
				rhs := new(big.Int).Exp(x, big.NewInt(3), p)
				rhs.Add(rhs, new(big.Int).Mul(refsm2.A, x))
				rhs.Add(rhs, refsm2.B)
				rhs.Mod(rhs, p)
				for _, yy := range []*big.Int{y, new(big.Int).ModSqrt(rhs, p)} {
					if yy == nil {
						continue
					}
					want := refsm2.OnCurve(x, yy)
					var got bool
					if c.Guard("isoncurve-panic", "IsOnCurve "+tag, nil, func() { got = curve.IsOnCurve(x, yy) }) {
						continue
					}
					if got != want {
						c.Violate("isoncurve-decision", fmt.Sprintf("IsOnCurve(%x,%x) = %v, the curve equation says %v (x Montgomery %s)", x, yy, got, want, tag), nil, nil)
					}
				}
				// Double on the arbitrary pair (the formulas do not involve b): exercises Square/Mul/Add/Sub
				if y.Sign() != 0 {
					want := refsm2.Double(refsm2.Point{X: x, Y: y})
					var gx, gy *big.Int
					if !c.Guard("double-panic", "Double "+tag, nil, func() { gx, gy = curve.Double(x, y) }) {
						if !same(gx, gy, want) {
							c.Violate("double-field-arithmetic", fmt.Sprintf("Double(%x,%x) = %s, affine formulas give %s (x Montgomery %s)", x, y, ptStr(gx, gy), refStr(want), tag), nil, nil)
						}
					}
					// Add with the previous pair (chord formula involves neither a nor b)
					if prevX.Cmp(x) != 0 {
						wantA := refsm2.Add(refsm2.Point{X: x, Y: y}, refsm2.Point{X: prevX, Y: prevY})
						if !c.Guard("add-panic", "Add "+tag, nil, func() { gx, gy = curve.Add(x, y, prevX, prevY) }) {
							if !same(gx, gy, wantA) {
								c.Violate("add-field-arithmetic", fmt.Sprintf("Add((%x,%x),(%x,%x)) = %s, chord formula gives %s", x, y, prevX, prevY, ptStr(gx, gy), refStr(wantA)), nil, nil)
							}
						}
					}
					prevX, prevY = x, y
				}
				if c.WantSample() {
					c.Sample(fmt.Sprintf("x with Montgomery limbs %x -> IsOnCurve, Double, Add", l))
				}
			}
			// odometer
			i := 0
			for ; i < 8; i++ {
				idx[i]++
				if idx[i] < len(limbAlphabet(i, tier)) {
					break
				}
				idx[i] = 0
			}
			if i == 8 {
				break
			}
		}
	}}
}

// ---- 4. parameters, membership, key generation -----------------------------------------

type fixedReader struct {
	data []byte
	pos  int
	per  int
}

func (r *fixedReader) Read(p []byte) (int, error) {
	if r.pos >= len(r.data) {
		return 0, io.ErrUnexpectedEOF
	}
	k := len(p)
	if r.per > 0 && k > r.per {
		k = r.per
	}
	k = copy(p[:k], r.data[r.pos:])
	r.pos += k
	return k, nil
}

func miscUnit() harness.Unit {
	return harness.Unit{Name: "params+membership+keygen", Run: func(c *harness.Ctx) {
		curve := sm2.P256Sm2()
		pr := curve.Params()
		chk := func(name string, got, want *big.Int) {
			c.Add("evaluations", 1)
			if got == nil || got.Cmp(want) != 0 {
				c.Violate("params:"+name, fmt.Sprintf("Params().%s = %x, GM/T 0003.5 says %x", name, got, want), nil, nil)
			}
		}
		chk("P", pr.P, refsm2.P)
		chk("N", pr.N, refsm2.N)
		chk("B", pr.B, refsm2.B)
		chk("Gx", pr.Gx, refsm2.Gx)
		chk("Gy", pr.Gy, refsm2.Gy)
		if pr.BitSize != 256 {
			c.Violate("params:BitSize", fmt.Sprint(pr.BitSize), nil, nil)
		}
		// membership: [k]G and its neighbours
		pt := refsm2.G()
		one := big.NewInt(1)
		for k := 1; k <= 300; k++ {
			for _, d := range [][2]int64{{0, 0}, {1, 0}, {0, 1}, {-1, 0}, {0, -1}} {
				x := new(big.Int).Add(pt.X, big.NewInt(d[0]))
				y := new(big.Int).Add(pt.Y, big.NewInt(d[1]))
				x.Mod(x, refsm2.P)
				y.Mod(y, refsm2.P)
				c.Add("evaluations", 1)
				c.Distinct("nontrivial", append(x.Bytes(), y.Bytes()...))
				if got, want := curve.IsOnCurve(x, y), refsm2.OnCurve(x, y); got != want {
					c.Violate("isoncurve-neighbour", fmt.Sprintf("IsOnCurve(%x,%x) = %v want %v ([%d]G %+v)", x, y, got, want, k, d), nil, nil)
				}
			}
			ny := new(big.Int).Sub(refsm2.P, pt.Y)
			if !curve.IsOnCurve(pt.X, ny) {
				c.Violate("isoncurve-negated", fmt.Sprintf("IsOnCurve rejects -[%d]G", k), nil, nil)
			}
			pt = refsm2.Add(pt, refsm2.G())
		}
		for _, xy := range [][2]*big.Int{{big.NewInt(0), big.NewInt(0)}, {big.NewInt(0), one}, {one, one}, {new(big.Int).Sub(refsm2.P, one), new(big.Int).Sub(refsm2.P, one)}} {
			c.Add("evaluations", 1)
			if got, want := curve.IsOnCurve(xy[0], xy[1]), refsm2.OnCurve(xy[0], xy[1]); got != want {
				c.Violate("isoncurve-small", fmt.Sprintf("IsOnCurve(%x,%x) = %v want %v", xy[0], xy[1], got, want), nil, nil)
			}
		}
		// key generation: d determined by the 40 bytes read, 1 <= d <= n-2, P = [d]G
		nm2 := new(big.Int).Sub(n, big.NewInt(2))
		lift := func(v *big.Int, t int64) []byte {
			w := new(big.Int).Add(v, new(big.Int).Mul(nm2, big.NewInt(t)))
			b := w.Bytes()
			out := make([]byte, 40)
			copy(out[40-len(b):], b)
			return out
		}
		streams := []struct {
			name string
			b    []byte
			per  int
		}{
			{"all-zero", make([]byte, 40), 0},
			{"all-0xff", bytes.Repeat([]byte{0xff}, 40), 0},
			{"counter", pu.Msg(0, 40), 0},
			{"counter, 1 byte per Read", pu.Msg(0, 40), 1},
			{"≡ n-3 mod n-2 (d = n-2)", lift(new(big.Int).Sub(n, big.NewInt(3)), 12345), 0},
			{"≡ 0 mod n-2 lifted (d = 1)", lift(big.NewInt(0), 99999), 0},
			{"≡ n-4 mod n-2 (d = n-3)", lift(new(big.Int).Sub(n, big.NewInt(4)), 0), 3},
			{"pattern", pu.Msg(700, 40), 0},
		}
		for _, s := range streams {
			c.Add("evaluations", 1)
			c.DistinctS("nontrivial", "keygen/"+s.name)
			rd := &fixedReader{data: append(append([]byte{}, s.b...), 1, 2, 3, 4, 5, 6, 7, 8), per: s.per}
			var priv *sm2.PrivateKey
			var err error
			if c.Guard("generatekey-panic:"+s.name, "GenerateKey "+s.name, nil, func() { priv, err = sm2.GenerateKey(rd) }) {
				continue
			}
			if err != nil {
				c.Violate("generatekey-error:"+s.name, err.Error(), nil, nil)
				continue
			}
			d := refsm2.KeyFromBytes(s.b)
			want := refsm2.BaseMul(d)
			if priv.D.Cmp(d) != 0 || priv.D.Sign() <= 0 || priv.D.Cmp(nm2) > 0 {
				c.Violate("generatekey-d:"+s.name, fmt.Sprintf("GenerateKey(%s): d = %x, the bytes read determine d = %x (1 <= d <= n-2)", s.name, priv.D, d), nil, nil)
			}
			if !same(priv.X, priv.Y, want) {
				c.Violate("generatekey-pub:"+s.name, fmt.Sprintf("GenerateKey(%s): P = %s, [d]G = %s", s.name, ptStr(priv.X, priv.Y), refStr(want)), nil, nil)
			}
			if rd.pos != 40 {
				c.Violate("generatekey-consumed:"+s.name, fmt.Sprintf("GenerateKey read %d bytes", rd.pos), nil, nil)
			}
		}
		var err error
		var priv *sm2.PrivateKey
		c.Guard("generatekey-panic:short", "GenerateKey with 39 bytes", nil, func() { priv, err = sm2.GenerateKey(&fixedReader{data: make([]byte, 39)}) })
		if err == nil && priv != nil {
			c.Violate("generatekey-short-stream", "GenerateKey produced a key from a 39-byte stream", nil, nil)
		}
		c.Sample("Params vs GM/T 0003.5; IsOnCurve on [k]G, k<=300, and 4 neighbours each; GenerateKey over 8 scripted streams")
	}}
}

// Prop registers C03.
var Prop = &harness.Prop{
	ID:          "C03",
	Level:       "model_checking",
	Rule:        "group walk: explicit-state breadth-first search whose states are curve points identified by their discrete log (known to the model); transitions call the real Add/Double/ScalarMult on the coordinates the implementation itself returned (+G, -G, Double, Add(self,self), Add(self,-self), Add(self,earlier state), Add(inf,self), Add(self,inf), ScalarMult(self,c) for 10 constants incl. 0, n-1, n, n+1) and every result is compared with the affine reference; deduplication on the discrete log per (initial state, first operation) subtree. Plus exhaustive scalar alphabet (0..20, n-20..n+20 and 2n+-, t*n+d, 2^j, 2^j-1, windows at every offset, every comb-table entry alone, leading zero bytes, 0..40-byte strings) x 5 base points for ScalarMult and ScalarBaseMult; field-limb alphabet through the public API (x whose Montgomery limbs are drawn from the boundary set in every position: IsOnCurve vs the equation, Double and Add vs b-independent affine formulas); parameters; membership of neighbours; GenerateKey on scripted streams. states = distinct discrete logs reached (summed over subtrees); transitions = real curve operations in the walk; traces = states expanded. Fresh-process unit: every sequence of one or two curve operations (base/scalar multiplication with 1, 2, n-1, n, 2^255, Add, Double, IsOnCurve, Params) as the first library activity of a new process.",
	Assumptions: []string{"refsm2 affine arithmetic over math/big is correct (identities checked at init, GM/T 0003.5 examples in setup)", "values off the alphabets are not covered (see DESIGN §4)"},
	Bounds: func(tier string) string {
		if tier == "thorough" {
			return "walk depth 6 from {inf,G} over 18 operations; scalars: full alphabet (~2.6k) x 5 points; limbs {0,1,max-1,max}^9 (canonical ones)"
		}
		return "walk depth 5 from {inf,G} over 18 operations; scalars: reduced alphabet (~1.2k) x 5 points; limbs {0,1,max}^9 (canonical ones)"
	},
	Units: func(tier string) []harness.Unit {
		var u []harness.Unit
		depth := 5
		if tier == "thorough" {
			depth = 6
		}
		for init := 0; init < 2; init++ {
			for op := 0; op < nWalkOps; op++ {
				u = append(u, walkUnit(init, op, depth))
			}
		}
		for pi := range basePoints {
			for part := 0; part < 4; part++ {
				u = append(u, scalarUnit(pi, part, 4, tier))
			}
		}
		for i, top := range limbAlphabet(8, tier) {
			u = append(u, limbUnit(top, i, tier))
		}
		u = append(u, miscUnit(), extremePointsUnit(), montPointsUnit(tier == "thorough"))
		for p := 0; p < 4; p++ {
			u = append(u, freshCurveUnit(p, 4))
		}
		return u
	},
}

// ---- points with extreme coordinates ----------------------------------------------------------------
//
// The discrete-log walk never meets them: curve points whose x (or y) is 0, 1, p-1 or tiny. Because b
// is a square modulo p the SM2 curve has the two finite points (0, +-sqrt(b)); for every small x whose
// right-hand side is a square there are two more. Each such point P and its multiples 2P, 3P meet
// every partner of a small set under Add / Double / ScalarMult / IsOnCurve; the reference group law
// decides.
func extremePointsUnit() harness.Unit {
	return harness.Unit{Name: "extreme-coordinates", Run: func(c *harness.Ctx) {
		curve := sm2.P256Sm2()
		var pts []refsm2.Point
		var names []string
		xs := []*big.Int{big.NewInt(0), big.NewInt(1), big.NewInt(2), big.NewInt(3), big.NewInt(4), big.NewInt(5), new(big.Int).Sub(refsm2.P, big.NewInt(1)), new(big.Int).Sub(refsm2.P, big.NewInt(2)), new(big.Int).Sub(refsm2.P, big.NewInt(3)),
			new(big.Int).Lsh(big.NewInt(1), 32), new(big.Int).Lsh(big.NewInt(1), 64), new(big.Int).Lsh(big.NewInt(1), 224), new(big.Int).Lsh(big.NewInt(1), 255)}
		for _, x := range xs {
			x = new(big.Int).Mod(x, refsm2.P)
			// y^2 = x^3 + a x + b
			rhs := new(big.Int).Exp(x, big.NewInt(3), refsm2.P)
			rhs.Add(rhs, new(big.Int).Mul(refsm2.A, x))
			rhs.Add(rhs, refsm2.B)
			rhs.Mod(rhs, refsm2.P)
			y := new(big.Int).ModSqrt(rhs, refsm2.P)
			if y == nil {
				continue
			}
			p := refsm2.Point{X: x, Y: y}
			pts = append(pts, p, refsm2.Neg(p))
			names = append(names, fmt.Sprintf("(x=%x, +y)", x), fmt.Sprintf("(x=%x, -y)", x))
		}
		if len(pts) < 2 {
			c.Violate("extreme-coordinates:no-points", "no curve point with x = 0 found although b is a square", nil, nil)
			return
		}
		partners := []refsm2.Point{refsm2.Infinity, refsm2.G(), refsm2.Neg(refsm2.G()), refsm2.Double(refsm2.G())}
		pnames := []string{"inf", "G", "-G", "2G"}
		for i, p := range pts {
			for _, m := range []int64{1, 2, 3} {
				q := refsm2.Mul(big.NewInt(m), p)
				qn := fmt.Sprintf("%d*%s", m, names[i])
				qx, qy := aff(q)
				c.Add("evaluations", 1)
				c.DistinctS("nontrivial", qn)
				if !q.Inf && !curve.IsOnCurve(qx, qy) {
					c.Violate("extreme-coordinates:isoncurve", fmt.Sprintf("IsOnCurve rejects %s = %s", qn, ptStr(qx, qy)), nil, nil)
				}
				if x, y := curve.Double(qx, qy); !same(x, y, refsm2.Double(q)) {
					c.Violate("extreme-coordinates:double", fmt.Sprintf("Double(%s) = %s, the group law gives %s", qn, ptStr(x, y), refStr(refsm2.Double(q))), nil, nil)
				}
				all := append(append([]refsm2.Point{}, partners...), pts...)
				alln := append(append([]string{}, pnames...), names...)
				for j, r := range all {
					rx, ry := aff(r)
					want := refsm2.Add(q, r)
					c.Add("evaluations", 2)
					if x, y := curve.Add(qx, qy, rx, ry); !same(x, y, want) {
						c.Violate("extreme-coordinates:add", fmt.Sprintf("Add(%s, %s) = %s, the group law gives %s", qn, alln[j], ptStr(x, y), refStr(want)), nil, nil)
					}
					if x, y := curve.Add(rx, ry, qx, qy); !same(x, y, want) {
						c.Violate("extreme-coordinates:add", fmt.Sprintf("Add(%s, %s) = %s, the group law gives %s", alln[j], qn, ptStr(x, y), refStr(want)), nil, nil)
					}
				}
				for _, k := range mulConsts {
					want := refsm2.Mul(new(big.Int).Mod(k, refsm2.N), q)
					c.Add("evaluations", 1)
					if q.Inf {
						continue
					}
					if x, y := curve.ScalarMult(qx, qy, k.Bytes()); !same(x, y, want) {
						c.Violate("extreme-coordinates:scalarmult", fmt.Sprintf("ScalarMult(%s, %s) = %s, the group law gives %s", qn, constName(k), ptStr(x, y), refStr(want)), nil, nil)
					}
				}
			}
		}
		c.Sample(fmt.Sprintf("%d curve points with x in {0, 1..5, p-1..p-3, 2^32, 2^64, 2^224, 2^255} (where the curve has them) and their doubles and triples, against 4 ordinary partners and each other", len(pts)))
	}}
}
