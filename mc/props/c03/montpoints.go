package c03

import (
	"fmt"
	"math/big"

	"github.com/tjfoc/gmsm/sm2"

	"verif/mc/harness"
	"verif/mc/ref/refsm2"
)

// ---- points whose INTERNAL representation is extreme -----------------------------------------------
//
// The implementation keeps field elements as v * 2^257 mod p in nine limbs. A coordinate that looks
// unremarkable can therefore have an internal form with many zero (or all-ones) limbs, and so can its
// negation, which scalar multiplication forms for negative digits of the recoded scalar. The unit
// constructs curve points whose x, y or -y is t * 2^-257 mod p for structured t (small values, single
// limbs, runs of low limbs, all-ones runs): x is taken as given and y solved from the curve equation;
// for a given y the cubic in x is solved (equal-degree splitting of gcd(X^p - X, f)). Each point goes
// through ScalarMult with the scalar alphabet of the scalar unit's quick tier, Double and Add, against
// the reference group law.

type poly []*big.Int // coefficients, lowest first, reduced mod p

func pnorm(a poly) poly {
	for len(a) > 0 && a[len(a)-1].Sign() == 0 {
		a = a[:len(a)-1]
	}
	return a
}

func pmulmod(a, b, f poly) poly { // f monic
	r := make(poly, len(a)+len(b))
	for i := range r {
		r[i] = new(big.Int)
	}
	for i, x := range a {
		for j, y := range b {
			r[i+j].Add(r[i+j], new(big.Int).Mul(x, y))
		}
	}
	for i := range r {
		r[i].Mod(r[i], refsm2.P)
	}
	return pmod(r, f)
}

func pmod(a, f poly) poly { // f monic
	a = pnorm(a)
	df := len(f) - 1
	for len(a)-1 >= df && len(a) > 0 {
		lead := a[len(a)-1]
		sh := len(a) - 1 - df
		for i := 0; i <= df; i++ {
			t := new(big.Int).Mul(lead, f[i])
			a[sh+i] = new(big.Int).Mod(new(big.Int).Sub(a[sh+i], t), refsm2.P)
		}
		a = pnorm(a)
	}
	return a
}

func pmonic(a poly) poly {
	a = pnorm(a)
	if len(a) == 0 {
		return a
	}
	inv := new(big.Int).ModInverse(a[len(a)-1], refsm2.P)
	out := make(poly, len(a))
	for i := range a {
		out[i] = new(big.Int).Mod(new(big.Int).Mul(a[i], inv), refsm2.P)
	}
	return out
}

func pgcd(a, b poly) poly {
	a, b = pnorm(a), pnorm(b)
	for len(b) > 0 {
		a, b = b, pmod(append(poly{}, a...), pmonic(b))
	}
	return pmonic(a)
}

func ppowmod(base poly, e *big.Int, f poly) poly {
	res := poly{big.NewInt(1)}
	for i := e.BitLen() - 1; i >= 0; i-- {
		res = pmulmod(res, res, f)
		if e.Bit(i) == 1 {
			res = pmulmod(res, base, f)
		}
	}
	return res
}

// cubicRoots returns the roots in GF(p) of X^3 + a1 X + a0.
func cubicRoots(a1, a0 *big.Int) []*big.Int {
	f := poly{new(big.Int).Mod(a0, refsm2.P), new(big.Int).Mod(a1, refsm2.P), big.NewInt(0), big.NewInt(1)}
	xp := ppowmod(poly{big.NewInt(0), big.NewInt(1)}, refsm2.P, f)
	d := append(poly{}, xp...)
	for len(d) < 2 {
		d = append(d, new(big.Int))
	}
	d[1] = new(big.Int).Mod(new(big.Int).Sub(d[1], big.NewInt(1)), refsm2.P)
	g := pgcd(append(poly{}, f...), d)
	var roots []*big.Int
	var split func(g poly, seed int64)
	split = func(g poly, seed int64) {
		g = pmonic(g)
		switch len(g) - 1 {
		case 0, -1:
			return
		case 1:
			roots = append(roots, new(big.Int).Mod(new(big.Int).Neg(g[0]), refsm2.P))
			return
		}
		half := new(big.Int).Rsh(new(big.Int).Sub(refsm2.P, big.NewInt(1)), 1)
		for s := seed; s < seed+40; s++ {
			h := ppowmod(poly{big.NewInt(s), big.NewInt(1)}, half, g)
			for len(h) < 1 {
				h = append(h, new(big.Int))
			}
			h[0] = new(big.Int).Mod(new(big.Int).Sub(h[0], big.NewInt(1)), refsm2.P)
			d := pgcd(append(poly{}, g...), h)
			if len(d)-1 > 0 && len(d) < len(g) {
				split(d, s+1)
				// the cofactor: divide by trial of the remaining degree (degrees <= 3: find it by gcd with the other sign)
				h[0] = new(big.Int).Mod(new(big.Int).Add(h[0], big.NewInt(2)), refsm2.P)
				split(pgcd(append(poly{}, g...), h), s+1)
				return
			}
		}
	}
	split(g, 1)
	return roots
}

func montPointsUnit(thorough bool) harness.Unit {
	return harness.Unit{Name: "internal-representation-extremes", Run: func(c *harness.Ctx) {
		curve := sm2.P256Sm2()
		rInv := new(big.Int).ModInverse(new(big.Int).Lsh(big.NewInt(1), 257), refsm2.P)
		one := big.NewInt(1)
		var ts []*big.Int
		var tn []string
		add := func(n string, v *big.Int) { ts = append(ts, v); tn = append(tn, n) }
		for _, v := range []int64{1, 2, 3, 5} {
			add(fmt.Sprint(v), big.NewInt(v))
		}
		for _, sh := range []uint{28, 29, 57, 86, 114, 143, 171, 200, 228} { // limb boundaries
			add(fmt.Sprintf("2^%d", sh), new(big.Int).Lsh(one, sh))
			add(fmt.Sprintf("2^%d-1", sh), new(big.Int).Sub(new(big.Int).Lsh(one, sh), one))
			if thorough {
				add(fmt.Sprintf("2^%d+1", sh), new(big.Int).Add(new(big.Int).Lsh(one, sh), one))
			}
		}
		type pt struct {
			name string
			p    refsm2.Point
		}
		var pts []pt
		for i, t := range ts {
			v := new(big.Int).Mod(new(big.Int).Mul(t, rInv), refsm2.P)
			nv := new(big.Int).Mod(new(big.Int).Neg(v), refsm2.P)
			// x given
			for _, x := range []*big.Int{v, nv} {
				rhs := new(big.Int).Exp(x, big.NewInt(3), refsm2.P)
				rhs.Add(rhs, new(big.Int).Mul(refsm2.A, x)).Add(rhs, refsm2.B).Mod(rhs, refsm2.P)
				if y := new(big.Int).ModSqrt(rhs, refsm2.P); y != nil {
					pts = append(pts, pt{fmt.Sprintf("x*2^257 = +-%s", tn[i]), refsm2.Point{X: x, Y: y}})
				}
			}
			// y given (and with it -y): x from the cubic
			y2 := new(big.Int).Mod(new(big.Int).Mul(v, v), refsm2.P)
			for _, x := range cubicRoots(refsm2.A, new(big.Int).Sub(refsm2.B, y2)) {
				pts = append(pts, pt{fmt.Sprintf("y*2^257 = %s", tn[i]), refsm2.Point{X: x, Y: v}}, pt{fmt.Sprintf("-y*2^257 = %s", tn[i]), refsm2.Point{X: x, Y: nv}})
				break
			}
		}
		if len(pts) < 10 {
			c.Violate("internal-representation-extremes:construction", fmt.Sprintf("only %d points constructed", len(pts)), nil, nil)
			return
		}
		scs := scalars("quick")
		for _, q := range pts {
			if !refsm2.OnCurve(q.p.X, q.p.Y) {
				c.Violate("internal-representation-extremes:construction", "constructed point is not on the curve: "+q.name, nil, nil)
				continue
			}
			qx, qy := aff(q.p)
			c.Add("evaluations", 1)
			c.DistinctS("nontrivial", q.name)
			if !curve.IsOnCurve(qx, qy) {
				c.Violate("internal-representation-extremes:isoncurve", fmt.Sprintf("IsOnCurve rejects the point with %s", q.name), nil, nil)
			}
			if x, y := curve.Double(qx, qy); !same(x, y, refsm2.Double(q.p)) {
				c.Violate("internal-representation-extremes:double", fmt.Sprintf("Double(point with %s) = %s, the group law gives %s", q.name, ptStr(x, y), refStr(refsm2.Double(q.p))), nil, nil)
			}
			for _, r := range []refsm2.Point{refsm2.G(), refsm2.Neg(q.p), q.p} {
				rx, ry := aff(r)
				if x, y := curve.Add(qx, qy, rx, ry); !same(x, y, refsm2.Add(q.p, r)) {
					c.Violate("internal-representation-extremes:add", fmt.Sprintf("Add(point with %s, %s) = %s, the group law gives %s", q.name, refStr(r), ptStr(x, y), refStr(refsm2.Add(q.p, r))), nil, nil)
				}
			}
			for i, sc := range scs {
				if !thorough && i%3 != 0 && len(sc.b) > 2 {
					continue
				}
				k := new(big.Int).SetBytes(sc.b)
				want := refsm2.Mul(new(big.Int).Mod(k, n), q.p)
				c.Add("evaluations", 1)
				var x, y *big.Int
				if c.Guard("scalarmult-panic:internal-representation-extremes", fmt.Sprintf("ScalarMult(point with %s, %s)", q.name, sc.name), nil, func() { x, y = curve.ScalarMult(new(big.Int).Set(qx), new(big.Int).Set(qy), sc.b) }) {
					continue
				}
				if !same(x, y, want) {
					c.Violate("internal-representation-extremes:scalarmult", fmt.Sprintf("ScalarMult(point with %s, k=%s) = %s, the group law gives %s", q.name, sc.name, ptStr(x, y), refStr(want)), nil, nil)
				}
			}
		}
		c.Sample(fmt.Sprintf("%d curve points whose x, y or -y times 2^257 is a structured value (1,2,3,5, 2^k and 2^k-1 at the nine limb boundaries); ScalarMult over the scalar alphabet, Double, Add", len(pts)))
	}}
}
