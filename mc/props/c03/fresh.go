package c03

import (
	"fmt"
	"math/big"
	"strings"

	"github.com/tjfoc/gmsm/sm2"

	"verif/mc/harness"
	"verif/mc/ref/refsm2"
)

// The first curve operations of a process: the curve object builds its tables lazily (sync.Once
// behind P256Sm2 and the first base-point multiplication). Whatever operation comes first - and
// whatever comes second - must give the group result. Every sequence of one or two operations over a
// small alphabet runs as the first library activity of a new process (harness.FreshProcess).

var freshOps = []string{"base:1", "base:2", "base:n-1", "base:n", "mult:2", "mult:n-1", "mult:2^255", "add", "double", "oncurve", "params"}

func freshScalar(s string) *big.Int {
	switch s {
	case "n-1":
		return new(big.Int).Sub(refsm2.N, big.NewInt(1))
	case "n":
		return new(big.Int).Set(refsm2.N)
	case "2^255":
		return new(big.Int).Lsh(big.NewInt(1), 255)
	}
	v, _ := new(big.Int).SetString(s, 10)
	return v
}

func init() {
	harness.RegisterProbe("sm2-curve", func(args []string) string {
		var out []string
		for _, a := range args {
			f := strings.Split(a, ":")
			curve := sm2.P256Sm2()
			p := curve.Params()
			switch f[0] {
			case "base":
				x, y := curve.ScalarBaseMult(freshScalar(f[1]).Bytes())
				out = append(out, ptStr(x, y))
			case "mult":
				x, y := curve.ScalarMult(p.Gx, p.Gy, freshScalar(f[1]).Bytes())
				out = append(out, ptStr(x, y))
			case "add":
				x2, y2 := curve.Double(p.Gx, p.Gy)
				x, y := curve.Add(p.Gx, p.Gy, x2, y2)
				out = append(out, ptStr(x, y))
			case "double":
				x, y := curve.Double(p.Gx, p.Gy)
				out = append(out, ptStr(x, y))
			case "oncurve":
				out = append(out, fmt.Sprint(curve.IsOnCurve(p.Gx, p.Gy), curve.IsOnCurve(p.Gx, p.Gx)))
			case "params":
				out = append(out, fmt.Sprintf("%x/%x/%x/%x/%x", p.P, p.N, p.B, p.Gx, p.Gy))
			}
		}
		return strings.Join(out, ";")
	})
}

func freshExpect(op string) string {
	f := strings.Split(op, ":")
	g := refsm2.G()
	switch f[0] {
	case "base", "mult":
		k := new(big.Int).Mod(freshScalar(f[1]), refsm2.N)
		if k.Sign() == 0 {
			return "(0,0)" // the curve object's encoding of the point at infinity
		}
		return refStr(refsm2.Mul(k, g))
	case "add":
		return refStr(refsm2.Mul(big.NewInt(3), g))
	case "double":
		return refStr(refsm2.Mul(big.NewInt(2), g))
	case "oncurve":
		return "true false"
	}
	return fmt.Sprintf("%x/%x/%x/%x/%x", refsm2.P, refsm2.N, refsm2.B, refsm2.Gx, refsm2.Gy)
}

func freshCurveUnit(part, parts int) harness.Unit {
	return harness.Unit{Name: fmt.Sprintf("fresh-process/first-curve-operations/%d-of-%d", part+1, parts), Run: func(c *harness.Ctx) {
		n := 0
		for _, a := range freshOps {
			seqs := [][]string{{a}}
			for _, b := range freshOps {
				seqs = append(seqs, []string{a, b})
			}
			for _, seq := range seqs {
				n++
				if n%parts != part {
					continue
				}
				var want []string
				for _, op := range seq {
					want = append(want, freshExpect(op))
				}
				tag := strings.Join(seq, " then ")
				c.Add("executions", 1)
				c.Add("transitions", int64(len(seq)))
				got, err := harness.FreshProcess("sm2-curve", seq...)
				if err != nil {
					c.Violate("fresh-process-crash:"+tag, fmt.Sprintf("a fresh process doing %s fails: %v", tag, err), nil, tag)
					continue
				}
				if got != strings.Join(want, ";") {
					c.Violate("fresh-process-value:"+tag, fmt.Sprintf("as the first curve operations of a process, %s give %s; the group law gives %s", tag, got, strings.Join(want, ";")), nil, tag)
				}
			}
		}
		c.Sample("every sequence of one or two operations over " + strings.Join(freshOps, ", ") + ", each in a new process")
	}}
}
