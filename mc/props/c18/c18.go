// Package c18: decoders of untrusted bytes fail closed (DESIGN §3 C18).
package c18

import (
	"bytes"
	"crypto/ecdsa"
	"crypto/elliptic"
	"crypto/rand"
	"crypto/rsa"
	stdx509 "crypto/x509"
	"crypto/x509/pkix"
	"encoding/hex"
	"encoding/pem"
	"fmt"
	"math/big"
	"runtime"
	"sync/atomic"
	"time"

	"github.com/tjfoc/gmsm/gmtls"
	"github.com/tjfoc/gmsm/pkcs12"
	"github.com/tjfoc/gmsm/sm2"
	"github.com/tjfoc/gmsm/sm4"
	gx509 "github.com/tjfoc/gmsm/x509"

	"verif/mc/harness"
	"verif/mc/props/c06"
	"verif/mc/props/c07"
	"verif/mc/props/pu"
	"verif/mc/props/sm2k"
	"verif/mc/ref/gmref"
)

// target is one decoder with its corpus of valid encodings.
type target struct {
	hung   bool // a call did not return: the goroutine is still spinning, no further inputs are tried on this target
	name   string
	corpus [][]byte
	call   func(in []byte)
	der    bool  // apply TLV-aware faults
	frozen []int // byte offsets (per corpus entry 0) that are never mutated (password-stretching iteration counts)
	pwKDF  bool  // runs a password KDF whose iteration count comes from the input
}

func sm2Key(i int) *sm2.PrivateKey { return sm2k.Alphabet()[[]int{5, 8, 9}[i]].Lib() }

func mkCert(k *sm2.PrivateKey, serial int64) []byte {
	t := &gx509.Certificate{SerialNumber: big.NewInt(serial), Subject: pkix.Name{CommonName: "c18", Organization: []string{"o"}}, NotBefore: time.Date(2020, 1, 1, 0, 0, 0, 0, time.UTC), NotAfter: time.Date(2040, 1, 1, 0, 0, 0, 0, time.UTC),
		KeyUsage: gx509.KeyUsageDigitalSignature | gx509.KeyUsageKeyEncipherment | gx509.KeyUsageCertSign | gx509.KeyUsageCRLSign, SignatureAlgorithm: gx509.SM2WithSM3, DNSNames: []string{"a.example"}, SubjectKeyId: []byte{1, 2, 3},
		BasicConstraintsValid: true, IsCA: true, PermittedDNSDomains: []string{"example"}, ExtKeyUsage: []gx509.ExtKeyUsage{gx509.ExtKeyUsageServerAuth}, CRLDistributionPoints: []string{"http://x/y"}, PolicyIdentifiers: nil}
	der, err := gx509.CreateCertificate(t, t, &k.PublicKey, k)
	if err != nil {
		panic(err)
	}
	return der
}

// berIndefinite re-encodes the outer two levels of a DER blob with indefinite lengths.
func berIndefinite(der []byte) []byte {
	// outer SEQUENCE -> 30 80 ... 00 00 (contents unchanged)
	hl := 2
	if der[1]&0x80 != 0 {
		hl = 2 + int(der[1]&0x7f)
	}
	out := []byte{der[0], 0x80}
	out = append(out, der[hl:]...)
	return append(out, 0, 0)
}

func targets() []target {
	k0, k1 := sm2Key(0), sm2Key(1)
	certDER := mkCert(k0, 77)
	cert, _ := gx509.ParseCertificate(certDER)
	rk, _ := rsa.GenerateKey(rand.Reader, 2048)
	rt := &stdx509.Certificate{SerialNumber: big.NewInt(9), Subject: pkix.Name{CommonName: "rsa"}, NotBefore: time.Date(2020, 1, 1, 0, 0, 0, 0, time.UTC), NotAfter: time.Date(2040, 1, 1, 0, 0, 0, 0, time.UTC), KeyUsage: stdx509.KeyUsageKeyEncipherment}
	rsaDER, _ := stdx509.CreateCertificate(rand.Reader, rt, rt, &rk.PublicKey, rk)
	rsaCert, _ := gx509.ParseCertificate(rsaDER)
	csr, _ := gx509.CreateCertificateRequest(rand.Reader, &gx509.CertificateRequest{Subject: pkix.Name{CommonName: "req"}, DNSNames: []string{"r.example"}, SignatureAlgorithm: gx509.SM2WithSM3}, k0)
	crl, _ := cert.CreateCRL(rand.Reader, k0, []pkix.RevokedCertificate{{SerialNumber: big.NewInt(3), RevocationTime: time.Date(2024, 1, 1, 0, 0, 0, 0, time.UTC)}}, time.Date(2024, 1, 1, 0, 0, 0, 0, time.UTC), time.Date(2024, 2, 1, 0, 0, 0, 0, time.UTC))
	gx509.ContentEncryptionAlgorithm = gx509.EncryptionAlgorithmDESCBC
	envSM2, _ := gx509.PKCS7EncryptSM2([]byte("enveloped content!"), []*gx509.Certificate{cert}, sm2.C1C3C2)
	envRSA, _ := gx509.PKCS7Encrypt([]byte("enveloped content!"), []*gx509.Certificate{rsaCert})
	gx509.ContentEncryptionAlgorithm = gx509.EncryptionAlgorithmAES128GCM
	envGCM, _ := gx509.PKCS7EncryptSM2([]byte("enveloped content!"), []*gx509.Certificate{cert}, sm2.C1C3C2)
	gx509.ContentEncryptionAlgorithm = gx509.EncryptionAlgorithmDESCBC
	sd, _ := gx509.NewSignedData([]byte("signed content"))
	sd.AddSigner(rsaCert, rk, gx509.SignerInfoConfig{})
	signedDER, _ := sd.Finish()
	p8plain, _ := gx509.MarshalSm2PrivateKey(k0, nil)
	p8enc, _ := gx509.MarshalSm2PrivateKey(k0, []byte("pw"))
	ek, _ := ecdsa.GenerateKey(elliptic.P256(), rand.Reader)
	p8p256, _ := stdx509.MarshalPKCS8PrivateKey(ek)
	pubDER, _ := gx509.MarshalSm2PublicKey(&k0.PublicKey)
	pemPriv, _ := gx509.WritePrivateKeyToPem(k0, nil)
	pemPrivEnc, _ := gx509.WritePrivateKeyToPem(k0, []byte("pw"))
	pemPub, _ := gx509.WritePublicKeyToPem(&k0.PublicKey)
	pemCert := pem.EncodeToMemory(&pem.Block{Type: "CERTIFICATE", Bytes: certDER})
	pemCSR := pem.EncodeToMemory(&pem.Block{Type: "CERTIFICATE REQUEST", Bytes: csr})
	// a bundle as found in the wild: a certificate, a block of another type, a certificate with PEM
	// headers, text between the blocks, another certificate
	pemBundle := append(append([]byte{}, pemCert...), pemPub...)
	pemBundle = append(pemBundle, []byte("subject=/CN=some text between blocks\n")...)
	pemBundle = append(pemBundle, pem.EncodeToMemory(&pem.Block{Type: "CERTIFICATE", Headers: map[string]string{"Proc-Type": "4,ENCRYPTED"}, Bytes: certDER})...)
	pemBundle = append(pemBundle, pem.EncodeToMemory(&pem.Block{Type: "CERTIFICATE", Bytes: rsaDER})...)
	p12, _ := pkcs12.Encode(k0, cert, nil, "pw")
	ct0, _ := sm2.Encrypt(&k0.PublicKey, []byte("sm2 ciphertext body"), rand.Reader, sm2.C1C3C2)
	ct1, _ := sm2.Encrypt(&k0.PublicKey, []byte("sm2 ciphertext body"), rand.Reader, sm2.C1C2C3)
	ctA, _ := sm2.EncryptAsn1(&k0.PublicKey, []byte("sm2 ciphertext body"), rand.Reader)
	sig, _ := k0.Sign(rand.Reader, []byte("msg"), nil)
	comp := sm2.Compress(&k0.PublicKey)
	sm4pem, _ := sm4.WriteKeyToPem(pu.Msg(1, 16), nil)
	sm4pemEnc, _ := sm4.WriteKeyToPem(pu.Msg(1, 16), []byte("pw"))
	hexPriv := []byte(gx509.WritePrivateKeyToHex(k0))
	hexPub := []byte(gx509.WritePublicKeyToHex(&k0.PublicKey))

	find := func(hay, needle []byte) []int {
		var out []int
		for i := 0; i+len(needle) <= len(hay); i++ {
			if bytes.Equal(hay[i:i+len(needle)], needle) {
				for j := range needle {
					out = append(out, i+j)
				}
			}
		}
		return out
	}
	iter2048 := []byte{0x02, 0x02, 0x08, 0x00}

	return []target{
		{name: "x509.ParseCertificate", corpus: [][]byte{certDER, rsaDER}, der: true, call: func(in []byte) {
			if c, err := gx509.ParseCertificate(in); err == nil {
				c.CheckSignatureFrom(c)
				c.VerifyHostname("a.example")
			}
		}},
		{name: "x509.ParseCertificates", corpus: [][]byte{append(append([]byte{}, certDER...), rsaDER...)}, der: true, call: func(in []byte) { gx509.ParseCertificates(in) }},
		{name: "x509.ParseCertificateRequest", corpus: [][]byte{csr}, der: true, call: func(in []byte) {
			if r, err := gx509.ParseCertificateRequest(in); err == nil {
				r.CheckSignature()
			}
		}},
		{name: "x509.ParseCRL", corpus: [][]byte{crl, pem.EncodeToMemory(&pem.Block{Type: "X509 CRL", Bytes: crl})}, der: true, call: func(in []byte) {
			if l, err := gx509.ParseCRL(in); err == nil {
				cert.CheckCRLSignature(l)
			}
		}},
		{name: "x509.ParsePKCS7(signed)", corpus: [][]byte{signedDER, berIndefinite(signedDER)}, der: true, call: func(in []byte) {
			if p, err := gx509.ParsePKCS7(in); err == nil {
				p.Verify()
				p.GetOnlySigner()
			}
		}},
		{name: "x509.ParsePKCS7(enveloped)+DecryptSM2", corpus: [][]byte{envSM2, berIndefinite(envSM2), envGCM}, der: true, call: func(in []byte) {
			if p, err := gx509.ParsePKCS7(in); err == nil {
				p.DecryptSM2(cert, k0, sm2.C1C3C2)
				p.DecryptSM2(cert, k1, sm2.C1C3C2)
			}
		}},
		{name: "x509.ParsePKCS7(enveloped)+Decrypt(RSA)", corpus: [][]byte{envRSA}, der: true, call: func(in []byte) {
			if p, err := gx509.ParsePKCS7(in); err == nil {
				p.Decrypt(rsaCert, rk)
			}
		}},
		{name: "x509.ParsePKCS8PrivateKey(plain)", corpus: [][]byte{p8plain}, der: true, call: func(in []byte) {
			gx509.ParsePKCS8PrivateKey(in, nil)
			gx509.ParsePKCS8UnecryptedPrivateKey(in)
		}},
		{name: "x509.ParsePKCS8PrivateKey(encrypted)", corpus: [][]byte{p8enc}, der: true, pwKDF: true, frozen: find(p8enc, iter2048), call: func(in []byte) { gx509.ParsePKCS8PrivateKey(in, []byte("pw")) }},
		{name: "pkcs12.ParsePKCS8PrivateKey", corpus: [][]byte{p8plain, p8p256}, der: true, call: func(in []byte) { pkcs12.ParsePKCS8PrivateKey(in) }},
		{name: "x509.ParseSm2PrivateKey", corpus: [][]byte{p8plain[26:]}, der: true, call: func(in []byte) { gx509.ParseSm2PrivateKey(in) }},
		{name: "x509.ParseSm2PublicKey+ParsePKIXPublicKey", corpus: [][]byte{pubDER}, der: true, call: func(in []byte) {
			if p, err := gx509.ParseSm2PublicKey(in); err == nil && p != nil && p.X != nil {
				p.Verify([]byte("m"), sig)
			}
			gx509.ParsePKIXPublicKey(in)
		}},
		{name: "x509.ReadPrivateKeyFromPem", corpus: [][]byte{pemPriv}, call: func(in []byte) { gx509.ReadPrivateKeyFromPem(in, nil) }},
		{name: "x509.ReadPrivateKeyFromPem(encrypted)", corpus: [][]byte{pemPrivEnc}, pwKDF: true, call: func(in []byte) { gx509.ReadPrivateKeyFromPem(in, []byte("pw")) }},
		{name: "x509.ReadPublicKeyFromPem", corpus: [][]byte{pemPub}, call: func(in []byte) { gx509.ReadPublicKeyFromPem(in) }},
		{name: "x509.ReadCertificateFromPem", corpus: [][]byte{pemCert}, call: func(in []byte) { gx509.ReadCertificateFromPem(in) }},
		{name: "x509.ReadCertificateRequestFromPem", corpus: [][]byte{pemCSR}, call: func(in []byte) { gx509.ReadCertificateRequestFromPem(in) }},
		{name: "x509.CertPool.AppendCertsFromPEM", corpus: [][]byte{pemCert, pemBundle}, call: func(in []byte) { gx509.NewCertPool().AppendCertsFromPEM(in) }},
		{name: "gmtls.X509KeyPair(certificate bytes)", corpus: [][]byte{pemCert, pemBundle}, call: func(in []byte) { gmtls.X509KeyPair(in, pemPriv) }},
		{name: "gmtls.X509KeyPair(key bytes)", corpus: [][]byte{pemPriv, append(append([]byte{}, pemCert...), pemPriv...)}, call: func(in []byte) { gmtls.X509KeyPair(pemCert, in) }},
		{name: "x509.ReadPrivateKeyFromHex", corpus: [][]byte{hexPriv}, call: func(in []byte) { gx509.ReadPrivateKeyFromHex(string(in)) }},
		{name: "x509.ReadPublicKeyFromHex", corpus: [][]byte{hexPub, hexPub[2:]}, call: func(in []byte) {
			if p, err := gx509.ReadPublicKeyFromHex(string(in)); err == nil {
				p.Verify([]byte("m"), sig)
			}
		}},
		{name: "pkcs12.Decode/DecodeAll/ToPEM", corpus: [][]byte{p12}, der: true, pwKDF: true, frozen: find(p12, iter2048), call: func(in []byte) {
			pkcs12.DecodeAll(in, "pw")
			pkcs12.Decode(in, "pw")
			pkcs12.ToPEM(in, "pw")
		}},
		{name: "sm2.Decrypt(C1C3C2)", corpus: [][]byte{ct0}, call: func(in []byte) { sm2.Decrypt(k0, in, sm2.C1C3C2); k0.Decrypt(nil, in, nil) }},
		{name: "sm2.Decrypt(C1C2C3)", corpus: [][]byte{ct1}, call: func(in []byte) { sm2.Decrypt(k0, in, sm2.C1C2C3) }},
		{name: "sm2.DecryptAsn1+CipherUnmarshal", corpus: [][]byte{ctA}, der: true, call: func(in []byte) { sm2.DecryptAsn1(k0, in); sm2.CipherUnmarshal(in) }},
		{name: "sm2.CipherMarshal", corpus: [][]byte{ct0}, call: func(in []byte) { sm2.CipherMarshal(in) }},
		{name: "sm2.SignDataToSignDigit+PublicKey.Verify", corpus: [][]byte{sig}, der: true, call: func(in []byte) { sm2.SignDataToSignDigit(in); k0.PublicKey.Verify([]byte("msg"), in) }},
		{name: "sm2.Decompress", corpus: [][]byte{comp}, call: func(in []byte) { sm2.Decompress(in) }},
		{name: "sm4.ReadKeyFromPem", corpus: [][]byte{sm4pem, sm4pemEnc}, call: func(in []byte) { sm4.ReadKeyFromPem(in, []byte("pw")); sm4.ReadKeyFromPem(in, nil) }},
	}
}

var subst = func(b byte) []byte { return []byte{0x00, 0x01, 0x7f, 0x80, 0xff, b ^ 1, b ^ 0x80} }

// tlv is a located DER element.
type tlv struct{ tagOff, lenOff, lenLen, valOff, valLen int }

// walk lists every TLV of a DER blob (recursing into constructed ones and into OCTET/BIT STRINGs
// that themselves parse as DER).
func walk(b []byte, base int, depth int, out *[]tlv) {
	off := 0
	for off < len(b) && depth < 40 {
		if off+2 > len(b) {
			return
		}
		tag := b[off]
		if tag&0x1f == 0x1f {
			return
		}
		l := int(b[off+1])
		ll := 1
		if l&0x80 != 0 {
			n := l & 0x7f
			if n == 0 || n > 4 || off+2+n > len(b) {
				return
			}
			l = 0
			for i := 0; i < n; i++ {
				l = l<<8 | int(b[off+2+i])
			}
			ll = 1 + n
		}
		vo := off + 1 + ll
		if vo+l > len(b) {
			return
		}
		*out = append(*out, tlv{base + off, base + off + 1, ll, base + vo, l})
		if tag&0x20 != 0 {
			walk(b[vo:vo+l], base+vo, depth+1, out)
		} else if (tag == 0x04 || tag == 0x03) && l > 2 {
			inner := b[vo : vo+l]
			ib := base + vo
			if tag == 0x03 {
				inner, ib = inner[1:], ib+1
			}
			if len(inner) > 2 && (inner[0] == 0x30 || inner[0] == 0x31) {
				var sub []tlv
				walk(inner, ib, depth+1, &sub)
				if len(sub) > 0 && sub[0].valOff-ib+sub[0].valLen == len(inner) {
					*out = append(*out, sub...)
				}
			}
		}
		off = vo + l
	}
}

func encLen(n int) []byte {
	if n < 128 {
		return []byte{byte(n)}
	}
	var b []byte
	for v := n; v > 0; v >>= 8 {
		b = append([]byte{byte(v)}, b...)
	}
	return append([]byte{0x80 | byte(len(b))}, b...)
}

// faults enumerates the catalogue for one valid encoding; emit returns false to stop.
func faults(t *target, valid []byte, ci int, quick bool, emit func(kind string, in []byte)) {
	frozen := map[int]bool{}
	if ci == 0 {
		for _, o := range t.frozen {
			frozen[o] = true
		}
	}
	for n := 0; n < len(valid); n++ {
		emit("truncation", valid[:n])
	}
	for i := range valid {
		if frozen[i] {
			continue
		}
		for _, v := range subst(valid[i]) {
			if v == valid[i] {
				continue
			}
			m := append([]byte{}, valid...)
			m[i] = v
			emit("byte-substitution", m)
		}
	}
	if t.der {
		var ts []tlv
		walk(valid, 0, 0, &ts)
		for _, e := range ts {
			touches := false
			for o := range frozen {
				if o >= e.tagOff && o < e.valOff+e.valLen && e.valLen <= 4 {
					touches = true
				}
			}
			if touches {
				continue
			}
			for _, nl := range [][]byte{{0x00}, encLen(e.valLen - 1), encLen(e.valLen + 1), {0x80}, {0x84, 0xff, 0xff, 0xff, 0xff}} {
				if e.valLen == 0 && len(nl) == 1 && nl[0] == 0 {
					continue
				}
				m := append(append(append([]byte{}, valid[:e.lenOff]...), nl...), valid[e.lenOff+e.lenLen:]...)
				emit("length-rewrite", m)
			}
			for _, nt := range []byte{0x01, 0x02, 0x03, 0x04, 0x05, 0x06, 0x0c, 0x13, 0x17, 0x18, 0x30, 0x31, 0xa0} {
				if nt == valid[e.tagOff] {
					continue
				}
				m := append([]byte{}, valid...)
				m[e.tagOff] = nt
				emit("tag-swap", m)
			}
		}
		// well-formed re-encodings: one element changes size and every enclosing length is
		// adjusted, so the outer structure still parses and the odd element reaches the code
		// that interprets it (an integer or key of another width, a list with one element
		// more or fewer)
		for i, e := range ts {
			touches := false
			for o := range frozen {
				if o >= e.tagOff && o < e.valOff+e.valLen {
					touches = true
				}
			}
			if touches || e.valLen > 4096 {
				continue
			}
			val := valid[e.valOff : e.valOff+e.valLen]
			whole := valid[e.tagOff : e.valOff+e.valLen]
			hdr := func(v []byte) []byte { return append(append([]byte{valid[e.tagOff]}, encLen(len(v))...), v...) }
			var repl [][]byte
			if valid[e.tagOff]&0x20 == 0 && e.valLen <= 80 {
				repl = append(repl, hdr(append([]byte{0}, val...)), hdr(append([]byte{0, 0}, val...)), hdr(append([]byte{0xff}, val...)), hdr(append(append([]byte{}, val...), 0)))
				if e.valLen > 0 {
					repl = append(repl, hdr(val[1:]), hdr(val[:len(val)-1]), hdr(nil))
				}
				if e.valLen > 1 && !quick {
					repl = append(repl, hdr(val[:1]), hdr(append(make([]byte, 0, 70), bytes.Repeat([]byte{0}, 64-len(val)%64)...)))
				}
			}
			repl = append(repl, nil, append(append([]byte{}, whole...), whole...)) // element removed, element doubled
			for _, r := range repl {
				emit("consistent-re-encoding", resize(valid, ts, i, r))
			}
		}
	}
}

// resize replaces element i (tag, length and value) by repl and re-encodes the length of every
// element that contains it.
func resize(valid []byte, ts []tlv, i int, repl []byte) []byte {
	e := ts[i]
	out := append(append(append([]byte{}, valid[:e.tagOff]...), repl...), valid[e.valOff+e.valLen:]...)
	delta := len(repl) - (e.valOff + e.valLen - e.tagOff)
	// ancestors, innermost first: elements listed before i that contain it
	for j := i - 1; j >= 0; j-- {
		a := ts[j]
		if !(a.valOff <= e.tagOff && e.valOff+e.valLen <= a.valOff+a.valLen) {
			continue
		}
		nl := encLen(a.valLen + delta)
		if a.valLen+delta < 0 {
			return out
		}
		out = append(append(append([]byte{}, out[:a.lenOff]...), nl...), out[a.lenOff+a.lenLen:]...)
		delta += len(nl) - a.lenLen
	}
	return out
}

// guardCall runs one decoder call with panic capture, an allocation budget and a watchdog.
func guardCall(c *harness.Ctx, t *target, kind string, in []byte) {
	if t.hung || tooManyHangs() {
		c.Add("inputs_skipped_after_a_hang", 1)
		return
	}
	c.Add("evaluations", 1)
	c.Distinct("nontrivial", append([]byte(t.name), in...))
	type res struct {
		pan   interface{}
		alloc uint64
		dur   time.Duration
	}
	done := make(chan res, 1)
	go func() {
		var m0, m1 runtime.MemStats
		var r res
		measure := len(in) > 0 && c.Counters["evaluations"]%64 == 0
		if measure {
			runtime.ReadMemStats(&m0)
		}
		t0 := time.Now()
		r.pan = harness.Try(func() { t.call(in) })
		r.dur = time.Since(t0)
		if measure {
			runtime.ReadMemStats(&m1)
			r.alloc = m1.TotalAlloc - m0.TotalAlloc
		}
		done <- r
	}()
	limit := 20 * time.Second
	select {
	case r := <-done:
		if r.pan != nil {
			c.Violate(fmt.Sprintf("panic:%s:%s", t.name, kind), fmt.Sprintf("%s panicked on a %d-byte input (%s): %v\ninput=%s", t.name, len(in), kind, r.pan, hex.EncodeToString(clip(in, 400))), nil, hex.EncodeToString(clip(in, 4096)))
			return
		}
		budget := uint64(64*len(in)) + 4<<20
		if r.alloc > budget {
			c.Violate(fmt.Sprintf("allocation:%s:%s", t.name, kind), fmt.Sprintf("%s allocated %d bytes for a %d-byte input (%s); budget 64x+4MiB", t.name, r.alloc, len(in), kind), nil, hex.EncodeToString(clip(in, 4096)))
		}
		if r.dur > 3*time.Second && !t.pwKDF {
			// re-run five times before believing it
			slow := 0
			for i := 0; i < 5; i++ {
				t0 := time.Now()
				harness.Try(func() { t.call(in) })
				if time.Since(t0) > 3*time.Second {
					slow++
				}
			}
			if slow == 5 {
				c.Violate(fmt.Sprintf("slow:%s:%s", t.name, kind), fmt.Sprintf("%s needs more than 3 s for a %d-byte input, six times in a row", t.name, len(in)), nil, hex.EncodeToString(clip(in, 4096)))
			}
		}
	case <-time.After(limit):
		if t.pwKDF {
			c.Note("%s: a call ran longer than %v on a mutated password-based input (iteration count carried by the format; exempt)", t.name, limit)
			<-done
			return
		}
		c.Violate(fmt.Sprintf("hang:%s:%s", t.name, kind), fmt.Sprintf("%s did not return within %v on a %d-byte input (%s)\ninput=%s", t.name, limit, len(in), kind, hex.EncodeToString(clip(in, 400))), nil, hex.EncodeToString(clip(in, 4096)))
		t.hung = true
		atomic.AddInt32(&procHangs, 1)
	}
}

// procHangs counts calls and sessions of this worker process that did not return. Their goroutines
// keep spinning, so after the second one further timing in this process means nothing (and every
// further hang costs its full time limit): the violations are recorded, the rest of the process's
// work is skipped and counted as skipped. On a tree without hangs the counter stays 0.
var procHangs int32

func tooManyHangs() bool { return atomic.LoadInt32(&procHangs) >= 2 }

func clip(b []byte, n int) []byte {
	if len(b) > n {
		return b[:n]
	}
	return b
}

func targetUnit(ti int, tier string) harness.Unit {
	name := targets()[ti].name
	return harness.Unit{Name: "decoder/" + name, Run: func(c *harness.Ctx) {
		ts := targets()
		t := &ts[ti]
		for ci, valid := range t.corpus {
			if tier != "thorough" && ci > 0 && len(valid) > 600 {
				continue // quick: the smaller corpus (first encoding of each decoder, plus short alternates)
			}
			if h := harness.Try(func() { t.call(valid) }); h != nil {
				c.Violate("panic:"+t.name+":valid-input", fmt.Sprintf("%s panics on a valid encoding: %v", t.name, h), nil, nil)
				continue
			}
			faults(t, valid, ci, tier != "thorough", func(kind string, in []byte) { guardCall(c, t, kind, in) })
		}
		guardCall(c, t, "empty", []byte{})
		for b := 0; b < 256; b++ {
			guardCall(c, t, "one-byte", []byte{byte(b)})
		}
		c.Sample(fmt.Sprintf("%s: every truncation, 7 substitutions at every byte, 5 length rewrites and 13 tag swaps at every TLV of %d valid encodings; empty and all one-byte inputs", t.name, len(t.corpus)))
	}}
}

// berUnit: the BER transcoder on all two-byte inputs and deep nesting.
func berUnit() harness.Unit {
	return harness.Unit{Name: "ber/two-bytes+nesting", Run: func(c *harness.Ctx) {
		t := &target{name: "x509.ParsePKCS7(BER reader)", call: func(in []byte) { gx509.ParsePKCS7(in) }}
		for a := 0; a < 256; a++ {
			for b := 0; b < 256; b++ {
				guardCall(c, t, "two-byte", []byte{byte(a), byte(b)})
			}
		}
		for _, depth := range []int{10, 100, 1000, 10000} {
			// definite lengths
			var in []byte
			for i := 0; i < depth; i++ {
				in = append([]byte{0x30}, append(encLen(len(in)), in...)...)
			}
			guardCall(c, t, fmt.Sprintf("nesting-definite-%d", depth), in)
			// indefinite lengths
			ind := bytes.Repeat([]byte{0x30, 0x80}, depth)
			ind = append(ind, bytes.Repeat([]byte{0, 0}, depth)...)
			guardCall(c, t, fmt.Sprintf("nesting-indefinite-%d", depth), ind)
			guardCall(c, t, fmt.Sprintf("nesting-indefinite-unterminated-%d", depth), bytes.Repeat([]byte{0x30, 0x80}, depth))
			guardCall(c, t, fmt.Sprintf("nesting-set-%d", depth), append(bytes.Repeat([]byte{0xa0, 0x80}, depth), 0x04, 0x01, 0x00))
		}
		for n := 1; n <= 40; n++ {
			guardCall(c, t, "high-tag-number", append([]byte{0x3f}, bytes.Repeat([]byte{0xff}, n)...))
		}
		// nesting whose claimed lengths do NOT fit into each other: constructed elements whose length
		// byte follows a short period (every pattern of up to three values from {0, 2, 4, 6, 8, indefinite}),
		// 20 to 90 levels deep, closed by a few NULLs. A reader that resumes after a child at the child's
		// CLAIMED end parses the same bytes again and again.
		lens := []byte{0x00, 0x02, 0x04, 0x06, 0x08, 0x80}
		var pats [][]byte
		for _, a := range lens {
			pats = append(pats, []byte{a})
			for _, b := range lens {
				pats = append(pats, []byte{a, b})
				for _, d := range lens {
					pats = append(pats, []byte{a, b, d})
				}
			}
		}
		for _, pat := range pats {
			for _, tag := range []byte{0x30, 0xa0} {
				// depth grows in small steps; the first depth that needs more than half a second for an
				// input of under 200 bytes ends the series (going deeper would only exhaust memory)
				for levels := 16; levels <= 96; levels += 8 {
					var in []byte
					for i := 0; i < levels; i++ {
						in = append(in, tag, pat[i%len(pat)])
					}
					in = append(in, 0x05, 0x00, 0x05, 0x00, 0x05, 0x00, 0x05, 0x00, 0x00, 0x00, 0x00, 0x00)
					c.Add("evaluations", 1)
					c.Distinct("nontrivial", append([]byte(t.name), in...))
					t0 := time.Now()
					pan := harness.Try(func() { t.call(in) })
					dur := time.Since(t0)
					if pan != nil {
						c.Violate("panic:"+t.name+":nesting-with-overlapping-lengths", fmt.Sprintf("%s panicked on a %d-byte input: %v\ninput=%s", t.name, len(in), pan, hex.EncodeToString(in)), nil, hex.EncodeToString(in))
						break
					}
					if dur > 500*time.Millisecond {
						again := time.Now()
						harness.Try(func() { t.call(in) })
						if time.Since(again) > 500*time.Millisecond {
							c.Violate("superlinear:"+t.name+":nesting-with-overlapping-lengths", fmt.Sprintf("%s needs %v for a %d-byte input (%d constructed elements whose claimed lengths follow the pattern %x and do not nest); 8 levels fewer took a fraction of that\ninput=%s", t.name, dur, len(in), levels, pat, hex.EncodeToString(in)), nil, hex.EncodeToString(in))
							break
						}
					}
				}
			}
		}
		c.Sample("all 65536 two-byte inputs; nesting depth 10..10000 definite/indefinite/unterminated; long high-tag-number forms; 258 periodic length patterns x depths 16..96 x 2 tags of constructed elements whose claimed lengths do not nest")
	}}
}

// Prop registers C18.
var Prop = &harness.Prop{
	ID:          "C18",
	Level:       "fault_enumeration",
	Rule:        "for each of 26 decoder entry points (certificates, CSR, CRL DER/PEM, PKCS#7 signed/enveloped DER and BER-indefinite incl. decryption, PKCS#8 plain/encrypted, PKIX public key, PEM and hex keys, PKCS#12, SM2 ciphertext raw/ASN.1, signature, compressed point, SM4 PEM key) and for the TLS handshake-message parsers of both dialects (reached through real endpoints) a corpus of valid encodings produced by the library, and derived from each: every truncation, every byte x {00,01,7f,80,ff,b^1,b^0x80}, every TLV length (located by a DER walker that also enters OCTET/BIT STRINGs) rewritten to {0,len-1,len+1,0x80,0x84ffffffff}, 13 tag swaps per TLV; empty input, all one-byte inputs; all two-byte inputs and nesting depths 10..10000 for the BER reader. Oracle: the call returns (panic captured per call in worker processes), allocation (sampled every 64th call) below 64x input + 4 MiB, 20 s watchdog / 3 s re-run-5x slowness test; password-KDF iteration-count bytes are never mutated and password-based decoders are exempt from timing. distinct_nontrivial = distinct (decoder, mutated input). Added fault kind 'consistent re-encoding': every TLV resized (leading zero bytes, leading 0xff, trailing zero, first/last byte dropped, emptied, removed, doubled) with every enclosing length re-encoded; pkcs12.ParsePKCS8PrivateKey is a target of its own. Added decoder targets: x509.CertPool.AppendCertsFromPEM and gmtls.X509KeyPair (certificate bytes / key bytes) with a mixed PEM bundle in the corpus; a target is abandoned after its first hang. The reference-peer interop units of C06 run here too: the peer's handshake messages one per record, in fragments of 1/7/100 bytes and a whole flight per record, for four suites and both roles.",
	Assumptions: []string{"TLS handshake-message parsers are exercised through real endpoints (tls-messages units: every truncation and 7 substitutions per byte of every plaintext handshake message of GMSSL and TLS 1.2 sessions with mutual authentication, ALPN and tickets); session tickets byte by byte in the C16 check", "iteration counts carried by password-based formats are exempt as the statement says"},
	Bounds: func(tier string) string {
		if tier == "thorough" {
			return "full corpus (all alternates)"
		}
		return "smaller corpus: first encoding per decoder plus short alternates"
	},
	Units: func(tier string) []harness.Unit {
		var u []harness.Unit
		for i := range targets() {
			u = append(u, targetUnit(i, tier))
		}
		u = append(u, berUnit())
		// the record layer as a decoder of untrusted bytes: short records for every cipher suite (shared with C07)
		for sp := 0; sp < 4; sp++ {
			u = append(u, c07.ShortRecordUnit(sp, 4))
		}
		// the handshake message decoders under every framing of the peer's messages into records: one
		// per record, fragments of 1 / 7 / 100 bytes, a whole flight in one record (shared with C06)
		for _, lc := range []bool{true, false} {
			for _, suite := range []uint16{gmref.SuiteCBC, gmref.SuiteGCM, gmref.SuiteAESCBC, gmref.SuiteAESGCM} {
				u = append(u, c06.RefInteropUnit(lc, suite))
			}
		}
		for mi := range tlsModes() {
			for k := 0; k < 7; k++ {
				u = append(u, tlsUnit(mi, 0, k), tlsUnit(mi, 1, k))
			}
		}
		return u
	},
}
