package c18

import (
	"fmt"
	"strings"
	"sync/atomic"

	"github.com/tjfoc/gmsm/gmtls"

	"verif/mc/harness"
	"verif/mc/tlsk"
	"verif/mc/wire"
)

// TLS handshake-message parsers are reached through real endpoints: an honest session between two
// library endpoints provides the corpus (every plaintext handshake message of both directions),
// each fault is applied in transit to one message, and the receiving endpoint must not panic or
// hang (it will abort, at the latest when Finished mismatches).

type tlsMode struct {
	name string
	cfg  func() (*gmtls.Config, *gmtls.Config)
}

func tlsModes() []tlsMode {
	p := tlsk.Get()
	return []tlsMode{
		{"GMSSL mutual auth + ALPN + tickets", func() (*gmtls.Config, *gmtls.Config) {
			s := &gmtls.Config{GMSupport: &gmtls.GMSupport{}, Certificates: []gmtls.Certificate{p.Sign, p.Enc}, Time: tlsk.FixedTime, Rand: wire.NewRand(1), ClientAuth: gmtls.RequireAndVerifyClientCert, ClientCAs: p.Roots, NextProtos: []string{"h2", "http/1.1"}}
			c := &gmtls.Config{GMSupport: &gmtls.GMSupport{}, RootCAs: p.Roots, ServerName: tlsk.ServerName, Time: tlsk.FixedTime, Rand: wire.NewRand(2), Certificates: []gmtls.Certificate{p.Client}, NextProtos: []string{"h2", "http/1.1"}, ClientSessionCache: gmtls.NewLRUClientSessionCache(2)}
			return c, s
		}},
		{"TLS 1.2 mutual auth + ALPN + tickets", func() (*gmtls.Config, *gmtls.Config) {
			s := &gmtls.Config{Certificates: []gmtls.Certificate{p.ECDSA}, Time: tlsk.FixedTime, Rand: wire.NewRand(1), ClientAuth: gmtls.RequireAndVerifyClientCert, ClientCAs: p.StdRootsG, NextProtos: []string{"h2", "http/1.1"}}
			c := &gmtls.Config{RootCAs: p.StdRootsG, ServerName: tlsk.ServerName, Time: tlsk.FixedTime, Rand: wire.NewRand(2), Certificates: []gmtls.Certificate{p.StdClient}, NextProtos: []string{"h2", "http/1.1"}, ClientSessionCache: gmtls.NewLRUClientSessionCache(2)}
			return c, s
		}},
		{"TLS 1.2 RSA key exchange", func() (*gmtls.Config, *gmtls.Config) {
			s := &gmtls.Config{Certificates: []gmtls.Certificate{p.RSA}, Time: tlsk.FixedTime, Rand: wire.NewRand(1), CipherSuites: []uint16{0x009c, 0x002f}}
			c := &gmtls.Config{RootCAs: p.StdRootsG, ServerName: tlsk.ServerName, Time: tlsk.FixedTime, Rand: wire.NewRand(2), CipherSuites: []uint16{0x009c, 0x002f}}
			return c, s
		}},
	}
}

func tlsSite(st string) string {
	for _, l := range strings.Split(st, "\n") {
		l = strings.TrimSpace(l)
		if strings.HasPrefix(l, "github.com/tjfoc/gmsm/") {
			if i := strings.LastIndex(l, "("); i > 0 {
				l = l[:i]
			}
			return strings.TrimPrefix(l, "github.com/tjfoc/gmsm/")
		}
	}
	return "?"
}

func tlsUnit(mi int, dir int, only int) harness.Unit {
	m := tlsModes()[mi]
	return harness.Unit{Name: fmt.Sprintf("tls-messages/%s/from=%s/message%d", m.name, map[int]string{0: "client", 1: "server"}[dir], only), Run: func(c *harness.Ctx) {
		app := [2]tlsk.App{{Writes: [][]byte{[]byte("x")}, Expect: 1}, {Writes: [][]byte{[]byte("y")}, Expect: 1}}
		run := func(pol wire.Policy) *tlsk.Outcome {
			cc, sc := m.cfg()
			var cv, sv tlsk.View
			return tlsk.Run(tlsk.GMEnd(cc, true, app[0], &cv, nil), tlsk.GMEnd(sc, false, app[1], &sv, nil), &cv, &sv, pol)
		}
		ed := &wire.HSEditor{}
		o := run(ed)
		if !o.C.Complete || !o.S.Complete {
			c.Violate("tls-corpus:"+m.name, "the honest session that provides the corpus does not complete: "+o.Describe(), nil, nil)
			return
		}
		names := map[byte]string{1: "ClientHello", 2: "ServerHello", 4: "NewSessionTicket", 11: "Certificate", 12: "ServerKeyExchange", 13: "CertificateRequest", 14: "ServerHelloDone", 15: "CertificateVerify", 16: "ClientKeyExchange", 20: "Finished", 67: "NextProtocol"}
		for i, msg := range ed.Msgs[dir] {
			if i != only {
				continue
			}
			mn := names[msg[0]]
			try := func(kind string, repl []byte) {
				e := &wire.HSEditor{Edit: func(fc bool, idx int, x []byte) [][]byte {
					if fc == (dir == 0) && idx == i {
						return [][]byte{repl}
					}
					return [][]byte{x}
				}}
				if tooManyHangs() {
					c.Add("inputs_skipped_after_a_hang", 1)
					return
				}
				c.Add("evaluations", 1)
				c.Distinct("nontrivial", append([]byte(fmt.Sprintf("%d/%d/%d/", mi, dir, i)), repl...))
				o := run(e)
				if o.C.Panic != nil || o.S.Panic != nil {
					st := o.C.Stack + o.S.Stack
					c.Violate(fmt.Sprintf("panic:tls-%s:%s:%s", mn, kind, tlsSite(st)), fmt.Sprintf("[%s] a %s with a %s made an endpoint panic: %v %v\nmessage=%x\n%s", m.name, mn, kind, o.C.Panic, o.S.Panic, clip(repl, 300), st[:min(len(st), 1200)]), nil, nil)
					return
				}
				if len(o.Stuck) > 0 || o.Horizon {
					c.Violate(fmt.Sprintf("hang:tls-%s:%s", mn, kind), fmt.Sprintf("[%s] %v", m.name, o.Stuck), nil, nil)
					atomic.AddInt32(&procHangs, 1)
				}
			}
			body := msg[4:]
			hdr := func(b []byte) []byte {
				return append([]byte{msg[0], byte(len(b) >> 16), byte(len(b) >> 8), byte(len(b))}, b...)
			}
			for n := 0; n < len(body); n++ {
				if len(body) > 400 && n%3 != 0 && !c.Thorough() {
					continue
				}
				try("truncation", hdr(body[:n]))
			}
			for k := range body {
				if len(body) > 400 && k%2 != 0 && !c.Thorough() {
					continue
				}
				for _, v := range subst(body[k]) {
					if v == body[k] {
						continue
					}
					b := append([]byte{}, body...)
					b[k] = v
					try("byte-substitution", hdr(b))
				}
			}
			try("empty-body", hdr(nil))
			try("extended", hdr(append(append([]byte{}, body...), 0, 0, 0)))
			if c.WantSample() {
				c.Sample(fmt.Sprintf("%s: %s (%d bytes) from %s: every truncation, 7 substitutions per byte", m.name, mn, len(msg), map[int]string{0: "client", 1: "server"}[dir]))
			}
		}
	}}
}
