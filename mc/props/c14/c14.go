// Package c14: keys, signatures and ciphertexts survive every offered serialization (DESIGN §3 C14).
package c14

import (
	"bytes"
	"crypto/ecdsa"
	"crypto/elliptic"
	"crypto/rand"
	"crypto/rsa"
	stdx509 "crypto/x509"
	"crypto/x509/pkix"
	"encoding/pem"
	"fmt"
	"math/big"
	"time"

	"github.com/tjfoc/gmsm/gmtls"
	"github.com/tjfoc/gmsm/sm2"
	gx509 "github.com/tjfoc/gmsm/x509"

	"verif/mc/harness"
	"verif/mc/props/pu"
	"verif/mc/props/sm2k"
	"verif/mc/ref/refsm2"
)

func hexInt(s string) *big.Int { v, _ := new(big.Int).SetString(s, 16); return v }

// keyAlphabet: the shared alphabet plus private keys with 1..3 leading zero bytes, an odd number
// of hex digits, and a public key whose x has two leading zero bytes (found by search).
func keyAlphabet(deep bool) []sm2k.Key {
	ks := append([]sm2k.Key{}, sm2k.Alphabet()...)
	add := func(name, h string) {
		d := hexInt(h)
		ks = append(ks, sm2k.Key{Name: name, D: d, Pub: refsm2.BaseMul(d)})
	}
	add("d 1 leading zero byte", "00A1B2C3D4E5F60718293A4B5C6D7E8F90A1B2C3D4E5F60718293A4B5C6D7E8F")
	add("d 3 leading zero bytes", "0000009F8E7D6C5B4A39281706F5E4D3C2B1A09F8E7D6C5B4A39281706F5E4D3")
	add("d odd hex digits (top nibble 0)", "0ABCDEF0123456789ABCDEF0123456789ABCDEF0123456789ABCDEF012345678")
	add("d odd hex digits short", "0000000000000000000000000000000000000000000000000000000000000ABC")
	if deep {
		p := refsm2.BaseMul(big.NewInt(400))
		g := refsm2.G()
		for d := int64(401); d < 400000; d++ {
			p = refsm2.Add(p, g)
			if len(p.X.Bytes()) <= 30 {
				ks = append(ks, sm2k.Key{Name: "Px 2 leading zero bytes", D: big.NewInt(d), Pub: refsm2.Point{X: new(big.Int).Set(p.X), Y: new(big.Int).Set(p.Y)}})
				break
			}
		}
	}
	return ks
}

func samePriv(a *sm2.PrivateKey, k sm2k.Key) string {
	if a == nil {
		return "nil key"
	}
	if a.D == nil || a.D.Cmp(k.D) != 0 {
		return fmt.Sprintf("D = %x want %x", a.D, k.D)
	}
	return samePub(&a.PublicKey, k)
}

func samePub(a *sm2.PublicKey, k sm2k.Key) string {
	if a == nil || a.X == nil || a.Y == nil {
		return "nil public key"
	}
	if a.X.Cmp(k.Pub.X) != 0 || a.Y.Cmp(k.Pub.Y) != 0 {
		return fmt.Sprintf("public point (%x,%x) want (%x,%x)", a.X, a.Y, k.Pub.X, k.Pub.Y)
	}
	return ""
}

var passwords = []struct {
	name string
	pw   []byte
}{
	{"nil", nil},
	{"empty", []byte{}},
	{"ascii", []byte("Passw0rd!")},
	{"utf8", []byte("密码-пароль-🔑")},
	{"1KiB", pu.Msg(77, 1024)},
}

func wrongPasswords(pw []byte) map[string][]byte {
	m := map[string][]byte{}
	if len(pw) > 0 {
		a := append([]byte{}, pw...)
		a[len(a)/2] ^= 0x01
		m["one character changed"] = a
		b := append([]byte{}, pw...)
		changed := false
		for i, ch := range b {
			if ch >= 'a' && ch <= 'z' {
				b[i] = ch - 32
				changed = true
				break
			}
		}
		if changed {
			m["case changed"] = b
		}
		m["last character removed"] = append([]byte{}, pw[:len(pw)-1]...)
		m["empty instead"] = []byte{}
	}
	m["one appended"] = append(append([]byte{}, pw...), 'x')
	m["space appended"] = append(append([]byte{}, pw...), ' ')
	return m
}

func keyUnit(lo, hi int, deep bool) harness.Unit {
	return harness.Unit{Name: fmt.Sprintf("keys/%d..%d", lo, hi), Run: func(c *harness.Ctx) {
		ks := keyAlphabet(deep)
		for ki := lo; ki <= hi && ki < len(ks); ki++ {
			k := ks[ki]
			priv := k.Lib()
			ev := func(codec string) { c.Add("evaluations", 1); c.DistinctS("nontrivial", k.Name+"/"+codec) }
			// hexadecimal private key
			ev("hex-priv")
			c.Guard("hex-priv-panic", "Write/ReadPrivateKeyFromHex "+k.Name, nil, func() {
				h := gx509.WritePrivateKeyToHex(priv)
				back, err := gx509.ReadPrivateKeyFromHex(h)
				if err != nil {
					c.Violate("hex-priv-roundtrip:"+dClass(k.D), fmt.Sprintf("[%s] WritePrivateKeyToHex gives %q which ReadPrivateKeyFromHex rejects: %v", k.Name, h, err), nil, nil)
				} else if d := samePriv(back, k); d != "" {
					c.Violate("hex-priv-value:"+dClass(k.D), fmt.Sprintf("[%s] hex round trip: %s", k.Name, d), nil, nil)
				}
			})
			// hexadecimal public key
			ev("hex-pub")
			c.Guard("hex-pub-panic", "Write/ReadPublicKeyFromHex "+k.Name, nil, func() {
				back, err := gx509.ReadPublicKeyFromHex(gx509.WritePublicKeyToHex(&priv.PublicKey))
				if err != nil {
					c.Violate("hex-pub-roundtrip", fmt.Sprintf("[%s] %v", k.Name, err), nil, nil)
				} else if d := samePub(back, k); d != "" {
					c.Violate("hex-pub-value", fmt.Sprintf("[%s] %s", k.Name, d), nil, nil)
				}
			})
			// compressed point
			ev("compress")
			c.Guard("compress-panic", "Compress/Decompress "+k.Name, nil, func() {
				back := sm2.Decompress(sm2.Compress(&priv.PublicKey))
				if d := samePub(back, k); d != "" {
					c.Violate("compress-roundtrip", fmt.Sprintf("[%s] Decompress(Compress(P)): %s", k.Name, d), nil, nil)
				}
			})
			// PKIX public key DER + PEM
			ev("pkix-pub")
			c.Guard("pkix-pub-panic", "public key DER/PEM "+k.Name, nil, func() {
				der, err := gx509.MarshalSm2PublicKey(&priv.PublicKey)
				if err != nil {
					c.Violate("pkix-pub-marshal", fmt.Sprintf("[%s] %v", k.Name, err), nil, nil)
					return
				}
				back, err := gx509.ParseSm2PublicKey(der)
				if err != nil {
					c.Violate("pkix-pub-parse", fmt.Sprintf("[%s] %v", k.Name, err), nil, nil)
				} else if d := samePub(back, k); d != "" {
					c.Violate("pkix-pub-value", fmt.Sprintf("[%s] %s", k.Name, d), nil, nil)
				}
				pm, err := gx509.WritePublicKeyToPem(&priv.PublicKey)
				if err != nil {
					c.Violate("pem-pub-write", fmt.Sprintf("[%s] %v", k.Name, err), nil, nil)
					return
				}
				back, err = gx509.ReadPublicKeyFromPem(pm)
				if err != nil {
					c.Violate("pem-pub-read", fmt.Sprintf("[%s] %v", k.Name, err), nil, nil)
				} else if d := samePub(back, k); d != "" {
					c.Violate("pem-pub-value", fmt.Sprintf("[%s] %s", k.Name, d), nil, nil)
				}
				// the generic PKIX entry points agree
				if der2, err := gx509.MarshalPKIXPublicKey(&priv.PublicKey); err == nil {
					if pk, err := gx509.ParsePKIXPublicKey(der2); err != nil {
						c.Violate("pkix-generic-parse", fmt.Sprintf("[%s] %v", k.Name, err), nil, nil)
					} else {
						switch p := pk.(type) {
						case *sm2.PublicKey:
							if d := samePub(p, k); d != "" {
								c.Violate("pkix-generic-value", fmt.Sprintf("[%s] %s", k.Name, d), nil, nil)
							}
						case *ecdsa.PublicKey:
							if p.X.Cmp(k.Pub.X) != 0 || p.Y.Cmp(k.Pub.Y) != 0 {
								c.Violate("pkix-generic-value", fmt.Sprintf("[%s] generic PKIX round trip changed the point", k.Name), nil, nil)
							}
						default:
							c.Violate("pkix-generic-type", fmt.Sprintf("[%s] ParsePKIXPublicKey returned %T", k.Name, pk), nil, nil)
						}
					}
				}
			})
			// PKCS#8 DER and PEM, every password
			for _, pw := range passwords {
				ev("pkcs8/" + pw.name)
				c.Guard("pkcs8-panic:"+pw.name, "PKCS#8 "+k.Name, nil, func() {
					der, err := gx509.MarshalSm2PrivateKey(priv, pw.pw)
					if err != nil {
						c.Violate("pkcs8-marshal:"+pw.name, fmt.Sprintf("[%s] %v", k.Name, err), nil, nil)
						return
					}
					back, err := gx509.ParsePKCS8PrivateKey(der, pw.pw)
					if err != nil {
						c.Violate("pkcs8-parse:"+pw.name+":"+dClass(k.D), fmt.Sprintf("[%s] own PKCS#8 output (password %s) rejected: %v", k.Name, pw.name, err), nil, nil)
					} else if d := samePriv(back, k); d != "" {
						c.Violate("pkcs8-value:"+pw.name+":"+dClass(k.D), fmt.Sprintf("[%s] PKCS#8 round trip (password %s): %s", k.Name, pw.name, d), nil, nil)
					}
					pm, err := gx509.WritePrivateKeyToPem(priv, pw.pw)
					if err != nil {
						c.Violate("pem-priv-write:"+pw.name, fmt.Sprintf("[%s] %v", k.Name, err), nil, nil)
						return
					}
					back, err = gx509.ReadPrivateKeyFromPem(pm, pw.pw)
					if err != nil {
						c.Violate("pem-priv-read:"+pw.name+":"+dClass(k.D), fmt.Sprintf("[%s] own PEM output (password %s) rejected: %v", k.Name, pw.name, err), nil, nil)
					} else if d := samePriv(back, k); d != "" {
						c.Violate("pem-priv-value:"+pw.name+":"+dClass(k.D), fmt.Sprintf("[%s] PEM round trip (password %s): %s", k.Name, pw.name, d), nil, nil)
					}
					if pw.pw == nil {
						return
					}
					// any other password must be refused
					for wn, w := range wrongPasswords(pw.pw) {
						c.Add("evaluations", 1)
						var got *sm2.PrivateKey
						var err error
						if c.Guard("pem-priv-wrongpw-panic:"+wn, "ReadPrivateKeyFromPem with a wrong password", nil, func() { got, err = gx509.ReadPrivateKeyFromPem(pm, w) }) {
							continue
						}
						if err == nil {
							c.Violate("wrong-password-accepted:"+wn, fmt.Sprintf("[%s] key protected with password %s was read with another password (%s): D=%x", k.Name, pw.name, wn, got.D), nil, nil)
						}
					}
					// encrypted key read without a password / unencrypted key read with one
					if _, err := gx509.ReadPrivateKeyFromPem(pm, nil); err == nil {
						c.Violate("encrypted-read-without-password", fmt.Sprintf("[%s] an encrypted key was read with a nil password", k.Name), nil, nil)
					}
				})
			}
			if c.WantSample() {
				c.Sample(fmt.Sprintf("key %s d=%x through hex / compressed / PKIX / PKCS#8 x 5 passwords / PEM", k.Name, k.D))
			}
		}
	}}
}

// lastOctetUnit: the encrypted PKCS#8 form pads the inner DER to the cipher block, and the inner DER
// ends with the last octet of the public key's y; its length follows the number of octets of d. For
// every chosen octet count of d and EVERY value v of that final octet in the tier's range a key is
// found by search (d = 0x80.. + i, smallest i), and must survive the password-protected DER and PEM
// forms with the same password.
func lastOctetUnit(lens []int, vmax int) harness.Unit {
	return harness.Unit{Name: fmt.Sprintf("pkcs8-final-octet/len%v/v0..%d", lens, vmax), Run: func(c *harness.Ctx) {
		pw := []byte("Passw0rd!")
		g := refsm2.G()
		for _, L := range lens {
			d0 := new(big.Int).Lsh(big.NewInt(0x80), uint(8*(L-1)))
			p := refsm2.BaseMul(d0)
			found := map[int]bool{}
			for i := int64(0); len(found) <= vmax && i < 20000; i++ {
				if i > 0 {
					p = refsm2.Add(p, g)
				}
				v := int(new(big.Int).And(p.Y, big.NewInt(255)).Int64())
				if v > vmax || found[v] {
					continue
				}
				found[v] = true
				d := new(big.Int).Add(d0, big.NewInt(i))
				k := sm2k.Key{Name: fmt.Sprintf("d of %d octets, y ends in %02x", L, v), D: d, Pub: refsm2.Point{X: new(big.Int).Set(p.X), Y: new(big.Int).Set(p.Y)}}
				priv := k.Lib()
				c.Add("evaluations", 1)
				c.DistinctS("nontrivial", fmt.Sprintf("final-octet/%d/%d", L, v))
				c.Guard("pkcs8-panic:final-octet", "PKCS#8 "+k.Name, nil, func() {
					der, err := gx509.MarshalSm2PrivateKey(priv, pw)
					if err != nil {
						c.Violate("pkcs8-marshal:ascii", fmt.Sprintf("[%s] %v", k.Name, err), nil, nil)
						return
					}
					back, err := gx509.ParsePKCS8PrivateKey(der, pw)
					if err != nil {
						c.Violate("pkcs8-parse:final-octet-of-inner-DER", fmt.Sprintf("[%s] own encrypted PKCS#8 output rejected with the same password: %v", k.Name, err), nil, nil)
					} else if df := samePriv(back, k); df != "" {
						c.Violate("pkcs8-value:final-octet-of-inner-DER", fmt.Sprintf("[%s] encrypted PKCS#8 round trip: %s", k.Name, df), nil, nil)
					}
					pm, err := gx509.WritePrivateKeyToPem(priv, pw)
					if err != nil {
						c.Violate("pem-priv-write:ascii", fmt.Sprintf("[%s] %v", k.Name, err), nil, nil)
						return
					}
					back, err = gx509.ReadPrivateKeyFromPem(pm, pw)
					if err != nil {
						c.Violate("pem-priv-read:final-octet-of-inner-DER", fmt.Sprintf("[%s] own password-protected PEM rejected with the same password: %v", k.Name, err), nil, nil)
					} else if df := samePriv(back, k); df != "" {
						c.Violate("pem-priv-value:final-octet-of-inner-DER", fmt.Sprintf("[%s] password-protected PEM round trip: %s", k.Name, df), nil, nil)
					}
				})
			}
			if len(found) <= vmax {
				c.Note("len %d: only %d of %d final-octet values found within the search bound", L, len(found), vmax+1)
			}
			c.Sample(fmt.Sprintf("d of %d octets x final octet of y in 0..%d, password-protected DER and PEM", L, vmax))
		}
	}}
}

// codecHistoryUnit: package-level state between calls. Every ordered triple of keys from a set with
// 0, 1 and 2 leading zero bytes in either coordinate (and in d) goes through each key codec in ONE
// process, in that order; every result must be what the codec gives for that key alone.
func codecHistoryUnit() harness.Unit {
	return harness.Unit{Name: "codec-histories", Run: func(c *harness.Ctx) {
		var ks []sm2k.Key
		for _, k := range keyAlphabet(false) {
			switch k.Name {
			case "unstructured", "Px-leading-zero", "Py-leading-zero", "Px-2-leading-zeros", "Py-2-leading-zeros", "Px,Py-leading-zero", "d<2^248", "d<2^240", "d 3 leading zero bytes":
				ks = append(ks, k)
			}
		}
		type codec struct {
			name string
			run  func(k sm2k.Key) string // returns "" or what is wrong
		}
		codecs := []codec{
			{"hex-pub", func(k sm2k.Key) string {
				back, err := gx509.ReadPublicKeyFromHex(gx509.WritePublicKeyToHex(k.LibPub()))
				if err != nil {
					return err.Error()
				}
				return samePub(back, k)
			}},
			{"hex-priv", func(k sm2k.Key) string {
				back, err := gx509.ReadPrivateKeyFromHex(gx509.WritePrivateKeyToHex(k.Lib()))
				if err != nil {
					return err.Error()
				}
				return samePriv(back, k)
			}},
			{"pem-pub", func(k sm2k.Key) string {
				b, err := gx509.WritePublicKeyToPem(k.LibPub())
				if err != nil {
					return err.Error()
				}
				back, err := gx509.ReadPublicKeyFromPem(b)
				if err != nil {
					return err.Error()
				}
				return samePub(back, k)
			}},
			{"pem-priv", func(k sm2k.Key) string {
				b, err := gx509.WritePrivateKeyToPem(k.Lib(), nil)
				if err != nil {
					return err.Error()
				}
				back, err := gx509.ReadPrivateKeyFromPem(b, nil)
				if err != nil {
					return err.Error()
				}
				return samePriv(back, k)
			}},
			{"compress", func(k sm2k.Key) string {
				back := sm2.Decompress(sm2.Compress(k.LibPub()))
				if back == nil {
					return "Decompress returned nil"
				}
				return samePub(back, k)
			}},
		}
		for _, cd := range codecs {
			n := len(ks)
			for a := 0; a < n; a++ {
				for b := 0; b < n; b++ {
					for d := 0; d < n; d++ {
						seq := []sm2k.Key{ks[a], ks[b], ks[d]}
						c.Add("evaluations", 1)
						c.DistinctS("nontrivial", fmt.Sprintf("history/%s/%d/%d/%d", cd.name, a, b, d))
						c.Guard("codec-history-panic:"+cd.name, fmt.Sprintf("%s on [%s; %s; %s]", cd.name, seq[0].Name, seq[1].Name, seq[2].Name), nil, func() {
							for i, k := range seq {
								if why := cd.run(k); why != "" {
									c.Violate("codec-history:"+cd.name, fmt.Sprintf("%s round trip of key %q fails as step %d of the call history [%s; %s; %s] in one process: %s", cd.name, k.Name, i, seq[0].Name, seq[1].Name, seq[2].Name, why), nil, nil)
									return
								}
							}
						})
					}
				}
			}
		}
		c.Sample("every ordered triple of 9 keys (0/1/2 leading zero bytes in x, y or d) through hex, PEM and compressed-point codecs in one process")
	}}
}

func dClass(d *big.Int) string {
	h := d.Text(16)
	switch {
	case len(h)%2 == 1:
		return "d-odd-hex-digits"
	case len(d.Bytes()) < 32:
		return "d-leading-zero-byte"
	}
	return "d-full"
}

func sigCipherUnit() harness.Unit {
	return harness.Unit{Name: "signatures+ciphertexts", Run: func(c *harness.Ctx) {
		n := refsm2.N
		vals := []*big.Int{big.NewInt(1), big.NewInt(127), big.NewInt(128), big.NewInt(255), big.NewInt(256), new(big.Int).Lsh(big.NewInt(1), 255), new(big.Int).Sub(n, big.NewInt(1)), new(big.Int).Lsh(big.NewInt(0x80), 200)}
		for _, r := range vals {
			for _, s := range vals {
				c.Add("evaluations", 1)
				c.DistinctS("nontrivial", "sig/"+r.String()+"/"+s.String())
				c.Guard("sig-codec-panic", "SignDigitToSignData/SignDataToSignDigit", nil, func() {
					der, err := sm2.SignDigitToSignData(r, s)
					if err != nil {
						c.Violate("sig-marshal", fmt.Sprintf("(%x,%x): %v", r, s, err), nil, nil)
						return
					}
					r2, s2, err := sm2.SignDataToSignDigit(der)
					if err != nil || r2.Cmp(r) != 0 || s2.Cmp(s) != 0 {
						c.Violate("sig-roundtrip", fmt.Sprintf("(%x,%x) -> %x -> (%x,%x) err=%v", r, s, der, r2, s2, err), nil, nil)
					}
				})
			}
		}
		// ciphertexts: all (x1 lead, y1 lead) shapes by construction, hash / C2 with leading zero bytes
		for _, xl := range []int{0, 1, 2, 5} {
			for _, yl := range []int{0, 1, 3} {
				for _, cl := range []int{1, 2, 33} {
					ct := []byte{0x04}
					x := pu.Msg(10+xl, 32)
					y := pu.Msg(20+yl, 32)
					x[0], y[0] = 0x81, 0x7f // high bit set / clear
					for i := 0; i < xl; i++ {
						x[i] = 0
					}
					for i := 0; i < yl; i++ {
						y[i] = 0
					}
					h := pu.Msg(30, 32)
					h[0] = 0
					c2 := pu.Msg(40, cl)
					c2[0] = 0
					ct = append(append(append(append(ct, x...), y...), h...), c2...)
					c.Add("evaluations", 1)
					c.Distinct("nontrivial", ct)
					c.Guard("cipher-codec-panic", "CipherMarshal/CipherUnmarshal", nil, func() {
						der, err := sm2.CipherMarshal(ct)
						if err != nil {
							c.Violate("cipher-marshal", err.Error(), nil, nil)
							return
						}
						back, err := sm2.CipherUnmarshal(der)
						if err != nil || !bytes.Equal(back, ct) {
							c.Violate(fmt.Sprintf("cipher-roundtrip:x-lead%d:y-lead%d", xl, yl), fmt.Sprintf("ciphertext %s -> ASN.1 -> %s (err %v)", pu.Hex(ct), pu.Hex(back), err), nil, nil)
						}
					})
				}
			}
		}
		c.Sample("(r,s) over {1,127,128,255,256,2^255,n-1,0x80<<200}^2; ciphertexts with 0..5 leading zero bytes in x1/y1, leading zero in C3/C2")
	}}
}

// ---- TLS loaders ------------------------------------------------------------------------

type pki struct {
	name    string
	certPEM []byte
	keyPEM  []byte
	kind    string
}

func leftPad32(v *big.Int) []byte {
	b := v.Bytes()
	return append(make([]byte, 32-len(b)), b...)
}

func pemBlock(t string, b []byte) []byte { return pem.EncodeToMemory(&pem.Block{Type: t, Bytes: b}) }

func loadersUnit() harness.Unit {
	return harness.Unit{Name: "tls-loaders", Run: func(c *harness.Ctx) {
		nb := time.Date(2020, 1, 1, 0, 0, 0, 0, time.UTC)
		na := time.Date(2040, 1, 1, 0, 0, 0, 0, time.UTC)
		var items []pki
		ks := sm2k.Alphabet()
		for i, ki := range []int{5, 8, 9, -1} {
			var k *sm2.PrivateKey
			if ki >= 0 {
				k = ks[ki].Lib()
			} else {
				// the negation of the first key: d' = n-d, public point (x, p-y) - a DIFFERENT key that
				// shares one coordinate with the first certificate's key
				k0 := ks[5].Lib()
				k = &sm2.PrivateKey{PublicKey: sm2.PublicKey{Curve: k0.Curve, X: new(big.Int).Set(k0.X), Y: new(big.Int).Sub(k0.Curve.Params().P, k0.Y)}, D: new(big.Int).Sub(k0.Curve.Params().N, k0.D)}
			}
			tmpl := &gx509.Certificate{SerialNumber: big.NewInt(int64(100 + i)), Subject: pkix.Name{CommonName: fmt.Sprintf("sm2-%d", i)}, NotBefore: nb, NotAfter: na,
				KeyUsage: gx509.KeyUsageDigitalSignature | gx509.KeyUsageKeyEncipherment, SignatureAlgorithm: gx509.SM2WithSM3, DNSNames: []string{"example.test"}}
			der, err := gx509.CreateCertificate(tmpl, tmpl, &k.PublicKey, k)
			if err != nil {
				c.Violate("loader-setup-cert", err.Error(), nil, nil)
				return
			}
			kp, err := gx509.WritePrivateKeyToPem(k, nil)
			if err != nil {
				c.Violate("loader-setup-key", err.Error(), nil, nil)
				return
			}
			items = append(items, pki{fmt.Sprintf("sm2-%d", i), pemBlock("CERTIFICATE", der), kp, "sm2"})
		}
		rk, _ := rsa.GenerateKey(rand.Reader, 2048)
		rt := &stdx509.Certificate{SerialNumber: big.NewInt(7), Subject: pkix.Name{CommonName: "rsa"}, NotBefore: nb, NotAfter: na, KeyUsage: stdx509.KeyUsageDigitalSignature}
		rder, _ := stdx509.CreateCertificate(rand.Reader, rt, rt, &rk.PublicKey, rk)
		items = append(items, pki{"rsa", pemBlock("CERTIFICATE", rder), pemBlock("RSA PRIVATE KEY", stdx509.MarshalPKCS1PrivateKey(rk)), "rsa"})
		ek, _ := ecdsa.GenerateKey(elliptic.P256(), rand.Reader)
		et := &stdx509.Certificate{SerialNumber: big.NewInt(8), Subject: pkix.Name{CommonName: "p256"}, NotBefore: nb, NotAfter: na, KeyUsage: stdx509.KeyUsageDigitalSignature}
		eder, _ := stdx509.CreateCertificate(rand.Reader, et, et, &ek.PublicKey, ek)
		ek8, _ := stdx509.MarshalPKCS8PrivateKey(ek)
		items = append(items, pki{"p256", pemBlock("CERTIFICATE", eder), pemBlock("PRIVATE KEY", ek8), "p256"})

		for i, ci := range items {
			for j, kj := range items {
				match := i == j
				what := fmt.Sprintf("certificate %s with key %s", ci.name, kj.name)
				// X509KeyPair: every certificate type
				c.Add("evaluations", 1)
				c.DistinctS("nontrivial", "X509KeyPair/"+what)
				var err error
				var crt gmtls.Certificate
				if !c.Guard("loader-panic:X509KeyPair", "X509KeyPair "+what, nil, func() { crt, err = gmtls.X509KeyPair(ci.certPEM, kj.keyPEM) }) {
					if match && err != nil {
						c.Violate("loader-rejects-match:X509KeyPair:"+ci.kind, fmt.Sprintf("X509KeyPair rejects the matching %s: %v", what, err), nil, nil)
					}
					if !match && err == nil {
						c.Violate("loader-accepts-mismatch:X509KeyPair:"+ci.kind+"/"+kj.kind, fmt.Sprintf("X509KeyPair accepts the mismatching %s", what), nil, nil)
					}
					if match && err == nil && crt.PrivateKey == nil {
						c.Violate("loader-no-key:X509KeyPair", what, nil, nil)
					}
				}
				// GMX509KeyPairsSingle
				c.Add("evaluations", 1)
				c.DistinctS("nontrivial", "GMX509KeyPairsSingle/"+what)
				if !c.Guard("loader-panic:GMX509KeyPairsSingle", "GMX509KeyPairsSingle "+what, nil, func() { _, err = gmtls.GMX509KeyPairsSingle(ci.certPEM, kj.keyPEM) }) {
					if match && err != nil {
						c.Violate("loader-rejects-match:GMX509KeyPairsSingle:"+ci.kind, fmt.Sprintf("GMX509KeyPairsSingle rejects the matching %s: %v", what, err), nil, nil)
					}
					if !match && err == nil {
						c.Violate("loader-accepts-mismatch:GMX509KeyPairsSingle:"+ci.kind+"/"+kj.kind, fmt.Sprintf("GMX509KeyPairsSingle accepts the mismatching %s", what), nil, nil)
					}
				}
				// GMX509KeyPairs: signing pair (i,j) with a correct encryption pair, SM2 only
				if ci.kind == "sm2" {
					enc := items[(i+1)%3]
					c.Add("evaluations", 1)
					c.DistinctS("nontrivial", "GMX509KeyPairs-sign/"+what)
					if !c.Guard("loader-panic:GMX509KeyPairs", "GMX509KeyPairs "+what, nil, func() { _, err = gmtls.GMX509KeyPairs(ci.certPEM, kj.keyPEM, enc.certPEM, enc.keyPEM) }) {
						if match && err != nil {
							c.Violate("loader-rejects-match:GMX509KeyPairs", fmt.Sprintf("GMX509KeyPairs rejects the matching signing %s: %v", what, err), nil, nil)
						}
						if !match && err == nil {
							c.Violate("loader-accepts-mismatch:GMX509KeyPairs:signing/"+kj.kind, fmt.Sprintf("GMX509KeyPairs accepts the mismatching signing %s", what), nil, nil)
						}
					}
					// encryption pair (i,j) with a correct signing pair
					sig := items[(i+2)%3]
					c.Add("evaluations", 1)
					c.DistinctS("nontrivial", "GMX509KeyPairs-enc/"+what)
					if !c.Guard("loader-panic:GMX509KeyPairs-enc", "GMX509KeyPairs (encryption pair) "+what, nil, func() { _, err = gmtls.GMX509KeyPairs(sig.certPEM, sig.keyPEM, ci.certPEM, kj.keyPEM) }) {
						if match && err != nil {
							c.Violate("loader-rejects-match:GMX509KeyPairs-enc", fmt.Sprintf("GMX509KeyPairs rejects the matching encryption %s: %v", what, err), nil, nil)
						}
						if !match && err == nil {
							c.Violate("loader-accepts-mismatch:GMX509KeyPairs:encryption-pair", fmt.Sprintf("GMX509KeyPairs accepts the encryption %s although the key does not match (the encryption key argument is never examined)", what), nil, nil)
						}
					}
				}
			}
		}
		// a private-key file that says one thing with its scalar and another with the optional public
		// key it carries: scalar of identity j, embedded public point of identity i. A parser may refuse
		// it; if it returns a key, that key is d and d*G. No loader may pair it with certificate i.
		for i := 0; i < 3; i++ {
			for j := 0; j < 3; j++ {
				if i == j {
					continue
				}
				ki, kj := ks[[]int{5, 8, 9}[i]], ks[[]int{5, 8, 9}[j]]
				derJ, err := gx509.MarshalSm2UnecryptedPrivateKey(kj.Lib())
				if err != nil {
					c.Violate("loader-setup-key", err.Error(), nil, nil)
					return
				}
				pubI := append([]byte{4}, append(leftPad32(ki.Pub.X), leftPad32(ki.Pub.Y)...)...)
				pubJ := append([]byte{4}, append(leftPad32(kj.Pub.X), leftPad32(kj.Pub.Y)...)...)
				at := bytes.Index(derJ, pubJ)
				if at < 0 {
					c.Note("the PKCS#8 form written by the library does not embed the public key: nothing to forge")
					continue
				}
				forged := append([]byte{}, derJ...)
				copy(forged[at:], pubI)
				what := fmt.Sprintf("PKCS#8 key with the scalar of sm2-%d and the embedded public key of sm2-%d", j, i)
				consistent := func(name string, k *sm2.PrivateKey, err error) {
					c.Add("evaluations", 1)
					c.DistinctS("nontrivial", name+"/"+what)
					if err != nil || k == nil {
						return
					}
					want := refsm2.BaseMul(k.D)
					if k.D.Cmp(kj.D) != 0 || k.X == nil || k.X.Cmp(want.X) != 0 || k.Y.Cmp(want.Y) != 0 {
						c.Violate("inconsistent-private-key:"+name, fmt.Sprintf("%s on a %s returns a key whose public point is not d*G (d=%x)", name, what, k.D), nil, nil)
					}
				}
				var k *sm2.PrivateKey
				if !c.Guard("parse-panic:forged-key", "ParsePKCS8UnecryptedPrivateKey "+what, nil, func() { k, err = gx509.ParsePKCS8UnecryptedPrivateKey(forged) }) {
					consistent("ParsePKCS8UnecryptedPrivateKey", k, err)
				}
				if !c.Guard("parse-panic:forged-key", "ParsePKCS8PrivateKey "+what, nil, func() { k, err = gx509.ParsePKCS8PrivateKey(forged, nil) }) {
					consistent("ParsePKCS8PrivateKey", k, err)
				}
				if !c.Guard("parse-panic:forged-key", "ReadPrivateKeyFromPem "+what, nil, func() { k, err = gx509.ReadPrivateKeyFromPem(pemBlock("PRIVATE KEY", forged), nil) }) {
					consistent("ReadPrivateKeyFromPem", k, err)
				}
				fpem := pemBlock("PRIVATE KEY", forged)
				ci := items[i]
				for _, ld := range []struct {
					name string
					f    func() error
				}{
					{"X509KeyPair", func() error { _, e := gmtls.X509KeyPair(ci.certPEM, fpem); return e }},
					{"GMX509KeyPairsSingle", func() error { _, e := gmtls.GMX509KeyPairsSingle(ci.certPEM, fpem); return e }},
					{"GMX509KeyPairs(signing pair)", func() error {
						_, e := gmtls.GMX509KeyPairs(ci.certPEM, fpem, items[j].certPEM, items[j].keyPEM)
						return e
					}},
					{"GMX509KeyPairs(encryption pair)", func() error {
						_, e := gmtls.GMX509KeyPairs(items[j].certPEM, items[j].keyPEM, ci.certPEM, fpem)
						return e
					}},
				} {
					var lerr error
					c.Add("evaluations", 1)
					c.DistinctS("nontrivial", ld.name+"/"+what)
					if c.Guard("loader-panic:forged-key", ld.name+" "+what, nil, func() { lerr = ld.f() }) {
						continue
					}
					if lerr == nil {
						c.Violate("loader-accepts-forged-key:"+ld.name, fmt.Sprintf("%s pairs certificate sm2-%d with a %s", ld.name, i, what), nil, nil)
					}
				}
			}
		}
		c.Sample("X509KeyPair / GMX509KeyPairsSingle / GMX509KeyPairs over all (certificate, key) pairs of 3 SM2 + RSA + P-256 identities; key files whose embedded public key belongs to another scalar")
	}}
}

// Prop registers C14.
var Prop = &harness.Prop{
	ID:          "C14",
	Level:       "exploration",
	Rule:        "full product of the key alphabet (12 shared keys + d with 1/3 leading zero bytes, odd hex digit counts, [thorough] Px with two leading zero bytes) x every codec pair (hex private/public, compressed point, PKIX DER/PEM, generic PKIX, PKCS#8 DER/PEM x passwords {nil, empty, ASCII, UTF-8, 1 KiB}) with field-by-field comparison; every wrong-password variant (one character, case, length +-1, empty) must be refused; (r,s) over 8 boundary values squared; ASN.1 ciphertext with 0..5 leading zero bytes in each coordinate; every (certificate, key) pair over 3 SM2 + RSA + P-256 identities for each TLS loader: accepted iff matching. Distinct/non-trivial = distinct (value, codec) labels. The loader matrix includes the negation n-d of the first key (same x coordinate as the certificate's key). Final-octet units: for d of 32,31,30,29,28,17,16,15,2,1 octets (thorough: every count 1..32) and every value 0..16 (thorough: 0..255) of the last octet of y - the last octet of the DER that the password-protected form pads and encrypts - a key found by search survives the protected DER and PEM forms.",
	Assumptions: []string{"refsm2 computes the public points; salts/IVs of the encrypted PKCS#8 come from crypto/rand inside the library (not observed by the property)"},
	Bounds: func(tier string) string {
		return "complete for the stated alphabets; thorough adds the searched Px-with-two-leading-zero-bytes key"
	},
	Units: func(tier string) []harness.Unit {
		deep := tier == "thorough"
		n := len(sm2k.Alphabet()) + 4
		_ = n
		if deep {
			n++
		}
		var u []harness.Unit
		for lo := 0; lo < n; lo += 2 {
			u = append(u, keyUnit(lo, lo+1, deep))
		}
		u = append(u, sigCipherUnit(), loadersUnit(), codecHistoryUnit())
		if deep {
			for L := 1; L <= 32; L += 4 {
				u = append(u, lastOctetUnit([]int{L, L + 1, L + 2, L + 3}, 255))
			}
		} else {
			u = append(u, lastOctetUnit([]int{32, 31, 30, 29}, 16), lastOctetUnit([]int{28, 17, 16, 15, 2, 1}, 16))
		}
		return u
	},
}
