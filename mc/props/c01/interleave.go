package c01

import (
	"fmt"
	"math/big"
	"runtime"
	"time"

	"github.com/tjfoc/gmsm/sm2"

	"verif/mc/harness"
	"verif/mc/props/pu"
	"verif/mc/props/sm2k"
	"verif/mc/ref/refsm2"
)

// ---- two signers whose nonce reads interleave ------------------------------------------------------
//
// "(r, s) is exactly the pair the standard prescribes for that key, message, ID and nonce" must not
// depend on another signature being made at the same time. Each signer draws its nonce from its own
// reader; a reader stops before and after it fills the caller's buffer and a controller releases the
// four events (A.start, A.end, B.start, B.end) in every order compatible with start < end: 6 orders,
// for same key / different keys and with one signer replaced by GenerateKey. GOMAXPROCS is 1 while the
// unit runs, so that anything the first signer gives back to a per-processor cache is what the second
// one picks up.

type gate struct {
	ev   chan string
	ok   chan struct{}
	name string
	seed int
}

func (g *gate) Read(p []byte) (int, error) {
	g.ev <- g.name + ".start"
	<-g.ok
	copy(p, pu.Msg(g.seed, len(p)))
	g.ev <- g.name + ".end"
	<-g.ok
	return len(p), nil
}

func interleavings() [][]string {
	var out [][]string
	var rec func(cur []string, a, b int)
	rec = func(cur []string, a, b int) {
		if a == 2 && b == 2 {
			out = append(out, append([]string{}, cur...))
			return
		}
		if a < 2 {
			rec(append(cur, []string{"A.start", "A.end"}[a]), a+1, b)
		}
		if b < 2 {
			rec(append(cur, []string{"B.start", "B.end"}[b]), a, b+1)
		}
	}
	rec(nil, 0, 0)
	return out
}

func interleaveUnit() harness.Unit {
	return harness.Unit{Name: "interleaved-nonce-reads", Run: func(c *harness.Ctx) {
		old := runtime.GOMAXPROCS(1)
		defer runtime.GOMAXPROCS(old)
		al := sm2k.Alphabet()
		want := func(key sm2k.Key, msg []byte, seed int) string {
			k := refsm2.NonceFromBytes(pu.Msg(seed, 40))
			r, s, ok := refsm2.Sign(key.D, refsm2.E(key.Pub, gmref16, msg), k)
			if !ok {
				return "retry"
			}
			return fmt.Sprintf("%x %x", r, s)
		}
		for _, pair := range [][2]int{{5, 5}, {5, 8}} {
			for _, bKind := range []string{"Sm2Sign", "GenerateKey"} {
				for _, order := range interleavings() {
					ka, kb := al[pair[0]], al[pair[1]]
					ma, mb := pu.Msg(1, 20), pu.Msg(2, 33)
					ev, okA, okB := make(chan string), make(chan struct{}), make(chan struct{})
					ga, gb := &gate{ev, okA, "A", 101}, &gate{ev, okB, "B", 202}
					resA, resB := make(chan string, 1), make(chan string, 1)
					go func() {
						r, s, err := sm2.Sm2Sign(ka.Lib(), ma, nil, ga)
						resA <- fmt.Sprintf("%x %x", r, s) + errStr(err)
					}()
					go func() {
						if bKind == "GenerateKey" {
							g, err := sm2.GenerateKey(gb)
							if err != nil {
								resB <- err.Error()
								return
							}
							resB <- fmt.Sprintf("%x", g.D)
							return
						}
						r, s, err := sm2.Sm2Sign(kb.Lib(), mb, nil, gb)
						resB <- fmt.Sprintf("%x %x", r, s) + errStr(err)
					}()
					tag := fmt.Sprintf("A = Sm2Sign(key %s), B = %s(key %s); reader events released as %v", ka.Name, bKind, kb.Name, order)
					c.Add("executions", 1)
					c.Add("transitions", int64(len(order)))
					c.DistinctS("states", tag)
					pending := map[string]bool{}
					stuck := false
					for _, e := range order {
						for !pending[e] && !stuck {
							select {
							case got := <-ev:
								pending[got] = true
							case <-time.After(20 * time.Second):
								stuck = true
							}
						}
						if stuck {
							break
						}
						delete(pending, e)
						if e[0] == 'A' {
							okA <- struct{}{}
						} else {
							okB <- struct{}{}
						}
					}
					if stuck {
						// an internal deadline, not a verdict: report as not explored
						c.Note("interleaving %v could not be driven (a reader was not called as expected)", order)
						continue
					}
					// any further read (a retry) is released at once
					done := make(chan struct{})
					go func() {
						for {
							select {
							case e := <-ev:
								if e[0] == 'A' {
									okA <- struct{}{}
								} else {
									okB <- struct{}{}
								}
							case <-done:
								return
							}
						}
					}()
					a, b := <-resA, <-resB
					close(done)
					wa := want(ka, ma, 101)
					wb := want(kb, mb, 202)
					if bKind == "GenerateKey" {
						d := new(big.Int).SetBytes(pu.Msg(202, 40))
						d.Mod(d, new(big.Int).Sub(refsm2.N, big.NewInt(2)))
						d.Add(d, big.NewInt(1))
						wb = fmt.Sprintf("%x", d)
					}
					c.DistinctS("outcomes", fmt.Sprintf("%v/%v", a == wa, b == wb))
					if a != wa || b != wb {
						c.Violate("sign-value:depends-on-concurrent-call:"+bKind, fmt.Sprintf("[%s] A returns %s (its own nonce prescribes %s), B returns %s (prescribed %s)", tag, a, wa, b, wb), nil, tag)
					}
				}
			}
		}
		c.Sample("2 key pairs x {Sm2Sign, GenerateKey} as the second call x all 6 orders of the readers' start/end events")
	}}
}

func errStr(err error) string {
	if err != nil {
		return " " + err.Error()
	}
	return ""
}
