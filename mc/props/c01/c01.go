// Package c01: SM2 signatures complete, sound, standard-conformant (DESIGN §3 C01).
package c01

import (
	"bytes"
	"crypto/rand"
	"fmt"
	"io"
	"math/big"

	"github.com/tjfoc/gmsm/sm2"

	"verif/mc/harness"
	"verif/mc/props/pu"
	"verif/mc/props/sm2k"
	"verif/mc/ref/refsm2"
)

var _ = rand.Reader

// stream is a scripted randomness source.
type stream struct {
	data     []byte
	pos      int
	perRead  int // max bytes per Read (0 = as many as asked)
	consumed int
	reads    int
}

func (s *stream) Read(p []byte) (int, error) {
	s.reads++
	if s.pos >= len(s.data) {
		return 0, io.ErrUnexpectedEOF
	}
	n := len(p)
	if s.perRead > 0 && n > s.perRead {
		n = s.perRead
	}
	if n > len(s.data)-s.pos {
		n = len(s.data) - s.pos
	}
	copy(p, s.data[s.pos:s.pos+n])
	s.pos += n
	s.consumed += n
	return n, nil
}

type nonce struct {
	name    string
	bytes   []byte // first 40 bytes define k
	perRead int
}

func nonces() []nonce {
	n := refsm2.N
	b := func(k *big.Int, lift int64) []byte { return refsm2.BytesForNonce(k, lift) }
	two255 := new(big.Int).Lsh(big.NewInt(1), 255)
	var out []nonce
	out = append(out,
		nonce{"k=1 (all-zero bytes)", make([]byte, 40), 0},
		nonce{"k=2", b(big.NewInt(2), 0), 0},
		nonce{"k=n-1", b(new(big.Int).Sub(n, big.NewInt(1)), 0), 0},
		nonce{"k=n-2 lifted", b(new(big.Int).Sub(n, big.NewInt(2)), 0x7fffffffffff), 0},
		nonce{"k=2^255", b(two255, 3), 0},
		nonce{"all-0xff bytes", bytes.Repeat([]byte{0xff}, 40), 0},
		nonce{"pattern", pu.Msg(4000, 40), 0},
		nonce{"pattern, 1 byte per Read", pu.Msg(4000, 40), 1},
		nonce{"k with short k.Bytes()", b(new(big.Int).Lsh(big.NewInt(0xabcdef), 200), 0), 7},
	)
	return out
}

var msgLens = []int{0, 1, 31, 32, 33, 55, 56, 63, 64, 65, 119, 128, 1000, 65536}

type uidT struct {
	name string
	id   []byte // as passed to the library (nil = absent)
	eff  []byte // effective ID
}

func uids() []uidT {
	def := []byte("1234567812345678")
	return []uidT{
		{"absent", nil, def},
		{"explicit-default", append([]byte{}, def...), def},
		{"1 byte", []byte{0x41}, []byte{0x41}},
		{"2 bytes", []byte{0, 1}, []byte{0, 1}},
		{"16 other", pu.Msg(1, 16), pu.Msg(1, 16)},
		{"17 bytes", pu.Msg(2, 17), pu.Msg(2, 17)},
		{"255 bytes", pu.Msg(3, 255), pu.Msg(3, 255)},
		{"8191 bytes", pu.Msg(4, 8191), pu.Msg(4, 8191)},
	}
}

func signUnit(ki int) harness.Unit {
	return harness.Unit{Name: fmt.Sprintf("sign/key%d", ki), Run: func(c *harness.Ctx) {
		key := sm2k.Alphabet()[ki]
		priv := key.Lib()
		for _, ml := range msgLens {
			msg := pu.Msg(ml, ml)
			for _, u := range uids() {
				e := refsm2.E(key.Pub, u.eff, msg)
				rs := map[string]string{}
				for _, nc := range nonces() {
					tag := fmt.Sprintf("%s |M|=%d id=%s nonce=%s", key.Name, ml, u.name, nc.name)
					c.Add("evaluations", 1)
					c.DistinctS("nontrivial", tag)
					k := refsm2.NonceFromBytes(nc.bytes[:40])
					wr, ws, ok := refsm2.Sign(key.D, e, k)
					if !ok {
						c.Note("nonce rejected by the standard for %s (retry branch) - skipped", tag)
						continue
					}
					st := &stream{data: append(append([]byte{}, nc.bytes...), pu.Msg(9, 80)...), perRead: nc.perRead}
					var r, s *big.Int
					var err error
					// message and identity are handed over as slices with spare capacity behind them, in
					// guarded buffers of their own, and once more as adjacent parts of ONE buffer (ID || M, the
					// layout of a packet): nothing may be written to either
					mc, uc := pu.NewCanary(msg, 48), pu.NewCanary(u.id, 80)
					mArg, uArg := mc.Slice(), uc.Slice()
					if u.id == nil {
						uArg = nil
					}
					var packet []byte
					if nc.name == nonces()[0].name && u.id != nil {
						packet = append(append([]byte{}, u.id...), msg...)
						uArg, mArg = packet[:len(u.id)], packet[len(u.id):]
					}
					if c.Guard("sign-panic:"+key.Name, "Sm2Sign "+tag, nil, func() { r, s, err = sm2.Sm2Sign(priv, mArg, uArg, st) }) {
						continue
					}
					if why := mc.Check(); why != "" {
						c.Violate("sign-writes-message:"+key.Name, fmt.Sprintf("[%s] Sm2Sign wrote to the caller's message buffer: %s", tag, why), nil, nil)
					}
					if why := uc.Check(); why != "" {
						c.Violate("sign-writes-id:"+key.Name, fmt.Sprintf("[%s] Sm2Sign wrote to the caller's identity buffer: %s", tag, why), nil, nil)
					}
					if packet != nil && !bytes.Equal(packet, append(append([]byte{}, u.id...), msg...)) {
						c.Violate("sign-writes-packet:"+key.Name, fmt.Sprintf("[%s] identity and message passed as adjacent parts of one buffer: Sm2Sign changed the buffer", tag), nil, nil)
					}
					if err != nil {
						c.Violate(fmt.Sprintf("sign-error:%s:id=%s", key.Name, u.name), fmt.Sprintf("[%s] Sm2Sign failed: %v", tag, err), nil, nil)
						continue
					}
					if r.Cmp(wr) != 0 || s.Cmp(ws) != 0 {
						c.Violate(fmt.Sprintf("sign-value:%s:id=%s:nonce=%s", key.Name, u.name, nc.name), fmt.Sprintf("[%s] (r,s) = (%x,%x), GM/T 0003.2 prescribes (%x,%x)", tag, r, s, wr, ws), nil, nil)
					}
					if st.consumed != 40 {
						c.Violate("sign-randomness-consumed:"+nc.name, fmt.Sprintf("[%s] signing consumed %d bytes of randomness, the nonce is defined by 40", tag, st.consumed), nil, nil)
					}
					if !sm2.Sm2Verify(&priv.PublicKey, msg, u.id, wr, ws) {
						c.Violate(fmt.Sprintf("verify-rejects-valid:%s:id=%s", key.Name, u.name), fmt.Sprintf("[%s] Sm2Verify rejects the standard's signature", tag), nil, nil)
					}
					if u.id != nil {
						pk := append(append([]byte{}, u.id...), msg...)
						ok := sm2.Sm2Verify(&priv.PublicKey, pk[len(u.id):], pk[:len(u.id)], wr, ws)
						if !ok || !bytes.Equal(pk, append(append([]byte{}, u.id...), msg...)) {
							c.Violate(fmt.Sprintf("verify-packet-layout:%s:id=%s", key.Name, u.name), fmt.Sprintf("[%s] identity and message passed as adjacent parts of one buffer: Sm2Verify = %v, buffer changed = %v", tag, ok, !bytes.Equal(pk, append(append([]byte{}, u.id...), msg...))), nil, nil)
						}
					}
					if !sm2.Verify(&priv.PublicKey, e.Bytes(), wr, ws) {
						c.Violate(fmt.Sprintf("verify-hash-rejects-valid:%s", key.Name), fmt.Sprintf("[%s] sm2.Verify(hash) rejects the standard's signature", tag), nil, nil)
					}
					if dig, err := priv.PublicKey.Sm3Digest(msg, u.id); err != nil || new(big.Int).SetBytes(dig).Cmp(e) != 0 {
						c.Violate(fmt.Sprintf("digest:%s:id=%s", key.Name, u.name), fmt.Sprintf("[%s] Sm3Digest = %x (err %v), standard e = %x", tag, dig, err, e), nil, nil)
					}
					if prev, ok := rs[wr.String()]; ok && prev != nc.name {
						c.Note("two nonces share r legitimately? %s vs %s", prev, nc.name)
					}
					rs[r.String()] = nc.name
					if c.WantSample() {
						c.Sample(tag + fmt.Sprintf(" -> r=%x", r))
					}
				}
				_ = rs // r equals the prescribed r for every nonce (k and n-k legitimately share r, so pairwise distinctness is not demanded)
			}
		}
		// user ID of 8192 bytes must be refused; a short random stream is an error, not a signature
		if _, _, err := sm2.Sm2Sign(priv, []byte("m"), make([]byte, 8192), &stream{data: make([]byte, 80)}); err == nil {
			c.Violate("sign-accepts-8192-id", "Sm2Sign accepted an 8192-byte user ID", nil, nil)
		}
		if sm2.Sm2Verify(&priv.PublicKey, []byte("m"), make([]byte, 8192), big.NewInt(1), big.NewInt(1)) {
			c.Violate("verify-accepts-8192-id", "Sm2Verify accepted an 8192-byte user ID", nil, nil)
		}
		var r *big.Int
		var err error
		c.Guard("sign-panic-short-stream", "Sm2Sign with a 39-byte random stream", nil, func() { r, _, err = sm2.Sm2Sign(priv, []byte("m"), nil, &stream{data: make([]byte, 39)}) })
		if err == nil && r != nil {
			c.Violate("sign-short-stream", "Sm2Sign produced a signature from a 39-byte random stream", nil, nil)
		}
	}}
}

// derUnit: PrivateKey.Sign / PublicKey.Verify (DER form) and the catalogue of non-DER encodings.
// coincidenceUnit: (e, r, s) triples CONSTRUCTED so that the point addition inside verification,
// [s]G + [t]P with t = r + s, meets its special cases. (1) [s]G = [t]P: the sum is a doubling; the
// triple is a valid signature (the reference accepts it) and must be accepted. (2) [s]G = -[t]P:
// the sum is the point at infinity, which has no x coordinate; the triple must be rejected even
// when e = r (an implementation that represents infinity as (0,0) would compute R = e + 0 = r).
// Digest-level API (sm2.Verify), where e can be chosen.
func coincidenceUnit() harness.Unit {
	return harness.Unit{Name: "constructed-coincidences", Run: func(c *harness.Ctx) {
		n := refsm2.N
		inv := func(x *big.Int) *big.Int { return new(big.Int).ModInverse(new(big.Int).Mod(x, n), n) }
		for _, key := range sm2k.Alphabet() {
			d := key.D
			one := big.NewInt(1)
			if new(big.Int).Mod(new(big.Int).Add(d, one), n).Sign() == 0 || d.Cmp(one) == 0 {
				continue
			}
			pub := key.LibPub()
			for _, kk := range []int64{2, 7, 12345, 99991} {
				k := big.NewInt(kk)
				x1 := refsm2.BaseMul(k).X
				// (1) doubling: r = k (1 - d) / (2 d), s = (1+d)^-1 (k - r d), e = r - x1
				r := new(big.Int).Mul(k, new(big.Int).Sub(one, d))
				r.Mul(r, inv(new(big.Int).Mul(big.NewInt(2), d)))
				r.Mod(r, n)
				sv := new(big.Int).Sub(k, new(big.Int).Mul(r, d))
				sv.Mul(sv, inv(new(big.Int).Add(one, d)))
				sv.Mod(sv, n)
				e := new(big.Int).Sub(r, x1)
				e.Mod(e, n)
				if r.Sign() > 0 && sv.Sign() > 0 {
					tag := fmt.Sprintf("key %s k=%d: valid signature whose verification adds [s]G to an equal point", key.Name, kk)
					c.Add("evaluations", 1)
					c.DistinctS("nontrivial", tag)
					want := refsm2.Verify(key.Pub, e, r, sv)
					sg, tp := refsm2.BaseMul(sv), refsm2.Mul(new(big.Int).Mod(new(big.Int).Add(r, sv), n), key.Pub)
					if !want || !sg.Equal(tp) {
						c.Note("construction failed for %s (reference verify=%v, points equal=%v)", tag, want, sg.Equal(tp))
						c.Add("harness_divergences", 1)
						continue
					}
					var got bool
					if !c.Guard("verify-hash-panic:coincidence", tag, nil, func() { got = sm2.Verify(pub, pad32(e), r, sv) }) && !got {
						c.Violate("verify-hash-rejects-valid:doubling-inside-verification", fmt.Sprintf("[%s] sm2.Verify rejects (e=%x r=%x s=%x)", tag, e, r, sv), nil, nil)
					}
				}
				// (2) infinity: s = -t d with t = k (any), r = t - s, e = r
				t := new(big.Int).Set(k)
				s2 := new(big.Int).Neg(new(big.Int).Mul(t, d))
				s2.Mod(s2, n)
				r2 := new(big.Int).Sub(t, s2)
				r2.Mod(r2, n)
				if r2.Sign() > 0 && s2.Sign() > 0 {
					tag := fmt.Sprintf("key %s t=%d: [s]G + [t]P is the point at infinity and e = r", key.Name, kk)
					c.Add("evaluations", 1)
					c.DistinctS("nontrivial", tag)
					if !refsm2.Add(refsm2.BaseMul(s2), refsm2.Mul(t, key.Pub)).Inf {
						c.Note("construction failed for %s", tag)
						c.Add("harness_divergences", 1)
						continue
					}
					// message-level API: the key owner can choose r = e(M) and s = -r d / (1 + d), which
					// makes the sum the point at infinity for that very message
					if kk == 2 {
						for mi, m := range [][]byte{[]byte("message digest"), {}, pu.Msg(3, 100)} {
							em := refsm2.E(key.Pub, gmref16, m)
							rm := new(big.Int).Mod(em, n)
							sm := new(big.Int).Neg(new(big.Int).Mul(rm, d))
							sm.Mul(sm, inv(new(big.Int).Add(one, d)))
							sm.Mod(sm, n)
							if rm.Sign() == 0 || sm.Sign() == 0 || refsm2.Verify(key.Pub, em, rm, sm) {
								continue
							}
							c.Add("evaluations", 1)
							c.DistinctS("nontrivial", fmt.Sprintf("inf-msg/%s/%d", key.Name, mi))
							var got bool
							mt := fmt.Sprintf("key %s message %d: r = e(M), s = -r d/(1+d): [s]G + [t]P is the point at infinity", key.Name, mi)
							if !c.Guard("verify-panic:coincidence", mt, nil, func() { got = sm2.Sm2Verify(pub, m, gmref16, rm, sm) }) && got {
								c.Violate("verify-accepts:point-at-infinity", fmt.Sprintf("[%s] Sm2Verify accepts (r=%x s=%x); the standard's verification has no x coordinate to compare", mt, rm, sm), nil, nil)
							}
						}
					}
					for _, ee := range []*big.Int{r2, new(big.Int).Sub(r2, one), big.NewInt(0)} {
						var got bool
						if !c.Guard("verify-hash-panic:coincidence", tag, nil, func() { got = sm2.Verify(pub, pad32(ee), r2, s2) }) && got {
							c.Violate("verify-hash-accepts:point-at-infinity", fmt.Sprintf("[%s] sm2.Verify accepts (e=%x r=%x s=%x) although [s]G + [t]P has no x coordinate", tag, ee, r2, s2), nil, nil)
						}
					}
				}
			}
			// (3) SMALL r or s chosen first, e solved from the verification equation: for such a valid
			// triple r+n or s+n is still below 2^256 - a range test by bit length would let it through,
			// and it acts as the same value mod n. Outside [1, n-1] means refused.
			for _, small := range []int64{1, 7, 65537, 1 << 40} {
				for _, which := range []string{"s", "r"} {
					rv, sv := new(big.Int).Set(key.D), big.NewInt(small) // r arbitrary (the private scalar is as good as any), s small
					if which == "r" {
						rv, sv = big.NewInt(small), new(big.Int).Set(key.D)
					}
					t := new(big.Int).Mod(new(big.Int).Add(rv, sv), n)
					if t.Sign() == 0 {
						continue
					}
					pt := refsm2.Add(refsm2.BaseMul(sv), refsm2.Mul(t, key.Pub))
					if pt.Inf {
						continue
					}
					e := new(big.Int).Mod(new(big.Int).Sub(rv, pt.X), n)
					tag := fmt.Sprintf("key %s: triple with %s = %d and e solved from the verification equation", key.Name, which, small)
					c.Add("evaluations", 1)
					c.DistinctS("nontrivial", tag)
					if !refsm2.Verify(key.Pub, e, rv, sv) {
						c.Note("construction failed for %s", tag)
						c.Add("harness_divergences", 1)
						continue
					}
					var got bool
					if !c.Guard("verify-hash-panic:small-scalar", tag, nil, func() { got = sm2.Verify(pub, pad32(e), rv, sv) }) && !got {
						c.Violate("verify-hash-rejects-valid:small-"+which, fmt.Sprintf("[%s] sm2.Verify rejects (e=%x r=%x s=%x)", tag, e, rv, sv), nil, nil)
					}
					r2, s2 := rv, sv
					if which == "s" {
						s2 = new(big.Int).Add(sv, n)
					} else {
						r2 = new(big.Int).Add(rv, n)
					}
					if !c.Guard("verify-hash-panic:small-scalar", tag, nil, func() { got = sm2.Verify(pub, pad32(e), r2, s2) }) && got {
						c.Violate("verify-hash-accepts:"+which+"-plus-n-below-2^256", fmt.Sprintf("[%s] sm2.Verify accepts %s + n (r=%x s=%x), a value outside [1, n-1]", tag, which, r2, s2), nil, nil)
					}
				}
			}
		}
	}}
}

var gmref16 = []byte("1234567812345678")

func pad32(x *big.Int) []byte {
	b := x.Bytes()
	if len(b) >= 32 {
		return b
	}
	return append(make([]byte, 32-len(b)), b...)
}

func derUnit(ki int) harness.Unit {
	return harness.Unit{Name: fmt.Sprintf("der/key%d", ki), Run: func(c *harness.Ctx) {
		key := sm2k.Alphabet()[ki]
		priv := key.Lib()
		def := []byte("1234567812345678")
		for _, ml := range []int{0, 1, 32, 65, 1000} {
			msg := pu.Msg(ml+1, ml)
			e := refsm2.E(key.Pub, def, msg)
			for _, nc := range nonces() {
				k := refsm2.NonceFromBytes(nc.bytes[:40])
				wr, ws, ok := refsm2.Sign(key.D, e, k)
				if !ok {
					continue
				}
				tag := fmt.Sprintf("%s |M|=%d nonce=%s", key.Name, ml, nc.name)
				c.Add("evaluations", 1)
				c.DistinctS("nontrivial", "der "+tag)
				var sig []byte
				var err error
				if c.Guard("dersign-panic", "PrivateKey.Sign "+tag, nil, func() {
					sig, err = priv.Sign(&stream{data: append(append([]byte{}, nc.bytes...), 0, 0, 0, 0), perRead: nc.perRead}, msg, nil)
				}) {
					continue
				}
				want := derSig(wr, ws)
				if err != nil || !bytes.Equal(sig, want) {
					c.Violate("dersign-value:"+key.Name, fmt.Sprintf("[%s] PrivateKey.Sign = %x (err %v), want DER(r,s) = %x", tag, sig, err, want), nil, nil)
				}
				if !priv.PublicKey.Verify(msg, want) {
					c.Violate("derverify-rejects-valid:"+key.Name, fmt.Sprintf("[%s] PublicKey.Verify rejects the strict DER signature", tag), nil, nil)
				}
				// malformed encodings of the same valid (r,s)
				for name, bad := range nonDER(wr, ws) {
					c.Add("evaluations", 1)
					var acc bool
					if c.Guard("derverify-panic:"+name, "PublicKey.Verify with encoding "+name, nil, func() { acc = priv.PublicKey.Verify(msg, bad) }) {
						continue
					}
					if acc {
						c.Violate("derverify-accepts-nonDER:"+name, fmt.Sprintf("[%s] PublicKey.Verify accepted a non-DER encoding (%s): %x", tag, name, bad), nil, nil)
					}
				}
			}
		}
		c.Sample(fmt.Sprintf("%s: PrivateKey.Sign vs DER(ref r,s); 24 malformed encodings of each valid signature", key.Name))
	}}
}

func derInt(v *big.Int) []byte {
	b := v.Bytes()
	if len(b) == 0 {
		b = []byte{0}
	}
	if b[0]&0x80 != 0 {
		b = append([]byte{0}, b...)
	}
	return append([]byte{0x02, byte(len(b))}, b...)
}

func derSeq(body []byte) []byte {
	if len(body) < 128 {
		return append([]byte{0x30, byte(len(body))}, body...)
	}
	return append([]byte{0x30, 0x81, byte(len(body))}, body...)
}

func derSig(r, s *big.Int) []byte { return derSeq(append(derInt(r), derInt(s)...)) }

func nonDER(r, s *big.Int) map[string][]byte {
	ri, si := derInt(r), derInt(s)
	good := derSig(r, s)
	body := append(append([]byte{}, ri...), si...)
	m := map[string][]byte{}
	pad0 := func(i []byte) []byte { // non-minimal INTEGER: extra leading zero
		return append([]byte{0x02, i[1] + 1, 0x00}, i[2:]...)
	}
	m["r-leading-zero"] = derSeq(append(pad0(ri), si...))
	m["s-leading-zero"] = derSeq(append(append([]byte{}, ri...), pad0(si)...))
	m["trailing-byte-after-seq"] = append(append([]byte{}, good...), 0x00)
	m["trailing-bytes-after-seq"] = append(append([]byte{}, good...), 0x05, 0x00)
	m["trailing-byte-inside-seq"] = derSeq(append(append([]byte{}, body...), 0x00))
	m["extra-integer"] = derSeq(append(append([]byte{}, body...), 0x02, 0x01, 0x01))
	m["extra-null"] = derSeq(append(append([]byte{}, body...), 0x05, 0x00))
	m["missing-s"] = derSeq(ri)
	m["missing-both"] = derSeq(nil)
	m["empty"] = []byte{}
	m["only-tag"] = []byte{0x30}
	m["set-instead-of-sequence"] = append([]byte{0x31}, good[1:]...)
	m["octet-string-for-r"] = derSeq(append(append([]byte{0x04}, ri[1:]...), si...))
	m["octet-string-for-s"] = derSeq(append(append([]byte{}, ri...), append([]byte{0x04}, si[1:]...)...))
	if len(body) < 128 {
		m["long-form-seq-length"] = append([]byte{0x30, 0x81, byte(len(body))}, body...)
		m["long-form-2-seq-length"] = append([]byte{0x30, 0x82, 0x00, byte(len(body))}, body...)
	}
	m["long-form-int-length"] = derSeq(append(append([]byte{0x02, 0x81, ri[1]}, ri[2:]...), si...))
	m["indefinite-length"] = append(append([]byte{0x30, 0x80}, body...), 0x00, 0x00)
	m["seq-length-too-long"] = append([]byte{0x30, good[1] + 1}, good[2:]...)
	m["seq-length-too-short"] = append([]byte{0x30, good[1] - 1}, good[2:]...)
	m["zero-length-integer-r"] = derSeq(append([]byte{0x02, 0x00}, si...))
	m["truncated-last-byte"] = good[:len(good)-1]
	m["nested-sequence"] = derSeq(good)
	m["constructed-integer-tag"] = derSeq(append(append([]byte{0x22}, ri[1:]...), si...))
	// negative encodings: value with the high bit set and no leading zero (two's complement negative)
	if ri[2] == 0x00 {
		m["r-negative-encoding"] = derSeq(append(append([]byte{0x02, ri[1] - 1}, ri[3:]...), si...))
	}
	if si[2] == 0x00 {
		m["s-negative-encoding"] = derSeq(append(append([]byte{}, ri...), append([]byte{0x02, si[1] - 1}, si[3:]...)...))
	}
	return m
}

// rejectUnit: every single-field perturbation of valid tuples; oracle = reference verification.
func rejectUnit(ki int) harness.Unit {
	return harness.Unit{Name: fmt.Sprintf("reject/key%d", ki), Run: func(c *harness.Ctx) {
		keys := sm2k.Alphabet()
		key := keys[ki]
		pub := key.LibPub()
		n := refsm2.N
		for _, ml := range []int{0, 1, 33, 64, 1000} {
			msg := pu.Msg(ml+5, ml)
			for _, u := range uids()[:6] {
				e := refsm2.E(key.Pub, u.eff, msg)
				k := refsm2.NonceFromBytes(pu.Msg(ml+len(u.eff), 40))
				r, s, ok := refsm2.Sign(key.D, e, k)
				if !ok {
					continue
				}
				base := fmt.Sprintf("%s |M|=%d id=%s", key.Name, ml, u.name)
				check := func(what string, p *sm2.PublicKey, rp refsm2.Point, m, id, effID []byte, rr, ss *big.Int) {
					c.Add("evaluations", 1)
					c.DistinctS("nontrivial", base+"/"+what)
					want := false
					if rr.Sign() >= 0 && ss.Sign() >= 0 {
						want = refsm2.Verify(rp, refsm2.E(rp, effID, m), rr, ss)
					}
					var got bool
					if c.Guard("verify-panic:"+what, "Sm2Verify ["+base+" "+what+"]", nil, func() { got = sm2.Sm2Verify(p, m, id, rr, ss) }) {
						return
					}
					if got != want {
						c.Violate(fmt.Sprintf("verify-decision:%s", what), fmt.Sprintf("[%s] perturbation %q: Sm2Verify = %v, GM/T 0003.2 says %v (r=%x s=%x)", base, what, got, want, rr, ss), nil, nil)
					}
					// hash-level entry point too
					var got2 bool
					ee := refsm2.E(rp, effID, m)
					if c.Guard("verify-hash-panic:"+what, "sm2.Verify ["+base+" "+what+"]", nil, func() { got2 = sm2.Verify(p, ee.Bytes(), rr, ss) }) {
						return
					}
					if got2 != want {
						c.Violate(fmt.Sprintf("verify-hash-decision:%s", what), fmt.Sprintf("[%s] perturbation %q: sm2.Verify(hash) = %v, standard says %v", base, what, got2, want), nil, nil)
					}
				}
				check("none", pub, key.Pub, msg, u.id, u.eff, r, s)
				// message
				if ml > 0 {
					for _, pos := range []int{0, ml / 2, ml - 1} {
						m2 := append([]byte{}, msg...)
						m2[pos] ^= 0x01
						check(fmt.Sprintf("msg-bitflip@%s", posName(pos, ml)), pub, key.Pub, m2, u.id, u.eff, r, s)
					}
					check("msg-truncated", pub, key.Pub, msg[:ml-1], u.id, u.eff, r, s)
				}
				check("msg-extended", pub, key.Pub, append(append([]byte{}, msg...), 0), u.id, u.eff, r, s)
				// id
				id2 := append([]byte{}, u.eff...)
				id2[len(id2)-1] ^= 0x80
				check("id-bitflip", pub, key.Pub, msg, id2, id2, r, s)
				check("id-extended", pub, key.Pub, msg, append(append([]byte{}, u.eff...), 0), append(append([]byte{}, u.eff...), 0), r, s)
				if u.id != nil && !bytes.Equal(u.eff, []byte("1234567812345678")) {
					check("id-absent", pub, key.Pub, msg, nil, []byte("1234567812345678"), r, s)
				}
				// public key
				other := keys[(ki+1)%len(keys)]
				check("other-key", other.LibPub(), other.Pub, msg, u.id, u.eff, r, s)
				neg := refsm2.Neg(key.Pub)
				check("key-y-negated", &sm2.PublicKey{Curve: sm2.P256Sm2(), X: neg.X, Y: neg.Y}, neg, msg, u.id, u.eff, r, s)
				// r and s
				add := func(a *big.Int, d int64) *big.Int { return new(big.Int).Add(a, big.NewInt(d)) }
				max256 := new(big.Int).Sub(new(big.Int).Lsh(big.NewInt(1), 256), big.NewInt(1))
				for name, v := range map[string]*big.Int{"0": big.NewInt(0), "n": n, "n+r": new(big.Int).Add(n, r), "r+1": add(r, 1), "r-1": add(r, -1), "-r": new(big.Int).Neg(r), "2^256-1": max256, "n-1": add(n, -1), "1": big.NewInt(1)} {
					check("r:="+name, pub, key.Pub, msg, u.id, u.eff, v, s)
				}
				for name, v := range map[string]*big.Int{"0": big.NewInt(0), "n": n, "n+s": new(big.Int).Add(n, s), "s+1": add(s, 1), "s-1": add(s, -1), "-s": new(big.Int).Neg(s), "2^256-1": max256, "n-r (r+s=0 mod n)": new(big.Int).Sub(n, r), "n-1": add(n, -1), "1": big.NewInt(1)} {
					check("s:="+name, pub, key.Pub, msg, u.id, u.eff, r, v)
				}
				check("r,s swapped", pub, key.Pub, msg, u.id, u.eff, s, r)
			}
		}
		c.Sample(fmt.Sprintf("%s: every single-field perturbation (message bit/length, ID, key, r, s values) of 30 valid tuples", key.Name))
	}}
}

func posName(pos, l int) string {
	switch pos {
	case 0:
		return "first"
	case l - 1:
		return "last"
	}
	return "middle"
}

// Prop registers C01.
var Prop = &harness.Prop{
	ID:          "C01",
	Level:       "exploration",
	Rule:        "full product keys(12: boundary d, GM/T example, short d, Px/Py with leading zero byte found by deterministic search) x message lengths {0,1,31,32,33,55,56,63,64,65,119,128,1000,65536} x user IDs {absent, default, 1,2,16,17,255,8191 bytes} x nonce streams (k=1,2,n-1,n-2,2^255, all-ff, pattern, 1-byte reads, short k) for Sm2Sign/Sm2Verify/Verify/Sm3Digest against the independent reference, with bytes consumed; DER Sign/Verify plus 24 malformed encodings; every single-field perturbation of valid tuples decided by the reference verifier. Distinct/non-trivial = distinct case labels. Interleaved nonce reads: two signers (or a signer and GenerateKey) whose readers stop before and after filling the buffer, all 6 orders of the four events. Valid triples with r or s in {1, 7, 65537, 2^40} and e solved from the verification equation: accepted; r+n / s+n (still below 2^256) refused.",
	Assumptions: []string{"refsm2/refsm3 correct (anchored on the GM/T 0003.5 signature, encryption and key-exchange examples)", "the nonce is k = int(40 bytes) mod (n-1) + 1 as the property's anchors document", "retry branches (r=0, r+k=n, s=0) need an SM3 preimage and are not reachable"},
	Bounds: func(tier string) string {
		if tier == "thorough" {
			return "all 12 keys in all three parts"
		}
		return "sign part: all 12 keys; DER and rejection parts: 6-key sub-alphabet"
	},
	Units: func(tier string) []harness.Unit {
		var u []harness.Unit
		small := map[string]bool{}
		for _, k := range sm2k.Small() {
			small[k.Name] = true
		}
		for i, k := range sm2k.Alphabet() {
			u = append(u, signUnit(i))
			if tier == "thorough" || small[k.Name] {
				u = append(u, derUnit(i), rejectUnit(i))
			}
		}
		u = append(u, coincidenceUnit(), interleaveUnit())
		return u
	},
}
