// Package c10: chain verification ≡ reference path validator (DESIGN §3 C10).
package c10

import (
	"crypto/rand"
	"crypto/sha1"
	"crypto/x509/pkix"
	"encoding/asn1"
	"fmt"
	"math/big"
	"net"
	"strings"
	"time"

	"github.com/tjfoc/gmsm/sm2"
	gx509 "github.com/tjfoc/gmsm/x509"

	"verif/mc/props/sm2k"
)

// desc is the abstract description of a certificate: everything the reference validator uses.
// The harness generated the PKI, so these are ground truth, not parsed from the DER.
type desc struct {
	id       string
	subject  string
	issuer   string // issuer NAME in the certificate
	subjKey  int    // index of the certified key
	signKey  int    // index of the key that actually signed (forged if != key of the named issuer)
	nb, na   int    // validity window (years)
	hasBC    bool
	isCA     bool
	v1       bool // re-encoded as an X.509 version 1 certificate: no version field, no extensions; signed again by the same key
	pathLen  int  // -1 = unset
	ku       int  // 0 = no key usage extension, 1 = includes certSign, 2 = without certSign
	permit   []string
	eku      []gx509.ExtKeyUsage
	unkEKU   bool // the extension also lists a usage this library has no name for
	critUnk  bool
	dns      []string
	ips      []string
	rootable bool // may be placed in the root pool
	leaf     bool
	// key identifiers are hints for path building, never a criterion of validity (RFC 5280 4.2.1.1-2):
	ski int // subject key id: 0 derived from the certified key, 1 absent, 2 an unrelated value
	aki int // authority key id: 0 derived from the signing key, 1 absent, 2 an unrelated value, 3 the key id of kB (another CA of the universe)
}

type cert struct {
	d desc
	x *gx509.Certificate
}

var keyNames = []string{"kR1", "kR2", "kA", "kA2", "kB", "kC", "kL", "kX"}

func keyOf(i int) *sm2.PrivateKey {
	al := sm2k.Alphabet()
	return al[[]int{5, 8, 6, 7, 9, 10, 11, 4}[i]].Lib()
}

const (
	kR1 = iota
	kR2
	kA
	kA2
	kB
	kC
	kL
	kX
)

func ski(k int) []byte {
	p := keyOf(k).PublicKey
	h := sha1.Sum(append(p.X.Bytes(), p.Y.Bytes()...))
	return h[:]
}

func year(y int) time.Time { return time.Date(y, 6, 1, 0, 0, 0, 0, time.UTC) }

var serial int64 = 1000

func build(d desc) (*cert, error) {
	serial++
	tmpl := &gx509.Certificate{
		SerialNumber:          big.NewInt(serial),
		Subject:               pkix.Name{CommonName: d.subject, Organization: []string{"verif"}},
		NotBefore:             year(d.nb),
		NotAfter:              year(d.na),
		SignatureAlgorithm:    gx509.SM2WithSM3,
		BasicConstraintsValid: d.hasBC,
		IsCA:                  d.isCA,
		SubjectKeyId:          [][]byte{ski(d.subjKey), nil, []byte("unrelated-subject-key-id")}[d.ski],
		DNSNames:              d.dns,
		ExtKeyUsage:           d.eku,
	}
	if d.unkEKU {
		tmpl.UnknownExtKeyUsage = []asn1.ObjectIdentifier{{1, 3, 6, 1, 4, 1, 55555, 1, 1}}
	}
	for _, ip := range d.ips {
		tmpl.IPAddresses = append(tmpl.IPAddresses, net.ParseIP(ip))
	}
	if d.pathLen >= 0 {
		tmpl.MaxPathLen = d.pathLen
		tmpl.MaxPathLenZero = d.pathLen == 0
	} else {
		tmpl.MaxPathLen = -1
	}
	switch d.ku {
	case 1:
		tmpl.KeyUsage = gx509.KeyUsageCertSign | gx509.KeyUsageDigitalSignature
	case 2:
		tmpl.KeyUsage = gx509.KeyUsageDigitalSignature | gx509.KeyUsageKeyEncipherment
	}
	if len(d.permit) > 0 {
		tmpl.PermittedDNSDomains = d.permit
		tmpl.PermittedDNSDomainsCritical = true
	}
	if d.critUnk {
		tmpl.ExtraExtensions = []pkix.Extension{{Id: asn1.ObjectIdentifier{1, 2, 3, 4, 5, 99}, Critical: true, Value: []byte{0x05, 0x00}}}
	}
	// the parent template supplies the issuer name and the authority key id; key ids are a function
	// of the key everywhere, so the authority key id names the key that actually signed
	parent := &gx509.Certificate{Subject: pkix.Name{CommonName: d.issuer, Organization: []string{"verif"}}, SubjectKeyId: [][]byte{ski(d.signKey), nil, []byte("unrelated-authority-key-id"), ski(kB)}[d.aki]}
	der, err := gx509.CreateCertificate(tmpl, parent, &keyOf(d.subjKey).PublicKey, keyOf(d.signKey))
	if err != nil {
		return nil, fmt.Errorf("create %s: %v", d.id, err)
	}
	x, err := gx509.ParseCertificate(der)
	if err != nil {
		return nil, fmt.Errorf("parse %s: %v", d.id, err)
	}
	if d.v1 {
		if der, err = asVersion1(x, keyOf(d.signKey)); err != nil {
			return nil, fmt.Errorf("version 1 form of %s: %v", d.id, err)
		}
		if x, err = gx509.ParseCertificate(der); err != nil {
			return nil, fmt.Errorf("parse version 1 form of %s: %v", d.id, err)
		}
		if x.Version != 1 || len(x.Extensions) != 0 {
			return nil, fmt.Errorf("%s: version %d with %d extensions after re-encoding", d.id, x.Version, len(x.Extensions))
		}
	}
	return &cert{d, x}, nil
}

// asVersion1 drops the version field and the extensions from the TBSCertificate and signs the result
// again: the certificate a pre-1996 CA would have issued. CreateCertificate cannot produce one.
func asVersion1(x *gx509.Certificate, signer *sm2.PrivateKey) ([]byte, error) {
	var tbs asn1.RawValue
	if _, err := asn1.Unmarshal(x.RawTBSCertificate, &tbs); err != nil {
		return nil, err
	}
	var body []byte
	rest := tbs.Bytes
	for len(rest) > 0 {
		var el asn1.RawValue
		var err error
		if rest, err = asn1.Unmarshal(rest, &el); err != nil {
			return nil, err
		}
		if el.Class == asn1.ClassContextSpecific && (el.Tag == 0 || el.Tag == 3) {
			continue
		}
		body = append(body, el.FullBytes...)
	}
	newTBS, err := asn1.Marshal(asn1.RawValue{Class: 0, Tag: 16, IsCompound: true, Bytes: body})
	if err != nil {
		return nil, err
	}
	sig, err := signer.Sign(rand.Reader, newTBS, nil)
	if err != nil {
		return nil, err
	}
	// Certificate ::= SEQUENCE { tbs, signatureAlgorithm, signature }: the algorithm is the second element of the original
	var outer asn1.RawValue
	if _, err := asn1.Unmarshal(x.Raw, &outer); err != nil {
		return nil, err
	}
	var first, alg asn1.RawValue
	r2, err := asn1.Unmarshal(outer.Bytes, &first)
	if err != nil {
		return nil, err
	}
	if _, err = asn1.Unmarshal(r2, &alg); err != nil {
		return nil, err
	}
	bs, err := asn1.Marshal(asn1.BitString{Bytes: sig, BitLength: 8 * len(sig)})
	if err != nil {
		return nil, err
	}
	return asn1.Marshal(asn1.RawValue{Class: 0, Tag: 16, IsCompound: true, Bytes: append(append(append([]byte{}, newTBS...), alg.FullBytes...), bs...)})
}

type universe struct {
	roots, inters, leaves []*cert
	byID                  map[string]*cert
}

func ca(id, subj, iss string, sk, gk int) desc {
	return desc{id: id, subject: subj, issuer: iss, subjKey: sk, signKey: gk, nb: 2019, na: 2030, hasBC: true, isCA: true, pathLen: -1, ku: 1}
}

func (d desc) with(f func(*desc)) desc { f(&d); return d }

func buildUniverse() (*universe, error) {
	u := &universe{byID: map[string]*cert{}}
	add := func(list *[]*cert, d desc) error {
		c, err := build(d)
		if err != nil {
			return err
		}
		*list = append(*list, c)
		u.byID[d.id] = c
		return nil
	}
	r1 := ca("R1", "R1", "R1", kR1, kR1)
	r1.rootable = true
	rootDescs := []desc{
		r1,
		r1.with(func(d *desc) { d.id = "R1-expired"; d.nb, d.na = 2010, 2018 }),
		r1.with(func(d *desc) { d.id = "R1-notyet"; d.nb, d.na = 2022, 2040 }),
		r1.with(func(d *desc) { d.id = "R1-CAfalse"; d.isCA = false }),
		r1.with(func(d *desc) { d.id = "R1-noBC"; d.hasBC = false; d.isCA = false }),
		r1.with(func(d *desc) { d.id = "R1-noCertSign"; d.ku = 2 }),
		r1.with(func(d *desc) { d.id = "R1-noKU"; d.ku = 0 }),
		r1.with(func(d *desc) { d.id = "R1-pathlen0"; d.pathLen = 0 }),
		r1.with(func(d *desc) { d.id = "R1-pathlen1"; d.pathLen = 1 }),
		ca("R2", "R2", "R2", kR2, kR2).with(func(d *desc) { d.rootable = true }),
		ca("R1-otherkey", "R1", "R1", kX, kX).with(func(d *desc) { d.rootable = true }),
		r1.with(func(d *desc) { d.id = "R1-noSKI"; d.ski = 1 }),
	}
	for _, d := range rootDescs {
		if err := add(&u.roots, d); err != nil {
			return nil, err
		}
	}
	// CA certificates with an extended-key-usage extension: reachable by id only (ca-eku unit), not
	// part of the enumerated pools
	var extra []*cert
	clientOnly := func(d *desc) { d.eku = []gx509.ExtKeyUsage{gx509.ExtKeyUsageClientAuth} }
	if err := add(&extra, r1.with(func(d *desc) { d.id = "R1-clientAuthEKU"; clientOnly(d) })); err != nil {
		return nil, err
	}
	if err := add(&extra, ca("A", "A", "R1", kA, kR1).with(func(d *desc) { d.id = "A-clientAuthEKU"; clientOnly(d) })); err != nil {
		return nil, err
	}
	a := ca("A", "A", "R1", kA, kR1)
	b := ca("B", "B", "A", kB, kA)
	interDescs := []desc{
		a,
		a.with(func(d *desc) { d.id = "A-expired"; d.nb, d.na = 2010, 2018 }),
		a.with(func(d *desc) { d.id = "A-notyet"; d.nb, d.na = 2022, 2040 }),
		a.with(func(d *desc) { d.id = "A-CAfalse"; d.isCA = false }),
		a.with(func(d *desc) { d.id = "A-noBC"; d.hasBC = false; d.isCA = false }),
		a.with(func(d *desc) {
			d.id = "A-version1"
			d.v1 = true
			d.hasBC = false
			d.isCA = false
			d.ku = 0
			d.ski = 1
		}),
		a.with(func(d *desc) { d.id = "A-noCertSign"; d.ku = 2 }),
		a.with(func(d *desc) { d.id = "A-pathlen0"; d.pathLen = 0 }),
		a.with(func(d *desc) { d.id = "A-forged"; d.signKey = kX }),
		ca("A-byR2", "A", "R2", kA, kR2),
		ca("A-altkey", "A", "R1", kA2, kR1),
		ca("A-byB", "A", "B", kA, kB), // closes a loop with B (issued by A)
		b,
		b.with(func(d *desc) { d.id = "B-expired"; d.nb, d.na = 2010, 2018 }),
		b.with(func(d *desc) { d.id = "B-pathlen0"; d.pathLen = 0 }),
		b.with(func(d *desc) { d.id = "B-forged"; d.signKey = kX }),
		ca("B-byR1", "B", "R1", kB, kR1),
		ca("B-byAalt", "B", "A", kB, kA2),
		ca("C", "C", "B", kC, kB),
		ca("C-byA", "C", "A", kC, kA),
		ca("X-R1-as-intermediate", "R1", "R2", kR1, kR2), // cross certificate of R1 issued by R2
		a.with(func(d *desc) { d.id = "A-noSKI"; d.ski = 1 }),
		a.with(func(d *desc) { d.id = "A-otherSKI"; d.ski = 2 }),
		a.with(func(d *desc) { d.id = "A-noAKI"; d.aki = 1 }),
	}
	for _, d := range interDescs {
		if err := add(&u.inters, d); err != nil {
			return nil, err
		}
	}
	leafBase := func(id, iss string, gk int) desc {
		return desc{id: id, subject: "L", issuer: iss, subjKey: kL, signKey: gk, nb: 2019, na: 2030, pathLen: -1, ku: 2, dns: []string{"www.example.test"}, leaf: true}
	}
	lA := leafBase("L-byA", "A", kA)
	leafDescs := []desc{
		leafBase("L-byR1", "R1", kR1),
		lA,
		leafBase("L-byB", "B", kB),
		leafBase("L-byC", "C", kC),
		leafBase("L-byAalt", "A", kA2),
		lA.with(func(d *desc) { d.id = "L-byA-forged"; d.signKey = kX }),
		lA.with(func(d *desc) { d.id = "L-byA-expired"; d.nb, d.na = 2010, 2018 }),
		lA.with(func(d *desc) { d.id = "L-byA-notyet"; d.nb, d.na = 2022, 2040 }),
		lA.with(func(d *desc) { d.id = "L-byA-critical"; d.critUnk = true }),
		lA.with(func(d *desc) { d.id = "L-byA-serverAuth"; d.eku = []gx509.ExtKeyUsage{gx509.ExtKeyUsageServerAuth} }),
		lA.with(func(d *desc) { d.id = "L-byA-clientAuth"; d.eku = []gx509.ExtKeyUsage{gx509.ExtKeyUsageClientAuth} }),
		lA.with(func(d *desc) { d.id = "L-byA-anyEKU"; d.eku = []gx509.ExtKeyUsage{gx509.ExtKeyUsageAny} }),
		lA.with(func(d *desc) {
			d.id = "L-byA-both"
			d.eku = []gx509.ExtKeyUsage{gx509.ExtKeyUsageServerAuth, gx509.ExtKeyUsageClientAuth}
		}),
		lA.with(func(d *desc) {
			d.id = "L-byA-msSGC"
			d.eku = []gx509.ExtKeyUsage{gx509.ExtKeyUsageMicrosoftServerGatedCrypto}
		}),
		lA.with(func(d *desc) {
			d.id = "L-byA-nsSGC"
			d.eku = []gx509.ExtKeyUsage{gx509.ExtKeyUsageNetscapeServerGatedCrypto}
		}),
		lA.with(func(d *desc) {
			d.id = "L-byA-msSGC+code"
			d.eku = []gx509.ExtKeyUsage{gx509.ExtKeyUsageCodeSigning, gx509.ExtKeyUsageMicrosoftServerGatedCrypto}
		}),
		lA.with(func(d *desc) { d.id = "L-byA-email"; d.eku = []gx509.ExtKeyUsage{gx509.ExtKeyUsageEmailProtection} }),
		lA.with(func(d *desc) { d.id = "L-byA-unknownEKU"; d.unkEKU = true }),
		lA.with(func(d *desc) {
			d.id = "L-byA-unknownEKU+client"
			d.unkEKU = true
			d.eku = []gx509.ExtKeyUsage{gx509.ExtKeyUsageClientAuth}
		}),
		lA.with(func(d *desc) { d.id = "L-byA-noAKI"; d.aki = 1 }),
		lA.with(func(d *desc) { d.id = "L-byA-otherAKI"; d.aki = 2 }),
		lA.with(func(d *desc) { d.id = "L-byA-AKIofB"; d.aki = 3 }),
		lA.with(func(d *desc) { d.id = "L-byA-wildcard"; d.dns = []string{"*.example.test"} }),
		lA.with(func(d *desc) { d.id = "L-byA-ip"; d.dns = nil; d.ips = []string{"10.0.0.1"} }),
		lA.with(func(d *desc) {
			d.id = "L-byA-dns+ip"
			d.dns = []string{"www.example.test", "alt.example.test"}
			d.ips = []string{"10.0.0.1", "2001:db8::1"}
		}),
	}
	for _, d := range leafDescs {
		if err := add(&u.leaves, d); err != nil {
			return nil, err
		}
	}
	// constrained CAs (used only with a non-empty DNSName)
	for _, pc := range []struct {
		tag    string
		permit []string
	}{
		{"permit-example.test", []string{"example.test"}},
		{"permit-.example.test", []string{".example.test"}},
		{"permit-www.example.test", []string{"www.example.test"}},
		{"permit-other.test", []string{"other.test"}},
		{"permit-ample.test", []string{"ample.test"}},
		{"permit-two", []string{"other.test", "example.test"}},
		{"permit-two-matching-first", []string{"example.test", "other.test"}},
		{"permit-three-matching-middle", []string{"x.test", "example.test", "other.test"}},
	} {
		pc := pc
		if err := add(&u.inters, a.with(func(d *desc) { d.id = "A-" + pc.tag; d.permit = pc.permit })); err != nil {
			return nil, err
		}
		if err := add(&u.roots, r1.with(func(d *desc) { d.id = "R1-" + pc.tag; d.permit = pc.permit })); err != nil {
			return nil, err
		}
	}
	return u, nil
}

func ids(cs []*cert) string {
	var s []string
	for _, c := range cs {
		s = append(s, c.d.id)
	}
	return "[" + strings.Join(s, " ") + "]"
}
